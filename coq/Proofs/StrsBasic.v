(* C17 foundations: the scanning step always advances inside the string; chunks partition the string;
   Len; Sub.  Ported from design-notes/proto/SubRunes_proto.v to the byte type of Lib.Utf8 (Z) and to Go-int
   arguments (Z with 64-bit wrap of start+length). *)
From Coq Require Import List ZArith Lia Bool Arith.
From V Require Import Lib.Utf8 Proofs.Utf8Facts Model.Strs.
Import ListNotations.
Local Open Scope Z_scope.
Arguments Z.mul : simpl never.
Arguments Z.add : simpl never.
Arguments Z.sub : simpl never.
Arguments Z.of_nat : simpl never.
Arguments Z.to_nat : simpl never.

Lemma adv_width r : r <> [] -> adv r = width r.
Proof.
  destruct r as [|b t]; [congruence|]. intros _. unfold adv. destruct (b <? 128) eqn:E; [|reflexivity].
  unfold width. cbn [decode]. rewrite E. reflexivity.
Qed.
Lemma adv_pos r : r <> [] -> (1 <= adv r <= length r)%nat.
Proof. intros H. rewrite adv_width by exact H. apply width_pos. exact H. Qed.

(* ---- generic list facts ---- *)
Lemma concat_snoc {A} (ps : list (list A)) r : concat (ps ++ [r]) = concat ps ++ r.
Proof. rewrite concat_app. cbn [concat]. rewrite app_nil_r. reflexivity. Qed.
Lemma skipn_len_app {A} (a b : list A) : skipn (length a) (a ++ b) = b.
Proof. rewrite skipn_app, Nat.sub_diag, skipn_all. reflexivity. Qed.
Lemma firstn_len_app {A} (a b : list A) : firstn (length a) (a ++ b) = a.
Proof. rewrite firstn_app, Nat.sub_diag, firstn_all. cbn [firstn]. apply app_nil_r. Qed.

(* ---- chunks ---- *)
Lemma chunks_concat_fuel : forall fuel r, (length r <= fuel)%nat -> concat (chunks_fuel fuel r) = r.
Proof.
  induction fuel as [|f IH]; intros r Hr; [destruct r; cbn in *; [reflexivity|lia]|].
  cbn [chunks_fuel]. destruct r as [|a r']; [reflexivity|]. cbn [concat].
  pose proof (adv_pos (a :: r') ltac:(discriminate)) as Hs.
  rewrite IH by (rewrite skipn_length; cbn [length] in *; lia). apply firstn_skipn.
Qed.
Lemma chunks_concat r : concat (chunks r) = r.
Proof. apply chunks_concat_fuel. lia. Qed.
Lemma chunks_fuel2 : forall f1 f2 r, (length r <= f1)%nat -> (length r <= f2)%nat -> chunks_fuel f1 r = chunks_fuel f2 r.
Proof.
  induction f1 as [|f1 IH]; intros f2 r H1 H2.
  - destruct r; [destruct f2; reflexivity|cbn in H1; lia].
  - destruct r as [|a r']; [destruct f2; reflexivity|]. destruct f2 as [|f2]; [cbn in H2; lia|].
    pose proof (adv_pos (a :: r') ltac:(discriminate)) as Hs. cbn [chunks_fuel]. f_equal.
    apply IH; rewrite skipn_length; cbn [length] in *; lia.
Qed.
Lemma chunks_cons r : r <> [] -> chunks r = firstn (adv r) r :: chunks (skipn (adv r) r).
Proof.
  intros Hr. unfold chunks. destruct r as [|a r']; [congruence|].
  pose proof (adv_pos (a :: r') ltac:(discriminate)) as Hs. change (length (a :: r')) with (S (length r')) at 1.
  cbn [chunks_fuel]. f_equal. apply chunks_fuel2; rewrite skipn_length; cbn [length] in *; lia.
Qed.
Lemma chunks_nil : chunks [] = [].
Proof. reflexivity. Qed.
Lemma chunks_nonempty_fuel : forall fuel r, Forall (fun c => c <> []) (chunks_fuel fuel r).
Proof.
  induction fuel as [|f IH]; intros r; cbn [chunks_fuel]; [constructor|]. destruct r as [|a r']; [constructor|].
  constructor; [|apply IH]. pose proof (adv_pos (a :: r') ltac:(discriminate)) as H. intros E.
  apply (f_equal (@length Z)) in E. rewrite firstn_length in E. cbn [length] in *. lia.
Qed.
Lemma chunks_nonempty r : Forall (fun c => c <> []) (chunks r).
Proof. apply chunks_nonempty_fuel. Qed.

Lemma chunks_length_fuel : forall fuel r, (length (chunks_fuel fuel r) <= length r)%nat.
Proof.
  induction fuel as [|f IH]; intros r; cbn [chunks_fuel length]; [lia|]. destruct r as [|a r']; [cbn [length]; lia|].
  pose proof (adv_pos (a :: r') ltac:(discriminate)) as Hs. specialize (IH (skipn (adv (a :: r')) (a :: r'))).
  rewrite skipn_length in IH. cbn [length] in *. lia.
Qed.
Lemma chunks_length r : (length (chunks r) <= length r)%nat.
Proof. apply chunks_length_fuel. Qed.

(* a decomposition of the remaining text into its chunks: head chunk facts used by every loop proof *)
Lemma chunks_head r rs' R : R = concat (r :: rs') -> chunks R = r :: rs' ->
  R <> [] /\ length r = adv R /\ skipn (adv R) R = concat rs' /\ chunks (concat rs') = rs'.
Proof.
  intros HR Hr. assert (HRne : R <> []) by (intros E; rewrite E in Hr; discriminate).
  rewrite (chunks_cons R HRne) in Hr. injection Hr as Er Ers.
  pose proof (adv_pos R HRne) as Hsz.
  assert (Hlr : length r = adv R) by (rewrite <- Er at 1; rewrite firstn_length; lia).
  assert (Hcr : skipn (adv R) R = concat rs') by (rewrite <- Hlr, HR; cbn [concat]; apply skipn_len_app).
  repeat split; auto. rewrite <- Hcr. exact Ers.
Qed.

(* ---- Len / RuneCountInString ---- *)
Lemma count_go_chunks : forall fuel r n, (length r <= fuel)%nat ->
  count_go fuel r n = n + Z.of_nat (length (chunks_fuel fuel r)).
Proof.
  induction fuel as [|f IH]; intros r n Hr; cbn [count_go chunks_fuel length]; [lia|].
  destruct r as [|a r']; [cbn [length]; lia|].
  pose proof (adv_pos (a :: r') ltac:(discriminate)) as Hs.
  rewrite IH by (rewrite skipn_length; cbn [length] in *; lia). cbn [length]. lia.
Qed.
Lemma rune_count_chunks s : rune_count_z s = Z.of_nat (length (chunks s)).
Proof. unfold rune_count_z, chunks. rewrite count_go_chunks by lia. lia. Qed.
Theorem len_spec s : len s = Z.of_nat (length (chunks s)).
Proof. apply rune_count_chunks. Qed.

(* ---- clamped firstn / skipn ---- *)
Lemma clampn_small {A} z (l : list A) : 0 <= z <= Z.of_nat (length l) -> clampn z l = Z.to_nat z.
Proof. intros H. unfold clampn. f_equal. lia. Qed.
Lemma clampn_big {A} z (l : list A) : Z.of_nat (length l) <= z -> clampn z l = length l.
Proof. intros H. unfold clampn. rewrite Z.max_l by lia. rewrite Z.min_r by lia. apply Nat2Z.id. Qed.
Lemma clampn_nat {A} (n : nat) (l : list A) : clampn (Z.of_nat n) l = Nat.min n (length l).
Proof. unfold clampn. lia. Qed.
Lemma firstz_nat {A} (n : nat) (l : list A) : firstz (Z.of_nat n) l = firstn n l.
Proof.
  unfold firstz. rewrite clampn_nat. destruct (Nat.le_ge_cases n (length l)).
  - rewrite Nat.min_l by lia. reflexivity.
  - rewrite Nat.min_r by lia. rewrite firstn_all, firstn_all2 by lia. reflexivity.
Qed.
Lemma skipz_nat {A} (n : nat) (l : list A) : skipz (Z.of_nat n) l = skipn n l.
Proof.
  unfold skipz. rewrite clampn_nat. destruct (Nat.le_ge_cases n (length l)).
  - rewrite Nat.min_l by lia. reflexivity.
  - rewrite Nat.min_r by lia. rewrite skipn_all, skipn_all2 by lia. reflexivity.
Qed.
Lemma firstz_big {A} z (l : list A) : Z.of_nat (length l) <= z -> firstz z l = l.
Proof. intros H. unfold firstz. rewrite clampn_big by lia. apply firstn_all. Qed.
Lemma skipz_big {A} z (l : list A) : Z.of_nat (length l) <= z -> skipz z l = [].
Proof. intros H. unfold skipz. rewrite clampn_big by lia. apply skipn_all. Qed.

(* ---- checked slices ---- *)
Lemma sl_ok s a b : (a <= b <= length s)%nat -> sl s a b = Ret (firstn (b - a) (skipn a s)).
Proof.
  intros H. unfold sl. destruct (Nat.leb_spec a b); [|lia]. destruct (Nat.leb_spec b (length s)); [|lia]. reflexivity.
Qed.
Lemma sl_prefix A B : sl (A ++ B) 0 (length A) = Ret A.
Proof. rewrite sl_ok by (rewrite app_length; lia). rewrite Nat.sub_0_r. cbn [skipn]. rewrite firstn_len_app. reflexivity. Qed.
Lemma sl_suffix A B : sl (A ++ B) (length A) (length (A ++ B)) = Ret B.
Proof.
  rewrite sl_ok by (rewrite app_length; lia). rewrite skipn_len_app, app_length.
  replace (length A + length B - length A)%nat with (length B) by lia. rewrite firstn_all. reflexivity.
Qed.
Lemma sl_mid A B C : sl (A ++ B ++ C) (length A) (length A + length B) = Ret B.
Proof.
  rewrite sl_ok by (rewrite !app_length; lia). rewrite skipn_len_app.
  replace (length A + length B - length A)%nat with (length B) by lia. rewrite firstn_len_app. reflexivity.
Qed.

(* ---- wrap64 ---- *)
Lemma wrap64_id z : - two63 <= z < two63 -> wrap64 z = z.
Proof. intros H. unfold wrap64, two63, two64 in *. rewrite Z.mod_small by lia. lia. Qed.
Lemma wrap64_over z : two63 <= z < two64 -> wrap64 z < 0.
Proof.
  intros H. unfold wrap64, two63, two64 in *.
  replace (z + 9223372036854775808) with ((z - 9223372036854775808) + 1 * 18446744073709551616) by lia.
  rewrite Z.mod_add by lia. rewrite Z.mod_small by lia. lia.
Qed.

(* ---- Sub ---- *)
(* what Sub must return after the guards: runes [start, start+length) (to the end for -1), length >= 1 or -1 *)
Definition want (start length_ : Z) (cs : list (list Z)) : list Z :=
  concat (if length_ =? -1 then skipz start cs else firstz length_ (skipz start cs)).

Definition off (cs : list (list Z)) (k : nat) : nat := length (concat (firstn k cs)).

(* loop invariant: ps = the runes already passed, rs = those still ahead *)
Lemma sub_go_spec s start length_ : 0 <= start <= maxint -> (length_ = -1 \/ 1 <= length_ <= maxint) ->
  zlen s <= maxint ->
  forall rs ps fuel, (length ps + length rs <= length s)%nat ->
  s = concat ps ++ concat rs -> chunks (concat rs) = rs -> (length (concat rs) < fuel)%nat ->
  (length_ = -1 -> Z.of_nat (length ps) <= start) ->
  (1 <= length_ -> Z.of_nat (length ps) <= start + length_) ->
  sub_go s start length_ fuel (length (concat ps)) (Z.of_nat (length ps))
         (if start <? Z.of_nat (length ps) then Z.of_nat (off ps (Z.to_nat start)) else -1)
  = Ret (want start length_ (ps ++ rs)).
Proof.
  intros Hst Hlen Hsmall.
  induction rs as [|r rs' IH]; intros ps fuel Hcnt Hs Hr Hf Hinv1 Hinv2; (destruct fuel as [|f]; [lia|]); cbn [sub_go].
  - cbn [concat] in Hs. rewrite app_nil_r in Hs. rewrite app_nil_r. rewrite Hs, Nat.ltb_irrefl. unfold want.
    destruct (Z.ltb_spec start (Z.of_nat (length ps))) as [Hlt|Hge].
    + destruct Hlen as [->|Hlen]; [specialize (Hinv1 eq_refl); lia|]. specialize (Hinv2 ltac:(lia)).
      destruct (Z.ltb_spec (Z.of_nat (off ps (Z.to_nat start))) 0); [lia|]. rewrite Nat2Z.id.
      destruct (Z.eqb_spec length_ (-1)); [lia|].
      replace start with (Z.of_nat (Z.to_nat start)) at 2 by lia. rewrite skipz_nat.
      rewrite firstz_big by (rewrite skipn_length; lia).
      unfold off.
      assert (Hsplit : concat ps = concat (firstn (Z.to_nat start) ps) ++ concat (skipn (Z.to_nat start) ps))
        by (rewrite <- concat_app, firstn_skipn; reflexivity).
      rewrite Hsplit at 1 2. apply sl_suffix.
    + cbn [Z.ltb]. rewrite skipz_big by lia. destruct (length_ =? -1); [reflexivity|]. unfold firstz. rewrite firstn_nil. reflexivity.
  - set (R := concat (r :: rs')) in *.
    destruct (chunks_head r rs' R eq_refl Hr) as (HRne & Hlr & Hcr & Ers).
    pose proof (adv_pos R HRne) as Hsz.
    assert (HR : R = r ++ concat rs') by reflexivity.
    assert (Hi : (length (concat ps) < length s)%nat) by (rewrite Hs, app_length; destruct R; [congruence|cbn [length]; lia]).
    destruct (Nat.ltb_spec (length (concat ps)) (length s)); [|lia].
    assert (Hsk : skipn (length (concat ps)) s = R) by (rewrite Hs; apply skipn_len_app).
    rewrite Hsk, <- Hlr.
    assert (Hoff : forall k, (k <= length ps)%nat -> off (ps ++ [r]) k = off ps k)
      by (intros k Hk; unfold off; rewrite firstn_app; replace (k - length ps)%nat with 0%nat by lia; cbn [firstn]; rewrite app_nil_r; reflexivity).
    assert (Hoffn : off ps (length ps) = length (concat ps)) by (unfold off; rewrite firstn_all; reflexivity).
    assert (Hnext : forall b,
              (length_ = -1 -> Z.of_nat (S (length ps)) <= start) ->
              (1 <= length_ -> Z.of_nat (S (length ps)) <= start + length_) ->
              b = (if start <? Z.of_nat (S (length ps)) then Z.of_nat (off (ps ++ [r]) (Z.to_nat start)) else -1) ->
              sub_go s start length_ f (length (concat ps) + length r) (Z.of_nat (length ps) + 1) b
              = Ret (want start length_ (ps ++ r :: rs'))).
    { intros b Hi1 Hi2 ->. replace (ps ++ r :: rs') with ((ps ++ [r]) ++ rs') by (rewrite <- app_assoc; reflexivity).
      replace (length (concat ps) + length r)%nat with (length (concat (ps ++ [r]))) by (rewrite concat_snoc, app_length; reflexivity).
      assert (El : S (length ps) = length (ps ++ [r])) by (rewrite app_length; cbn [length]; lia).
      replace (Z.of_nat (length ps) + 1) with (Z.of_nat (length (ps ++ [r]))) by lia.
      rewrite El in *. apply IH; auto.
      - rewrite app_length. cbn [length] in *. lia.
      - rewrite concat_snoc, <- app_assoc. exact Hs.
      - rewrite HR, app_length in Hf. lia. }
    destruct (Z.eqb_spec (Z.of_nat (length ps)) start) as [Ec|Ec].
    + (* count == start *)
      destruct (Z.eqb_spec length_ (-1)) as [El|El].
      * unfold want. rewrite El. cbn [Z.eqb]. rewrite <- Ec, skipz_nat, skipn_len_app, Hs.
        fold R. rewrite sl_suffix. reflexivity.
      * apply Hnext; [lia|lia|]. destruct (Z.ltb_spec start (Z.of_nat (S (length ps)))); [|lia].
        rewrite Hoff by lia. rewrite <- Ec, Nat2Z.id, Hoffn. reflexivity.
    + destruct (Z.ltb_spec start (Z.of_nat (length ps))) as [Hlt|Hge].
      * destruct Hlen as [->|Hlen]; [specialize (Hinv1 eq_refl); lia|]. specialize (Hinv2 ltac:(lia)).
        destruct (Z.leb_spec 0 (Z.of_nat (off ps (Z.to_nat start)))); [|lia]. cbn [andb].
        destruct (Z.eqb_spec (wrap64 (start + length_)) (Z.of_nat (length ps))) as [E|E].
        -- (* start+length == count: return s[begin:i] *)
           assert (Hnw : start + length_ < two63).
           { destruct (Z.lt_ge_cases (start + length_) two63); auto.
             pose proof (wrap64_over (start + length_)). unfold two63, two64, maxint in *. lia. }
           rewrite wrap64_id in E by (unfold two63 in *; lia).
           rewrite Nat2Z.id. unfold want. destruct (Z.eqb_spec length_ (-1)); [lia|].
           replace start with (Z.of_nat (Z.to_nat start)) at 2 by lia. rewrite skipz_nat.
           rewrite skipn_app. replace (Z.to_nat start - length ps)%nat with 0%nat by lia. rewrite skipn_O.
           unfold firstz. rewrite clampn_small by (rewrite app_length, skipn_length; lia).
           rewrite firstn_app. replace (Z.to_nat length_ - length (skipn (Z.to_nat start) ps))%nat with 0%nat by (rewrite skipn_length; lia).
           cbn [firstn]. rewrite app_nil_r. rewrite (firstn_all2 (skipn (Z.to_nat start) ps)) by (rewrite skipn_length; lia).
           rewrite Hs. unfold off.
           assert (Hsplit : concat ps = concat (firstn (Z.to_nat start) ps) ++ concat (skipn (Z.to_nat start) ps))
             by (rewrite <- concat_app, firstn_skipn; reflexivity).
           rewrite Hsplit at 1 2. rewrite <- app_assoc.
           rewrite app_length. apply sl_mid.
        -- apply Hnext; [lia| |].
           ++ intros _. destruct (Z.lt_ge_cases (start + length_) two63).
              ** rewrite wrap64_id in E by (unfold two63 in *; lia). lia.
              ** cbn [length] in Hcnt. unfold two63, zlen, maxint in *. lia.
           ++ destruct (Z.ltb_spec start (Z.of_nat (S (length ps)))); [|lia]. rewrite Hoff by lia. reflexivity.
      * assert (Hb : (if start <? Z.of_nat (S (length ps)) then Z.of_nat (off (ps ++ [r]) (Z.to_nat start)) else -1) = -1)
          by (destruct (Z.ltb_spec start (Z.of_nat (S (length ps)))); [lia|reflexivity]).
        cbn [Z.leb andb]. apply Hnext; auto; lia.
Qed.

Lemma want_nil start length_ : want start length_ [] = [].
Proof. unfold want, skipz, firstz. rewrite skipn_nil. destruct (length_ =? -1); [reflexivity|]. rewrite firstn_nil. reflexivity. Qed.

(* Sub on every byte string, every 0 <= start, every -1 <= length (int64 range): the runes [start, start+length),
   to the end for -1; in particular no slice expression is out of range and the fuel suffices *)
Theorem sub_spec s start length_ : zlen s <= maxint -> 0 <= start <= maxint -> -1 <= length_ <= maxint ->
  sub s start length_ = Ret (spec_sub s start length_).
Proof.
  intros Hsmall Hst Hl. unfold sub, spec_sub.
  destruct (Z.ltb_spec start 0); [lia|]. destruct (Z.ltb_spec length_ (-1)); [lia|]. cbn [orb].
  destruct s as [|a s'] eqn:Es.
  - rewrite chunks_nil. unfold skipz, firstz. rewrite skipn_nil, firstn_nil. destruct (length_ =? 0); [reflexivity|]. destruct (length_ =? -1); reflexivity.
  - rewrite <- Es in *. destruct (Z.eqb_spec length_ 0) as [E0|E0]; [reflexivity|].
    assert (Hc : concat (chunks s) = s) by apply chunks_concat.
    pose proof (sub_go_spec s start length_ Hst ltac:(lia) Hsmall (chunks s) [] (S (length s))) as G.
    cbn [concat app length] in G. change (Z.of_nat 0) with 0 in G.
    destruct (Z.ltb_spec start 0); [lia|].
    rewrite G; [| pose proof (chunks_length s); lia | symmetry; exact Hc | rewrite Hc; reflexivity | rewrite Hc; lia | lia | lia].
    unfold want. destruct (length_ =? -1); reflexivity.
Qed.

Corollary sub_no_panic s start length_ : zlen s <= maxint -> - two63 <= start <= maxint -> - two63 <= length_ <= maxint ->
  exists b, sub s start length_ = Ret b.
Proof.
  intros Hsmall Hs Hl. destruct (Z.lt_ge_cases start 0) as [H|H].
  - unfold sub. destruct (Z.ltb_spec start 0); [|lia]. cbn [orb]. eauto.
  - destruct (Z.lt_ge_cases length_ (-1)) as [H'|H'].
    + unfold sub. destruct (Z.ltb_spec length_ (-1)); [|lia]. rewrite orb_true_r. cbn [orb]. eauto.
    + eexists. apply sub_spec; lia.
Qed.
