(* C13 — the code GENERATED from listz/doubly_list.go (coq/Gen/DListCode.v, by gen/trans_ext13.go on every run: DNode and
   DList in ONE heap, pointers = ids, the sentinel `root` stored inline so that &l.root is the id of l) is equal to the
   hand-written heap-level model coq/Model/DList.v, function by function, for all heaps and all non-nil arguments.
   No loops here (PushBackDList / PushFrontDList are not translated yet): unfold both sides + case analysis. *)
From Coq Require Import List ZArith Lia Bool Arith.
From V Require Import Model.DList Lib.GoSem Lib.GoSemHeap Proofs.GoSemFacts Gen.DListCode.
Import GoNotations.
Local Open Scope Z_scope.

Definition tm (h : Heap) : heap :=
  {| nxt := DNode_next h; prv := DNode_prev h; own := DNode_list h; val := DNode_Value h; llen := DList_len h; fresh := h_fresh h |}.
Definition hm (m : heap) : Heap := mkHeap (nxt m) (prv m) (own m) (val m) (llen m) (fresh m).
Lemma hm_tm h : hm (tm h) = h. Proof. destruct h; reflexivity. Qed.
Lemma tm_hm m : tm (hm m) = m. Proof. destruct m; reflexivity. Qed.

Definition st_u (m : heap) : Heap * unit := (hm m, tt).
Definition st_p (e : nat) (m : heap) : Heap * ptr := (hm m, Some e).
Definition st_pe (p : heap * nat) : Heap * ptr := (hm (fst p), Some (snd p)).

Ltac unfold_all :=
  cbv beta iota zeta delta [tm hm st_u st_p st_pe];
  repeat autounfold with go2v;
  cbv beta iota zeta delta [bind mmap lift h_get h_set h_addr hupd fupd ptr_eqb fst snd
    set_nxt set_prv set_own set_len nxt prv own val llen fresh alloc
    init lazy_init insert insert_value remove move owned oeqb node_next node_prev front back].
Ltac break1 :=
  match goal with
  | |- context [if ?c then _ else _] => destruct c eqn:?
  | |- context [match ?x with Some _ => _ | None => _ end] => destruct x eqn:?
  | |- context [match ?x with (_, _) => _ end] => destruct x eqn:?
  end.
Ltac nb :=
  repeat match goal with
  | H : Nat.eqb _ _ = true |- _ => apply Nat.eqb_eq in H; subst
  | H : Nat.eqb _ _ = false |- _ => apply Nat.eqb_neq in H
  | H : negb _ = true |- _ => apply negb_true_iff in H
  | H : negb _ = false |- _ => apply negb_false_iff in H
  | H : Some _ = Some _ |- _ => injection H as H; subst
  end.
(* two readings of the same cell that ended up in different hypotheses *)
Ltac same_cell := repeat match goal with H1 : ?x = Some _, H2 : ?x = Some _ |- _ => rewrite H1 in H2; injection H2 as H2; subst end.
Ltac finish := try reflexivity; try congruence; cbn [orb andb negb] in *; try discriminate; nb; try reflexivity; try congruence;
  try (exfalso; congruence); same_cell; nb; try reflexivity; try congruence; try (exfalso; congruence).
Ltac crush := intros; match goal with h : Heap |- _ => destruct h as [hn hp ho hv hl hf] end; unfold_all; repeat break1; finish.

Theorem code_Len : forall h L, g_DList_Len h (Some L) = Ret (h, llen (tm h) L).
Proof. crush. Qed.
Theorem code_Init : forall h L, g_DList_Init h (Some L) = Ret (st_p L (init (tm h) L)).
Proof. crush. Qed.
Theorem code_lazyInit : forall h L, g_DList_lazyInit h (Some L) = Ret (st_u (lazy_init (tm h) L)).
Proof. crush. Qed.
Theorem code_Front : forall h L, g_DList_Front h (Some L) = Ret (h, front (tm h) L).
Proof. crush. Qed.
Theorem code_Back : forall h L, g_DList_Back h (Some L) = Ret (h, back (tm h) L).
Proof. crush. Qed.
Theorem code_Next : forall h e, g_DNode_Next h (Some e) = Ret (h, node_next (tm h) e).
Proof. crush. Qed.
Theorem code_Prev : forall h e, g_DNode_Prev h (Some e) = Ret (h, node_prev (tm h) e).
Proof. crush. Qed.
Theorem code_insert : forall h L e a,
  g_DList_insert h (Some L) (Some e) (Some a) = mmap (st_p e) (lift (insert (tm h) L e a)).
Proof. crush. Qed.
Theorem code_insertValue : forall h L v a,
  g_DList_insertValue h (Some L) v (Some a) = mmap st_pe (lift (insert_value (tm h) L v a)).
Proof. crush. Qed.
Theorem code_remove : forall h L e, g_DList_remove h (Some L) (Some e) = mmap st_u (lift (remove (tm h) L e)).
Proof. crush. Qed.
Theorem code_move : forall h L e a, g_DList_move h (Some L) (Some e) (Some a) = mmap st_u (lift (move (tm h) e a)).
Proof. crush. Qed.

(* ---- the public methods: guards + lazyInit + the pointer core, as in Model.DList.step *)
Definition at_prev {A} (m : heap) (x : nat) (k : nat -> option A) : option A :=
  match prv m x with None => None | Some a => k a end.
(* case analysis innermost scrutinee first, so that every fact lands in the goal and not in a hypothesis *)
Ltac inner x :=
  lazymatch x with
  | context [match ?y with Some _ => _ | None => _ end] => inner y
  | context [if ?c then _ else _] => inner c
  | _ => destruct x eqn:?
  end.
Ltac break2 :=
  match goal with
  | |- context [match ?x with Some _ => _ | None => _ end] => inner x
  | |- context [if ?c then _ else _] => inner c
  | |- context [match ?x with (_, _) => _ end] => destruct x eqn:?
  end.
Ltac crush2 := intros; match goal with h : Heap |- _ => destruct h as [hn hp ho hv hl hf] end;
  unfold at_prev; unfold_all; repeat (rewrite ?Nat.eqb_refl; break2); finish.

Theorem code_Remove : forall h L e, g_DList_Remove h (Some L) (Some e) =
  if owned (tm h) e L then mmap (fun m => (hm m, val m e)) (lift (remove (tm h) L e)) else Ret (h, val (tm h) e).
Proof. crush2. Qed.
Theorem code_PushFront : forall h L v, g_DList_PushFront h (Some L) v =
  mmap st_pe (lift (insert_value (lazy_init (tm h) L) L v L)).
Proof. crush2. Qed.
Theorem code_PushBack : forall h L v, g_DList_PushBack h (Some L) v =
  mmap st_pe (lift (let h1 := lazy_init (tm h) L in at_prev h1 L (insert_value h1 L v))).
Proof. crush2. Qed.
Theorem code_InsertBefore : forall h L v mark, g_DList_InsertBefore h (Some L) v (Some mark) =
  if negb (owned (tm h) mark L) then Ret (h, None) else mmap st_pe (lift (at_prev (tm h) mark (insert_value (tm h) L v))).
Proof. crush2. Qed.
Theorem code_InsertAfter : forall h L v mark, g_DList_InsertAfter h (Some L) v (Some mark) =
  if negb (owned (tm h) mark L) then Ret (h, None) else mmap st_pe (lift (insert_value (tm h) L v mark)).
Proof. crush2. Qed.
Theorem code_PushFrontNode : forall h L e, g_DList_PushFrontNode h (Some L) (Some e) =
  mmap st_u (lift (insert (lazy_init (tm h) L) L e L)).
Proof. crush2. Qed.
Theorem code_PushBackNode : forall h L e, g_DList_PushBackNode h (Some L) (Some e) =
  mmap st_u (lift (let h1 := lazy_init (tm h) L in at_prev h1 L (insert h1 L e))).
Proof. crush2. Qed.
Theorem code_InsertNodeBefore : forall h L e mark, g_DList_InsertNodeBefore h (Some L) (Some e) (Some mark) =
  if negb (owned (tm h) mark L) then Ret (h, tt) else mmap st_u (lift (at_prev (tm h) mark (insert (tm h) L e))).
Proof. crush2. Qed.
Theorem code_InsertNodeAfter : forall h L e mark, g_DList_InsertNodeAfter h (Some L) (Some e) (Some mark) =
  if negb (owned (tm h) mark L) then Ret (h, tt) else mmap st_u (lift (insert (tm h) L e mark)).
Proof. crush2. Qed.
Theorem code_MoveToFront : forall h L e, g_DList_MoveToFront h (Some L) (Some e) =
  if negb (owned (tm h) e L) || oeqb (nxt (tm h) L) e then Ret (h, tt) else mmap st_u (lift (move (tm h) e L)).
Proof. crush2. Qed.

Theorem code_MoveToBack : forall h L e, g_DList_MoveToBack h (Some L) (Some e) =
  if negb (owned (tm h) e L) || oeqb (prv (tm h) L) e then Ret (h, tt) else mmap st_u (lift (at_prev (tm h) L (move (tm h) e))).
Proof. crush2. Qed.
Theorem code_MoveBefore : forall h L e mark, g_DList_MoveBefore h (Some L) (Some e) (Some mark) =
  if negb (owned (tm h) e L) || Nat.eqb e mark || negb (owned (tm h) mark L) then Ret (h, tt)
  else mmap st_u (lift (at_prev (tm h) mark (move (tm h) e))).
Proof. crush2. Qed.
Theorem code_MoveAfter : forall h L e mark, g_DList_MoveAfter h (Some L) (Some e) (Some mark) =
  if negb (owned (tm h) e L) || Nat.eqb e mark || negb (owned (tm h) mark L) then Ret (h, tt)
  else mmap st_u (lift (move (tm h) e mark)).
Proof. crush2. Qed.

(* the conjunction Props/C13.v exports (stated here because Gen/DListCode.v and Gen/SListCode.v both define Heap, mkHeap,
   h_fresh: Props/C13.v does not import this area's names).  All for non-nil list / node arguments (ids). *)
Definition dlist_code_is_model_stmt : Prop :=
  (forall h L, g_DList_Len h (Some L) = Ret (h, llen (tm h) L)) /\
  (forall h L, g_DList_Init h (Some L) = Ret (st_p L (init (tm h) L))) /\
  (forall h L, g_DList_lazyInit h (Some L) = Ret (st_u (lazy_init (tm h) L))) /\
  (forall h L, g_DList_Front h (Some L) = Ret (h, front (tm h) L)) /\
  (forall h L, g_DList_Back h (Some L) = Ret (h, back (tm h) L)) /\
  (forall h e, g_DNode_Next h (Some e) = Ret (h, node_next (tm h) e)) /\
  (forall h e, g_DNode_Prev h (Some e) = Ret (h, node_prev (tm h) e)) /\
  (forall h L e a, g_DList_insert h (Some L) (Some e) (Some a) = mmap (st_p e) (lift (insert (tm h) L e a))) /\
  (forall h L v a, g_DList_insertValue h (Some L) v (Some a) = mmap st_pe (lift (insert_value (tm h) L v a))) /\
  (forall h L e, g_DList_remove h (Some L) (Some e) = mmap st_u (lift (remove (tm h) L e))) /\
  (forall h L e a, g_DList_move h (Some L) (Some e) (Some a) = mmap st_u (lift (move (tm h) e a))) /\
  (forall h L e, g_DList_Remove h (Some L) (Some e) =
     if owned (tm h) e L then mmap (fun m => (hm m, val m e)) (lift (remove (tm h) L e)) else Ret (h, val (tm h) e)) /\
  (forall h L v, g_DList_PushFront h (Some L) v = mmap st_pe (lift (insert_value (lazy_init (tm h) L) L v L))) /\
  (forall h L v, g_DList_PushBack h (Some L) v =
     mmap st_pe (lift (let h1 := lazy_init (tm h) L in at_prev h1 L (insert_value h1 L v)))) /\
  (forall h L v mark, g_DList_InsertBefore h (Some L) v (Some mark) =
     if negb (owned (tm h) mark L) then Ret (h, None) else mmap st_pe (lift (at_prev (tm h) mark (insert_value (tm h) L v)))) /\
  (forall h L v mark, g_DList_InsertAfter h (Some L) v (Some mark) =
     if negb (owned (tm h) mark L) then Ret (h, None) else mmap st_pe (lift (insert_value (tm h) L v mark))) /\
  (forall h L e, g_DList_PushFrontNode h (Some L) (Some e) = mmap st_u (lift (insert (lazy_init (tm h) L) L e L))) /\
  (forall h L e, g_DList_PushBackNode h (Some L) (Some e) =
     mmap st_u (lift (let h1 := lazy_init (tm h) L in at_prev h1 L (insert h1 L e)))) /\
  (forall h L e mark, g_DList_InsertNodeBefore h (Some L) (Some e) (Some mark) =
     if negb (owned (tm h) mark L) then Ret (h, tt) else mmap st_u (lift (at_prev (tm h) mark (insert (tm h) L e)))) /\
  (forall h L e mark, g_DList_InsertNodeAfter h (Some L) (Some e) (Some mark) =
     if negb (owned (tm h) mark L) then Ret (h, tt) else mmap st_u (lift (insert (tm h) L e mark))) /\
  (forall h L e, g_DList_MoveToFront h (Some L) (Some e) =
     if negb (owned (tm h) e L) || oeqb (nxt (tm h) L) e then Ret (h, tt) else mmap st_u (lift (move (tm h) e L))) /\
  (forall h L e, g_DList_MoveToBack h (Some L) (Some e) =
     if negb (owned (tm h) e L) || oeqb (prv (tm h) L) e then Ret (h, tt)
     else mmap st_u (lift (at_prev (tm h) L (move (tm h) e)))) /\
  (forall h L e mark, g_DList_MoveBefore h (Some L) (Some e) (Some mark) =
     if negb (owned (tm h) e L) || Nat.eqb e mark || negb (owned (tm h) mark L) then Ret (h, tt)
     else mmap st_u (lift (at_prev (tm h) mark (move (tm h) e)))) /\
  (forall h L e mark, g_DList_MoveAfter h (Some L) (Some e) (Some mark) =
     if negb (owned (tm h) e L) || Nat.eqb e mark || negb (owned (tm h) mark L) then Ret (h, tt)
     else mmap st_u (lift (move (tm h) e mark))) /\
  (forall h, hm (tm h) = h) /\ (forall m, tm (hm m) = m).
Theorem dlist_code_is_model : dlist_code_is_model_stmt.
Proof.
  exact (conj code_Len (conj code_Init (conj code_lazyInit (conj code_Front (conj code_Back (conj code_Next (conj code_Prev
        (conj code_insert (conj code_insertValue (conj code_remove (conj code_move (conj code_Remove (conj code_PushFront
        (conj code_PushBack (conj code_InsertBefore (conj code_InsertAfter (conj code_PushFrontNode (conj code_PushBackNode
        (conj code_InsertNodeBefore (conj code_InsertNodeAfter (conj code_MoveToFront (conj code_MoveToBack (conj code_MoveBefore
        (conj code_MoveAfter (conj hm_tm tm_hm))))))))))))))))))))))))).
Qed.
