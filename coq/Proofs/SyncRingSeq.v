(* C10 — ringz.SyncRing used from one goroutine: the ticket invariant and the per-operation lemmas.
   Adapted from design-notes/proto/SyncRing_seq_wrap_proto.v to the model that STORES 32-bit counters: the
   unbounded number of pops so far (H) is a ghost that exists only in the invariant; the model reads and writes
   u32 values only.  Inv k r q H: capacity 2^k (1 <= k <= 31), mask 2^k-1, head = u32 H, tail = u32 (H+|q|),
   the |q| slots from H carry the queue with sequence number u32 (p+1), the other cap-|q| slots carry the zero
   value with sequence number u32 p.  Nothing bounds H: states beyond 2^32 operations are covered. *)
From Coq Require Import List ZArith Lia Bool.
From V Require Import Gen.Ringz Model.RingSeq Model.SyncRingSeq.
Import ListNotations.
Local Open Scope Z_scope.
Arguments Z.add : simpl never.
Arguments Z.sub : simpl never.
Arguments Z.mul : simpl never.
Arguments Z.modulo : simpl never.
Arguments Z.pow : simpl never.
Arguments Z.land : simpl never.
Arguments Z.of_nat : simpl never.
Arguments Z.to_nat : simpl never.

Lemma supd_length l i x : length (supd l i x) = length l.
Proof. revert i; induction l as [|a l IH]; intros [|i]; cbn [supd length]; auto. Qed.
Lemma nth_error_supd_eq l i x : (i < length l)%nat -> nth_error (supd l i x) i = Some x.
Proof. revert i; induction l as [|a l IH]; intros [|i] H; cbn [supd nth_error length] in *; try lia; auto; apply IH; lia. Qed.
Lemma nth_error_supd_ne l i j x : i <> j -> nth_error (supd l i x) j = nth_error l j.
Proof. revert i j; induction l as [|a l IH]; intros [|i] [|j] H; cbn [supd nth_error]; auto; try lia; apply IH; lia. Qed.

Definition val_at (r : sring) (p : Z) : option (Z * Z) := nth_error (slots r) (Z.to_nat (p mod scap r)).

Record Inv (k : Z) (r : sring) (q : list Z) (H : Z) : Prop := {
  inv_k : 1 <= k <= 31;
  inv_cap : scap r = 2 ^ k;
  inv_mask : smask r = 2 ^ k - 1;
  inv_len : Z.of_nat (length (slots r)) = scap r;
  inv_H : 0 <= H;
  inv_hd : shead r = u32 H;
  inv_tl : stail r = u32 (H + Z.of_nat (length q));
  inv_full : Z.of_nat (length q) <= scap r;
  inv_used : forall j, (j < length q)%nat ->
      val_at r (H + Z.of_nat j) = Some (nth j q 0, u32 (H + Z.of_nat j + 1));
  inv_free : forall p, H + Z.of_nat (length q) <= p < H + scap r -> val_at r p = Some (0, u32 p)
}.

(* ---- arithmetic facts about u32 and the capacity *)
Lemma cap_bounds k : 1 <= k <= 31 -> 2 <= 2 ^ k <= 2 ^ 31 /\ M32 = 2 ^ k * 2 ^ (32 - k).
Proof.
  intros H. split.
  - split.
    + change 2 with (2 ^ 1) at 1. apply Z.pow_le_mono_r; lia.
    + apply Z.pow_le_mono_r; lia.
  - unfold M32. rewrite <- Z.pow_add_r by lia. f_equal. lia.
Qed.

Lemma M32_val : M32 = 4294967296.
Proof. reflexivity. Qed.

Lemma u32_range x : 0 <= u32 x < M32.
Proof. unfold u32. apply Z.mod_pos_bound. rewrite M32_val. lia. Qed.

Lemma u32_small x : 0 <= x < M32 -> u32 x = x.
Proof. intros H. unfold u32. apply Z.mod_small. exact H. Qed.

Lemma u32_mod_cap k x : 1 <= k <= 31 -> (u32 x) mod 2 ^ k = x mod 2 ^ k.
Proof.
  intros H. destruct (cap_bounds k H) as [_ E]. unfold u32. rewrite E.
  rewrite Z.rem_mul_r by (apply Z.pow_nonzero || idtac; lia || (apply Z.pow_pos_nonneg; lia)).
  rewrite Z.mul_comm, Z.mod_add by (apply Z.pow_nonzero; lia). apply Z.mod_mod. apply Z.pow_nonzero; lia.
Qed.

Lemma u32_inj_near a b : u32 a = u32 b -> - M32 < a - b < M32 -> a = b.
Proof.
  unfold u32. rewrite M32_val. intros H Hn.
  assert (E : (a - b) mod 4294967296 = 0).
  { rewrite Zminus_mod, H, Z.sub_diag. reflexivity. }
  apply Z.mod_divide in E; [|lia]. destruct E as [c Hc].
  assert (c = 0) by nia. lia.
Qed.

Lemma mod_cap_inj c p q : 0 < c -> p mod c = q mod c -> - c < p - q < c -> p = q.
Proof.
  intros Hc H Hn.
  assert (E : (p - q) mod c = 0) by (rewrite Zminus_mod, H, Z.sub_diag; apply Z.mod_0_l; lia).
  apply Z.mod_divide in E; [|lia]. destruct E as [d Hd]. assert (d = 0) by nia. lia.
Qed.

Lemma u32_succ a : u32 (u32 a + 1) = u32 (a + 1).
Proof. unfold u32. rewrite Zplus_mod_idemp_l. reflexivity. Qed.
Lemma u32_add_l a b : u32 (u32 a + b) = u32 (a + b).
Proof. unfold u32. rewrite Zplus_mod_idemp_l. reflexivity. Qed.
Lemma u32_sub a b : u32 (u32 a - u32 b) = u32 (a - b).
Proof. unfold u32. rewrite <- Zminus_mod. reflexivity. Qed.

(* pos & mask is pos mod cap for a power-of-two capacity *)
Lemma land_mask k x : 1 <= k <= 31 -> Z.land (u32 x) (2 ^ k - 1) = x mod 2 ^ k.
Proof.
  intros Hk. replace (2 ^ k - 1) with (Z.ones k) by (rewrite Z.ones_equiv; lia).
  rewrite Z.land_ones by lia. apply u32_mod_cap; auto.
Qed.

Lemma slot_index_lt c l p : 0 < c -> Z.of_nat (length l) = c -> (Z.to_nat (p mod c) < length (A:=Z*Z) l)%nat.
Proof. intros Hc Hl. pose proof (Z.mod_pos_bound p c Hc). lia. Qed.

Lemma index_ne c p q : 0 < c -> p <> q -> - c < p - q < c -> Z.to_nat (p mod c) <> Z.to_nat (q mod c).
Proof.
  intros Hc Hne Hn E.
  pose proof (Z.mod_pos_bound p c Hc). pose proof (Z.mod_pos_bound q c Hc).
  apply Hne, (mod_cap_inj c); auto. lia.
Qed.

Lemma slot_at_val k r q H x : Inv k r q H ->
  slot_at r (u32 x) = match val_at r x with None => None | Some s => Some (Z.to_nat (x mod scap r), s) end.
Proof.
  intros HI. unfold slot_at, val_at. rewrite (inv_mask _ _ _ _ HI), (land_mask k x (inv_k _ _ _ _ HI)), (inv_cap _ _ _ _ HI).
  reflexivity.
Qed.

(* ---- Push *)
Lemma push_spec k r q H v : Inv k r q H ->
  exists r' b, spush r v = Some (r', b) /\
    (b = true <-> Z.of_nat (length q) < scap r) /\
    (b = true -> Inv k r' (q ++ [v]) H) /\ (b = false -> r' = r).
Proof.
  intros HI. pose proof HI as [Hk Hc Hm Hl HH Hhd Htl Hf Hu Hfr].
  destruct (cap_bounds k Hk) as [[H2 H31] HM]. pose proof M32_val as HMv.
  unfold spush. rewrite Htl, (slot_at_val k r q H _ HI).
  set (T := H + Z.of_nat (length q)) in *.
  destruct (Z.eq_dec (Z.of_nat (length q)) (scap r)) as [Efull|Enf].
  - (* full: the slot of T is the slot of H, published for H *)
    assert (Hq0 : (0 < length q)%nat) by lia.
    specialize (Hu 0%nat Hq0). rewrite Z.add_0_r in Hu.
    assert (Em : T mod scap r = H mod scap r).
    { unfold T. rewrite Efull. rewrite <- (Z.mul_1_l (scap r)) at 1. apply Z.mod_add. lia. }
    unfold val_at in *. rewrite Em, Hu.
    destruct (u32 T =? u32 (H + 1)) eqn:E.
    + apply Z.eqb_eq in E. apply u32_inj_near in E; [unfold T in E; lia|]. unfold T. lia.
    + cbn [negb]. exists r, false. repeat split; try discriminate; try lia; auto.
  - assert (Hlt : Z.of_nat (length q) < scap r) by lia.
    pose proof (Hfr T ltac:(unfold T; lia)) as Hx. rewrite Hx, Z.eqb_refl. cbn [negb].
    eexists _, true. split; [reflexivity|]. split; [tauto|]. split; [|discriminate]. intros _.
    assert (Hi : (Z.to_nat (T mod scap r) < length (slots r))%nat) by (apply slot_index_lt; lia).
    constructor; cbn [slots shead stail scap smask]; auto.
    + rewrite supd_length; auto.
    + rewrite app_length; cbn [length]. rewrite u32_succ. f_equal. unfold T. lia.
    + rewrite app_length; cbn [length]; lia.
    + intros j Hj. rewrite app_length in Hj; cbn [length] in Hj. unfold val_at; cbn [slots scap].
      destruct (Nat.eq_dec j (length q)) as [->|Hne].
      * fold T. rewrite nth_error_supd_eq by auto. rewrite app_nth2, Nat.sub_diag by lia. cbn [nth].
        rewrite u32_succ. reflexivity.
      * rewrite nth_error_supd_ne. 2:{ apply index_ne; unfold T; lia. }
        rewrite app_nth1 by lia. apply Hu. lia.
    + intros p Hp. rewrite app_length in Hp; cbn [length] in Hp. unfold val_at; cbn [slots scap].
      rewrite nth_error_supd_ne. 2:{ apply index_ne; unfold T; lia. }
      apply Hfr. lia.
Qed.

(* ---- Pop *)
Lemma pop_spec k r q H : Inv k r q H ->
  exists r' o, spop r = Some (r', o) /\
    match q with
    | [] => o = (false, 0) /\ r' = r
    | x :: q' => o = (true, x) /\ Inv k r' q' (H + 1)
    end.
Proof.
  intros HI. pose proof HI as [Hk Hc Hm Hl HH Hhd Htl Hf Hu Hfr].
  destruct (cap_bounds k Hk) as [[H2 H31] HM]. pose proof M32_val as HMv.
  unfold spop. rewrite Hhd, (slot_at_val k r q H _ HI).
  destruct q as [|x q'].
  - (* empty: the slot of H is free for H *)
    cbn [length] in *. pose proof (Hfr H ltac:(lia)) as Hy. rewrite Hy.
    destruct (u32 (u32 H + 1) =? u32 H) eqn:E.
    + apply Z.eqb_eq in E. rewrite u32_succ in E. apply u32_inj_near in E; lia.
    + cbn [negb]. eexists _, _. split; [reflexivity|]. auto.
  - pose proof (Hu 0%nat ltac:(cbn [length]; lia)) as H0. rewrite Z.add_0_r in H0.
    cbn [nth] in H0. rewrite H0, u32_succ, Z.eqb_refl. cbn [negb].
    eexists _, _. split; [reflexivity|]. split; [reflexivity|].
    assert (Hi : (Z.to_nat (H mod scap r) < length (slots r))%nat) by (apply slot_index_lt; lia).
    cbn [length] in *.
    constructor; cbn [slots shead stail scap smask]; auto; try lia;
      try (rewrite supd_length; auto; fail); try (apply u32_succ); try (rewrite Htl; f_equal; lia).
    + intros j Hj. unfold val_at; cbn [slots scap].
      rewrite nth_error_supd_ne. 2:{ apply index_ne; lia. }
      specialize (Hu (S j) ltac:(lia)). unfold val_at in Hu. cbn [nth] in Hu.
      replace (H + 1 + Z.of_nat j) with (H + Z.of_nat (S j)) by lia. exact Hu.
    + intros p Hp. unfold val_at; cbn [slots scap].
      destruct (Z.eq_dec p (H + scap r)) as [->|Hne].
      * replace ((H + scap r) mod scap r) with (H mod scap r).
        2:{ rewrite <- (Z.mul_1_l (scap r)) at 2. symmetry. apply Z.mod_add. lia. }
        rewrite nth_error_supd_eq by auto. f_equal. f_equal.
        rewrite Hm, u32_add_l. f_equal. lia.
      * rewrite nth_error_supd_ne. 2:{ apply index_ne; lia. }
        apply Hfr. lia.
Qed.

(* ---- Len / IsEmpty / IsFull *)
Lemma diff_spec k r q H : Inv k r q H -> u32 (stail r - shead r) = Z.of_nat (length q).
Proof.
  intros [Hk Hc Hm Hl HH Hhd Htl Hf Hu Hfr]. destruct (cap_bounds k Hk) as [[H2 H31] HM]. pose proof M32_val.
  rewrite Hhd, Htl, u32_sub. replace (H + Z.of_nat (length q) - H) with (Z.of_nat (length q)) by lia.
  apply u32_small. change (2 ^ 31) with 2147483648 in H31. lia.
Qed.
Lemma len_spec k r q H : Inv k r q H -> slen r = Z.of_nat (length q).
Proof.
  intros HI. unfold slen. rewrite (diff_spec k r q H HI). pose proof (inv_full _ _ _ _ HI).
  destruct (Z.ltb_spec (scap r) (Z.of_nat (length q))); lia.
Qed.
Lemma is_full_spec k r q H : Inv k r q H -> sis_full r = (Z.of_nat (length q) =? scap r).
Proof. intros HI. unfold sis_full. rewrite (diff_spec k r q H HI). reflexivity. Qed.
Lemma is_empty_spec k r q H : Inv k r q H -> sis_empty r = (Z.of_nat (length q) =? 0).
Proof.
  intros HI. pose proof HI as [Hk Hc Hm Hl HH Hhd Htl Hf Hu Hfr]. destruct (cap_bounds k Hk) as [[H2 H31] HM]. pose proof M32_val.
  unfold sis_empty. rewrite Hhd, Htl. change (2 ^ 31) with 2147483648 in H31.
  destruct (Z.eqb_spec (Z.of_nat (length q)) 0) as [E|E].
  - rewrite E, Z.add_0_r. apply Z.eqb_refl.
  - apply Z.eqb_neq. intros E2. apply u32_inj_near in E2; lia.
Qed.
