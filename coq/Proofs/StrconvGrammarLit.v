(* C15, grammar part 2: the model of strz.ParseUint (Model/Strconv.v) returns, for EVERY text, base and bit size, what the
   declarative Go-literal grammar of Model/StrconvGrammar.v says (go_parse_uint): value and error kind.
   Route: parse_uint = spec_parse_uint (Proofs/StrconvLoop.v: the uint64 arithmetic), then the unbounded scan is rewritten
   into "leading digits / positional value / all characters are digits" of the text without its underscores, the prefix
   logic is matched shape by shape, and the final underscoreOK call is replaced through Proofs/StrconvGrammarUs.v. *)
From Coq Require Import List ZArith Lia Bool.
From V Require Import Lib.Enc Gen.StrzStd Model.Strconv Model.StrconvGrammar Proofs.StrconvLoop Proofs.StrconvGrammarUs.
Import ListNotations.
Local Open Scope Z_scope.
Arguments Z.mul : simpl never.
Arguments Z.add : simpl never.
Arguments Z.sub : simpl never.
Arguments Z.div : simpl never.
Arguments Z.modulo : simpl never.
Arguments Z.pow : simpl never.
Arguments Z.of_nat : simpl never.

Definition notus (c : Z) : bool := negb (c =? 95).
Definition has_sep (groups : list (list Z)) : bool := match groups with _ :: _ :: _ => true | _ => false end.

(* ---------------------------------------------------------------- tokens and the text without underscores *)
Lemma concat_split_us s : concat (split_us s) = filter notus s.
Proof.
  induction s as [|c t IH]; [reflexivity|]. cbn [split_us filter]. unfold notus at 1, us_char.
  destruct (c =? 95); cbn [negb].
  - cbn [concat app]. exact IH.
  - destruct (split_us_cons t) as (g & gs & Et). rewrite Et in *. cbn [concat app] in *. rewrite <- IH. reflexivity.
Qed.

Lemma existsb_split_us s : existsb (fun c => c =? 95) s = has_sep (split_us s).
Proof.
  induction s as [|c t IH]; [reflexivity|]. cbn [existsb split_us]. unfold us_char.
  destruct (split_us_cons t) as (g & gs & Et). rewrite Et in *.
  destruct (c =? 95); cbn [orb]; [reflexivity|]. rewrite IH. reflexivity.
Qed.

(* ---------------------------------------------------------------- value *)
Lemma value_from_positional b : forall ds acc, value_from b ds acc = acc * b ^ Z.of_nat (length ds) + positional b ds.
Proof.
  induction ds as [|d t IH]; intros acc; cbn [value_from positional length].
  - change (Z.of_nat 0) with 0. rewrite Z.pow_0_r. lia.
  - rewrite IH. rewrite Nat2Z.inj_succ, Z.pow_succ_r by lia. ring.
Qed.
Lemma value_from_0 b ds : value_from b ds 0 = positional b ds.
Proof. rewrite value_from_positional. lia. Qed.

Lemma digit_in_range b c d : digit_in b c = Some d -> 0 <= d < b /\ digit_of c = Some d.
Proof.
  unfold digit_in. rewrite <- digit_of_char_value. destruct (digit_of c) as [d'|] eqn:E; [|discriminate].
  destruct (Z.ltb_spec d' b) as [Hlt|Hge]; [|discriminate]. intros Hx; inversion Hx; subst.
  apply digit_of_range in E. split; [lia|reflexivity].
Qed.

Lemma leading_digits_nonneg b : forall s, Forall (fun d => 0 <= d) (leading_digits b s).
Proof.
  induction s as [|c t IH]; cbn [leading_digits]; [constructor|].
  destruct (digit_in b c) as [d|] eqn:E; [|constructor]. constructor; [|exact IH]. apply digit_in_range in E. lia.
Qed.

(* ---------------------------------------------------------------- the unbounded scan in grammar terms *)
Definition loop_result (b bits : Z) (chars : list Z) (acc : Z) (usf : bool) : presult + (Z * bool) :=
  if 2 ^ bits - 1 <? value_from b (leading_digits b chars) acc then inl (PRange (2 ^ bits - 1))
  else if forallb (is_digit_in b) chars then inr (value_from b (leading_digits b chars) acc, usf) else inl PSyntax.

Lemma digit_step b bits c t acc usf (rest : Z -> presult + (Z * bool)) :
  2 <= b <= 36 -> 0 <= acc <= 2 ^ bits - 1 ->
  (forall v, 0 <= v <= 2 ^ bits - 1 -> rest v = loop_result b bits t v usf) ->
  match digit_of c with
  | None => inl PSyntax
  | Some d => if b <=? d then inl PSyntax
              else if 2 ^ bits - 1 <? acc * b + d then inl (PRange (2 ^ bits - 1)) else rest (acc * b + d)
  end = loop_result b bits (c :: t) acc usf.
Proof.
  intros Hb Ha Hrest. unfold loop_result. cbn [leading_digits forallb]. unfold is_digit_in at 1. unfold digit_in.
  rewrite <- digit_of_char_value. destruct (digit_of c) as [d|] eqn:Ed.
  - pose proof (digit_of_range c d Ed) as Hd. destruct (Z.leb_spec b d); destruct (Z.ltb_spec d b); try lia.
    + cbn [value_from andb]. destruct (Z.ltb_spec (2 ^ bits - 1) acc); [lia|reflexivity].
    + cbn [value_from andb]. destruct (Z.ltb_spec (2 ^ bits - 1) (acc * b + d)) as [Hov|Hok].
      * pose proof (value_from_ge b (leading_digits b t) ltac:(lia) (leading_digits_nonneg b t) (acc * b + d) ltac:(nia)).
        destruct (Z.ltb_spec (2 ^ bits - 1) (value_from b (leading_digits b t) (acc * b + d))); [reflexivity|lia].
      * rewrite Hrest by nia. reflexivity.
  - cbn [value_from andb]. destruct (Z.ltb_spec (2 ^ bits - 1) acc); [lia|reflexivity].
Qed.

(* base 0: underscores are skipped and remembered *)
Lemma spec_loop_base0 b bits : 2 <= b <= 36 ->
  forall body acc us, 0 <= acc <= 2 ^ bits - 1 ->
  spec_loop true b bits body acc us = loop_result b bits (filter notus body) acc (us || existsb (fun c => c =? 95) body).
Proof.
  intros Hb. induction body as [|c t IH]; intros acc us Ha.
  - unfold loop_result. cbn [spec_loop filter existsb leading_digits value_from forallb].
    destruct (Z.ltb_spec (2 ^ bits - 1) acc); [lia|]. rewrite orb_false_r. reflexivity.
  - cbn [spec_loop existsb filter]. unfold notus at 1. destruct (c =? 95); cbn [andb negb orb].
    + rewrite IH by exact Ha. rewrite orb_true_r. reflexivity.
    + cbv zeta. apply (digit_step b bits c (filter notus t) acc _ (fun v => spec_loop true b bits t v us) Hb Ha).
      intros v Hv. apply IH. exact Hv.
Qed.

(* explicit base: no character is skipped *)
Lemma spec_loop_explicit_base b bits : 2 <= b <= 36 ->
  forall body acc us, 0 <= acc <= 2 ^ bits - 1 ->
  spec_loop false b bits body acc us = loop_result b bits body acc us.
Proof.
  intros Hb. induction body as [|c t IH]; intros acc us Ha.
  - unfold loop_result. cbn [spec_loop leading_digits value_from forallb].
    destruct (Z.ltb_spec (2 ^ bits - 1) acc); [lia|reflexivity].
  - cbn [spec_loop]. rewrite andb_false_r. cbv zeta.
    apply (digit_step b bits c t acc us (fun v => spec_loop false b bits t v us) Hb Ha).
    intros v Hv. apply IH. exact Hv.
Qed.

(* ---------------------------------------------------------------- what follows the loop *)
Definition finish (s : list Z) (r : presult + (Z * bool)) : presult :=
  match r with inl e => e | inr (n, us) => if us && negb (underscore_ok s) then PSyntax else POk n end.

Lemma finish_tail s b pre bits chars usf groups :
  positional b (leading_digits b chars) = positional b (leading_digits b (concat groups)) ->
  forallb (is_digit_in b) chars = forallb (is_digit_in b) (concat groups) ->
  (forallb (is_digit_in b) (concat groups) = true -> (usf && negb (underscore_ok s)) = negb (well_separated pre groups)) ->
  finish s (loop_result b bits chars 0 usf) = literal_result b pre bits groups.
Proof.
  intros Hv Hall Hsep. unfold finish, loop_result, literal_result. cbv zeta. rewrite value_from_0, Hv, Hall.
  destruct (2 ^ bits - 1 <? positional b (leading_digits b (concat groups))); [reflexivity|].
  destruct (forallb (is_digit_in b) (concat groups)); cbn [negb]; [|reflexivity].
  rewrite (Hsep eq_refl). destruct (well_separated pre groups); reflexivity.
Qed.

(* ---------------------------------------------------------------- the separator rule on digit-only groups *)
Lemma ends_all hex : forall g, g <> [] -> forallb (sep_digit hex) g = true -> ends_with_digit hex g = true.
Proof.
  induction g as [|c [|a l] IH]; intros Hne H; [congruence| |].
  - cbn [forallb] in H. apply andb_true_iff in H as [H _]. exact H.
  - rewrite ends_cons. apply IH; [discriminate|]. cbn [forallb] in H |- *. apply andb_true_iff in H as [_ H]. exact H.
Qed.

Lemma tokens_all_digits hex : forall gs g left,
  forallb (sep_digit hex) (concat (g :: gs)) = true ->
  tokens_separated hex left g gs = match gs with [] => true | _ :: _ => (left || nonempty g) && forallb nonempty gs end.
Proof.
  induction gs as [|g' gs' IH]; intros g left H; [reflexivity|].
  cbn [concat] in H. rewrite forallb_app in H. apply andb_true_iff in H as [Hg Hrest].
  cbn [tokens_separated]. rewrite (IH g' false Hrest). cbn [forallb].
  assert (E1 : (match g with [] => left | _ :: _ => ends_with_digit hex g end) = (left || nonempty g)).
  { destruct g as [|a l]; [cbn [nonempty]; rewrite orb_false_r; reflexivity|].
    rewrite (ends_all hex (a :: l)) by (auto; discriminate). cbn [nonempty]. rewrite orb_true_r. reflexivity. }
  rewrite E1. destruct g' as [|a' l'].
  - cbn [starts_with_digit nonempty andb]. rewrite !andb_false_r. reflexivity.
  - cbn [concat app forallb] in Hrest. apply andb_true_iff in Hrest as [Ha' _].
    cbn [starts_with_digit nonempty andb orb]. rewrite Ha'. destruct gs'; cbn [forallb]; rewrite ?andb_true_r; reflexivity.
Qed.

Lemma digit_sep b c : b <= 10 \/ b = 16 -> is_digit_in b c = true -> sep_digit (b =? 16) c = true.
Proof.
  intros Hb H. unfold sep_digit. unfold is_digit_in, digit_in, char_value in H.
  destruct (Z.leb_spec 48 c); destruct (Z.leb_spec c 57); cbn [andb orb] in *; try reflexivity.
  all: destruct (Z.leb_spec 97 c); destruct (Z.leb_spec c 122); cbn [andb orb] in *; try lia.
  all: try (destruct (Z.ltb_spec (c - 97 + 10) b); [|discriminate H];
            destruct (Z.eqb_spec b 16); [|lia]; destruct (Z.leb_spec c 102); [reflexivity|lia]).
  all: destruct (Z.leb_spec 65 c); destruct (Z.leb_spec c 90); cbn [andb orb] in *; try discriminate H.
  all: destruct (Z.ltb_spec (c - 65 + 10) b); [|discriminate H];
       destruct (Z.eqb_spec b 16); [|lia]; destruct (Z.leb_spec c 70); cbn [andb orb]; rewrite ?orb_true_r; [reflexivity|lia].
Qed.

(* the final underscoreOK call = well_separated, when the body consists of digits of the base and underscores *)
Lemma sep_agree s hex pre body b :
  us_context s = (hex, pre, body) ->
  (forall c, is_digit_in b c = true -> sep_digit hex c = true) ->
  forallb (is_digit_in b) (concat (split_us body)) = true ->
  (has_sep (split_us body) = false -> match split_us body with g :: _ => pre || nonempty g = true | [] => True end) ->
  (has_sep (split_us body) && negb (underscore_ok s)) = negb (well_separated pre (split_us body)).
Proof.
  intros Hctx Hdig Hall Hone. rewrite underscore_ok_tokens. unfold go_underscore_ok. rewrite Hctx.
  destruct (split_us_cons body) as (g & gs & Eg). rewrite Eg in *. cbn [groups_separated well_separated].
  rewrite (tokens_all_digits hex gs g pre).
  - destruct gs as [|g' gs'].
    + cbn [has_sep andb forallb]. rewrite (Hone eq_refl). reflexivity.
    + cbn [has_sep andb]. reflexivity.
  - rewrite forallb_forall in Hall |- *. intros c Hc. apply Hdig, Hall, Hc.
Qed.

Lemma prefix_not_octal p b : prefix_base p = Some b -> is_digit_in 8 p = false /\ notus p = true.
Proof.
  unfold prefix_base.
  destruct (Z.eqb_spec p 98) as [->|]; [split; reflexivity|]. destruct (Z.eqb_spec p 66) as [->|]; [split; reflexivity|].
  destruct (Z.eqb_spec p 111) as [->|]; [split; reflexivity|]. destruct (Z.eqb_spec p 79) as [->|]; [split; reflexivity|].
  destruct (Z.eqb_spec p 120) as [->|]; [split; reflexivity|]. destruct (Z.eqb_spec p 88) as [->|]; [split; reflexivity|].
  discriminate.
Qed.

(* ---------------------------------------------------------------- the three base-0 shapes *)
Lemma zero_fits bits : 0 <= bits -> 0 <= 0 <= 2 ^ bits - 1.
Proof. intros H. pose proof (Z.pow_pos_nonneg 2 bits ltac:(lia) H). lia. Qed.

Lemma tail_prefixed p b body bits : prefix_base p = Some b -> 0 <= bits ->
  finish (48 :: p :: body) (spec_loop true b bits body 0 false) = literal_result b true bits (split_us body).
Proof.
  intros Ep Hbits. destruct (prefix_some p b Ep) as (_ & _ & _ & Hb3).
  rewrite spec_loop_base0 by (lia || apply zero_fits; exact Hbits).
  cbn [orb]. rewrite existsb_split_us. apply finish_tail.
  - rewrite concat_split_us. reflexivity.
  - rewrite concat_split_us. reflexivity.
  - intros Hall. apply (sep_agree _ (b =? 16) true body b).
    + unfold us_context. change ((48 =? 43) || (48 =? 45)) with false. cbv iota.
      change (48 =? 48) with true. cbv iota. rewrite Ep. reflexivity.
    + intros c. apply digit_sep. lia.
    + exact Hall.
    + intros _. destruct (split_us body); [exact I|reflexivity].
Qed.

Lemma tail_octal t bits : 0 <= bits ->
  finish (48 :: t) (spec_loop true 8 bits t 0 false) = literal_result 8 false bits (split_us (48 :: t)).
Proof.
  intros Hbits. rewrite spec_loop_base0 by (lia || apply zero_fits; exact Hbits).
  cbn [orb]. rewrite existsb_split_us.
  destruct (split_us_cons t) as (g & gs & Et).
  assert (Es : split_us (48 :: t) = (48 :: g) :: gs).
  { cbn [split_us]. change (48 =? us_char) with false. cbv iota. rewrite Et. reflexivity. }
  assert (Ec : concat (split_us (48 :: t)) = 48 :: filter notus t) by (rewrite concat_split_us; reflexivity).
  replace (has_sep (split_us t)) with (has_sep (split_us (48 :: t))) by (rewrite Es, Et; reflexivity).
  apply finish_tail.
  - rewrite Ec. cbn [leading_digits]. change (digit_in 8 48) with (Some 0). cbv iota. cbn [positional]. lia.
  - rewrite Ec. cbn [forallb]. change (is_digit_in 8 48) with true. reflexivity.
  - intros Hall. apply (sep_agree (48 :: t) false false (48 :: t) 8).
    + destruct t as [|p t']; [reflexivity|]. unfold us_context.
      change ((48 =? 43) || (48 =? 45)) with false. cbv iota. change (48 =? 48) with true. cbv iota.
      destruct (prefix_base p) as [b'|] eqn:Ep; [exfalso|reflexivity].
      destruct (prefix_not_octal p b' Ep) as [Hd Hn].
      rewrite concat_split_us in Hall. cbn [filter] in Hall. change (notus 48) with true in Hall. rewrite Hn in Hall.
      cbn [forallb] in Hall. rewrite Hd in Hall. rewrite andb_false_r in Hall. discriminate Hall.
    + intros c Hc. exact (digit_sep 8 c ltac:(lia) Hc).
    + exact Hall.
    + rewrite Es. intros _. reflexivity.
Qed.

Lemma tail_decimal c0 t bits : c0 <> 48 -> 0 <= bits ->
  finish (c0 :: t) (spec_loop true 10 bits (c0 :: t) 0 false) = literal_result 10 false bits (split_us (c0 :: t)).
Proof.
  intros Hc0 Hbits. rewrite spec_loop_base0 by (lia || apply zero_fits; exact Hbits).
  cbn [orb]. rewrite existsb_split_us. apply finish_tail.
  - rewrite concat_split_us. reflexivity.
  - rewrite concat_split_us. reflexivity.
  - intros Hall. apply (sep_agree (c0 :: t) false false (c0 :: t) 10).
    + unfold us_context. destruct ((c0 =? 43) || (c0 =? 45)) eqn:Esign.
      * exfalso. rewrite concat_split_us in Hall. cbn [filter] in Hall.
        apply orb_true_iff in Esign as [E|E]; apply Z.eqb_eq in E; subst c0.
        -- change (notus 43) with true in Hall. cbn [forallb] in Hall. change (is_digit_in 10 43) with false in Hall. discriminate Hall.
        -- change (notus 45) with true in Hall. cbn [forallb] in Hall. change (is_digit_in 10 45) with false in Hall. discriminate Hall.
      * destruct t as [|p t']; [reflexivity|]. rewrite (proj2 (Z.eqb_neq c0 48) Hc0). reflexivity.
    + intros c Hc. exact (digit_sep 10 c ltac:(lia) Hc).
    + exact Hall.
    + cbn [split_us]. unfold us_char. destruct (split_us_cons t) as (g & gs & ->).
      destruct (c0 =? 95); [discriminate|]. intros _. reflexivity.
Qed.

(* ---------------------------------------------------------------- assembly *)
Lemma bits_ok bitSize : (bitSize <? 0) || (64 <? bitSize) = false -> 1 <= (if bitSize =? 0 then 64 else bitSize) <= 64.
Proof.
  intros H. apply orb_false_iff in H as [H1 H2]. apply Z.ltb_ge in H1, H2.
  destruct (Z.eqb_spec bitSize 0); lia.
Qed.

Lemma grammar_explicit c0 t base bitSize : 2 <= base <= 36 ->
  spec_parse_uint (c0 :: t) base bitSize = go_parse_uint (c0 :: t) base bitSize.
Proof.
  intros Hb. unfold spec_parse_uint, parse_frame, go_parse_uint, literal_shape. cbv zeta.
  destruct consts as (_ & _ & -> & -> & -> & ->). unfold word_bits.
  destruct (Z.leb_spec 2 base); [|lia]. destruct (Z.leb_spec base 36); [|lia]. cbn [andb].
  destruct (Z.eqb_spec base 0); [lia|].
  destruct ((bitSize <? 0) || (64 <? bitSize)) eqn:Ebs; [reflexivity|].
  pose proof (bits_ok bitSize Ebs) as Hbits. set (bits := if bitSize =? 0 then 64 else bitSize) in *.
  rewrite spec_loop_explicit_base by (lia || apply zero_fits; lia).
  change (match loop_result base bits (c0 :: t) 0 false with
          | inl e => e | inr (n0, us) => if us && negb (underscore_ok (c0 :: t)) then PSyntax else POk n0 end)
    with (finish (c0 :: t) (loop_result base bits (c0 :: t) 0 false)).
  apply finish_tail.
  - cbn [concat]. rewrite app_nil_r. reflexivity.
  - cbn [concat]. rewrite app_nil_r. reflexivity.
  - intros _. reflexivity.
Qed.

Lemma grammar_base0 c0 t bitSize : spec_parse_uint (c0 :: t) 0 bitSize = go_parse_uint (c0 :: t) 0 bitSize.
Proof.
  unfold spec_parse_uint, parse_frame, go_parse_uint, literal_shape. cbv zeta.
  destruct consts as (_ & _ & -> & -> & -> & ->). unfold word_bits.
  change ((2 <=? 0) && (0 <=? 36)) with false. change (0 =? 0) with true. cbv iota.
  destruct ((bitSize <? 0) || (64 <? bitSize)) eqn:Ebs.
  - (* bit size error: both sides have some literal shape *)
    destruct (c0 =? 48); [|destruct t as [|c1 [|c2 t2]]; reflexivity].
    destruct t as [|c1 [|c2 t2]]; try reflexivity.
    destruct (prefix_base c1) as [b|] eqn:Ep.
    + destruct (prefix_some c1 b Ep) as (_ & -> & _ & _).
      destruct (lower c1 =? 98); [reflexivity|]. destruct (lower c1 =? 111); [reflexivity|].
      destruct (lower c1 =? 120); reflexivity.
    + pose proof (prefix_none c1 Ep) as Hn. unfold is_boxl in Hn.
      destruct (lower c1 =? 98); [discriminate|]. destruct (lower c1 =? 111); [discriminate|].
      destruct (lower c1 =? 120); [discriminate|]. reflexivity.
  - pose proof (bits_ok bitSize Ebs) as Hbits. set (bits := if bitSize =? 0 then 64 else bitSize) in *.
    destruct (Z.eqb_spec c0 48) as [->|Hc0].
    + assert (Hoct : finish (48 :: t) (spec_loop true 8 bits (tl (48 :: t)) 0 false)
                     = literal_result 8 false bits (split_us (48 :: t))) by (apply tail_octal; lia).
      destruct t as [|c1 [|c2 t2]]; try exact Hoct.
      destruct (prefix_base c1) as [b|] eqn:Ep.
      * destruct (prefix_some c1 b Ep) as (Hbox & Eb & _ & _). unfold is_boxl in Hbox.
        assert (Hpre : finish (48 :: c1 :: c2 :: t2) (spec_loop true b bits (c2 :: t2) 0 false)
                       = literal_result b true bits (split_us (c2 :: t2))) by (apply tail_prefixed; [exact Ep|lia]).
        rewrite Eb in Hpre at 1.
        destruct (lower c1 =? 98); [exact Hpre|]. destruct (lower c1 =? 111); [exact Hpre|].
        destruct (lower c1 =? 120); [exact Hpre|discriminate Hbox].
      * pose proof (prefix_none c1 Ep) as Hn. unfold is_boxl in Hn.
        destruct (lower c1 =? 98); [discriminate|]. destruct (lower c1 =? 111); [discriminate|].
        destruct (lower c1 =? 120); [discriminate|]. exact Hoct.
    + assert (Hdec : finish (c0 :: t) (spec_loop true 10 bits (c0 :: t) 0 false)
                     = literal_result 10 false bits (split_us (c0 :: t))) by (apply tail_decimal; [exact Hc0|lia]).
      destruct t as [|c1 [|c2 t2]]; exact Hdec.
Qed.

(* strz.ParseUint (the model) = the declarative Go-literal grammar: every text, every base, every bit size *)
Theorem parse_uint_is_grammar s base bitSize : parse_uint s base bitSize = go_parse_uint s base bitSize.
Proof.
  rewrite parse_uint_refines_spec. destruct s as [|c0 t]; [reflexivity|].
  destruct (Z_le_dec 2 base) as [H2|H2]; [destruct (Z_le_dec base 36) as [H36|H36]|].
  - apply grammar_explicit. lia.
  - unfold spec_parse_uint, parse_frame, go_parse_uint, literal_shape. cbv zeta.
    destruct consts as (_ & _ & -> & -> & _ & _).
    destruct (Z.leb_spec base 36); [lia|]. rewrite andb_false_r. destruct (Z.eqb_spec base 0); [lia|reflexivity].
  - destruct (Z.eq_dec base 0) as [->|H0]; [apply grammar_base0|].
    unfold spec_parse_uint, parse_frame, go_parse_uint, literal_shape. cbv zeta.
    destruct consts as (_ & _ & -> & -> & _ & _).
    destruct (Z.leb_spec 2 base); [lia|]. cbn [andb]. destruct (Z.eqb_spec base 0); [lia|reflexivity].
Qed.
