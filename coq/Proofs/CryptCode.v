(* C09 — the code GENERATED from cryptz/crypt.go (coq/Gen/CryptCode.v, written by gen/trans.go + trans_ext08.go +
   trans_ext09.go on every run) is equal to the hand-written model of Model/Crypt.v, function by function, for all
   arguments.  The generated functions take everything that is not code of crypt.go as the parameter [ext' : Foreign]; it
   is instantiated with [stdc E D seal open md5 osalt] (Run/C09Code.v): md5, the random source, bytes.Equal and the four
   AES functions of cryptz/aes.go exactly as Model/Crypt.v treats them (Section variables / the functions of Model/Aes.v).
   Proof style: symbolic evaluation of the generated term (the loop of fillCred is unrolled by while_step; checked slice /
   copy primitives are rewritten into total list functions by lemmas whose side conditions are length facts decided by
   lia), case analysis on every remaining condition, equality up to arithmetic under the same constructors.  No step depends
   on the names of locals, the order of the loop's state tuple, the polarity of a condition or on helper functions. *)
From Coq Require Import List ZArith Lia Bool Arith ZifyBool.
From V Require Import Lib.Enc Gen.Cryptz Model.Aes Model.Crypt Lib.GoSem Lib.GoSemRec Lib.GoSemStd Proofs.GoSemFacts
  Gen.CryptCode Run.C09Code.
Import ListNotations.
Local Open Scope Z_scope.
Arguments Z.mul : simpl never.
Arguments Z.add : simpl never.
Arguments Z.sub : simpl never.
Arguments Z.land : simpl never.

(* ---- list facts *)
(* copy(d[a:b], src) as a total function *)
Definition cpy (d : list Z) (a b : Z) (src : list Z) : list Z :=
  firstn (Z.to_nat a) d ++ gocopy (firstn (Z.to_nat b - Z.to_nat a) (skipn (Z.to_nat a) d)) src ++ skipn (Z.to_nat b) d.
Lemma m_copy_cpy d a b src : 0 <= a -> a <= b -> b <= zlen d ->
  m_copy d a b src = Ret (cpy d a b src, Z.of_nat (Nat.min (Z.to_nat b - Z.to_nat a) (length src))).
Proof.
  intros H0 H1 H2. unfold m_copy, GoSem.slice, zlen in *.
  destruct (Z.leb_spec 0 a); [|lia]. destruct (Z.leb_spec a b); [|lia]. destruct (Z.leb_spec b (Z.of_nat (length d))); [|lia].
  cbn [andb]. unfold cpy. rewrite firstn_length, skipn_length. f_equal; f_equal; lia.
Qed.
Lemma m_copy_bad d a b src : zlen d < b \/ b < a \/ a < 0 -> m_copy d a b src = GoSem.Panic.
Proof.
  intros H. unfold m_copy, GoSem.slice, zlen in *.
  destruct (Z.leb_spec 0 a), (Z.leb_spec a b), (Z.leb_spec b (Z.of_nat (length d))); cbn [andb]; try reflexivity; lia.
Qed.
Lemma cpy_length d a b src : 0 <= a -> a <= b -> b <= zlen d -> length (cpy d a b src) = length d.
Proof.
  intros H0 H1 H2. unfold cpy, zlen in *. rewrite !app_length, gocopy_length, !firstn_length, !skipn_length. lia.
Qed.
(* cpy on a list that is already split at the bounds *)
Lemma cpy_app (P Q R src : list Z) a b : a = Z.of_nat (length P) -> b = Z.of_nat (length P + length Q) ->
  cpy (P ++ Q ++ R) a b src = P ++ gocopy Q src ++ R.
Proof.
  intros -> ->. unfold cpy. rewrite !Nat2Z.id.
  rewrite firstn_app, Nat.sub_diag, firstn_all. cbn [firstn]. rewrite app_nil_r.
  rewrite skipn_app, Nat.sub_diag, skipn_all. cbn [skipn app].
  replace (length P + length Q - length P)%nat with (length Q) by lia.
  rewrite firstn_app, Nat.sub_diag, firstn_all. cbn [firstn]. rewrite app_nil_r.
  rewrite (app_assoc P Q R), skipn_app, app_length, Nat.sub_diag. rewrite <- app_length, skipn_all. reflexivity.
Qed.
Lemma gocopy_exact (Q src : list Z) : length Q = length src -> gocopy Q src = src.
Proof. intros H. unfold gocopy. rewrite H, firstn_all. rewrite <- H, skipn_all. apply app_nil_r. Qed.
Lemma gocopy_fit (Q src : list Z) : (length src <= length Q)%nat -> gocopy Q src = src ++ skipn (length src) Q.
Proof. intros H. unfold gocopy. rewrite firstn_all2 by lia. reflexivity. Qed.
(* the scratch buffer of one KDF round: prevSum[:], secret, salt copied into buf[:n+|secret|+|salt|], n <= |prevSum| *)
Lemma fill_buf (buf prev secret salt : list Z) (n : Z) :
  let hi := n + zlen secret + zlen salt in
  0 <= n -> n <= zlen prev -> hi <= zlen buf ->
  firstn (Z.to_nat hi) (cpy (cpy (cpy buf 0 hi prev) n hi secret) (n + zlen secret) hi salt)
  = firstn (Z.to_nat n) prev ++ secret ++ salt.
Proof.
  intros hi Hn Hp Hb. unfold zlen in *.
  set (ls := length secret) in *. set (lt := length salt) in *.
  assert (Eb : buf = firstn (Z.to_nat hi) buf ++ skipn (Z.to_nat hi) buf) by (symmetry; apply firstn_skipn).
  assert (L1 : length (firstn (Z.to_nat hi) buf) = Z.to_nat hi) by (rewrite firstn_length; lia).
  set (W := firstn (Z.to_nat hi) buf) in *. set (R := skipn (Z.to_nat hi) buf) in *.
  rewrite Eb. change (W ++ R) with ([] ++ W ++ R).
  rewrite (cpy_app [] W R) by (cbn [length]; lia). cbn [app].
  (* gocopy W prev = firstn n prev ++ X, |X| = ls + lt *)
  assert (EW : exists X, gocopy W prev = firstn (Z.to_nat n) prev ++ X /\ length X = (ls + lt)%nat).
  { exists (skipn (Z.to_nat n) (gocopy W prev)). split.
    - rewrite <- (firstn_skipn (Z.to_nat n) (gocopy W prev)) at 1. f_equal.
      unfold gocopy. rewrite firstn_app, firstn_firstn, firstn_length.
      replace (Nat.min (Z.to_nat n) (length W)) with (Z.to_nat n) by lia.
      replace (Z.to_nat n - Nat.min (length W) (length prev))%nat with 0%nat by lia. cbn [firstn]. apply app_nil_r.
    - rewrite skipn_length, gocopy_length. lia. }
  destruct EW as (X & -> & LX).
  set (P := firstn (Z.to_nat n) prev) in *. assert (LP : length P = Z.to_nat n) by (unfold P; rewrite firstn_length; lia).
  rewrite <- app_assoc.
  rewrite (cpy_app P X R) by lia.
  rewrite gocopy_fit by lia. rewrite <- !app_assoc.
  set (Y := skipn (length secret) X). assert (LY : length Y = lt) by (unfold Y; rewrite skipn_length; fold ls; lia).
  rewrite (app_assoc P secret (Y ++ R)).
  rewrite (cpy_app (P ++ secret) Y R) by (rewrite app_length; fold ls; lia).
  rewrite gocopy_exact by (fold lt; lia).
  rewrite <- app_assoc.
  rewrite !app_assoc. rewrite firstn_app.
  replace (Z.to_nat hi - length ((P ++ secret) ++ salt))%nat with 0%nat by (rewrite !app_length; fold ls lt; lia).
  cbn [firstn]. rewrite app_nil_r. apply firstn_all2. rewrite !app_length. fold ls lt. lia.
Qed.

Lemma m_slice_all (l : list Z) : m_slice l 0 (zlen l) = Ret l.
Proof.
  unfold m_slice, GoSem.slice, zlen. cbn [Z.leb Z.compare andb]. destruct (Z.leb_spec 0 (Z.of_nat (length l))); [|lia].
  rewrite Z.leb_refl. cbn [andb lift Z.to_nat skipn]. rewrite Nat.sub_0_r, Nat2Z.id, firstn_all. reflexivity.
Qed.
Lemma m_slice_pre (l : list Z) b : 0 <= b -> b <= zlen l -> m_slice l 0 b = Ret (firstn (Z.to_nat b) l).
Proof.
  intros H0 H1. unfold m_slice, GoSem.slice, zlen in *. destruct (Z.leb_spec 0 b); [|lia].
  destruct (Z.leb_spec b (Z.of_nat (length l))); [|lia]. cbn [Z.leb Z.compare andb lift Z.to_nat skipn]. rewrite Nat.sub_0_r. reflexivity.
Qed.
(* copy(d[a:], src) *)
Lemma m_copy_from d a src : 0 <= a ->
  m_copy d a (zlen d) src = if a <=? zlen d then Ret (firstn (Z.to_nat a) d ++ gocopy (skipn (Z.to_nat a) d) src,
                                                    Z.of_nat (Nat.min (length d - Z.to_nat a) (length src))) else GoSem.Panic.
Proof.
  intros H. destruct (Z.leb_spec a (zlen d)).
  - unfold zlen in *. replace a with (Z.of_nat (Z.to_nat a)) at 1 by lia. rewrite m_copy_tail by lia. reflexivity.
  - apply m_copy_bad. lia.
Qed.

Lemma zlen_nonneg l : 0 <= zlen l. Proof. unfold zlen. lia. Qed.
Lemma m_make_ok n : 0 <= n -> m_make n = Ret (repeat 0 (Z.to_nat n)).
Proof. intros H. unfold m_make. destruct (Z.ltb_spec n 0); [lia|reflexivity]. Qed.
Lemma zlen_repeat (x : Z) n : 0 <= n -> zlen (repeat x (Z.to_nat n)) = n.
Proof. intros H. unfold zlen. rewrite repeat_length. lia. Qed.

(* closed integer terms *)
Ltac is_pc p := lazymatch p with xH => idtac | xO ?q => is_pc q | xI ?q => is_pc q end.
Ltac is_zc t := lazymatch t with
  | Z0 => idtac | Zpos ?p => is_pc p | Zneg ?p => is_pc p
  | ?a + ?b => is_zc a; is_zc b | ?a - ?b => is_zc a; is_zc b | ?a * ?b => is_zc a; is_zc b end.
Ltac fold1 t := let v := eval vm_compute in t in change t with v.
Ltac fold_consts := repeat match goal with
  | |- context [?a + ?b] => is_zc a; is_zc b; fold1 (a + b)
  | |- context [?a * ?b] => is_zc a; is_zc b; fold1 (a * b)
  | |- context [?a - ?b] => is_zc a; is_zc b; fold1 (a - b)
  | |- context [?a <? ?b] => is_zc a; is_zc b; fold1 (a <? b)
  | |- context [?a <=? ?b] => is_zc a; is_zc b; fold1 (a <=? b)
  | |- context [?a =? ?b] => is_zc a; is_zc b; fold1 (a =? b)
  | |- context [?a >? ?b] => is_zc a; is_zc b; fold1 (a >? b)
  | |- context [?a >=? ?b] => is_zc a; is_zc b; fold1 (a >=? b)
  end.


Definition put (d : list Z) (k : nat) (src : list Z) : list Z := firstn k d ++ gocopy (skipn k d) src.
Lemma zlen_put d k src : Z.of_nat k <= zlen d -> zlen (put d k src) = zlen d.
Proof. intros H. unfold put, zlen in *. rewrite app_length, gocopy_length, firstn_length, skipn_length. lia. Qed.
Lemma cpy_zlen d a b src : 0 <= a -> a <= b -> b <= zlen d -> zlen (cpy d a b src) = zlen d.
Proof. intros. unfold zlen. rewrite cpy_length by assumption. reflexivity. Qed.
Lemma zlen_repeat_nat (x : Z) n : zlen (repeat x n) = Z.of_nat n.
Proof. unfold zlen. rewrite repeat_length. reflexivity. Qed.
Lemma m_copy_put d a src : 0 <= a ->
  m_copy d a (zlen d) src = if a <=? zlen d then Ret (put d (Z.to_nat a) src, Z.of_nat (Nat.min (length d - Z.to_nat a) (length src))) else GoSem.Panic.
Proof. apply m_copy_from. Qed.
Lemma fill_buf' (buf prev secret salt : list Z) (n hi s2 : Z) :
  hi = n + zlen secret + zlen salt -> s2 = n + zlen secret -> 0 <= n -> n <= zlen prev -> hi <= zlen buf ->
  firstn (Z.to_nat hi) (cpy (cpy (cpy buf 0 hi prev) n hi secret) s2 hi salt) = firstn (Z.to_nat n) prev ++ secret ++ salt.
Proof. intros -> ->. apply fill_buf. Qed.

Section S.
Variable E D : bytes -> bytes -> bytes.
Variable seal : bytes -> bytes -> bytes -> bytes -> bytes.
Variable open : bytes -> bytes -> bytes -> bytes -> option bytes.
Variable md5 : bytes -> bytes.
Hypothesis md5_len : forall m, length (md5 m) = 16%nat.
Lemma md5_stdc osalt x : md5_Sum (stdc E D seal open md5 osalt) x = Ret (md5 x).
Proof. reflexivity. Qed.
Lemma md5_zlen m : zlen (md5 m) = 16. Proof. unfold zlen. rewrite md5_len. reflexivity. Qed.

Ltac lens := repeat first [rewrite zlen_repeat by lens | rewrite zlen_repeat_nat | rewrite cpy_zlen by lens | rewrite zlen_put by lens | rewrite md5_zlen]; lia.
Ltac dec_if := match goal with |- context [if ?c then _ else _] =>
  first [ replace c with false by (symmetry; lens) | replace c with true by (symmetry; lens)
        | let Hc := fresh "Hc" in destruct c eqn:Hc ] end.
Ltac abs_cpy := repeat match goal with |- context [cpy ?d ?a ?b ?s] =>
  let L := fresh "buf" in let HL := fresh "HL" in
  set (L := cpy d a b s); assert (HL : zlen L = zlen d) by (apply cpy_zlen; lens);
  repeat first [rewrite zlen_repeat in HL by lens | rewrite cpy_zlen in HL by lens] end.
Ltac ev1 := first
 [ match goal with |- context [Ret (md5 ?x)] => let p := fresh "p" in let Hp := fresh "Hp" in
     set (p := md5 x); assert (Hp : zlen p = 16) by apply md5_zlen end
 | abs_cpy; rewrite while_step
 | progress cbn [bind negb]
 | progress cbv beta iota zeta
 | progress fold_consts
 | rewrite m_make_ok by lens
 | rewrite m_slice_all
 | rewrite fill_buf' by lens
 | rewrite m_slice_pre by lens
 | rewrite m_copy_put by lens
 | rewrite m_copy_cpy by lens
 | rewrite md5_stdc
 | dec_if ].

Lemma fill_loop_S r i prev secret salt cred : fill_loop md5 (S r) i prev secret salt cred =
  if (length cred <? i * 16)%nat then Aes.Panic else
  fill_loop md5 r (S i) (md5 (firstn (if (i =? 0)%nat then 0 else 16) prev ++ secret ++ salt)) secret salt
    (put cred (i * 16) (md5 (firstn (if (i =? 0)%nat then 0 else 16) prev ++ secret ++ salt))).
Proof. reflexivity. Qed.
Ltac is_nc n := lazymatch n with O => idtac | S ?m => is_nc m end.
Ltac fold_nat := repeat match goal with
  | |- context [Z.to_nat ?a] => is_zc a; fold1 (Z.to_nat a)
  | |- context [(?a * ?b)%nat] => is_nc a; is_nc b; fold1 (a * b)%nat
  | |- context [(?a =? ?b)%nat] => is_nc a; is_nc b; fold1 (a =? b)%nat
  | |- context [(?a - ?b)%nat] => is_nc a; is_nc b; fold1 (a - b)%nat
  | |- context [(?a + ?b)%nat] => is_nc a; is_nc b; fold1 (a + b)%nat
  end.
Ltac dec_fin := match goal with |- context [if ?c then _ else _] =>
  first [ replace c with false by (symmetry; lia) | replace c with true by (symmetry; lia) ] end.
Ltac fin :=
  repeat match goal with H : _ = true |- _ => revert H | H : _ = false |- _ => revert H end;
  repeat match goal with H : zlen _ = _ |- _ => clear H end;
  repeat match goal with x := _ |- _ => first [clear x | subst x] end;
  rewrite !fill_loop_S; unfold zeros; fold_nat; cbv beta iota zeta; unfold zlen; intros;
  repeat dec_fin; cbn [fill_loop cred_res]; reflexivity.

Theorem code_fillCred : forall osalt fuel cred salt secret, (4 <= fuel)%nat ->
  g_fillCred fuel (stdc E D seal open md5 osalt) cred salt secret = cred_res (fill_loop md5 3 0 (zeros 16) secret salt cred).
Proof.
  intros osalt fuel cred salt secret Hf. do 4 (destruct fuel as [|fuel]; [lia|]). clear Hf.
  unfold g_fillCred. cbv beta iota zeta.
  pose proof (zlen_nonneg secret) as Hs. pose proof (zlen_nonneg salt) as Ht. pose proof (zlen_nonneg cred) as Hc.
  repeat ev1. all: fin.
Qed.

(* ---- the callers of fillCred *)
Lemma fill_loop_len : forall r i prev secret salt cred c, fill_loop md5 r i prev secret salt cred = Ok c -> length c = length cred.
Proof.
  induction r as [|r IH]; intros i prev secret salt cred c H; cbn [fill_loop] in H; [congruence|].
  destruct (Nat.ltb_spec (length cred) (i * STEP)); [discriminate|]. apply IH in H. rewrite H.
  change copy_into with gocopy. rewrite app_length, gocopy_length, firstn_length, skipn_length. lia.
Qed.
Lemma fill_loop_no_err : forall r i prev secret salt cred e, fill_loop md5 r i prev secret salt cred <> Err e.
Proof.
  induction r as [|r IH]; intros i prev secret salt cred e H; cbn [fill_loop] in H; [discriminate|].
  destruct (length cred <? i * STEP)%nat; [discriminate|]. apply IH in H. exact H.
Qed.
Local Notation X := (stdc E D seal open md5 _).
Lemma ReadFull_stdc osalt buf n : io_ReadFull (stdc E D seal open md5 osalt) (rand_Reader (stdc E D seal open md5 osalt)) buf n =
  match osalt with None => Ret (buf, (0, 1)) | Some s => Ret (s, (zlen s, 0)) end.
Proof. reflexivity. Qed.
Lemma Equal_stdc osalt a b : bytes_Equal (stdc E D seal open md5 osalt) a b = Ret (beq a b).
Proof. reflexivity. Qed.
Lemma front_all buf : front buf (zlen buf) = buf.
Proof. unfold front, zlen. rewrite Nat2Z.id. apply firstn_all. Qed.
Lemma back_all buf d : back buf (zlen buf) d = d.
Proof. unfold back, zlen. rewrite Nat2Z.id, skipn_all. apply app_nil_r. Qed.
Definition buf_res (buf : bytes) (r : res bytes) : M (bytes * Z) :=
  match r with Ok d => Ret (d, 0) | Err e => Ret (buf, e) | Aes.Panic => GoSem.Panic end.
Lemma CBCEncrypt_stdc osalt buf p k iv : cryptz_AESCBCEncrypt (stdc E D seal open md5 osalt) buf (zlen buf) p k iv = buf_res buf (cbc_encrypt E buf p k iv).
Proof. cbn [cryptz_AESCBCEncrypt stdc]. unfold c_CBCEncrypt, c_buf. rewrite front_all. destruct (cbc_encrypt E buf p k iv); cbn [buf_res]; rewrite ?back_all; reflexivity. Qed.
Lemma GCMEncrypt_stdc osalt buf p k n ad : cryptz_AESGCMEncrypt (stdc E D seal open md5 osalt) buf (zlen buf) p k n ad = buf_res buf (gcm_encrypt seal buf p k n ad).
Proof. cbn [cryptz_AESGCMEncrypt stdc]. unfold c_GCMEncrypt, c_buf. rewrite front_all. destruct (gcm_encrypt seal buf p k n ad); cbn [buf_res]; rewrite ?back_all; reflexivity. Qed.
Lemma GCMDecrypt_stdc osalt buf ct k n ad : cryptz_AESGCMDecrypt (stdc E D seal open md5 osalt) buf (zlen buf) ct k n ad = buf_res buf (gcm_decrypt open buf ct k n ad).
Proof. cbn [cryptz_AESGCMDecrypt stdc]. unfold c_GCMDecrypt, c_buf. rewrite front_all. destruct (gcm_decrypt open buf ct k n ad); cbn [buf_res]; rewrite ?back_all; reflexivity. Qed.
Lemma CBCDecrypt_stdc osalt buf ct k iv : cryptz_AESCBCDecrypt (stdc E D seal open md5 osalt) buf (zlen buf) ct k iv =
  match cbc_decrypt D buf ct k iv with Ok (n, d) => Ret (d, (Z.of_nat n, 0)) | Err e => Ret (buf, (0, e)) | Aes.Panic => GoSem.Panic end.
Proof. cbn [cryptz_AESCBCDecrypt stdc]. unfold c_CBCDecrypt. rewrite front_all. destruct (cbc_decrypt D buf ct k iv) as [[n d]| |]; rewrite ?back_all; reflexivity. Qed.
Lemma splice_all l x : splice l 0 (zlen l) x = x.
Proof. unfold splice, zlen. rewrite Nat2Z.id, skipn_all. cbn [Z.to_nat firstn app]. apply app_nil_r. Qed.
Lemma m_slice_gen (l : list Z) a b : 0 <= a -> a <= b -> b <= zlen l ->
  m_slice l a b = Ret (firstn (Z.to_nat b - Z.to_nat a) (skipn (Z.to_nat a) l)).
Proof.
  intros H0 H1 H2. unfold m_slice, GoSem.slice, zlen in *. destruct (Z.leb_spec 0 a); [|lia].
  destruct (Z.leb_spec a b); [|lia]. destruct (Z.leb_spec b (Z.of_nat (length l))); [|lia]. reflexivity.
Qed.
Lemma m_slice_from (l : list Z) a : 0 <= a -> a <= zlen l -> m_slice l a (zlen l) = Ret (skipn (Z.to_nat a) l).
Proof.
  intros H0 H1. rewrite m_slice_gen by lia. unfold zlen in *. rewrite firstn_all2; [reflexivity|]. rewrite skipn_length. lia.
Qed.

Theorem code_fillSaltAndCred : forall osalt fuel salt cred secret, (4 <= fuel)%nat ->
  g_fillSaltAndCred fuel (stdc E D seal open md5 osalt) salt cred secret =
  match osalt with
  | None => Ret (salt, (cred, E_SALT))
  | Some s => GoSem.bind (cred_res (fill_loop md5 3 0 (zeros 16) secret s cred)) (fun c => Ret (s, (c, 0)))
  end.
Proof.
  intros osalt fuel salt cred secret Hf. unfold g_fillSaltAndCred. rewrite ReadFull_stdc.
  destruct osalt as [s|]; repeat first [ev1 | rewrite code_fillCred by assumption]; reflexivity.
Qed.

Lemma length_put d k src : (k <= length d)%nat -> length (put d k src) = length d.
Proof. intros H. unfold put. rewrite app_length, gocopy_length, firstn_length, skipn_length. lia. Qed.
Lemma masked_land n : Z.of_nat (masked n) = Z.land (Z.of_nat n) 15.
Proof. unfold masked. change block_size_mask with 15. rewrite Z2Nat.id; [reflexivity|]. apply Z.land_nonneg. lia. Qed.
Lemma key_iv_48 c : zlen c = 48 -> key_iv c = Ok (firstn 32 c, skipn 32 c).
Proof.
  intros H. unfold zlen in H. assert (L : length c = 48%nat) by lia. unfold key_iv, Crypt.slice. rewrite L.
  change KEYLEN with 32%nat. change ((0 <=? 32)%nat && (32 <=? 48)%nat) with true. change ((32 <=? 48)%nat && (48 <=? 48)%nat) with true.
  cbv iota. change (48 - 32)%nat with 16%nat. change (32 - 0)%nat with 32%nat. rewrite (firstn_all2 (n := 16%nat)); [reflexivity|]. rewrite skipn_length. lia.
Qed.
Lemma key_nonce_48 c : zlen c = 48 -> key_nonce c = Ok (firstn 32 c, firstn 12 (skipn 32 c)).
Proof.
  intros H. unfold zlen in H. assert (L : length c = 48%nat) by lia. unfold key_nonce, Crypt.slice. rewrite L.
  change KEYLEN with 32%nat. change NONCE with 12%nat. reflexivity.
Qed.
Lemma with_header_ok dst s : (8 <= length dst)%nat -> with_header dst s = Ok (put (gocopy dst header) 8 s).
Proof.
  intros H. unfold with_header. cbv zeta. change copy_into with gocopy. rewrite gocopy_length.
  destruct (Nat.ltb_spec (length dst) 8); [lia|]. reflexivity.
Qed.
Lemma land15_bounds x : 0 <= x -> 0 <= Z.land x 15 <= 15.
Proof. intros H. replace (Z.land x 15) with (x mod 16); [pose proof (Z.mod_pos_bound x 16); lia|]. change 15 with (Z.ones 4). rewrite Z.land_ones by lia. reflexivity. Qed.
Ltac ev2 := first
 [ ev1
 | rewrite code_fillCred by assumption
 | rewrite code_fillSaltAndCred by assumption
 | rewrite splice_all
 | rewrite m_slice_from by lens
 | rewrite m_slice_gen by lens
 | rewrite Equal_stdc | rewrite CBCEncrypt_stdc | rewrite GCMEncrypt_stdc | rewrite GCMDecrypt_stdc | rewrite CBCDecrypt_stdc
 | progress unfold E_SALT, E_CTLEN2, E_HDR_CBC, E_HDR
 | progress autounfold with go2v_aux ].

(* ---- the decryptors: both sides are evaluated together *)
Lemma slice_ok (l : bytes) a b : (a <= b)%nat -> (b <= length l)%nat -> Crypt.slice l a b = Some (firstn (b - a) (skipn a l)).
Proof. intros H1 H2. unfold Crypt.slice. destruct (Nat.leb_spec a b), (Nat.leb_spec b (length l)); try lia. reflexivity. Qed.
Lemma slice_from_nat (l : bytes) a : (a <= length l)%nat -> Crypt.slice l a (length l) = Some (skipn a l).
Proof. intros H. rewrite slice_ok by lia. rewrite firstn_all2; [reflexivity|]. rewrite skipn_length. lia. Qed.
Lemma m_slice_nat0 (l : list Z) b : m_slice l 0 (Z.of_nat b) = lift (Crypt.slice l 0 b).
Proof.
  unfold m_slice, GoSem.slice, Crypt.slice. cbn [Z.leb Z.compare Nat.leb andb].
  destruct (Z.leb_spec 0 (Z.of_nat b)); [|lia]. cbn [andb].
  destruct (Z.leb_spec (Z.of_nat b) (Z.of_nat (length l))), (Nat.leb_spec b (length l)); try lia; [|reflexivity].
  rewrite Nat2Z.id. reflexivity.
Qed.
Lemma m_slice_neg (l : list Z) b : b < 0 -> m_slice l 0 b = GoSem.Panic.
Proof. intros H. unfold m_slice, GoSem.slice. cbn [Z.leb Z.compare andb]. destruct (Z.leb_spec 0 b); [lia|reflexivity]. Qed.
Lemma to_nat_zlen (l : list Z) : Z.to_nat (zlen l) = length l.
Proof. unfold zlen. apply Nat2Z.id. Qed.
Ltac err_nz H := repeat match type of H with
  | context [if ?c then _ else _] => destruct c
  | context [match ?x with Some _ => _ | None => _ end] => destruct x
  end; try discriminate; try (injection H as <-; discriminate).
Lemma unpad_err_nz d e : unpad_tbl d = Err e -> e <> 0.
Proof. unfold unpad_tbl. intros H. err_nz H. Qed.
Lemma cbc_decrypt_err_nz dst ct k iv e : cbc_decrypt D dst ct k iv = Err e -> e <> 0.
Proof.
  unfold cbc_decrypt. cbv zeta. intros H. err_nz H.
  destruct (unpad_tbl _) eqn:Hu in H; try discriminate. injection H as <-. apply unpad_err_nz in Hu. exact Hu.
Qed.
Lemma gcm_decrypt_err_nz dst ct k n ad e : gcm_decrypt open dst ct k n ad = Err e -> e <> 0.
Proof. unfold gcm_decrypt. intros H. err_nz H. Qed.
Lemma skipn_skipn9 (l : list Z) : forall x y, skipn x (skipn y l) = skipn (y + x) l.
Proof. induction l as [|h t IH]; intros x y; [destruct x, y; reflexivity|]. destruct y; [reflexivity|]. cbn [skipn Nat.add]. apply IH. Qed.
Lemma cpy_exact d a b src : Z.of_nat (length src) = b - a -> 0 <= a -> b <= zlen d -> cpy d a b src = put d (Z.to_nat a) src.
Proof.
  intros Hl Ha Hb. unfold cpy, put, zlen in *. f_equal.
  rewrite gocopy_exact by (rewrite firstn_length, skipn_length; lia).
  rewrite gocopy_fit by (rewrite skipn_length; lia). f_equal. rewrite skipn_skipn9. f_equal. lia.
Qed.
Lemma firstn_skipn_all (l : list Z) a k : (length l <= a + k)%nat -> firstn k (skipn a l) = skipn a l.
Proof. intros H. apply firstn_all2. rewrite skipn_length. lia. Qed.
Ltac lensn := unfold zlen in *; repeat first [rewrite repeat_length | rewrite gocopy_length | rewrite length_put by lensn]; lia.
Ltac lenc := unfold cbc_encrypt_len, gcm_encrypt_len; rewrite ?masked_land; change aes_block_size with 16; change gcm_tag_size with 16; lensn.
Ltac dec_if3 := match goal with |- context [if ?c then _ else _] =>
  match c with context [if _ then _ else _] => fail 1 | _ => idtac end;
  first [ replace c with false by (symmetry; lens) | replace c with true by (symmetry; lens)
        | replace c with false by (symmetry; lensn) | replace c with true by (symmetry; lensn)
        | match c with context [?v] => is_var v; match type of v with bool => destruct v end end
        | let Hc := fresh "Hc" in destruct c eqn:Hc ] end.
Ltac not_if r := lazymatch r with context [if _ then _ else _] => fail | context [Crypt.bind _ _] => fail | _ => idtac end.
Ltac dres r := lazymatch type of r with res (_ * _) => destruct r as [[? ?]| |] eqn:? | _ => destruct r eqn:? end.
Ltac ev3n := first
 [ match goal with
   | HF : fill_cred md5 _ _ = Err _ |- _ => exfalso; exact (fill_loop_no_err _ _ _ _ _ _ _ HF)
   | HF : cbc_decrypt D _ _ _ _ = Err ?e |- _ =>
       lazymatch goal with H : e <> 0 |- _ => fail | _ => idtac end; pose proof (cbc_decrypt_err_nz _ _ _ _ _ HF)
   | HF : gcm_decrypt open _ _ _ _ _ = Err ?e |- _ =>
       lazymatch goal with H : e <> 0 |- _ => fail | _ => idtac end; pose proof (gcm_decrypt_err_nz _ _ _ _ _ _ HF)
   | HF : fill_cred md5 _ _ = Ok ?c |- _ =>
       lazymatch goal with H : zlen c = 48 |- _ => fail | _ => idtac end;
       assert (zlen c = 48) by (apply fill_loop_len in HF; unfold zlen; rewrite HF; reflexivity)
   end
 | match goal with |- context [Ret (md5 ?x)] => let p := fresh "p" in let Hp := fresh "Hp" in
     set (p := md5 x); assert (Hp : zlen p = 16) by apply md5_zlen end
 | progress cbn [GoSem.bind negb Crypt.bind of_opt plain_of bytes_res9 cred_res buf_res lift]
 | progress cbv beta iota zeta
 | progress fold_consts
 | progress fold_nat
 | progress unfold E_SALT, E_CTLEN2, E_HDR_CBC, E_HDR
 | match goal with |- context [fill_loop md5 3 0 (zeros 16) ?a ?b (repeat 0 48)] =>
     change (fill_loop md5 3 0 (zeros 16) a b (repeat 0 48)) with (fill_cred md5 a b) end
 | progress unfold zeros
 | progress change header with v_fixedSaltHeader
 | progress change BS with 16%nat
 | progress change TAG with 16%nat
 | match goal with |- context [skipn 0 ?l] => change (skipn 0 l) with l end
 | progress autounfold with go2v_aux
 | rewrite to_nat_zlen
 | rewrite m_make_ok by first [lens | apply zlen_nonneg]
 | progress unfold copy_all
 | match goal with |- context [put ?d 0%nat ?x] => change (put d 0%nat x) with (gocopy d x) end
 | rewrite m_copy_put by first [lens | lensn]
 | rewrite m_copy_cpy by first [lens | lensn]
 | rewrite cpy_exact by lensn
 | rewrite firstn_skipn
 | rewrite firstn_skipn_all by lensn
 | rewrite with_header_ok by lensn
 | match goal with |- context [repeat 0 (Z.to_nat ?z)] => match goal with |- context [repeat 0 ?n2] =>
     lazymatch n2 with Z.to_nat _ => fail | _ => idtac end; replace n2 with (Z.to_nat z) by lenc end end
 | rewrite m_slice_all
 | rewrite m_slice_from by first [lens | lensn]
 | rewrite m_slice_pre by first [lens | lensn]
 | rewrite m_slice_neg by first [lens | lensn]
 | rewrite m_slice_nat0
 | rewrite m_slice_gen by first [lens | lensn]
 | rewrite splice_all
 | rewrite code_fillCred by assumption
 | rewrite code_fillSaltAndCred by assumption
 | rewrite Equal_stdc | rewrite CBCEncrypt_stdc | rewrite GCMEncrypt_stdc | rewrite GCMDecrypt_stdc | rewrite CBCDecrypt_stdc
 | rewrite slice_from_nat by lensn
 | rewrite slice_ok by lensn
 | rewrite key_iv_48 by assumption | rewrite key_nonce_48 by assumption
 | dec_if3 ].
Ltac ev3 := first [ ev3n
 | match goal with
   | |- context [match ?r with Ok _ => _ | Err _ => _ | Aes.Panic => _ end] => not_if r; dres r
   | |- context [of_opt ?r] => not_if r; destruct r eqn:?
   | |- context [lift ?r] => not_if r; destruct r eqn:?
   | |- context [Crypt.bind ?r _] => not_if r; dres r
   | |- context [buf_res _ ?r] => not_if r; destruct r eqn:?
   | |- context [cred_res ?r] => not_if r; destruct r eqn:?
   | |- context [of_opt ?r] => not_if r; destruct r eqn:?
   | |- context [lift ?r] => not_if r; destruct r eqn:?
   end ].
Ltac feq9 := first [ reflexivity | lensn | progress f_equal; feq9 ].

Theorem code_SaltBySecretCBCDecrypt : forall osalt fuel ct secret reuse, (4 <= fuel)%nat ->
  g_SaltBySecretCBCDecrypt fuel (stdc E D seal open md5 osalt) ct secret reuse =
  bytes_res9 (plain_of (salt_cbc_decrypt D md5 ct secret reuse)).
Proof.
  intros osalt fuel ct secret reuse Hf. unfold g_SaltBySecretCBCDecrypt, salt_cbc_decrypt.
  pose proof (masked_land (length ct)) as Hm. pose proof (zlen_nonneg ct) as Hz.
  repeat ev3. all: feq9.
Qed.

Theorem code_SaltBySecretGCMDecrypt : forall osalt fuel ct secret ad reuse, (4 <= fuel)%nat ->
  g_SaltBySecretGCMDecrypt fuel (stdc E D seal open md5 osalt) ct secret ad reuse =
  bytes_res9 (plain_of (salt_gcm_decrypt open md5 ct secret ad reuse)).
Proof.
  intros osalt fuel ct secret ad reuse Hf. unfold g_SaltBySecretGCMDecrypt, salt_gcm_decrypt.
  pose proof (zlen_nonneg ct) as Hz.
  repeat ev3. all: feq9.
Qed.

Theorem code_SaltBySecretCBCEncrypt : forall osalt fuel p secret, (4 <= fuel)%nat ->
  (forall s, osalt = Some s -> length s = 8%nat) ->
  g_SaltBySecretCBCEncrypt fuel (stdc E D seal open md5 osalt) p secret = bytes_res9 (salt_cbc_encrypt E md5 osalt p secret).
Proof.
  intros osalt fuel p secret Hf Hs. unfold g_SaltBySecretCBCEncrypt, salt_cbc_encrypt, salt_cbc_parts.
  pose proof (land15_bounds (zlen p) (zlen_nonneg p)) as Hl. pose proof (zlen_nonneg p) as Hp.
  destruct osalt as [s|]; [specialize (Hs s eq_refl)|clear Hs].
  all: repeat ev3. all: feq9.
Qed.
Theorem code_SaltBySecretGCMEncrypt : forall osalt fuel p secret ad, (4 <= fuel)%nat ->
  (forall s, osalt = Some s -> length s = 8%nat) ->
  g_SaltBySecretGCMEncrypt fuel (stdc E D seal open md5 osalt) p secret ad = bytes_res9 (salt_gcm_encrypt seal md5 osalt p secret ad).
Proof.
  intros osalt fuel p secret ad Hf Hs. unfold g_SaltBySecretGCMEncrypt, salt_gcm_encrypt.
  pose proof (zlen_nonneg p) as Hp.
  destruct osalt as [s|]; [specialize (Hs s eq_refl)|clear Hs].
  all: repeat ev3. all: feq9.
Qed.
End S.
