(* C09 — the code GENERATED from cryptz/crypt.go (coq/Gen/CryptCode.v, written by gen/trans.go + trans_ext08.go +
   trans_ext09.go on every run) is equal to the hand-written model of Model/Crypt.v, function by function, for all
   arguments.  The generated functions take everything that is not code of crypt.go as the parameter [ext' : Foreign]; it
   is instantiated with [stdc E D seal open md5 osalt] (Run/C09Code.v): md5, the random source, bytes.Equal and the four
   AES functions of cryptz/aes.go exactly as Model/Crypt.v treats them (Section variables / the functions of Model/Aes.v).
   Proof style: symbolic evaluation of the generated term (the loop of fillCred is unrolled by while_step; checked slice /
   copy primitives are rewritten into total list functions by lemmas whose side conditions are length facts decided by
   lia), case analysis on every remaining condition, equality up to arithmetic under the same constructors.  No step depends
   on the names of locals, the order of the loop's state tuple, the polarity of a condition or on helper functions. *)
From Coq Require Import List ZArith Lia Bool Arith.
From V Require Import Lib.Enc Gen.Cryptz Model.Aes Model.Crypt Lib.GoSem Lib.GoSemRec Lib.GoSemStd Proofs.GoSemFacts
  Gen.CryptCode Run.C09Code.
Import ListNotations.
Local Open Scope Z_scope.
Arguments Z.mul : simpl never.
Arguments Z.add : simpl never.
Arguments Z.sub : simpl never.
Arguments Z.land : simpl never.

(* ---- list facts *)
(* copy(d[a:b], src) as a total function *)
Definition cpy (d : list Z) (a b : Z) (src : list Z) : list Z :=
  firstn (Z.to_nat a) d ++ gocopy (firstn (Z.to_nat b - Z.to_nat a) (skipn (Z.to_nat a) d)) src ++ skipn (Z.to_nat b) d.
Lemma m_copy_cpy d a b src : 0 <= a -> a <= b -> b <= zlen d ->
  m_copy d a b src = Ret (cpy d a b src, Z.of_nat (Nat.min (Z.to_nat b - Z.to_nat a) (length src))).
Proof.
  intros H0 H1 H2. unfold m_copy, GoSem.slice, zlen in *.
  destruct (Z.leb_spec 0 a); [|lia]. destruct (Z.leb_spec a b); [|lia]. destruct (Z.leb_spec b (Z.of_nat (length d))); [|lia].
  cbn [andb]. unfold cpy. rewrite firstn_length, skipn_length. f_equal; f_equal; lia.
Qed.
Lemma m_copy_bad d a b src : zlen d < b \/ b < a \/ a < 0 -> m_copy d a b src = GoSem.Panic.
Proof.
  intros H. unfold m_copy, GoSem.slice, zlen in *.
  destruct (Z.leb_spec 0 a), (Z.leb_spec a b), (Z.leb_spec b (Z.of_nat (length d))); cbn [andb]; try reflexivity; lia.
Qed.
Lemma cpy_length d a b src : 0 <= a -> a <= b -> b <= zlen d -> length (cpy d a b src) = length d.
Proof.
  intros H0 H1 H2. unfold cpy, zlen in *. rewrite !app_length, gocopy_length, !firstn_length, !skipn_length. lia.
Qed.
(* cpy on a list that is already split at the bounds *)
Lemma cpy_app (P Q R src : list Z) a b : a = Z.of_nat (length P) -> b = Z.of_nat (length P + length Q) ->
  cpy (P ++ Q ++ R) a b src = P ++ gocopy Q src ++ R.
Proof.
  intros -> ->. unfold cpy. rewrite !Nat2Z.id.
  rewrite firstn_app, Nat.sub_diag, firstn_all. cbn [firstn]. rewrite app_nil_r.
  rewrite skipn_app, Nat.sub_diag, skipn_all. cbn [skipn app].
  replace (length P + length Q - length P)%nat with (length Q) by lia.
  rewrite firstn_app, Nat.sub_diag, firstn_all. cbn [firstn]. rewrite app_nil_r.
  rewrite (app_assoc P Q R), skipn_app, app_length, Nat.sub_diag. rewrite <- app_length, skipn_all. reflexivity.
Qed.
Lemma gocopy_exact (Q src : list Z) : length Q = length src -> gocopy Q src = src.
Proof. intros H. unfold gocopy. rewrite H, firstn_all. rewrite <- H, skipn_all. apply app_nil_r. Qed.
Lemma gocopy_fit (Q src : list Z) : (length src <= length Q)%nat -> gocopy Q src = src ++ skipn (length src) Q.
Proof. intros H. unfold gocopy. rewrite firstn_all2 by lia. reflexivity. Qed.
(* the scratch buffer of one KDF round: prevSum[:], secret, salt copied into buf[:n+|secret|+|salt|], n <= |prevSum| *)
Lemma fill_buf (buf prev secret salt : list Z) (n : Z) :
  let hi := n + zlen secret + zlen salt in
  0 <= n -> n <= zlen prev -> hi <= zlen buf ->
  firstn (Z.to_nat hi) (cpy (cpy (cpy buf 0 hi prev) n hi secret) (n + zlen secret) hi salt)
  = firstn (Z.to_nat n) prev ++ secret ++ salt.
Proof.
  intros hi Hn Hp Hb. unfold zlen in *.
  set (ls := length secret) in *. set (lt := length salt) in *.
  assert (Eb : buf = firstn (Z.to_nat hi) buf ++ skipn (Z.to_nat hi) buf) by (symmetry; apply firstn_skipn).
  assert (L1 : length (firstn (Z.to_nat hi) buf) = Z.to_nat hi) by (rewrite firstn_length; lia).
  set (W := firstn (Z.to_nat hi) buf) in *. set (R := skipn (Z.to_nat hi) buf) in *.
  rewrite Eb. change (W ++ R) with ([] ++ W ++ R).
  rewrite (cpy_app [] W R) by (cbn [length]; lia). cbn [app].
  (* gocopy W prev = firstn n prev ++ X, |X| = ls + lt *)
  assert (EW : exists X, gocopy W prev = firstn (Z.to_nat n) prev ++ X /\ length X = (ls + lt)%nat).
  { exists (skipn (Z.to_nat n) (gocopy W prev)). split.
    - rewrite <- (firstn_skipn (Z.to_nat n) (gocopy W prev)) at 1. f_equal.
      unfold gocopy. rewrite firstn_app, firstn_firstn, firstn_length.
      replace (Nat.min (Z.to_nat n) (length W)) with (Z.to_nat n) by lia.
      replace (Z.to_nat n - Nat.min (length W) (length prev))%nat with 0%nat by lia. cbn [firstn]. apply app_nil_r.
    - rewrite skipn_length, gocopy_length. lia. }
  destruct EW as (X & -> & LX).
  set (P := firstn (Z.to_nat n) prev) in *. assert (LP : length P = Z.to_nat n) by (unfold P; rewrite firstn_length; lia).
  rewrite <- app_assoc.
  rewrite (cpy_app P X R) by lia.
  rewrite gocopy_fit by lia. rewrite <- !app_assoc.
  set (Y := skipn (length secret) X). assert (LY : length Y = lt) by (unfold Y; rewrite skipn_length; fold ls; lia).
  rewrite (app_assoc P secret (Y ++ R)).
  rewrite (cpy_app (P ++ secret) Y R) by (rewrite app_length; fold ls; lia).
  rewrite gocopy_exact by (fold lt; lia).
  rewrite <- app_assoc.
  rewrite !app_assoc. rewrite firstn_app.
  replace (Z.to_nat hi - length ((P ++ secret) ++ salt))%nat with 0%nat by (rewrite !app_length; fold ls lt; lia).
  cbn [firstn]. rewrite app_nil_r. apply firstn_all2. rewrite !app_length. fold ls lt. lia.
Qed.

Lemma m_slice_all (l : list Z) : m_slice l 0 (zlen l) = Ret l.
Proof.
  unfold m_slice, GoSem.slice, zlen. cbn [Z.leb Z.compare andb]. destruct (Z.leb_spec 0 (Z.of_nat (length l))); [|lia].
  rewrite Z.leb_refl. cbn [andb lift Z.to_nat skipn]. rewrite Nat.sub_0_r, Nat2Z.id, firstn_all. reflexivity.
Qed.
Lemma m_slice_pre (l : list Z) b : 0 <= b -> b <= zlen l -> m_slice l 0 b = Ret (firstn (Z.to_nat b) l).
Proof.
  intros H0 H1. unfold m_slice, GoSem.slice, zlen in *. destruct (Z.leb_spec 0 b); [|lia].
  destruct (Z.leb_spec b (Z.of_nat (length l))); [|lia]. cbn [Z.leb Z.compare andb lift Z.to_nat skipn]. rewrite Nat.sub_0_r. reflexivity.
Qed.
(* copy(d[a:], src) *)
Lemma m_copy_from d a src : 0 <= a ->
  m_copy d a (zlen d) src = if a <=? zlen d then Ret (firstn (Z.to_nat a) d ++ gocopy (skipn (Z.to_nat a) d) src,
                                                    Z.of_nat (Nat.min (length d - Z.to_nat a) (length src))) else GoSem.Panic.
Proof.
  intros H. destruct (Z.leb_spec a (zlen d)).
  - unfold zlen in *. replace a with (Z.of_nat (Z.to_nat a)) at 1 by lia. rewrite m_copy_tail by lia. reflexivity.
  - apply m_copy_bad. lia.
Qed.

(* STATUS: the lemmas above are what the equality proof of g_fillCred needs (m_copy / m_slice as total functions, the
   scratch-buffer lemma fill_buf); the theorem code_fillCred itself (symbolic evaluation of the three rounds against
   Model.Crypt.fill_loop) is NOT in this file yet: the evaluation script did not terminate in the time available.
   See notes/C09.md, section "CryptCode". *)
