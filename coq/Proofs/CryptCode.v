(* C09 — the code GENERATED from cryptz/crypt.go (coq/Gen/CryptCode.v, written by gen/trans.go + trans_ext08.go +
   trans_ext09.go on every run) is equal to the hand-written model of Model/Crypt.v, function by function, for all
   arguments.  The generated functions take everything that is not code of crypt.go as the parameter [ext' : Foreign]; it
   is instantiated with [stdc E D seal open md5 osalt] (Run/C09Code.v): md5, the random source, bytes.Equal and the four
   AES functions of cryptz/aes.go exactly as Model/Crypt.v treats them (Section variables / the functions of Model/Aes.v).
   Proof style: symbolic evaluation of the generated term (the loop of fillCred is unrolled by while_step; checked slice /
   copy primitives are rewritten into total list functions by lemmas whose side conditions are length facts decided by
   lia), case analysis on every remaining condition, equality up to arithmetic under the same constructors.  No step depends
   on the names of locals, the order of the loop's state tuple, the polarity of a condition or on helper functions. *)
From Coq Require Import List ZArith Lia Bool Arith ZifyBool.
From V Require Import Lib.Enc Gen.Cryptz Model.Aes Model.Crypt Lib.GoSem Lib.GoSemRec Lib.GoSemStd Proofs.GoSemFacts
  Gen.CryptCode Run.C09Code.
Import ListNotations.
Local Open Scope Z_scope.
Arguments Z.mul : simpl never.
Arguments Z.add : simpl never.
Arguments Z.sub : simpl never.
Arguments Z.land : simpl never.

(* ---- list facts *)
(* copy(d[a:b], src) as a total function *)
Definition cpy (d : list Z) (a b : Z) (src : list Z) : list Z :=
  firstn (Z.to_nat a) d ++ gocopy (firstn (Z.to_nat b - Z.to_nat a) (skipn (Z.to_nat a) d)) src ++ skipn (Z.to_nat b) d.
Lemma m_copy_cpy d a b src : 0 <= a -> a <= b -> b <= zlen d ->
  m_copy d a b src = Ret (cpy d a b src, Z.of_nat (Nat.min (Z.to_nat b - Z.to_nat a) (length src))).
Proof.
  intros H0 H1 H2. unfold m_copy, GoSem.slice, zlen in *.
  destruct (Z.leb_spec 0 a); [|lia]. destruct (Z.leb_spec a b); [|lia]. destruct (Z.leb_spec b (Z.of_nat (length d))); [|lia].
  cbn [andb]. unfold cpy. rewrite firstn_length, skipn_length. f_equal; f_equal; lia.
Qed.
Lemma m_copy_bad d a b src : zlen d < b \/ b < a \/ a < 0 -> m_copy d a b src = GoSem.Panic.
Proof.
  intros H. unfold m_copy, GoSem.slice, zlen in *.
  destruct (Z.leb_spec 0 a), (Z.leb_spec a b), (Z.leb_spec b (Z.of_nat (length d))); cbn [andb]; try reflexivity; lia.
Qed.
Lemma cpy_length d a b src : 0 <= a -> a <= b -> b <= zlen d -> length (cpy d a b src) = length d.
Proof.
  intros H0 H1 H2. unfold cpy, zlen in *. rewrite !app_length, gocopy_length, !firstn_length, !skipn_length. lia.
Qed.
(* cpy on a list that is already split at the bounds *)
Lemma cpy_app (P Q R src : list Z) a b : a = Z.of_nat (length P) -> b = Z.of_nat (length P + length Q) ->
  cpy (P ++ Q ++ R) a b src = P ++ gocopy Q src ++ R.
Proof.
  intros -> ->. unfold cpy. rewrite !Nat2Z.id.
  rewrite firstn_app, Nat.sub_diag, firstn_all. cbn [firstn]. rewrite app_nil_r.
  rewrite skipn_app, Nat.sub_diag, skipn_all. cbn [skipn app].
  replace (length P + length Q - length P)%nat with (length Q) by lia.
  rewrite firstn_app, Nat.sub_diag, firstn_all. cbn [firstn]. rewrite app_nil_r.
  rewrite (app_assoc P Q R), skipn_app, app_length, Nat.sub_diag. rewrite <- app_length, skipn_all. reflexivity.
Qed.
Lemma gocopy_exact (Q src : list Z) : length Q = length src -> gocopy Q src = src.
Proof. intros H. unfold gocopy. rewrite H, firstn_all. rewrite <- H, skipn_all. apply app_nil_r. Qed.
Lemma gocopy_fit (Q src : list Z) : (length src <= length Q)%nat -> gocopy Q src = src ++ skipn (length src) Q.
Proof. intros H. unfold gocopy. rewrite firstn_all2 by lia. reflexivity. Qed.
(* the scratch buffer of one KDF round: prevSum[:], secret, salt copied into buf[:n+|secret|+|salt|], n <= |prevSum| *)
Lemma fill_buf (buf prev secret salt : list Z) (n : Z) :
  let hi := n + zlen secret + zlen salt in
  0 <= n -> n <= zlen prev -> hi <= zlen buf ->
  firstn (Z.to_nat hi) (cpy (cpy (cpy buf 0 hi prev) n hi secret) (n + zlen secret) hi salt)
  = firstn (Z.to_nat n) prev ++ secret ++ salt.
Proof.
  intros hi Hn Hp Hb. unfold zlen in *.
  set (ls := length secret) in *. set (lt := length salt) in *.
  assert (Eb : buf = firstn (Z.to_nat hi) buf ++ skipn (Z.to_nat hi) buf) by (symmetry; apply firstn_skipn).
  assert (L1 : length (firstn (Z.to_nat hi) buf) = Z.to_nat hi) by (rewrite firstn_length; lia).
  set (W := firstn (Z.to_nat hi) buf) in *. set (R := skipn (Z.to_nat hi) buf) in *.
  rewrite Eb. change (W ++ R) with ([] ++ W ++ R).
  rewrite (cpy_app [] W R) by (cbn [length]; lia). cbn [app].
  (* gocopy W prev = firstn n prev ++ X, |X| = ls + lt *)
  assert (EW : exists X, gocopy W prev = firstn (Z.to_nat n) prev ++ X /\ length X = (ls + lt)%nat).
  { exists (skipn (Z.to_nat n) (gocopy W prev)). split.
    - rewrite <- (firstn_skipn (Z.to_nat n) (gocopy W prev)) at 1. f_equal.
      unfold gocopy. rewrite firstn_app, firstn_firstn, firstn_length.
      replace (Nat.min (Z.to_nat n) (length W)) with (Z.to_nat n) by lia.
      replace (Z.to_nat n - Nat.min (length W) (length prev))%nat with 0%nat by lia. cbn [firstn]. apply app_nil_r.
    - rewrite skipn_length, gocopy_length. lia. }
  destruct EW as (X & -> & LX).
  set (P := firstn (Z.to_nat n) prev) in *. assert (LP : length P = Z.to_nat n) by (unfold P; rewrite firstn_length; lia).
  rewrite <- app_assoc.
  rewrite (cpy_app P X R) by lia.
  rewrite gocopy_fit by lia. rewrite <- !app_assoc.
  set (Y := skipn (length secret) X). assert (LY : length Y = lt) by (unfold Y; rewrite skipn_length; fold ls; lia).
  rewrite (app_assoc P secret (Y ++ R)).
  rewrite (cpy_app (P ++ secret) Y R) by (rewrite app_length; fold ls; lia).
  rewrite gocopy_exact by (fold lt; lia).
  rewrite <- app_assoc.
  rewrite !app_assoc. rewrite firstn_app.
  replace (Z.to_nat hi - length ((P ++ secret) ++ salt))%nat with 0%nat by (rewrite !app_length; fold ls lt; lia).
  cbn [firstn]. rewrite app_nil_r. apply firstn_all2. rewrite !app_length. fold ls lt. lia.
Qed.

Lemma m_slice_all (l : list Z) : m_slice l 0 (zlen l) = Ret l.
Proof.
  unfold m_slice, GoSem.slice, zlen. cbn [Z.leb Z.compare andb]. destruct (Z.leb_spec 0 (Z.of_nat (length l))); [|lia].
  rewrite Z.leb_refl. cbn [andb lift Z.to_nat skipn]. rewrite Nat.sub_0_r, Nat2Z.id, firstn_all. reflexivity.
Qed.
Lemma m_slice_pre (l : list Z) b : 0 <= b -> b <= zlen l -> m_slice l 0 b = Ret (firstn (Z.to_nat b) l).
Proof.
  intros H0 H1. unfold m_slice, GoSem.slice, zlen in *. destruct (Z.leb_spec 0 b); [|lia].
  destruct (Z.leb_spec b (Z.of_nat (length l))); [|lia]. cbn [Z.leb Z.compare andb lift Z.to_nat skipn]. rewrite Nat.sub_0_r. reflexivity.
Qed.
(* copy(d[a:], src) *)
Lemma m_copy_from d a src : 0 <= a ->
  m_copy d a (zlen d) src = if a <=? zlen d then Ret (firstn (Z.to_nat a) d ++ gocopy (skipn (Z.to_nat a) d) src,
                                                    Z.of_nat (Nat.min (length d - Z.to_nat a) (length src))) else GoSem.Panic.
Proof.
  intros H. destruct (Z.leb_spec a (zlen d)).
  - unfold zlen in *. replace a with (Z.of_nat (Z.to_nat a)) at 1 by lia. rewrite m_copy_tail by lia. reflexivity.
  - apply m_copy_bad. lia.
Qed.

Lemma zlen_nonneg l : 0 <= zlen l. Proof. unfold zlen. lia. Qed.
Lemma m_make_ok n : 0 <= n -> m_make n = Ret (repeat 0 (Z.to_nat n)).
Proof. intros H. unfold m_make. destruct (Z.ltb_spec n 0); [lia|reflexivity]. Qed.
Lemma zlen_repeat (x : Z) n : 0 <= n -> zlen (repeat x (Z.to_nat n)) = n.
Proof. intros H. unfold zlen. rewrite repeat_length. lia. Qed.

(* closed integer terms *)
Ltac is_pc p := lazymatch p with xH => idtac | xO ?q => is_pc q | xI ?q => is_pc q end.
Ltac is_zc t := lazymatch t with
  | Z0 => idtac | Zpos ?p => is_pc p | Zneg ?p => is_pc p
  | ?a + ?b => is_zc a; is_zc b | ?a - ?b => is_zc a; is_zc b | ?a * ?b => is_zc a; is_zc b end.
Ltac fold1 t := let v := eval vm_compute in t in change t with v.
Ltac fold_consts := repeat match goal with
  | |- context [?a + ?b] => is_zc a; is_zc b; fold1 (a + b)
  | |- context [?a * ?b] => is_zc a; is_zc b; fold1 (a * b)
  | |- context [?a - ?b] => is_zc a; is_zc b; fold1 (a - b)
  | |- context [?a <? ?b] => is_zc a; is_zc b; fold1 (a <? b)
  | |- context [?a <=? ?b] => is_zc a; is_zc b; fold1 (a <=? b)
  | |- context [?a =? ?b] => is_zc a; is_zc b; fold1 (a =? b)
  | |- context [?a >? ?b] => is_zc a; is_zc b; fold1 (a >? b)
  | |- context [?a >=? ?b] => is_zc a; is_zc b; fold1 (a >=? b)
  end.


Definition put (d : list Z) (k : nat) (src : list Z) : list Z := firstn k d ++ gocopy (skipn k d) src.
Lemma zlen_put d k src : Z.of_nat k <= zlen d -> zlen (put d k src) = zlen d.
Proof. intros H. unfold put, zlen in *. rewrite app_length, gocopy_length, firstn_length, skipn_length. lia. Qed.
Lemma cpy_zlen d a b src : 0 <= a -> a <= b -> b <= zlen d -> zlen (cpy d a b src) = zlen d.
Proof. intros. unfold zlen. rewrite cpy_length by assumption. reflexivity. Qed.
Lemma zlen_repeat_nat (x : Z) n : zlen (repeat x n) = Z.of_nat n.
Proof. unfold zlen. rewrite repeat_length. reflexivity. Qed.
Lemma m_copy_put d a src : 0 <= a ->
  m_copy d a (zlen d) src = if a <=? zlen d then Ret (put d (Z.to_nat a) src, Z.of_nat (Nat.min (length d - Z.to_nat a) (length src))) else GoSem.Panic.
Proof. apply m_copy_from. Qed.
Lemma fill_buf' (buf prev secret salt : list Z) (n hi s2 : Z) :
  hi = n + zlen secret + zlen salt -> s2 = n + zlen secret -> 0 <= n -> n <= zlen prev -> hi <= zlen buf ->
  firstn (Z.to_nat hi) (cpy (cpy (cpy buf 0 hi prev) n hi secret) s2 hi salt) = firstn (Z.to_nat n) prev ++ secret ++ salt.
Proof. intros -> ->. apply fill_buf. Qed.

Section S.
Variable E D : bytes -> bytes -> bytes.
Variable seal : bytes -> bytes -> bytes -> bytes -> bytes.
Variable open : bytes -> bytes -> bytes -> bytes -> option bytes.
Variable md5 : bytes -> bytes.
Variable osalt : option bytes.
Hypothesis md5_len : forall m, length (md5 m) = 16%nat.
Lemma md5_stdc x : md5_Sum (stdc E D seal open md5 osalt) x = Ret (md5 x).
Proof. reflexivity. Qed.
Lemma md5_zlen m : zlen (md5 m) = 16. Proof. unfold zlen. rewrite md5_len. reflexivity. Qed.

Ltac lens := repeat first [rewrite zlen_repeat by lens | rewrite zlen_repeat_nat | rewrite cpy_zlen by lens | rewrite zlen_put by lens | rewrite md5_zlen]; lia.
Ltac dec_if := match goal with |- context [if ?c then _ else _] =>
  first [ replace c with false by (symmetry; lens) | replace c with true by (symmetry; lens)
        | let Hc := fresh "Hc" in destruct c eqn:Hc ] end.
Ltac abs_cpy := repeat match goal with |- context [cpy ?d ?a ?b ?s] =>
  let L := fresh "buf" in let HL := fresh "HL" in
  set (L := cpy d a b s); assert (HL : zlen L = zlen d) by (apply cpy_zlen; lens);
  repeat first [rewrite zlen_repeat in HL by lens | rewrite cpy_zlen in HL by lens] end.
Ltac ev1 := first
 [ match goal with |- context [Ret (md5 ?x)] => let p := fresh "p" in let Hp := fresh "Hp" in
     set (p := md5 x); assert (Hp : zlen p = 16) by apply md5_zlen end
 | abs_cpy; rewrite while_step
 | progress cbn [bind negb]
 | progress cbv beta iota zeta
 | progress fold_consts
 | rewrite m_make_ok by lens
 | rewrite m_slice_all
 | rewrite fill_buf' by lens
 | rewrite m_slice_pre by lens
 | rewrite m_copy_put by lens
 | rewrite m_copy_cpy by lens
 | rewrite md5_stdc
 | dec_if ].

Lemma fill_loop_S r i prev secret salt cred : fill_loop md5 (S r) i prev secret salt cred =
  if (length cred <? i * 16)%nat then Aes.Panic else
  fill_loop md5 r (S i) (md5 (firstn (if (i =? 0)%nat then 0 else 16) prev ++ secret ++ salt)) secret salt
    (put cred (i * 16) (md5 (firstn (if (i =? 0)%nat then 0 else 16) prev ++ secret ++ salt))).
Proof. reflexivity. Qed.
Ltac is_nc n := lazymatch n with O => idtac | S ?m => is_nc m end.
Ltac fold_nat := repeat match goal with
  | |- context [Z.to_nat ?a] => is_zc a; fold1 (Z.to_nat a)
  | |- context [(?a * ?b)%nat] => is_nc a; is_nc b; fold1 (a * b)%nat
  | |- context [(?a =? ?b)%nat] => is_nc a; is_nc b; fold1 (a =? b)%nat
  end.
Ltac dec_fin := match goal with |- context [if ?c then _ else _] =>
  first [ replace c with false by (symmetry; lia) | replace c with true by (symmetry; lia) ] end.
Ltac fin :=
  repeat match goal with H : _ = true |- _ => revert H | H : _ = false |- _ => revert H end;
  repeat match goal with H : zlen _ = _ |- _ => clear H end;
  repeat match goal with x := _ |- _ => first [clear x | subst x] end;
  rewrite !fill_loop_S; unfold zeros; fold_nat; cbv beta iota zeta; unfold zlen; intros;
  repeat dec_fin; cbn [fill_loop cred_res]; reflexivity.

Theorem code_fillCred : forall fuel cred salt secret, (4 <= fuel)%nat ->
  g_fillCred fuel (stdc E D seal open md5 osalt) cred salt secret = cred_res (fill_loop md5 3 0 (zeros 16) secret salt cred).
Proof.
  intros fuel cred salt secret Hf. do 4 (destruct fuel as [|fuel]; [lia|]). clear Hf.
  unfold g_fillCred. cbv beta iota zeta.
  pose proof (zlen_nonneg secret) as Hs. pose proof (zlen_nonneg salt) as Ht. pose proof (zlen_nonneg cred) as Hc.
  repeat ev1. all: fin.
Qed.
End S.
