(* C04 — heapz.Heap: the slice of *Element handles.  Every element's cached index is its position and its owner
   is the heap that holds it, through any swap / sift / push / pop / remove / fix / init; the handle-level sifts
   are the pure sifts on the handle array ordered by the elements' values (so the order theorems apply). *)
From Coq Require Import List Arith ZArith Lia Bool PeanoNat Permutation.
From V Require Import Model.Heap Proofs.HeapSift Proofs.HeapBuild Proofs.HeapBridge Proofs.HeapOps.
Import ListNotations.

Lemma upd_out {X : Type} (l : list X) i x : length l <= i -> upd l i x = l.
Proof. revert i; induction l as [|a l IH]; intros [|i] H; cbn [upd length] in *; auto; try lia. f_equal. apply IH. lia. Qed.

Section Handles.
Variable A : Type.
Variable d : A.
Variable lt : A -> A -> bool.
Local Notation elem := (Heap.elem A).
Local Notation mkE := (Heap.mkE A).
Local Notation eidx := (Heap.eidx A).
Local Notation eown := (Heap.eown A).
Local Notation evalue := (Heap.evalue A).
Local Notation store := (Heap.store A).
Local Notation hst := (Heap.hst A).
Local Notation getE := (Heap.getE A d).
Local Notation set_idx := (Heap.set_idx A d).
Local Notation set_own := (Heap.set_own A d).
Local Notation set_val := (Heap.set_val A d).
Local Notation lessH := (Heap.lessH A d lt).
Local Notation swapH := (Heap.swapH A d).
Local Notation swapN := (Heap.swap nat 0).

Local Notation valof := (Heap.valof A d).
Local Notation ltE := (Heap.ltE A lt).
Local Notation Hd := (Heap.Hd A d).
Local Notation free_ok := (Heap.free_ok A d).
Local Notation HS := (Heap.HS A d).
Local Notation Ord := (Heap.Ord A d lt).

(* ---- the store ---- *)
Lemma getE_upd (st : store) e r x : getE (upd st e r) x = if (x =? e) && (e <? length st) then r else getE st x.
Proof.
  unfold Heap.getE. destruct (Nat.ltb_spec e (length st)) as [H|H].
  - destruct (Nat.eqb_spec x e) as [->|Hne]; cbn [andb]; [apply nth_upd_eq; exact H|apply nth_upd_ne; lia].
  - rewrite andb_false_r. rewrite upd_out by lia. reflexivity.
Qed.
Lemma set_idx_length st e k : length (set_idx st e k) = length st.
Proof. apply upd_length. Qed.
Lemma set_own_length st e o : length (set_own st e o) = length st.
Proof. apply upd_length. Qed.
Lemma set_val_length st e v : length (set_val st e v) = length st.
Proof. apply upd_length. Qed.
Lemma eidx_set_idx st e k x : eidx (getE (set_idx st e k) x) = if (x =? e) && (e <? length st) then k else eidx (getE st x).
Proof. unfold Heap.set_idx. rewrite getE_upd. destruct ((x =? e) && (e <? length st)); reflexivity. Qed.
Lemma eown_set_idx st e k x : eown (getE (set_idx st e k) x) = eown (getE st x).
Proof.
  unfold Heap.set_idx. rewrite getE_upd. destruct (Nat.eqb_spec x e) as [->|]; cbn [andb]; [|reflexivity].
  destruct (e <? length st); reflexivity.
Qed.
Lemma evalue_set_idx st e k x : evalue (getE (set_idx st e k) x) = evalue (getE st x).
Proof.
  unfold Heap.set_idx. rewrite getE_upd. destruct (Nat.eqb_spec x e) as [->|]; cbn [andb]; [|reflexivity].
  destruct (e <? length st); reflexivity.
Qed.
Lemma eidx_set_own st e o x : eidx (getE (set_own st e o) x) = eidx (getE st x).
Proof.
  unfold Heap.set_own. rewrite getE_upd. destruct (Nat.eqb_spec x e) as [->|]; cbn [andb]; [|reflexivity].
  destruct (e <? length st); reflexivity.
Qed.
Lemma eown_set_own st e o x : eown (getE (set_own st e o) x) = if (x =? e) && (e <? length st) then o else eown (getE st x).
Proof. unfold Heap.set_own. rewrite getE_upd. destruct ((x =? e) && (e <? length st)); reflexivity. Qed.
Lemma evalue_set_own st e o x : evalue (getE (set_own st e o) x) = evalue (getE st x).
Proof.
  unfold Heap.set_own. rewrite getE_upd. destruct (Nat.eqb_spec x e) as [->|]; cbn [andb]; [|reflexivity].
  destruct (e <? length st); reflexivity.
Qed.
Lemma getE_set_idx_ne st e k x : x <> e -> getE (set_idx st e k) x = getE st x.
Proof. intros H. unfold Heap.set_idx. rewrite getE_upd. destruct (Nat.eqb_spec x e); [contradiction|reflexivity]. Qed.
Lemma getE_set_own_ne st e o x : x <> e -> getE (set_own st e o) x = getE st x.
Proof. intros H. unfold Heap.set_own. rewrite getE_upd. destruct (Nat.eqb_spec x e); [contradiction|reflexivity]. Qed.
Lemma getE_set_val_ne st e v x : x <> e -> getE (set_val st e v) x = getE st x.
Proof. intros H. unfold Heap.set_val. rewrite getE_upd. destruct (Nat.eqb_spec x e); [contradiction|reflexivity]. Qed.
Lemma eidx_set_val st e v x : eidx (getE (set_val st e v) x) = eidx (getE st x).
Proof.
  unfold Heap.set_val. rewrite getE_upd. destruct (Nat.eqb_spec x e) as [->|]; cbn [andb]; [|reflexivity].
  destruct (e <? length st); reflexivity.
Qed.
Lemma eown_set_val st e v x : eown (getE (set_val st e v) x) = eown (getE st x).
Proof.
  unfold Heap.set_val. rewrite getE_upd. destruct (Nat.eqb_spec x e) as [->|]; cbn [andb]; [|reflexivity].
  destruct (e <? length st); reflexivity.
Qed.
Lemma evalue_set_val st e v x : evalue (getE (set_val st e v) x) = if (x =? e) && (e <? length st) then v else evalue (getE st x).
Proof. unfold Heap.set_val. rewrite getE_upd. destruct ((x =? e) && (e <? length st)); reflexivity. Qed.

(* ---- every slot's element knows its own position and its heap; no element sits in two slots ---- *)
Lemma NoDup_nth_inj (s : list nat) i j : NoDup s -> i < length s -> j < length s -> nth i s 0 = nth j s 0 -> i = j.
Proof. intros H Hi Hj E. apply (proj1 (NoDup_nth s 0) H i j Hi Hj E). Qed.
Lemma Hd_in h t e : Hd h t -> In e (fst t) ->
  e < length (snd t) /\ eown (getE (snd t) e) = h /\
  exists k, k < length (fst t) /\ nth k (fst t) 0 = e /\ eidx (getE (snd t) e) = Z.of_nat k.
Proof.
  intros [_ H] Hin. destruct (In_nth _ _ 0 Hin) as (k & Hk & <-). destruct (H k Hk) as (H1 & H2 & H3).
  split; [exact H1|]. split; [exact H3|]. exists k. auto.
Qed.

(* the invariant carried through a sift, relative to the state [t0] it started from: handles intact, values
   fixed, same elements, and nothing outside this heap's elements is touched *)
Definition SInv (h : Z) (val : nat -> A) (t0 t : hst) : Prop :=
  Hd h t /\ (forall x, valof (snd t) x = val x) /\ Permutation (fst t) (fst t0) /\
  length (snd t) = length (snd t0) /\
  (forall e, ~ In e (fst t0) -> getE (snd t) e = getE (snd t0) e) /\
  (forall e, eown (getE (snd t) e) = eown (getE (snd t0) e)).
Lemma SInv_refl h t : Hd h t -> SInv h (valof (snd t)) t t.
Proof.
  intros H. unfold SInv. split; [exact H|]. split; [reflexivity|]. split; [apply Permutation_refl|].
  split; [reflexivity|]. split; intros; reflexivity.
Qed.

Lemma lessH_ok h val t0 (t : hst) a b : SInv h val t0 t -> a < length (fst t) -> b < length (fst t) ->
  lessH t (Z.of_nat a) (Z.of_nat b) = Ok (ltE val (nth a (fst t) 0) (nth b (fst t) 0)).
Proof.
  intros (_ & Hv & _) Ha Hb. unfold Heap.lessH. rewrite (nthZ_ok 0), (nthZ_ok 0) by auto. cbn [bind].
  unfold Heap.ltE. rewrite <- !Hv. reflexivity.
Qed.
Lemma swapH_eval (t : hst) a b : a < length (fst t) -> b < length (fst t) ->
  swapH t (Z.of_nat a) (Z.of_nat b) =
  Ok (swapN (fst t) a b, set_idx (set_idx (snd t) (nth b (fst t) 0) (Z.of_nat a)) (nth a (fst t) 0) (Z.of_nat b)).
Proof.
  intros Ha Hb. unfold Heap.swapH. rewrite (nthZ_ok 0), (nthZ_ok 0) by auto. cbn [bind]. rewrite !Nat2Z.id. reflexivity.
Qed.
Lemma swapH_ok h val t0 (t : hst) a b : SInv h val t0 t -> a < length (fst t) -> b < length (fst t) ->
  exists t', swapH t (Z.of_nat a) (Z.of_nat b) = Ok t' /\ fst t' = swapN (fst t) a b /\ SInv h val t0 t'.
Proof.
  intros ([Hnd Hix] & Hv & Hp & Hl & Hfr & Ho) Ha Hb. rewrite swapH_eval by auto.
  eexists. split; [reflexivity|]. split; [reflexivity|]. destruct t as [arr st]. cbn [fst snd] in *.
  set (x := nth a arr 0) in *. set (y := nth b arr 0) in *.
  destruct (Hix a Ha) as (Xa & Xi & Xo). destruct (Hix b Hb) as (Ya & Yi & Yo). fold x in Xa, Xi, Xo. fold y in Ya, Yi, Yo.
  assert (Pw : Permutation (swapN arr a b) arr) by (apply upd_nth_perm_swap; auto).
  unfold SInv, Heap.Hd. cbn [fst snd]. split; [|split; [|split; [|split; [|split]]]].
  - split; [eapply Permutation_NoDup; [apply Permutation_sym; exact Pw|exact Hnd]|].
    rewrite swap_length. intros k Hk. rewrite nth_swap by auto. rewrite !set_idx_length.
    rewrite !eidx_set_idx, !eown_set_idx, set_idx_length. fold x. fold y.
    destruct (Nat.eqb_spec k b) as [->|Hkb].
    + split; [exact Xa|]. rewrite Nat.eqb_refl. destruct (Nat.ltb_spec x (length st)); [|lia]. cbn [andb]. auto.
    + destruct (Nat.eqb_spec k a) as [->|Hka].
      * split; [exact Ya|]. split; [|exact Yo].
        destruct (Nat.eqb_spec y x) as [E|_].
        { exfalso. apply Hkb. symmetry. apply (NoDup_nth_inj arr b a); auto. }
        cbn [andb]. rewrite Nat.eqb_refl. destruct (Nat.ltb_spec y (length st)); [|lia]. reflexivity.
      * destruct (Hix k Hk) as (Ka & Ki & Ko). split; [exact Ka|]. split; [|exact Ko].
        destruct (Nat.eqb_spec (nth k arr 0) x) as [E|_].
        { exfalso. apply Hka. apply (NoDup_nth_inj arr k a); auto. }
        destruct (Nat.eqb_spec (nth k arr 0) y) as [E|_].
        { exfalso. apply Hkb. apply (NoDup_nth_inj arr k b); auto. }
        cbn [andb]. exact Ki.
  - intros z. unfold Heap.valof. rewrite !evalue_set_idx. apply Hv.
  - etransitivity; eauto.
  - rewrite !set_idx_length. exact Hl.
  - intros e He. assert (He' : ~ In e arr) by (intros H; apply He; eapply Permutation_in; eauto).
    rewrite !getE_set_idx_ne; [apply Hfr; exact He| |]; intros ->; apply He'; apply nth_In; auto.
  - intros e. rewrite !eown_set_idx. apply Ho.
Qed.

(* ---- the handle-level loops are the pure loops on the handle array, compared through the values ---- *)
Local Notation downH := (Heap.downH A d lt).
Local Notation upH := (Heap.upH A d lt).
Local Notation fixH := (Heap.fixH A d lt).
Local Notation buildH := (Heap.buildH A d lt).

Lemma downH_ok h val t0 (t : hst) i n : SInv h val t0 t -> n <= length (fst t) ->
  exists t', downH t (Z.of_nat i) (Z.of_nat n) = Ok (t', snd (Heap.down nat 0 (ltE val) (fst t) i n)) /\
             fst t' = fst (Heap.down nat 0 (ltE val) (fst t) i n) /\ SInv h val t0 t'.
Proof.
  intros HI Hn. unfold Heap.downH, Heap.fuelH.
  exact (gdown_ok hst lessH swapH nat 0 (ltE val) fst (SInv h val t0) (lessH_ok h val t0) (swapH_ok h val t0) t i n HI Hn).
Qed.
Lemma upH_ok h val t0 (t : hst) j : SInv h val t0 t -> j < length (fst t) ->
  exists t', upH t (Z.of_nat j) = Ok t' /\ fst t' = Heap.up nat 0 (ltE val) (fst t) j /\ SInv h val t0 t'.
Proof.
  intros HI Hj. unfold Heap.upH, Heap.fuelH.
  exact (gup_ok hst lessH swapH nat 0 (ltE val) fst (SInv h val t0) (lessH_ok h val t0) (swapH_ok h val t0) t j HI Hj).
Qed.
Lemma fixH_ok h val t0 (t : hst) i n : SInv h val t0 t -> n <= length (fst t) -> i < n ->
  exists t', fixH t (Z.of_nat i) (Z.of_nat n) = Ok t' /\ fst t' = Heap.fix_ nat 0 (ltE val) (fst t) i n /\ SInv h val t0 t'.
Proof.
  intros HI Hn Hi. unfold Heap.fixH, Heap.fuelH.
  exact (gfix_ok' hst lessH swapH nat 0 (ltE val) fst (SInv h val t0) (lessH_ok h val t0) (swapH_ok h val t0) t i n HI Hn Hi).
Qed.
Lemma buildH_ok h val t0 (t : hst) : SInv h val t0 t ->
  exists t', buildH t = Ok t' /\ fst t' = Heap.build nat 0 (ltE val) (fst t) /\ SInv h val t0 t'.
Proof.
  intros HI. unfold Heap.buildH, Heap.fuelH.
  exact (gbuild_ok hst lessH swapH nat 0 (ltE val) fst (SInv h val t0) (lessH_ok h val t0) (swapH_ok h val t0) t HI).
Qed.

(* ------------------------------------------------------------------ one heap next to the other one *)
Local Notation hokN := (Heap.heap_ok nat 0).
Lemma HS_disjoint h mine other st e : HS h mine other st -> In e mine -> In e other -> False.
Proof.
  intros (H1 & H2 & _) Hm Ho. destruct (Hd_in h _ e H1 Hm) as (_ & E1 & _). destruct (Hd_in _ _ e H2 Ho) as (_ & E2 & _).
  cbn [fst snd] in *. lia.
Qed.
Lemma heap_ok_ext (v1 v2 : nat -> A) s n : (forall x, v1 x = v2 x) -> hokN (ltE v1) s n -> hokN (ltE v2) s n.
Proof. intros E H p c Hc Hpc. specialize (H p c Hc Hpc). unfold Heap.ok, Heap.le, ltE in *. rewrite <- !E. exact H. Qed.

Lemma Hd_frame o (other : list nat) (st st' : store) : Hd o (other, st) -> length st <= length st' ->
  (forall z, In z other -> getE st' z = getE st z) -> Hd o (other, st').
Proof.
  intros [Hn Hi] Hl Hf. split; [exact Hn|]. cbn [fst snd] in *. intros k Hk. destruct (Hi k Hk) as (H1 & H2 & H3).
  rewrite Hf by (apply nth_In; exact Hk). split; [lia|auto].
Qed.

Lemma HS_from_SInv h mine other st (t' : hst) : HS h mine other st -> SInv h (valof st) (mine, st) t' ->
  HS h (fst t') other (snd t').
Proof.
  intros HSs (Hd' & Hv & Hp & Hl & Hfr & Ho). cbn [fst snd] in *. destruct HSs as (H1 & H2 & H3).
  assert (HSs : HS h mine other st) by (split; [exact H1|split; [exact H2|exact H3]]).
  split; [destruct t'; exact Hd'|]. split.
  - apply (Hd_frame _ other st); [exact H2|lia|]. intros z Hz. apply Hfr. intros Hm. exact (HS_disjoint h mine other st z HSs Hm Hz).
  - intros e He Hm Ho'. assert (Hm' : ~ In e mine) by (intros H; apply Hm; eapply Permutation_in; [apply Permutation_sym; exact Hp|exact H]).
    rewrite (Hfr e Hm'). apply H3; auto. lia.
Qed.

(* h.pop(): the last slot leaves the heap *)
Lemma HS_poplast h (arr other : list nat) st n : HS h arr other st -> length arr = S n ->
  HS h (firstn n arr) other (set_idx (set_own st (nth n arr 0) (-1)) (nth n arr 0) (-1)).
Proof.
  intros HSs L. pose proof HSs as ((Hn & Hi) & H2 & H3). cbn [fst snd] in *. set (e := nth n arr 0).
  assert (He : In e arr) by (apply nth_In; lia).
  assert (Esplit : arr = firstn n arr ++ [e]).
  { rewrite <- (firstn_skipn n arr) at 1. f_equal.
    assert (Ls : length (skipn n arr) = 1) by (rewrite skipn_length; lia).
    destruct (skipn n arr) as [|a [|b t]] eqn:E; cbn [length] in Ls; try lia. f_equal.
    unfold e. rewrite <- (firstn_skipn n arr) at 1. rewrite app_nth2; rewrite firstn_length; [|lia].
    replace (n - Nat.min n (length arr)) with 0 by lia. rewrite E. reflexivity. }
  assert (Hnd : NoDup (firstn n arr) /\ ~ In e (firstn n arr)).
  { rewrite Esplit in Hn. apply NoDup_remove in Hn. rewrite app_nil_r in Hn. exact Hn. }
  destruct (Hi n ltac:(lia)) as (Ea & _ & _). fold e in Ea.
  split; [|split].
  - split; [apply Hnd|]. cbn [fst snd]. rewrite firstn_length. intros k Hk.
    assert (Ek : nth k (firstn n arr) 0 = nth k arr 0).
    { rewrite Esplit at 2. rewrite app_nth1 by (rewrite firstn_length; lia). reflexivity. }
    rewrite Ek. destruct (Hi k ltac:(lia)) as (K1 & K2 & K3).
    assert (Hne : nth k arr 0 <> e).
    { intros E. apply (proj2 Hnd). rewrite <- E, <- Ek. apply nth_In. rewrite firstn_length. lia. }
    rewrite set_idx_length, set_own_length. rewrite getE_set_idx_ne, getE_set_own_ne by exact Hne. auto.
  - apply (Hd_frame _ other st); [exact H2|rewrite set_idx_length, set_own_length; lia|].
    intros z Hz. assert (z <> e) by (intros ->; exact (HS_disjoint h arr other st e HSs He Hz)).
    rewrite getE_set_idx_ne, getE_set_own_ne by auto. reflexivity.
  - intros z Hz Hm Ho. rewrite set_idx_length, set_own_length in Hz. destruct (Nat.eq_dec z e) as [->|Hne].
    + rewrite eidx_set_idx, eown_set_idx, eown_set_own, set_own_length, Nat.eqb_refl.
      destruct (Nat.ltb_spec e (length st)); [|lia]. cbn [andb]. auto.
    + rewrite getE_set_idx_ne, getE_set_own_ne by auto. apply H3; auto.
      intros Hin. rewrite Esplit in Hin. apply in_app_or in Hin. destruct Hin as [Hin|[Hin|[]]]; [auto|congruence].
Qed.

(* PushElement's preparation: e.heap = h; e.index = len; append *)
Lemma HS_append h (mine other : list nat) st e : HS h mine other st -> e < length st -> ~ In e mine -> ~ In e other ->
  HS h (mine ++ [e]) other (set_idx (set_own st e h) e (Zlen mine)).
Proof.
  intros HSs He Hm Ho. pose proof HSs as ((Hn & Hi) & H2 & H3). cbn [fst snd] in *.
  split; [|split].
  - split; [cbn [fst]; apply (Permutation_NoDup (l := e :: mine)); [apply Permutation_cons_append|constructor; auto]|].
    cbn [fst snd]. rewrite app_length. cbn [length]. intros k Hk. rewrite set_idx_length, set_own_length.
    destruct (Nat.eq_dec k (length mine)) as [->|Hne].
    + rewrite app_nth2, Nat.sub_diag by lia. cbn [nth]. split; [exact He|].
      rewrite eidx_set_idx, eown_set_idx, eown_set_own, set_own_length, Nat.eqb_refl.
      destruct (Nat.ltb_spec e (length st)); [|lia]. cbn [andb]. auto.
    + rewrite app_nth1 by lia. destruct (Hi k ltac:(lia)) as (K1 & K2 & K3).
      assert (Hx : nth k mine 0 <> e) by (intros E; apply Hm; rewrite <- E; apply nth_In; lia).
      rewrite getE_set_idx_ne, getE_set_own_ne by exact Hx. auto.
  - apply (Hd_frame _ other st); [exact H2|rewrite set_idx_length, set_own_length; lia|].
    intros z Hz. assert (z <> e) by (intros ->; auto). rewrite getE_set_idx_ne, getE_set_own_ne by auto. reflexivity.
  - intros z Hz Hm' Ho'. rewrite set_idx_length, set_own_length in Hz.
    assert (z <> e) by (intros ->; apply Hm'; apply in_or_app; right; left; reflexivity).
    rewrite getE_set_idx_ne, getE_set_own_ne by auto. apply H3; auto. intros Hin. apply Hm'. apply in_or_app. left. exact Hin.
Qed.

Lemma valof_set_idx st e k x : valof (set_idx st e k) x = valof st x.
Proof. unfold Heap.valof. apply evalue_set_idx. Qed.
Lemma valof_set_own st e o x : valof (set_own st e o) x = valof st x.
Proof. unfold Heap.valof. apply evalue_set_own. Qed.

(* ------------------------------------------------------------------ the operations of heap.go *)
Hypothesis le_trans : forall a b c, Heap.le A lt a b -> Heap.le A lt b c -> Heap.le A lt a c.
Hypothesis lt_asym : forall a b, lt a b = true -> lt b a = false.
Lemma ltE_trans val : forall a b c, Heap.le nat (ltE val) a b -> Heap.le nat (ltE val) b c -> Heap.le nat (ltE val) a c.
Proof. unfold Heap.le, ltE. intros a b c. apply le_trans. Qed.
Lemma ltE_asym val : forall a b, ltE val a b = true -> ltE val b a = false.
Proof. unfold Heap.ltE. intros a b. apply lt_asym. Qed.

Local Notation hp_pushelem := (Heap.hp_pushelem A d lt).
Local Notation hp_push := (Heap.hp_push A d lt).
Local Notation hp_poplast := (Heap.hp_poplast A d).
Local Notation hp_pop := (Heap.hp_pop A d lt).
Local Notation hp_peek := (Heap.hp_peek A).
Local Notation hp_guard := (Heap.hp_guard A d).
Local Notation hp_remove := (Heap.hp_remove A d lt).
Local Notation hp_fix := (Heap.hp_fix A d lt).
Local Notation hp_init := (Heap.hp_init A d lt).

Lemma hp_pushelem_spec h mine other st e : HS h mine other st -> Ord mine other st ->
  e < length st -> ~ In e mine -> ~ In e other ->
  exists mine' st', hp_pushelem h (mine, st) e = Ok (mine', st') /\ HS h mine' other st' /\ Ord mine' other st' /\
    Permutation mine' (e :: mine) /\ length st' = length st /\ (forall x, valof st' x = valof st x).
Proof.
  intros HSs [O1 O2] He Hm Ho. unfold Heap.hp_pushelem. cbn [fst snd].
  set (st1 := set_idx (set_own st e h) e (Zlen mine)).
  pose proof (HS_append h mine other st e HSs He Hm Ho) as HS1. fold st1 in HS1.
  assert (V1 : forall x, valof st1 x = valof st x) by (intros x; unfold st1; rewrite valof_set_idx, valof_set_own; reflexivity).
  destruct (upH_ok h (valof st1) (mine ++ [e], st1) (mine ++ [e], st1) (length mine)) as (t' & E & F & I).
  { apply SInv_refl. apply HS1. } { cbn [fst]. rewrite app_length. cbn [length]. lia. }
  cbn [fst snd] in *. unfold Zlen. rewrite E. destruct t' as [mine' st']. cbn [fst snd] in *.
  exists mine', st'. split; [reflexivity|].
  pose proof (HS_from_SInv h (mine ++ [e]) other st1 (mine', st') HS1 I) as HS2. cbn [fst snd] in HS2.
  destruct I as (_ & Hv & _ & Hl & _). cbn [fst snd] in *.
  assert (V2 : forall x, valof st' x = valof st x) by (intros x; rewrite Hv; apply V1).
  destruct (push_spec nat 0 (ltE (valof st1)) (ltE_trans _) (ltE_asym _) mine e) as (P1 & P2 & P3).
  { apply (heap_ok_ext (valof st)); [intros; symmetry; apply V1|exact O1]. }
  cbv zeta in *. rewrite <- F in *.
  split; [exact HS2|]. split; [|split; [exact P3|split; [unfold st1 in Hl; rewrite set_idx_length, set_own_length in Hl; exact Hl|exact V2]]].
  split; [apply (heap_ok_ext (valof st1)); [intros; rewrite Hv; reflexivity|exact P1]|].
  apply (heap_ok_ext (valof st)); [intros; symmetry; apply V2|exact O2].
Qed.

(* a brand-new element: &Element{Value: x} *)
Lemma getE_app_old (st : store) r x : x < length st -> getE (st ++ [r]) x = getE st x.
Proof. intros H. unfold Heap.getE. apply app_nth1. exact H. Qed.
Lemma getE_app_new (st : store) r : getE (st ++ [r]) (length st) = r.
Proof. unfold Heap.getE. rewrite app_nth2, Nat.sub_diag by lia. reflexivity. Qed.
Lemma getE_out (st : store) x : length st <= x -> getE st x = Heap.dummyE A d.
Proof. intros H. unfold Heap.getE. apply nth_overflow. exact H. Qed.

Lemma HS_extend h mine other st v : HS h mine other st -> HS h mine other (st ++ [mkE (-1) (-1) v]).
Proof.
  intros (H1 & H2 & H3). split; [|split].
  - destruct H1 as [Hn Hi]. split; [exact Hn|]. cbn [fst snd] in *. intros k Hk. destruct (Hi k Hk) as (K1 & K2 & K3).
    rewrite app_length. rewrite getE_app_old by exact K1. split; [lia|auto].
  - destruct H2 as [Hn Hi]. split; [exact Hn|]. cbn [fst snd] in *. intros k Hk. destruct (Hi k Hk) as (K1 & K2 & K3).
    rewrite app_length. rewrite getE_app_old by exact K1. split; [lia|auto].
  - intros e He Hm Ho. rewrite app_length in He. cbn [length] in He. destruct (Nat.eq_dec e (length st)) as [->|Hne].
    + rewrite getE_app_new. auto.
    + rewrite getE_app_old by lia. apply H3; auto. lia.
Qed.
Lemma fresh_not_in h mine other st : HS h mine other st -> ~ In (length st) mine /\ ~ In (length st) other.
Proof.
  intros (H1 & H2 & _). split; intros Hin.
  - destruct (Hd_in _ _ _ H1 Hin) as (K & _). cbn [snd] in K. lia.
  - destruct (Hd_in _ _ _ H2 Hin) as (K & _). cbn [snd] in K. lia.
Qed.
Lemma valof_app_old (st : store) r x : x < length st -> valof (st ++ [r]) x = valof st x.
Proof. intros H. unfold Heap.valof. rewrite getE_app_old by exact H. reflexivity. Qed.

Lemma hok_ext_on (v1 v2 : nat -> A) s : (forall x, In x s -> v1 x = v2 x) -> hokN (ltE v1) s (length s) -> hokN (ltE v2) s (length s).
Proof.
  intros E H p c Hc Hpc. specialize (H p c Hc Hpc). unfold Heap.ok, Heap.le, ltE in *.
  assert (p < length s) by (unfold is_child in Hpc; lia).
  rewrite <- !E by (apply nth_In; lia). exact H.
Qed.

Lemma hp_push_spec h mine other st v : HS h mine other st -> Ord mine other st ->
  exists mine' st', hp_push h (mine, st) v = Ok (mine', st') /\ HS h mine' other st' /\ Ord mine' other st' /\
    Permutation mine' (length st :: mine) /\ length st' = S (length st) /\
    (forall x, x < length st -> valof st' x = valof st x) /\ valof st' (length st) = v /\
    map evalue st' = map evalue st ++ [v].
Proof.
  intros HSs [O1 O2]. unfold Heap.hp_push. cbn [fst snd].
  (* both fields of the new element are overwritten by PushElement: its initial index 0 is never seen *)
  assert (Eq : hp_pushelem h (mine, st ++ [mkE 0 (-1) v]) (length st) = hp_pushelem h (mine, st ++ [mkE (-1) (-1) v]) (length st)).
  { unfold Heap.hp_pushelem. cbn [fst snd]. f_equal. f_equal.
    unfold Heap.set_idx, Heap.set_own. rewrite !getE_upd, !Nat.eqb_refl, !app_length. cbn [length].
    destruct (Nat.ltb_spec (length st) (length st + 1)); [|lia]. cbn [andb Heap.eown Heap.evalue Heap.eidx].
    rewrite !getE_app_new. cbn [Heap.eown Heap.evalue Heap.eidx].
    assert (U : forall (r1 r2 r : elem), upd (upd (st ++ [r1]) (length st) r2) (length st) r = st ++ [r]).
    { intros r1 r2 r. clear. induction st as [|a l IH]; cbn [app length upd]; [reflexivity|]. f_equal. exact IH. }
    rewrite !U. reflexivity. }
  rewrite Eq. set (st0 := st ++ [mkE (-1) (-1) v]).
  destruct (fresh_not_in h mine other st HSs) as [F1 F2].
  assert (Vold : forall x, x < length st -> valof st0 x = valof st x) by (intros; apply valof_app_old; auto).
  destruct (hp_pushelem_spec h mine other st0 (length st)) as (mine' & st' & E & HS' & O' & P & L & V); auto.
  - apply HS_extend. exact HSs.
  - destruct HSs as (H1 & H2 & _). split.
    + apply (hok_ext_on (valof st)); [|exact O1]. intros x Hx. symmetry. apply Vold.
      destruct (Hd_in _ _ _ H1 Hx) as (K & _). exact K.
    + apply (hok_ext_on (valof st)); [|exact O2]. intros x Hx. symmetry. apply Vold.
      destruct (Hd_in _ _ _ H2 Hx) as (K & _). exact K.
  - unfold st0. rewrite app_length. cbn [length]. lia.
  - exists mine', st'. split; [exact E|]. split; [exact HS'|]. split; [exact O'|]. split; [exact P|].
    unfold st0 in L. rewrite app_length in L. cbn [length] in L. split; [lia|].
    split; [intros x Hx; rewrite V; apply Vold; exact Hx|].
    assert (Vn : valof st' (length st) = v) by (rewrite V; unfold Heap.valof, st0; rewrite getE_app_new; reflexivity).
    split; [exact Vn|].
    apply (nth_ext _ _ d d); [rewrite app_length, !map_length; cbn [length]; lia|].
    intros k Hk. rewrite map_length in Hk.
    assert (Ek : forall (l : store) j, j < length l -> nth j (map evalue l) d = valof l j).
    { intros l j Hj. unfold Heap.valof, Heap.getE. rewrite (nth_indep _ d (evalue (Heap.dummyE A d))) by (rewrite map_length; exact Hj). apply map_nth. }
    rewrite Ek by exact Hk. destruct (Nat.eq_dec k (length st)) as [->|Hne].
    + rewrite app_nth2; rewrite map_length; [|lia]. rewrite Nat.sub_diag. exact Vn.
    + rewrite app_nth1 by (rewrite map_length; lia). rewrite Ek by lia. rewrite V. apply Vold. lia.
Qed.

(* ---- pop(): the common last step of Pop and Remove ---- *)
Lemma split_lastN (l : list nat) n : length l = S n -> l = firstn n l ++ [nth n l 0].
Proof. apply (HeapOps.split_last nat 0). Qed.

Lemma finish_remove h mine other st (t2 : hst) n : HS h mine other st -> hokN (ltE (valof st)) other (length other) ->
  SInv h (valof st) (mine, st) t2 -> length (fst t2) = S n -> hokN (ltE (valof st)) (firstn n (fst t2)) n ->
  let e := nth n (fst t2) 0 in
  let st' := set_idx (set_own (snd t2) e (-1)) e (-1) in
  hp_poplast t2 = Ok ((firstn n (fst t2), st'), Z.of_nat e) /\
  HS h (firstn n (fst t2)) other st' /\ Ord (firstn n (fst t2)) other st' /\
  Permutation (e :: firstn n (fst t2)) mine /\ length st' = length st /\ (forall x, valof st' x = valof st x) /\
  eidx (getE st' e) = (-1)%Z.
Proof.
  intros HSs O2 I L Hh e st'. pose proof (HS_from_SInv h mine other st t2 HSs I) as HS2.
  destruct I as (Hd2 & Hv & Hp & Hl & _). cbn [fst snd] in *.
  assert (V : forall x, valof st' x = valof st x) by (intros x; unfold st'; rewrite valof_set_idx, valof_set_own; apply Hv).
  assert (Lf : length (firstn n (fst t2)) = n) by (rewrite firstn_length; lia).
  split; [|split; [|split; [|split; [|split; [|split]]]]].
  - unfold Heap.hp_poplast, Zlen. rewrite L. replace (Z.of_nat (S n) - 1)%Z with (Z.of_nat n) by lia.
    rewrite (nthZ_ok 0) by lia. cbn [bind]. rewrite Nat2Z.id. reflexivity.
  - apply HS_poplast; auto.
  - split; [rewrite Lf; apply (heap_ok_ext (valof st)); [intros; symmetry; apply V|exact Hh]|].
    apply (heap_ok_ext (valof st)); [intros; symmetry; apply V|exact O2].
  - etransitivity; [|exact Hp]. pose proof (split_lastN (fst t2) n L) as Sp. fold e in Sp.
    transitivity (firstn n (fst t2) ++ [e]); [apply Permutation_cons_append|rewrite <- Sp; reflexivity].
  - unfold st'. rewrite set_idx_length, set_own_length. exact Hl.
  - exact V.
  - unfold st'. rewrite eidx_set_idx, set_own_length, Nat.eqb_refl.
    destruct HS2 as (Hdd & _). destruct (proj2 Hdd n ltac:(cbn [fst]; lia)) as (K & _). cbn [fst snd] in K. fold e in K.
    destruct (Nat.ltb_spec e (length (snd t2))); [reflexivity|lia].
Qed.

Lemma hp_pop_empty (st : store) : hp_pop ([], st) = Ok (([], st), (-1)%Z).
Proof. reflexivity. Qed.
Lemma hp_pop_spec h mine other st : HS h mine other st -> Ord mine other st -> 1 <= length mine ->
  exists mine' st', hp_pop (mine, st) = Ok ((mine', st'), Z.of_nat (nth 0 mine 0)) /\
    HS h mine' other st' /\ Ord mine' other st' /\ Permutation (nth 0 mine 0 :: mine') mine /\
    (forall y, In y mine -> ltE (valof st) y (nth 0 mine 0) = false) /\
    length st' = length st /\ (forall x, valof st' x = valof st x) /\ eidx (getE st' (nth 0 mine 0)) = (-1)%Z.
Proof.
  intros HSs [O1 O2] H1. set (val := valof st).
  destruct (pop_arr_spec nat 0 (ltE val) (ltE_trans _) (ltE_asym _) mine H1 O1) as (L & N & Hh' & P & Hmin). cbv zeta in *.
  set (n := length mine - 1) in *.
  assert (I0 : SInv h val (mine, st) (mine, st)) by (apply SInv_refl; apply HSs).
  assert (Hm : forall y, In y mine -> ltE val y (nth 0 mine 0) = false).
  { intros y Hy. destruct (In_nth _ _ 0 Hy) as (j & Hj & <-). apply Hmin. exact Hj. }
  unfold Heap.hp_pop. cbn [fst snd]. unfold Zlen.
  destruct (Z.eqb_spec (Z.of_nat (length mine)) 0); [lia|].
  destruct (Z.eqb_spec (Z.of_nat (length mine)) 1) as [E1|E1].
  - (* one element: pop() directly *)
    assert (Ln : length mine = S 0) by lia.
    destruct (finish_remove h mine other st (mine, st) 0 HSs O2 I0 Ln) as (F1 & F2 & F3 & F4 & F5 & F6 & F7).
    { intros p c Hc. lia. }
    cbn [fst snd] in *. rewrite F1. eexists _, _. split; [reflexivity|]. repeat (split; [assumption|]). exact F7.
  - replace (Z.of_nat (length mine) - 1)%Z with (Z.of_nat n) by (unfold n; lia).
    change 0%Z with (Z.of_nat 0).
    destruct (swapH_ok h val (mine, st) (mine, st) 0 n I0) as (t1 & E & F & I1); [cbn [fst]; lia|cbn [fst]; unfold n; lia|].
    rewrite E. cbn [bind].
    destruct (downH_ok h val (mine, st) t1 0 n I1) as (t2 & E2 & F2 & I2); [rewrite F; cbn [fst]; rewrite swap_length; unfold n; lia|].
    rewrite E2. cbn [bind fst]. rewrite F in F2. cbn [fst] in F2.
    change (fst (Heap.down nat 0 (ltE val) (swapN mine 0 n) 0 n)) with (pop_arr nat 0 (ltE val) mine) in F2.
    assert (Ln : length (fst t2) = S n) by (rewrite F2, L; unfold n; lia).
    destruct (finish_remove h mine other st t2 n HSs O2 I2 Ln) as (G1 & G2 & G3 & G4 & G5 & G6 & G7).
    { rewrite F2. exact Hh'. }
    cbv zeta in *. rewrite F2 in *. rewrite N in *. rewrite G1.
    eexists _, _. split; [reflexivity|]. repeat (split; [assumption|]). exact G7.
Qed.

Lemma hp_peek_spec (mine : list nat) (st : store) :
  hp_peek (mine, st) = Ok (match mine with [] => (-1)%Z | e :: _ => Z.of_nat e end).
Proof. destruct mine; reflexivity. Qed.

(* the ownership guard of Remove / Fix: exactly the elements of this heap pass it *)
Lemma guard_in h mine other st e : HS h mine other st -> h = 0%Z \/ h = 1%Z -> In e mine -> hp_guard h (mine, st) e = false.
Proof.
  intros (H1 & _) Hh Hin. destruct (Hd_in _ _ _ H1 Hin) as (_ & E & _). cbn [snd] in E.
  unfold Heap.hp_guard. cbn [snd]. rewrite E. destruct Hh as [-> | ->]; reflexivity.
Qed.
Lemma guard_out h mine other st e : HS h mine other st -> h = 0%Z \/ h = 1%Z -> ~ In e mine -> hp_guard h (mine, st) e = true.
Proof.
  intros (H1 & H2 & H3) Hh Hm. unfold Heap.hp_guard. cbn [snd].
  destruct (Nat.lt_ge_cases e (length st)) as [He|He].
  - destruct (in_dec Nat.eq_dec e other) as [Ho|Ho].
    + destruct (Hd_in _ _ _ H2 Ho) as (_ & E & _). cbn [snd] in E. rewrite E. destruct Hh as [-> | ->]; reflexivity.
    + destruct (H3 e He Hm Ho) as [_ E]. rewrite E. reflexivity.
  - rewrite getE_out by exact He. reflexivity.
Qed.

Lemma hp_remove_spec h mine other st e : HS h mine other st -> Ord mine other st -> h = 0%Z \/ h = 1%Z -> In e mine ->
  exists mine' st', hp_remove h (mine, st) e = Ok (mine', st') /\
    HS h mine' other st' /\ Ord mine' other st' /\ Permutation (e :: mine') mine /\
    length st' = length st /\ (forall x, valof st' x = valof st x) /\ eidx (getE st' e) = (-1)%Z.
Proof.
  intros HSs [O1 O2] Hh Hin. set (val := valof st).
  unfold Heap.hp_remove. rewrite (guard_in h mine other st e HSs Hh Hin). cbn [fst snd].
  destruct (Hd_in _ _ _ (proj1 HSs) Hin) as (_ & _ & k & Hk & Ek & Ei). cbn [fst snd] in *. rewrite Ei. unfold Zlen.
  destruct (Z.ltb_spec (Z.of_nat k) 0); [lia|]. destruct (Z.geb_spec (Z.of_nat k) (Z.of_nat (length mine))); [lia|]. cbn [orb].
  assert (I0 : SInv h val (mine, st) (mine, st)) by (apply SInv_refl; apply HSs).
  destruct (rem_arr_spec nat 0 (ltE val) (ltE_trans _) (ltE_asym _) mine k Hk O1) as (L & N & Hh' & P). cbv zeta in *.
  set (n := length mine - 1) in *. replace (Z.of_nat (length mine) - 1)%Z with (Z.of_nat n) by (unfold n; lia).
  match goal with |- exists _ _, bind ?X _ = _ /\ _ =>
    assert (G : exists t2, X = Ok t2 /\ fst t2 = rem_arr nat 0 (ltE val) mine k /\ SInv h val (mine, st) t2) end.
  { unfold rem_arr. fold n. destruct (Z.eqb_spec (Z.of_nat n) (Z.of_nat k)) as [E|E]; cbn [negb].
    - destruct (Nat.eqb_spec n k); [|lia]. exists (mine, st). auto.
    - destruct (Nat.eqb_spec n k); [lia|].
      destruct (swapH_ok h val (mine, st) (mine, st) k n I0) as (t1 & E1 & F1 & I1); [cbn [fst]; lia|cbn [fst]; unfold n; lia|].
      rewrite E1. cbn [bind].
      destruct (fixH_ok h val (mine, st) t1 k n I1) as (t2 & E2 & F2 & I2); [rewrite F1; cbn [fst]; rewrite swap_length; unfold n; lia|unfold n in *; lia|].
      exists t2. rewrite F1 in F2. auto. }
  destruct G as (t2 & -> & F2 & I2). cbn [bind].
  assert (Ln : length (fst t2) = S n) by (rewrite F2, L; unfold n; lia).
  destruct (finish_remove h mine other st t2 n HSs O2 I2 Ln) as (G1 & G2 & G3 & G4 & G5 & G6 & G7).
  { rewrite F2. exact Hh'. }
  cbv zeta in *. rewrite F2 in *. rewrite N, Ek in *. rewrite G1. cbn [bind fst].
  eexists _, _. split; [reflexivity|]. repeat (split; [assumption|]). exact G7.
Qed.
Lemma hp_remove_ignored h mine other st e : HS h mine other st -> h = 0%Z \/ h = 1%Z -> ~ In e mine ->
  hp_remove h (mine, st) e = Ok (mine, st).
Proof. intros HSs Hh Hm. unfold Heap.hp_remove. rewrite (guard_out h mine other st e HSs Hh Hm). reflexivity. Qed.
Lemma hp_fix_ignored h mine other st e : HS h mine other st -> h = 0%Z \/ h = 1%Z -> ~ In e mine ->
  hp_fix h (mine, st) e = Ok (mine, st).
Proof. intros HSs Hh Hm. unfold Heap.hp_fix. rewrite (guard_out h mine other st e HSs Hh Hm). reflexivity. Qed.

(* Fix(e): the value of e (and only of e) may have changed since the heap was last in order *)
Lemma hp_fix_spec h mine other st e (val0 : nat -> A) : HS h mine other st -> h = 0%Z \/ h = 1%Z -> In e mine ->
  (forall x, x <> e -> valof st x = val0 x) -> hokN (ltE val0) mine (length mine) -> hokN (ltE (valof st)) other (length other) ->
  exists mine' st', hp_fix h (mine, st) e = Ok (mine', st') /\
    HS h mine' other st' /\ Ord mine' other st' /\ Permutation mine' mine /\
    length st' = length st /\ (forall x, valof st' x = valof st x).
Proof.
  intros HSs Hh Hin Hv0 O1 O2. set (val := valof st).
  unfold Heap.hp_fix. rewrite (guard_in h mine other st e HSs Hh Hin). cbn [fst snd].
  destruct (Hd_in _ _ _ (proj1 HSs) Hin) as (_ & _ & k & Hk & Ek & Ei). cbn [fst snd] in *. rewrite Ei. unfold Zlen.
  destruct (Z.ltb_spec (Z.of_nat k) 0); [lia|]. destruct (Z.geb_spec (Z.of_nat k) (Z.of_nat (length mine))); [lia|]. cbn [orb].
  assert (I0 : SInv h val (mine, st) (mine, st)) by (apply SInv_refl; apply HSs).
  destruct (fixH_ok h val (mine, st) (mine, st) k (length mine) I0) as (t2 & E2 & F2 & I2); [cbn [fst]; lia|exact Hk|].
  rewrite E2. destruct t2 as [mine' st']. cbn [fst snd] in *. exists mine', st'. split; [reflexivity|].
  pose proof (HS_from_SInv h mine other st (mine', st') HSs I2) as HS2. cbn [fst snd] in HS2.
  destruct I2 as (_ & Hv & _ & Hl & _). cbn [fst snd] in *.
  (* the order premises of fix: every pair not involving position k is as it was *)
  assert (Hnd : NoDup mine) by apply HSs.
  assert (Hother : forall j, j < length mine -> j <> k -> val (nth j mine 0) = val0 (nth j mine 0)).
  { intros j Hj Hjk. apply Hv0. rewrite <- Ek. intros E. apply Hjk. apply (NoDup_nth_inj mine j k); auto. }
  assert (Pre1 : forall p c, c < length mine -> is_child p c -> p <> k -> c <> k -> Heap.ok nat 0 (ltE val) mine p c).
  { intros p c Hc Hpc Hp Hck. assert (p < length mine) by (unfold is_child in Hpc; lia).
    specialize (O1 p c Hc Hpc). unfold Heap.ok, Heap.le, ltE in *. rewrite !Hother by auto. exact O1. }
  assert (Pre2 : forall g c, is_child g k -> c < length mine -> is_child k c -> Heap.ok nat 0 (ltE val) mine g c).
  { intros g c Hgk Hc Hkc. assert (g < k /\ k < c) by (unfold is_child in *; lia).
    pose proof (O1 g k ltac:(lia) Hgk) as A1. pose proof (O1 k c Hc Hkc) as A2.
    unfold Heap.ok, Heap.le, ltE in *. rewrite !Hother by lia. apply (le_trans _ (val0 (nth k mine 0))); assumption. }
  pose proof (fix_heap nat 0 (ltE val) (ltE_trans _) (ltE_asym _) mine k (length mine) ltac:(lia) Hk Pre1 Pre2) as Hfix.
  destruct (fix_facts nat 0 (ltE val) mine k (length mine) ltac:(lia) Hk) as (L2 & P2 & _).
  rewrite <- F2 in *.
  split; [exact HS2|]. split; [|split; [exact P2|split; [exact Hl|exact Hv]]].
  split; [rewrite L2; apply (heap_ok_ext val); [intros; symmetry; apply Hv|exact Hfix]|].
  apply (heap_ok_ext val); [intros; symmetry; apply Hv|exact O2].
Qed.

(* ---- Init: detach what the heap held, create fresh elements, build ---- *)
Local Notation detach := (Heap.detach A d).
Local Notation fresh := (Heap.fresh A).
Lemma detach_spec : forall (l : list nat) (st : store),
  length (detach st l) = length st /\
  (forall x, ~ In x l -> getE (detach st l) x = getE st x) /\
  (forall x, In x l -> x < length st -> eidx (getE (detach st l) x) = (-1)%Z /\ eown (getE (detach st l) x) = (-1)%Z) /\
  (forall x, valof (detach st l) x = valof st x).
Proof.
  induction l as [|e r IH]; intros st; cbn [Heap.detach].
  - split; [reflexivity|]. split; [reflexivity|]. split; [intros x []|reflexivity].
  - destruct (IH (set_idx (set_own st e (-1)) e (-1))) as (L & F & D & V).
    rewrite set_idx_length, set_own_length in L. split; [exact L|]. split; [|split].
    + intros x Hx. rewrite F by (intros H; apply Hx; right; exact H).
      rewrite getE_set_idx_ne, getE_set_own_ne; auto; intros ->; apply Hx; left; reflexivity.
    + intros x Hx Hl. destruct (in_dec Nat.eq_dec x r) as [Hr|Hr].
      * apply D; [exact Hr|rewrite set_idx_length, set_own_length; exact Hl].
      * destruct Hx as [->|Hx]; [|contradiction]. rewrite F by exact Hr.
        rewrite eidx_set_idx, eown_set_idx, eown_set_own, set_own_length, Nat.eqb_refl.
        destruct (Nat.ltb_spec x (length st)); [|lia]. cbn [andb]. auto.
    + intros x. rewrite V, valof_set_idx, valof_set_own. reflexivity.
Qed.
Lemma fresh_spec h : forall (vs : list A) i, length (fresh h i vs) = length vs /\
  forall k, k < length vs -> nth k (fresh h i vs) (Heap.dummyE A d) = mkE (i + Z.of_nat k) h (nth k vs d).
Proof.
  induction vs as [|v r IH]; intros i; cbn [Heap.fresh length].
  - split; [reflexivity|]. intros k Hk. lia.
  - destruct (IH (i + 1)%Z) as (L & N). split; [lia|]. intros [|k] Hk; cbn [nth].
    + f_equal. lia.
    + rewrite N by lia. f_equal. lia.
Qed.
Lemma getE_app_l (st l : store) x : x < length st -> getE (st ++ l) x = getE st x.
Proof. intros H. unfold Heap.getE. apply app_nth1. exact H. Qed.
Lemma getE_app_r (st l : store) k : getE (st ++ l) (length st + k) = nth k l (Heap.dummyE A d).
Proof. unfold Heap.getE. rewrite app_nth2 by lia. f_equal. lia. Qed.

Lemma hp_init_spec h mine other st (vs : list A) : HS h mine other st -> hokN (ltE (valof st)) other (length other) ->
  exists mine' st', hp_init h (mine, st) vs = Ok (mine', st') /\ HS h mine' other st' /\ Ord mine' other st' /\
    Permutation mine' (seq (length st) (length vs)) /\ length st' = length st + length vs /\
    (forall x, x < length st -> valof st' x = valof st x) /\ map evalue st' = map evalue st ++ vs /\
    (forall x, In x mine -> eidx (getE st' x) = (-1)%Z).
Proof.
  intros HSs O2. pose proof HSs as (H1 & H2 & H3). unfold Heap.hp_init. cbn [fst snd].
  destruct (detach_spec mine st) as (L1 & F1 & D1 & V1). set (st1 := detach st mine) in *.
  destruct (fresh_spec h vs 0) as (Lf & Nf). rewrite L1.
  set (arr := seq (length st) (length vs)). set (st2 := st1 ++ fresh h 0 vs).
  assert (L2 : length st2 = length st + length vs) by (unfold st2; rewrite app_length, L1, Lf; reflexivity).
  assert (Gnew : forall k, k < length vs -> getE st2 (length st + k) = mkE (Z.of_nat k) h (nth k vs d)).
  { intros k Hk. unfold st2. rewrite <- L1. rewrite getE_app_r. rewrite Nf by exact Hk. reflexivity. }
  assert (Gold : forall x, x < length st -> getE st2 x = getE st1 x) by (intros x Hx; unfold st2; apply getE_app_l; lia).
  assert (HS2 : HS h arr other st2).
  { split; [|split].
    - split; [apply seq_NoDup|]. cbn [fst snd]. unfold arr. rewrite seq_length. intros k Hk. rewrite seq_nth by exact Hk.
      rewrite Gnew by exact Hk. cbn [Heap.eidx Heap.eown]. split; [lia|auto].
    - apply (Hd_frame _ other st); [exact H2|lia|]. intros z Hz.
      destruct (Hd_in _ _ _ H2 Hz) as (K & _). cbn [snd] in K. rewrite Gold by exact K.
      apply F1. intros Hm. exact (HS_disjoint h mine other st z HSs Hm Hz).
    - intros z Hz Hm Ho. destruct (Nat.lt_ge_cases z (length st)) as [Hlt|Hge].
      + rewrite Gold by exact Hlt. destruct (in_dec Nat.eq_dec z mine) as [Hin|Hin]; [apply D1; auto|].
        rewrite F1 by exact Hin. apply H3; auto.
      + exfalso. apply Hm. unfold arr. apply in_seq. lia. }
  assert (V2 : forall x, x < length st -> valof st2 x = valof st x).
  { intros x Hx. unfold Heap.valof. rewrite Gold by exact Hx. apply V1. }
  destruct (buildH_ok h (valof st2) (arr, st2) (arr, st2)) as (t' & E & F & I); [apply SInv_refl; apply HS2|].
  rewrite E. destruct t' as [mine' st']. cbn [fst snd] in *. exists mine', st'. split; [reflexivity|].
  pose proof (HS_from_SInv h arr other st2 (mine', st') HS2 I) as HS3. cbn [fst snd] in HS3.
  destruct I as (_ & Hv & _ & Hl & Hfr & _). cbn [fst snd] in *.
  destruct (build_heap nat 0 (ltE (valof st2)) (ltE_trans _) (ltE_asym _) arr) as (B1 & B2 & B3). rewrite <- F in *.
  split; [exact HS3|]. split; [|split; [exact B3|split; [lia|split; [|split]]]].
  - split; [rewrite B2; apply (heap_ok_ext (valof st2)); [intros; symmetry; apply Hv|exact B1]|].
    apply (hok_ext_on (valof st)); [|exact O2]. intros x Hx. rewrite Hv. symmetry. apply V2.
    destruct (Hd_in _ _ _ H2 Hx) as (K & _). exact K.
  - intros x Hx. rewrite Hv. apply V2. exact Hx.
  - apply (nth_ext _ _ d d); [rewrite app_length, !map_length; lia|]. intros k Hk. rewrite map_length in Hk.
    assert (Ek : forall (l : store) j, j < length l -> nth j (map evalue l) d = valof l j).
    { intros l j Hj. unfold Heap.valof, Heap.getE. rewrite (nth_indep _ d (evalue (Heap.dummyE A d))) by (rewrite map_length; exact Hj). apply map_nth. }
    rewrite Ek by exact Hk. rewrite Hv. destruct (Nat.lt_ge_cases k (length st)) as [Hlt|Hge].
    + rewrite app_nth1 by (rewrite map_length; exact Hlt). rewrite Ek by exact Hlt. apply V2. exact Hlt.
    + rewrite app_nth2; rewrite map_length; [|exact Hge]. unfold Heap.valof.
      replace k with (length st + (k - length st)) at 1 by lia. rewrite Gnew by lia. reflexivity.
  - intros x Hx. destruct (Hd_in _ _ _ H1 Hx) as (K & _). cbn [snd] in K.
    assert (Hna : ~ In x arr) by (unfold arr; rewrite in_seq; lia).
    rewrite (Hfr x Hna). rewrite Gold by exact K. apply D1; auto.
Qed.

(* ---- PopAll ---- *)
Local Notation hpopall := (Heap.hpopall A d lt).
Lemma hpopall_spec h other : forall fuel (mine : list nat) (st : store) k acc,
  length mine < fuel -> HS h mine other st -> Ord mine other st ->
  exists l mine' st', hpopall fuel (mine, st) k acc = Ok ((mine', st'), rev acc ++ map (valof st) l) /\
    HS h mine' other st' /\ Ord mine' other st' /\ Permutation (l ++ mine') mine /\
    Heap.sortedb A lt (map (valof st) l) = true /\
    (forall x, In x l -> forall y, In y mine' -> lt (valof st y) (valof st x) = false) /\
    length l = (if (k <=? 0)%Z then length mine else Nat.min (Z.to_nat k) (length mine)) /\
    length st' = length st /\ (forall x, valof st' x = valof st x) /\ (forall x, In x l -> eidx (getE st' x) = (-1)%Z).
Proof.
  induction fuel as [|f IH]; intros mine st k acc Hf HSs HO; [lia|]. cbn [Heap.hpopall].
  destruct mine as [|a m0] eqn:Em.
  - rewrite hp_pop_empty. cbn [bind fst snd]. change (-1 =? -1)%Z with true. cbn iota.
    exists [], [], st. cbn [map app]. rewrite app_nil_r.
    split; [reflexivity|]. split; [exact HSs|]. split; [exact HO|]. split; [reflexivity|]. split; [reflexivity|].
    split; [intros x []|]. split; [cbn [length]; destruct (k <=? 0)%Z; [reflexivity|rewrite Nat.min_0_r; reflexivity]|].
    split; [reflexivity|]. split; [reflexivity|intros x []].
  - rewrite <- Em in *. assert (H1 : 1 <= length mine) by (rewrite Em; cbn [length]; lia).
    destruct (hp_pop_spec h mine other st HSs HO H1) as (m1 & st1 & E & HS1 & O1 & P1 & Hmin & L1 & V1 & I1).
    set (e := nth 0 mine 0) in *. rewrite E. cbn [bind fst snd].
    destruct (Z.eqb_spec (Z.of_nat e) (-1)); [lia|]. rewrite Nat2Z.id.
    assert (Lm : length m1 = length mine - 1).
    { apply Permutation_length in P1. cbn [length] in P1. lia. }
    assert (Hx : forall y, In y m1 -> lt (valof st y) (valof st e) = false).
    { intros y Hy. apply Hmin. eapply Permutation_in; [exact P1|right; exact Hy]. }
    fold (valof st1 e). rewrite V1.
    destruct (Z.eqb_spec k 1) as [->|Hk1].
    + exists [e], m1, st1. cbn [rev map app].
      split; [reflexivity|]. split; [exact HS1|]. split; [exact O1|]. split; [exact P1|]. split; [reflexivity|].
      split; [intros x [<-|[]]; exact Hx|]. split; [cbn [length]; change (1 <=? 0)%Z with false; cbn iota; change (Z.to_nat 1) with 1; lia|].
      split; [exact L1|]. split; [exact V1|intros x [<-|[]]; exact I1].
    + destruct (IH m1 st1 (k - 1)%Z (valof st e :: acc)) as (l & m2 & st2 & E2 & HS2 & O2 & P2 & S2 & M2 & Ln & L2 & V2 & I2); [lia|exact HS1|exact O1|].
      assert (Vm : map (valof st1) l = map (valof st) l) by (apply map_ext; exact V1).
      exists (e :: l), m2, st2. split; [rewrite E2; cbn [rev map]; rewrite <- app_assoc, Vm; reflexivity|].
      split; [exact HS2|]. split; [exact O2|]. split; [cbn [app]; etransitivity; [apply perm_skip; exact P2|exact P1]|].
      split.
      { cbn [map Heap.sortedb]. rewrite <- Vm, S2, andb_true_r. unfold Heap.minimal. apply forallb_forall.
        intros v Hv. apply in_map_iff in Hv. destruct Hv as (y & <- & Hy). rewrite V1. rewrite Hx; [reflexivity|].
        eapply Permutation_in; [exact P2|]. apply in_or_app. left. exact Hy. }
      split.
      { intros x [<-|Hxl] y Hy.
        - apply Hx. eapply Permutation_in; [exact P2|]. apply in_or_app. right. exact Hy.
        - rewrite <- !V1. apply M2; auto. }
      split; [cbn [length]; rewrite Ln, Lm; destruct (Z.leb_spec k 0); destruct (Z.leb_spec (k - 1) 0); lia|].
      split; [lia|]. split; [intros x; rewrite V2; apply V1|].
      intros x [<-|Hxl]; [|apply I2; exact Hxl].
      (* e has left the heap and is not touched again *)
      destruct (in_dec Nat.eq_dec e l) as [Hin|Hin]; [apply I2; exact Hin|].
      assert (Hnd : NoDup (e :: m1)) by (eapply Permutation_NoDup; [apply Permutation_sym; exact P1|apply HSs]).
      apply NoDup_cons_iff in Hnd. destruct Hnd as [He1 _].
      assert (He : In e mine) by (eapply Permutation_in; [exact P1|left; reflexivity]).
      destruct (Hd_in _ _ _ (proj1 HSs) He) as (K & _). cbn [snd] in K.
      destruct HS2 as (_ & _ & Fr). apply Fr.
      * lia.
      * intros H2. apply He1. eapply Permutation_in; [exact P2|]. apply in_or_app. right. exact H2.
      * intros H2. exact (HS_disjoint h mine other st e HSs He H2).
Qed.
End Handles.
