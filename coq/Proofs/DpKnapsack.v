(* C18: Knapsack is optimal, for every tie-breaker.  Ported from design-notes/proto/Knapsack_proto.v (tie-breaker added). *)
From Coq Require Import List ZArith Lia Bool Arith Sorted.
From V Require Import Model.Dp.
Import ListNotations.

Lemma upd_length l i x : length (upd l i x) = length l.
Proof. revert i; induction l as [|a l IH]; intros [|i]; cbn [upd length]; auto. Qed.
Lemma nth_upd_eq l i x : i < length l -> nth i (upd l i x) d0 = x.
Proof. revert i; induction l as [|a l IH]; intros [|i] H; cbn [upd nth length] in *; try lia; auto; apply IH; lia. Qed.
Lemma nth_upd_ne l i j x : i <> j -> nth j (upd l i x) d0 = nth j l d0.
Proof. revert i j; induction l as [|a l IH]; intros [|i] [|j] H; cbn [upd nth]; auto; try lia; apply IH; lia. Qed.


Section Spec.
Variable items : list item.
Local Notation wt := (wt items).
Local Notation vl := (vl items).
Local Notation weight := (weight items).
Local Notation value := (value items).

Local Notation valid := (valid items).

Lemma weight_app a b : weight (a ++ b) = weight a + weight b.
Proof. induction a; cbn [app weight fold_right] in *; [reflexivity|]. unfold weight in *. lia. Qed.
Lemma value_app a b : value (a ++ b) = (value a + value b)%Z.
Proof. induction a; cbn [app value fold_right] in *; [reflexivity|]. unfold value in *. lia. Qed.

Lemma sorted_snoc s k : StronglySorted lt s -> Forall (fun i => i < k) s -> StronglySorted lt (s ++ [k]).
Proof.
  induction s as [|a s IH]; intros Hs Hk; cbn [app].
  - repeat constructor.
  - inversion Hs; subst. inversion Hk; subst. constructor; [apply IH; auto|].
    apply Forall_app. split; auto.
Qed.

(* a valid selection for k+1 either avoids item k or ends with it *)
Lemma valid_split k c s : valid (S k) c s ->
  valid k c s \/ exists s', s = s' ++ [k] /\ valid k (c - wt k) s' /\ wt k <= c.
Proof.
  intros (Hs & Hk & Hw). destruct (in_dec Nat.eq_dec k s) as [Hin|Hnin].
  - right. destruct (exists_last (l := s)) as (s' & x & ->); [intros ->; contradiction|].
    assert (x = k).
    { apply in_app_iff in Hin. destruct Hin as [Hin | [<- | []]]; auto.
      (* k in s' but x after it and x <= k: contradiction with strict sortedness *)
      assert (Hx : x < S k) by (rewrite Forall_forall in Hk; apply Hk; apply in_app_iff; right; left; reflexivity).
      assert (k < x).
      { clear -Hs Hin. induction s' as [|a s' IH]; [contradiction|]. cbn [app] in Hs. inversion Hs; subst.
        destruct Hin as [-> | Hin]; [|apply IH; auto].
        rewrite Forall_forall in H2. apply H2. apply in_app_iff. right. left. reflexivity. }
      lia. }
    subst x. exists s'. split; [reflexivity|]. rewrite weight_app in Hw. cbn [weight fold_right] in Hw.
    split; [|lia]. repeat split.
    + clear -Hs. induction s' as [|a s' IH]; [constructor|]. cbn [app] in Hs. inversion Hs; subst. constructor; [apply IH; auto|].
      apply Forall_app in H2. tauto.
    + apply Forall_forall. intros i Hi.
      assert (i < k \/ i = k) by (rewrite Forall_forall in Hk; specialize (Hk i ltac:(apply in_app_iff; left; exact Hi)); lia).
      destruct H as [H | ->]; auto. exfalso.
      clear -Hs Hi. induction s' as [|a s' IH]; [contradiction|]. cbn [app] in Hs. inversion Hs; subst.
      destruct Hi as [-> | Hi]; [|apply IH; auto].
      rewrite Forall_forall in H2. specialize (H2 k ltac:(apply in_app_iff; right; left; reflexivity)). lia.
    + lia.
  - left. repeat split; auto. apply Forall_forall. intros i Hi.
    assert (i < S k) by (rewrite Forall_forall in Hk; apply Hk; auto).
    assert (i <> k) by (intros ->; contradiction). lia.
Qed.

(* table invariant after the first k items *)
Definition table_ok (W k : nat) (dp : list cell) : Prop :=
  length dp = S W /\
  forall c, c <= W ->
    let x := nth c dp d0 in
    valid k c (sel x) /\ value (sel x) = score x /\ (forall s, valid k c s -> (value s <= score x)%Z).

Lemma valid_mono k c s : valid k c s -> valid (S k) c s.
Proof. intros (H1 & H2 & H3). repeat split; auto. eapply Forall_impl; [|exact H2]. cbn beta. intros; lia. Qed.
End Spec.

(* what one round writes into cell c *)
Definition newcell (brk : breaker) (w : nat) (v : Z) (k : nat) (old : list cell) (c : nat) : cell :=
  let a := nth (c - w) old d0 in let b := nth c old d0 in
  let ns := (score a + v)%Z in
  let cand := {| score := ns; sel := sel a ++ [k] |} in
  if (score b <? ns)%Z then cand
  else if (ns =? score b)%Z then
    match brk with Some f => if f (sel b) (sel a ++ [k]) then cand else b | None => b end
  else b.

(* the descending in-place loop reads only cells it has not overwritten yet *)
Lemma inner_fold brk W w v k old : forall L T,
  StronglySorted gt L -> length T = S W -> (forall i, In i L -> i <= W) ->
  (forall c, (exists i, In i L /\ c <= i) -> nth c T d0 = nth c old d0) ->
  let R := fold_left (cell_step brk w v k) L T in
  length R = S W /\ (forall c, In c L -> nth c R d0 = newcell brk w v k old c) /\ (forall c, ~ In c L -> nth c R d0 = nth c T d0).
Proof.
  induction L as [|i L IH]; intros T Hs Hlen HW Hold; cbn [fold_left].
  - repeat split; auto. intros c [].
  - inversion Hs as [|? ? Hs' Hgt]; subst.
    assert (Hi : i <= W) by (apply HW; left; reflexivity).
    assert (E1 : nth (i - w) T d0 = nth (i - w) old d0) by (apply Hold; exists i; split; [left; reflexivity|lia]).
    assert (E2 : nth i T d0 = nth i old d0) by (apply Hold; exists i; split; [left; reflexivity|lia]).
    set (T1 := cell_step brk w v k T i).
    assert (HT1 : length T1 = S W /\ nth i T1 d0 = newcell brk w v k old i /\ forall c, c <> i -> nth c T1 d0 = nth c T d0).
    { assert (Hupd : forall x, length (upd T i x) = S W /\ nth i (upd T i x) d0 = x /\ forall c, c <> i -> nth c (upd T i x) d0 = nth c T d0).
      { intros x. rewrite upd_length. split; auto. split; [apply nth_upd_eq; lia|]. intros c Hc. apply nth_upd_ne; auto. }
      assert (Hsame : length T = S W /\ nth i T d0 = nth i old d0 /\ forall c, c <> i -> nth c T d0 = nth c T d0) by (split; auto).
      unfold T1, cell_step, newcell. rewrite E1, E2.
      destruct (score (nth i old d0) <? score (nth (i - w) old d0) + v)%Z; [apply Hupd|].
      destruct (score (nth (i - w) old d0) + v =? score (nth i old d0))%Z; [|exact Hsame].
      destruct brk as [f|]; [|exact Hsame].
      destruct (f (sel (nth i old d0)) (sel (nth (i - w) old d0) ++ [k])); [apply Hupd|exact Hsame]. }
    destruct HT1 as (L1 & L2 & L3).
    destruct (IH T1 Hs' L1) as (R1 & R2 & R3).
    + intros j Hj. apply HW. right; auto.
    + intros c (j & Hj & Hcj). rewrite Forall_forall in Hgt. specialize (Hgt j Hj).
      rewrite L3 by lia. apply Hold. exists j. split; [right; auto|auto].
    + split; [exact R1|]. split.
      * intros c [E|Hc]; [subst c|apply R2; auto].
        rewrite R3; auto. intros Hin. rewrite Forall_forall in Hgt. specialize (Hgt i Hin). lia.
      * intros c Hc. rewrite R3 by (intros H; apply Hc; right; auto). apply L3. intros ->. apply Hc. left; reflexivity.
Qed.

Lemma desc_sorted w n : StronglySorted gt (rev (seq w n)).
Proof.
  revert w; induction n as [|n IH]; intros w; cbn [seq rev]; [constructor|].
  rewrite <- seq_shift. (* seq (S w) n = map S (seq w n) *)
  assert (G : forall l x, StronglySorted gt l -> Forall (fun y => y > x) l -> StronglySorted gt (l ++ [x])).
  { induction l as [|a l IHl]; intros x Hs Hx; cbn [app]; [repeat constructor|].
    inversion Hs; subst. inversion Hx; subst. constructor; [apply IHl; auto|]. apply Forall_app. split; auto. }
  rewrite seq_shift. apply G; [apply IH|]. apply Forall_forall. intros y Hy. rewrite <- in_rev in Hy. apply in_seq in Hy. lia.
Qed.

Section Round.
Variable brk : breaker.
Variable items : list item.
Variables W k w : nat.
Variable v : Z.
Hypothesis Hitem : nth k items (0, 0%Z) = (w, v).

Lemma round_ok old : table_ok items W k old -> table_ok items W (S k) (inner brk W w v k old).
Proof.
  intros [Hlen Hok]. unfold inner.
  destruct (inner_fold brk W w v k old (rev (seq w (S W - w))) old) as (R1 & R2 & R3); auto.
  - apply desc_sorted.
  - intros i Hi. rewrite <- in_rev in Hi. apply in_seq in Hi. lia.
  - split; [exact R1|]. intros c Hc.
    assert (Hwt : wt items k = w) by (unfold wt; rewrite Hitem; reflexivity).
    assert (Hvl : vl items k = v) by (unfold vl; rewrite Hitem; reflexivity).
    destruct (le_lt_dec w c) as [Hwc|Hcw].
    + rewrite R2 by (rewrite <- in_rev; apply in_seq; lia). unfold newcell.
      destruct (Hok c Hc) as (Vc & Ec & Oc). destruct (Hok (c - w) ltac:(lia)) as (Va & Ea & Oa). cbv zeta in *.
      set (a := nth (c - w) old d0) in *. set (b := nth c old d0) in *.
      assert (Hcand : (score b <= score a + v)%Z ->
                valid items (S k) c (sel a ++ [k]) /\ value items (sel a ++ [k]) = (score a + v)%Z /\
                forall s, valid items (S k) c s -> (value items s <= score a + v)%Z).
      { intros Hle. split; [|split].
        - destruct Va as (S1 & S2 & S3). repeat split.
          + apply sorted_snoc; auto.
          + apply Forall_app. split; [eapply Forall_impl; [|exact S2]; cbn beta; intros; lia|repeat constructor].
          + rewrite weight_app. cbn [weight fold_right]. fold (wt items k). lia.
        - rewrite value_app. cbn [value fold_right]. fold (vl items k). lia.
        - intros s Hs. destruct (valid_split items k c s Hs) as [Hv|(s' & -> & Hv' & _)].
          + specialize (Oc s Hv). lia.
          + rewrite Hwt in Hv'. specialize (Oa s' Hv'). rewrite value_app. cbn [value fold_right]. fold (vl items k). lia. }
      assert (Hkeep : (score a + v <= score b)%Z ->
                valid items (S k) c (sel b) /\ value items (sel b) = score b /\
                forall s, valid items (S k) c s -> (value items s <= score b)%Z).
      { intros Hge. split; [apply valid_mono; auto|]. split; [exact Ec|].
        intros s Hs. destruct (valid_split items k c s Hs) as [Hv|(s' & -> & Hv' & _)].
        - apply Oc; auto.
        - rewrite Hwt in Hv'. specialize (Oa s' Hv'). rewrite value_app. cbn [value fold_right]. fold (vl items k). lia. }
      destruct (Z.ltb_spec (score b) (score a + v)) as [Hlt|Hge]; [cbn [sel score]; apply Hcand; lia|].
      destruct (Z.eqb_spec (score a + v) (score b)) as [Heq|Hne]; [|apply Hkeep; lia].
      destruct brk as [f|]; [|apply Hkeep; lia].
      destruct (f (sel b) (sel a ++ [k])); [cbn [sel score]; apply Hcand; lia|apply Hkeep; lia].
    + rewrite R3 by (intros Hin; rewrite <- in_rev in Hin; apply in_seq in Hin; lia).
      destruct (Hok c Hc) as (Vc & Ec & Oc). cbv zeta in *.
      split; [apply valid_mono; auto|]. split; [exact Ec|].
      intros s Hs. destruct (valid_split items k c s Hs) as [Hv|(s' & -> & _ & Hle)]; [apply Oc; auto|].
      rewrite Hwt in Hle. lia.
Qed.
End Round.

Lemma outer_ok brk items W : forall rest k dp,
  (forall j, j < length rest -> nth (k + j) items (0, 0%Z) = nth j rest (0, 0%Z)) ->
  table_ok items W k dp -> table_ok items W (k + length rest) (outer brk W rest k dp).
Proof.
  induction rest as [|[w v] rest IH]; intros k dp Hnth Hok; cbn [outer length].
  - rewrite Nat.add_0_r. exact Hok.
  - replace (k + S (length rest)) with (S k + length rest) by lia. apply IH.
    + intros j Hj. replace (S k + j) with (k + S j) by lia. rewrite Hnth by (cbn [length]; lia). reflexivity.
    + apply round_ok; auto. specialize (Hnth 0 ltac:(cbn [length]; lia)). rewrite Nat.add_0_r in Hnth. exact Hnth.
Qed.

Lemma init_ok items W : table_ok items W 0 (repeat d0 (S W)).
Proof.
  split; [apply repeat_length|]. intros c Hc.
  assert (E : nth c (repeat d0 (S W)) d0 = d0) by (apply nth_repeat). rewrite E. cbn [sel score d0].
  split; [repeat split; [constructor|constructor|cbn; lia]|]. split; [reflexivity|].
  intros s (_ & Hk & _). destruct s as [|i s]; [cbn; lia|]. inversion Hk; subst. lia.
Qed.

(* C18, Knapsack: each item at most once, within the limit, and no feasible selection is worth more *)
Theorem knapsack_optimal brk items W :
  let r := knapsack brk W items in
  valid items (length items) W r /\ forall s, valid items (length items) W s -> (value items s <= value items r)%Z.
Proof.
  cbv zeta. unfold knapsack.
  pose proof (outer_ok brk items W items 0 (repeat d0 (S W)) ltac:(intros; reflexivity) (init_ok items W)) as [_ H].
  cbn [Nat.add] in H. destruct (H W (le_n _)) as (Hv & He & Ho). cbv zeta in *.
  split; [exact Hv|]. intros s Hs. rewrite He. apply Ho. exact Hs.
Qed.
Print Assumptions knapsack_optimal.
