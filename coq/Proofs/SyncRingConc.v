From Coq Require Import List ZArith Lia Bool Arith.
Import ListNotations.
From V Require Import Model.SyncRingConc.
Local Open Scope Z_scope.
Arguments Z.add : simpl never.
Arguments Z.sub : simpl never.
Arguments Z.mul : simpl never.
Arguments Z.modulo : simpl never.
Arguments Z.pow : simpl never.
Arguments Z.of_nat : simpl never.
Arguments Z.to_nat : simpl never.
Lemma upd_length {A} (l : list A) i x : length (upd l i x) = length l.
Proof. revert i; induction l as [|a l IH]; intros [|i]; cbn [upd length]; auto. Qed.
Lemma nth_error_upd_eq {A} (l : list A) i x : (i < length l)%nat -> nth_error (upd l i x) i = Some x.
Proof. revert i; induction l as [|a l IH]; intros [|i] H; cbn [upd nth_error length] in *; try lia; auto; apply IH; lia. Qed.
Lemma nth_error_upd_ne {A} (l : list A) i j x : i <> j -> nth_error (upd l i x) j = nth_error l j.
Proof. revert i j; induction l as [|a l IH]; intros [|i] [|j] H; cbn [upd nth_error]; auto; try lia; apply IH; lia. Qed.

(* sanity: two threads, cap 2, a push overlapping a pop *)
Example smoke :
  option_map hist (run (init 1 2)
    [(0%nat, OpPush 7); (0%nat, OpPop); (0%nat, OpPop); (0%nat, OpPop);   (* push claims ticket 0 *)
     (1%nat, OpPop); (1%nat, OpPop); (1%nat, OpPop);                      (* pop sees unpublished slot: false *)
     (0%nat, OpPop); (0%nat, OpPop);                                      (* push writes, publishes *)
     (1%nat, OpPop); (1%nat, OpPop); (1%nat, OpPop); (1%nat, OpPop); (1%nat, OpPop); (1%nat, OpPop); (1%nat, OpPop)])
  = Some [(1%nat, RPop None None); (0%nat, RPush true); (1%nat, RPop (Some 7) (Some 7))].
Proof. vm_compute. reflexivity. Qed.

(* ------------------------------------------------------------------------------------------- *)
(* Arithmetic                                                                                   *)
(* ------------------------------------------------------------------------------------------- *)
Lemma cap_bounds k : 1 <= k <= 31 -> 2 <= 2 ^ k <= 2 ^ 31 /\ M32 = 2 ^ k * 2 ^ (32 - k).
Proof.
  intros H. split.
  - split.
    + change 2 with (2 ^ 1) at 1. apply Z.pow_le_mono_r; lia.
    + apply Z.pow_le_mono_r; lia.
  - unfold M32. rewrite <- Z.pow_add_r by lia. f_equal. lia.
Qed.
Lemma u32_mod_cap k x : 1 <= k <= 31 -> (u32 x) mod 2 ^ k = x mod 2 ^ k.
Proof.
  intros H. destruct (cap_bounds k H) as [_ E]. unfold u32. rewrite E.
  rewrite Z.rem_mul_r by (apply Z.pow_nonzero || idtac; lia || (apply Z.pow_pos_nonneg; lia)).
  rewrite Z.mul_comm, Z.mod_add by (apply Z.pow_nonzero; lia). apply Z.mod_mod. apply Z.pow_nonzero; lia.
Qed.
Lemma u32_inj_near a b : u32 a = u32 b -> - M32 < a - b < M32 -> a = b.
Proof.
  unfold u32, M32. intros H Hn.
  assert (E : (a - b) mod 2 ^ 32 = 0) by (rewrite Zminus_mod, H, Z.sub_diag; reflexivity).
  apply Z.mod_divide in E; [|lia]. destruct E as [c Hc]. assert (c = 0) by nia. lia.
Qed.
Lemma mod_inj_near c p q : 0 < c -> p mod c = q mod c -> - c < p - q < c -> p = q.
Proof.
  intros Hc H Hn.
  assert (E : (p - q) mod c = 0) by (rewrite Zminus_mod, H, Z.sub_diag; apply Z.mod_0_l; lia).
  apply Z.mod_divide in E; [|lia]. destruct E as [d Hd]. assert (d = 0) by nia. lia.
Qed.
Lemma u32_succ a : u32 (u32 a + 1) = u32 (a + 1).
Proof. unfold u32. rewrite Zplus_mod_idemp_l. reflexivity. Qed.
Lemma u32_add_l a b : u32 (u32 a + b) = u32 (a + b).
Proof. unfold u32. rewrite Zplus_mod_idemp_l. reflexivity. Qed.
Lemma to_nat_mod_inj c p q : 0 < c -> Z.to_nat (p mod c) = Z.to_nat (q mod c) -> p mod c = q mod c.
Proof.
  intros Hc H. pose proof (Z.mod_pos_bound p c Hc). pose proof (Z.mod_pos_bound q c Hc). lia.
Qed.
Lemma nth_tail {A} (l : list A) n d : nth n (tail l) d = nth (S n) l d.
Proof. destruct l; cbn [tail nth]; auto. destruct n; auto. Qed.
Lemma replay_app c l1 l2 q0 :
  replay c (l1 ++ l2) q0 = match replay c l1 q0 with Some q1 => replay c l2 q1 | None => None end.
Proof.
  revert q0; induction l1 as [|e l1 IH]; intros q0; cbn [app replay]; auto.
  destruct e.
  - destruct (Z.of_nat (length q0) <? c); auto.
  - destruct q0 as [|x q']; auto. destruct (x =? v); auto.
Qed.

Lemma pinned_holds s p f : tassert s p -> pinned s p = Some f -> phase_at s (ticket f) = Some f.
Proof.
  destruct p; cbn [tassert pinned]; intros H E; try discriminate.
  - destruct (Z.eqb_spec T0 (tl s)); [|discriminate]. inversion E; subst; cbn [ticket]. tauto.
  - inversion E; subst; cbn [ticket]; tauto.
  - inversion E; subst; cbn [ticket]; tauto.
  - destruct (Z.eqb_spec H0 (hd s)); [|discriminate]. inversion E; subst; cbn [ticket]. tauto.
  - inversion E; subst; cbn [ticket]; tauto.
  - inversion E; subst; cbn [ticket]; tauto.
  - inversion E; subst; cbn [ticket]; tauto.
Qed.

(* ------------------------------------------------------------------------------------------- *)
(* Frame lemmas for the four slot-writing actions (value write, publish, clear, release)        *)
(* ------------------------------------------------------------------------------------------- *)
Lemma slot_ok_frame s s' i x f :
  hd s' = hd s -> tl s' = tl s -> cap s' = cap s -> q s' = q s -> slot_ok s i x f -> slot_ok s' i x f.
Proof. unfold slot_ok, sidx. intros -> -> -> ->. auto. Qed.

Lemma G_set_slot k s i0 x' f' :
  G k s -> (i0 < length (slots s))%nat -> slot_ok s i0 x' f' -> G k (set_slot s i0 x' f').
Proof.
  intros [Hk Hc Hl Hlp Hh Hq Hf Hs Hlin] Hi Hok. constructor; cbn [set_slot slots hd tl cap q ph lin]; auto.
  - rewrite upd_length; auto.
  - rewrite !upd_length; auto.
  - intros i x f Hx Hf'. apply (slot_ok_frame s); auto.
    destruct (Nat.eq_dec i0 i) as [->|Hne].
    + rewrite nth_error_upd_eq in Hx by auto. rewrite nth_error_upd_eq in Hf' by lia. inversion Hx; inversion Hf'; subst; auto.
    + rewrite (nth_error_upd_ne _ _ _ _ Hne) in Hx. rewrite (nth_error_upd_ne _ _ _ _ Hne) in Hf'. apply Hs; auto.
Qed.

Lemma tassert_set_slot s i0 x' f' p :
  tassert s p -> (forall f, pinned s p = Some f -> sidx s (ticket f) <> i0) -> tassert (set_slot s i0 x' f') p.
Proof.
  intros H Hp.
  assert (Hne : forall f, pinned s p = Some f -> i0 <> Z.to_nat (ticket f mod cap s)).
  { intros f Hf E. apply (Hp f Hf). unfold sidx. auto. }
  clear Hp.
  destruct p; cbn [tassert pinned] in *; auto;
    unfold phase_at, slot_at, sidx in *; cbn [set_slot slots hd tl cap q ph] in *.
  - destruct H as (? & ? & ? & Himp). repeat split; auto. intros E. rewrite nth_error_upd_ne; auto.
    apply (Hne (Free T0)). rewrite E, Z.eqb_refl. reflexivity.
  - destruct H as (? & ? & ? & ?). repeat split; auto. rewrite nth_error_upd_ne; auto. apply (Hne (PushOwned T0)); auto.
  - destruct H as (? & ? & ? & ? & sq & ?). repeat split; auto.
    + rewrite nth_error_upd_ne; auto. apply (Hne (PushOwned T0)); auto.
    + exists sq. rewrite nth_error_upd_ne; auto. apply (Hne (PushOwned T0)); auto.
  - destruct H as (? & ? & ? & Himp). repeat split; auto. intros E. rewrite nth_error_upd_ne; auto.
    apply (Hne (Published H0)). rewrite E, Z.eqb_refl. reflexivity.
  - destruct H as (? & ? & ? & sq & ?). repeat split; auto.
    + rewrite nth_error_upd_ne; auto. apply (Hne (PopOwned H0)); auto.
    + exists sq. rewrite nth_error_upd_ne; auto. apply (Hne (PopOwned H0)); auto.
  - destruct H as (? & ? & ? & ?). repeat split; auto. rewrite nth_error_upd_ne; auto. apply (Hne (PopOwned H0)); auto.
  - destruct H as (? & ? & ? & ?). repeat split; auto. rewrite nth_error_upd_ne; auto. apply (Hne (PopOwned H0)); auto.
Qed.

(* if the actor owns the slot (its phase is an owner phase f_old), nobody else's assertion talks about it *)
Lemma others_elsewhere s l i j p pj f_old :
  Uniq l -> i <> j -> nth_error l i = Some p -> nth_error l j = Some pj ->
  owner_phase p = Some f_old -> nth_error (ph s) (sidx s (ticket f_old)) = Some f_old ->
  tassert s pj ->
  forall f, pinned s pj = Some f -> sidx s (ticket f) <> sidx s (ticket f_old).
Proof.
  intros HU Hij Hi Hj Ho Hph Ht f Hf E.
  pose proof (pinned_holds s pj f Ht Hf) as Hpf. unfold phase_at in Hpf. rewrite E, Hph in Hpf.
  inversion Hpf; subst f_old.
  assert (Hoj : owner_phase pj = Some f).
  { destruct pj; cbn [pinned owner_phase] in *; try discriminate; auto.
    - destruct (T0 =? tl s); [|discriminate]. inversion Hf; subst. destruct p; discriminate.
    - destruct (H0 =? hd s); [|discriminate]. inversion Hf; subst. destruct p; discriminate. }
  exact (HU i j p pj f Hij Hi Hj Ho Hoj).
Qed.

Lemma Forall_upd_others {A} (P : A -> Prop) l i x :
  (forall j y, j <> i -> nth_error l j = Some y -> P y) -> P x -> Forall P (upd l i x).
Proof.
  revert i; induction l as [|a l IH]; intros [|i] H Hx; cbn [upd]; constructor; auto.
  - apply Forall_forall. intros y Hy. apply In_nth_error in Hy as [j Hj]. apply (H (S j)); [lia|exact Hj].
  - apply (H 0%nat); [lia|reflexivity].
  - apply IH; auto. intros j y Hj Hy. apply (H (S j)); [lia|exact Hy].
Qed.

Lemma nth_error_upd_cases {A} (l : list A) i j x y :
  nth_error (upd l i x) j = Some y -> (j = i /\ y = x) \/ (j <> i /\ nth_error l j = Some y).
Proof.
  intros H. destruct (Nat.eq_dec i j) as [->|Hne].
  - left. split; auto. assert (j < length l)%nat.
    { apply nth_error_Some. intros E. assert (length (upd l j x) = length l) by apply upd_length.
      assert (nth_error (upd l j x) j <> None) by congruence. apply nth_error_Some in H1. rewrite H0 in H1.
      apply nth_error_None in E. lia. }
    rewrite nth_error_upd_eq in H by auto. congruence.
  - right. rewrite nth_error_upd_ne in H by auto. split; auto.
Qed.

(* Uniq is kept when a thread moves to a pc that owns nothing new *)
Lemma Uniq_upd_same l i p p' :
  Uniq l -> nth_error l i = Some p -> (owner_phase p' = None \/ owner_phase p' = owner_phase p) -> Uniq (upd l i p').
Proof.
  intros HU Hi Ho a b p1 p2 f Hab H1 H2 Hf1 Hf2.
  apply nth_error_upd_cases in H1. apply nth_error_upd_cases in H2.
  destruct H1 as [[-> ->]|[Ha H1]]; destruct H2 as [[-> ->]|[Hb H2]]; try lia.
  - destruct Ho as [Ho|Ho]; [congruence|]. rewrite Ho in Hf1. exact (HU i b p p2 f Hab Hi H2 Hf1 Hf2).
  - destruct Ho as [Ho|Ho]; [congruence|]. rewrite Ho in Hf2. exact (HU a i p1 p f Hab H1 Hi Hf1 Hf2).
  - exact (HU a b p1 p2 f Hab H1 H2 Hf1 Hf2).
Qed.

Lemma sidx_u32 k s x : G k s -> sidx s (u32 x) = sidx s x.
Proof. intros HG. unfold sidx. rewrite (g_cap _ _ HG), (u32_mod_cap k x (g_k _ _ HG)). reflexivity. Qed.

Lemma sidx_lt k s x : G k s -> (sidx s x < length (slots s))%nat.
Proof.
  intros HG. unfold sidx. destruct (cap_bounds k (g_k _ _ HG)) as [[H2 _] _].
  pose proof (g_len _ _ HG). pose proof (g_cap _ _ HG).
  pose proof (Z.mod_pos_bound x (cap s) ltac:(lia)). lia.
Qed.

Lemma slot_exists k s x : G k s -> exists y, nth_error (slots s) (sidx s x) = Some y.
Proof.
  intros HG. pose proof (sidx_lt k s x HG) as H. apply nth_error_Some in H.
  destruct (nth_error (slots s) (sidx s x)); [eauto|congruence].
Qed.

Lemma hist_ok h i r : Forall res_ok h -> (forall x, r = Some x -> res_ok (i, x)) -> Forall res_ok (push_hist h i r).
Proof.
  intros H Hr. destruct r; cbn [push_hist]; auto. apply Forall_app. split; auto.
Qed.

Lemma Owned_keep s l i p p' :
  Owned s l -> nth_error l i = Some p -> (owner_phase p' = owner_phase p \/ owner_phase p = None) -> Owned s (upd l i p').
Proof.
  intros HO Hi Hk a f Hf Ho. destruct (HO a f Hf Ho) as (j & pj & Hj & Hoj).
  destruct (Nat.eq_dec j i) as [->|Hne].
  - rewrite Hi in Hj. inversion Hj; subst pj. exists i, p'. split.
    + apply nth_error_upd_eq. apply nth_error_Some. congruence.
    + destruct Hk as [E|E]; congruence.
  - exists j, pj. split; auto. rewrite nth_error_upd_ne; auto.
Qed.

(* a thread that owns a slot rewrites it (value write, publish, clear, release) *)
Lemma owner_write k c i p p' f_old x' f' r :
  Inv k c -> nth_error (ths c) i = Some p -> owner_phase p = Some f_old ->
  phase_at (sh c) (ticket f_old) = Some f_old ->
  slot_ok (sh c) (sidx (sh c) (ticket f_old)) x' f' ->
  (owner_phase p' = None \/ owner_phase p' = owner_phase p) ->
  (is_owned f' = true -> owner_phase p' = Some f') ->
  tassert (set_slot (sh c) (sidx (sh c) (ticket f_old)) x' f') p' ->
  (forall x, r = Some x -> res_ok (i, x)) ->
  Inv k {| sh := set_slot (sh c) (sidx (sh c) (ticket f_old)) x' f'; ths := upd (ths c) i p'; hist := push_hist (hist c) i r |}.
Proof.
  intros [HG HU HT HH HO] Hi Ho Hph Hok Ho' Hown' Hp' Hr.
  constructor; cbn [sh ths hist].
  - apply G_set_slot; auto. eapply sidx_lt; eauto.
  - eapply Uniq_upd_same; eauto.
  - apply Forall_upd_others; auto. intros j pj Hj Hpj.
    assert (Htj : tassert (sh c) pj) by (rewrite Forall_forall in HT; apply HT; eapply nth_error_In; eauto).
    apply tassert_set_slot; auto.
    eapply (others_elsewhere (sh c) (ths c) i j p pj f_old); eauto.
  - apply hist_ok; auto.
  - intros a f Hf Hof. cbn [set_slot ph] in Hf. apply nth_error_upd_cases in Hf. destruct Hf as [[-> ->]|[Hne Hf]].
    + exists i, p'. split; [apply nth_error_upd_eq; apply nth_error_Some; congruence|auto].
    + destruct (HO a f Hf Hof) as (j & pj & Hj & Hoj). destruct (Nat.eq_dec j i) as [->|Hji].
      * exfalso. rewrite Hi in Hj. inversion Hj; subst pj. rewrite Ho in Hoj. inversion Hoj; subst f_old.
        destruct (slot_exists k (sh c) (ticket f) HG) as [y Hy].
        assert (Hlen : (a < length (slots (sh c)))%nat) by (rewrite <- (g_lph _ _ HG); apply nth_error_Some; congruence).
        apply nth_error_Some in Hlen. destruct (nth_error (slots (sh c)) a) as [xa|] eqn:Exa; [|congruence].
        pose proof (g_slots _ _ HG _ _ _ Exa Hf) as (Hia & _). congruence.
      * exists j, pj. split; auto. rewrite nth_error_upd_ne; auto.
Qed.

(* ------------------------------------------------------------------------------------------- *)
(* Steps that do not change shared state                                                        *)
(* ------------------------------------------------------------------------------------------- *)
Lemma local_step k c i p p' r :
  Inv k c -> nth_error (ths c) i = Some p ->
  owner_phase p' = owner_phase p ->
  tassert (sh c) p' -> (forall x, r = Some x -> res_ok (i, x)) ->
  Inv k {| sh := sh c; ths := upd (ths c) i p'; hist := push_hist (hist c) i r |}.
Proof.
  intros [HG HU HT HH HO] Hi Ho Hp' Hr. constructor; cbn [sh ths hist]; auto.
  - eapply Uniq_upd_same; eauto.
  - apply Forall_upd_others; auto. intros j pj Hj Hpj. rewrite Forall_forall in HT. apply HT. eapply nth_error_In; eauto.
  - apply hist_ok; auto.
  - eapply Owned_keep; eauto.
Qed.

Lemma Uniq_upd_new l i p' f_new :
  Uniq l -> owner_phase p' = Some f_new ->
  (forall j pj, j <> i -> nth_error l j = Some pj -> owner_phase pj <> Some f_new) -> Uniq (upd l i p').
Proof.
  intros HU Ho Hnew a b p1 p2 f Hab H1 H2 Hf1 Hf2.
  apply nth_error_upd_cases in H1. apply nth_error_upd_cases in H2.
  destruct H1 as [[-> ->]|[Ha H1]]; destruct H2 as [[-> ->]|[Hb H2]]; try lia.
  - rewrite Ho in Hf1. inversion Hf1; subst. exact (Hnew b p2 Hb H2 Hf2).
  - rewrite Ho in Hf2. inversion Hf2; subst. exact (Hnew a p1 Ha H1 Hf1).
  - exact (HU a b p1 p2 f Hab H1 H2 Hf1 Hf2).
Qed.

(* what a thread learns from the phase stored at the index of ticket t *)
Lemma phase_facts k s t f : G k s -> phase_at s t = Some f ->
  exists x, slot_at s t = Some x /\ slot_ok s (sidx s t) x f.
Proof.
  intros HG Hf. destruct (slot_exists k s t HG) as [x Hx]. exists x. split; auto.
  apply (g_slots _ _ HG); auto.
Qed.

Lemma same_index_ticket k s a b : G k s -> sidx s a = sidx s b -> - cap s < a - b < cap s -> a = b.
Proof.
  intros HG E Hn. destruct (cap_bounds k (g_k _ _ HG)) as [[H2 _] _]. pose proof (g_cap _ _ HG).
  unfold sidx in E. apply to_nat_mod_inj in E; [|lia]. eapply mod_inj_near; eauto; lia.
Qed.

Lemma sidx_shift k s a : G k s -> sidx s (a + cap s) = sidx s a.
Proof.
  intros HG. destruct (cap_bounds k (g_k _ _ HG)) as [[H2 _] _]. pose proof (g_cap _ _ HG).
  unfold sidx. f_equal. rewrite <- (Z.mul_1_l (cap s)) at 1. apply Z.mod_add. lia.
Qed.

Lemma G_push_cas k s v : G k s -> phase_at s (tl s) = Some (Free (tl s)) -> G k (after_push_cas s v).
Proof.
  intros HG Hfree. destruct (phase_facts k s _ _ HG Hfree) as (x0 & Hx0 & (_ & Hsq0 & Hr0)).
  pose proof HG as [Hk Hc Hl Hlp Hh Hq Hf Hs Hlin]. destruct (cap_bounds k Hk) as [[H2 _] _].
  constructor; cbn [after_push_cas slots hd tl cap q ph lin]; auto.
  - rewrite upd_length; auto.
  - rewrite app_length; cbn [length]. lia.
  - rewrite app_length; cbn [length]. lia.
  - intros i x f Hx Hf'. apply nth_error_upd_cases in Hf'. destruct Hf' as [[-> ->]|[Hne Hf']].
    + unfold slot_at in Hx0. rewrite Hx0 in Hx. inversion Hx; subst x.
      unfold slot_ok, sidx; cbn [after_push_cas cap hd tl q ticket seq_of]. repeat split; auto; lia.
    + pose proof (Hs i x f Hx Hf') as (Hi & Hsq & Hr).
      unfold slot_ok, sidx in *; cbn [after_push_cas cap hd tl q]. repeat split; auto.
      destruct f as [p|p|p|p]; cbn [ticket] in *.
      * assert (p <> tl s) by (intros ->; apply Hne; auto). lia.
      * lia.
      * destruct Hr as [Hr Hv]. split; [lia|]. rewrite app_nth1 by lia. exact Hv.
      * assert (p <> tl s - cap s).
        { intros ->. apply Hne. rewrite <- Hi. symmetry. replace (tl s) with (tl s - cap s + cap s) at 1 by lia.
          apply (sidx_shift k s (tl s - cap s) HG). }
        lia.
  - rewrite replay_app, Hlin. cbn [replay]. destruct (Z.ltb_spec (Z.of_nat (length (q s))) (cap s)); [reflexivity|lia].
Qed.

Lemma tassert_push_cas k s v pj :
  G k s -> phase_at s (tl s) = Some (Free (tl s)) -> tassert s pj ->
  owner_phase pj <> Some (PushOwned (tl s)) -> tassert (after_push_cas s v) pj.
Proof.
  intros HG Hfree Ht Hno. pose proof (g_q _ _ HG) as Hgq.
  assert (Hidx : forall t f, phase_at s t = Some f -> f <> Free (tl s) ->
                  nth_error (upd (ph s) (sidx s (tl s)) (PushOwned (tl s))) (sidx s t) = Some f).
  { intros t f Hf Hne. destruct (Nat.eq_dec (sidx s (tl s)) (sidx s t)) as [E|E].
    - unfold phase_at in *. rewrite <- E, Hfree in Hf. congruence.
    - rewrite nth_error_upd_ne; auto. }
  destruct pj; cbn [tassert] in *; auto; unfold phase_at, slot_at in *;
    cbn [after_push_cas slots hd tl cap q ph]; fold (sidx s).
  - destruct Ht. split; auto. lia.
  - destruct Ht as (? & ? & ? & ?). repeat split; auto; lia.
  - destruct Ht as (? & ? & Hp & Hv). destruct (phase_facts k s _ _ HG Hp) as (x & _ & (_ & _ & Hr)).
    repeat split; auto.
    + apply (Hidx T0); auto. discriminate.
    + rewrite app_nth1 by lia. auto.
  - destruct Ht as (? & ? & Hp & Hv & Hs). destruct (phase_facts k s _ _ HG Hp) as (x & _ & (_ & _ & Hr)).
    repeat split; auto.
    + apply (Hidx T0); auto. discriminate.
    + rewrite app_nth1 by lia. auto.
  - destruct Ht as (? & ? & ? & Himp). repeat split; auto. intros E. apply (Hidx H0); auto. discriminate.
  - destruct Ht as (? & ? & Hp & Hs). repeat split; auto. apply (Hidx H0); auto. discriminate.
  - destruct Ht as (? & ? & Hp & Hs). repeat split; auto. apply (Hidx H0); auto. discriminate.
  - destruct Ht as (? & ? & Hp & Hs). repeat split; auto. apply (Hidx H0); auto. discriminate.
Qed.

Lemma G_pop_cas k s : G k s -> phase_at s (hd s) = Some (Published (hd s)) -> G k (after_pop_cas s).
Proof.
  intros HG Hpub. destruct (phase_facts k s _ _ HG Hpub) as (x0 & Hx0 & (_ & Hsq0 & (Hr0 & Hv0))).
  pose proof HG as [Hk Hc Hl Hlp Hh Hq Hf Hs Hlin]. destruct (cap_bounds k Hk) as [[H2 _] _].
  assert (Hne0 : q s <> []) by (intros E; rewrite E in Hq; cbn [length] in Hq; lia).
  assert (Hlt : length (tail (q s)) = (length (q s) - 1)%nat) by (destruct (q s); cbn [tail length]; lia).
  assert (Hl1 : (1 <= length (q s))%nat) by (destruct (q s); cbn [length]; [congruence|lia]).
  constructor; cbn [after_pop_cas slots hd tl cap q ph lin]; auto.
  - rewrite upd_length; auto.
  - lia.
  - rewrite Hlt. lia.
  - rewrite Hlt. lia.
  - intros i x f Hx Hf'. apply nth_error_upd_cases in Hf'. destruct Hf' as [[-> ->]|[Hne Hf']].
    + unfold slot_at in Hx0. rewrite Hx0 in Hx. inversion Hx; subst x.
      unfold slot_ok, sidx; cbn [after_pop_cas cap hd tl q ticket seq_of]. repeat split; auto; lia.
    + pose proof (Hs i x f Hx Hf') as (Hi & Hsq & Hr).
      unfold slot_ok, sidx in *; cbn [after_pop_cas cap hd tl q]. repeat split; auto.
      destruct f as [p|p|p|p]; cbn [ticket] in *.
      * lia.
      * assert (p <> hd s) by (intros ->; apply Hne; auto). lia.
      * destruct Hr as [Hr Hv]. assert (p <> hd s) by (intros ->; apply Hne; auto). split; [lia|].
        rewrite nth_tail. rewrite Hv. f_equal. f_equal. lia.
      * lia.
  - rewrite replay_app, Hlin. cbn [replay]. destruct (q s) as [|y q'] eqn:Eq; [congruence|]. cbn [nth tail]. rewrite Z.eqb_refl. reflexivity.
Qed.

Lemma tassert_pop_cas k s pj :
  G k s -> phase_at s (hd s) = Some (Published (hd s)) -> tassert s pj -> tassert (after_pop_cas s) pj.
Proof.
  intros HG Hpub Ht. pose proof (g_q _ _ HG) as Hgq.
  assert (Hidx : forall t f, phase_at s t = Some f -> f <> Published (hd s) ->
                  nth_error (upd (ph s) (sidx s (hd s)) (PopOwned (hd s))) (sidx s t) = Some f).
  { intros t f Hf Hne. destruct (Nat.eq_dec (sidx s (hd s)) (sidx s t)) as [E|E].
    - unfold phase_at in *. rewrite <- E, Hpub in Hf. congruence.
    - rewrite nth_error_upd_ne; auto. }
  assert (Hown : forall T0, phase_at s T0 = Some (PushOwned T0) -> hd s < T0 < tl s).
  { intros T0 Hp. destruct (phase_facts k s _ _ HG Hp) as (x & _ & (_ & _ & Hr)).
    assert (T0 <> hd s) by (intros ->; unfold phase_at in *; rewrite Hpub in Hp; discriminate). lia. }
  destruct pj; cbn [tassert] in *; auto; unfold phase_at, slot_at in *;
    cbn [after_pop_cas slots hd tl cap q ph]; fold (sidx s).
  - destruct Ht as (? & ? & ? & Himp). repeat split; auto. intros E. apply (Hidx T0); auto. discriminate.
  - destruct Ht as (? & ? & Hp & Hv). pose proof (Hown T0 Hp). repeat split; auto.
    + apply (Hidx T0); auto. discriminate.
    + rewrite nth_tail, <- Hv. f_equal. lia.
  - destruct Ht as (? & ? & Hp & Hv & Hs). pose proof (Hown T0 Hp). repeat split; auto.
    + apply (Hidx T0); auto. discriminate.
    + rewrite nth_tail, <- Hv. f_equal. lia.
  - destruct Ht. split; auto. lia.
  - destruct Ht as (? & ? & ? & ?). repeat split; auto; lia.
  - destruct Ht as (? & ? & Hp & Hs). repeat split; auto. apply (Hidx H0); auto. discriminate.
  - destruct Ht as (? & ? & Hp & Hs). repeat split; auto. apply (Hidx H0); auto. discriminate.
  - destruct Ht as (? & ? & Hp & Hs). repeat split; auto. apply (Hidx H0); auto. discriminate.
Qed.

(* ------------------------------------------------------------------------------------------- *)
(* What a thread learns when the sequence number it loads matches                                *)
(* ------------------------------------------------------------------------------------------- *)
Lemma phase_exists k s t : G k s -> exists f, phase_at s t = Some f.
Proof.
  intros HG. pose proof (sidx_lt k s t HG) as H. rewrite <- (g_lph _ _ HG) in H. apply nth_error_Some in H.
  unfold phase_at. destruct (nth_error (ph s) (sidx s t)); [eauto|congruence].
Qed.

Lemma learn_push k s x : G k s ->
  slot_at s (tl s) = Some x -> snd x = u32 (tl s) -> phase_at s (tl s) = Some (Free (tl s)).
Proof.
  intros HG Hx Hseq. destruct (phase_exists k s (tl s) HG) as [f Hf]. rewrite Hf. f_equal.
  pose proof (g_slots _ _ HG _ _ _ Hx Hf) as (Hi & Hsq & Hr).
  destruct (cap_bounds k (g_k _ _ HG)) as [[H2 H31] _]. pose proof (g_cap _ _ HG) as Hc.
  pose proof (g_q _ _ HG). pose proof (g_full _ _ HG). pose proof (g_hd _ _ HG).
  assert (HM : M32 = 2 ^ 32) by reflexivity. assert (2 ^ 31 < 2 ^ 32) by (apply Z.pow_lt_mono_r; lia).
  rewrite Hseq in Hsq.
  destruct f as [p|p|p|p]; cbn [ticket seq_of] in *.
  - f_equal. eapply (same_index_ticket k s); eauto. lia.
  - exfalso. apply u32_inj_near in Hsq; lia.
  - exfalso. apply u32_inj_near in Hsq; [|lia]. assert (p = tl s) by (eapply (same_index_ticket k s); eauto; lia). lia.
  - exfalso. apply u32_inj_near in Hsq; [|lia]. assert (p = tl s) by (eapply (same_index_ticket k s); eauto; lia). lia.
Qed.

Lemma learn_pop k s x : G k s ->
  slot_at s (hd s) = Some x -> snd x = u32 (hd s + 1) -> phase_at s (hd s) = Some (Published (hd s)).
Proof.
  intros HG Hx Hseq. destruct (phase_exists k s (hd s) HG) as [f Hf]. rewrite Hf. f_equal.
  pose proof (g_slots _ _ HG _ _ _ Hx Hf) as (Hi & Hsq & Hr).
  destruct (cap_bounds k (g_k _ _ HG)) as [[H2 H31] _]. pose proof (g_cap _ _ HG) as Hc.
  pose proof (g_q _ _ HG). pose proof (g_full _ _ HG). pose proof (g_hd _ _ HG).
  assert (HM : M32 = 2 ^ 32) by reflexivity. assert (2 ^ 31 < 2 ^ 32) by (apply Z.pow_lt_mono_r; lia).
  rewrite Hseq in Hsq.
  destruct f as [p|p|p|p]; cbn [ticket seq_of] in *.
  - exfalso. apply u32_inj_near in Hsq; [|lia]. assert (p = hd s) by (eapply (same_index_ticket k s); eauto; lia). lia.
  - exfalso. apply u32_inj_near in Hsq; [|lia]. assert (p = hd s) by (eapply (same_index_ticket k s); eauto; lia). lia.
  - f_equal. apply u32_inj_near in Hsq; lia.
  - exfalso. apply u32_inj_near in Hsq; lia.
Qed.

Lemma get_assert c k i p : Inv k c -> nth_error (ths c) i = Some p -> tassert (sh c) p.
Proof. intros HI Hi. pose proof (inv_t _ _ HI) as HT. rewrite Forall_forall in HT. apply HT. eapply nth_error_In; eauto. Qed.

Lemma case_loads k c i p o : Inv k c -> nth_error (ths c) i = Some p ->
  match p with Idle | PuLoadTail _ | PoLoadHead | PoRead _ _ _ _ | ObsFirst _ | ObsSecond _ _ => True | _ => False end ->
  exists s' p' r, tstep (sh c) p o = Some (s', p', r) /\ Inv k (next c i s' p' r).
Proof.
  intros HI Hi Hp. pose proof (get_assert c k i p HI Hi) as Ha. pose proof (inv_g _ _ HI) as HG.
  destruct p; try contradiction; cbn [tstep].
  - destruct o; eexists _, _, _; (split; [reflexivity|]); apply local_step with (p := Idle); auto; try exact I; try reflexivity; discriminate.
  - eexists _, _, _. split; [reflexivity|]. eapply local_step; eauto; cbn [tassert owner_phase]; auto; try discriminate. split; auto; lia.
  - eexists _, _, _. split; [reflexivity|]. eapply local_step; eauto; cbn [tassert owner_phase]; auto; try discriminate. split; auto; lia.
  - cbn [tassert] in Ha. destruct Ha as (Hpos & Hseq & Hph & sq & Hs). subst pos.
    unfold slot_at in Hs. rewrite (sidx_u32 k _ _ HG), Hs.
    eexists _, _, _. split; [reflexivity|]. eapply local_step; eauto; cbn [tassert owner_phase]; auto; try discriminate.
  - eexists _, _, _. split; [reflexivity|]. eapply local_step; eauto; cbn [tassert owner_phase]; auto; try discriminate.
  - eexists _, _, _. split; [reflexivity|]. eapply local_step; eauto; cbn [tassert owner_phase]; auto; try discriminate.
    intros x Hx. inversion Hx; subst x. unfold res_ok; cbn [snd].
    assert (Hc : 0 <= cap (sh c)) by (rewrite (g_cap _ _ HG); apply Z.pow_nonneg; lia).
    destruct k0.
    + unfold len_of. cbv zeta. pose proof (Z.mod_pos_bound (a - u32 (hd (sh c))) M32 ltac:(unfold M32; lia)) as Hb.
      change (u32 (a - u32 (hd (sh c)))) with ((a - u32 (hd (sh c))) mod M32).
      destruct (Z.ltb_spec (cap (sh c)) ((a - u32 (hd (sh c))) mod M32)); lia.
    + destruct (a =? u32 (tl (sh c))); auto.
    + destruct (u32 (a - u32 (hd (sh c))) =? cap (sh c)); auto.
Qed.

Lemma case_loadseq k c i p o : Inv k c -> nth_error (ths c) i = Some p ->
  match p with PuLoadSeq _ _ _ | PoLoadSeq _ _ => True | _ => False end ->
  exists s' p' r, tstep (sh c) p o = Some (s', p', r) /\ Inv k (next c i s' p' r).
Proof.
  intros HI Hi Hp. pose proof (get_assert c k i p HI Hi) as Ha. pose proof (inv_g _ _ HI) as HG.
  destruct p; try contradiction; cbn [tstep]; cbn [tassert] in Ha.
  - destruct Ha as (Hpos & HT0). subst pos.
    destruct (slot_exists k (sh c) (u32 T0) HG) as [[xv xs] Hx]. rewrite Hx.
    destruct (Z.eqb_spec (u32 T0) xs) as [E|E].
    + eexists _, _, _. split; [reflexivity|]. eapply local_step; eauto; cbn [tassert owner_phase]; auto; try discriminate.
      repeat split; auto. intros ->. apply (learn_push k (sh c) (xv, xs)); auto.
      unfold slot_at. rewrite <- (sidx_u32 k _ _ HG). exact Hx.
    + eexists _, _, _. split; [reflexivity|]. eapply local_step; eauto; cbn [tassert owner_phase]; auto; try discriminate.
      intros x Hx'. inversion Hx'; subst. exact I.
  - destruct Ha as (Hpos & HH0). subst pos.
    destruct (slot_exists k (sh c) (u32 H0) HG) as [[xv xs] Hx]. rewrite Hx.
    destruct (Z.eqb_spec (u32 (u32 H0 + 1)) xs) as [E|E].
    + eexists _, _, _. split; [reflexivity|]. eapply local_step; eauto; cbn [tassert owner_phase]; auto; try discriminate.
      repeat split; auto. intros ->. apply (learn_pop k (sh c) (xv, xs)); auto.
      * unfold slot_at. rewrite <- (sidx_u32 k _ _ HG). exact Hx.
      * cbn [snd]. rewrite <- E. apply u32_succ.
    + eexists _, _, _. split; [reflexivity|]. eapply local_step; eauto; cbn [tassert owner_phase]; auto; try discriminate.
      intros x Hx'. inversion Hx'; subst. exact I.
Qed.

Lemma case_owner_writes k c i p o : Inv k c -> nth_error (ths c) i = Some p ->
  match p with PuWrite _ _ _ _ | PuPublish _ _ _ _ | PoClear _ _ _ _ _ | PoRelease _ _ _ _ _ => True | _ => False end ->
  exists s' p' r, tstep (sh c) p o = Some (s', p', r) /\ Inv k (next c i s' p' r).
Proof.
  intros HI Hi Hp. pose proof (get_assert c k i p HI Hi) as Ha. pose proof (inv_g _ _ HI) as HG.
  destruct p; try contradiction; cbn [tstep]; cbn [tassert] in Ha.
  - (* PuWrite *)
    destruct Ha as (Hpos & Hseq & Hph & Hv). subst pos.
    destruct (phase_facts k _ _ _ HG Hph) as ([xv xs] & Hx & (Hi0 & Hsq & Hr)). cbn [ticket] in Hi0.
    unfold slot_at in Hx. rewrite (sidx_u32 k _ _ HG), Hx.
    eexists _, _, _. split; [reflexivity|].
    unfold next. eapply (owner_write k c i _ (PuPublish v (u32 T0) seq T0) (PushOwned T0) (Some v, xs) (PushOwned T0) None); eauto.
    all: try discriminate.
    + unfold slot_ok; cbn [ticket seq_of snd]. auto.
    + cbn [tassert]. unfold phase_at, slot_at; cbn [set_slot ph slots hd q cap ticket]. unfold sidx; cbn [set_slot cap]. fold (sidx (sh c) T0).
      pose proof (sidx_lt k _ T0 HG). repeat split; auto.
      * rewrite nth_error_upd_eq; auto. rewrite (g_lph _ _ HG); auto.
      * exists xs. rewrite nth_error_upd_eq; auto.
  - (* PuPublish *)
    destruct Ha as (Hpos & Hseq & Hph & Hv & sq & Hs). subst pos seq.
    destruct (phase_facts k _ _ _ HG Hph) as (x & Hx & (Hi0 & Hsq & Hr)). cbn [ticket] in Hi0.
    rewrite Hs in Hx. inversion Hx; subst x. unfold slot_at in Hs. rewrite (sidx_u32 k _ _ HG), Hs.
    eexists _, _, _. split; [reflexivity|].
    unfold next. eapply (owner_write k c i _ Idle (PushOwned T0) (Some v, u32 (u32 T0 + 1)) (Published T0) (Some (RPush true))); eauto.
    all: try discriminate. all: try exact I.
    + unfold slot_ok; cbn [ticket seq_of snd fst]. repeat split; auto; try lia. apply u32_succ. congruence.
    + intros x Hx'. inversion Hx'; subst. exact I.
  - (* PoClear *)
    destruct Ha as (Hpos & Hseq & Hph & Hval). subst pos.
    destruct (phase_facts k _ _ _ HG Hph) as ([xv xs] & Hx & (Hi0 & Hsq & Hr)). cbn [ticket] in Hi0.
    unfold slot_at in Hx. rewrite (sidx_u32 k _ _ HG), Hx.
    eexists _, _, _. split; [reflexivity|].
    unfold next. eapply (owner_write k c i _ (PoRelease (u32 H0) seq H0 gv val) (PopOwned H0) (None, xs) (PopOwned H0) None); eauto.
    all: try discriminate.
    + unfold slot_ok; cbn [ticket seq_of snd]. auto.
    + cbn [tassert]. unfold phase_at; cbn [set_slot ph slots hd q cap ticket]. unfold sidx; cbn [set_slot cap]. fold (sidx (sh c) H0).
      pose proof (sidx_lt k _ H0 HG). repeat split; auto.
      rewrite nth_error_upd_eq; auto. rewrite (g_lph _ _ HG); auto.
  - (* PoRelease *)
    destruct Ha as (Hpos & Hseq & Hph & Hval). subst pos seq.
    destruct (phase_facts k _ _ _ HG Hph) as ([xv xs] & Hx & (Hi0 & Hsq & Hr)). cbn [ticket] in Hi0.
    unfold slot_at in Hx. rewrite (sidx_u32 k _ _ HG), Hx.
    eexists _, _, _. split; [reflexivity|].
    unfold next. eapply (owner_write k c i _ Idle (PopOwned H0) (xv, u32 (u32 (H0 + 1) + (cap (sh c) - 1))) (Free (H0 + cap (sh c))) (Some (RPop val (Some gv)))); eauto.
    all: try discriminate. all: try exact I.
    + unfold slot_ok; cbn [ticket seq_of snd]. repeat split.
      * apply (sidx_shift k _ _ HG).
      * rewrite u32_add_l. f_equal. lia.
      * lia.
      * lia.
    + intros x Hx'. inversion Hx'; subst. cbn. reflexivity.
Qed.

Lemma owner_pins s pj f : tassert s pj -> owner_phase pj = Some f -> phase_at s (ticket f) = Some f.
Proof.
  intros Ht Ho. apply (pinned_holds s pj f Ht).
  destruct pj; cbn [owner_phase pinned] in *; try discriminate; auto.
Qed.

Lemma Owned_new_owner (s s' : shared) l i p p' i0 f' :
  Owned s l -> nth_error l i = Some p -> owner_phase p = None -> owner_phase p' = Some f' ->
  ph s' = upd (ph s) i0 f' -> Owned s' (upd l i p').
Proof.
  intros HO Hi Hnone Hown Hph a f Hf Hof. rewrite Hph in Hf. apply nth_error_upd_cases in Hf. destruct Hf as [[-> ->]|[Hne Hf]].
  - exists i, p'. split; [apply nth_error_upd_eq; apply nth_error_Some; congruence|exact Hown].
  - destruct (HO a f Hf Hof) as (j & pj & Hj & Hoj). destruct (Nat.eq_dec j i) as [->|Hji].
    + rewrite Hi in Hj. inversion Hj; subst pj. congruence.
    + exists j, pj. split; auto. rewrite nth_error_upd_ne; auto.
Qed.

Lemma case_cas k c i p o : Inv k c -> nth_error (ths c) i = Some p -> fresh_ok c i ->
  match p with PuCas _ _ _ _ | PoCas _ _ _ => True | _ => False end ->
  exists s' p' r, tstep (sh c) p o = Some (s', p', r) /\ Inv k (next c i s' p' r).
Proof.
  intros HI Hi Hfr Hp. pose proof (get_assert c k i p HI Hi) as Ha. pose proof (inv_g _ _ HI) as HG.
  unfold fresh_ok in Hfr. rewrite Hi in Hfr.
  pose proof (g_q _ _ HG) as Hgq. pose proof (g_hd _ _ HG) as Hgh.
  assert (HM : 0 < M32) by (unfold M32; lia).
  destruct p; try contradiction; cbn [tstep]; cbn [tassert] in Ha.
  - (* PuCas *)
    destruct Ha as (Hpos & HT0 & Hseq & Himp). subst pos seq.
    destruct (Z.eqb_spec (u32 (tl (sh c))) (u32 T0)) as [E|E].
    + apply u32_inj_near in E; [|lia]. subst T0. specialize (Himp eq_refl).
      rewrite (sidx_u32 k _ _ HG).
      eexists _, _, _. split; [reflexivity|]. fold (after_push_cas (sh c) v). unfold next.
      destruct HI as [_ HU HT HH HO]. constructor; cbn [sh ths hist push_hist]; auto.
      * apply G_push_cas; auto.
      * eapply Uniq_upd_new; eauto; [reflexivity|]. intros j pj Hj Hpj Ho.
        assert (Htj : tassert (sh c) pj) by (rewrite Forall_forall in HT; apply HT; eapply nth_error_In; eauto).
        pose proof (owner_pins _ _ _ Htj Ho) as Hpin. cbn [ticket] in Hpin. rewrite Himp in Hpin. discriminate.
      * apply Forall_upd_others.
        -- intros j pj Hj Hpj.
           assert (Htj : tassert (sh c) pj) by (rewrite Forall_forall in HT; apply HT; eapply nth_error_In; eauto).
           apply (tassert_push_cas k); auto. intros Ho.
           pose proof (owner_pins _ _ _ Htj Ho) as Hpin. cbn [ticket] in Hpin. rewrite Himp in Hpin. discriminate.
        -- cbn [tassert]. unfold phase_at; cbn [after_push_cas ph hd q cap]. unfold sidx at 1; cbn [after_push_cas cap].
           fold (sidx (sh c) (tl (sh c))). pose proof (sidx_lt k _ (tl (sh c)) HG).
           repeat split; auto.
           ++ rewrite nth_error_upd_eq; auto. rewrite (g_lph _ _ HG); auto.
           ++ rewrite app_nth2 by lia. replace (Z.to_nat (tl (sh c) - hd (sh c)) - length (q (sh c)))%nat with 0%nat by lia. reflexivity.
      * eapply (Owned_new_owner (sh c)); eauto; reflexivity.
    + eexists _, _, _. split; [reflexivity|]. eapply local_step; eauto; cbn [tassert owner_phase]; auto.
      intros x Hx'. inversion Hx'; subst. exact I.
  - (* PoCas *)
    destruct Ha as (Hpos & HH0 & Hseq & Himp). subst pos.
    destruct (Z.eqb_spec (u32 (hd (sh c))) (u32 H0)) as [E|E].
    + apply u32_inj_near in E; [|lia]. subst H0. specialize (Himp eq_refl).
      destruct (phase_facts k _ _ _ HG Himp) as ([xv xs] & Hx & (_ & Hsq & (Hr & Hv))). cbn [fst snd seq_of] in *.
      rewrite (sidx_u32 k _ _ HG).
      eexists _, _, _. split; [reflexivity|]. fold (after_pop_cas (sh c)). unfold next.
      destruct HI as [_ HU HT HH HO]. constructor; cbn [sh ths hist push_hist]; auto.
      * apply G_pop_cas; auto.
      * eapply Uniq_upd_new; eauto; [reflexivity|]. intros j pj Hj Hpj Ho.
        assert (Htj : tassert (sh c) pj) by (rewrite Forall_forall in HT; apply HT; eapply nth_error_In; eauto).
        pose proof (owner_pins _ _ _ Htj Ho) as Hpin. cbn [ticket] in Hpin. rewrite Himp in Hpin. discriminate.
      * apply Forall_upd_others.
        -- intros j pj Hj Hpj.
           assert (Htj : tassert (sh c) pj) by (rewrite Forall_forall in HT; apply HT; eapply nth_error_In; eauto).
           apply (tassert_pop_cas k); auto.
        -- cbn [tassert]. unfold phase_at, slot_at; cbn [after_pop_cas ph slots hd q cap]. unfold sidx; cbn [after_pop_cas cap].
           fold (sidx (sh c) (hd (sh c))). pose proof (sidx_lt k _ (hd (sh c)) HG).
           repeat split; auto.
           ++ rewrite Hseq. apply u32_succ.
           ++ rewrite nth_error_upd_eq; auto. rewrite (g_lph _ _ HG); auto.
           ++ exists xs. unfold slot_at in Hx. rewrite Hx. f_equal. f_equal. rewrite Hv. f_equal. f_equal. lia.
      * eapply (Owned_new_owner (sh c)); eauto; reflexivity.
    + eexists _, _, _. split; [reflexivity|]. eapply local_step; eauto; cbn [tassert owner_phase]; auto.
      intros x Hx'. inversion Hx'; subst. exact I.
Qed.

Theorem step_inv k c e : Inv k c -> fresh_ok c (fst e) -> exists c', step c e = Some c' /\ Inv k c'.
Proof.
  destruct e as [i o]. cbn [fst]. intros HI Hfr. unfold step.
  destruct (nth_error (ths c) i) as [p|] eqn:Hi; [|exists c; auto].
  assert (H : exists s' p' r, tstep (sh c) p o = Some (s', p', r) /\ Inv k (next c i s' p' r)).
  { destruct p.
    - apply case_loads; auto.
    - apply case_loads; auto.
    - apply case_loadseq; auto.
    - apply case_cas; auto.
    - apply case_owner_writes; auto.
    - apply case_owner_writes; auto.
    - apply case_loads; auto.
    - apply case_loadseq; auto.
    - apply case_cas; auto.
    - apply case_loads; auto.
    - apply case_owner_writes; auto.
    - apply case_owner_writes; auto.
    - apply case_loads; auto.
    - apply case_loads; auto. }
  destruct H as (s' & p' & r & E & HI'). rewrite E. eexists. split; [reflexivity|]. exact HI'.
Qed.

Theorem run_inv k : forall sched c, Inv k c -> fresh_run c sched -> exists c', run c sched = Some c' /\ Inv k c'.
Proof.
  induction sched as [|e t IH]; intros c HI HF; cbn [run fresh_run] in *.
  - eauto.
  - destruct HF as [Hf HF]. destruct (step_inv k c e HI Hf) as (c1 & E & HI1). rewrite E in *. apply IH; auto.
Qed.

(* ---- initial state ---- *)
Lemma nth_error_map_seq {A} (f : nat -> A) n i : (i < n)%nat -> nth_error (map f (seq 0 n)) i = Some (f i).
Proof.
  intros H. rewrite nth_error_map. rewrite (nth_error_nth' _ 0%nat) by (rewrite seq_length; auto).
  rewrite seq_nth by auto. reflexivity.
Qed.

Lemma init_inv k n : 1 <= k <= 31 -> Inv k (init k n).
Proof.
  intros Hk. destruct (cap_bounds k Hk) as [[H2 H31] _].
  assert (2 ^ 31 < 2 ^ 32) by (apply Z.pow_lt_mono_r; lia).
  constructor; cbn [init sh ths hist].
  - constructor; cbn [slots ph hd tl cap q length]; auto; try lia.
    + rewrite map_length, seq_length. lia.
    + rewrite !map_length. reflexivity.
    + intros i x f Hx Hf.
      assert (Hi : (i < Z.to_nat (2 ^ k))%nat).
      { assert (Hn : nth_error (map (fun i : nat => Free (Z.of_nat i)) (seq 0 (Z.to_nat (2 ^ k)))) i <> None) by congruence.
        apply nth_error_Some in Hn. rewrite map_length, seq_length in Hn. exact Hn. }
      rewrite nth_error_map_seq in Hx by auto. rewrite nth_error_map_seq in Hf by auto. inversion Hx; inversion Hf; subst.
      unfold slot_ok, sidx; cbn [ticket seq_of snd cap hd tl]. repeat split; try lia.
      * rewrite Z.mod_small by lia. lia.
      * unfold u32, M32. rewrite Z.mod_small by lia. reflexivity.
  - intros a b p1 p2 f _ Ha _ Ho. apply nth_error_In, repeat_spec in Ha. subst. discriminate.
  - apply Forall_forall. intros p Hp. apply repeat_spec in Hp. subst. exact I.
  - constructor.
  - intros a f Hf Hof. cbn [init sh ph] in Hf.
    assert (Ha : (a < Z.to_nat (2 ^ k))%nat).
    { assert (Hn : nth_error (map (fun i : nat => Free (Z.of_nat i)) (seq 0 (Z.to_nat (2 ^ k)))) a <> None) by congruence.
      apply nth_error_Some in Hn. rewrite map_length, seq_length in Hn. exact Hn. }
    rewrite nth_error_map_seq in Hf by auto. inversion Hf; subst. discriminate.
Qed.

(* ---- what the invariant gives at the interface, for any thread count and any fresh schedule ---- *)
Theorem syncring_safe k n sched c :
  1 <= k <= 31 -> fresh_run (init k n) sched -> run (init k n) sched = Some c ->
  (* the element count is the ticket difference, never negative, never above capacity *)
  0 <= tl (sh c) - hd (sh c) <= 2 ^ k /\ Z.of_nat (length (q (sh c))) = tl (sh c) - hd (sh c) /\
  (* every successful Pop returned exactly the value that was at the head of the abstract FIFO
     at its linearisation point (its successful CAS on head) *)
  (forall i v g, In (i, RPop v (Some g)) (hist c) -> v = Some g).
Proof.
  intros Hk HF HR. destruct (run_inv k sched (init k n) (init_inv k n Hk) HF) as (c' & E & HI).
  rewrite HR in E. inversion E; subst c'. destruct HI as [HG _ _ HH _].
  pose proof (g_q _ _ HG). pose proof (g_full _ _ HG). pose proof (g_cap _ _ HG).
  repeat split; try lia.
  intros i v g Hin. rewrite Forall_forall in HH. apply (HH _ Hin).
Qed.

(* the run never panics (no index out of range), for any thread count and any fresh schedule *)
Theorem syncring_no_panic k n sched : 1 <= k <= 31 -> fresh_run (init k n) sched -> run (init k n) sched <> None.
Proof.
  intros Hk HF. destruct (run_inv k sched (init k n) (init_inv k n Hk) HF) as (c' & E & _). congruence.
Qed.
Print Assumptions syncring_safe.
Print Assumptions syncring_no_panic.

(* ------------------------------------------------------------------------------------------- *)
(* Linearizability in refinement form, race freedom, Len                                        *)
(* ------------------------------------------------------------------------------------------- *)
Theorem syncring_linearizable k n sched c :
  1 <= k <= 31 -> fresh_run (init k n) sched -> run (init k n) sched = Some c ->
  (* the operations, ordered by their linearisation points (each LP is a step of the operation itself),
     form a legal run of a FIFO of capacity 2^k that ends in the abstract content q *)
  replay (2 ^ k) (lin (sh c)) [] = Some (q (sh c)) /\
  (* and every successful Pop hands back the value the log recorded for it *)
  (forall i v g, In (i, RPop v (Some g)) (hist c) -> v = Some g).
Proof.
  intros Hk HF HR. destruct (run_inv k sched (init k n) (init_inv k n Hk) HF) as (c' & E & HI).
  rewrite HR in E. inversion E; subst c'. destruct HI as [HG _ _ HH _].
  split.
  - rewrite <- (g_cap _ _ HG). apply (g_lin _ _ HG).
  - intros i v g Hin. rewrite Forall_forall in HH. apply (HH _ Hin).
Qed.

Lemma plain_access_owner k s p a w : G k s -> tassert s p -> plain_access s p = Some (a, w) ->
  exists f, owner_phase p = Some f /\ sidx s (ticket f) = a.
Proof.
  intros HG Ht Ha. destruct p; cbn [plain_access owner_phase tassert] in *; try discriminate;
    inversion Ha; subst; destruct Ht as (-> & _); eexists; (split; [reflexivity|]); cbn [ticket]; symmetry; apply (sidx_u32 k _ _ HG).
Qed.

Theorem race_free k c : Inv k c -> ~ race c.
Proof.
  intros [HG HU HT _ _] (i & j & pi & pj & a & wi & wj & Hij & Hi & Hj & Ai & Aj & _).
  assert (Hti : tassert (sh c) pi) by (rewrite Forall_forall in HT; apply HT; eapply nth_error_In; eauto).
  assert (Htj : tassert (sh c) pj) by (rewrite Forall_forall in HT; apply HT; eapply nth_error_In; eauto).
  destruct (plain_access_owner k _ _ _ _ HG Hti Ai) as (fi & Hoi & Hai).
  destruct (plain_access_owner k _ _ _ _ HG Htj Aj) as (fj & Hoj & Haj).
  pose proof (owner_pins _ _ _ Hti Hoi) as Pi. pose proof (owner_pins _ _ _ Htj Hoj) as Pj.
  unfold phase_at in Pi, Pj. rewrite Hai in Pi. rewrite Haj in Pj. rewrite Pi in Pj. inversion Pj; subst fj.
  exact (HU i j pi pj fi Hij Hi Hj Hoi Hoj).
Qed.
Lemma len_in_range t h c : 0 <= c -> 0 <= len_of t h c <= c.
Proof.
  intros Hc. unfold len_of. pose proof (Z.mod_pos_bound (t - h) M32 ltac:(unfold M32; lia)). unfold u32.
  destruct (Z.ltb_spec c ((t - h) mod M32)); lia.
Qed.
Lemma len_exact k s : G k s -> len_of (u32 (tl s)) (u32 (hd s)) (cap s) = Z.of_nat (length (q s)).
Proof.
  intros HG. destruct (cap_bounds k (g_k _ _ HG)) as [[H2 H31] _].
  pose proof (g_q _ _ HG). pose proof (g_full _ _ HG). pose proof (g_cap _ _ HG).
  assert (2 ^ 31 < 2 ^ 32) by (apply Z.pow_lt_mono_r; lia).
  unfold len_of. assert (E : u32 (u32 (tl s) - u32 (hd s)) = Z.of_nat (length (q s))).
  { unfold u32. rewrite <- Zminus_mod. replace (tl s - hd s) with (Z.of_nat (length (q s))) by lia.
    apply Z.mod_small. unfold M32. lia. }
  rewrite E. destruct (Z.ltb_spec (cap s) (Z.of_nat (length (q s)))); lia.
Qed.
Print Assumptions syncring_linearizable.
Print Assumptions race_free.

(* ------------------------------------------------------------------------------------------- *)
(* "returns false only if the ring was full (empty) ... or another operation overlapped it"      *)
(* solo form: with every other thread idle, the sequence check of Push passes iff the ring is    *)
(* not full, that of Pop iff it is not empty (and the CAS that follows cannot fail: nobody moves) *)
(* ------------------------------------------------------------------------------------------- *)
Lemma quiescent_unowned k c : Inv k c -> Forall (fun p => p = Idle) (ths c) ->
  forall i f, nth_error (ph (sh c)) i = Some f -> is_owned f = false.
Proof.
  intros HI Hidle i f Hf. destruct (is_owned f) eqn:E; auto.
  destruct (inv_o _ _ HI i f Hf E) as (j & pj & Hj & Ho).
  rewrite Forall_forall in Hidle. rewrite (Hidle pj (nth_error_In _ _ Hj)) in Ho. discriminate.
Qed.

Theorem solo_push_check k s : G k s -> (forall i f, nth_error (ph s) i = Some f -> is_owned f = false) ->
  forall x, slot_at s (tl s) = Some x -> (snd x = u32 (tl s) <-> Z.of_nat (length (q s)) < cap s).
Proof.
  intros HG Hun x Hx. destruct (phase_exists k s (tl s) HG) as [f Hf].
  pose proof (g_slots _ _ HG _ _ _ Hx Hf) as (Hi & Hsq & Hr).
  pose proof (Hun _ _ Hf) as Hno.
  destruct (cap_bounds k (g_k _ _ HG)) as [[H2 H31] _]. pose proof (g_cap _ _ HG) as Hc.
  pose proof (g_q _ _ HG). pose proof (g_full _ _ HG). pose proof (g_hd _ _ HG).
  assert (HM : M32 = 2 ^ 32) by reflexivity. assert (2 ^ 31 < 2 ^ 32) by (apply Z.pow_lt_mono_r; lia).
  destruct f as [p|p|p|p]; cbn [is_owned ticket seq_of] in *; try discriminate.
  - (* Free p: the ring is not full *)
    assert (p = tl s) by (eapply (same_index_ticket k s); eauto; lia). subst p. rewrite Hsq. split; intros _; [lia|reflexivity].
  - (* Published p: only possible when full *)
    destruct Hr as [Hr Hv]. split.
    + intros E. rewrite Hsq in E. apply u32_inj_near in E; [|lia].
      assert (p = tl s) by (eapply (same_index_ticket k s); eauto; lia). lia.
    + intros Hlt. exfalso. assert (p = tl s) by (eapply (same_index_ticket k s); eauto; lia). lia.
Qed.

Theorem solo_pop_check k s : G k s -> (forall i f, nth_error (ph s) i = Some f -> is_owned f = false) ->
  forall x, slot_at s (hd s) = Some x -> (snd x = u32 (hd s + 1) <-> q s <> []).
Proof.
  intros HG Hun x Hx. destruct (phase_exists k s (hd s) HG) as [f Hf].
  pose proof (g_slots _ _ HG _ _ _ Hx Hf) as (Hi & Hsq & Hr).
  pose proof (Hun _ _ Hf) as Hno.
  destruct (cap_bounds k (g_k _ _ HG)) as [[H2 H31] _]. pose proof (g_cap _ _ HG) as Hc.
  pose proof (g_q _ _ HG). pose proof (g_full _ _ HG). pose proof (g_hd _ _ HG).
  assert (HM : M32 = 2 ^ 32) by reflexivity. assert (2 ^ 31 < 2 ^ 32) by (apply Z.pow_lt_mono_r; lia).
  assert (Hlen : q s <> [] <-> 0 < Z.of_nat (length (q s))) by (destruct (q s); cbn [length]; split; intros; try congruence; lia).
  destruct f as [p|p|p|p]; cbn [is_owned ticket seq_of] in *; try discriminate.
  - (* Free p: only possible when empty *)
    split.
    + intros E. rewrite Hsq in E. apply u32_inj_near in E; [|lia].
      assert (p = hd s) by (eapply (same_index_ticket k s); eauto; lia). lia.
    + intros Hne. apply Hlen in Hne. exfalso. assert (p = hd s) by (eapply (same_index_ticket k s); eauto; lia). lia.
  - (* Published p = hd: not empty *)
    destruct Hr as [Hr Hv]. assert (p = hd s) by (eapply (same_index_ticket k s); eauto; lia). subst p.
    rewrite Hsq. split; intros _; [apply Hlen; lia|reflexivity].
Qed.
Print Assumptions solo_push_check.
Print Assumptions solo_pop_check.

Lemma Forall_upd {A} (P : A -> Prop) l i x : Forall P l -> P x -> Forall P (upd l i x).
Proof. intros H; revert i; induction H as [|a l Ha Hl IH]; intros [|i] Hx; cbn [upd]; constructor; auto. Qed.

Lemma progress_step k c0 c e c' :
  Inv k c0 -> Forall (fun p => p = Idle) (ths c0) -> Z.of_nat (length (q (sh c0))) < cap (sh c0) ->
  (exists v, snd e = OpPush v) -> step c e = Some c' ->
  (phaseA c0 c -> phaseA c0 c' \/ phaseB c') /\ (phaseB c -> phaseB c').
Proof.
  intros HI0 Hidle Hroom (v0 & Hv0) Hs. destruct e as [i o]. cbn [snd] in Hv0. subst o. unfold step in Hs.
  destruct (nth_error (ths c) i) as [p|] eqn:Hi; [|inversion Hs; subst; tauto].
  destruct (tstep (sh c) p (OpPush v0)) as [[[s' p'] r]|] eqn:Et; [|discriminate]. inversion Hs; subst c'; clear Hs.
  split.
  - (* from phase A *)
    intros (Hsh & Hh & Hall). pose proof HI0 as [HG0 _ _ _ _].
    assert (Hp : p = Idle \/ (exists v, p = PuLoadTail v) \/ (exists v, p = PuLoadSeq v (u32 (tl (sh c0))) (tl (sh c0))) \/
                 (exists v, p = PuCas v (u32 (tl (sh c0))) (u32 (tl (sh c0))) (tl (sh c0))))
      by (rewrite Forall_forall in Hall; apply Hall; eapply nth_error_In; eauto).
    destruct Hp as [->|[(v & ->)|[(v & ->)|(v & ->)]]]; cbn [tstep] in Et.
    + inversion Et; subst. left. repeat split; cbn [sh hist ths]; auto. apply Forall_upd; auto. right; left; eauto.
    + inversion Et; subst. left. repeat split; cbn [sh hist ths]; auto. apply Forall_upd; auto. rewrite Hsh. right; right; left; eauto.
    + (* the sequence check passes: the ring is not full and nobody owns anything *)
      rewrite Hsh in Et. destruct (slot_exists k (sh c0) (u32 (tl (sh c0))) HG0) as [[xv xs] Hx]. rewrite Hx in Et.
      assert (Hxs : xs = u32 (tl (sh c0))).
      { apply (proj2 (solo_push_check k (sh c0) HG0 (quiescent_unowned k c0 HI0 Hidle) (xv, xs)
                       ltac:(unfold slot_at; rewrite <- (sidx_u32 k _ _ HG0); exact Hx)) Hroom). }
      subst xs. rewrite Z.eqb_refl in Et. inversion Et; subst. left. repeat split; cbn [sh hist ths]; auto.
      apply Forall_upd; auto. right; right; right; eauto.
    + (* the CAS succeeds: the tail has not moved *)
      rewrite Hsh, Z.eqb_refl in Et. inversion Et; subst. right. left. exists i. do 4 eexists. left.
      cbn [ths]. apply nth_error_upd_eq. apply nth_error_Some. congruence.
  - (* phase B persists *)
    intros [(j & v & pos & seq & T0 & Hj)|(j & Hj)].
    + destruct (Nat.eq_dec j i) as [->|Hne].
      * rewrite Hi in Hj. destruct Hj as [Hj|Hj]; inversion Hj; subst p; cbn [tstep] in Et.
        -- destruct (nth_error (slots (sh c)) (sidx (sh c) pos)) as [[? ?]|]; [|discriminate]. inversion Et; subst.
           left. exists i. do 4 eexists. right. cbn [ths]. apply nth_error_upd_eq. apply nth_error_Some. congruence.
        -- destruct (nth_error (slots (sh c)) (sidx (sh c) pos)) as [[? ?]|]; [|discriminate]. inversion Et; subst.
           right. exists i. cbn [hist]. apply in_app_iff. right. left. reflexivity.
      * left. exists j, v, pos, seq, T0. cbn [ths]. rewrite nth_error_upd_ne by auto. exact Hj.
    + right. exists j. cbn [hist]. destruct r; [apply in_app_iff; left; exact Hj|exact Hj].
Qed.

Theorem pushers_progress k c0 : Inv k c0 -> Forall (fun p => p = Idle) (ths c0) -> Z.of_nat (length (q (sh c0))) < cap (sh c0) ->
  forall sched c, only_push sched -> run c0 sched = Some c ->
  (* some push has returned ... *) hist c <> hist c0 ->
  (* ... and everybody is done *) Forall (fun p => p = Idle) (ths c) ->
  exists j, In (j, RPush true) (hist c).
Proof.
  intros HI0 Hidle Hroom sched c Honly Hrun Hdone Hquiet.
  assert (G : forall sched c1 c2, only_push sched -> run c1 sched = Some c2 ->
              (phaseA c0 c1 -> phaseA c0 c2 \/ phaseB c2) /\ (phaseB c1 -> phaseB c2)).
  { induction sched0 as [|e t IH]; intros c1 c2 Ho Hr; cbn [run] in Hr.
    - inversion Hr; subst. tauto.
    - inversion Ho as [|? ? He Ht]; subst. destruct (step c1 e) as [cm|] eqn:Es; [|discriminate].
      destruct (progress_step k c0 c1 e cm HI0 Hidle Hroom He Es) as [SA SB].
      destruct (IH cm c2 Ht Hr) as [IA IB]. split.
      + intros HA. destruct (SA HA) as [HA'|HB']; [apply IA; auto|right; apply IB; auto].
      + intros HB. apply IB, SB, HB. }
  destruct (G sched c0 c Honly Hrun) as [GA _].
  assert (HA0 : phaseA c0 c0).
  { repeat split; auto. eapply Forall_impl; [|exact Hidle]. cbn beta. intros p ->. left; reflexivity. }
  destruct (GA HA0) as [(Hsh & Hh & _)|HB]; [congruence|].
  destruct HB as [(j & v & pos & seq & T0 & Hj)|HB]; [|exact HB].
  exfalso. rewrite Forall_forall in Hquiet. destruct Hj as [Hj|Hj]; apply nth_error_In in Hj; apply Hquiet in Hj; discriminate.
Qed.
Print Assumptions pushers_progress.
