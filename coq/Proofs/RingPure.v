(* C10 — ringz.Ring: the index arithmetic of Push/Pop/Len/Recap/PushWithExpand on the *pure* (total) reading of
   the code (no panics, mathematical `mod`), and its refinement to a queue: Inv r q says buffer r holds queue q.
   From design-notes/proto/Ring_plain_proto.v and RingRecap_proto.v.  Proofs/RingSeq.v shows that under Inv the
   checked model of Model/RingSeq.v (Go's `%`, checked indices and slices) takes exactly these steps. *)
From Coq Require Import List ZArith Lia Bool Arith.
From V Require Import Model.RingSeq.
Import ListNotations.
Local Open Scope Z_scope.
Arguments Z.add : simpl never.
Arguments Z.sub : simpl never.
Arguments Z.mul : simpl never.
Arguments Z.modulo : simpl never.
Arguments Z.of_nat : simpl never.
Arguments Z.to_nat : simpl never.

Module Pure.

Lemma upd_length l i x : length (upd l i x) = length l.
Proof. revert i; induction l as [|a l IH]; intros [|i]; cbn [upd length]; auto. Qed.
Lemma nth_upd l i j x : (i < length l)%nat -> nth j (upd l i x) 0 = if Nat.eqb j i then x else nth j l 0.
Proof.
  revert i j; induction l as [|a l IH]; intros [|i] [|j] H; cbn [upd nth length Nat.eqb] in *; try lia; auto. apply IH; lia.
Qed.

Definition is_empty (r : ring) : bool := head r =? -1.
Definition is_full (r : ring) : bool := (tail r + 1) mod cap r =? head r.

Definition push (r : ring) (v : Z) : ring * bool :=
  if is_full r then (r, false)
  else let h := if is_empty r then 0 else head r in
       let t := (tail r + 1) mod cap r in
       ({| vals := upd (vals r) (Z.to_nat t) v; head := h; tail := t; cap := cap r |}, true).

Definition pop (r : ring) : ring * option Z :=
  if is_empty r then (r, None)
  else let v := nth (Z.to_nat (head r)) (vals r) 0 in
       let vals' := upd (vals r) (Z.to_nat (head r)) 0 in
       if head r =? tail r
       then ({| vals := vals'; head := -1; tail := -1; cap := cap r |}, Some v)
       else ({| vals := vals'; head := (head r + 1) mod cap r; tail := tail r; cap := cap r |}, Some v).

Definition len (r : ring) : Z :=
  if is_empty r then 0 else if head r <=? tail r then tail r - head r + 1 else cap r - head r + tail r + 1.

(* ---- invariant relating the buffer to the queue it holds ---- *)
Definition Inv (r : ring) (q : list Z) : Prop :=
  0 < cap r /\ Z.of_nat (length (vals r)) = cap r /\ Z.of_nat (length q) <= cap r /\
  match q with
  | [] => head r = -1 /\ tail r = -1
  | _ => 0 <= head r < cap r /\ tail r = (head r + Z.of_nat (length q) - 1) mod cap r /\
         forall j, (j < length q)%nat -> nth (Z.to_nat ((head r + Z.of_nat j) mod cap r)) (vals r) 0 = nth j q 0
  end.

Lemma mod_small_shift a c : 0 < c -> c <= a < 2 * c -> a mod c = a - c.
Proof. intros Hc Ha. symmetry. apply (Z.mod_unique a c 1); lia. Qed.

Lemma full_iff r q : Inv r q -> (is_full r = true <-> Z.of_nat (length q) = cap r).
Proof.
  intros (Hc & Hl & Hq & Hm). unfold is_full. destruct q as [|x q].
  - destruct Hm as [-> ->]. cbn [length]. replace (-1 + 1) with 0 by lia. rewrite Z.mod_0_l by lia.
    split; [intros H; apply Z.eqb_eq in H; lia|cbn; lia].
  - destruct Hm as (Hh & Ht & _). rewrite Ht. set (n := Z.of_nat (length (x :: q))) in *.
    assert (Hn : 1 <= n <= cap r) by (unfold n in *; cbn [length] in *; lia).
    rewrite Zplus_mod_idemp_l. replace (head r + n - 1 + 1) with (head r + n) by lia.
    split; intros H.
    + apply Z.eqb_eq in H. destruct (Z_lt_le_dec (head r + n) (cap r)) as [Hlt|Hge].
      * rewrite Z.mod_small in H by lia. lia.
      * rewrite mod_small_shift in H by lia. lia.
    + apply Z.eqb_eq. rewrite H. rewrite <- (Z.mul_1_l (cap r)) at 1. rewrite Z.mod_add by lia. apply Z.mod_small. lia.
Qed.

Theorem push_spec r q v : Inv r q ->
  snd (push r v) = negb (Z.of_nat (length q) =? cap r) /\
  Inv (fst (push r v)) (if Z.of_nat (length q) =? cap r then q else q ++ [v]).
Proof.
  intros HI. pose proof (full_iff r q HI) as Hf. unfold push.
  destruct (is_full r) eqn:Ef.
  - assert (E : Z.of_nat (length q) = cap r) by (apply Hf; reflexivity). rewrite E, Z.eqb_refl. cbn [fst snd negb]. auto.
  - assert (E : Z.of_nat (length q) <> cap r) by (intros E; apply Hf in E; congruence).
    destruct (Z.eqb_spec (Z.of_nat (length q)) (cap r)); [contradiction|]. cbn [fst snd negb]. split; [reflexivity|].
    destruct HI as (Hc & Hl & Hq & Hm). unfold Inv; cbn [vals head tail cap]. rewrite upd_length.
    repeat split; auto; [rewrite app_length; cbn [length]; lia|].
    destruct q as [|x q].
    + destruct Hm as [Hh Ht]. unfold is_empty. rewrite Hh, Ht. cbn [app length]. replace (-1 =? -1) with true by reflexivity.
      change (-1 + 1) with 0. rewrite Z.mod_0_l by lia.
      repeat split; try lia.
      all: try (cbn [length]; replace (0 + Z.of_nat 1 - 1) with 0 by lia; rewrite ?Z.mod_0_l by lia; reflexivity).
      all: intros j Hj; assert (j = 0)%nat by (cbn [length] in Hj; lia); subst j; cbn [nth];
           replace ((0 + Z.of_nat 0) mod cap r) with 0 by (rewrite Z.mod_small; lia); rewrite nth_upd by lia; reflexivity.
    + destruct Hm as (Hh & Ht & Hv). unfold is_empty. destruct (Z.eqb_spec (head r) (-1)); [lia|].
      set (m := Z.of_nat (length (x :: q))) in *. assert (Hn : 1 <= m < cap r) by (unfold m in *; cbn [length] in *; lia).
      assert (Ht' : (tail r + 1) mod cap r = (head r + m) mod cap r).
      { rewrite Ht, Zplus_mod_idemp_l. f_equal. lia. }
      cbn [app]. change (x :: q ++ [v]) with ((x :: q) ++ [v]). repeat split; try lia.
      * rewrite Ht'. rewrite app_length. cbn [length]. f_equal. unfold m. cbn [length]. lia.
      * intros j Hj. rewrite app_length in Hj. cbn [length] in Hj.
        pose proof (Z.mod_pos_bound (head r + m) (cap r) Hc) as B1.
        pose proof (Z.mod_pos_bound (head r + Z.of_nat j) (cap r) Hc) as B2.
        rewrite nth_upd by lia.
        destruct (Nat.eq_dec j (length (x :: q))) as [->|Hne].
        -- fold m. rewrite Ht', Nat.eqb_refl. rewrite app_nth2 by lia. rewrite Nat.sub_diag. reflexivity.
        -- assert (Hj' : (j < length (x :: q))%nat) by (cbn [length] in *; lia).
           destruct (Nat.eqb_spec (Z.to_nat ((head r + Z.of_nat j) mod cap r)) (Z.to_nat ((tail r + 1) mod cap r))) as [E'|_].
           ++ exfalso. rewrite Ht' in E'. assert (E2 : (head r + Z.of_nat j) mod cap r = (head r + m) mod cap r) by lia.
              assert (Hd : (m - Z.of_nat j) mod cap r = 0).
              { replace (m - Z.of_nat j) with ((head r + m) - (head r + Z.of_nat j)) by lia. rewrite Zminus_mod, E2, Z.sub_diag. apply Z.mod_0_l. lia. }
              unfold m in *. cbn [length] in *. rewrite Z.mod_small in Hd by lia. lia.
           ++ rewrite app_nth1 by exact Hj'. apply Hv. exact Hj'.
Qed.

Theorem pop_spec r q : Inv r q ->
  match q with
  | [] => pop r = (r, None)
  | x :: q' => snd (pop r) = Some x /\ Inv (fst (pop r)) q'
  end.
Proof.
  intros (Hc & Hl & Hq & Hm). unfold pop, is_empty. destruct q as [|x q'].
  - destruct Hm as [Hh _]. rewrite Hh. reflexivity.
  - destruct Hm as (Hh & Ht & Hv). destruct (Z.eqb_spec (head r) (-1)); [lia|].
    pose proof (Hv 0%nat ltac:(cbn [length]; lia)) as H0. cbn [nth] in H0.
    replace ((head r + Z.of_nat 0) mod cap r) with (head r) in H0 by (rewrite Z.mod_small; lia).
    set (m := Z.of_nat (length (x :: q'))) in *. assert (Hn : 1 <= m <= cap r) by (unfold m in *; cbn [length] in *; lia).
    destruct (Z.eqb_spec (head r) (tail r)) as [E|E]; cbn [fst snd].
    + (* last element: back to the empty encoding *)
      split; [rewrite H0; reflexivity|].
      assert (Hq1 : q' = []).
      { destruct q' as [|y q'']; [reflexivity|]. exfalso. unfold m in *. cbn [length] in *.
        rewrite <- E in Ht. assert (Hd : (Z.of_nat (S (S (length q''))) - 1) mod cap r = 0).
        { replace (Z.of_nat (S (S (length q''))) - 1) with ((head r + Z.of_nat (S (S (length q''))) - 1) - head r) by lia.
          rewrite Zminus_mod, <- Ht. rewrite (Z.mod_small (head r)) by lia. rewrite Z.sub_diag. apply Z.mod_0_l. lia. }
        rewrite Z.mod_small in Hd by lia. lia. }
      subst q'. unfold Inv; cbn [vals head tail cap length]. rewrite upd_length. repeat split; auto; lia.
    + split; [rewrite H0; reflexivity|].
      destruct q' as [|y q''].
      * exfalso. unfold m in *. cbn [length] in *. apply E. rewrite Ht. replace (head r + Z.of_nat 1 - 1) with (head r) by lia. rewrite Z.mod_small; lia.
      * unfold Inv; cbn [vals head tail cap]. rewrite upd_length.
        assert (Hlen' : Z.of_nat (length (y :: q'')) = m - 1) by (unfold m; cbn [length]; lia).
        repeat split; auto; try lia.
        -- apply Z.mod_pos_bound; lia.
        -- apply Z.mod_pos_bound; lia.
        -- rewrite Ht. replace ((head r + 1) mod cap r + Z.of_nat (length (y :: q'')) - 1) with ((head r + 1) mod cap r + (Z.of_nat (length (y :: q'')) - 1)) by lia.
           rewrite Zplus_mod_idemp_l. f_equal. lia.
        -- intros j Hj. rewrite Zplus_mod_idemp_l.
           pose proof (Z.mod_pos_bound (head r + 1 + Z.of_nat j) (cap r) Hc) as B.
           rewrite nth_upd by lia.
           destruct (Nat.eqb_spec (Z.to_nat ((head r + 1 + Z.of_nat j) mod cap r)) (Z.to_nat (head r))) as [E'|_].
           ++ exfalso. assert (E2 : (head r + 1 + Z.of_nat j) mod cap r = head r) by lia.
              assert (Hd : (1 + Z.of_nat j) mod cap r = 0).
              { replace (1 + Z.of_nat j) with ((head r + 1 + Z.of_nat j) - head r) by lia.
                rewrite Zminus_mod, E2. rewrite (Z.mod_small (head r)) by lia. rewrite Z.sub_diag. apply Z.mod_0_l. lia. }
              cbn [length] in *. rewrite Z.mod_small in Hd by lia. lia.
           ++ specialize (Hv (S j) ltac:(cbn [length] in *; lia)). change (nth (S j) (x :: y :: q'') 0) with (nth j (y :: q'') 0) in Hv. rewrite <- Hv. f_equal. f_equal. f_equal. lia.
Qed.

Definition live (r : ring) : list Z :=
  let h := Z.to_nat (head r) in let t := Z.to_nat (tail r) in
  if head r <=? tail r then firstn (S t - h) (skipn h (vals r))      (* r.values[head:tail+1] *)
  else skipn h (vals r) ++ firstn (S t) (vals r).                    (* r.values[head:], r.values[:tail+1] *)

Definition recap (r : ring) (c : Z) : ring * bool :=
  if (c <=? 0) || (c =? cap r) then (r, false) else
  let l := len r in
  if c <? l then (r, false) else
  let nv := repeat 0 (Z.to_nat c) in
  if is_empty r then ({| vals := nv; head := -1; tail := -1; cap := c |}, true) else
  let nv' :=
    if head r <=? tail r then gocopy nv (firstn (S (Z.to_nat (tail r)) - Z.to_nat (head r)) (skipn (Z.to_nat (head r)) (vals r)))
    else let part1 := skipn (Z.to_nat (head r)) (vals r) in
         let n := Nat.min (length nv) (length part1) in
         let nv1 := gocopy nv part1 in
         firstn n nv1 ++ gocopy (skipn n nv1) (firstn (S (Z.to_nat (tail r))) (vals r)) in
  ({| vals := nv'; head := 0; tail := l - 1; cap := c |}, true).

Lemma nth_firstn (l : list Z) n j : nth j (firstn n l) 0 = if (j <? n)%nat then nth j l 0 else 0.
Proof.
  revert n j; induction l as [|a l IH]; intros [|n] [|j]; cbn [firstn nth]; auto.
  - destruct (S j <? S n)%nat; reflexivity.
  - rewrite IH. reflexivity.
Qed.
Lemma nth_skipn (l : list Z) n j : nth j (skipn n l) 0 = nth (n + j) l 0.
Proof. revert l; induction n as [|n IH]; intros [|a l]; cbn [skipn nth Nat.add]; auto. destruct j; reflexivity. Qed.

Theorem len_spec r q : Inv r q -> len r = Z.of_nat (length q).
Proof.
  intros (Hc & Hl & Hq & Hm). unfold len, is_empty. destruct q as [|x q].
  - destruct Hm as [-> _]. reflexivity.
  - destruct Hm as (Hh & Ht & _). destruct (Z.eqb_spec (head r) (-1)) as [E1|_]; [lia|].
    set (n := Z.of_nat (length (x :: q))) in *. assert (Hn : 1 <= n <= cap r) by (unfold n in *; cbn [length] in *; lia).
    destruct (Z_lt_le_dec (head r + n - 1) (cap r)) as [Hlt|Hge].
    + rewrite Z.mod_small in Ht by lia. destruct (Z.leb_spec (head r) (tail r)); lia.
    + rewrite mod_small_shift in Ht by lia. destruct (Z.leb_spec (head r) (tail r)); lia.
Qed.

(* the live region read out in order is the queue, whatever the rotation *)
Lemma live_is_queue r q : Inv r q -> q <> [] -> live r = q.
Proof.
  intros (Hc & Hl & Hq & Hm) Hne. destruct q as [|x q]; [congruence|]. destruct Hm as (Hh & Ht & Hn).
  set (n := length (x :: q)) in *. assert (Hn1 : (1 <= n)%nat) by (unfold n; cbn [length]; lia).
  unfold live. apply (nth_ext _ _ 0 0).
  - destruct (Z_lt_le_dec (head r + Z.of_nat n - 1) (cap r)) as [Hlt|Hge].
    + rewrite Z.mod_small in Ht by lia. destruct (Z.leb_spec (head r) (tail r)); [|lia].
      rewrite firstn_length, skipn_length. lia.
    + rewrite mod_small_shift in Ht by lia. destruct (Z.leb_spec (head r) (tail r)); [lia|].
      rewrite app_length, firstn_length, skipn_length. lia.
  - intros j Hj. 
    destruct (Z_lt_le_dec (head r + Z.of_nat n - 1) (cap r)) as [Hlt|Hge].
    + rewrite Z.mod_small in Ht by lia. destruct (Z.leb_spec (head r) (tail r)); [|lia].
      rewrite firstn_length, skipn_length in Hj.
      rewrite nth_firstn. destruct (Nat.ltb_spec j (S (Z.to_nat (tail r)) - Z.to_nat (head r))); [|lia].
      rewrite nth_skipn. rewrite <- (Hn j) by lia. f_equal. rewrite Z.mod_small by lia. lia.
    + rewrite mod_small_shift in Ht by lia. destruct (Z.leb_spec (head r) (tail r)); [lia|].
      rewrite app_length, firstn_length, skipn_length in Hj.
      destruct (Nat.lt_ge_cases j (length (vals r) - Z.to_nat (head r))) as [Hj1|Hj1].
      * rewrite app_nth1 by (rewrite skipn_length; lia). rewrite nth_skipn. rewrite <- (Hn j) by lia. f_equal. rewrite Z.mod_small by lia. lia.
      * rewrite app_nth2 by (rewrite skipn_length; lia). rewrite skipn_length.
        rewrite nth_firstn. destruct (Nat.ltb_spec (j - (length (vals r) - Z.to_nat (head r))) (S (Z.to_nat (tail r)))); [|lia].
        rewrite <- (Hn j) by lia. f_equal. rewrite mod_small_shift by lia. lia.
Qed.

Lemma gocopy_fits dst src : (length src <= length dst)%nat -> gocopy dst src = src ++ skipn (length src) dst.
Proof. intros H. unfold gocopy. rewrite firstn_all2 by lia. reflexivity. Qed.

Lemma skipn_repeat a b : skipn a (repeat 0 b) = repeat 0 (b - a).
Proof. revert a. induction b as [|b IH]; intros [|a]; cbn [repeat skipn Nat.sub]; auto. Qed.

(* the new buffer is the live region followed by zeros, in both layouts *)
Lemma recap_buffer r (c : nat) : (length (live r) <= c)%nat -> (length (vals r) = Z.to_nat (cap r)) -> 0 <= head r -> 0 <= tail r < cap r ->
  (if head r <=? tail r then gocopy (repeat 0 c) (firstn (S (Z.to_nat (tail r)) - Z.to_nat (head r)) (skipn (Z.to_nat (head r)) (vals r)))
    else let part1 := skipn (Z.to_nat (head r)) (vals r) in
         let n := Nat.min (length (repeat 0 c)) (length part1) in
         let nv1 := gocopy (repeat 0 c) part1 in
         firstn n nv1 ++ gocopy (skipn n nv1) (firstn (S (Z.to_nat (tail r))) (vals r)))
  = live r ++ repeat 0 (c - length (live r)).
Proof.
  intros Hfit Hlen Hh Ht. unfold live in *. destruct (Z.leb_spec (head r) (tail r)).
  - rewrite gocopy_fits by (rewrite repeat_length; auto). f_equal.
    apply skipn_repeat.
  - cbv zeta. rewrite app_length in Hfit. set (p1 := skipn (Z.to_nat (head r)) (vals r)) in *. set (p2 := firstn (S (Z.to_nat (tail r))) (vals r)) in *.
    rewrite repeat_length, Nat.min_r by lia. rewrite gocopy_fits by (rewrite repeat_length; lia).
    rewrite firstn_app, Nat.sub_diag, firstn_all. cbn [firstn]. rewrite app_nil_r, <- app_assoc. f_equal.
    rewrite skipn_app, skipn_all, Nat.sub_diag, skipn_O. cbn [app].
    rewrite skipn_repeat. rewrite gocopy_fits by (rewrite repeat_length; lia). f_equal. rewrite skipn_repeat. f_equal. rewrite app_length. lia.
Qed.

Theorem recap_spec r q c : Inv r q ->
  let ok := (0 <? c) && negb (c =? cap r) && (Z.of_nat (length q) <=? c) in
  snd (recap r c) = ok /\ Inv (fst (recap r c)) q /\ cap (fst (recap r c)) = (if ok then c else cap r).
Proof.
  intros HI. pose proof (len_spec r q HI) as Hlen. cbv zeta. unfold recap.
  destruct (Z.leb_spec c 0) as [Hc0|Hc0]; cbn [orb].
  - destruct (Z.ltb_spec 0 c); [lia|]. cbn [andb fst snd]. auto.
  - destruct (Z.ltb_spec 0 c); [|lia]. cbn [andb]. destruct (Z.eqb_spec c (cap r)) as [Ec|Ec]; cbn [negb andb fst snd]; [auto|].
    rewrite Hlen. destruct (Z.ltb_spec c (Z.of_nat (length q))) as [Hs|Hs].
    + destruct (Z.leb_spec (Z.of_nat (length q)) c); [lia|]. cbn [fst snd]. auto.
    + destruct (Z.leb_spec (Z.of_nat (length q)) c); [|lia].
      pose proof HI as (Hc & Hl & Hq & Hm). unfold is_empty. destruct q as [|x q].
      * destruct Hm as [Hh Ht]. rewrite Hh, Z.eqb_refl. cbn [fst snd]. repeat split; auto; cbn [vals head tail cap length]; try lia.
        rewrite repeat_length. lia.
      * pose proof (live_is_queue r (x :: q) HI ltac:(discriminate)) as Hlive.
        destruct Hm as (Hh & Ht & Hn). destruct (Z.eqb_spec (head r) (-1)) as [E1|_]; [lia|]. cbn [fst snd]. split; [reflexivity|]. split; [|reflexivity].
        assert (Htl : 0 <= tail r < cap r) by (rewrite Ht; apply Z.mod_pos_bound; lia).
        assert (HB := recap_buffer r (Z.to_nat c)). cbv zeta in HB. rewrite HB; try lia.
        2:{ rewrite Hlive. lia. }
        clear HB.
        rewrite Hlive. unfold Inv; cbn [vals head tail cap]. split; [lia|]. split; [rewrite app_length, repeat_length; lia|]. split; [lia|].
        split; [lia|]. split; [rewrite Z.mod_small; cbn [length] in *; lia|].
        intros j Hj. rewrite Z.mod_small by lia. replace (Z.to_nat (0 + Z.of_nat j)) with j by lia. apply app_nth1. auto.
Qed.

(* PushWithExpand: if full, double; then Push — never fails, content and order preserved *)
Definition push_expand (r : ring) (v : Z) : ring :=
  let r1 := if is_full r then fst (recap r (cap r * 2)) else r in fst (push r1 v).
Theorem push_expand_spec r q v : Inv r q -> Inv (push_expand r v) (q ++ [v]).
Proof.
  intros HI. unfold push_expand. pose proof (full_iff r q HI) as Hf. pose proof HI as (Hc & _ & Hq & _).
  destruct (is_full r) eqn:Ef.
  - assert (E : Z.of_nat (length q) = cap r) by (apply Hf; reflexivity).
    destruct (recap_spec r q (cap r * 2) HI) as (R1 & R2 & R3). cbv zeta in *.
    replace ((0 <? cap r * 2) && negb (cap r * 2 =? cap r) && (Z.of_nat (length q) <=? cap r * 2)) with true in *.
    2:{ symmetry. destruct (Z.ltb_spec 0 (cap r * 2)); [|lia]. destruct (Z.eqb_spec (cap r * 2) (cap r)); [lia|].
        destruct (Z.leb_spec (Z.of_nat (length q)) (cap r * 2)); [reflexivity|lia]. }
    destruct (push_spec _ q v R2) as [_ P]. rewrite R3 in P. destruct (Z.eqb_spec (Z.of_nat (length q)) (cap r * 2)); [lia|]. exact P.
  - destruct (push_spec r q v HI) as [_ P]. destruct (Z.eqb_spec (Z.of_nat (length q)) (cap r)) as [E|_]; [|exact P].
    apply Hf in E. congruence.
Qed.

End Pure.
