(* C12, linearizability of the call-driven machine, part 3: the theorem.  From the invariant of part 2 at the end of the run:
   the release order, with the calls that have released but not returned completed at the end, is a permutation of the
   history (+ those completions), respects real time and is a legal sequential execution of the specification. *)
From Coq Require Import List Arith Lia Bool ZArith Permutation.
From V Require Import Lib.Enc Gen.SafeKVSkel Model.SafeKV Model.SafeKVCalls Model.SafeKVHist Run.C12
  Proofs.SafeKVInv Proofs.SafeKVConc Proofs.SafeKVSkelOk Proofs.SafeKVExec Proofs.SafeKVCalls Proofs.SafeKVLin
  Proofs.SafeKVLinearizeStep Proofs.SafeKVLinearize.
Import ListNotations.

(* ---------------------------------------------------------------- [legal] (the judge's notion) = real time + sequential legality *)
Lemma legal_seq_legal : forall l m, legal l m -> seq_legal l m.
Proof. induction l as [|h t IH]; intros m H; cbn [legal seq_legal] in *; auto. destruct H as (_ & H2 & H3). split; auto. Qed.

Lemma before_cons l h a b : before l a b -> before (h :: l) a b.
Proof. intros (l1 & l2 & l3 & ->). exists (h :: l1), l2, l3. reflexivity. Qed.

Lemma legal_real_time : forall l m, legal l m ->
  forall a b, In a l -> In b l -> (h_resp a < h_inv b)%Z -> before l a b.
Proof.
  induction l as [|h t IH]; intros m H a b Ha Hb Hab; [destruct Ha|]. cbn [legal] in H. destruct H as (H1 & _ & H3).
  destruct Hb as [<-|Hb].
  - (* b is first: nobody in the list had returned before b was invoked *) specialize (H1 a Ha). lia.
  - destruct Ha as [<-|Ha].
    + apply in_split in Hb as (l2 & l3 & ->). exists [], l2, l3. reflexivity.
    + apply before_cons. eapply IH; eauto.
Qed.

Theorem legal_linearization hist m0 l : Permutation l hist -> legal l m0 -> linearization hist m0 l.
Proof. intros Hp Hl. split; auto. split; [eapply legal_real_time; eauto|apply legal_seq_legal; auto]. Qed.

(* ---------------------------------------------------------------- completions *)
Lemma completion_app K : forall a a' b b', completion K a a' -> completion K b b' -> completion K (a ++ b) (a' ++ b').
Proof. intros a a' b b' Ha Hb. induction Ha; cbn [app]; auto; [apply comp_drop|apply comp_take]; auto. Qed.
Lemma completion_flat_map K {A} (g : A -> list (Z * call)) (g' : A -> list hop) l :
  (forall i, completion K (g i) (g' i)) -> completion K (flat_map g l) (flat_map g' l).
Proof. intros H. induction l as [|i l IH]; cbn [flat_map]; [constructor|]. apply completion_app; auto. Qed.
Lemma completion_nil K hs : completion K [] hs -> hs = [].
Proof. intros H. inversion H. reflexivity. Qed.

(* the completion chosen: every call that has released the lock and not returned responds at the end of the run *)
Definition ext_hop (K : nat) (ts : list cthread) (invs : list nat) (i : nat) : hop :=
  let t := nth i ts cidle in
  match ccall t with
  | Some cl => {| h_inv := Z.of_nat (nth i invs 0); h_resp := Z.of_nat K; h_call := cl; h_res := snd (sem cl (snap (base t))) |}
  | None => {| h_inv := 0; h_resp := 0; h_call := CLen; h_res := [] |}
  end.
Definition ext_of (K : nat) (ts : list cthread) (invs : list nat) : list hop :=
  map (ext_hop K ts invs) (filter (fun i => phase2 (nth i ts cidle)) (seq 0 (length ts))).

Lemma flat_map_if {A B} (p : A -> bool) (F : A -> B) l : flat_map (fun i => if p i then [F i] else []) l = map F (filter p l).
Proof. induction l as [|a l IH]; cbn [flat_map filter map]; auto. destruct (p a); cbn [app map]; rewrite IH; reflexivity. Qed.

Lemma ext_completion K ts invs : completion (Z.of_nat K) (pending_of ts invs) (ext_of K ts invs).
Proof.
  unfold ext_of. rewrite <- flat_map_if. unfold pending_of. apply completion_flat_map. intros i.
  unfold phase2, ext_hop. destruct (ccall (nth i ts cidle)) as [cl|]; [|constructor].
  destruct (2 <=? cph (nth i ts cidle)).
  - apply (comp_take (Z.of_nat K) (Z.of_nat (nth i invs 0), cl) [] []). constructor.
  - apply comp_drop. constructor.
Qed.

(* ---------------------------------------------------------------- from items to hops *)
Lemma filter_split_perm {A} (f : A -> bool) l : Permutation l (filter (fun x => negb (f x)) l ++ filter f l).
Proof.
  induction l as [|a l IH]; cbn [filter]; [constructor|]. destruct (f a); cbn [negb app].
  - apply Permutation_cons_app. exact IH.
  - apply perm_skip. exact IH.
Qed.

Lemma lseq_seq_legal K : forall L m, lseq L m -> seq_legal (map (hop_of K) L) m.
Proof. induction L as [|x L IH]; intros m H; cbn [lseq map seq_legal hop_of h_res h_call] in *; auto. destruct H; split; auto. Qed.

Lemma items_legal K : forall L m, lseq L m -> lrt L -> (forall x, In x L -> l_inv x < K) -> legal (map (hop_of K) L) m.
Proof.
  induction L as [|x L IH]; intros m Hs Hr Hk; cbn [map legal]; auto. cbn [lseq lrt] in Hs, Hr. destruct Hs as [S1 S2]. destruct Hr as [R1 R2].
  split; [|split].
  - intros h' Hin. change (hop_of K x :: map (hop_of K) L) with (map (hop_of K) (x :: L)) in Hin.
    apply in_map_iff in Hin as (y & <- & Hy). unfold hop_of. cbn [h_inv h_resp].
    destruct (l_resp y) as [r|] eqn:Er.
    + specialize (R1 y Hy r Er). lia.
    + specialize (Hk x (or_introl eq_refl)). lia.
  - cbn [hop_of h_call h_res]. auto.
  - cbn [hop_of h_call]. apply IH; auto. intros y Hy. apply Hk. right; auto.
Qed.

(* ---------------------------------------------------------------- the theorem *)
Theorem crun_linearizable_legal n m0 sched :
  exists extra l, completion (Z.of_nat (length sched)) (cpending n m0 sched) extra /\
                  Permutation l (chistory n m0 sched ++ extra) /\ legal l m0.
Proof.
  destruct (hrun_linv n m0 sched) as (L & HC & HT & HS). set (h := hrun n m0 sched) in *.
  destruct HT as [Hlen Hinvk Hhist Hnd Hpend Hpit Hlt Hrt]. destruct HS as [Hseq _ _].
  assert (EK : hk h = length sched) by apply hrun_hk. set (K := length sched) in *.
  exists (ext_of K (cths (hc h)) (hinv h)), (map (hop_of K) L). split; [apply ext_completion|]. split.
  - (* the items with a response are the history, the others are the completion *)
    eapply perm_trans; [apply Permutation_map, (filter_split_perm pendingb)|]. rewrite map_app. apply Permutation_app.
    + fold doneb. erewrite map_ext_in; [exact Hhist|]. intros x Hx. apply filter_In in Hx as [_ Hd]. unfold doneb, pendingb in Hd.
      unfold hop_of. destruct (l_resp x); [reflexivity|discriminate].
    + set (ts := cths (hc h)) in *. set (invs := hinv h) in *.
      assert (Hpt : Permutation (ptids L) (filter (fun i => phase2 (nth i ts cidle)) (seq 0 (length ts)))).
      { apply NoDup_Permutation; auto; [apply NoDup_filter, seq_NoDup|]. intros i. rewrite Hpend, filter_In, in_seq. split.
        - intros (t & Hi & Hp). assert (i < length ts) by (apply nth_error_Some; congruence). split; [lia|].
          rewrite (nth_error_nth _ _ cidle Hi). exact Hp.
        - intros [[_ Hi] Hp]. exists (nth i ts cidle). split; auto. apply nth_error_nth'. exact Hi. }
      unfold ext_of. eapply perm_trans; [|apply Permutation_map, Hpt]. unfold ptids. rewrite map_map.
      erewrite map_ext_in; [apply Permutation_refl|]. intros x Hx. apply filter_In in Hx as [HxL Hxp]. cbn beta.
      assert (Hr : l_resp x = None) by (unfold pendingb in Hxp; destruct (l_resp x); [discriminate|reflexivity]).
      destruct (Hpit x HxL Hr) as (t & cl & Ht & Hc & E1 & E2 & E3). unfold hop_of, ext_hop. rewrite Hr.
      rewrite (nth_error_nth _ _ cidle Ht), Hc, E1, E2, E3. reflexivity.
  - apply items_legal; auto. intros x Hx. rewrite <- EK. auto.
Qed.

(* C12, linearizability: for every number of threads, every initial map and every schedule (the schedule also says which call
   an idle thread starts, so it ranges over all per-thread programs), the history of the run — with some of the calls still
   pending at the end given a response, the others dropped — has a linearization *)
Theorem crun_linearizable n m0 sched :
  exists extra l, completion (Z.of_nat (length sched)) (cpending n m0 sched) extra /\
                  linearization (chistory n m0 sched ++ extra) m0 l.
Proof.
  destruct (crun_linearizable_legal n m0 sched) as (extra & l & Hc & Hp & Hl). exists extra, l. split; auto.
  apply legal_linearization; auto.
Qed.

(* a run at whose end no call is pending: the history itself *)
Theorem crun_linearizable_quiescent n m0 sched : cpending n m0 sched = [] ->
  exists l, linearization (chistory n m0 sched) m0 l.
Proof.
  intros Hq. destruct (crun_linearizable n m0 sched) as (extra & l & Hc & Hl). rewrite Hq in Hc. apply completion_nil in Hc. subst.
  rewrite app_nil_r in Hl. eauto.
Qed.

(* ---------------------------------------------------------------- the executable judge accepts every history of the model *)
Theorem model_histories_accepted n m0 sched :
  exists extra, completion (Z.of_nat (length sched)) (cpending n m0 sched) extra /\
                linearizable (chistory n m0 sched ++ extra) m0 = true.
Proof.
  destruct (crun_linearizable_legal n m0 sched) as (extra & l & Hc & Hp & Hl). exists extra. split; auto.
  apply linearizable_iff. eauto.
Qed.
Theorem model_histories_accepted_quiescent n m0 sched : cpending n m0 sched = [] -> linearizable (chistory n m0 sched) m0 = true.
Proof.
  intros Hq. destruct (model_histories_accepted n m0 sched) as (extra & Hc & Hl). rewrite Hq in Hc. apply completion_nil in Hc. subst.
  rewrite app_nil_r in Hl. exact Hl.
Qed.
(* ... as the run sees it (Run/C12.v, mode 1): whenever the case decodes to the history of a complete run of the model from the
   empty map, both subs answer [1; number of calls] *)
Theorem entry_model_history_accepted n sched nth args : cpending n [] sched = [] ->
  dec_hist (length args) args = Some (chistory n [] sched) ->
  entry 0 (1 :: nth :: args)%Z = [1%Z; Z.of_nat (length (chistory n [] sched))].
Proof.
  intros Hq Hd. unfold entry. rewrite Hd. cbn [Z.eqb orb]. rewrite (model_histories_accepted_quiescent n [] sched Hq). reflexivity.
Qed.
