(* C19: pure facts about observed traces (no event model here).
   A per-task automaton [phase] (0 nothing seen, 1 SUBMIT, 2 START, 3 RAISE, 5 ended) reads the events of one task id in a trace;
   it composes over [++], so it can be maintained while a trace grows at its end, and a trace that drives it from 0 to 5
   satisfies the judge's [task_once].  The other clauses of [trace_spec] are given append forms as well. *)
From Coq Require Import List Arith ZArith Lia Bool Permutation.
From V Require Import Lib.Enc Gen.ConstsGoz Model.Limiter.
Import ListNotations.

Definition tcode (c : Z) : bool :=
  (c =? E_SUBMIT)%Z || (c =? E_START)%Z || (c =? E_RETURN)%Z || (c =? E_PANIC)%Z || (c =? E_RAISE)%Z.
Definition trans (p : nat) (c : Z) : option nat :=
  if (c =? E_SUBMIT)%Z then match p with 0 => Some 1 | _ => None end else
  if (c =? E_START)%Z then match p with 1 => Some 2 | _ => None end else
  if (c =? E_RETURN)%Z then match p with 2 => Some 5 | _ => None end else
  if (c =? E_RAISE)%Z then match p with 2 => Some 3 | _ => None end else
  if (c =? E_PANIC)%Z then match p with 3 => Some 5 | _ => None end else Some p.
Fixpoint phase (i : Z) (p : nat) (tr : list oev) : option nat :=
  match tr with
  | [] => Some p
  | (c, i', _) :: t => if (i' =? i)%Z then match trans p c with Some p' => phase i p' t | None => None end else phase i p t
  end.
Definition quiet (i : Z) (tr : list oev) : bool :=
  forallb (fun e => let '(c, i', _) := e in negb (tcode c && (i' =? i)%Z)) tr.

(* ---------------------------------------------------------------- codes *)
Lemma code_cases c : c = E_SUBMIT \/ c = E_START \/ c = E_RETURN \/ c = E_PANIC \/ c = E_RAISE \/ tcode c = false.
Proof.
  unfold tcode.
  destruct (Z.eqb_spec c E_SUBMIT); [tauto|]. destruct (Z.eqb_spec c E_START); [tauto|]. destruct (Z.eqb_spec c E_RETURN); [tauto|].
  destruct (Z.eqb_spec c E_PANIC); [tauto|]. destruct (Z.eqb_spec c E_RAISE); [tauto|]. do 5 right. reflexivity.
Qed.
Lemma tcode_false c : tcode c = false ->
  (c =? E_SUBMIT)%Z = false /\ (c =? E_START)%Z = false /\ (c =? E_RETURN)%Z = false /\ (c =? E_PANIC)%Z = false /\ (c =? E_RAISE)%Z = false.
Proof.
  unfold tcode. intros H. repeat (apply orb_false_elim in H; destruct H as [H ?]). auto.
Qed.
Lemma trans_nontask p c : tcode c = false -> trans p c = Some p.
Proof. intros H. destruct (tcode_false c H) as (A & B & C & D & E). unfold trans. rewrite A, B, C, D, E. reflexivity. Qed.
Lemma trans_task_lt p c p' : tcode c = true -> trans p c = Some p' -> p < p'.
Proof.
  intros Ht H. destruct (code_cases c) as [->|[->|[->|[->|[->|F]]]]]; [..|congruence];
    cbn in H; repeat (destruct p as [|p]; try discriminate); inversion H; lia.
Qed.
Lemma trans_le p c p' : trans p c = Some p' -> p <= p'.
Proof.
  intros H. destruct (tcode c) eqn:Ht.
  - apply Nat.lt_le_incl. eapply trans_task_lt; eauto.
  - rewrite trans_nontask in H by auto. inversion H; lia.
Qed.
Lemma trans_5 c p' : trans 5 c = Some p' -> tcode c = false.
Proof.
  intros H. destruct (code_cases c) as [->|[->|[->|[->|[->|F]]]]]; auto; cbn in H; discriminate.
Qed.

(* ---------------------------------------------------------------- the automaton *)
Lemma phase_app i : forall t p u, phase i p (t ++ u) = match phase i p t with Some q => phase i q u | None => None end.
Proof.
  induction t as [|[[c i'] v] t IH]; intros p u; cbn [app phase]; [reflexivity|].
  destruct (i' =? i)%Z; [|apply IH]. destruct (trans p c); [apply IH|reflexivity].
Qed.
Lemma phase_le i : forall t p q, phase i p t = Some q -> p <= q.
Proof.
  induction t as [|[[c i'] v] t IH]; intros p q H; cbn [phase] in H; [inversion H; lia|].
  destruct (i' =? i)%Z; [|eauto]. destruct (trans p c) as [p'|] eqn:E; [|discriminate].
  apply trans_le in E. apply IH in H. lia.
Qed.
Lemma quiet_phase i : forall t p, quiet i t = true -> phase i p t = Some p.
Proof.
  induction t as [|[[c i'] v] t IH]; intros p H; cbn [phase quiet forallb] in *; [reflexivity|].
  apply andb_true_iff in H as [H1 H2]. fold (quiet i t) in H2. destruct (i' =? i)%Z; [|auto].
  rewrite andb_true_r in H1. apply negb_true_iff in H1. rewrite trans_nontask by auto. auto.
Qed.
Lemma phase_same_quiet i : forall t p, phase i p t = Some p -> quiet i t = true.
Proof.
  induction t as [|[[c i'] v] t IH]; intros p H; cbn [phase quiet forallb] in *; [reflexivity|].
  fold (quiet i t). destruct (i' =? i)%Z.
  - destruct (trans p c) as [p'|] eqn:E; [|discriminate]. destruct (tcode c) eqn:Ht.
    + pose proof (trans_task_lt _ _ _ Ht E). apply phase_le in H. lia.
    + rewrite trans_nontask in E by auto. inversion E; subst. cbn [andb negb]. eauto.
  - rewrite andb_false_r. cbn [negb andb]. eauto.
Qed.
Lemma phase5_quiet i t q : phase i 5 t = Some q -> quiet i t = true /\ q = 5.
Proof.
  revert q. induction t as [|[[c i'] v] t IH]; intros q H; cbn [phase quiet forallb] in *; [inversion H; auto|].
  fold (quiet i t). destruct (i' =? i)%Z.
  - destruct (trans 5 c) as [p'|] eqn:E; [|discriminate]. pose proof (trans_5 _ _ E) as Ht.
    rewrite trans_nontask in E by auto. inversion E; subst. rewrite Ht. cbn [andb negb]. eauto.
  - rewrite andb_false_r. cbn [negb andb]. eauto.
Qed.
Lemma quiet_app i t u : quiet i (t ++ u) = quiet i t && quiet i u.
Proof. apply forallb_app. Qed.
Lemma quiet_not_in i t c v : quiet i t = true -> tcode c = true -> ~ In (c, i, v) t.
Proof.
  intros H Ht Hin. unfold quiet in H. rewrite forallb_forall in H. specialize (H _ Hin). cbn in H.
  rewrite Ht, Z.eqb_refl in H. discriminate.
Qed.

(* the first event about task i *)
Lemma phase_first i : forall t p q, phase i p t = Some q -> p <> q ->
  exists t0 c v u p', t = t0 ++ (c, i, v) :: u /\ quiet i t0 = true /\ tcode c = true /\ trans p c = Some p' /\ phase i p' u = Some q.
Proof.
  induction t as [|[[c i'] v] t IH]; intros p q H Hne; cbn [phase] in H; [inversion H; congruence|].
  destruct (Z.eqb_spec i' i) as [->|Hi].
  - destruct (trans p c) as [p'|] eqn:E; [|discriminate]. destruct (tcode c) eqn:Ht.
    + exists [], c, v, t, p'. cbn. auto.
    + rewrite trans_nontask in E by auto. inversion E; subst p'.
      destruct (IH _ _ H Hne) as (t0 & c0 & v0 & u & p' & A & B & C & D & F).
      exists ((c, i, v) :: t0), c0, v0, u, p'. subst t. cbn [app quiet forallb]. rewrite Ht. cbn [andb negb]. auto.
  - destruct (IH _ _ H Hne) as (t0 & c0 & v0 & u & p' & A & B & C & D & F).
    exists ((c, i', v) :: t0), c0, v0, u, p'. subst t. cbn [app quiet forallb].
    destruct (Z.eqb_spec i' i); [congruence|]. rewrite andb_false_r. cbn [andb negb]. auto.
Qed.

Lemma trans0 c p' : tcode c = true -> trans 0 c = Some p' -> c = E_SUBMIT /\ p' = 1.
Proof. intros Ht H. destruct (code_cases c) as [->|[->|[->|[->|[->|F]]]]]; [..|congruence]; cbn in H; try discriminate. inversion H; auto. Qed.
Lemma trans1 c p' : tcode c = true -> trans 1 c = Some p' -> c = E_START /\ p' = 2.
Proof. intros Ht H. destruct (code_cases c) as [->|[->|[->|[->|[->|F]]]]]; [..|congruence]; cbn in H; try discriminate. inversion H; auto. Qed.
Lemma trans2 c p' : tcode c = true -> trans 2 c = Some p' -> (c = E_RETURN /\ p' = 5) \/ (c = E_RAISE /\ p' = 3).
Proof. intros Ht H. destruct (code_cases c) as [->|[->|[->|[->|[->|F]]]]]; [..|congruence]; cbn in H; try discriminate; inversion H; auto. Qed.
Lemma trans3 c p' : tcode c = true -> trans 3 c = Some p' -> c = E_PANIC /\ p' = 5.
Proof. intros Ht H. destruct (code_cases c) as [->|[->|[->|[->|[->|F]]]]]; [..|congruence]; cbn in H; try discriminate. inversion H; auto. Qed.

(* a task that went from 0 to 5 has one of two shapes *)
Lemma phase_shape i t : phase i 0 t = Some 5 ->
  exists t0 v1 t1 v2 t2 t4, quiet i t0 = true /\ quiet i t1 = true /\ quiet i t2 = true /\ quiet i t4 = true /\
  ((exists v3, t = t0 ++ (E_SUBMIT, i, v1) :: t1 ++ (E_START, i, v2) :: t2 ++ (E_RETURN, i, v3) :: t4) \/
   (exists v3 t3 v4, quiet i t3 = true /\
      t = t0 ++ (E_SUBMIT, i, v1) :: t1 ++ (E_START, i, v2) :: t2 ++ (E_RAISE, i, v3) :: t3 ++ (E_PANIC, i, v4) :: t4)).
Proof.
  intros H.
  destruct (phase_first i t 0 5 H) as (t0 & c1 & v1 & u1 & p1 & E1 & Q0 & T1 & X1 & H1); [lia|].
  destruct (trans0 _ _ T1 X1) as [-> ->].
  destruct (phase_first i u1 1 5 H1) as (t1 & c2 & v2 & u2 & p2 & E2 & Q1 & T2 & X2 & H2); [lia|].
  destruct (trans1 _ _ T2 X2) as [-> ->].
  destruct (phase_first i u2 2 5 H2) as (t2 & c3 & v3 & u3 & p3 & E3 & Q2 & T3 & X3 & H3); [lia|].
  destruct (trans2 _ _ T3 X3) as [[-> ->]|[-> ->]].
  - destruct (phase5_quiet _ _ _ H3) as [Q4 _].
    exists t0, v1, t1, v2, t2, u3. repeat split; auto. left. exists v3. subst. reflexivity.
  - destruct (phase_first i u3 3 5 H3) as (t3 & c4 & v4 & u4 & p4 & E4 & Q3 & T4 & X4 & H4); [lia|].
    destruct (trans3 _ _ T4 X4) as [-> ->]. destruct (phase5_quiet _ _ _ H4) as [Q4 _].
    exists t0, v1, t1, v2, t2, u4. repeat split; auto. right. exists v3, t3, v4. split; auto. subst. reflexivity.
Qed.

(* ---------------------------------------------------------------- count_ev / pos_of *)
Lemma count_ev_app c i t u : count_ev c i (t ++ u) = count_ev c i t + count_ev c i u.
Proof. unfold count_ev. rewrite filter_app, app_length. reflexivity. Qed.
Lemma count_ev_cons c i c' i' v t :
  count_ev c i ((c', i', v) :: t) = (if (c' =? c)%Z && (i' =? i)%Z then 1 else 0) + count_ev c i t.
Proof. unfold count_ev. cbn [filter]. destruct ((c' =? c)%Z && (i' =? i)%Z); reflexivity. Qed.
Lemma count_ev_quiet c i t : quiet i t = true -> tcode c = true -> count_ev c i t = 0.
Proof.
  intros H Ht. induction t as [|[[c' i'] v] t IH]; [reflexivity|]. cbn [quiet forallb] in H. apply andb_true_iff in H as [H1 H2].
  rewrite count_ev_cons, IH by exact H2. destruct (Z.eqb_spec c' c) as [->|]; [|reflexivity].
  rewrite Ht in H1. cbn [andb] in *. destruct (i' =? i)%Z; [discriminate|reflexivity].
Qed.
Lemma pos_of_quiet_app c i : forall t k u, quiet i t = true -> tcode c = true -> pos_of c i k (t ++ u) = pos_of c i (k + length t) u.
Proof.
  induction t as [|[[c' i'] v] t IH]; intros k u H Ht; cbn [app pos_of length].
  - rewrite Nat.add_0_r. reflexivity.
  - cbn [quiet forallb] in H. apply andb_true_iff in H as [H1 H2]. rewrite IH by auto.
    replace (S k + length t) with (k + S (length t)) by lia.
    destruct (Z.eqb_spec c' c) as [->|]; [|reflexivity]. rewrite Ht in H1. cbn [andb] in *.
    destruct (i' =? i)%Z; [discriminate|reflexivity].
Qed.
Lemma pos_of_quiet c i t k : quiet i t = true -> tcode c = true -> pos_of c i k t = None.
Proof. intros H Ht. rewrite <- (app_nil_r t), pos_of_quiet_app by auto. reflexivity. Qed.
Lemma pos_of_hit c i v k t : pos_of c i k ((c, i, v) :: t) = Some k.
Proof. cbn [pos_of]. rewrite !Z.eqb_refl. reflexivity. Qed.
Lemma pos_of_miss c i c' v k t : (c' =? c)%Z = false -> pos_of c i k ((c', i, v) :: t) = pos_of c i (S k) t.
Proof. intros H. cbn [pos_of]. rewrite H. reflexivity. Qed.
Lemma pos_of_range c i : forall t k a, pos_of c i k t = Some a -> k <= a < k + length t.
Proof.
  induction t as [|[[c' i'] v] t IH]; intros k a H; cbn [pos_of length] in *; [discriminate|].
  destruct ((c' =? c)%Z && (i' =? i)%Z); [inversion H; lia|]. apply IH in H. lia.
Qed.
Lemma pos_of_app c i : forall t k u,
  pos_of c i k (t ++ u) = match pos_of c i k t with Some a => Some a | None => pos_of c i (k + length t) u end.
Proof.
  induction t as [|[[c' i'] v] t IH]; intros k u; cbn [app pos_of length].
  - rewrite Nat.add_0_r. reflexivity.
  - destruct ((c' =? c)%Z && (i' =? i)%Z); [reflexivity|]. rewrite IH. replace (S k + length t) with (k + S (length t)) by lia. reflexivity.
Qed.
Lemma pos_of_in c i : forall t k a, pos_of c i k t = Some a -> exists v, In (c, i, v) t.
Proof.
  induction t as [|[[c' i'] v] t IH]; intros k a H; cbn [pos_of] in *; [discriminate|].
  destruct (Z.eqb_spec c' c) as [->|]; cbn [andb] in H.
  - destruct (Z.eqb_spec i' i) as [->|]. + exists v. left; reflexivity. + destruct (IH _ _ H) as [w Hw]. exists w. right; auto.
  - destruct (IH _ _ H) as [w Hw]. exists w. right; auto.
Qed.

Ltac ltb_true := repeat match goal with |- context [?a <? ?b] => rewrite (proj2 (Nat.ltb_lt a b)) by lia end.

(* the judge's per-task clause follows from the automaton *)
Lemma phase_task_once i t : phase i 0 t = Some 5 -> task_once t i = true.
Proof.
  intros H. destruct (phase_shape i t H) as (t0 & v1 & t1 & v2 & t2 & t4 & Q0 & Q1 & Q2 & Q4 & [[v3 E]|(v3 & t3 & v4 & Q3 & E)]); subst t.
  - unfold task_once, end_pos.
    rewrite !count_ev_app, !count_ev_cons, !count_ev_app, !count_ev_cons, !count_ev_app, !count_ev_cons.
    rewrite !count_ev_quiet by (auto; reflexivity). rewrite !Z.eqb_refl.
    rewrite !(pos_of_quiet_app _ i t0) by (auto; reflexivity). rewrite pos_of_hit.
    rewrite !pos_of_miss by reflexivity. rewrite !(pos_of_quiet_app _ i t1) by (auto; reflexivity). rewrite pos_of_hit.
    rewrite !pos_of_miss by reflexivity. rewrite !(pos_of_quiet_app _ i t2) by (auto; reflexivity). rewrite pos_of_hit.
    rewrite !pos_of_miss by reflexivity. rewrite (pos_of_quiet E_RAISE i t4) by (auto; reflexivity).
    ltb_true. reflexivity.
  - unfold task_once, end_pos.
    rewrite !count_ev_app, !count_ev_cons, !count_ev_app, !count_ev_cons, !count_ev_app, !count_ev_cons, !count_ev_app, !count_ev_cons.
    rewrite !count_ev_quiet by (auto; reflexivity). rewrite !Z.eqb_refl.
    rewrite !(pos_of_quiet_app _ i t0) by (auto; reflexivity). rewrite pos_of_hit.
    rewrite !pos_of_miss by reflexivity. rewrite !(pos_of_quiet_app _ i t1) by (auto; reflexivity). rewrite pos_of_hit.
    rewrite !pos_of_miss by reflexivity. rewrite !(pos_of_quiet_app _ i t2) by (auto; reflexivity). rewrite pos_of_hit.
    rewrite !pos_of_miss by reflexivity. rewrite !(pos_of_quiet_app _ i t3) by (auto; reflexivity). rewrite pos_of_hit.
    rewrite !pos_of_miss by reflexivity. rewrite (pos_of_quiet E_RETURN i t4) by (auto; reflexivity).
    ltb_true. reflexivity.
Qed.

(* ---------------------------------------------------------------- the gauge, append form *)
Fixpoint gauge_end (cur : nat) (tr : list oev) : nat :=
  match tr with
  | [] => cur
  | (c, _, _) :: t => gauge_end (if (c =? E_START)%Z then S cur else if (c =? E_RETURN)%Z || (c =? E_RAISE)%Z then pred cur else cur) t
  end.
Lemma gauge_ok_app lim : forall t cur u, gauge_ok lim cur (t ++ u) = gauge_ok lim cur t && gauge_ok lim (gauge_end cur t) u.
Proof.
  induction t as [|[[c i] v] t IH]; intros cur u; cbn [app gauge_ok gauge_end]; [reflexivity|].
  rewrite IH, andb_assoc. reflexivity.
Qed.
Lemma gauge_end_app : forall t cur u, gauge_end cur (t ++ u) = gauge_end (gauge_end cur t) u.
Proof. induction t as [|[[c i] v] t IH]; intros cur u; cbn [app gauge_end]; auto. Qed.

(* ---------------------------------------------------------------- no_hang, n_panics, ends_with_waitret *)
Lemma no_hang_app t u : no_hang (t ++ u) = no_hang t && no_hang u.
Proof. apply forallb_app. Qed.
Lemma n_panics_app t u : n_panics (t ++ u) = n_panics t + n_panics u.
Proof. unfold n_panics. rewrite filter_app, app_length. reflexivity. Qed.
Lemma ends_with_waitret_snoc t a b : ends_with_waitret (t ++ [(E_WAITRET, a, b)]) = true.
Proof. unfold ends_with_waitret. rewrite rev_app_distr. reflexivity. Qed.

(* ---------------------------------------------------------------- raise_matches, append form *)
Definition rm_in (all tr : list oev) : bool :=
  forallb (fun e => let '(c, i, v) := e in
     if (c =? E_PANIC)%Z then existsb (fun e' => let '(c', i', v') := e' in (c' =? E_RAISE)%Z && (i' =? i)%Z && (v' =? v)%Z) all else true) tr.
Lemma raise_matches_rm tr : raise_matches tr = rm_in tr tr.
Proof. reflexivity. Qed.
Lemma rm_in_mono all x t : rm_in all t = true -> rm_in (all ++ x) t = true.
Proof.
  unfold rm_in. rewrite !forallb_forall. intros H [[c i] v] Hin. specialize (H _ Hin). cbv beta iota in *.
  destruct (c =? E_PANIC)%Z; auto. rewrite existsb_app. apply orb_true_iff. left. exact H.
Qed.
Lemma raise_matches_snoc t u : raise_matches t = true -> rm_in (t ++ u) u = true -> raise_matches (t ++ u) = true.
Proof.
  intros H1 H2. rewrite raise_matches_rm.
  assert (A : forall all a b, rm_in all (a ++ b) = rm_in all a && rm_in all b) by (intros; apply forallb_app).
  rewrite A, H2, rm_in_mono by exact H1. reflexivity.
Qed.

(* ---------------------------------------------------------------- Wait *)
Definition has_call (o : list oev) : bool := existsb (fun e => (fst (fst e) =? E_WAITCALL)%Z) o.
(* what holds of the trace before a WAITRET: a Wait was called, and every task is untouched or has ended *)
Definition wait_pre (t1 : list oev) : Prop :=
  has_call t1 = true /\ forall j, phase (zi j) 0 t1 = Some 0 \/ phase (zi j) 0 t1 = Some 5.
(* on the reversed trace (newest event first), as the simulation builds it *)
Fixpoint G2rev (o : list oev) : Prop :=
  match o with [] => True | e :: o' => (fst (fst e) = E_WAITRET -> wait_pre (rev o')) /\ G2rev o' end.

Lemma G2rev_split : forall o, G2rev o -> forall t1 e t2, rev o = t1 ++ e :: t2 -> fst (fst e) = E_WAITRET -> wait_pre t1.
Proof.
  induction o as [|x o IH]; intros HG t1 e t2 E He; cbn [rev G2rev] in *.
  - destruct t1; discriminate.
  - destruct HG as [Hx HG]. induction t2 as [|y t2 _] using rev_ind.
    + apply app_inj_tail in E as [E1 E2]. subst. auto.
    + change (t1 ++ e :: t2 ++ [y]) with (t1 ++ (e :: t2) ++ [y]) in E. rewrite app_assoc in E.
      apply app_inj_tail in E as [E1 _]. eapply IH; eauto.
Qed.

Lemma last_waitcall_some : forall t1 rest k best,
  (match best with Some b => b < k + length t1 | None => has_call t1 = true end) ->
  exists q, last_waitcall k best (k + length t1) (t1 ++ rest) = Some q /\ q < k + length t1.
Proof.
  induction t1 as [|[[c i] v] t1 IH]; intros rest k best H; cbn [app length] in *.
  - destruct best as [b|]; [|discriminate]. exists b. split; auto.
    destruct rest as [|[[c i] v] rest]; cbn [last_waitcall]; auto.
    destruct (Nat.leb_spec (k + 0) k); [reflexivity|lia].
  - cbn [last_waitcall]. destruct (Nat.leb_spec (k + S (length t1)) k); [lia|].
    replace (k + S (length t1)) with (S k + length t1) by lia. apply IH.
    destruct (Z.eqb_spec c E_WAITCALL) as [->|Hc]; [lia|].
    destruct best as [b|]; [lia|]. cbn [has_call existsb fst] in H. destruct (Z.eqb_spec c E_WAITCALL); [congruence|]. exact H.
Qed.

Lemma task_once_end t i : task_once t i = true -> exists c, end_pos i t = Some c /\ c < length t.
Proof.
  unfold task_once. intros H. apply andb_true_iff in H as [_ H].
  destruct (pos_of E_SUBMIT i 0 t); [|discriminate]. destruct (pos_of E_START i 0 t); [|discriminate].
  destruct (end_pos i t) as [c|] eqn:E; [|discriminate]. exists c. split; auto.
  unfold end_pos in E. destruct (pos_of E_RETURN i 0 t) eqn:E1.
  - inversion E; subst. apply pos_of_range in E1. lia.
  - apply pos_of_range in E. lia.
Qed.
Lemma end_pos_app_quiet i t u : quiet i u = true -> end_pos i (t ++ u) = end_pos i t.
Proof.
  intros Q. unfold end_pos. rewrite !pos_of_app, !(pos_of_quiet _ i u) by (auto; reflexivity).
  destruct (pos_of E_RETURN i 0 t); [reflexivity|]. destruct (pos_of E_PANIC i 0 t); reflexivity.
Qed.

Lemma wait_ok_at_true tr t1 e t2 : tr = t1 ++ e :: t2 -> wait_pre t1 ->
  (forall i, In i (ids_of tr) -> exists j, i = zi j /\ phase i 0 tr = Some 5) ->
  wait_ok_at tr (length t1) = true.
Proof.
  intros E [Hc Hp] Hids. unfold wait_ok_at.
  destruct (last_waitcall_some t1 (e :: t2) 0 None Hc) as (q & Eq & Hq). cbn [Nat.add] in Eq, Hq. rewrite <- E in Eq. rewrite Eq.
  apply forallb_forall. intros i Hi. destruct (Hids i Hi) as (j & -> & H5).
  destruct (pos_of E_SUBMIT (zi j) 0 tr) as [a|] eqn:Ea; [|reflexivity].
  destruct (Nat.ltb_spec a q); [|reflexivity].
  rewrite E, pos_of_app in Ea. destruct (pos_of E_SUBMIT (zi j) 0 t1) as [a'|] eqn:E1; [|apply pos_of_range in Ea; lia].
  destruct (Hp j) as [H0|H1].
  - apply phase_same_quiet in H0. rewrite pos_of_quiet in E1 by (auto; reflexivity). discriminate.
  - rewrite E, phase_app, H1 in H5. destruct (phase5_quiet _ _ _ H5) as [Qr _].
    destruct (task_once_end _ _ (phase_task_once _ _ H1)) as (c & Ec & Hlt).
    rewrite E, end_pos_app_quiet, Ec by exact Qr. apply Nat.ltb_lt. exact Hlt.
Qed.

Lemma waits_ok_suffix tr :
  (forall t1 e t2, tr = t1 ++ e :: t2 -> fst (fst e) = E_WAITRET -> wait_pre t1) ->
  (forall i, In i (ids_of tr) -> exists j, i = zi j /\ phase i 0 tr = Some 5) ->
  forall t t1, tr = t1 ++ t -> waits_ok t tr (length t1) = true.
Proof.
  intros HW Hids. induction t as [|[[c i] v] t IH]; intros t1 E; cbn [waits_ok]; [reflexivity|].
  apply andb_true_iff. split.
  - destruct (Z.eqb_spec c E_WAITRET) as [Hc|]; [|reflexivity]. eapply wait_ok_at_true; eauto.
  - replace (S (length t1)) with (length (t1 ++ [(c, i, v)])) by (rewrite app_length; cbn; lia).
    apply IH. rewrite <- app_assoc. exact E.
Qed.
Lemma waits_ok_all tr :
  (forall t1 e t2, tr = t1 ++ e :: t2 -> fst (fst e) = E_WAITRET -> wait_pre t1) ->
  (forall i, In i (ids_of tr) -> exists j, i = zi j /\ phase i 0 tr = Some 5) ->
  waits_ok tr tr 0 = true.
Proof. intros HW Hids. apply (waits_ok_suffix tr HW Hids tr []). reflexivity. Qed.

(* ---------------------------------------------------------------- ids_of *)
Lemma ids_of_in i tr : In i (ids_of tr) -> exists c v, In (c, i, v) tr /\ tcode c = true.
Proof.
  unfold ids_of. intros H. apply nodup_In, in_map_iff in H. destruct H as ([[c i'] v] & E & H). cbn in E. subst i'.
  apply filter_In in H as [H Hc]. exists c, v. split; auto. unfold tcode.
  apply orb_true_iff in Hc as [Hc|Hc]; rewrite Hc; rewrite ?orb_true_r; reflexivity.
Qed.
Lemma ids_of_submit i v tr : In (E_SUBMIT, i, v) tr -> In i (ids_of tr).
Proof.
  intros H. unfold ids_of. apply nodup_In, in_map_iff. exists (E_SUBMIT, i, v). split; [reflexivity|].
  apply filter_In. split; auto.
Qed.
Lemma phase_pos_in i tr q : phase i 0 tr = Some q -> q <> 0 -> In i (ids_of tr).
Proof.
  intros H Hq. destruct (phase_first i tr 0 q H) as (t0 & c & v & u & p' & E & _ & Ht & X & _); [lia|].
  destruct (trans0 _ _ Ht X) as [-> _]. apply (ids_of_submit i v). rewrite E. apply in_or_app. right; left; reflexivity.
Qed.
Lemma ids_of_phase i tr : In i (ids_of tr) -> phase i 0 tr <> Some 0.
Proof.
  intros H H0. destruct (ids_of_in _ _ H) as (c & v & Hin & Ht). apply phase_same_quiet in H0. exact (quiet_not_in _ _ _ _ H0 Ht Hin).
Qed.

(* ---------------------------------------------------------------- encodings *)
Lemma dec_enc_trace : forall l, dec_trace (enc_trace l) = l.
Proof. induction l as [|[[c i] v] l IH]; cbn [enc_trace dec_trace]; [reflexivity|]. rewrite IH. reflexivity. Qed.
Lemma get_put_list x y : get_list (put_list x ++ y) = (x, y).
Proof.
  unfold put_list, get_list. cbn [app]. rewrite Nat2Z.id.
  rewrite firstn_app, firstn_all, Nat.sub_diag, skipn_app, skipn_all, Nat.sub_diag. cbn [firstn skipn app]. rewrite app_nil_r. reflexivity.
Qed.
