(* C01: "a Push (Pop) returns false only if the ring was full (empty) at some instant during the call or another
   operation overlapped it", as statements about the two places where false is returned.
   Sequence check of Push fails (at its own step, the current instant): the tail has moved since this operation loaded it
   (a Push linearised in between), or the ring is full now, or the slot is still owned by an operation in flight.
   CAS of Push fails: the tail has moved since this operation loaded it.   Pop: the mirror image. *)
From Coq Require Import List ZArith Lia Bool Arith.
Import ListNotations.
From V Require Import Model.SyncRingConc Proofs.SyncRingConc.
Local Open Scope Z_scope.

Theorem push_seq_check_fails_excused k c i v pos T0 x :
  Inv k c -> nth_error (ths c) i = Some (PuLoadSeq v pos T0) ->
  nth_error (slots (sh c)) (sidx (sh c) pos) = Some x -> snd x <> pos ->
  T0 < tl (sh c) \/ Z.of_nat (length (q (sh c))) = cap (sh c) \/
  (exists j pj f, nth_error (ths c) j = Some pj /\ owner_phase pj = Some f /\ is_owned f = true /\
                  sidx (sh c) (ticket f) = sidx (sh c) (tl (sh c))).
Proof.
  intros HI Hi Hx Hne. pose proof (inv_g _ _ HI) as HG. pose proof (get_assert c k i _ HI Hi) as Ha.
  cbn [tassert] in Ha. destruct Ha as (Hpos & HT0). subst pos.
  destruct (Z.eq_dec T0 (tl (sh c))) as [E|E]; [|left; lia]. subst T0. right.
  rewrite (sidx_u32 k _ _ HG) in Hx.
  destruct (phase_exists k (sh c) (tl (sh c)) HG) as [f Hf]. unfold phase_at in Hf.
  pose proof (g_slots _ _ HG _ _ _ Hx Hf) as (Hidx & Hsq & Hr).
  destruct (cap_bounds k (g_k _ _ HG)) as [[H2 H31] _]. pose proof (g_cap _ _ HG) as Hc.
  pose proof (g_q _ _ HG). pose proof (g_full _ _ HG). pose proof (g_hd _ _ HG).
  destruct f as [p|p|p|p]; cbn [ticket seq_of] in *.
  - (* Free p: then p = tl and the check would have passed *)
    exfalso. assert (p = tl (sh c)) by (eapply (same_index_ticket k (sh c)); eauto; lia). subst p. congruence.
  - (* PushOwned p with p = tl - cap: the ring is full *)
    left. assert (p = tl (sh c) - cap (sh c)).
    { assert (sidx (sh c) p = sidx (sh c) (tl (sh c) - cap (sh c))).
      { rewrite Hidx. unfold sidx. f_equal. rewrite Hc. rewrite <- (Z.mod_add (tl (sh c) - 2 ^ k) 1 (2 ^ k)) by lia. f_equal. lia. }
      eapply (same_index_ticket k (sh c)); eauto; lia. }
    lia.
  - (* Published p with p = tl - cap: the ring is full *)
    left. destruct Hr as [Hr _]. assert (p = tl (sh c) - cap (sh c)).
    { assert (sidx (sh c) p = sidx (sh c) (tl (sh c) - cap (sh c))).
      { rewrite Hidx. unfold sidx. f_equal. rewrite Hc. rewrite <- (Z.mod_add (tl (sh c) - 2 ^ k) 1 (2 ^ k)) by lia. f_equal. lia. }
      eapply (same_index_ticket k (sh c)); eauto; lia. }
    lia.
  - (* PopOwned p: a Pop is still in flight on this very slot *)
    right. destruct (inv_o _ _ HI _ _ Hf eq_refl) as (j & pj & Hj & Ho).
    exists j, pj, (PopOwned p). repeat split; auto.
Qed.

Theorem push_cas_fails_overtaken k c i v pos seq T0 :
  Inv k c -> nth_error (ths c) i = Some (PuCas v pos seq T0) -> u32 (tl (sh c)) <> pos -> T0 < tl (sh c).
Proof.
  intros HI Hi Hne. pose proof (get_assert c k i _ HI Hi) as Ha. cbn [tassert] in Ha.
  destruct Ha as (Hpos & HT0 & _). subst pos. destruct (Z.eq_dec T0 (tl (sh c))); [congruence|lia].
Qed.

Theorem pop_seq_check_fails_excused k c i pos H0 x :
  Inv k c -> nth_error (ths c) i = Some (PoLoadSeq pos H0) ->
  nth_error (slots (sh c)) (sidx (sh c) pos) = Some x -> snd x <> u32 (pos + 1) ->
  H0 < hd (sh c) \/ q (sh c) = [] \/
  (exists j pj f, nth_error (ths c) j = Some pj /\ owner_phase pj = Some f /\ is_owned f = true /\
                  sidx (sh c) (ticket f) = sidx (sh c) (hd (sh c))).
Proof.
  intros HI Hi Hx Hne. pose proof (inv_g _ _ HI) as HG. pose proof (get_assert c k i _ HI Hi) as Ha.
  cbn [tassert] in Ha. destruct Ha as (Hpos & HH0). subst pos.
  destruct (Z.eq_dec H0 (hd (sh c))) as [E|E]; [|left; lia]. subst H0. right.
  rewrite (sidx_u32 k _ _ HG) in Hx. rewrite u32_succ in Hne.
  destruct (phase_exists k (sh c) (hd (sh c)) HG) as [f Hf]. unfold phase_at in Hf.
  pose proof (g_slots _ _ HG _ _ _ Hx Hf) as (Hidx & Hsq & Hr).
  destruct (cap_bounds k (g_k _ _ HG)) as [[H2 H31] _]. pose proof (g_cap _ _ HG) as Hc.
  pose proof (g_q _ _ HG). pose proof (g_full _ _ HG). pose proof (g_hd _ _ HG).
  assert (Hlen : q (sh c) = [] <-> Z.of_nat (length (q (sh c))) = 0) by (destruct (q (sh c)); cbn [length]; split; intros; try congruence; lia).
  destruct f as [p|p|p|p]; cbn [ticket seq_of] in *.
  - (* Free p, p in [tl, hd+cap), same slot as hd: p = hd, so tl <= hd: empty *)
    left. apply Hlen. assert (p = hd (sh c)) by (eapply (same_index_ticket k (sh c)); eauto; lia). lia.
  - (* PushOwned p: a Push is still in flight on this very slot *)
    right. destruct (inv_o _ _ HI _ _ Hf eq_refl) as (j & pj & Hj & Ho).
    exists j, pj, (PushOwned p). repeat split; auto.
  - (* Published p: then p = hd and the check would have passed *)
    exfalso. destruct Hr as [Hr _]. assert (p = hd (sh c)) by (eapply (same_index_ticket k (sh c)); eauto; lia). subst p. congruence.
  - (* PopOwned p with p in [tl - cap, hd), same slot as hd: p = hd - cap ... then tl <= hd: empty *)
    left. apply Hlen. assert (p = hd (sh c) - cap (sh c)).
    { assert (sidx (sh c) p = sidx (sh c) (hd (sh c) - cap (sh c))).
      { rewrite Hidx. unfold sidx. f_equal. rewrite Hc. rewrite <- (Z.mod_add (hd (sh c) - 2 ^ k) 1 (2 ^ k)) by lia. f_equal. lia. }
      eapply (same_index_ticket k (sh c)); eauto; lia. }
    lia.
Qed.

Theorem pop_cas_fails_overtaken k c i pos seq H0 :
  Inv k c -> nth_error (ths c) i = Some (PoCas pos seq H0) -> u32 (hd (sh c)) <> pos -> H0 < hd (sh c).
Proof.
  intros HI Hi Hne. pose proof (get_assert c k i _ HI Hi) as Ha. cbn [tassert] in Ha.
  destruct Ha as (Hpos & HH0 & _). subst pos. destruct (Z.eq_dec H0 (hd (sh c))); [congruence|lia].
Qed.
