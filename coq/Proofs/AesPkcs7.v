(* C08, hypothesis-free part: length helpers, the padding table, pkcs7UnPadding (table version) and the standalone
   PKCS7Padding / PKCS7UnPadding.  From design-notes/proto/Pkcs7Cbc_proto.v and Pkcs7Standalone_proto.v. *)
From Coq Require Import List ZArith Lia Bool Arith.
From V Require Import Lib.Enc Gen.Cryptz Model.Aes.
Import ListNotations.

Lemma BS_eq : BS = 16. Proof. reflexivity. Qed.
Lemma TAG_eq : TAG = 16. Proof. reflexivity. Qed.

Lemma beq_true a : forall b, beq a b = true <-> a = b.
Proof.
  induction a as [|x a IH]; intros [|y b]; cbn [beq]; split; intros H; try reflexivity; try discriminate.
  - apply andb_true_iff in H. destruct H as [H1 H2]. apply Z.eqb_eq in H1. apply IH in H2. subst. reflexivity.
  - inversion H; subst. rewrite Z.eqb_refl. cbn [andb]. apply IH. reflexivity.
Qed.
Lemma beq_refl a : beq a a = true. Proof. apply beq_true. reflexivity. Qed.

Lemma list_eqb_true a : forall b, list_eqb a b = true <-> a = b.
Proof.
  induction a as [|x a IH]; intros [|y b]; cbn [list_eqb]; split; intros H; try reflexivity; try discriminate.
  - apply andb_true_iff in H. destruct H as [H1 H2]. apply Z.eqb_eq in H1. apply IH in H2. subst. reflexivity.
  - inversion H; subst. rewrite Z.eqb_refl. cbn [andb]. apply IH. reflexivity.
Qed.
Lemma list_eqb_refl a : list_eqb a a = true. Proof. apply list_eqb_true. reflexivity. Qed.

(* ---- len & blockSizeMask is len mod 16 *)
Lemma masked_mod n : masked n = n mod 16.
Proof.
  unfold masked. change block_size_mask with (Z.ones 4). rewrite Z.land_ones by lia.
  change (2 ^ 4)%Z with 16%Z. rewrite <- (Nat2Z.id (n mod 16)). f_equal.
  rewrite Nat2Z.inj_mod. reflexivity.
Qed.

Lemma mod16_lt n : n mod 16 < 16. Proof. apply Nat.mod_upper_bound. lia. Qed.

(* AESCBCEncryptLen is the next multiple of 16 strictly above the length; the other helpers are +-16 / identity *)
Theorem cbc_encrypt_len_exact n :
  cbc_encrypt_len n = Z.of_nat (16 * (n / 16 + 1)) /\ cbc_encrypt_len n = Z.of_nat (n + (16 - n mod 16)).
Proof.
  unfold cbc_encrypt_len. rewrite masked_mod. change aes_block_size with 16%Z.
  pose proof (mod16_lt n). pose proof (Nat.div_mod n 16 ltac:(lia)). split; lia.
Qed.
Theorem len_helpers_exact n :
  cbc_decrypt_len n = Z.of_nat n /\ gcm_encrypt_len n = (Z.of_nat n + 16)%Z /\ gcm_decrypt_len n = (Z.of_nat n - 16)%Z.
Proof. repeat split. Qed.

(* ---- the table built by init() holds the 17 PKCS#7 suffixes *)
Lemma pad_table_spec n : n <= 16 -> nth_error pad_table n = Some (repeat (Z.of_nat n) n).
Proof.
  intros H. do 17 (destruct n as [|n]; [vm_compute; reflexivity|]). lia.
Qed.
Lemma pad_table_none n : 16 < n -> nth_error pad_table n = None.
Proof. intros H. apply nth_error_None. change (length pad_table) with 17. lia. Qed.

Lemma last_app_repeat (p : bytes) x n : 0 < n -> last (p ++ repeat x n) 0%Z = x.
Proof.
  intros H. destruct n; [lia|]. replace (S n) with (n + 1) by lia. rewrite repeat_app, app_assoc. cbn [repeat].
  apply last_last.
Qed.
Lemma last_opt_some (d : bytes) : d <> [] -> last_opt d = Some (last d 0%Z).
Proof. destruct d; [congruence|reflexivity]. Qed.

Lemma last_In (d : bytes) : d <> [] -> In (last d 0%Z) d.
Proof.
  induction d as [|a t IH]; [congruence|]. intros _. destruct t as [|b t']; [left; reflexivity|].
  right. apply IH. discriminate.
Qed.

(* ---- pkcs7UnPadding (table version) *)
(* explicit characterisation: on a buffer of at least 16 bytes the result is decided by the last byte k:
   Ok (len - k) iff 1 <= k <= 16 and the last k bytes all equal k *)
Lemma unpad_tbl_char d : 16 <= length d ->
  unpad_tbl d =
    let k := last d 0%Z in
    if (16 <? k)%Z || (k <=? 0)%Z then Err E_PADLEN
    else if beq (repeat k (Z.to_nat k)) (skipn (length d - Z.to_nat k) d) then Ok (length d - Z.to_nat k) else Err E_PADBYTES.
Proof.
  intros Hlen. unfold unpad_tbl. rewrite last_opt_some by (destruct d; cbn in *; [lia|congruence]).
  cbv zeta. change aes_block_size with 16%Z. set (k := last d 0%Z).
  destruct ((16 <? k)%Z || (k <=? 0)%Z) eqn:E1; [reflexivity|].
  apply orb_false_iff in E1. destruct E1 as [E1 E2]. apply Z.ltb_ge in E1. apply Z.leb_gt in E2.
  rewrite pad_table_spec by lia. rewrite Z2Nat.id by lia.
  destruct (Nat.ltb_spec (length d) (Z.to_nat k)); [lia|]. reflexivity.
Qed.

Theorem unpad_tbl_never_panics d : 16 <= length d -> unpad_tbl d <> Panic.
Proof.
  intros H. rewrite unpad_tbl_char by exact H. cbv zeta.
  destruct (_ || _); [discriminate|]. destruct (beq _ _); discriminate.
Qed.

Theorem unpad_tbl_sound_complete d n : 16 <= length d ->
  (unpad_tbl d = Ok n <-> exists k, 1 <= k <= 16 /\ n + k = length d /\ skipn n d = repeat (Z.of_nat k) k).
Proof.
  intros Hlen. rewrite unpad_tbl_char by exact Hlen. cbv zeta. set (k := last d 0%Z). split.
  - destruct ((16 <? k)%Z || (k <=? 0)%Z) eqn:E1; [discriminate|].
    apply orb_false_iff in E1. destruct E1 as [E1 E2]. apply Z.ltb_ge in E1. apply Z.leb_gt in E2.
    destruct (beq _ _) eqn:B; [|discriminate]. intros E. inversion E; subst n. apply beq_true in B.
    exists (Z.to_nat k). split; [lia|]. split; [lia|]. rewrite <- B. rewrite Z2Nat.id by lia. reflexivity.
  - intros (j & Hj & Hn & Hs).
    assert (Hd : d = firstn n d ++ repeat (Z.of_nat j) j) by (rewrite <- Hs; symmetry; apply firstn_skipn).
    assert (Hk : k = Z.of_nat j) by (unfold k; rewrite Hd; apply last_app_repeat; lia).
    rewrite Hk. destruct (Z.ltb_spec 16 (Z.of_nat j)); [lia|]. destruct (Z.leb_spec (Z.of_nat j) 0); [lia|]. cbn [orb].
    rewrite Nat2Z.id. replace (length d - j) with n by lia. rewrite Hs, beq_refl. reflexivity.
Qed.

(* errors are never a wrong length: anything that is not a correctly padded buffer is an Err *)
Corollary unpad_tbl_rejects d : 16 <= length d ->
  (forall k, 1 <= k <= 16 -> skipn (length d - k) d <> repeat (Z.of_nat k) k) -> exists e, unpad_tbl d = Err e.
Proof.
  intros Hlen Hno. destruct (unpad_tbl d) as [n|e|] eqn:E.
  - apply unpad_tbl_sound_complete in E; [|exact Hlen]. destruct E as (k & Hk & Hn & Hs).
    exfalso. apply (Hno k Hk). replace (length d - k) with n by lia. exact Hs.
  - eauto.
  - exfalso. revert E. apply unpad_tbl_never_panics. exact Hlen.
Qed.

(* ---- standalone PKCS7Padding / PKCS7UnPadding, block size an int *)
Theorem pkcs7_unpad_never_panics d bs : pkcs7_unpad d bs <> Panic.
Proof.
  unfold pkcs7_unpad. destruct (Nat.eqb_spec (length d) 0); [discriminate|]. destruct (Z.leb_spec bs 0); [discriminate|].
  destruct (Nat.eqb_spec (length d mod Z.to_nat bs) 0) as [Hm|]; cbn [negb]; [|discriminate].
  destruct (Z.leb_spec (last d 0%Z) 0); cbn [orb]; [discriminate|]. destruct (Z.ltb_spec bs (last d 0%Z)); [discriminate|].
  assert (Z.to_nat bs <= length d).
  { apply Nat.mod_divides in Hm; [|lia]. destruct Hm as [c Hc]. destruct c; [lia|]. rewrite Hc. nia. }
  destruct (Nat.ltb_spec (length d) (Z.to_nat (last d 0%Z))); [lia|].
  destruct (beq _ _); discriminate.
Qed.
Theorem pkcs7_pad_never_panics d bs : pkcs7_pad d bs <> Panic.
Proof. unfold pkcs7_pad. destruct (_ =? _); [discriminate|]. destruct (_ <=? _)%Z; discriminate. Qed.

(* PKCS7Padding with a block size 1..255 appends k = bs - len mod bs bytes of value k *)
Theorem pkcs7_pad_spec d bs : d <> [] -> (1 <= bs <= 255)%Z ->
  pkcs7_pad d bs = Ok (pkcs7_padded d (spec_pad_len (length d) (Z.to_nat bs))).
Proof.
  intros Hne Hbs. unfold pkcs7_pad, pkcs7_padded, spec_pad_len.
  destruct (Nat.eqb_spec (length d) 0) as [E|_]; [destruct d; [congruence|discriminate]|].
  destruct (Z.leb_spec bs 0); [lia|].
  pose proof (Nat.mod_upper_bound (length d) (Z.to_nat bs) ltac:(lia)).
  rewrite Z.mod_small by lia. reflexivity.
Qed.

Theorem pkcs7_unpad_pad d bs : d <> [] -> (1 <= bs <= 255)%Z ->
  exists pd, pkcs7_pad d bs = Ok pd /\ pkcs7_unpad pd bs = Ok d.
Proof.
  intros Hne Hbs. rewrite pkcs7_pad_spec by assumption. eexists. split; [reflexivity|].
  unfold pkcs7_padded, spec_pad_len.
  set (b := Z.to_nat bs). assert (Hb : 1 <= b <= 255) by (unfold b; lia).
  pose proof (Nat.mod_upper_bound (length d) b ltac:(lia)) as Hmod.
  set (pl := b - length d mod b). assert (Hpl : 1 <= pl <= b) by (unfold pl; lia).
  set (pd := d ++ repeat (Z.of_nat pl) pl).
  assert (Hl : length pd = length d + pl) by (unfold pd; rewrite app_length, repeat_length; reflexivity).
  assert (Hlast : last pd 0%Z = Z.of_nat pl) by (unfold pd; apply last_app_repeat; lia).
  unfold pkcs7_unpad. destruct (Nat.eqb_spec (length pd) 0); [lia|]. destruct (Z.leb_spec bs 0); [lia|]. fold b.
  assert (Hm0 : (length pd mod b = 0)%nat).
  { rewrite Hl. unfold pl. pose proof (Nat.div_mod (length d) b ltac:(lia)) as Edm.
    replace (length d + (b - length d mod b)) with ((length d / b + 1) * b) by nia. apply Nat.mod_mul. lia. }
  rewrite Hm0. cbn [Nat.eqb negb]. rewrite Hlast.
  destruct (Z.leb_spec (Z.of_nat pl) 0); [lia|]. destruct (Z.ltb_spec bs (Z.of_nat pl)); [lia|]. cbn [orb].
  rewrite Nat2Z.id, Z.mod_small by lia. destruct (Nat.ltb_spec (length pd) pl); [lia|].
  replace (length pd - pl) with (length d) by lia. unfold pd. rewrite skipn_app, skipn_all, Nat.sub_diag. cbn [skipn app].
  rewrite beq_refl. rewrite firstn_app, Nat.sub_diag, firstn_all. cbn [firstn]. rewrite app_nil_r. reflexivity.
Qed.

(* sound and complete for every positive block size: Ok r exactly when the input is r followed by k bytes of value k,
   1 <= k <= bs (k <= 255 since it is a byte), and the length is a multiple of bs.  Bytes are 0..255. *)
Definition is_byte (z : Z) : Prop := (0 <= z < 256)%Z.

Theorem pkcs7_unpad_sound_complete d bs r : (1 <= bs)%Z -> Forall is_byte d ->
  (pkcs7_unpad d bs = Ok r <->
   exists k, 1 <= k /\ (Z.of_nat k <= bs)%Z /\ d = r ++ repeat (Z.of_nat k) k /\ (length d mod Z.to_nat bs = 0)%nat).
Proof.
  intros Hbs Hby. unfold pkcs7_unpad. split.
  - destruct (Nat.eqb_spec (length d) 0) as [|Hne]; [discriminate|]. destruct (Z.leb_spec bs 0); [discriminate|].
    destruct (Nat.eqb_spec (length d mod Z.to_nat bs) 0) as [Hm|]; cbn [negb]; [|discriminate].
    destruct (Z.leb_spec (last d 0%Z) 0); cbn [orb]; [discriminate|]. destruct (Z.ltb_spec bs (last d 0%Z)); [discriminate|].
    set (p := last d 0%Z) in *. destruct (Nat.ltb_spec (length d) (Z.to_nat p)); [discriminate|].
    destruct (beq _ _) eqn:F; [|discriminate]. intros E. inversion E; subst r. exists (Z.to_nat p).
    assert (Hp : is_byte p).
    { unfold p. rewrite Forall_forall in Hby. apply Hby. apply last_In. intros ->. cbn in Hne. lia. }
    unfold is_byte in Hp. split; [lia|]. split; [lia|]. split; auto.
    apply beq_true in F. rewrite Z.mod_small in F by lia.
    rewrite <- (firstn_skipn (length d - Z.to_nat p) d) at 1. f_equal. rewrite F, Z2Nat.id by lia. reflexivity.
  - intros (k & Hk1 & Hk2 & Hd & Hm). subst d. set (d := r ++ repeat (Z.of_nat k) k) in *.
    assert (Hl : length d = length r + k) by (unfold d; rewrite app_length, repeat_length; reflexivity).
    assert (Hlast : last d 0%Z = Z.of_nat k) by (unfold d; apply last_app_repeat; lia).
    assert (Hkb : (Z.of_nat k < 256)%Z).
    { rewrite <- Hlast. rewrite Forall_forall in Hby. apply Hby. apply last_In. intros E0. rewrite E0 in Hl. cbn in Hl. lia. }
    destruct (Nat.eqb_spec (length d) 0); [lia|]. destruct (Z.leb_spec bs 0); [lia|]. rewrite Hm. cbn [Nat.eqb negb].
    rewrite Hlast. destruct (Z.leb_spec (Z.of_nat k) 0); [lia|]. destruct (Z.ltb_spec bs (Z.of_nat k)); [lia|]. cbn [orb].
    rewrite Nat2Z.id, Z.mod_small by lia. destruct (Nat.ltb_spec (length d) k); [lia|].
    replace (length d - k) with (length r) by lia. unfold d.
    rewrite skipn_app, skipn_all, Nat.sub_diag. cbn [skipn app]. rewrite beq_refl.
    rewrite firstn_app, Nat.sub_diag, firstn_all. cbn [firstn]. rewrite app_nil_r. reflexivity.
Qed.

(* argument guards: empty data and non-positive block sizes are errors *)
Theorem pkcs7_guards d bs :
  (d = [] \/ (bs <= 0)%Z) -> (exists e, pkcs7_pad d bs = Err e) /\ (exists e, pkcs7_unpad d bs = Err e).
Proof.
  intros H. unfold pkcs7_pad, pkcs7_unpad. destruct (Nat.eqb_spec (length d) 0) as [E|E]; [split; eauto|].
  destruct H as [->|H]; [cbn in E; lia|]. destruct (Z.leb_spec bs 0); [split; eauto|lia].
Qed.
