(* C12: the call-driven machine (Model/SafeKVCalls.v): every call returns what the plain-map specification returns on the map
   it found when it took the lock, and leaves the map the specification says — for every thread count and every schedule. *)
From Coq Require Import List Arith Lia Bool ZArith.
From V Require Import Lib.Enc Gen.SafeKVSkel Model.SafeKV Model.SafeKVCalls Proofs.SafeKVInv Proofs.SafeKVConc Proofs.SafeKVSkelOk Proofs.SafeKVExec.
Import ListNotations.

Lemma skel_index_ok c : nth (skel_index c) all_skels [] = skel_of c.
Proof. destruct c; reflexivity. Qed.

Lemma map_upd {A B} (f : A -> B) l i x : map f (upd l i x) = upd (map f l) i (f x).
Proof. revert i; induction l as [|a l IH]; intros [|i]; cbn [upd map]; auto. f_equal. apply IH. Qed.
Lemma nth_error_map_base l i : nth_error (map base l) i = option_map base (nth_error l i).
Proof. revert i; induction l as [|a l IH]; intros [|i]; cbn [map nth_error option_map]; auto. Qed.

(* ---------------------------------------------------------------- every step is a step (or a stutter) of the generic machine *)
Lemma cexec_base l m t e c r ch : let '(l', m', t') := cexec l m t e c r ch in exec_ev l m (base t) e c r ch = (l', m', base t').
Proof. unfold cexec. destruct (exec_ev l m (base t) e c r ch) as [[l' m'] b']. reflexivity. Qed.

Definition idle_ok (t : cthread) : Prop := ccall t = None -> cur (base t) = [] /\ rest (base t) = [].

Lemma proj_cstep c sc : Forall idle_ok (cths c) ->
  exists chs, proj (cstep c sc) = run all_skels (proj c) chs.
Proof.
  intros Hid. destruct sc as [i nc]. unfold cstep. destruct (nth_error (cths c) i) as [t|] eqn:Hi; [|exists []; reflexivity].
  assert (Hit : idle_ok t) by (rewrite Forall_forall in Hid; apply Hid; eapply nth_error_In; eauto).
  assert (Hpi : nth_error (ths (proj c)) i = Some (base t)) by (cbn [proj ths]; rewrite nth_error_map_base, Hi; reflexivity).
  set (ch := choice_of i t nc).
  assert (Htid : tid ch = i) by (unfold ch, choice_of; destruct (ccall t); reflexivity).
  assert (Hone : forall l' m' t', tstep all_skels (clk c) (cmp c) (base t) ch = (l', m', base t') ->
            proj {| clk := l'; cmp := m'; cths := upd (cths c) i t' |} = run all_skels (proj c) [ch]).
  { intros l' m' t' Hs. cbn [run fold_left]. unfold step. rewrite Htid, Hpi. cbn [proj lk mp] in *. rewrite Hs.
    unfold proj. cbn [clk cmp cths]. rewrite map_upd. reflexivity. }
  assert (Hzero : forall t', base t' = base t -> proj {| clk := clk c; cmp := cmp c; cths := upd (cths c) i t' |} = proj c).
  { intros t' Hb. unfold proj. cbn [clk cmp cths]. rewrite map_upd, Hb.
    rewrite (upd_same (map base (cths c)) i (base t)); [reflexivity|]. rewrite nth_error_map_base, Hi. reflexivity. }
  destruct (ccall t) as [cl|] eqn:Ecall.
  - destruct (cur (base t)) as [|e cd] eqn:Ecur.
    + destruct (cinb t).
      * exists []. apply Hzero. reflexivity.
      * destruct (rest (base t)) as [|[e|b] r] eqn:Erest.
        -- exists []. apply Hzero. reflexivity.
        -- exists [ch]. pose proof (cexec_base (clk c) (cmp c) t e [] r ch) as Hb.
           destruct (cexec (clk c) (cmp c) t e [] r ch) as [[l' m'] t']. apply Hone. unfold tstep. rewrite Ecur, Erest. exact Hb.
        -- exists [ch]. assert (Hag : again ch = again_ cl (cobs t) (cit t)) by (unfold ch, choice_of; rewrite Ecall; reflexivity).
           destruct (again_ cl (cobs t) (cit t)) eqn:Ea; apply Hone; unfold tstep; rewrite Ecur, Erest, Hag; reflexivity.
    + exists [ch]. pose proof (cexec_base (clk c) (cmp c) t e cd (rest (base t)) ch) as Hb.
      destruct (cexec (clk c) (cmp c) t e cd (rest (base t)) ch) as [[l' m'] t']. apply Hone. unfold tstep. rewrite Ecur. exact Hb.
  - destruct (Hit Ecall) as [Ec Er]. exists [ch]. apply Hone. unfold tstep. rewrite Ec, Er.
    unfold ch, choice_of. rewrite Ecall. cbn [meth]. rewrite skel_index_ok. reflexivity.
Qed.

(* ---------------------------------------------------------------- the continuation function, one control step at a time *)
Definition star_headed (l : list item) : bool := match l with Star _ :: _ => true | _ => false end.

Lemma cont_body_event fs fr cl e cd rs it its m obs :
  cont fs fr cl (e :: cd) true rs it its m obs =
  cont fs fr cl cd true rs it its (fst (do_ev cl it e m obs)) (snd (do_ev cl it e m obs)).
Proof.
  unfold cont. destruct rs as [|[e0|b] r]; auto. cbn [run_body]. destruct (do_ev cl it e m obs) as [m1 obs1]. reflexivity.
Qed.

Lemma cont_top_event fs fr cl e r its m obs X :
  cont fs fr cl [] false (E e :: r) 0 its m obs = Some X ->
  exists fs', cont fs' fr cl [] false r 0 its (fst (do_ev cl 0 e m obs)) (snd (do_ev cl 0 e m obs)) = Some X.
Proof.
  unfold cont. cbn [run_items]. destruct (do_ev cl 0 e m obs) as [m1 obs1]. cbn [fst snd]. intros H.
  destruct r as [|[e0|b] r']; try (exists 0; exact H). exists fr. cbn [run_items] in H. exact H.
Qed.

Lemma cont_inc fs fr cl b r it its m obs :
  cont fs fr cl [] true (Star b :: r) it its m obs = cont fs fr cl [] false (Star b :: r) (S it) its m obs.
Proof. reflexivity. Qed.

Lemma cont_enter fs fr cl b r it its m obs X :
  cont fs fr cl [] false (Star b :: r) it its m obs = Some X -> again_ cl obs it = true ->
  exists fs', cont fs' fr cl b true (Star b :: r) it its m obs = Some X.
Proof.
  unfold cont. intros H Ha. destruct fs as [|f]; cbn [run_star] in H; rewrite Ha in H; [discriminate|].
  exists f. destruct (run_body cl it b m obs) as [m1 obs1]. exact H.
Qed.

Lemma cont_exit fs fr cl b r it its m obs X :
  cont fs fr cl [] false (Star b :: r) it its m obs = Some X -> again_ cl obs it = false ->
  exists fs', cont fs' fr cl [] false r 0 it m obs = Some X.
Proof.
  unfold cont. intros H Ha. assert (Hs : run_star fs cl it b m obs = Some (m, obs, it)) by (destruct fs; cbn [run_star]; rewrite Ha; reflexivity).
  rewrite Hs in H. destruct r as [|[e0|b'] r']; try (exists 0; exact H). exists fr. cbn [run_items] in H. exact H.
Qed.

Lemma cont_done fs fr cl its m obs : cont fs fr cl [] false [] 0 its m obs = Some (m, obs, its).
Proof. reflexivity. Qed.

Lemma cont_start cl M : exists fs fr oF iF,
  cont fs fr cl [] false (skel_of cl) 0 0 M [] = Some (fst (sem cl M), oF, iF) /\ result cl oF iF = snd (sem cl M).
Proof.
  pose proof (exec_call_is_sem cl M) as H. unfold exec_call in H.
  destruct (run_items (call_fuel cl M) cl (skel_of cl) M [] 0) as [[[m' obs] its]|] eqn:E0; [|discriminate].
  destruct (sem cl M) as [mF rF]. inversion H; subst. exists (call_fuel cl M), (call_fuel cl M), obs, its. cbn [fst snd]. split; auto.
  unfold cont. destruct (skel_of cl) as [|[e|b] r] eqn:Es; exact E0.
Qed.

(* code without lock operations and without map accesses does not touch the map *)
Definition quiet_ev (e : ev) : bool := match e with CallUser => true | _ => false end.
Definition quiet_item (i : item) : bool := match i with E e => quiet_ev e | Star b => forallb quiet_ev b end.

Lemma run_body_quiet cl it : forall b m obs, forallb quiet_ev b = true -> run_body cl it b m obs = (m, obs).
Proof.
  induction b as [|e b IH]; intros m obs H; cbn [run_body]; auto. cbn [forallb] in H. apply andb_prop in H as [He Hb].
  destruct e; try discriminate. cbn [do_ev]. apply IH; auto.
Qed.
Lemma run_star_quiet cl b : forallb quiet_ev b = true -> forall fs it m obs m' obs' n, run_star fs cl it b m obs = Some (m', obs', n) -> m' = m /\ obs' = obs.
Proof.
  intros Hb. induction fs as [|f IH]; intros it m obs m' obs' n H; cbn [run_star] in H; destruct (again_ cl obs it); try discriminate.
  - inversion H; auto.
  - rewrite (run_body_quiet cl it b m obs Hb) in H. apply IH in H. exact H.
  - inversion H; auto.
Qed.
Lemma run_items_quiet cl fr : forall l m obs its m' obs' n, forallb quiet_item l = true ->
  run_items fr cl l m obs its = Some (m', obs', n) -> m' = m.
Proof.
  induction l as [|[e|b] l IH]; intros m obs its m' obs' n Hq H; cbn [run_items] in H.
  - inversion H; auto.
  - cbn [forallb quiet_item] in Hq. apply andb_prop in Hq as [He Hl]. destruct e; try discriminate. cbn [do_ev] in H. eapply IH; eauto.
  - cbn [forallb quiet_item] in Hq. apply andb_prop in Hq as [Hb Hl].
    destruct (run_star fr cl 0 b m obs) as [[[m1 obs1] n1]|] eqn:Es; [|discriminate].
    destruct (run_star_quiet cl b Hb _ _ _ _ _ _ _ Es) as [-> ->]. eapply IH; eauto.
Qed.
Lemma wl_none_quiet : forall l, wl None l = true -> n_acq l = 0 -> forallb quiet_item l = true.
Proof.
  induction l as [|[e|b] l IH]; intros Hw Hn; cbn [forallb]; auto.
  - destruct e; cbn [wl acc_ok andb] in Hw; try discriminate.
    cbn [quiet_item quiet_ev andb]. apply IH; auto.
  - cbn [wl] in Hw. apply andb_prop in Hw as [Hb Hl]. cbn [quiet_item]. apply andb_true_intro. split.
    + exact Hb.                      (* acc_ok None and quiet_ev are the same function *)
    + apply IH; auto.
Qed.
Lemma cont_quiet fs fr cl rs its m obs X : forallb quiet_item rs = true ->
  cont fs fr cl [] false rs 0 its m obs = Some X -> fst (fst X) = m.
Proof.
  intros Hq. unfold cont. destruct rs as [|[e|b] r].
  - intros H. inversion H; reflexivity.
  - intros H. destruct X as [[m' obs'] n]. eapply run_items_quiet in H; eauto.
  - cbn [forallb quiet_item] in Hq. apply andb_prop in Hq as [Hb Hr].
    destruct (run_star fs cl 0 b m obs) as [[[m1 obs1] n1]|] eqn:Es; [|discriminate].
    destruct (run_star_quiet cl b Hb _ _ _ _ _ _ _ Es) as [-> ->]. intros H. destruct X as [[m' obs'] n]. eapply run_items_quiet in H; eauto.
Qed.

(* ---------------------------------------------------------------- the invariant of the call-driven machine *)
Definition claim (cl : call) (t : cthread) (M S : map_) : Prop :=
  exists fs fr oF iF,
    cont fs fr cl (cur (base t)) (cinb t) (rest (base t)) (cit t) (cits t) M (cobs t) = Some (fst (sem cl S), oF, iF) /\
    result cl oF iF = snd (sem cl S).

Definition log_ok (en : call * map_ * map_ * list Z) : Prop :=
  let '(cl, s, f, r) := en in f = fst (sem cl s) /\ r = snd (sem cl s).

Definition cok (m : map_) (t : cthread) : Prop :=
  Forall log_ok (clog t) /\
  match ccall t with
  | None => cur (base t) = [] /\ rest (base t) = []
  | Some cl =>
      n_acq (code (base t)) = (if cph t =? 0 then 1 else 0) /\
      (cinb t = false -> star_headed (rest (base t)) = false -> cit t = 0) /\
      match cph t with
      | 0 => hold (base t) = None /\ forall M, claim cl t M M
      | 1 => hold (base t) <> None /\ claim cl t m (snap (base t))
      | _ => hold (base t) = None /\ claim cl t (cfin t) (snap (base t)) /\ cfin t = fst (sem cl (snap (base t)))
      end
  end.

Record CInv (c : cconfig) : Prop := { ci_inv : Inv (proj c); ci_th : Forall (cok (cmp c)) (cths c) }.

Lemma n_acq_app a b : n_acq (a ++ b) = n_acq a + n_acq b.
Proof. unfold n_acq. rewrite filter_app, app_length. reflexivity. Qed.
Lemma n_acq_body h b : forallb (acc_ok h) b = true -> n_acq (map E b) = 0.
Proof.
  induction b as [|e b IH]; intros H; [reflexivity|]. cbn [forallb] in H. apply andb_prop in H as [He Hb].
  destruct e; cbn [acc_ok] in He; try discriminate; unfold n_acq in *; cbn [map filter]; apply IH; auto.
Qed.
Lemma skel_one_section c : one_section (skel_of c) = true.
Proof. destruct c; reflexivity. Qed.
Lemma skel_n_acq c : n_acq (skel_of c) = 1.
Proof. pose proof (skel_one_section c) as H. unfold one_section in H. apply andb_prop in H as [_ H]. apply Nat.eqb_eq. exact H. Qed.

(* steps that only move the control point: the map, the observations' meaning, phase and ghosts stay *)
Lemma ctrl_step_cok m t t' cl :
  cok m t -> ccall t = Some cl -> ccall t' = Some cl -> clog t' = clog t -> cph t' = cph t -> cfin t' = cfin t ->
  hold (base t') = hold (base t) -> snap (base t') = snap (base t) ->
  n_acq (code (base t')) = n_acq (code (base t)) ->
  (cinb t' = false -> star_headed (rest (base t')) = false -> cit t' = 0) ->
  (forall fs fr M X, cont fs fr cl (cur (base t)) (cinb t) (rest (base t)) (cit t) (cits t) M (cobs t) = Some X ->
        exists fs', cont fs' fr cl (cur (base t')) (cinb t') (rest (base t')) (cit t') (cits t') M (cobs t') = Some X) ->
  cok m t'.
Proof.
  intros [Hlog Hc] Ec Ec' El Ep Ef Eh Es En HK Hcont. unfold cok. rewrite El, Ec'. split; auto. rewrite Ec in Hc.
  destruct Hc as (Hn & _ & Hph). rewrite En, Ep, Ef, Eh, Es. split; auto. split; auto.
  assert (T : forall M S, claim cl t M S -> claim cl t' M S).
  { intros M S (fs & fr & oF & iF & H1 & H2). destruct (Hcont _ _ _ _ H1) as [fs' H']. exists fs', fr, oF, iF. auto. }
  destruct (cph t) as [|[|p]].
  - destruct Hph as [A B]. split; auto.
  - destruct Hph as [A B]. split; auto.
  - destruct Hph as (A & B & C). split; auto.
Qed.

Lemma claim_any m t cl : cok m t -> ccall t = Some cl -> exists M S, claim cl t M S.
Proof.
  intros [_ Hc] Ec. rewrite Ec in Hc. destruct Hc as (_ & _ & Hph). destruct (cph t) as [|[|p]].
  - destruct Hph as [_ B]. exists [], []. apply B.
  - destruct Hph as [_ B]. eauto.
  - destruct Hph as (_ & B & _). eauto.
Qed.
Lemma claim_shape cl t M S : claim cl t M S ->
  (cinb t = true -> exists b r, rest (base t) = Star b :: r) /\ (cinb t = false -> cur (base t) = []).
Proof.
  intros (fs & fr & oF & iF & H & _). unfold cont in H. split; intros E0; rewrite E0 in H.
  - destruct (rest (base t)) as [|[e|b] r]; try discriminate. eauto.
  - destruct (cur (base t)); [reflexivity|discriminate].
Qed.

Lemma cont_quiet_any fs fr cl cu inb rs it its m obs X : forallb quiet_item (map E cu ++ rs) = true ->
  cont fs fr cl cu inb rs it its m obs = Some X -> fst (fst X) = m.
Proof.
  intros Hq. rewrite forallb_app in Hq. apply andb_prop in Hq as [Hcu Hrs].
  assert (Hcu' : forallb quiet_ev cu = true) by (clear -Hcu; induction cu as [|e cu IH]; auto; cbn [map forallb quiet_item] in *; apply andb_prop in Hcu as [A B]; rewrite A; auto).
  unfold cont. destruct inb.
  - destruct rs as [|[e|b] r]; try discriminate. cbn [forallb quiet_item] in Hrs. apply andb_prop in Hrs as [Hb Hr].
    rewrite (run_body_quiet cl it cu m obs Hcu').
    destruct (run_star fs cl (S it) b m obs) as [[[m1 obs1] n1]|] eqn:Es; [|discriminate].
    destruct (run_star_quiet cl b Hb _ _ _ _ _ _ _ Es) as [-> ->]. intros H. destruct X as [[m' obs'] n]. eapply run_items_quiet in H; eauto.
  - destruct cu; [|discriminate]. destruct rs as [|[e|b] r].
    + intros H. inversion H; reflexivity.
    + intros H. destruct X as [[m' obs'] n]. eapply run_items_quiet in H; eauto.
    + cbn [forallb quiet_item] in Hrs. apply andb_prop in Hrs as [Hb Hr].
      destruct (run_star fs cl it b m obs) as [[[m1 obs1] n1]|] eqn:Es; [|discriminate].
      destruct (run_star_quiet cl b Hb _ _ _ _ _ _ _ Es) as [-> ->]. intros H. destruct X as [[m' obs'] n]. eapply run_items_quiet in H; eauto.
Qed.

(* executing one event of a call *)
Lemma cexec_cok l m t cl e cd rs idx ch l' m' t' :
  cok m t -> ccall t = Some cl -> tok m (base t) ->
  code (base t) = E e :: (map E cd ++ rs) -> eff ch = wr cl idx ->
  (cinb t = false -> star_headed rs = false -> cit t = 0) ->
  (forall fs fr M obs X, cont fs fr cl (cur (base t)) (cinb t) (rest (base t)) (cit t) (cits t) M obs = Some X ->
      exists fs', cont fs' fr cl cd (cinb t) rs (cit t) (cits t) (fst (do_ev cl idx e M obs)) (snd (do_ev cl idx e M obs)) = Some X) ->
  cexec l m t e cd rs ch = (l', m', t') ->
  cok m' t'.
Proof.
  intros Hok Ec [Hwl Hg] Hcode Heff HK HP Hex. rewrite Hcode in Hwl.
  pose proof Hok as [Hlog Hc]. rewrite Ec in Hc. destruct Hc as (Hn & _ & Hph). rewrite Hcode in Hn.
  unfold cexec in Hex. destruct e as [md|md|lo|lo|]; cbn [exec_ev] in Hex.
  - (* Acq *)
    assert (Hph0 : cph t = 0).
    { destruct (cph t) as [|p]; auto. exfalso. cbn [Nat.eqb] in Hn. unfold n_acq in Hn. cbn [filter length] in Hn. lia. }
    rewrite Hph0 in Hph, Hn. destruct Hph as [Hh Hcl]. rewrite Hh in Hwl. cbn [wl] in Hwl.
    assert (Hn' : n_acq (map E cd ++ rs) = 0) by (cbn [Nat.eqb] in Hn; unfold n_acq in *; cbn [filter length] in Hn; lia).
    assert (Hgo : forall b', hold b' = Some md -> cur b' = cd -> rest b' = rs -> snap b' = m ->
              cok m {| base := b'; ccall := ccall t; cit := cit t; cinb := cinb t; cobs := cobs t; cits := cits t; cph := 1; cfin := cfin t; clog := clog t |}).
    { intros b' Eh Ecu Ers Esn. unfold cok. cbn [clog ccall base cph cit cinb cits cobs cfin]. rewrite Ec. split; auto.
      unfold code. rewrite Ecu, Ers, Eh, Esn. cbn [Nat.eqb]. split; auto. split; auto. split; [discriminate|].
      destruct (Hcl m) as (fs & fr & oF & iF & H1 & H2). destruct (HP _ _ _ _ _ H1) as [fs' H']. cbn [do_ev fst snd] in H'.
      exists fs', fr, oF, iF. cbn [base cinb cit cits cobs]. rewrite Ecu, Ers. auto. }
    assert (Hstay : cok m {| base := base t; ccall := ccall t; cit := cit t; cinb := cinb t; cobs := cobs t; cits := cits t; cph := cph t; cfin := cfin t; clog := clog t |})
      by (destruct t; exact Hok).
    destruct md.
    + destruct (negb (writer l)); inversion Hex; subst; clear Hex; cbn [hold is_rd negb]; [apply Hgo; reflexivity|rewrite Hh; cbn [negb]; exact Hstay].
    + destruct (negb (writer l) && (readers l =? 0)); inversion Hex; subst; clear Hex; cbn [hold is_rd negb]; [apply Hgo; reflexivity|rewrite Hh; cbn [negb]; exact Hstay].
  - (* Rel *)
    assert (Hh : hold (base t) = Some md) by (destruct (hold (base t)) as [[|]|]; destruct md; cbn [wl] in Hwl; try discriminate; reflexivity).
    assert (Hph1 : cph t = 1).
    { destruct (cph t) as [|[|p]]; auto; [destruct Hph as [A _]|destruct Hph as (A & _)]; congruence. }
    rewrite Hph1 in Hph, Hn. destruct Hph as [_ Hcl]. cbn [Nat.eqb] in Hn.
    assert (Hn' : n_acq (map E cd ++ rs) = 0) by (unfold n_acq in *; cbn [filter length] in Hn; exact Hn).
    assert (Hwl' : wl None (map E cd ++ rs) = true) by (rewrite Hh in Hwl; destruct md; cbn [wl] in Hwl; exact Hwl).
    assert (Hgo : forall b', hold b' = None -> cur b' = cd -> rest b' = rs -> snap b' = snap (base t) ->
              cok m {| base := b'; ccall := ccall t; cit := cit t; cinb := cinb t; cobs := cobs t; cits := cits t; cph := 2; cfin := m; clog := clog t |}).
    { intros b' Eh Ecu Ers Esn. unfold cok. cbn [clog ccall base cph cit cinb cits cobs cfin]. rewrite Ec. split; auto.
      unfold code. rewrite Ecu, Ers, Eh, Esn. cbn [Nat.eqb]. split; auto. split; auto. split; auto.
      destruct Hcl as (fs & fr & oF & iF & H1 & H2). destruct (HP _ _ _ _ _ H1) as [fs' H']. cbn [do_ev fst snd] in H'.
      split; [exists fs', fr, oF, iF; cbn [base cinb cit cits cobs]; rewrite Ecu, Ers; auto|].
      pose proof (cont_quiet_any _ _ _ _ _ _ _ _ _ _ _ (wl_none_quiet _ Hwl' Hn') H') as Hq. cbn [fst] in Hq. symmetry. exact Hq. }
    destruct md; inversion Hex; subst; clear Hex; cbn [is_rd]; apply Hgo; reflexivity.
  - (* Rd *)
    cbn [wl acc_ok] in Hwl. apply andb_prop in Hwl as [Ha Hwl].
    assert (Hh : hold (base t) <> None) by (destruct (hold (base t)); [discriminate|discriminate]).
    assert (Hph1 : cph t = 1).
    { destruct (cph t) as [|[|p]]; auto; [destruct Hph as [A _]|destruct Hph as (A & _)]; congruence. }
    rewrite Hph1 in Hph, Hn. destruct Hph as [_ Hcl]. inversion Hex; subst; clear Hex. cbn [is_rd].
    unfold cok. cbn [clog ccall base cph cit cinb cits cobs cfin]. rewrite Ec, Hph1. split; auto.
    unfold code. cbn [cur rest hold snap Nat.eqb]. unfold n_acq in *. cbn [filter length] in Hn. split; auto. split; auto. split; auto.
    destruct Hcl as (fs & fr & oF & iF & H1 & H2). destruct (HP _ _ _ _ _ H1) as [fs' H']. cbn [do_ev fst snd] in H'.
    exists fs', fr, oF, iF. cbn [base cinb cit cits cobs cur rest]. auto.
  - (* Wr *)
    cbn [wl acc_ok] in Hwl. apply andb_prop in Hwl as [Ha Hwl].
    assert (Hh : hold (base t) <> None) by (destruct (hold (base t)) as [[|]|]; discriminate).
    assert (Hph1 : cph t = 1).
    { destruct (cph t) as [|[|p]]; auto; [destruct Hph as [A _]|destruct Hph as (A & _)]; congruence. }
    rewrite Hph1 in Hph, Hn. destruct Hph as [_ Hcl]. inversion Hex; subst; clear Hex. cbn [is_rd].
    unfold cok. cbn [clog ccall base cph cit cinb cits cobs cfin]. rewrite Ec, Hph1. split; auto.
    unfold code. cbn [cur rest hold snap Nat.eqb]. unfold n_acq in *. cbn [filter length] in Hn. split; auto. split; auto. split; auto.
    destruct Hcl as (fs & fr & oF & iF & H1 & H2). destruct (HP _ _ _ _ _ H1) as [fs' H']. cbn [do_ev fst snd] in H'.
    exists fs', fr, oF, iF. cbn [base cinb cit cits cobs cur rest]. rewrite Heff. auto.
  - (* CallUser *)
    inversion Hex; subst; clear Hex. cbn [is_rd].
    apply (ctrl_step_cok m' t _ cl Hok Ec); cbn [ccall clog cph cfin base cinb cit cits cobs]; unfold with_code; cbn [hold snap cur rest]; auto.
    + rewrite Hcode. reflexivity.
    + intros fs fr M X H. destruct (HP _ _ _ _ _ H) as [fs' H']. cbn [do_ev fst snd] in H'. eauto.
Qed.

Lemma cexec_mp l m t e cd rs ch l' m' t' : cexec l m t e cd rs ch = (l', m', t') -> m' = m \/ exists lo, e = Wr lo.
Proof.
  unfold cexec. destruct e as [[|]|[|]|lo|lo|]; cbn [exec_ev]; try (intros H; inversion H; auto; fail).
  - destruct (negb (writer l)); intros H; inversion H; auto.
  - destruct (negb (writer l) && (readers l =? 0)); intros H; inversion H; auto.
  - intros _. right. eauto.
Qed.

Lemma cok_eta m t : cok m t ->
  cok m {| base := base t; ccall := ccall t; cit := cit t; cinb := cinb t; cobs := cobs t; cits := cits t; cph := cph t; cfin := cfin t; clog := clog t |}.
Proof. destruct t; auto. Qed.

(* the stepping thread *)
Lemma cstep_thread c i nc t : CInv c -> nth_error (cths c) i = Some t ->
  exists l' m' t', cstep c (i, nc) = {| clk := l'; cmp := m'; cths := upd (cths c) i t' |} /\ cok m' t' /\
                   (m' = cmp c \/ hold (base t) = Some W).
Proof.
  intros [HI Hth] Hi. assert (Hok : cok (cmp c) t) by (rewrite Forall_forall in Hth; apply Hth; eapply nth_error_In; eauto).
  assert (Htok : tok (cmp c) (base t)).
  { destruct HI as [Ht _ _ _]. rewrite Forall_forall in Ht. apply Ht. cbn [proj ths]. apply in_map. eapply nth_error_In; eauto. }
  pose proof Htok as [Hwl _]. unfold cstep. rewrite Hi.
  destruct (ccall t) as [cl|] eqn:Ec.
  - destruct (claim_any _ _ _ Hok Ec) as (M0 & S0 & Hcl0). destruct (claim_shape _ _ _ _ Hcl0) as [Sh1 Sh2].
    pose proof Hok as [Hlog Hc]. rewrite Ec in Hc. destruct Hc as (Hn & HK & Hph).
    destruct (cur (base t)) as [|e cd] eqn:Ecur.
    + destruct (cinb t) eqn:Einb.
      * (* the iteration is over *)
        destruct (Sh1 eq_refl) as (b & r & Er). do 3 eexists. split; [reflexivity|]. split; [|left; reflexivity].
        apply (ctrl_step_cok (cmp c) t _ cl Hok Ec); cbn [ccall clog cph cfin base cinb cit cits cobs]; auto.
        -- intros _ Hs. rewrite Er in Hs. discriminate.
        -- intros fs fr M X H. exists fs. rewrite Ecur, Einb, Er in H. rewrite Ecur, Er. rewrite <- cont_inc. exact H.
      * destruct (rest (base t)) as [|[e|b] r] eqn:Er.
        -- (* the call returns *)
           do 3 eexists. split; [reflexivity|]. split; [|left; reflexivity].
           unfold cok. cbn [clog ccall base]. rewrite Ecur, Er. split; auto. apply Forall_app. split; auto. constructor; auto.
           unfold code in Hn, Hwl. rewrite Ecur, Er in Hn, Hwl. cbn [map app] in Hn, Hwl. apply wl_nil in Hwl.
           destruct (cph t) as [|[|p]]; [cbn in Hn; unfold n_acq in Hn; cbn in Hn; lia|destruct Hph as [A _]; congruence|].
           destruct Hph as (_ & (fs & fr & oF & iF & H1 & H2) & H3). rewrite Ecur, Einb, Er in H1. unfold cont in H1. cbn [run_items] in H1.
           inversion H1; subst. unfold log_ok. split; auto.
        -- (* a top-level event *)
           assert (Hit0 : cit t = 0) by (apply HK; auto; rewrite Er; reflexivity).
           destruct (cexec (clk c) (cmp c) t e [] r (choice_of i t nc)) as [[l' m'] t'] eqn:Ex.
           exists l', m', t'. split; [reflexivity|]. split.
           ++ eapply (cexec_cok (clk c) (cmp c) t cl e [] r 0); eauto.
              ** unfold code. rewrite Ecur, Er. reflexivity.
              ** unfold choice_of. rewrite Ec, Ecur. reflexivity.
              ** intros fs fr M obs X H. rewrite Ecur, Einb, Er, Hit0 in H. rewrite Einb, Hit0. eapply cont_top_event; eauto.
           ++ destruct (cexec_mp _ _ _ _ _ _ _ _ _ _ Ex) as [->|[lo ->]]; auto. right.
              unfold code in Hwl. rewrite Ecur, Er in Hwl. cbn [map app wl acc_ok] in Hwl. apply andb_prop in Hwl as [Ha _].
              destruct (hold (base t)) as [[|]|]; try discriminate; reflexivity.
        -- (* the head of a Star part *)
           assert (Hb : forallb (acc_ok (hold (base t))) b = true).
           { unfold code in Hwl. rewrite Ecur, Er in Hwl. cbn [map app wl] in Hwl. apply andb_prop in Hwl as [A _]. exact A. }
           destruct (again_ cl (cobs t) (cit t)) eqn:Ea; do 3 eexists; (split; [reflexivity|]); (split; [|left; reflexivity]).
           ++ apply (ctrl_step_cok (cmp c) t _ cl Hok Ec); cbn [ccall clog cph cfin base cinb cit cits cobs]; unfold with_code; cbn [hold snap cur rest]; auto.
              ** unfold code. cbn [cur rest]. rewrite Ecur, Er. cbn [map app]. rewrite n_acq_app, (n_acq_body _ _ Hb). reflexivity.
              ** intros fs fr M X H. rewrite Ecur, Einb, Er in H. eapply cont_enter; eauto.
           ++ apply (ctrl_step_cok (cmp c) t _ cl Hok Ec); cbn [ccall clog cph cfin base cinb cit cits cobs]; unfold with_code; cbn [hold snap cur rest]; auto.
              ** unfold code. cbn [cur rest]. rewrite Ecur, Er. reflexivity.
              ** intros fs fr M X H. rewrite Ecur, Einb, Er in H. eapply cont_exit; eauto.
    + (* an event inside an iteration *)
      assert (Einb : cinb t = true) by (destruct (cinb t) eqn:E0; [reflexivity|]; first [discriminate (Sh2 eq_refl) | discriminate (Sh2 E0)]).
      destruct (cexec (clk c) (cmp c) t e cd (rest (base t)) (choice_of i t nc)) as [[l' m'] t'] eqn:Ex.
      exists l', m', t'. split; [reflexivity|]. split.
      * eapply (cexec_cok (clk c) (cmp c) t cl e cd (rest (base t)) (cit t)); eauto.
        -- unfold code. rewrite Ecur. reflexivity.
        -- unfold choice_of. rewrite Ec, Ecur. reflexivity.
        -- intros fs fr M obs X H. rewrite Ecur, Einb in H. rewrite Einb. exists fs. rewrite <- cont_body_event. exact H.
      * destruct (cexec_mp _ _ _ _ _ _ _ _ _ _ Ex) as [->|[lo ->]]; auto. right.
        unfold code in Hwl. rewrite Ecur in Hwl. cbn [map app wl acc_ok] in Hwl. apply andb_prop in Hwl as [Ha _].
        destruct (hold (base t)) as [[|]|]; try discriminate; reflexivity.
  - (* idle: start the call *)
    pose proof Hok as [Hlog Hc]. rewrite Ec in Hc. destruct Hc as [Ecur Er].
    do 3 eexists. split; [reflexivity|]. split; [|left; reflexivity].
    unfold cok. cbn [clog ccall base cph cit cinb cits cobs cfin]. split; auto.
    unfold with_code, code. cbn [cur rest hold map app Nat.eqb]. split; [apply skel_n_acq|]. split; auto. split.
    + unfold code in Hwl. rewrite Ecur, Er in Hwl. apply wl_nil in Hwl. exact Hwl.
    + intros M. destruct (cont_start nc M) as (fs & fr & oF & iF & H1 & H2). exists fs, fr, oF, iF. cbn [base cinb cit cits cobs cur rest]. auto.
Qed.

(* a holder of the write lock excludes every other holder *)
Lemma writer_excl c0 i j a b : Inv c0 -> nth_error (ths c0) i = Some a -> nth_error (ths c0) j = Some b -> i <> j ->
  hold a = Some W -> hold b <> None -> False.
Proof.
  intros [Ht Hr Hw Hex] Hi Hj Hij Ha Hb. unfold cntR, cntW in *.
  assert (H1 : 1 <= length (filter isW (ths c0))) by (apply (filter_one isW (ths c0) i a Hi); unfold isW; rewrite Ha; reflexivity).
  assert (Ew : writer (lk c0) = true) by (destruct (writer (lk c0)); auto; lia).
  destruct (hold b) as [[|]|] eqn:Eb; [| |congruence].
  - assert (1 <= length (filter isR (ths c0))) by (apply (filter_one isR (ths c0) j b Hj); unfold isR; rewrite Eb; reflexivity).
    specialize (Hex Ew). lia.
  - assert (2 <= length (filter isW (ths c0))) by (apply (filter_two isW (ths c0) i j a b Hij Hi Hj); unfold isW; [rewrite Ha|rewrite Eb]; reflexivity).
    rewrite Ew in Hw. lia.
Qed.

Lemma cok_other m m' t : cok m t -> (hold (base t) <> None -> m' = m) -> cok m' t.
Proof.
  intros [Hlog Hc] Hm. split; auto. destruct (ccall t) as [cl|]; auto. destruct Hc as (Hn & HK & Hph). split; auto. split; auto.
  destruct (cph t) as [|[|p]]; auto. destruct Hph as [A B]. rewrite (Hm A). auto.
Qed.

Theorem cstep_cinv c sc : CInv c -> CInv (cstep c sc).
Proof.
  intros HC. pose proof HC as [HI Hth]. constructor.
  - assert (Hid : Forall idle_ok (cths c)).
    { rewrite Forall_forall in *. intros t Ht E0. destruct (Hth t Ht) as [_ Hc]. rewrite E0 in Hc. exact Hc. }
    destruct (proj_cstep c sc Hid) as [chs ->]. apply (run_inv all_skels all_methods_well_locked). exact HI.
  - destruct sc as [i nc]. destruct (nth_error (cths c) i) as [t|] eqn:Hi.
    + destruct (cstep_thread c i nc t HC Hi) as (l' & m' & t' & -> & Hok' & Hm). cbn [cmp cths].
      apply Forall_upd_others; auto. intros j y Hj Hy.
      assert (Hoky : cok (cmp c) y) by (rewrite Forall_forall in Hth; apply Hth; eapply nth_error_In; eauto).
      apply (cok_other (cmp c)); auto. intros Hh. destruct Hm as [->|Hw]; auto. exfalso.
      apply (writer_excl (proj c) i j (base t) (base y)); auto; cbn [proj ths]; rewrite nth_error_map_base; [rewrite Hi|rewrite Hy]; reflexivity.
    + unfold cstep. rewrite Hi. exact Hth.
Qed.

Lemma cinit_cinv n m0 : CInv (cinit n m0).
Proof.
  constructor.
  - assert (E0 : proj (cinit n m0) = init n m0).
    { unfold proj, cinit, init. cbn [clk cmp cths]. f_equal. induction n; cbn [repeat map]; [reflexivity|]. rewrite IHn. reflexivity. }
    rewrite E0. apply init_inv.
  - cbn [cinit cths cmp]. apply Forall_forall. intros t Ht. apply repeat_spec in Ht. subst. unfold cok, cidle. cbn. auto.
Qed.

Theorem crun_cinv sched : forall c, CInv c -> CInv (crun c sched).
Proof. induction sched as [|s t IH]; intros c H; cbn [crun fold_left]; auto. apply IH, cstep_cinv, H. Qed.

(* C12, atomicity of every call: in every configuration the call-driven machine reaches — any number of threads, any calls
   with any arguments, any schedule — every completed call of every thread returned exactly what the plain-map specification
   returns on the map the call found when it took the lock, and when it released the lock the map was exactly what the
   specification says it leaves *)
Theorem calls_atomic n m0 sched : let c := crun (cinit n m0) sched in
  forall t, In t (cths c) -> forall cl s f r, In (cl, s, f, r) (clog t) -> f = fst (sem cl s) /\ r = snd (sem cl s).
Proof.
  cbv zeta. intros t Ht cl s f r Hin. destruct (crun_cinv sched _ (cinit_cinv n m0)) as [_ Hth].
  rewrite Forall_forall in Hth. destruct (Hth t Ht) as [Hlog _]. rewrite Forall_forall in Hlog. apply (Hlog _ Hin).
Qed.

(* the generic machine underneath: every reachable configuration of the call-driven machine projects to a reachable
   configuration of the generic machine over the generated skeletons, hence is race free, has atomic critical sections, etc. *)
Theorem crun_generic sched : forall c, CInv c -> Inv (proj (crun c sched)).
Proof. intros c H. apply (crun_cinv sched c H). Qed.
Theorem calls_race_free n m0 sched : ~ race (proj (crun (cinit n m0) sched)).
Proof. apply inv_no_race. apply crun_generic. apply cinit_cinv. Qed.

(* the theorem is not vacuous: two threads, SetNx on the same absent key, the second blocked on the lock while the first is
   inside; both calls complete, exactly one reports true *)
Example two_setnx :
  let c := crun (cinit 2 []) (repeat (0, CSetNx 1 5) 2 ++ repeat (1, CSetNx 1 7) 3 ++ repeat (0, CSetNx 1 5) 9 ++ repeat (1, CSetNx 1 7) 12) in
  map (fun t => map (fun en => let '(_, s, f, r) := en in (s, f, r)) (clog t)) (cths c) =
  [[([], [(1, 5)], [1])]; [([(1, 5)], [(1, 5)], [0])]]%Z /\ cmp c = [(1, 5)]%Z.
Proof. vm_compute. split; reflexivity. Qed.
