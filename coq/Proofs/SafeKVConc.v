(* C12: consequences of the invariant — race freedom, atomic critical sections, sequential composition of write sections. *)
From Coq Require Import List Arith Lia Bool ZArith.
From V Require Import Lib.Enc Gen.SafeKVSkel Model.SafeKV Proofs.SafeKVInv.
Import ListNotations.

(* ---------------------------------------------------------------- no data race *)
Lemma inv_no_race c : Inv c -> ~ race c.
Proof.
  intros [Ht Hr Hw Hex] (i & j & ti & tj & la & a & lb & b & Hij & Hi & Hj & Ai & Aj & _ & Hab).
  rewrite Forall_forall in Ht.
  destruct (Ht ti (nth_error_In _ _ Hi)) as [Wi _]. destruct (Ht tj (nth_error_In _ _ Hj)) as [Wj _].
  assert (Hacc : forall t lo acc, wl (hold t) (code t) = true -> next_access t = Some (lo, acc) ->
                 (acc = true -> hold t = Some W) /\ (hold t = Some W \/ hold t = Some R)).
  { intros t lo acc Wt At. unfold next_access, next_ev, code in *.
    destruct (cur t) as [|e cd]; cbn [map app] in Wt.
    - destruct (rest t) as [|[e|bd] r]; try discriminate.
      destruct e; try discriminate; inversion At; subst; cbn [wl acc_ok] in Wt; apply andb_prop in Wt as [Wa _];
        destruct (hold t) as [[|]|]; try discriminate; split; auto; discriminate.
    - destruct e; try discriminate; inversion At; subst; cbn [wl acc_ok] in Wt; apply andb_prop in Wt as [Wa _];
        destruct (hold t) as [[|]|]; try discriminate; split; auto; discriminate. }
  destruct (Hacc ti la a Wi Ai) as [Ia Ih]. destruct (Hacc tj lb b Wj Aj) as [Ja Jh].
  unfold cntW, cntR in *.
  assert (Hcase : hold ti = Some W \/ hold tj = Some W).
  { destruct a; [left; auto|]. destruct b; [right; auto|]. discriminate. }
  assert (HW1 : forall t k, nth_error (ths c) k = Some t -> hold t = Some W -> writer (lk c) = true /\ length (filter isW (ths c)) = 1).
  { intros t k Hk Hh. assert (1 <= length (filter isW (ths c))) by (eapply filter_one; eauto; unfold isW; rewrite Hh; reflexivity).
    destruct (writer (lk c)); split; auto; lia. }
  destruct Hcase as [Hc|Hc].
  - destruct (HW1 ti i Hi Hc) as [Ew E1]. destruct Jh as [Jw|Jr].
    + assert (2 <= length (filter isW (ths c))) by (eapply (filter_two isW _ i j ti tj); eauto; unfold isW; rewrite ?Hc, ?Jw; reflexivity). lia.
    + assert (1 <= length (filter isR (ths c))) by (eapply (filter_one isR _ j tj); eauto; unfold isR; rewrite Jr; reflexivity).
      specialize (Hex Ew). lia.
  - destruct (HW1 tj j Hj Hc) as [Ew E1]. destruct Ih as [Iw|Ir].
    + assert (2 <= length (filter isW (ths c))) by (eapply (filter_two isW _ i j ti tj); eauto; unfold isW; rewrite ?Iw, ?Hc; reflexivity). lia.
    + assert (1 <= length (filter isR (ths c))) by (eapply (filter_one isR _ i ti); eauto; unfold isR; rewrite Ir; reflexivity).
      specialize (Hex Ew). lia.
Qed.

Section Methods.
Variable methods : list (list item).
Hypothesis methods_ok : forallb well_locked methods = true.
Local Notation step := (step methods).
Local Notation run := (run methods).

(* race-freedom half: if every method skeleton is well-locked, no schedule of any number of threads calling any methods in
   any order, with any data-dependent control flow and any write effects, reaches a data race on the map or its header *)
Theorem welllocked_race_free n m0 sched : ~ race (run (init n m0) sched).
Proof. apply inv_no_race, (run_inv methods methods_ok), init_inv. Qed.

(* atomicity half: in every reachable state, for every thread inside a critical section — a reader has seen only the map as
   it was when it took the lock, and the map still is that map (one consistent snapshot: Keys/Values/Range/All/GetWithMap);
   a writer's section is exactly its own writes applied to the map it found (nobody else's access came in between) *)
Theorem critical_sections_atomic n m0 sched : let c := run (init n m0) sched in
  forall t, In t (ths c) ->
    match hold t with
    | Some R => mp c = snap t /\ Forall (fun x => x = snap t) (seen t)
    | Some W => mp c = apply_all (done_ t) (snap t)
    | None => True
    end.
Proof.
  cbv zeta. intros t Hin. destruct (run_inv methods methods_ok sched (init n m0) (init_inv n m0)) as [Ht _ _ _].
  rewrite Forall_forall in Ht. destruct (Ht t Hin) as [_ Hg]. destruct (hold t) as [[|]|]; auto. tauto.
Qed.

(* ---------------------------------------------------------------- the map is the sequential composition of the write sections *)
(* the committed map: what the map was when the current writer (if any) came in *)
Definition committed (c : config) : map_ := match find isW (ths c) with Some t => snap t | None => mp c end.

Lemma find_none_count (f : thread -> bool) l : length (filter f l) = 0 -> find f l = None.
Proof. induction l as [|a l IH]; cbn [filter find]; auto. destruct (f a); cbn [length]; [lia|auto]. Qed.
Lemma find_upd_false (f : thread -> bool) l i t t' : nth_error l i = Some t -> f t = false -> f t' = false -> find f (upd l i t') = find f l.
Proof.
  revert i; induction l as [|a l IH]; intros [|i] H Ht Ht'; cbn [nth_error upd find] in *; try discriminate; auto.
  - inversion H; subst. rewrite Ht, Ht'. reflexivity.
  - destruct (f a); auto.
Qed.
Lemma find_upd_new (f : thread -> bool) l i t t' : nth_error l i = Some t -> length (filter f l) = 0 -> f t' = true -> find f (upd l i t') = Some t'.
Proof.
  revert i; induction l as [|a l IH]; intros [|i] H Hc Ht'; cbn [nth_error upd find filter] in *; try discriminate.
  - rewrite Ht'. reflexivity.
  - destruct (f a); cbn [length] in Hc; [lia|]. apply IH; auto.
Qed.
Lemma find_unique (f : thread -> bool) l i t : nth_error l i = Some t -> f t = true -> length (filter f l) <= 1 ->
  find f l = Some t /\ forall t', find f (upd l i t') = if f t' then Some t' else None.
Proof.
  revert i; induction l as [|a l IH]; intros [|i] H Ht Hc; cbn [nth_error upd find filter] in *; try discriminate.
  - inversion H; subst. rewrite Ht in *. cbn [length] in Hc. split; auto. intros t'. destruct (f t'); auto.
    apply find_none_count. lia.
  - destruct (f a) eqn:Ea; cbn [length] in Hc.
    + pose proof (filter_one f l i t H Ht). lia.
    + apply IH; auto.
Qed.

Lemma base_ok c : Inv c -> writer (lk c) = false -> committed c = mp c.
Proof.
  intros HI Hw. unfold committed. rewrite find_none_count; auto. pose proof (i_w c HI) as E0. rewrite Hw in E0. symmetry. exact E0.
Qed.

(* a step that changes only the code of thread i leaves the committed map alone *)
Lemma base_code_step c i t t' : nth_error (ths c) i = Some t -> hold t' = hold t -> snap t' = snap t ->
  length (filter isW (ths c)) <= 1 ->
  committed {| lk := lk c; mp := mp c; ths := upd (ths c) i t' |} = committed c.
Proof.
  intros Hi Eh Es Hle. unfold committed. cbn [ths mp]. destruct (isW t) eqn:Et.
  - destruct (find_unique isW _ i _ Hi Et Hle) as [F1 F2]. rewrite F1, F2.
    assert (isW t' = true) by (unfold isW in *; rewrite Eh; exact Et). rewrite H. congruence.
  - rewrite (find_upd_false isW _ i _ _ Hi); auto. unfold isW in *. rewrite Eh. exact Et.
Qed.

Lemma base_exec c i t e cd rs ch l' m' t' :
  Inv c -> nth_error (ths c) i = Some t -> wl (hold t) (E e :: map E cd ++ rs) = true ->
  exec_ev (lk c) (mp c) t e cd rs ch = (l', m', t') ->
  committed {| lk := l'; mp := m'; ths := upd (ths c) i t' |} =
  apply_all (match e with Rel W => done_ t | _ => [] end) (committed c).
Proof.
  intros HI Hi Hwl Hex0. pose proof HI as [Ht Hr Hw Hex].
  assert (Hti : tok (mp c) t) by (rewrite Forall_forall in Ht; apply Ht; eapply nth_error_In; eauto).
  destruct Hti as [_ Hg]. unfold cntW in Hw.
  assert (Hle : length (filter isW (ths c)) <= 1) by (destruct (writer (lk c)); lia).
  destruct t as [cu rs0 h sn se dn]. cbn [hold snap seen done_] in *.
  destruct e as [mo|mo|lo|lo|]; cbn [wl acc_ok] in Hwl; cbn [exec_ev hold snap seen done_] in Hex0.
  - destruct h; [discriminate|]. destruct mo; cbn [exec_ev] in Hex0.
    + revert Hex0. destruct (negb (writer (lk c))); intros Hex0; inversion Hex0; subst; clear Hex0; unfold committed; cbn [ths mp apply_all fold_left].
      * rewrite (find_upd_false isW _ i _ _ Hi); auto.
      * rewrite (upd_same _ _ _ Hi). reflexivity.
    + revert Hex0. destruct (negb (writer (lk c)) && (readers (lk c) =? 0)) eqn:Ew; intros Hex0; inversion Hex0; subst; clear Hex0; unfold committed; cbn [ths mp apply_all fold_left].
      * apply andb_prop in Ew. destruct Ew as [Ew _]. apply negb_true_iff in Ew. rewrite Ew in Hw.
        rewrite (find_upd_new isW _ i _ _ Hi); auto. cbn [snap]. rewrite find_none_count; auto.
      * rewrite (upd_same _ _ _ Hi). reflexivity.
  - destruct h as [[|]|]; destruct mo; try discriminate; inversion Hex0; subst; clear Hex0; unfold committed; cbn [ths mp].
    + rewrite (find_upd_false isW _ i _ _ Hi); auto.
    + destruct (find_unique isW _ i _ Hi eq_refl Hle) as [F1 F2]. rewrite F1, F2. cbn [isW hold snap]. exact Hg.
  - apply andb_prop in Hwl as [Ha Hwl]. destruct h as [mh|]; [|discriminate]. inversion Hex0; subst; clear Hex0.
    unfold committed; cbn [ths mp apply_all fold_left]. destruct mh.
    + rewrite (find_upd_false isW _ i _ _ Hi); auto.
    + destruct (find_unique isW _ i _ Hi eq_refl Hle) as [F1 F2]. rewrite F1, F2. reflexivity.
  - apply andb_prop in Hwl as [Ha Hwl]. destruct h as [[|]|]; try discriminate. inversion Hex0; subst; clear Hex0.
    unfold committed; cbn [ths mp apply_all fold_left].
    destruct (find_unique isW _ i _ Hi eq_refl Hle) as [F1 F2]. rewrite F1, F2. reflexivity.
  - inversion Hex0; subst; clear Hex0. cbn [apply_all fold_left].
    apply (base_code_step c i _ _ Hi); auto.
Qed.

Lemma base_step c ch : Inv c -> committed (step c ch) = apply_all (commit_of c ch) (committed c).
Proof.
  intros HI. unfold SafeKV.step, commit_of. destruct (nth_error (ths c) (tid ch)) as [t|] eqn:Hi; [|reflexivity].
  assert (Hti : tok (mp c) t) by (destruct HI as [Ht _ _ _]; rewrite Forall_forall in Ht; apply Ht; eapply nth_error_In; eauto).
  destruct Hti as [Hwl _]. unfold code in Hwl. unfold tstep, next_ev.
  assert (Hle : length (filter isW (ths c)) <= 1) by (pose proof (i_w c HI) as Hw; unfold cntW in Hw; destruct (writer (lk c)); lia).
  destruct (cur t) as [|e cd] eqn:Ec.
  - cbn [map app] in Hwl. destruct (rest t) as [|[e|b] r] eqn:Er.
    + apply (base_code_step c (tid ch) t _ Hi); auto.
    + destruct (exec_ev (lk c) (mp c) t e [] r ch) as [[l' m'] t'] eqn:Ex.
      rewrite (base_exec c (tid ch) t e [] r ch l' m' t' HI Hi Hwl Ex). destruct e as [| [|] | | |]; reflexivity.
    + destruct (again ch); apply (base_code_step c (tid ch) t _ Hi); auto.
  - cbn [map app] in Hwl. destruct (exec_ev (lk c) (mp c) t e cd (rest t) ch) as [[l' m'] t'] eqn:Ex.
    rewrite (base_exec c (tid ch) t e cd (rest t) ch l' m' t' HI Hi Hwl Ex). destruct e as [| [|] | | |]; reflexivity.
Qed.

Theorem base_run : forall sched c, Inv c -> committed (run c sched) = apply_all (commits methods c sched) (committed c).
Proof.
  induction sched as [|e s IH]; intros c HI; cbn [SafeKV.run fold_left commits]; [reflexivity|].
  change (fold_left step s (step c e)) with (run (step c e) s).
  rewrite IH by (apply step_inv; auto). rewrite base_step by auto. rewrite apply_all_app. reflexivity.
Qed.

(* whenever no write section is open, the map is the initial map with the completed write sections applied whole, one after
   another, in the order of their unlocks; every read section (which can only start then) works on exactly that map and, by
   critical_sections_atomic, keeps seeing it until it unlocks *)
Theorem map_is_sequential n m0 sched : let c := run (init n m0) sched in
  writer (lk c) = false -> mp c = apply_all (commits methods (init n m0) sched) m0.
Proof.
  cbv zeta. intros Hw. pose proof (run_inv methods methods_ok sched _ (init_inv n m0)) as HI.
  rewrite <- (base_ok _ HI Hw). rewrite base_run by apply init_inv. f_equal.
  apply base_ok; [apply init_inv|reflexivity].
Qed.

(* the three facts in one statement *)
Theorem welllocked_sound n m0 sched : let c := run (init n m0) sched in
  ~ race c /\
  (forall t, In t (ths c) ->
     match hold t with
     | Some R => mp c = snap t /\ Forall (fun x => x = snap t) (seen t)
     | Some W => mp c = apply_all (done_ t) (snap t)
     | None => True
     end) /\
  (writer (lk c) = false -> mp c = apply_all (commits methods (init n m0) sched) m0).
Proof.
  cbv zeta. split; [apply welllocked_race_free|]. split; [apply critical_sections_atomic|apply map_is_sequential].
Qed.
End Methods.
