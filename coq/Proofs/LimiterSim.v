(* C19: the predicted observation of a deterministic script (simulate = sub 0 of family 0) is a trace of the event model:
   accepted step by step from new_limiter n, ending with a Wait that returned with no task active. *)
From Coq Require Import List Arith ZArith Lia Bool.
From V Require Import Lib.Enc Gen.ConstsGoz Model.Limiter Proofs.Limiter.
Import ListNotations.

Lemma accept_obs_k : forall tr s k k' s', accept_obs s k tr = inl s' -> accept_obs s k' tr = inl s'.
Proof.
  induction tr as [|e t IH]; intros s k k' s' H; cbn [accept_obs] in *; auto.
  destruct (obs_events e) as [evs|]; [|discriminate]. destruct (accepts s evs) as [s1|]; [|discriminate]. eapply IH; eauto.
Qed.
Lemma accept_obs_snoc : forall tr s k s1 e evs s2, accept_obs s k tr = inl s1 -> obs_events e = Some evs -> accepts s1 evs = Some s2 ->
  accept_obs s k (tr ++ [e]) = inl s2.
Proof.
  induction tr as [|x t IH]; intros s k s1 e evs s2 H He Ha; cbn [accept_obs app] in *.
  - inversion H; subst. rewrite He, Ha. reflexivity.
  - destruct (obs_events x) as [xs|]; [|discriminate]. destruct (accepts s xs) as [s'|]; [|discriminate]. eapply IH; eauto.
Qed.

Definition Jp (n : Z) (l : st) (o : list oev) : Prop := accept_obs (new_limiter n) 0 (rev o) = inl l.
Definition J (n : Z) (m : sim) : Prop := Jp n (s_lim m) (s_out m).

Lemma Jp_emit n l o e evs l' : Jp n l o -> obs_events e = Some evs -> accepts l evs = Some l' -> Jp n l' (e :: o).
Proof. unfold Jp. intros H He Ha. cbn [rev]. eapply accept_obs_snoc; eauto. Qed.

Lemma zi_id i : Z.to_nat (zi i) = i.
Proof. unfold zi. apply Nat2Z.id. Qed.

Lemma obs_submit i : obs_events (E_SUBMIT, zi i, 0%Z) = Some [Submit i].
Proof. unfold obs_events. rewrite zi_id. reflexivity. Qed.
Lemma obs_start i : obs_events (E_START, zi i, 0%Z) = Some [Start i].
Proof. unfold obs_events. rewrite zi_id. reflexivity. Qed.
Lemma obs_return i : obs_events (E_RETURN, zi i, 0%Z) = Some [Return i; Cleanup i].
Proof. unfold obs_events. rewrite zi_id. reflexivity. Qed.
Lemma obs_panic i v : obs_events (E_PANIC, zi i, zi v) = Some [Panic i v; Cleanup i].
Proof. unfold obs_events. rewrite !zi_id. reflexivity. Qed.
Lemma obs_raise i v : obs_events (E_RAISE, i, v) = Some [].
Proof. reflexivity. Qed.
Lemma obs_waitcall : obs_events (E_WAITCALL, 0%Z, 0%Z) = Some [].
Proof. reflexivity. Qed.
Lemma obs_waitret : obs_events (E_WAITRET, 0%Z, 0%Z) = Some [WaitReturn].
Proof. reflexivity. Qed.

Lemma J_let_in n m i m2 : J n m -> let_in m i = Some m2 -> J n m2.
Proof.
  unfold J, let_in. intros HJ H. destruct (accepts (s_lim m) [Submit i; Start i]) as [l'|] eqn:Ea; [|discriminate].
  inversion H; subst; clear H. cbn [s_lim s_out]. cbn [accepts] in Ea.
  destruct (step (s_lim m) (Submit i)) as [s1|] eqn:E1; [|discriminate].
  destruct (step s1 (Start i)) as [s2|] eqn:E2; [|discriminate]. inversion Ea; subst.
  eapply Jp_emit; [eapply Jp_emit; [exact HJ|apply obs_submit|cbn [accepts]; rewrite E1; reflexivity]|apply obs_start|cbn [accepts]; rewrite E2; reflexivity].
Qed.

Lemma J_same n m m' : J n m -> s_lim m' = s_lim m -> s_out m' = s_out m -> J n m'.
Proof. unfold J. intros H -> ->. exact H. Qed.

Lemma J_op_go n m k : J n m -> J n (op_go m k).
Proof.
  intros HJ. unfold op_go. destruct (s_waiter m || (MAXTASKS <=? s_next m)); auto.
  destruct (s_queue m) as [|q0 q].
  - match goal with |- context [match let_in ?m1 ?i with _ => _ end] => destruct (let_in m1 i) as [m2|] eqn:El end.
    + eapply J_same; [eapply J_let_in; [|exact El]|reflexivity|reflexivity]. eapply J_same; [exact HJ|reflexivity|reflexivity].
    + eapply J_same; [exact HJ|reflexivity|reflexivity].
  - eapply J_same; [exact HJ|reflexivity|reflexivity].
Qed.

Lemma J_op_wait n m : J n m -> J n (op_wait m).
Proof.
  intros HJ. unfold op_wait. destruct (s_waiter m); auto. destruct (s_queue m); auto.
  destruct (step (s_lim m) WaitReturn) as [l'|] eqn:Ew; unfold J; cbn [s_lim s_out].
  - eapply Jp_emit; [eapply Jp_emit; [exact HJ|apply obs_waitcall|reflexivity]|apply obs_waitret|cbn [accepts]; rewrite Ew; reflexivity].
  - eapply Jp_emit; [exact HJ|apply obs_waitcall|reflexivity].
Qed.

Lemma J_rel_spawn n m kind : J n m -> J n (rel_spawn m kind).
Proof.
  intros HJ. unfold rel_spawn.
  destruct (kind_spawns kind && match s_queue m with [] => true | _ :: _ => false end && (s_next m <? MAXTASKS)); auto.
  cbv zeta. match goal with |- context [match let_in ?mc ?c with _ => _ end] => destruct (let_in mc c) as [m'|] eqn:El end; auto.
  eapply J_same; [eapply J_let_in; [|exact El]|reflexivity|reflexivity]. eapply J_same; [exact HJ|reflexivity|reflexivity].
Qed.
Lemma J_rel_end n m1 j kind : J n m1 -> match rel_end m1 j kind with Some m2 => J n m2 | None => True end.
Proof.
  intros HJ1. unfold rel_end. cbv zeta. destruct (kind_panics kind).
  - destruct (accepts (s_lim m1) [Panic j (panic_value j); Cleanup j]) as [l2|] eqn:Ea; [|exact I].
    unfold J. cbn [s_lim s_out].
    eapply Jp_emit; [eapply Jp_emit; [exact HJ1|apply obs_raise|reflexivity]|apply obs_panic|exact Ea].
  - destruct (accepts (s_lim m1) [Return j; Cleanup j]) as [l2|] eqn:Ea; [|exact I].
    unfold J. cbn [s_lim s_out].
    eapply Jp_emit; [exact HJ1|apply obs_return|exact Ea].
Qed.
Lemma J_rel_after n m2 : J n m2 -> J n (rel_after m2).
Proof.
  intros HJ2. unfold rel_after. destruct (s_queue m2) as [|h q].
  - destruct (s_waiter m2); auto. destruct (step (s_lim m2) WaitReturn) as [l3|] eqn:Ew; auto.
    unfold J. cbn [s_lim s_out]. eapply Jp_emit; [exact HJ2|apply obs_waitret|cbn [accepts]; rewrite Ew; reflexivity].
  - cbv zeta. match goal with |- context [match let_in ?m3 ?h with _ => _ end] => destruct (let_in m3 h) as [m4|] eqn:El end.
    + eapply J_same; [eapply J_let_in; [|exact El]|reflexivity|reflexivity]. eapply J_same; [exact HJ2|reflexivity|reflexivity].
    + eapply J_same; [exact HJ2|reflexivity|reflexivity].
Qed.
Lemma J_op_rel n m k : J n m -> J n (op_rel m k).
Proof.
  intros HJ. unfold op_rel. destruct (s_act m) as [|a0 act']; auto. cbv zeta.
  match goal with |- context [rel_end ?m1 ?j ?kind] =>
    pose proof (J_rel_spawn n m kind HJ) as HJ1; pose proof (J_rel_end n m1 j kind HJ1) as HJ2; destruct (rel_end m1 j kind) as [m2|] end.
  - apply J_rel_after. exact HJ2.
  - eapply J_same; [exact HJ1|reflexivity|reflexivity].
Qed.

Lemma J_run_script n : forall ops m, J n m -> J n (run_script m ops).
Proof.
  fix IH 1. intros [|c [|a r]] m HJ; cbn [run_script]; auto. apply IH.
  destruct (c =? 1)%Z; [apply J_op_go; auto|]. destruct (c =? 2)%Z; [apply J_op_rel; auto|]. destruct (c =? 3)%Z; [apply J_op_wait; auto|auto].
Qed.
Lemma J_drain n : forall fuel m, J n m -> J n (drain fuel m).
Proof. induction fuel as [|f IH]; intros m HJ; cbn [drain]; auto. destruct (s_act m); auto. apply IH, J_op_rel, HJ. Qed.
Lemma J_sim0 n : J n (sim0 n).
Proof. reflexivity. Qed.

(* after the final op_wait with no outstanding waiter, the last observed event is a WAITRET and the counter is 0 *)
Lemma op_wait_done m : s_waiter (op_wait m) = false -> s_queue (op_wait m) = [] -> s_waiter m = false ->
  wg (s_lim (op_wait m)) = 0 /\ exists o, s_out (op_wait m) = (E_WAITRET, 0%Z, 0%Z) :: o.
Proof.
  unfold op_wait. intros H1 H2 H0. rewrite H0 in *. destruct (s_queue m) eqn:Eq; [|cbn in H2; congruence].
  destruct (step (s_lim m) WaitReturn) as [l'|] eqn:Ew; cbn [s_waiter s_lim s_out] in *; [|discriminate].
  cbn [step] in Ew. destruct (Nat.eqb_spec (wg (s_lim m)) 0); [|discriminate]. inversion Ew; subst. split; eauto.
Qed.

(* family 0: whatever the script, the model's prediction is NOFUEL (never seen in the run) or the encoding of a trace that the
   event model accepts step by step from new_limiter n and that ends with Wait returning when nothing is active *)
Theorem simulate_is_model_trace n ops :
  simulate n ops = [NOFUEL] \/
  exists tr fin s, simulate n ops = put_list (enc_trace tr) ++ fin /\
    accept_obs (new_limiter n) 0 tr = inl s /\ wg s = 0 /\ tokens s = 0 /\ ends_with_waitret tr = true.
Proof.
  unfold simulate. set (m0 := drain (3 * MAXTASKS) (run_script (sim0 n) ops)).
  assert (HJ0 : J n m0) by (apply J_drain, J_run_script, J_sim0).
  pose proof (J_op_wait n m0 HJ0) as HJ. set (m := op_wait m0) in *.
  destruct (s_bad m || s_waiter m || negb match s_queue m with [] => true | _ :: _ => false end) eqn:Ec; [left; reflexivity|right].
  apply orb_false_elim in Ec as [Ec Eq]. apply orb_false_elim in Ec as [_ Ew]. apply negb_false_iff in Eq.
  assert (Hq : s_queue m = []) by (destruct (s_queue m); [reflexivity|discriminate]).
  assert (Hw0 : s_waiter m0 = false).
  { destruct (s_waiter m0) eqn:E0; auto. unfold m, op_wait in Ew. rewrite E0 in Ew. congruence. }
  destruct (op_wait_done m0 Ew Hq Hw0) as [Hwg [o Ho]]. fold m in Hwg, Ho.
  exists (rev (s_out m)), [zi (s_next m); zi (s_npanic m); zi (s_maxin m)], (s_lim m).
  split; [reflexivity|]. split; [exact HJ|]. split; [exact Hwg|]. split.
  - (* tokens = wg by the invariant of the event model *)
    destruct (accept_obs_sound _ _ _ _ HJ) as (evs & _ & Ha).
    set (ids := nodup Nat.eq_dec (flat_map (fun e => match e with Submit i => [i] | _ => [] end) evs)).
    assert (Hsub : forall i, In (Submit i) evs -> In i ids).
    { intros i Hi. apply nodup_In. apply in_flat_map. exists (Submit i). split; auto. left; reflexivity. }
    pose proof (accepts_inv ids (NoDup_nodup _ _) evs _ _ Hsub (init_inv ids n) Ha) as [Ht Hw _ _]. lia.
  - unfold ends_with_waitret. rewrite rev_involutive, Ho. reflexivity.
Qed.
