(* C11: interface-level consequences of the invariant, from any state satisfying it. *)
From Coq Require Import List ZArith Lia Bool Arith.
Import ListNotations.
From V Require Import Model.SyncListConc Proofs.SyncListConc.
Local Open Scope Z_scope.

Lemma Inv_clear_hist c : Inv c -> Inv {| sh := sh c; ths := ths c; hist := [] |}.
Proof. intros [A1 A2 A3 A4 A5 A6 A7 A8 A9 A10]. constructor; cbn [sh ths hist]; auto. Qed.

Theorem synclist_from_inv c0 sched : Inv c0 -> let c := run c0 sched in
  Inv c /\
  replay (lin (sh c)) [] = Some (q (sh c)) /\
  (forall i v g, In (i, RPop v g) (hist c) -> v = Some g) /\
  (forall i z g, In (i, RLen z g) (hist c) -> 0 <= g <= z) /\
  0 <= Z.of_nat (length (q (sh c))) <= len (sh c) /\
  (Forall (fun p => p = Idle) (ths c) -> len (sh c) = Z.of_nat (length (q (sh c)))).
Proof.
  intros HI0. cbv zeta. pose proof (run_inv sched c0 HI0) as HI. split; [exact HI|].
  destruct HI as [Hht _ _ Hq _ Hcnt Hlin _ _ HH].
  pose proof (sumw_nonneg (ths (run c0 sched))) as Hs.
  split; [exact Hlin|]. split; [|split; [|split]].
  - intros i v g Hin. rewrite Forall_forall in HH. apply (HH _ Hin).
  - intros i z g Hin. rewrite Forall_forall in HH. apply (HH _ Hin).
  - lia.
  - intros Hidle. assert (sumw (ths (run c0 sched)) = 0).
    { clear -Hidle. induction (ths (run c0 sched)) as [|p l IH]; [reflexivity|]. inversion Hidle; subst. cbn [sumw wlen]. rewrite IH; auto. }
    lia.
Qed.

(* race freedom of the plain accesses to node.value *)
Theorem synclist_race_free_inv c : Inv c ->
  (forall a b p1 p2 m, a <> b -> nth_error (ths c) a = Some p1 -> nth_error (ths c) b = Some p2 ->
     owns p1 = Some m -> owns p2 <> Some m) /\
  (forall a b p1 p2 m k v, nth_error (ths c) a = Some p1 -> nth_error (ths c) b = Some p2 ->
     owns p1 = Some m -> (p2 = PushAdd k v \/ p2 = PushStoreTail k v) -> (m < k)%nat).
Proof.
  intros [Hht _ _ _ _ _ _ Hu Ht _]. split; [exact Hu|].
  intros a b p1 p2 m k v Ha Hb Ho Hp. rewrite Forall_forall in Ht.
  pose proof (Ht p1 (nth_error_In _ _ Ha)) as T1. pose proof (Ht p2 (nth_error_In _ _ Hb)) as T2.
  assert (Hm : (m <= head (sh c))%nat).
  { destruct p1; cbn [owns] in Ho; try discriminate; inversion Ho; subst; cbn [tassert] in T1; tauto. }
  destruct Hp as [-> | ->]; cbn [tassert] in T2; lia.
Qed.

(* every state the correspondence run starts from (npre values stored sequentially) satisfies the invariant *)
Lemma replay_pushes : forall vs q0, replay (map LPush vs) q0 = Some (q0 ++ vs).
Proof.
  induction vs as [|v vs IH]; intros q0; cbn [map replay].
  - rewrite app_nil_r. reflexivity.
  - rewrite IH, <- app_assoc. reflexivity.
Qed.
Lemma sumw_idle n : sumw (repeat Idle n) = 0.
Proof. induction n as [|n IH]; cbn [repeat sumw wlen]; lia. Qed.
Lemma nlinked_idle n : nlinked (repeat Idle n) = 0.
Proof. induction n as [|n IH]; cbn [repeat nlinked linked]; lia. Qed.

Theorem seq_state_inv npre n : Inv (seq_state npre n).
Proof.
  unfold seq_state. cbv zeta. constructor; cbn [sh ths hist vals head tail len q lin].
  - lia.
  - rewrite nlinked_idle. cbn [length]. rewrite !map_length, seq_length. cbn. lia.
  - rewrite nlinked_idle. lia.
  - rewrite map_length, seq_length. lia.
  - intros j Hj. rewrite map_length, seq_length in Hj. cbn [Nat.add nth].
    rewrite (nth_indep _ None (Some 0)) by (rewrite !map_length, seq_length; lia).
    rewrite (map_nth Some). reflexivity.
  - rewrite sumw_idle. lia.
  - apply (replay_pushes _ []).
  - intros a b p1 p2 m _ Ha _ Ho. apply nth_error_In, repeat_spec in Ha. subst. discriminate.
  - apply Forall_forall. intros p Hp. apply repeat_spec in Hp. subst. exact I.
  - constructor.
Qed.
