(* C11: interface-level consequences of the invariant, from any state satisfying it. *)
From Coq Require Import List ZArith Lia Bool Arith.
Import ListNotations.
From V Require Import Model.SyncListConc Proofs.SyncListConc.
Local Open Scope Z_scope.

Lemma Inv_clear_hist c : Inv c -> Inv {| sh := sh c; ths := ths c; hist := [] |}.
Proof. intros [A1 A2 A3 A4 A5 A6 A7 A8 A9 A10]. constructor; cbn [sh ths hist]; auto. Qed.

Theorem synclist_from_inv c0 sched : Inv c0 -> let c := run c0 sched in
  Inv c /\
  replay (lin (sh c)) [] = Some (q (sh c)) /\
  (forall i v g, In (i, RPop v g) (hist c) -> v = Some g) /\
  (forall i z g, In (i, RLen z g) (hist c) -> 0 <= g <= z) /\
  0 <= Z.of_nat (length (q (sh c))) <= len (sh c) /\
  (Forall (fun p => p = Idle) (ths c) -> len (sh c) = Z.of_nat (length (q (sh c)))).
Proof.
  intros HI0. cbv zeta. pose proof (run_inv sched c0 HI0) as HI. split; [exact HI|].
  destruct HI as [Hht _ _ Hq _ Hcnt Hlin _ _ HH].
  pose proof (sumw_nonneg (ths (run c0 sched))) as Hs.
  split; [exact Hlin|]. split; [|split; [|split]].
  - intros i v g Hin. rewrite Forall_forall in HH. apply (HH _ Hin).
  - intros i z g Hin. rewrite Forall_forall in HH. apply (HH _ Hin).
  - lia.
  - intros Hidle. assert (sumw (ths (run c0 sched)) = 0).
    { clear -Hidle. induction (ths (run c0 sched)) as [|p l IH]; [reflexivity|]. inversion Hidle; subst. cbn [sumw wlen]. rewrite IH; auto. }
    lia.
Qed.

(* race freedom of the plain accesses to node.value *)
Theorem synclist_race_free_inv c : Inv c ->
  (forall a b p1 p2 m, a <> b -> nth_error (ths c) a = Some p1 -> nth_error (ths c) b = Some p2 ->
     owns p1 = Some m -> owns p2 <> Some m) /\
  (forall a b p1 p2 m k v, nth_error (ths c) a = Some p1 -> nth_error (ths c) b = Some p2 ->
     owns p1 = Some m -> (p2 = PushAdd k v \/ p2 = PushStoreTail k v) -> (m < k)%nat).
Proof.
  intros [Hht _ _ _ _ _ _ Hu Ht _]. split; [exact Hu|].
  intros a b p1 p2 m k v Ha Hb Ho Hp. rewrite Forall_forall in Ht.
  pose proof (Ht p1 (nth_error_In _ _ Ha)) as T1. pose proof (Ht p2 (nth_error_In _ _ Hb)) as T2.
  assert (Hm : (m <= head (sh c))%nat).
  { destruct p1; cbn [owns] in Ho; try discriminate; inversion Ho; subst; cbn [tassert] in T1; tauto. }
  destruct Hp as [-> | ->]; cbn [tassert] in T2; lia.
Qed.

(* every state the correspondence run starts from (npre values stored sequentially) satisfies the invariant *)
Lemma replay_pushes : forall vs q0, replay (map LPush vs) q0 = Some (q0 ++ vs).
Proof.
  induction vs as [|v vs IH]; intros q0; cbn [map replay].
  - rewrite app_nil_r. reflexivity.
  - rewrite IH, <- app_assoc. reflexivity.
Qed.
Lemma sumw_idle n : sumw (repeat Idle n) = 0.
Proof. induction n as [|n IH]; cbn [repeat sumw wlen]; lia. Qed.
Lemma nlinked_idle n : nlinked (repeat Idle n) = 0.
Proof. induction n as [|n IH]; cbn [repeat nlinked linked]; lia. Qed.

Theorem seq_state_inv npre n : Inv (seq_state npre n).
Proof.
  unfold seq_state. cbv zeta. constructor; cbn [sh ths hist vals head tail len q lin].
  - lia.
  - rewrite nlinked_idle. cbn [length]. rewrite !map_length, seq_length. cbn. lia.
  - rewrite nlinked_idle. lia.
  - rewrite map_length, seq_length. lia.
  - intros j Hj. rewrite map_length, seq_length in Hj. cbn [Nat.add nth].
    rewrite (nth_indep _ None (Some 0)) by (rewrite !map_length, seq_length; lia).
    rewrite (map_nth Some). reflexivity.
  - rewrite sumw_idle. lia.
  - apply (replay_pushes _ []).
  - intros a b p1 p2 m _ Ha _ Ho. apply nth_error_In, repeat_spec in Ha. subst. discriminate.
  - apply Forall_forall. intros p Hp. apply repeat_spec in Hp. subst. exact I.
  - constructor.
Qed.

(* ---- Push completes once in-flight pushes have finished ----
   "In flight" in the sense that matters: a pusher that has linked its node but not yet published the tail
   (pc PushAdd or PushStoreTail).  Such a pusher needs at most two steps of its own, unconditionally.  When no pusher
   is in that window (nlinked = 0), a Push running alone returns after exactly six steps. *)
Definition solo (i : nat) (o : op) (n : nat) : list (nat * op) := repeat (i, o) n.

Lemma step_at c i o p : nth_error (ths c) i = Some p ->
  step c (i, o) = let '(s', p', r) := tstep (sh c) p o in
                  {| sh := s'; ths := upd (ths c) i p'; hist := match r with Some x => hist c ++ [(i, x)] | None => hist c end |}.
Proof. intros H. unfold step. rewrite H. reflexivity. Qed.

Lemma nth_error_upd_same {A} (l : list A) i x p : nth_error l i = Some p -> nth_error (upd l i x) i = Some x.
Proof. revert i; induction l as [|a l IH]; intros [|i] H; cbn [upd nth_error] in *; try discriminate; auto; eapply IH; eauto. Qed.

Theorem push_completes c i v :
  Inv c -> nlinked (ths c) = 0 -> nth_error (ths c) i = Some Idle ->
  let c' := run c (solo i (OpPush v) 6) in
  hist c' = hist c ++ [(i, RPush)] /\ nth_error (ths c') i = Some Idle /\
  q (sh c') = q (sh c) ++ [v] /\ len (sh c') = len (sh c) + 1.
Proof.
  intros HI Hnl Hi. cbv zeta. unfold solo. cbn [repeat run fold_left].
  pose proof (i_len _ HI) as Hlen. rewrite Hnl in Hlen. cbn [Z.to_nat] in Hlen.
  (* 1: Idle -> PushLoadTail *)
  rewrite (step_at c i _ Idle Hi). cbn [tstep].
  set (c1 := {| sh := sh c; ths := upd (ths c) i (PushLoadTail v); hist := hist c |}).
  assert (H1 : nth_error (ths c1) i = Some (PushLoadTail v)) by (eapply nth_error_upd_same; eauto).
  rewrite (step_at c1 i _ _ H1). cbn [tstep sh c1].
  set (c2 := {| sh := sh c; ths := upd (ths c1) i (PushLoadNext v (tail (sh c))); hist := hist c1 |}).
  assert (H2 : nth_error (ths c2) i = Some (PushLoadNext v (tail (sh c)))) by (eapply nth_error_upd_same; eauto).
  rewrite (step_at c2 i _ _ H2). cbn [tstep sh c2].
  assert (Hnx : next_of (sh c) (tail (sh c)) = None).
  { unfold next_of. destruct (Nat.ltb_spec (S (tail (sh c))) (length (vals (sh c)))); [lia|reflexivity]. }
  rewrite Hnx.
  set (c3 := {| sh := sh c; ths := upd (ths c2) i (PushCas v (tail (sh c)) None); hist := hist c2 |}).
  assert (H3 : nth_error (ths c3) i = Some (PushCas v (tail (sh c)) None)) by (eapply nth_error_upd_same; eauto).
  rewrite (step_at c3 i _ _ H3). cbn [tstep sh c3]. rewrite Hnx.
  match goal with |- context [step (step ?X _) _] => set (c4 := X) end.
  assert (H4 : nth_error (ths c4) i = Some (PushAdd (length (vals (sh c))) v)) by (eapply nth_error_upd_same; eauto).
  rewrite (step_at c4 i _ _ H4). cbn [tstep sh c4].
  match goal with |- context [step ?X _] => set (c5 := X) end.
  assert (H5 : nth_error (ths c5) i = Some (PushStoreTail (length (vals (sh c))) v)) by (eapply nth_error_upd_same; eauto).
  rewrite (step_at c5 i _ _ H5). cbn [tstep sh c5 hist ths vals head tail len q lin c4 c3 c2 c1].
  repeat split; try reflexivity.
  eapply nth_error_upd_same; eauto.
Qed.

(* a pusher inside the link..publish window leaves it after two steps of its own, whatever the others do in between:
   its two steps are unconditional *)
Theorem linked_pusher_publishes c i n v :
  nth_error (ths c) i = Some (PushAdd n v) ->
  nth_error (ths (run c (solo i OpPop 2))) i = Some Idle.
Proof.
  intros Hi. unfold solo. cbn [repeat run fold_left].
  rewrite (step_at c i _ _ Hi). cbn [tstep].
  match goal with |- context [step ?X _] => set (c1 := X) end.
  assert (H1 : nth_error (ths c1) i = Some (PushStoreTail n v)) by (eapply nth_error_upd_same; eauto).
  rewrite (step_at c1 i _ _ H1). cbn [tstep ths]. eapply nth_error_upd_same; eauto.
Qed.

(* a Pop that loses its CAS has been overtaken: the head it loaded is strictly behind the current head, i.e. another
   Pop linearised after this operation loaded the head — "another operation overlapped it" *)
Theorem pop_busy_was_overtaken c i h nx : Inv c -> nth_error (ths c) i = Some (PopCas h nx) ->
  head (sh c) <> h -> (h < head (sh c))%nat.
Proof.
  intros HI Hi Hne. pose proof (i_t _ HI) as HT. rewrite Forall_forall in HT.
  pose proof (HT _ (nth_error_In _ _ Hi)) as Ha. cbn [tassert] in Ha. lia.
Qed.
