(* C07 — refinement: the index-level loop of OctalParse / HexParse / UnicodeParse computes the list-level scan
   [s_parse] of Model/Codec.v, for every input and every destination at least as long as the input. *)
From Coq Require Import List ZArith Lia Bool Arith.
From V Require Import Lib.Utf8 Gen.Codec Model.Codec Proofs.CodecBase Proofs.CodecParse.
Import ListNotations.
Local Open Scope Z_scope.
Arguments Z.mul : simpl never.
Arguments Z.add : simpl never.
Arguments Z.sub : simpl never.
Arguments Z.modulo : simpl never.
Arguments Z.div : simpl never.
Arguments Z.of_nat : simpl never.
Arguments Z.pow : simpl never.

(* ---- list facts ---- *)
Lemma skipn_skipn {A} : forall a b (l : list A), skipn a (skipn b l) = skipn (b + a) l.
Proof.
  intros a b. revert a. induction b as [|b IH]; intros a l; [reflexivity|].
  destruct l; [rewrite !skipn_nil; reflexivity|]. cbn [skipn Nat.add]. apply IH.
Qed.
Lemma firstn_add {A} : forall a b (l : list A), firstn (a + b) l = firstn a l ++ firstn b (skipn a l).
Proof.
  induction a as [|a IH]; intros b l; [reflexivity|]. destruct l; [rewrite !firstn_nil; reflexivity|].
  cbn [Nat.add firstn skipn app]. f_equal. apply IH.
Qed.
Lemma firstn_cons_pos {A} n (c : A) t : (1 <= n)%nat -> firstn n (c :: t) = c :: firstn (n - 1) t.
Proof. destruct n; [lia|]. intros _. replace (S n - 1)%nat with n by lia. reflexivity. Qed.
Lemma skipn_cons_pos {A} n (c : A) t : (1 <= n)%nat -> skipn n (c :: t) = skipn (n - 1) t.
Proof. destruct n; [lia|]. intros _. replace (S n - 1)%nat with n by lia. reflexivity. Qed.
Lemma list_eqb_eq a : forall b, list_eqb a b = true <-> a = b.
Proof.
  induction a as [|x a IH]; intros [|y b]; cbn [list_eqb]; try (split; [discriminate|discriminate]); [split; reflexivity|].
  rewrite andb_true_iff, Z.eqb_eq, IH. split; [intros [-> ->]; reflexivity|intros E; inversion E; auto].
Qed.
Lemma list_eqb_refl a : list_eqb a a = true.
Proof. apply list_eqb_eq. reflexivity. Qed.
(* the pending literal run grows by what the cursor steps over *)
Lemma mid_app (src : list Z) f i k : (f <= i)%nat ->
  firstn (i + k - f) (skipn f src) = firstn (i - f) (skipn f src) ++ firstn k (skipn i src).
Proof.
  intros H. replace (i + k - f)%nat with ((i - f) + k)%nat by lia. rewrite firstn_add, skipn_skipn.
  replace (f + (i - f))%nat with i by lia. reflexivity.
Qed.
Lemma pus_digits base maxv : forall ds n v, pus base maxv n ds = Some v -> Forall (fun c => c <> 92) ds.
Proof.
  induction ds as [|c t IH]; intros n v H; [constructor|]. cbn [pus] in H.
  destruct (digit c) eqn:Ed; [|discriminate]. destruct (base <=? z); [discriminate|].
  cbv zeta in H. destruct (maxv <? n * base + z); [discriminate|]. constructor; [eapply digit_not_backslash; eauto|eapply IH; eauto].
Qed.

Section Refine.
Variable W P : nat.
Variable ptl : list Z.                       (* the prefix behind its backslash *)
Variable base maxv : Z.
Variable emit semit : Z -> option (list Z).  (* what the code does with a value / what the specification says *)
Variable dl : nat.
Local Notation prefix := (92 :: ptl).
Hypothesis P_lt_W : (P < W)%nat.
Hypothesis prefix_len : length prefix = P.
Hypothesis ptl_nbs : Forall (fun c => c <> 92) ptl.
Hypothesis base_ok : 2 <= base <= 36.
Hypothesis maxv_ok : 0 <= maxv < 4294967296.
Hypothesis emit_len : forall v bs, emit v = Some bs -> (1 <= length bs <= W)%nat.
Hypothesis emit_spec : forall v, 0 <= v <= maxv -> emit v = semit v.
Local Notation gparse := (gparse W P prefix base maxv emit dl).
Local Notation esc_at := (esc_at W P prefix base maxv semit).
Local Notation s_scan := (s_scan W P prefix base maxv semit).

Lemma P_pos : (1 <= P)%nat.
Proof. pose proof prefix_len as H. cbn [length] in H. lia. Qed.

(* -- the scan, on lists -- *)
Lemma s_scan_skip : forall k l, s_scan k l = s_scan 0 (skipn k l).
Proof.
  induction k as [|k IH]; intros l; [reflexivity|]. destruct l as [|c t]; [reflexivity|]. cbn [Model.Codec.s_scan skipn]. apply IH.
Qed.
Lemma esc_at_short l : (length l < W)%nat -> esc_at l = None.
Proof. intros H. unfold Model.Codec.esc_at. destruct (Nat.leb_spec W (length l)); [lia|]. reflexivity. Qed.
Lemma s_scan_short : forall l, (length l < W)%nat -> s_scan 0 l = l.
Proof.
  induction l as [|c t IH]; intros H; [reflexivity|]. cbn [Model.Codec.s_scan]. rewrite esc_at_short by exact H.
  f_equal. apply IH. cbn [length] in H. lia.
Qed.
Lemma esc_at_nbs c t : c <> 92 -> esc_at (c :: t) = None.
Proof.
  intros H. unfold Model.Codec.esc_at. pose proof P_pos.
  rewrite firstn_cons_pos by lia. cbn [list_eqb]. destruct (Z.eqb_spec c 92); [contradiction|]. cbn [andb]. rewrite andb_false_r. reflexivity.
Qed.
Lemma s_scan_nbs : forall cs l, Forall (fun c => c <> 92) cs -> s_scan 0 (cs ++ l) = cs ++ s_scan 0 l.
Proof.
  induction cs as [|c cs IH]; intros l H; [reflexivity|]. inversion H as [|? ? Hc Hcs]. cbn [app Model.Codec.s_scan].
  rewrite esc_at_nbs by assumption. f_equal. apply IH. assumption.
Qed.
Lemma s_scan_verbatim l m : Forall (fun c => c <> 92) (firstn m l) -> s_scan 0 l = firstn m l ++ s_scan 0 (skipn m l).
Proof. intros H. rewrite <- (firstn_skipn m l) at 1. apply s_scan_nbs. exact H. Qed.
(* an escape that is not recognised at the head: the head and the non-backslash bytes behind it are copied *)
Lemma s_scan_reject R j : (W <= length R)%nat -> firstn P R = prefix -> esc_at R = None -> (j <= W - P)%nat ->
  Forall (fun c => c <> 92) (firstn j (skipn P R)) -> s_scan 0 R = firstn (P + j) R ++ s_scan 0 (skipn (P + j) R).
Proof.
  intros HW Hp He Hj Hn. pose proof P_pos as HP. destruct R as [|c t]; [cbn [length] in HW; lia|].
  cbn [Model.Codec.s_scan]. rewrite He.
  rewrite firstn_cons_pos, skipn_cons_pos by lia. cbn [app]. f_equal.
  replace (P + j - 1)%nat with (P - 1 + j)%nat by lia.
  apply s_scan_verbatim. rewrite firstn_add. apply Forall_app. split.
  - rewrite firstn_cons_pos in Hp by lia. idtac. inversion Hp as [[Hc Ht]]. rewrite Ht. exact ptl_nbs.
  - rewrite skipn_cons_pos in Hn by lia. exact Hn.
Qed.
Lemma s_scan_accept R bs : esc_at R = Some bs -> s_scan 0 R = bs ++ s_scan 0 (skipn W R).
Proof.
  intros He. destruct R as [|c t]; [unfold Model.Codec.esc_at in He; cbn [length] in He; destruct (Nat.leb_spec W 0); [lia|discriminate]|].
  cbn [Model.Codec.s_scan]. rewrite He, s_scan_skip. rewrite (skipn_cons_pos W c t) by lia. reflexivity.
Qed.

(* -- the loop -- *)
Lemma gparse_spec src : (length src <= dl)%nat -> forall fuel i f out,
  (f <= i <= length src)%nat -> (length out <= f)%nat -> (length src - i < fuel)%nat ->
  gparse fuel src i f out = Some (out ++ firstn (i - f) (skipn f src) ++ s_scan 0 (skipn i src)).
Proof.
  intros Hd. pose proof P_pos as HP. induction fuel as [|fu IH]; intros i f out Hi Ho Hf; [lia|]. cbn [Model.Codec.gparse].
  (* stepping k bytes that the scan copies verbatim *)
  assert (ADV : forall k, (1 <= k)%nat -> (i + k <= length src)%nat ->
            s_scan 0 (skipn i src) = firstn k (skipn i src) ++ s_scan 0 (skipn (i + k) src) ->
            gparse fu src (i + k) f out = Some (out ++ firstn (i - f) (skipn f src) ++ s_scan 0 (skipn i src))).
  { intros k Hk1 Hk2 Hs. rewrite IH by lia. rewrite Hs, mid_app by lia. rewrite <- !app_assoc. reflexivity. }
  destruct (Nat.leb_spec (length src) i).
  { rewrite finish_exact by lia. assert (i = length src) by lia. subst i. rewrite skipn_all. cbn [Model.Codec.s_scan].
    rewrite app_nil_r. rewrite firstn_all2 by (rewrite skipn_length; lia). reflexivity. }
  destruct (Nat.ltb_spec (length src - i) W).
  { rewrite finish_exact by lia. rewrite s_scan_short by (rewrite skipn_length; lia).
    rewrite <- (firstn_skipn (i - f) (skipn f src)) at 1. rewrite skipn_skipn. replace (f + (i - f))%nat with i by lia. reflexivity. }
  set (R := skipn i src). assert (HR : (W <= length R)%nat) by (unfold R; rewrite skipn_length; lia).
  unfold Model.Codec.pfx_ok. rewrite slice_some by lia. replace (i + P - i)%nat with P by lia. fold R.
  destruct (list_eq_dec Z.eq_dec (firstn P R) prefix) as [Epf|Epf].
  2:{ (* not the prefix: one byte *)
    replace (S i) with (i + 1)%nat by lia. apply ADV; [lia|lia|]. fold R.
    destruct R as [|c t] eqn:ER; [cbn [length] in HR; lia|]. cbn [Model.Codec.s_scan].
    assert (En : esc_at (c :: t) = None).
    { unfold Model.Codec.esc_at. destruct (list_eqb (firstn P (c :: t)) prefix) eqn:El; [apply list_eqb_eq in El; contradiction|].
      rewrite andb_false_r. reflexivity. }
    rewrite En. cbn [firstn app]. f_equal. f_equal.
    replace (i + 1)%nat with (i + 1)%nat by lia. rewrite <- (skipn_skipn 1 i src). fold R. rewrite ER. reflexivity. }
  rewrite slice_some by lia. replace (i + W - (i + P))%nat with (W - P)%nat by lia.
  replace (skipn (i + P) src) with (skipn P R) by (unfold R; rewrite skipn_skipn; reflexivity).
  set (ds := firstn (W - P) (skipn P R)).
  assert (Hds : length ds = (W - P)%nat) by (unfold ds; rewrite firstn_length, skipn_length; lia).
  destruct (pu base maxv 0 0%nat ds) as [[v j] ok] eqn:Ep.
  rewrite pu_pui in Ep by lia.
  assert (Eat : esc_at R = match pus base maxv 0 ds with Some v => semit v | None => None end).
  { unfold Model.Codec.esc_at. destruct (Nat.leb_spec W (length R)); [|lia]. rewrite Epf, list_eqb_refl. reflexivity. }
  destruct ok; cbn [negb].
  - apply pui_ok in Ep. destruct Ep as [Epus Ej]. pose proof (pus_bound base maxv ds 0 v ltac:(lia) ltac:(lia) Epus) as Hv.
    rewrite Epus, <- emit_spec in Eat by exact Hv.
    destruct (emit v) as [bs|] eqn:Ee.
    + (* the escape is replaced *)
      pose proof (emit_len _ _ Ee) as Hbs.
      rewrite flush_exact by lia. unfold write. rewrite app_length, firstn_length, skipn_length.
      destruct (Nat.leb_spec (length out + Nat.min (i - f) (length src - f) + length bs) dl); [|lia].
      rewrite IH; [|lia|rewrite !app_length, firstn_length, skipn_length; lia|lia].
      rewrite Nat.sub_diag. cbn [firstn app]. rewrite (s_scan_accept R bs Eat). unfold R. rewrite skipn_skipn.
      rewrite <- !app_assoc. reflexivity.
    + (* value rejected: the whole escape is stepped over *)
      apply ADV; [lia|lia|]. fold R.
      replace (skipn (i + W) src) with (skipn (P + (W - P)) R) by (unfold R; rewrite skipn_skipn; f_equal; lia).
      replace (firstn W R) with (firstn (P + (W - P)) R) by (f_equal; lia).
      apply s_scan_reject; [exact HR|exact Epf|exact Eat|lia|]. fold ds. eapply pus_digits; exact Epus.
  - (* a bad digit at j: resume there *)
    pose proof (pui_index _ _ _ _ _ _ _ _ Ep) as Hj. apply pui_fail in Ep. destruct Ep as [Epus Hnb]. rewrite Epus in Eat.
    rewrite Nat.sub_0_r in Hnb. rewrite <- Nat.add_assoc. apply ADV; [lia|lia|]. fold R.
    replace (skipn (i + (P + j)) src) with (skipn (P + j) R) by (unfold R; rewrite skipn_skipn; reflexivity).
    apply s_scan_reject; [exact HR|exact Epf|exact Eat|lia|]. unfold ds in Hnb. rewrite firstn_firstn in Hnb.
    rewrite Nat.min_l in Hnb by lia. exact Hnb.
Qed.

Theorem esc_parse_spec src : (length src <= dl)%nat ->
  esc_parse W P prefix base maxv emit dl src = Some (s_parse W P prefix base maxv semit src).
Proof.
  intros Hd. unfold Model.Codec.esc_parse. rewrite gparse_spec by (cbn [length]; lia). reflexivity.
Qed.
End Refine.

(* ---- the three instances ---- *)
Lemma byte_emit_spec v : 0 <= v <= 255 -> byte_emit v = s_byte_emit v.
Proof. intros H. unfold byte_emit, s_byte_emit. rewrite Z.mod_small by lia. reflexivity. Qed.
Lemma unicode_emit_spec v : 0 <= v <= 4294967295 -> unicode_emit v = s_unicode_emit v.
Proof.
  intros H. unfold unicode_emit, s_unicode_emit, MaxRune, RuneSelf. destruct (1114111 <? v); [reflexivity|].
  destruct (Z.ltb_spec v 128); [|reflexivity]. rewrite Z.mod_small by lia. unfold encode_rune, encode.
  destruct (Z.ltb_spec v 0); [lia|]. destruct (Z.ltb_spec 1114111 v); [lia|]. destruct (Z.leb_spec 55296 v); [lia|]. cbn [orb andb].
  destruct (Z.ltb_spec v 128); [reflexivity|lia].
Qed.

Theorem octal_parse_spec dl src : (length src <= dl)%nat -> octal_parse dl src = Some (s_octal_parse src).
Proof.
  rewrite octal_parse_eq. apply (esc_parse_spec 4 1 []); try reflexivity; try lia; [constructor|apply byte_emit_len|apply byte_emit_spec].
Qed.
Theorem hex_parse_spec dl src : (length src <= dl)%nat -> hex_parse dl src = Some (s_hex_parse src).
Proof.
  rewrite hex_parse_eq. apply (esc_parse_spec 4 2 [120]); try reflexivity; try lia; [repeat constructor; lia|apply byte_emit_len|apply byte_emit_spec].
Qed.
Theorem unicode_parse_spec dl src : (length src <= dl)%nat -> unicode_parse dl src = Some (s_unicode_parse src).
Proof.
  rewrite unicode_parse_eq. apply (esc_parse_spec 10 2 [85]); try reflexivity; try lia; [repeat constructor; lia|apply unicode_emit_len|apply unicode_emit_spec].
Qed.
