(* C19: proofs about the event model of goz.Limiter (Model/Limiter.v). *)
From Coq Require Import List Arith ZArith Lia Bool.
From V Require Import Lib.Enc Gen.ConstsGoz Model.Limiter.
Import ListNotations.

(* ---------------------------------------------------------------- basic facts about traces *)
Lemma accepts_app s tr1 tr2 s2 : accepts s (tr1 ++ tr2) = Some s2 ->
  exists s1, accepts s tr1 = Some s1 /\ accepts s1 tr2 = Some s2.
Proof.
  revert s. induction tr1 as [|e t IH]; intros s H; cbn [app accepts] in *.
  - exists s. auto.
  - destruct (step s e) as [s'|]; [|discriminate]. apply IH; auto.
Qed.
Lemma accepts_app_intro s tr1 tr2 s1 : accepts s tr1 = Some s1 -> accepts s (tr1 ++ tr2) = accepts s1 tr2.
Proof.
  revert s. induction tr1 as [|e t IH]; intros s H; cbn [app accepts] in *.
  - inversion H; reflexivity.
  - destruct (step s e) as [s'|]; [|discriminate]. apply IH; auto.
Qed.

Lemma step_limit s e s' : step s e = Some s' -> limit s' = limit s.
Proof.
  destruct e; cbn [step]; intros H;
    repeat match type of H with context [match ?x with _ => _ end] => destruct x; try discriminate end;
    inversion H; subst; reflexivity.
Qed.
Lemma accepts_limit tr : forall s s', accepts s tr = Some s' -> limit s' = limit s.
Proof.
  induction tr as [|e t IH]; intros s s' H; cbn [accepts] in H; [inversion H; reflexivity|].
  destruct (step s e) as [s1|] eqn:E; [|discriminate]. rewrite (IH _ _ H). eapply step_limit; eauto.
Qed.

(* ---------------------------------------------------------------- the fallback limit *)
Lemma eff_limit_spec n : ((n < 1)%Z -> eff_limit n = 3) /\ ((1 <= n)%Z -> eff_limit n = Z.to_nat n).
Proof.
  unfold eff_limit. change limiter_min with 1%Z. change limiter_default with 3%Z.
  destruct (Z.ltb_spec n 1); split; intros; try lia; reflexivity.
Qed.
Lemma eff_limit_pos n : 1 <= eff_limit n.
Proof. destruct (eff_limit_spec n) as [A B]. destruct (Z.ltb_spec n 1); [rewrite A by lia; lia|rewrite B by lia; lia]. Qed.

(* ---------------------------------------------------------------- the invariant: tokens = wg = number of active tasks *)
Lemma count_set (f : tstate -> bool) (g : nat -> tstate) ids i x :
  NoDup ids ->
  length (filter (fun j => f (set g i x j)) ids) + (if existsb (Nat.eqb i) ids then (if f (g i) then 1 else 0) else 0)
  = length (filter (fun j => f (g j)) ids) + (if existsb (Nat.eqb i) ids then (if f x then 1 else 0) else 0).
Proof.
  intros Hnd. induction ids as [|a ids IH]; cbn [filter existsb length]; [reflexivity|].
  inversion Hnd as [|? ? Hnin Hnd']; subst. specialize (IH Hnd').
  unfold set at 1. destruct (Nat.eqb_spec a i) as [->|Hne].
  - rewrite Nat.eqb_refl. cbn [orb].
    assert (Hex : existsb (Nat.eqb i) ids = false).
    { apply not_true_is_false. intros H. apply existsb_exists in H. destruct H as (y & Hy & Ey). apply Nat.eqb_eq in Ey. subst. contradiction. }
    rewrite Hex in IH. destruct (f x), (f (g i)); cbn [length]; lia.
  - destruct (Nat.eqb_spec i a); [congruence|]. cbn [orb]. destruct (f (g a)); cbn [length]; lia.
Qed.

Lemma existsb_in i ids : In i ids -> existsb (Nat.eqb i) ids = true.
Proof. intros H. apply existsb_exists. exists i. split; auto. apply Nat.eqb_refl. Qed.

Record Inv (ids : list nat) (s : st) : Prop := {
  i_tok : tokens s = active s ids;
  i_wg : wg s = active s ids;
  i_lim : tokens s <= limit s;
  i_dom : forall i, ~ In i ids -> tasks s i = Pending
}.

Lemma in_dom ids s i : Inv ids s -> tasks s i <> Pending -> In i ids.
Proof. intros HI Hne. destruct (in_dec Nat.eq_dec i ids); auto. exfalso. apply Hne. apply (i_dom _ _ HI); auto. Qed.

Lemma step_inv ids s e s' : NoDup ids -> (forall i, e = Submit i -> In i ids) -> Inv ids s -> step s e = Some s' -> Inv ids s'.
Proof.
  intros Hnd Hsub HI Hs. pose proof HI as [Ht Hw Hl Hd]. unfold active in *.
  destruct e as [i|i|i|i v|i|]; cbn [step] in Hs.
  - destruct (tasks s i) eqn:Ei; try discriminate. destruct (Nat.ltb_spec (tokens s) (limit s)); [|discriminate].
    inversion Hs; subst; clear Hs. pose proof (Hsub i eq_refl) as Hin.
    pose proof (count_set is_active (tasks s) ids i Spawned Hnd) as R. rewrite (existsb_in _ _ Hin), Ei in R. cbn [is_active] in R.
    constructor; unfold active; cbn [tokens wg limit tasks]; try lia.
    intros j Hj. unfold set. destruct (Nat.eqb_spec j i); [subst; contradiction|]. apply Hd; auto.
  - destruct (tasks s i) eqn:Ei; try discriminate. inversion Hs; subst; clear Hs.
    assert (Hin : In i ids) by (apply (in_dom ids s i HI); congruence).
    pose proof (count_set is_active (tasks s) ids i Running Hnd) as R. rewrite (existsb_in _ _ Hin), Ei in R. cbn [is_active] in R.
    constructor; unfold active; cbn [tokens wg limit tasks]; try lia.
    intros j Hj. unfold set. destruct (Nat.eqb_spec j i); [subst; contradiction|]. apply Hd; auto.
  - destruct (tasks s i) eqn:Ei; try discriminate. inversion Hs; subst; clear Hs.
    assert (Hin : In i ids) by (apply (in_dom ids s i HI); congruence).
    pose proof (count_set is_active (tasks s) ids i Ended Hnd) as R. rewrite (existsb_in _ _ Hin), Ei in R. cbn [is_active] in R.
    constructor; unfold active; cbn [tokens wg limit tasks]; try lia.
    intros j Hj. unfold set. destruct (Nat.eqb_spec j i); [subst; contradiction|]. apply Hd; auto.
  - destruct (tasks s i) eqn:Ei; try discriminate. inversion Hs; subst; clear Hs.
    assert (Hin : In i ids) by (apply (in_dom ids s i HI); congruence).
    pose proof (count_set is_active (tasks s) ids i Ended Hnd) as R. rewrite (existsb_in _ _ Hin), Ei in R. cbn [is_active] in R.
    constructor; unfold active; cbn [tokens wg limit tasks]; try lia.
    intros j Hj. unfold set. destruct (Nat.eqb_spec j i); [subst; contradiction|]. apply Hd; auto.
  - destruct (tasks s i) eqn:Ei; try discriminate. inversion Hs; subst; clear Hs.
    assert (Hin : In i ids) by (apply (in_dom ids s i HI); congruence).
    pose proof (count_set is_active (tasks s) ids i Finished Hnd) as R. rewrite (existsb_in _ _ Hin), Ei in R. cbn [is_active] in R.
    constructor; unfold active; cbn [tokens wg limit tasks]; try lia.
    intros j Hj. unfold set. destruct (Nat.eqb_spec j i); [subst; contradiction|]. apply Hd; auto.
  - destruct (wg s =? 0); [|discriminate]. inversion Hs; subst. exact HI.
Qed.

Lemma init_inv ids n : Inv ids (new_limiter n).
Proof.
  assert (R : active (new_limiter n) ids = 0) by (unfold active; induction ids; cbn; auto).
  constructor; cbn [new_limiter tokens wg limit tasks]; rewrite ?R; auto; lia.
Qed.

Lemma accepts_inv ids : NoDup ids -> forall tr s s', (forall i, In (Submit i) tr -> In i ids) -> Inv ids s -> accepts s tr = Some s' -> Inv ids s'.
Proof.
  intros Hnd. induction tr as [|e t IH]; intros s s' Hs HI Ha; cbn [accepts] in Ha; [inversion Ha; subst; auto|].
  destruct (step s e) as [s1|] eqn:E; [|discriminate]. apply (IH s1); auto.
  - intros j Hj. apply Hs. right; auto.
  - eapply step_inv; eauto. intros j ->. apply Hs. left; reflexivity.
Qed.

Lemma running_le_active s ids : running s ids <= active s ids.
Proof.
  unfold running, active. induction ids as [|a ids IH]; cbn [filter length]; [lia|].
  destruct (tasks s a); cbn [is_running is_active length]; lia.
Qed.

(* C19, the bound: in every state an accepted trace reaches (hence after every prefix: at every instant), the number of
   task bodies running is at most the number of tokens taken, which is at most the limit, and the limit is the
   requested one, or 3 when the request was below 1 *)
Theorem limiter_bound ids n tr s :
  NoDup ids -> (forall i, In (Submit i) tr -> In i ids) -> accepts (new_limiter n) tr = Some s ->
  running s ids <= tokens s /\ tokens s <= limit s /\ limit s = eff_limit n /\
  (forall i, ~ In i ids -> tasks s i = Pending).
Proof.
  intros Hnd Hsub Ha. pose proof (accepts_inv ids Hnd tr _ _ Hsub (init_inv ids n) Ha) as [Ht Hw Hl Hd].
  pose proof (running_le_active s ids). pose proof (accepts_limit _ _ _ Ha) as HL. cbn [new_limiter limit] in HL.
  repeat split; auto; lia.
Qed.

(* the same at every instant, spelled out: every prefix of an accepted trace *)
Corollary limiter_bound_always ids n tr1 tr2 s :
  NoDup ids -> (forall i, In (Submit i) (tr1 ++ tr2) -> In i ids) -> accepts (new_limiter n) (tr1 ++ tr2) = Some s ->
  exists s1, accepts (new_limiter n) tr1 = Some s1 /\ running s1 ids <= eff_limit n.
Proof.
  intros Hnd Hsub Ha. destruct (accepts_app _ _ _ _ Ha) as (s1 & H1 & _). exists s1. split; auto.
  destruct (limiter_bound ids n tr1 s1 Hnd) as (A & B & C & _); auto.
  - intros i Hi. apply Hsub. apply in_or_app. left; auto.
  - lia.
Qed.

(* ---------------------------------------------------------------- each task exactly once, in order *)
Definition rank (t : tstate) : nat := match t with Pending => 0 | Spawned => 1 | Running => 2 | Ended => 3 | Finished => 4 end.
Definition about (i : nat) (e : ev) : bool :=
  match e with Submit j | Start j | Return j | Panic j _ | Cleanup j => Nat.eqb j i | WaitReturn => false end.
Definition ev_rank (e : ev) : nat :=
  match e with Submit _ => 1 | Start _ => 2 | Return _ | Panic _ _ => 3 | Cleanup _ => 4 | WaitReturn => 0 end.

Lemma step_about s e s' i : step s e = Some s' ->
  if about i e then rank (tasks s' i) = S (rank (tasks s i)) /\ ev_rank e = rank (tasks s' i)
  else tasks s' i = tasks s i.
Proof.
  intros Hs. destruct e as [j|j|j|j v|j|]; cbn [step about ev_rank] in *;
    try (destruct (tasks s j) eqn:Ej; try discriminate);
    try (destruct (tokens s <? limit s); try discriminate);
    try (destruct (wg s =? 0); try discriminate);
    inversion Hs; subst; clear Hs; cbn [tasks]; auto;
    unfold set; destruct (Nat.eqb_spec j i) as [->|Hne];
    try (rewrite Nat.eqb_refl; rewrite Ej; cbn [rank]; split; reflexivity);
    try (destruct (Nat.eqb_spec i j); [congruence|reflexivity]).
Qed.

(* the events about task i in an accepted trace are exactly the steps from its rank before to its rank after *)
Theorem task_events_chain i : forall tr s s', accepts s tr = Some s' ->
  map ev_rank (filter (about i) tr) = seq (S (rank (tasks s i))) (rank (tasks s' i) - rank (tasks s i)) /\
  rank (tasks s i) <= rank (tasks s' i).
Proof.
  induction tr as [|e t IH]; intros s s' Ha; cbn [accepts] in Ha.
  - inversion Ha; subst. rewrite Nat.sub_diag. cbn. split; auto.
  - destruct (step s e) as [s1|] eqn:E; [|discriminate]. destruct (IH s1 s' Ha) as [IH1 IH2].
    pose proof (step_about s e s1 i E) as SA. cbn [filter]. destruct (about i e).
    + destruct SA as [R1 R2]. cbn [map]. rewrite IH1, R2, R1. split; [|lia].
      replace (rank (tasks s' i) - rank (tasks s i)) with (S (rank (tasks s' i) - S (rank (tasks s i)))) by lia.
      cbn [seq]. reflexivity.
    + rewrite SA in *. auto.
Qed.

(* every submitted function is executed exactly once: for a task that has finished, the trace contains exactly one Submit,
   one Start, one Return-or-Panic and one Cleanup of it, in this order; for any task, a prefix of that *)
Corollary each_exactly_once n tr s i : accepts (new_limiter n) tr = Some s -> tasks s i = Finished ->
  map ev_rank (filter (about i) tr) = [1; 2; 3; 4].
Proof. intros Ha Hf. destruct (task_events_chain i tr _ _ Ha) as [H _]. rewrite Hf in H. exact H. Qed.
Corollary each_at_most_once n tr s i : accepts (new_limiter n) tr = Some s ->
  map ev_rank (filter (about i) tr) = firstn (rank (tasks s i)) [1; 2; 3; 4].
Proof.
  intros Ha. destruct (task_events_chain i tr _ _ Ha) as [H _]. rewrite H. cbn [new_limiter tasks rank]. rewrite Nat.sub_0_r.
  destruct (tasks s i); reflexivity.
Qed.
Corollary started_at_most_once n tr s i : accepts (new_limiter n) tr = Some s ->
  length (filter (fun e => match e with Start j => Nat.eqb j i | _ => false end) tr) <= 1.
Proof.
  intros Ha. pose proof (each_at_most_once n tr s i Ha) as H.
  assert (G : forall l, length (filter (fun e => match e with Start j => Nat.eqb j i | _ => false end) l)
                        = count_occ Nat.eq_dec (map ev_rank (filter (about i) l)) 2).
  { induction l as [|e l IHl]; [reflexivity|]. cbn [filter]. destruct e as [j|j|j|j v|j|]; cbn [about];
      try (destruct (Nat.eqb j i); cbn [map ev_rank count_occ length]; rewrite ?IHl; try reflexivity;
           match goal with |- context [Nat.eq_dec ?a ?b] => destruct (Nat.eq_dec a b); try lia; try congruence end); auto. }
  rewrite G, H. destruct (tasks s i); cbn; lia.
Qed.

(* ---------------------------------------------------------------- Wait *)
Lemma submitted_not_pending i : forall tr s s', accepts s tr = Some s' -> In (Submit i) tr -> tasks s' i <> Pending.
Proof.
  intros tr s s' Ha Hin. destruct (task_events_chain i tr s s' Ha) as [H1 H2].
  assert (In 1 (map ev_rank (filter (about i) tr))).
  { apply (in_map ev_rank _ (Submit i)). apply filter_In. split; auto. cbn. apply Nat.eqb_refl. }
  rewrite H1 in H. apply in_seq in H. destruct (tasks s' i); cbn [rank] in *; try discriminate. lia.
Qed.

Lemma active_zero s ids i : active s ids = 0 -> In i ids -> is_active (tasks s i) = false.
Proof.
  unfold active. induction ids as [|a ids IH]; intros H0 Hin; [contradiction|]. cbn [filter] in H0. destruct Hin as [->|Hin].
  - destruct (is_active (tasks s i)); auto. cbn in H0; lia.
  - destruct (is_active (tasks s a)); cbn [length] in H0; try lia; apply IH; auto.
Qed.

(* Wait() returns only after every function submitted so far has finished (body ended, handler and cleanup included):
   wherever a WaitReturn stands in an accepted trace *)
Theorem wait_after_all ids n tr1 tr2 s :
  NoDup ids -> (forall i, In (Submit i) tr1 -> In i ids) ->
  accepts (new_limiter n) (tr1 ++ WaitReturn :: tr2) = Some s ->
  exists s1, accepts (new_limiter n) tr1 = Some s1 /\ forall i, In (Submit i) tr1 -> tasks s1 i = Finished.
Proof.
  intros Hnd Hsub Ha. destruct (accepts_app _ _ _ _ Ha) as (s1 & H1 & H2). exists s1. split; auto. intros i Hi.
  cbn [accepts] in H2. destruct (step s1 WaitReturn) as [s1'|] eqn:Ew; [|discriminate]. cbn [step] in Ew.
  destruct (Nat.eqb_spec (wg s1) 0) as [Hz|]; [|discriminate].
  pose proof (accepts_inv ids Hnd tr1 _ _ Hsub (init_inv ids n) H1) as [_ Hwg _ _]. rewrite Hz in Hwg.
  pose proof (submitted_not_pending i tr1 _ s1 H1 Hi) as Hnp.
  pose proof (active_zero s1 ids i (eq_sym Hwg) (Hsub i Hi)) as Hna.
  destruct (tasks s1 i); cbn [is_active] in Hna; congruence.
Qed.

(* ---------------------------------------------------------------- panics *)
Lemma handled_mono i v : forall tr s s', accepts s tr = Some s' -> In (i, v) (handled s) -> In (i, v) (handled s').
Proof.
  induction tr as [|e t IH]; intros s s' Ha Hin; cbn [accepts] in Ha; [inversion Ha; subst; auto|].
  destruct (step s e) as [s1|] eqn:E; [|discriminate]. apply (IH s1); auto.
  destruct e; cbn [step] in E; repeat match type of E with context [match ?x with _ => _ end] => destruct x; try discriminate end;
    inversion E; subst; cbn [handled]; auto. apply in_or_app. left; auto.
Qed.

(* a panic value reaches the handler, and no token is lost: tokens still equal the number of active tasks *)
Theorem panic_no_leak ids n tr s i v :
  NoDup ids -> (forall j, In (Submit j) tr -> In j ids) -> accepts (new_limiter n) tr = Some s ->
  In (Panic i v) tr -> In (i, v) (handled s) /\ tokens s = active s ids /\ wg s = active s ids.
Proof.
  intros Hnd Hsub Ha Hp. split.
  - clear Hsub Hnd. revert Ha Hp. generalize (new_limiter n).
    induction tr as [|e t IH]; intros s0 Ha Hp; [contradiction|]. cbn [accepts] in Ha.
    destruct (step s0 e) as [s1|] eqn:E; [|discriminate]. destruct Hp as [->|Hp]; [|eapply IH; eauto].
    apply (handled_mono i v t s1); auto. cbn [step] in E. destruct (tasks s0 i); try discriminate.
    inversion E; subst. cbn [handled]. apply in_or_app. right; left; auto.
  - pose proof (accepts_inv ids Hnd tr _ _ Hsub (init_inv ids n) Ha) as [Ht Hw _ _]. auto.
Qed.

(* Panic ; Cleanup leaves the same state as Return ; Cleanup, except that the handler has the value *)
Theorem panic_like_return s i v s1 s2 :
  step s (Panic i v) = Some s1 -> step s1 (Cleanup i) = Some s2 ->
  exists r1 r2, step s (Return i) = Some r1 /\ step r1 (Cleanup i) = Some r2 /\
    limit s2 = limit r2 /\ tokens s2 = tokens r2 /\ wg s2 = wg r2 /\ tasks s2 = tasks r2 /\ handled s2 = handled r2 ++ [(i, v)].
Proof.
  cbn [step]. destruct (tasks s i) eqn:Ei; try discriminate. intros H1. inversion H1; subst; clear H1.
  cbn [tasks]. unfold set at 1. rewrite Nat.eqb_refl. intros H2. inversion H2; subst; clear H2.
  eexists. eexists. split; [reflexivity|]. cbn [tasks]. unfold set at 1. rewrite Nat.eqb_refl. split; [reflexivity|].
  cbn. repeat split; reflexivity.
Qed.

(* later submissions still obtain the free slots: from a state with k tokens taken, any limit - k fresh tasks can be
   submitted and started one after the other, and are then all running at once *)
Lemma submit_batch : forall l s, NoDup l -> (forall i, In i l -> tasks s i = Pending) -> tokens s + length l <= limit s ->
  exists s', accepts s (map Submit l) = Some s' /\ tokens s' = tokens s + length l /\ wg s' = wg s + length l /\
             limit s' = limit s /\ handled s' = handled s /\
             (forall i, In i l -> tasks s' i = Spawned) /\ (forall i, ~ In i l -> tasks s' i = tasks s i).
Proof.
  induction l as [|a l IH]; intros s Hnd Hp Hle; cbn [map accepts length] in *.
  - exists s. repeat split; auto; try lia. intros i [].
  - inversion Hnd as [|? ? Hnin Hnd']; subst. cbn [step]. rewrite (Hp a) by (left; auto).
    destruct (Nat.ltb_spec (tokens s) (limit s)); [|lia].
    edestruct (IH {| limit := limit s; tokens := S (tokens s); wg := S (wg s); tasks := set (tasks s) a Spawned; handled := handled s |})
      as (s' & A & B & C & D & E & F & G); auto.
    + intros i Hi. cbn [tasks]. unfold set. destruct (Nat.eqb_spec i a); [subst; contradiction|]. apply Hp. right; auto.
    + cbn [tokens limit]. lia.
    + exists s'. cbn [tokens wg limit handled tasks] in *. repeat split; auto; try lia.
      * intros i [->|Hi]; auto. rewrite G by auto. unfold set. rewrite Nat.eqb_refl. reflexivity.
      * intros i Hi. rewrite G by (intros X; apply Hi; right; auto). unfold set. destruct (Nat.eqb_spec i a); auto.
        subst. exfalso. apply Hi. left; auto.
Qed.
Lemma start_batch : forall l s, NoDup l -> (forall i, In i l -> tasks s i = Spawned) ->
  exists s', accepts s (map Start l) = Some s' /\ tokens s' = tokens s /\ wg s' = wg s /\ limit s' = limit s /\
             (forall i, In i l -> tasks s' i = Running) /\ (forall i, ~ In i l -> tasks s' i = tasks s i).
Proof.
  induction l as [|a l IH]; intros s Hnd Hp; cbn [map accepts] in *.
  - exists s. repeat split; auto. intros i [].
  - inversion Hnd as [|? ? Hnin Hnd']; subst. cbn [step]. rewrite (Hp a) by (left; auto).
    edestruct (IH {| limit := limit s; tokens := tokens s; wg := wg s; tasks := set (tasks s) a Running; handled := handled s |})
      as (s' & A & B & C & D & F & G); auto.
    + intros i Hi. cbn [tasks]. unfold set. destruct (Nat.eqb_spec i a); [subst; contradiction|]. apply Hp. right; auto.
    + exists s'. cbn [tokens wg limit tasks] in *. repeat split; auto.
      * intros i [->|Hi]; auto. rewrite G by auto. unfold set. rewrite Nat.eqb_refl. reflexivity.
      * intros i Hi. rewrite G by (intros X; apply Hi; right; auto). unfold set. destruct (Nat.eqb_spec i a); auto.
        subst. exfalso. apply Hi. left; auto.
Qed.
Lemma running_all s l : NoDup l -> (forall i, In i l -> tasks s i = Running) -> running s l = length l.
Proof.
  unfold running. induction l as [|a l IH]; intros Hnd H; [reflexivity|]. inversion Hnd; subst. cbn [filter].
  rewrite (H a) by (left; auto). cbn [is_running length]. f_equal. apply IH; auto. intros i Hi. apply H. right; auto.
Qed.

Theorem slots_come_back ids n tr s l :
  NoDup ids -> (forall j, In (Submit j) tr -> In j ids) -> accepts (new_limiter n) tr = Some s ->
  NoDup l -> (forall i, In i l -> tasks s i = Pending) -> active s ids + length l <= eff_limit n ->
  exists s', accepts s (map Submit l ++ map Start l) = Some s' /\ running s' l = length l.
Proof.
  intros Hnd Hsub Ha Hl Hp Hle.
  pose proof (accepts_inv ids Hnd tr _ _ Hsub (init_inv ids n) Ha) as [Ht _ _ _].
  pose proof (accepts_limit _ _ _ Ha) as HL. cbn [new_limiter limit] in HL.
  destruct (submit_batch l s Hl Hp) as (s1 & A & _ & _ & _ & _ & F & _); [lia|].
  destruct (start_batch l s1 Hl F) as (s2 & A2 & _ & _ & _ & F2 & _).
  exists s2. split; [|apply running_all; auto]. rewrite (accepts_app_intro _ _ _ _ A). exact A2.
Qed.

(* ---------------------------------------------------------------- observed traces are model traces *)
Fixpoint expand (tr : list oev) : option (list ev) :=
  match tr with
  | [] => Some []
  | e :: t => match obs_events e, expand t with Some a, Some b => Some (a ++ b) | _, _ => None end
  end.
Lemma accept_obs_sound : forall tr s k s', accept_obs s k tr = inl s' ->
  exists evs, expand tr = Some evs /\ accepts s evs = Some s'.
Proof.
  induction tr as [|e t IH]; intros s k s' H; cbn [accept_obs expand] in *.
  - inversion H; subst. exists []. auto.
  - destruct (obs_events e) as [a|]; [|discriminate]. destruct (accepts s a) as [s1|] eqn:E; [|discriminate].
    destruct (IH _ _ _ H) as (evs & E1 & E2). rewrite E1. exists (a ++ evs). split; auto.
    rewrite (accepts_app_intro _ _ _ _ E). exact E2.
Qed.

(* ---------------------------------------------------------------- Recover *)
Definition is_cleanup0 (e : rcev) : bool := match e with CleanupRan 0 => true | _ => false end.
Theorem limiter_flow fn :
  recover_ fn [None] = RanFn :: (match fn with Some v => [Handler v] | None => [] end) ++ [CleanupRan 0] /\
  length (filter is_cleanup0 (recover_ fn [None])) = 1 /\
  (forall v, fn = Some v -> In (Handler v) (recover_ fn [None])).
Proof.
  destruct fn as [v|]; cbn; repeat split; auto.
  - intros w E. inversion E; subst. right; left; reflexivity.
  - intros v E; discriminate.
Qed.
Theorem first_cleanup_runs fn c cs : In (CleanupRan 0) (recover_ fn (c :: cs)).
Proof. unfold recover_. right. apply in_or_app. right. destruct c; cbn [run_cleanups]; left; reflexivity. Qed.
