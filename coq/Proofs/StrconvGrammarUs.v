(* C15, grammar part 1: strconv's underscoreOK state machine (Model/Strconv.v us_scan / underscore_ok) accepts exactly the
   texts of the declarative separator rule of Model/StrconvGrammar.v — on the token structure (groups_separated over
   split_us) and in the positional reading (separators_only: wherever the text is l ++ "_" ++ r, l ends with a digit or
   is the empty text behind a base prefix, and r begins with a digit).  Also: the `c | 32` character tests of the model
   are the explicit character ranges of the specification, for EVERY integer c (not only bytes). *)
From Coq Require Import List ZArith Lia Bool.
From V Require Import Model.Strconv Model.StrconvGrammar.
Import ListNotations.
Local Open Scope Z_scope.
Arguments Z.mul : simpl never.
Arguments Z.add : simpl never.
Arguments Z.sub : simpl never.
Arguments Z.lor : simpl never.

(* ---------------------------------------------------------------- c | 32 *)
Lemma lower_small c : 0 <= lower c < 128 -> 0 <= c < 128.
Proof.
  unfold lower. intros [H1 H2]. apply Z.lor_nonneg in H1 as [Hc _]. split; [exact Hc|].
  destruct (Z_lt_le_dec c 128) as [|Hge]; [assumption|exfalso].
  pose proof (Z.log2_lor c 32 Hc ltac:(lia)) as E.
  pose proof (Z.log2_le_mono 128 c Hge) as L1. change (Z.log2 128) with 7 in L1.
  pose proof (Z.log2_le_mono (Z.lor c 32) 127 ltac:(lia)) as L2. change (Z.log2 127) with 6 in L2.
  lia.
Qed.

Lemma lower_cases c : 0 <= c < 128 \/ (~ 0 <= c < 128 /\ ~ 0 <= lower c < 128).
Proof.
  destruct (Z_le_dec 0 c); [destruct (Z_lt_dec c 128); [left; lia|]|];
    right; (split; [lia|]); intros H; apply lower_small in H; lia.
Qed.

Lemma sweep128 (P : Z -> bool) : forallb P (map Z.of_nat (seq 0 128)) = true -> forall c, 0 <= c < 128 -> P c = true.
Proof.
  intros H c Hc. rewrite forallb_forall in H. apply H. apply in_map_iff. exists (Z.to_nat c).
  split; [lia|]. apply in_seq. lia.
Qed.

Definition opt_eqb (a b : option Z) : bool :=
  match a, b with Some x, Some y => x =? y | None, None => true | _, _ => false end.
Lemma opt_eqb_eq a b : opt_eqb a b = true -> a = b.
Proof. destruct a, b; cbn; try discriminate; auto. intros H; apply Z.eqb_eq in H; congruence. Qed.

(* the model's digit value (c | 32 for letters) is the specification's (explicit ranges), for every integer *)
Lemma digit_of_char_value c : digit_of c = char_value c.
Proof.
  destruct (lower_cases c) as [Hs|[Hc Hl]].
  - apply opt_eqb_eq. revert c Hs. apply sweep128. vm_compute. reflexivity.
  - unfold digit_of, char_value.
    destruct (Z.leb_spec 48 c); destruct (Z.leb_spec c 57); cbn [andb]; try lia.
    all: destruct (Z.leb_spec 97 (lower c)); destruct (Z.leb_spec (lower c) 122); cbn [andb]; try lia.
    all: destruct (Z.leb_spec 97 c); destruct (Z.leb_spec c 122); cbn [andb]; try lia.
    all: destruct (Z.leb_spec 65 c); destruct (Z.leb_spec c 90); cbn [andb]; try lia; reflexivity.
Qed.

(* underscoreOK's digit test *)
Lemma us_digit_eq hex c :
  (((48 <=? c) && (c <=? 57)) || (hex && (97 <=? lower c) && (lower c <=? 102))) = sep_digit hex c.
Proof.
  destruct (lower_cases c) as [Hs|[Hc Hl]].
  - revert c Hs. destruct hex.
    + intros c Hc. apply eqb_true_iff. revert c Hc. apply sweep128. vm_compute. reflexivity.
    + intros c Hc. apply eqb_true_iff. revert c Hc. apply sweep128. vm_compute. reflexivity.
  - unfold sep_digit.
    destruct (Z.leb_spec 48 c); destruct (Z.leb_spec c 57); cbn [andb orb]; try lia; try reflexivity.
    all: destruct hex; cbn [andb orb]; try reflexivity.
    all: destruct (Z.leb_spec 97 (lower c)); destruct (Z.leb_spec (lower c) 102); cbn [andb]; try lia.
    all: destruct (Z.leb_spec 97 c); destruct (Z.leb_spec c 102); cbn [andb orb]; try lia.
    all: destruct (Z.leb_spec 65 c); destruct (Z.leb_spec c 70); cbn [andb]; try lia; reflexivity.
Qed.

(* the prefix letters *)
Definition prefix_agrees (c : Z) : bool :=
  match prefix_base c with
  | Some b => is_boxl c && (b =? (if lower c =? 98 then 2 else if lower c =? 111 then 8 else if lower c =? 120 then 16 else 0))
  | None => negb (is_boxl c)
  end.
Lemma prefix_agrees_all c : prefix_agrees c = true.
Proof.
  destruct (lower_cases c) as [Hs|[Hc Hl]].
  - revert c Hs. apply sweep128. vm_compute. reflexivity.
  - unfold prefix_agrees, prefix_base, is_boxl.
    destruct (Z.eqb_spec c 98); [lia|]. destruct (Z.eqb_spec c 66); [lia|].
    destruct (Z.eqb_spec c 111); [lia|]. destruct (Z.eqb_spec c 79); [lia|].
    destruct (Z.eqb_spec c 120); [lia|]. destruct (Z.eqb_spec c 88); [lia|]. cbn [orb].
    destruct (Z.eqb_spec (lower c) 98); [lia|]. destruct (Z.eqb_spec (lower c) 111); [lia|].
    destruct (Z.eqb_spec (lower c) 120); [lia|]. reflexivity.
Qed.

Lemma prefix_some p b : prefix_base p = Some b ->
  is_boxl p = true /\ b = (if lower p =? 98 then 2 else if lower p =? 111 then 8 else 16) /\ (lower p =? 120) = (b =? 16)
  /\ (b = 2 \/ b = 8 \/ b = 16).
Proof.
  intros E. pose proof (prefix_agrees_all p) as H. unfold prefix_agrees in H. rewrite E in H.
  apply andb_true_iff in H as [H1 H2]. apply Z.eqb_eq in H2. split; [exact H1|].
  unfold is_boxl in H1.
  destruct (Z.eqb_spec (lower p) 98) as [E1|E1].
  { subst b. rewrite E1. repeat split; auto. }
  destruct (Z.eqb_spec (lower p) 111) as [E2|E2].
  { subst b. rewrite E2. repeat split; auto. }
  destruct (Z.eqb_spec (lower p) 120) as [E3|E3]; [|discriminate H1].
  subst b. repeat split; auto.
Qed.
Lemma prefix_none p : prefix_base p = None -> is_boxl p = false.
Proof.
  intros E. pose proof (prefix_agrees_all p) as H. unfold prefix_agrees in H. rewrite E in H.
  apply negb_true_iff in H. exact H.
Qed.

(* ---------------------------------------------------------------- the scan on the token structure *)
Lemma split_us_cons s : exists g gs, split_us s = g :: gs.
Proof.
  destruct s as [|c t]; cbn [split_us]; [eauto|].
  destruct (c =? us_char); [eauto|]. destruct (split_us t); eauto.
Qed.

Lemma sep_digit_not_us hex c : sep_digit hex c = true -> (c =? 95) = false.
Proof.
  unfold sep_digit. intros H. destruct (Z.eqb_spec c 95) as [->|]; [|reflexivity].
  destruct hex; discriminate H.
Qed.

Lemma tokens_cons hex left c g gs :
  tokens_separated hex left (c :: g) gs = tokens_separated hex (sep_digit hex c) g gs.
Proof. destruct gs as [|g' gs']; [reflexivity|]. cbn [tokens_separated]. destruct g; reflexivity. Qed.

Definition st_left (st : saw) : bool := match st with SDigit => true | _ => false end.

Lemma us_scan_tokens hex : forall s st,
  us_scan hex s st =
  match split_us s with
  | g :: gs => match st with
               | SUnder => starts_with_digit hex g && tokens_separated hex false g gs
               | _ => tokens_separated hex (st_left st) g gs
               end
  | [] => true
  end.
Proof.
  induction s as [|c t IH]; intros st.
  - destruct st; reflexivity.
  - cbn [us_scan split_us]. rewrite us_digit_eq. unfold us_char.
    destruct (split_us_cons t) as (g & gs & Et).
    destruct (sep_digit hex c) eqn:Ed.
    + rewrite (sep_digit_not_us hex c Ed). rewrite IH, Et. cbn [st_left].
      destruct st; cbn [starts_with_digit st_left]; rewrite ?tokens_cons, ?Ed; reflexivity.
    + destruct (c =? 95) eqn:E95.
      * rewrite ?IH, Et. destruct st; cbn [st_left starts_with_digit tokens_separated andb]; reflexivity.
      * rewrite Et. destruct st; cbn [st_left starts_with_digit]; rewrite ?Ed; cbn [andb]; try reflexivity.
        all: rewrite IH, Et; cbn [st_left]; rewrite tokens_cons, Ed; reflexivity.
Qed.

(* the Z-literal pattern of the model, unfolded into comparisons *)
Lemma underscore_ok_unfold s :
  underscore_ok s =
  let s1 := match s with c :: t => if (c =? 45) || (c =? 43) then t else s | [] => s end in
  match s1 with
  | c0 :: c1 :: t => if c0 =? 48 then (if is_boxl c1 then us_scan (lower c1 =? 120) t SDigit else us_scan false s1 SBegin)
                     else us_scan false s1 SBegin
  | _ => us_scan false s1 SBegin
  end.
Proof.
  unfold underscore_ok. cbv zeta.
  set (s1 := match s with c :: t => if (c =? 45) || (c =? 43) then t else s | [] => s end). clearbody s1.
  destruct s1 as [|c0 [|c1 t]]; [reflexivity| |].
  - destruct c0 as [|p|p]; try reflexivity. do 6 (destruct p as [p|p|]; try reflexivity).
  - destruct c0 as [|p|p]; try reflexivity. do 6 (destruct p as [p|p|]; try reflexivity).
Qed.

(* underscoreOK = the declarative rule on the token structure *)
Theorem underscore_ok_tokens s : underscore_ok s = go_underscore_ok s.
Proof.
  rewrite underscore_ok_unfold. unfold go_underscore_ok, us_context. cbv zeta.
  replace (match s with c :: t => if (c =? 45) || (c =? 43) then t else s | [] => s end)
     with (match s with c :: t => if (c =? 43) || (c =? 45) then t else s | [] => s end)
     by (destruct s as [|c t]; [reflexivity|]; rewrite orb_comm; reflexivity).
  set (s1 := match s with c :: t => if (c =? 43) || (c =? 45) then t else s | [] => s end). clearbody s1.
  assert (D : forall x, us_scan false x SBegin = groups_separated false false (split_us x)).
  { intros x. rewrite us_scan_tokens. destruct (split_us x); reflexivity. }
  destruct s1 as [|c0 [|c1 t]]; try apply D.
  destruct (c0 =? 48); [|apply D].
  destruct (prefix_base c1) as [b|] eqn:Ep.
  - destruct (prefix_some c1 b Ep) as (-> & _ & -> & _). rewrite us_scan_tokens. destruct (split_us t); reflexivity.
  - rewrite (prefix_none c1 Ep). apply D.
Qed.

(* ---------------------------------------------------------------- token structure <-> positional reading *)
Lemma sep_digit_us hex : sep_digit hex us_char = false.
Proof. destruct hex; reflexivity. Qed.

Lemma starts_split hex s : match split_us s with g :: _ => starts_with_digit hex g = starts_with_digit hex s | [] => True end.
Proof.
  destruct s as [|c t]; cbn [split_us]; [reflexivity|].
  destruct (Z.eqb_spec c us_char) as [->|].
  - cbn [starts_with_digit]. rewrite sep_digit_us. reflexivity.
  - destruct (split_us t); reflexivity.
Qed.

Lemma ends_cons hex c a l : ends_with_digit hex (c :: a :: l) = ends_with_digit hex (a :: l).
Proof. reflexivity. Qed.

Lemma separators_cons hex left c t :
  separators_only hex left (c :: t) <->
  (c = us_char -> left = true /\ starts_with_digit hex t = true) /\ separators_only hex (sep_digit hex c) t.
Proof.
  unfold separators_only. split.
  - intros H. split.
    + intros ->. apply (H [] t). reflexivity.
    + intros l r E. destruct (H (c :: l) r) as [H1 H2]; [rewrite E; reflexivity|]. split; [|exact H2].
      destruct l as [|a l]; [exact H1|]. rewrite ends_cons in H1. exact H1.
  - intros [H0 H] l r E. destruct l as [|a l].
    + cbn [app] in E. injection E as -> ->. apply H0. reflexivity.
    + cbn [app] in E. injection E as <- ->. destruct (H l r eq_refl) as [H1 H2]. split; [|exact H2].
      destruct l as [|a' l]; [exact H1|]. rewrite ends_cons. exact H1.
Qed.

Theorem tokens_positional hex : forall s left,
  groups_separated hex left (split_us s) = true <-> separators_only hex left s.
Proof.
  induction s as [|c t IH]; intros left.
  - cbn. split; [|reflexivity]. intros _ l r E. destruct l; discriminate E.
  - rewrite separators_cons. cbn [split_us].
    destruct (split_us_cons t) as (g & gs & Et). pose proof (starts_split hex t) as Hst. rewrite Et in Hst.
    destruct (Z.eqb_spec c us_char) as [->|Hne].
    + rewrite sep_digit_us, <- IH, Et. cbn [groups_separated tokens_separated]. rewrite Hst.
      rewrite !andb_true_iff. split.
      * intros [[H1 H2] H3]. split; [intros _; split; assumption|exact H3].
      * intros [H1 H3]. destruct (H1 eq_refl) as [H1a H1b]. repeat split; assumption.
    + rewrite Et. cbn [groups_separated]. rewrite tokens_cons, <- IH, Et. cbn [groups_separated].
      split; [intros H; split; [intros E; contradiction|exact H]|intros [_ H]; exact H].
Qed.

(* the characterisation in one statement *)
Theorem underscore_ok_characterised s :
  let '(hex, pre, body) := us_context s in
  underscore_ok s = groups_separated hex pre (split_us body) /\
  (underscore_ok s = true <-> separators_only hex pre body).
Proof.
  pose proof (underscore_ok_tokens s) as E. unfold go_underscore_ok in E.
  destruct (us_context s) as [[hex pre] body]. split; [exact E|]. rewrite E. apply tokens_positional.
Qed.

(* the rule is not vacuous in either direction *)
Example sep_accepts : underscore_ok [48; 120; 95; 49; 102] = true /\ underscore_ok [49; 95; 48; 48; 48] = true.   (* 0x_1f 1_000 *)
Proof. split; reflexivity. Qed.
Example sep_rejects : underscore_ok [95; 49] = false /\ underscore_ok [49; 95] = false /\ underscore_ok [49; 95; 95; 48] = false
                      /\ underscore_ok [48; 95; 120; 49] = false /\ underscore_ok [48; 120; 49; 95] = false.
Proof. repeat split; reflexivity. Qed.
