(* C01, refinement model -> judge: every kind of step a scheduled thread can take, against the judge's reaction. *)
From Coq Require Import List ZArith Lia Bool Arith.
Import ListNotations.
From V Require Import Lib.Enc Model.SyncRingConc Model.SyncRingJudge Proofs.SyncRingConc Proofs.SyncRingConcTop Proofs.SyncRingExcuse
  Run.C01 Proofs.SyncRingJudgeSim Proofs.SyncRingJudgeThread Proofs.SyncRingJudgeStep.
Local Open Scope Z_scope.
Arguments Z.add : simpl never.
Arguments Z.sub : simpl never.
Arguments Z.mul : simpl never.
Arguments Z.modulo : simpl never.
Arguments Z.div : simpl never.
Arguments Z.pow : simpl never.
Arguments Z.of_nat : simpl never.
Arguments Z.to_nat : simpl never.

Lemma jstep_load cap progs js i loc a b res : jstep cap progs js (JAtomic i EvLoadU32 loc a b res) = jlook cap js.
Proof. reflexivity. Qed.
Lemma jstep_store cap progs js i loc a b res : jstep cap progs js (JAtomic i EvStoreU32 loc a b res) = jlook cap js.
Proof. reflexivity. Qed.
Lemma jstep_gosched cap progs js i loc a b res : jstep cap progs js (JAtomic i EvGosched loc a b res) = jlook cap js.
Proof. reflexivity. Qed.
Lemma jstep_cas_fail cap progs js i loc a b : jstep cap progs js (JAtomic i EvCasU32 loc a b 0) = jlook cap js.
Proof. reflexivity. Qed.
Lemma jstep_cas_tail cap progs js i a b : jstep cap progs js (JAtomic i EvCasU32 LocTail a b 1) = j_lp cap (jlook cap js) i true.
Proof. reflexivity. Qed.
Lemma jstep_cas_head cap progs js i a b : jstep cap progs js (JAtomic i EvCasU32 LocHead a b 1) = j_lp cap (jlook cap js) i false.
Proof. reflexivity. Qed.

Lemma cnt_exact k s : G k s -> u32 (u32 (tl s) - u32 (hd s)) = Z.of_nat (length (q s)).
Proof.
  intros HG. destruct (cap_bounds k (g_k _ _ HG)) as [[H2 H31] _].
  pose proof (g_q _ _ HG). pose proof (g_full _ _ HG). pose proof (g_cap _ _ HG).
  assert (2 ^ 31 < 2 ^ 32) by (apply Z.pow_lt_mono_r; lia).
  unfold u32. rewrite <- Zminus_mod. replace (tl s - hd s) with (Z.of_nat (length (q s))) by lia.
  apply Z.mod_small. unfold M32. lia.
Qed.
Lemma empty_exact k s : G k s -> (u32 (hd s) =? u32 (tl s)) = match q s with [] => true | _ => false end.
Proof.
  intros HG. destruct (cap_bounds k (g_k _ _ HG)) as [[H2 H31] _].
  pose proof (g_q _ _ HG) as Hq. pose proof (g_full _ _ HG). pose proof (g_cap _ _ HG).
  assert (2 ^ 31 < 2 ^ 32) by (apply Z.pow_lt_mono_r; lia). assert (HM : M32 = 2 ^ 32) by reflexivity.
  destruct (q s) as [|y l]; cbn [length] in *.
  - replace (tl s) with (hd s) by lia. apply Z.eqb_refl.
  - apply Z.eqb_neq. intros E. apply u32_inj_near in E; lia.
Qed.

Lemma In_skipn {A} (x : A) n l : In x (skipn n l) -> In x l.
Proof. intros H. rewrite <- (firstn_skipn n l). apply in_or_app. right. exact H. Qed.

Section Entry.
Variables (k : Z) (progs : list (list Z)) (c : config) (rts : list rthread) (js : jstate) (i : nat).
Hypothesis HI : Inv k c.
Hypothesis HS : SIM k progs (sh c) (ths c) rts js.
Hypothesis HW : forall x, In x (nth i progs []) -> wf_op x = true.

Lemma get_ti p rt : nth_error (ths c) i = Some p -> nth_error rts i = Some rt ->
  exists ti, nth_error (j_ths js) i = Some ti /\ TR (2 ^ k) (sh c) p rt ti (nth i progs []).
Proof.
  intros Hi Hrt. destruct (sim_get _ _ _ _ _ _ _ _ HS Hi) as (rt' & ti & A & B & C). rewrite Hrt in A. inversion A; subst.
  exists ti. split; auto.
Qed.

Lemma atomic_case p rt s' p' rt' :
  nth_error (ths c) i = Some p -> nth_error rts i = Some rt -> p <> Idle -> same_view (sh c) s' ->
  (forall ti r1, nth_error (j_ths js) i = Some ti -> TRmid (2 ^ k) p rt (look (2 ^ k) (j_q js) ti) (nth i progs []) r1 ->
                 (o_excuse r1 = true \/ fresh (sh c) p r1) -> (boundary_now (2 ^ k) (j_q js) r1 = true -> o_excuse r1 = true) ->
                 TR (2 ^ k) s' p' rt' (look (2 ^ k) (j_q js) ti) (nth i progs [])) ->
  SIM k progs s' (upd (ths c) i p') (updl rts i rt') (jlook (2 ^ k) js).
Proof.
  intros Hi Hrt Hp Hv K. destruct (get_ti p rt Hi Hrt) as (ti & Hti & HT).
  destruct (look_mid _ _ _ _ _ _ (j_q js) HT Hp) as (r1 & HM & HF & HB).
  eapply SIM_atomic; eauto.
Qed.

Lemma plain_case p rt s' p' rt' :
  nth_error (ths c) i = Some p -> nth_error rts i = Some rt -> p <> Idle -> same_view (sh c) s' ->
  (forall ti r1, TRmid (2 ^ k) p rt ti (nth i progs []) r1 -> (o_excuse r1 = true \/ fresh (sh c) p r1) ->
                 TR (2 ^ k) s' p' rt' ti (nth i progs [])) ->
  SIM k progs s' (upd (ths c) i p') (updl rts i rt') js.
Proof.
  intros Hi Hrt Hp Hv K. destruct (get_ti p rt Hi Hrt) as (ti & Hti & HT).
  destruct (TR_mid_elim _ _ _ _ _ _ HT Hp) as (r1 & HM & HF).
  eapply SIM_plain; eauto.
Qed.

Lemma overlap_excused j pj ti r1 :
  nth_error (ths c) j = Some pj -> pj <> Idle -> j <> i -> nth_error (j_ths js) i = Some ti ->
  t_cur (look (2 ^ k) (j_q js) ti) = Some r1 -> o_excuse r1 = true.
Proof.
  intros Hj Hpj Hne Hti Hr1. destruct (sim_get _ _ _ _ _ _ _ _ HS Hj) as (rtj & tj & A & B & [C _]).
  destruct (TRcore_inflight _ _ _ _ _ C Hpj) as [rj Hrj].
  destruct (ext_cur_some _ _ _ (ext_look (2 ^ k) (j_q js) ti) Hr1) as (r & Hr & Himp). apply Himp.
  eapply (Einv_other (j_ths js) i j); eauto. apply (sim_e _ _ _ _ _ _ HS).
Qed.

Lemma rt_next_ret p s' x rt1 : p <> Idle -> nth_error (ths c) i = Some p ->
  rt_next p {| sh := s'; ths := upd (ths c) i Idle; hist := hist c ++ [(i, x)] |} i rt1 = rt_after rt1 x.
Proof.
  intros Hp Hi. unfold rt_next. cbn [ths hist]. rewrite (nth_error_upd_len _ _ _ _ Hi).
  rewrite map_app. cbn [map snd]. rewrite last_last. destruct p; try congruence; reflexivity.
Qed.
Lemma rt_next_cont p s' p' h rt1 : p' <> Idle -> nth_error (ths c) i = Some p ->
  rt_next p {| sh := s'; ths := upd (ths c) i p'; hist := h |} i rt1 = rt1.
Proof.
  intros Hp Hi. unfold rt_next. cbn [ths hist]. rewrite (nth_error_upd_len _ _ _ _ Hi).
  destruct p'; try congruence; rewrite andb_false_r; reflexivity.
Qed.

Definition Goal (p : pc) (rt : rthread) (c' : config) : Prop :=
  exists ev, Z.of_nat i :: observe (sh c) p = enc_jev ev /\
             SIM k progs (sh c') (ths c') (updl rts i (rt_next p c' i rt)) (jstep (2 ^ k) progs js ev).

Lemma view_refl s : same_view s s.
Proof. repeat split. Qed.

Lemma case_PuLoadTail v rt o c' :
  nth_error (ths c) i = Some (PuLoadTail v) -> nth_error rts i = Some rt -> step c (i, o) = Some c' -> Goal (PuLoadTail v) rt c'.
Proof.
  intros Hi Hrt Hs. unfold step in Hs. rewrite Hi in Hs. cbn [tstep] in Hs. inversion Hs; subst c'; clear Hs.
  unfold Goal. cbn [sh ths observe]. eexists (JAtomic i _ _ _ _ _). split; [reflexivity|].
  rewrite rt_next_cont by (discriminate || exact Hi). rewrite jstep_load.
  eapply atomic_case; eauto; [discriminate|apply view_refl|].
  intros ti r1 Hti HM HF HB. eapply TR_mid_intro; [eapply TRmid_move; [exact HM|exact (TRmid_rec _ _ _ _ _ _ HM)]|right; reflexivity].
Qed.

Lemma case_PoLoadHead rt o c' :
  nth_error (ths c) i = Some PoLoadHead -> nth_error rts i = Some rt -> step c (i, o) = Some c' -> Goal PoLoadHead rt c'.
Proof.
  intros Hi Hrt Hs. unfold step in Hs. rewrite Hi in Hs. cbn [tstep] in Hs. inversion Hs; subst c'; clear Hs.
  unfold Goal. cbn [sh ths observe]. eexists (JAtomic i _ _ _ _ _). split; [reflexivity|].
  rewrite rt_next_cont by (discriminate || exact Hi). rewrite jstep_load.
  eapply atomic_case; eauto; [discriminate|apply view_refl|].
  intros ti r1 Hti HM HF HB. eapply TR_mid_intro; [eapply TRmid_move; [exact HM|exact (TRmid_rec _ _ _ _ _ _ HM)]|right; reflexivity].
Qed.

Lemma case_PuLoadSeq v pos T0 rt o c' :
  nth_error (ths c) i = Some (PuLoadSeq v pos T0) -> nth_error rts i = Some rt -> step c (i, o) = Some c' -> Goal (PuLoadSeq v pos T0) rt c'.
Proof.
  intros Hi Hrt Hs. unfold step in Hs. rewrite Hi in Hs. cbn [tstep] in Hs.
  destruct (nth_error (slots (sh c)) (sidx (sh c) pos)) as [[xv xs]|] eqn:Hx; [|discriminate].
  destruct (Z.eqb_spec pos xs) as [E|E]; inversion Hs; subst c'; clear Hs;
    unfold Goal; cbn [sh ths observe]; (eexists (JAtomic i _ _ _ _ _); split; [reflexivity|]); rewrite jstep_load.
  - rewrite rt_next_cont by (discriminate || exact Hi).
    eapply atomic_case; eauto; [discriminate|apply view_refl|].
    intros ti r1 Hti HM HF HB. eapply TR_mid_intro; [eapply TRmid_move; [exact HM|exact (TRmid_rec _ _ _ _ _ _ HM)]|].
    destruct HF as [X|X]; [left; exact X|right; exact X].
  - rewrite rt_next_ret by (discriminate || exact Hi).
    eapply atomic_case; eauto; [discriminate|apply view_refl|].
    intros ti r1 Hti HM HF HB. apply TR_idle_intro.
    pose proof (TRmid_rec _ _ _ _ _ _ HM) as (Rp & Rv & Rn & Rl).
    eapply TRmid_return; [exact HM| |intros _; exact Rl|discriminate].
    cbn [res_fits]. repeat split; auto. intros _.
    destruct (o_wait r1) eqn:Ewt; [apply orb_true_r|]. rewrite orb_false_r.
    destruct (push_seq_check_fails_excused k c i v pos T0 (xv, xs) HI Hi Hx ltac:(cbn [snd]; congruence)) as [A|[A|(j & pj & f & Hj & Ho & _ & _)]].
    + destruct HF as [X|X]; [exact X|]. cbn [fresh] in X. lia.
    + apply HB. unfold boundary_now. rewrite Rv, Rp. destruct (Z.ltb_spec v 0); [lia|].
      rewrite (sim_q _ _ _ _ _ _ HS). apply Z.leb_le. rewrite A, (g_cap _ _ (inv_g _ _ HI)). lia.
    + eapply (overlap_excused j pj); eauto.
      * intros ->. discriminate Ho.
      * intros ->. rewrite Hi in Hj. inversion Hj; subst. discriminate Ho.
      * eapply TRmid_cur; eauto.
Qed.

Lemma case_PoLoadSeq pos H0 rt o c' :
  nth_error (ths c) i = Some (PoLoadSeq pos H0) -> nth_error rts i = Some rt -> step c (i, o) = Some c' -> Goal (PoLoadSeq pos H0) rt c'.
Proof.
  intros Hi Hrt Hs. unfold step in Hs. rewrite Hi in Hs. cbn [tstep] in Hs.
  destruct (nth_error (slots (sh c)) (sidx (sh c) pos)) as [[xv xs]|] eqn:Hx; [|discriminate].
  destruct (Z.eqb_spec (u32 (pos + 1)) xs) as [E|E]; inversion Hs; subst c'; clear Hs;
    unfold Goal; cbn [sh ths observe]; (eexists (JAtomic i _ _ _ _ _); split; [reflexivity|]); rewrite jstep_load.
  - rewrite rt_next_cont by (discriminate || exact Hi).
    eapply atomic_case; eauto; [discriminate|apply view_refl|].
    intros ti r1 Hti HM HF HB. eapply TR_mid_intro; [eapply TRmid_move; [exact HM|exact (TRmid_rec _ _ _ _ _ _ HM)]|].
    destruct HF as [X|X]; [left; exact X|right; exact X].
  - rewrite rt_next_ret by (discriminate || exact Hi).
    eapply atomic_case; eauto; [discriminate|apply view_refl|].
    intros ti r1 Hti HM HF HB. apply TR_idle_intro.
    pose proof (TRmid_rec _ _ _ _ _ _ HM) as (Rp & Rv & Rl).
    eapply TRmid_return; [exact HM| |intros _; exact Rl|discriminate].
    cbn [res_fits]. repeat split; auto.
    destruct (o_wait r1) eqn:Ewt; [apply orb_true_r|]. rewrite orb_false_r.
    destruct (pop_seq_check_fails_excused k c i pos H0 (xv, xs) HI Hi Hx ltac:(cbn [snd]; congruence)) as [A|[A|(j & pj & f & Hj & Ho & _ & _)]].
    + destruct HF as [X|X]; [exact X|]. cbn [fresh] in X. lia.
    + apply HB. unfold boundary_now. rewrite Rp. destruct (Z.ltb_spec (o_val r1) 0); [lia|].
      rewrite (sim_q _ _ _ _ _ _ HS), A. reflexivity.
    + eapply (overlap_excused j pj); eauto.
      * intros ->. discriminate Ho.
      * intros ->. rewrite Hi in Hj. inversion Hj; subst. discriminate Ho.
      * eapply TRmid_cur; eauto.
Qed.

Lemma case_PuCas v pos seq T0 rt o c' :
  nth_error (ths c) i = Some (PuCas v pos seq T0) -> nth_error rts i = Some rt -> step c (i, o) = Some c' -> Inv k c' ->
  Goal (PuCas v pos seq T0) rt c'.
Proof.
  intros Hi Hrt Hs HI'. unfold step in Hs. rewrite Hi in Hs. cbn [tstep] in Hs.
  destruct (Z.eqb_spec (u32 (tl (sh c))) pos) as [E|E]; inversion Hs; subst c'; clear Hs;
    unfold Goal; cbn [sh ths observe]; (eexists (JAtomic i _ _ _ _ _); split; [reflexivity|]).
  - destruct (Z.eqb_spec (u32 (tl (sh c))) pos) as [_|]; [|congruence]. cbn [zb]. rewrite jstep_cas_tail.
    rewrite rt_next_cont by (discriminate || exact Hi).
    destruct (get_ti _ _ Hi Hrt) as (ti & Hti & HT).
    eapply SIM_lp_push; eauto.
    + pose proof (g_full _ _ (inv_g _ _ HI')) as F. pose proof (g_cap _ _ (inv_g _ _ HI')) as Cp. cbn [sh q cap] in F, Cp.
      rewrite app_length in F. cbn [length] in F. lia.
    + intros r A B. cbn [rec_pc]. auto.
    + intros r. exact I.
  - destruct (Z.eqb_spec (u32 (tl (sh c))) pos) as [|_]; [congruence|]. cbn [zb]. rewrite jstep_cas_fail.
    rewrite rt_next_ret by (discriminate || exact Hi).
    eapply atomic_case; eauto; [discriminate|apply view_refl|].
    intros ti r1 Hti HM HF HB. apply TR_idle_intro.
    pose proof (TRmid_rec _ _ _ _ _ _ HM) as (Rp & Rv & Rn & Rl).
    eapply TRmid_return; [exact HM| |intros _; exact Rl|discriminate].
    cbn [res_fits]. repeat split; auto. intros _.
    destruct HF as [X|X]; [rewrite X; reflexivity|]. cbn [fresh] in X.
    pose proof (get_assert c k i _ HI Hi) as Ha. cbn [tassert] in Ha. destruct Ha as (Hpos & _). subst T0. congruence.
Qed.

Lemma case_PoCas pos seq H0 rt o c' :
  nth_error (ths c) i = Some (PoCas pos seq H0) -> nth_error rts i = Some rt -> step c (i, o) = Some c' -> Inv k c' ->
  Goal (PoCas pos seq H0) rt c'.
Proof.
  intros Hi Hrt Hs HI'. unfold step in Hs. rewrite Hi in Hs. cbn [tstep] in Hs.
  destruct (Z.eqb_spec (u32 (hd (sh c))) pos) as [E|E]; inversion Hs; subst c'; clear Hs;
    unfold Goal; cbn [sh ths observe]; (eexists (JAtomic i _ _ _ _ _); split; [reflexivity|]).
  - destruct (Z.eqb_spec (u32 (hd (sh c))) pos) as [_|]; [|congruence]. cbn [zb]. rewrite jstep_cas_head.
    rewrite rt_next_cont by (discriminate || exact Hi).
    destruct (get_ti _ _ Hi Hrt) as (ti & Hti & HT).
    assert (Hne : exists x qt, q (sh c) = x :: qt).
    { pose proof (g_q _ _ (inv_g _ _ HI')) as F. pose proof (g_q _ _ (inv_g _ _ HI)) as F0. cbn [sh q hd tl] in F.
      destruct (q (sh c)) as [|x qt]; [cbn [tail length] in *; lia|eauto]. }
    destruct Hne as (x & qt & Hq).
    eapply (SIM_lp_pop _ _ _ _ _ _ _ _ _ _ _ _ _ _ x qt); eauto.
    + cbn [q]. rewrite Hq. reflexivity.
    + intros r A B C. cbn [rec_pc]. rewrite Hq. cbn [nth]. auto.
    + intros r. exact I.
  - destruct (Z.eqb_spec (u32 (hd (sh c))) pos) as [|_]; [congruence|]. cbn [zb]. rewrite jstep_cas_fail.
    rewrite rt_next_ret by (discriminate || exact Hi).
    eapply atomic_case; eauto; [discriminate|apply view_refl|].
    intros ti r1 Hti HM HF HB. apply TR_idle_intro.
    pose proof (TRmid_rec _ _ _ _ _ _ HM) as (Rp & Rv & Rl).
    eapply TRmid_return; [exact HM| |intros _; exact Rl|discriminate].
    cbn [res_fits]. repeat split; auto.
    destruct HF as [X|X]; [rewrite X; reflexivity|]. cbn [fresh] in X.
    pose proof (get_assert c k i _ HI Hi) as Ha. cbn [tassert] in Ha. destruct Ha as (Hpos & _). subst H0. congruence.
Qed.

Lemma case_PuWrite v pos seq T0 rt o c' :
  nth_error (ths c) i = Some (PuWrite v pos seq T0) -> nth_error rts i = Some rt -> step c (i, o) = Some c' ->
  Goal (PuWrite v pos seq T0) rt c'.
Proof.
  intros Hi Hrt Hs. unfold step in Hs. rewrite Hi in Hs. cbn [tstep] in Hs.
  destruct (nth_error (slots (sh c)) (sidx (sh c) pos)) as [[xv xs]|] eqn:Hx; [|discriminate].
  inversion Hs; subst c'; clear Hs. unfold Goal; cbn [sh ths observe]. exists (JPlain i). split; [reflexivity|]. cbn [jstep].
  rewrite rt_next_cont by (discriminate || exact Hi).
  eapply plain_case; eauto; [discriminate|apply same_view_set_slot|].
  intros ti r1 HM HF. eapply TR_mid_intro; [eapply TRmid_move; [exact HM|exact (TRmid_rec _ _ _ _ _ _ HM)]|right; exact I].
Qed.

Lemma case_PuPublish v pos seq T0 rt o c' :
  nth_error (ths c) i = Some (PuPublish v pos seq T0) -> nth_error rts i = Some rt -> step c (i, o) = Some c' ->
  Goal (PuPublish v pos seq T0) rt c'.
Proof.
  intros Hi Hrt Hs. unfold step in Hs. rewrite Hi in Hs. cbn [tstep] in Hs.
  destruct (nth_error (slots (sh c)) (sidx (sh c) pos)) as [[xv xs]|] eqn:Hx; [|discriminate].
  inversion Hs; subst c'; clear Hs. unfold Goal; cbn [sh ths observe]. eexists (JAtomic i _ _ _ _ _). split; [reflexivity|].
  rewrite jstep_store. rewrite rt_next_ret by (discriminate || exact Hi).
  eapply atomic_case; eauto; [discriminate|apply same_view_set_slot|].
  intros ti r1 Hti HM HF HB. apply TR_idle_intro.
  pose proof (TRmid_rec _ _ _ _ _ _ HM) as (Rp & Rl).
  eapply TRmid_return; [exact HM| |discriminate|intros _; exact Rl].
  cbn [res_fits]. repeat split; auto. discriminate.
Qed.

Lemma case_PoRead pos seq H0 gv rt o c' :
  nth_error (ths c) i = Some (PoRead pos seq H0 gv) -> nth_error rts i = Some rt -> step c (i, o) = Some c' ->
  Goal (PoRead pos seq H0 gv) rt c'.
Proof.
  intros Hi Hrt Hs. unfold step in Hs. rewrite Hi in Hs. cbn [tstep] in Hs.
  destruct (nth_error (slots (sh c)) (sidx (sh c) pos)) as [[xv xs]|] eqn:Hx; [|discriminate].
  inversion Hs; subst c'; clear Hs. unfold Goal; cbn [sh ths observe]. exists (JPlain i). split; [reflexivity|]. cbn [jstep].
  rewrite rt_next_cont by (discriminate || exact Hi).
  eapply plain_case; eauto; [discriminate|apply view_refl|].
  intros ti r1 HM HF. eapply TR_mid_intro; [eapply TRmid_move; [exact HM|exact (TRmid_rec _ _ _ _ _ _ HM)]|right; exact I].
Qed.

Lemma case_PoClear pos seq H0 gv val rt o c' :
  nth_error (ths c) i = Some (PoClear pos seq H0 gv val) -> nth_error rts i = Some rt -> step c (i, o) = Some c' ->
  Goal (PoClear pos seq H0 gv val) rt c'.
Proof.
  intros Hi Hrt Hs. unfold step in Hs. rewrite Hi in Hs. cbn [tstep] in Hs.
  destruct (nth_error (slots (sh c)) (sidx (sh c) pos)) as [[xv xs]|] eqn:Hx; [|discriminate].
  inversion Hs; subst c'; clear Hs. unfold Goal; cbn [sh ths observe]. exists (JPlain i). split; [reflexivity|]. cbn [jstep].
  rewrite rt_next_cont by (discriminate || exact Hi).
  eapply plain_case; eauto; [discriminate|apply same_view_set_slot|].
  intros ti r1 HM HF. eapply TR_mid_intro; [eapply TRmid_move; [exact HM|exact (TRmid_rec _ _ _ _ _ _ HM)]|right; exact I].
Qed.

Lemma case_PoRelease pos seq H0 gv val rt o c' :
  nth_error (ths c) i = Some (PoRelease pos seq H0 gv val) -> nth_error rts i = Some rt -> step c (i, o) = Some c' ->
  Goal (PoRelease pos seq H0 gv val) rt c'.
Proof.
  intros Hi Hrt Hs. unfold step in Hs. rewrite Hi in Hs. cbn [tstep] in Hs.
  destruct (nth_error (slots (sh c)) (sidx (sh c) pos)) as [[xv xs]|] eqn:Hx; [|discriminate].
  inversion Hs; subst c'; clear Hs. unfold Goal; cbn [sh ths observe]. eexists (JAtomic i _ _ _ _ _). split; [reflexivity|].
  rewrite jstep_store. rewrite rt_next_ret by (discriminate || exact Hi).
  pose proof (get_assert c k i _ HI Hi) as Ha. cbn [tassert] in Ha. destruct Ha as (_ & _ & _ & ->).
  eapply atomic_case; eauto; [discriminate|apply same_view_set_slot|].
  intros ti r1 Hti HM HF HB. apply TR_idle_intro.
  pose proof (TRmid_rec _ _ _ _ _ _ HM) as (Rp & Rl & Rg).
  eapply TRmid_return; [exact HM| |discriminate|intros _; exact Rl].
  cbn [res_fits]. repeat split; auto.
Qed.

Lemma case_ObsFirst k0 rt o c' :
  nth_error (ths c) i = Some (ObsFirst k0) -> nth_error rts i = Some rt -> step c (i, o) = Some c' -> Goal (ObsFirst k0) rt c'.
Proof.
  intros Hi Hrt Hs. unfold step in Hs. rewrite Hi in Hs. cbn [tstep] in Hs. inversion Hs; subst c'; clear Hs.
  unfold Goal. cbn [sh ths].
  assert (Hev : exists loc res, observe (sh c) (ObsFirst k0) = [1; EvLoadU32; loc; 0; 0; res]) by (destruct k0; cbn [observe]; eauto).
  destruct Hev as (loc & res & ->). eexists (JAtomic i _ _ _ _ _). split; [reflexivity|].
  rewrite rt_next_cont by (discriminate || exact Hi). rewrite jstep_load.
  eapply atomic_case; eauto; [discriminate|apply view_refl|].
  intros ti r1 Hti HM HF HB. eapply TR_mid_intro; [eapply TRmid_move; [exact HM|exact (TRmid_rec _ _ _ _ _ _ HM)]|].
  destruct HF as [X|X]; [left; exact X|right]. cbn [fresh] in *. split; [exact X|reflexivity].
Qed.

Lemma case_ObsSecond k0 a rt o c' :
  nth_error (ths c) i = Some (ObsSecond k0 a) -> nth_error rts i = Some rt -> step c (i, o) = Some c' -> Goal (ObsSecond k0 a) rt c'.
Proof.
  intros Hi Hrt Hs. unfold step in Hs. rewrite Hi in Hs. cbn [tstep] in Hs. inversion Hs; subst c'; clear Hs.
  unfold Goal. cbn [sh ths].
  assert (Hev : exists loc res, observe (sh c) (ObsSecond k0 a) = [1; EvLoadU32; loc; 0; 0; res]) by (destruct k0; cbn [observe]; eauto).
  destruct Hev as (loc & res & ->). eexists (JAtomic i _ _ _ _ _). split; [reflexivity|].
  rewrite rt_next_ret by (discriminate || exact Hi). rewrite jstep_load.
  pose proof (inv_g _ _ HI) as HG. pose proof (g_cap _ _ HG) as Hcap.
  assert (Hc0 : 0 <= 2 ^ k) by (apply Z.pow_nonneg; lia).
  eapply atomic_case; eauto; [discriminate|apply view_refl|].
  intros ti r1 Hti HM HF HB. apply TR_idle_intro.
  pose proof (TRmid_rec _ _ _ _ _ _ HM) as (Rp & Rv & Rl & Rw).
  eapply TRmid_return; [exact HM| |intros _; exact Rl|discriminate].
  cbn [res_fits]. split; [exact Rv|]. rewrite Rv. split.
  - destruct k0; cbn [obs_code]; cbn.
    + rewrite Hcap. apply len_in_range. exact Hc0.
    + destruct (a =? u32 (tl (sh c))); lia.
    + destruct (u32 (a - u32 (hd (sh c))) =? cap (sh c)); lia.
  - intros Hne. destruct HF as [X|X]; [congruence|]. cbn [fresh] in X. destruct X as [Hg Ha]. rewrite Hg. subst a.
    destruct k0; cbn [obs_code]; unfold obs_exact; cbn.
    + apply (len_exact k); exact HG.
    + rewrite (empty_exact k _ HG). destruct (q (sh c)); reflexivity.
    + rewrite (cnt_exact k _ HG). reflexivity.
Qed.

Lemma tstep_idle s o : tstep s Idle o = Some (s, start_pc o, None).
Proof. destruct o; reflexivity. Qed.

Lemma case_begin rt x more c' :
  nth_error (ths c) i = Some Idle -> nth_error rts i = Some rt -> r_wait rt = 0 -> r_prog rt = x :: more ->
  step c (i, if is_wait x then attempt_of x else dec_op x) = Some c' -> Goal Idle (rt_begin rt x more) c'.
Proof.
  intros Hi Hrt Hw Hp Hs. unfold step in Hs. rewrite Hi, tstep_idle in Hs. inversion Hs; subst c'; clear Hs.
  unfold Goal. cbn [sh ths observe]. exists (JStart i). split; [reflexivity|]. cbn [jstep].
  change (rt_next Idle _ i (rt_begin rt x more)) with (rt_begin rt x more).
  destruct (get_ti _ _ Hi Hrt) as (ti & Hti & [HC _]).
  eapply SIM_begin; eauto.
  - apply HW. destruct HC as (? & ? & _ & X & _). rewrite Hp in X. apply (In_skipn x (t_next ti)). rewrite <- X. left. reflexivity.
  - apply (g_cap _ _ (inv_g _ _ HI)).
Qed.

Lemma case_retry rt c' :
  nth_error (ths c) i = Some Idle -> nth_error rts i = Some rt -> r_wait rt <> 0 ->
  step c (i, attempt_of (r_wait rt)) = Some c' -> Goal Idle rt c'.
Proof.
  intros Hi Hrt Hw Hs. unfold step in Hs. rewrite Hi, tstep_idle in Hs. inversion Hs; subst c'; clear Hs.
  unfold Goal. cbn [sh ths observe]. exists (JStart i). split; [reflexivity|]. cbn [jstep].
  change (rt_next Idle _ i rt) with rt.
  destruct (get_ti _ _ Hi Hrt) as (ti & Hti & _).
  eapply SIM_retry; eauto.
Qed.

Lemma case_gosched rt :
  nth_error (ths c) i = Some Idle -> nth_error rts i = Some rt ->
  SIM k progs (sh c) (ths c) (updl rts i (rt_unyield rt)) (jstep (2 ^ k) progs js (JAtomic i EvGosched 0 0 0 0)).
Proof.
  intros Hi Hrt. rewrite jstep_gosched. destruct (get_ti _ _ Hi Hrt) as (ti & Hti & HT).
  rewrite <- (upd_same (ths c) i Idle Hi) at 1.
  eapply SIM_atomic; eauto; [apply view_refl|].
  pose proof (TR_ext _ _ _ _ _ _ _ HT (ext_look (2 ^ k) (j_q js) ti)) as HT'. exact HT'.
Qed.
End Entry.
