(* C09, stream mode: EncryptStreamTo / DecryptStreamTo do not depend on how the reader splits the data, on the buffer size
   offered to each Read, or on whether the last data arrives together with EOF.  From design-notes/proto/StreamChunking_proto.v,
   with the richer reader of Model/Crypt.v (zero-length reads, EOF with data, injected error). *)
From Coq Require Import List ZArith Lia Bool Arith.
From V Require Import Lib.Enc Gen.Cryptz Model.Aes Model.Crypt Proofs.AesPkcs7 Proofs.AesCbc Proofs.CryptKdf.
Import ListNotations.

Definition measure (r : reader) : nat := length (r_data r) + length (r_chunks r).

(* ---- one Read *)
Lemma read_spec r n : 0 < n ->
  let '(c, st, r') := read r n in
  r_data r = c ++ r_data r' /\ r_term r' = r_term r /\ length c <= n /\
  (st = RNil -> measure r' < measure r) /\ (st <> RNil -> r_data r' = []) /\ (st = RErr -> r_term r = 2%Z) /\
  measure r' <= measure r.
Proof.
  intros Hn. unfold read, measure, r_data. destruct r as [ch tm]. cbn [r_chunks r_term].
  destruct ch as [|c t].
  - cbn [concat app length]. repeat split; try lia; try reflexivity; try congruence.
    + destruct (tm =? 2)%Z; discriminate.
    + intros H. destruct (Z.eqb_spec tm 2); [assumption|discriminate].
  - destruct (Nat.eqb_spec (length c) 0) as [E0|E0].
    + destruct c; [|cbn in E0; lia]. cbn [r_chunks r_term concat app length]. repeat split; try lia; try congruence.
    + destruct (Nat.leb_spec (length c) n) as [Hle|Hgt]; cbn [r_chunks r_term concat].
      * repeat split; try lia; try reflexivity.
        -- intros _. rewrite app_length. cbn [length]. lia.
        -- intros Hst. destruct t; [reflexivity|]. cbn [andb] in Hst. congruence.
        -- intros Hst. destruct (_ && _); discriminate.
        -- rewrite app_length. cbn [length]. lia.
      * repeat split; try congruence; try reflexivity.
        -- rewrite app_assoc, firstn_skipn. reflexivity.
        -- rewrite firstn_length. lia.
        -- intros _. rewrite !app_length, skipn_length. cbn [length]. lia.
        -- rewrite !app_length, skipn_length. cbn [length]. lia.
Qed.

Lemma write_spec w d : (0 < w_budget w)%Z ->
  exists w1, write w d = Some w1 /\ w_out w1 = w_out w ++ d /\ w_budget w1 = (w_budget w - 1)%Z.
Proof. intros H. unfold write. destruct (Z.leb_spec (w_budget w) 0); [lia|]. eexists. repeat split. Qed.

(* ---- xor facts *)
Lemma xor_nil_l k : xor [] k = []. Proof. reflexivity. Qed.
Lemma xor_app a b k : length a <= length k -> xor (a ++ b) k = xor a k ++ xor b (skipn (length a) k).
Proof.
  revert k. induction a as [|x a IH]; intros k H; [reflexivity|].
  destruct k as [|y k]; [cbn in H; lia|]. cbn [app length skipn]. unfold xor in *. cbn [combine map app]. f_equal.
  apply IH. cbn in H. lia.
Qed.
Lemma skipn_skipn' {A} (a b : nat) (l : list A) : skipn a (skipn b l) = skipn (b + a) l.
Proof.
  revert l. induction b as [|b IH]; intros l; [reflexivity|]. destruct l; cbn [skipn Nat.add]; [destruct a; reflexivity|apply IH].
Qed.
Lemma xor_at_app ks pos a b : pos + length a <= length ks ->
  xor_at ks pos (a ++ b) = xor_at ks pos a ++ xor_at ks (pos + length a) b.
Proof.
  intros H. unfold xor_at. rewrite xor_app by (rewrite skipn_length; lia). rewrite skipn_skipn'. reflexivity.
Qed.
Lemma xor_cancel_prefix p : forall K R, length p <= length K -> xor (xor p K) (K ++ R) = p.
Proof.
  induction p as [|x p IH]; intros K R H; [reflexivity|].
  destruct K as [|y K]; [cbn in H; lia|]. unfold xor in *. cbn [combine map app]. f_equal.
  - rewrite Z.lxor_assoc, Z.lxor_nilpotent, Z.lxor_0_r. reflexivity.
  - apply IH. cbn in H. lia.
Qed.
Lemma xor_length_le a k : length a <= length k -> length (xor a k) = length a.
Proof. intros H. rewrite xor_len. lia. Qed.

Section Stream.
Variable E : bytes -> bytes -> bytes.
Variable md5 : bytes -> bytes.
Hypothesis md5_len : forall m, length (md5 m) = 16.
Hypothesis E_len : forall k b, good_key k = true -> length b = 16 -> length (E k b) = 16.
Variable B : nat.
Hypothesis B_pos : 0 < B.

Local Notation evp := (evp md5).
Local Notation keystream := (keystream E).

Lemma Z_to_be_length n z : length (Z_to_be n z) = n.
Proof. revert z. induction n as [|n IH]; intros z; [reflexivity|]. cbn [Z_to_be]. rewrite app_length, IH. cbn. lia. Qed.
Lemma ks_len key iv : good_key key = true -> forall n s,
  length (concat (map (fun j => E key (ctr_in iv j)) (seq s n))) = 16 * n.
Proof.
  intros Hk. induction n as [|n IH]; intros s; [reflexivity|].
  cbn [seq map concat]. rewrite app_length, IH, E_len; [lia|exact Hk|]. unfold ctr_in. apply Z_to_be_length.
Qed.
Lemma keystream_length key iv n : good_key key = true -> length (keystream key iv n) = 16 * n.
Proof. intros Hk. unfold Crypt.keystream. apply ks_len. exact Hk. Qed.
Lemma keystream_prefix key iv n k : exists R, keystream key iv (n + k) = keystream key iv n ++ R.
Proof. unfold Crypt.keystream. rewrite seq_app, map_app, concat_app. eauto. Qed.

(* ---- the copy loop: everything the reader still holds goes through the keystream, in order *)
Lemma copy_loop_spec ks : forall fuel r pos w, r_term r <> 2%Z -> measure r < fuel ->
  (Z.of_nat (length (r_data r)) <= w_budget w)%Z -> pos + length (r_data r) <= length ks ->
  exists w', copy_loop fuel B ks r pos w = (0%Z, w') /\ w_out w' = w_out w ++ xor_at ks pos (r_data r).
Proof.
  induction fuel as [|f IH]; intros r pos w Ht Hf Hb Hk; [lia|].
  cbn [copy_loop]. pose proof (read_spec r B B_pos) as R. destruct (read r B) as [[c st] r'].
  destruct R as (Ed & Etm & Hc & Hnil & Hend & Herr & Hm).
  assert (Ld : length (r_data r) = length c + length (r_data r')) by (rewrite Ed, app_length; reflexivity).
  destruct (Nat.eqb_spec (length c) 0) as [E0|E0].
  - destruct c; [|cbn in E0; lia]. cbn [app length] in *.
    destruct st.
    + destruct (IH r' pos w) as (w' & Ew & Eo); try lia; try congruence; [specialize (Hnil eq_refl); lia|].
      rewrite Nat.add_0_r. exists w'. rewrite Ew, Eo, Ed. auto.
    + exists w. split; [reflexivity|]. rewrite Ed, Hend by discriminate. unfold xor_at. rewrite xor_nil_l, app_nil_r. reflexivity.
    + exfalso. apply Ht. apply Herr. reflexivity.
  - destruct (write_spec w (xor_at ks pos c)) as (w1 & Ew1 & Eo1 & Eb1); [lia|]. rewrite Ew1.
    destruct st.
    + destruct (IH r' (pos + length c) w1) as (w' & Ew & Eo); try lia; try congruence; [specialize (Hnil eq_refl); lia|].
      exists w'. rewrite Ew. split; [reflexivity|]. rewrite Eo, Eo1, Ed, xor_at_app by lia. rewrite app_assoc. reflexivity.
    + exists w1. split; [reflexivity|]. rewrite Eo1, Ed, Hend by discriminate. rewrite app_nil_r. reflexivity.
    + exfalso. apply Ht. apply Herr. reflexivity.
Qed.

(* ---- io.ReadFull *)
Lemma read_full_spec : forall fuel r need acc, measure r < fuel ->
  (need <= length (r_data r) ->
     exists r', read_full fuel r need acc = HOk (acc ++ firstn need (r_data r)) r' /\ r_data r' = skipn need (r_data r) /\
                r_term r' = r_term r /\ measure r' <= measure r) /\
  (length (r_data r) < need -> read_full fuel r need acc = HErr).
Proof.
  induction fuel as [|f IH]; intros r need acc Hf; [lia|].
  destruct need as [|nd].
  - split; [|lia]. intros _. exists r. cbn [read_full firstn skipn]. rewrite app_nil_r. auto.
  - set (need := S nd) in *. assert (Hnp : 0 < need) by (unfold need; lia).
    change (read_full (S f) r need acc) with
      (let '(c, st, r') := read r need in
       match st with
       | RNil => read_full f r' (need - length c) (acc ++ c)
       | _ => if need - length c =? 0 then HOk (acc ++ c) r' else HErr
       end).
    pose proof (read_spec r need Hnp) as R. destruct (read r need) as [[c st] r'].
    destruct R as (Ed & Etm & Hc & Hnil & Hend & Herr & Hm).
    assert (Ld : length (r_data r) = length c + length (r_data r')) by (rewrite Ed, app_length; reflexivity).
    destruct st.
    + specialize (Hnil eq_refl). destruct (IH r' (need - length c) (acc ++ c) ltac:(lia)) as [I1 I2]. split.
      * intros Hle. destruct (I1 ltac:(lia)) as (r'' & Er & Edat & Et & Hms). exists r''. rewrite Er. repeat split; try lia; try congruence.
        -- f_equal. rewrite <- app_assoc. f_equal. rewrite Ed. rewrite firstn_app. rewrite (firstn_all2 c) by lia. reflexivity.
        -- rewrite Edat, Ed. rewrite skipn_app. rewrite (skipn_all2 c) by lia. reflexivity.
      * intros Hlt. apply I2. lia.
    + specialize (Hend ltac:(discriminate)). rewrite Hend in *. cbn [length] in Ld. split.
      * intros Hle. assert (length c = need) by lia. replace (need - length c) with 0 by lia. cbn [Nat.eqb].
        exists r'. repeat split; try lia; auto.
        -- f_equal. f_equal. rewrite Ed, app_nil_r. rewrite firstn_all2 by lia. reflexivity.
        -- rewrite Hend, Ed, app_nil_r. rewrite skipn_all2 by lia. reflexivity.
      * intros Hlt. destruct (Nat.eqb_spec (need - length c) 0); [lia|reflexivity].
    + specialize (Hend ltac:(discriminate)). rewrite Hend in *. cbn [length] in Ld. split.
      * intros Hle. assert (length c = need) by lia. replace (need - length c) with 0 by lia. cbn [Nat.eqb].
        exists r'. repeat split; try lia; auto.
        -- f_equal. f_equal. rewrite Ed, app_nil_r. rewrite firstn_all2 by lia. reflexivity.
        -- rewrite Hend, Ed, app_nil_r. rewrite skipn_all2 by lia. reflexivity.
      * intros Hlt. destruct (Nat.eqb_spec (need - length c) 0); [lia|reflexivity].
Qed.

Lemma nblocks_cover r : length (r_data r) < 16 * nblocks_for r.
Proof. unfold nblocks_for. pose proof (Nat.div_mod (length (r_data r)) 16 ltac:(lia)). pose proof (mod16_lt (length (r_data r))). lia. Qed.

(* ---- DecryptStreamTo, any chunking, any read-buffer size, reader ending with EOF alone or EOF with the last data *)
Theorem decrypt_stream_short r wb secret : length (r_data r) < 16 ->
  decrypt_stream E md5 B r (new_writer wb) secret = Ok (E_RDHDR, new_writer wb).
Proof.
  intros H. unfold decrypt_stream. rewrite BS_eq.
  destruct (read_full_spec (r_fuel r) r 16 [] ltac:(unfold r_fuel, measure; lia)) as [_ I2]. rewrite I2 by lia. reflexivity.
Qed.

Theorem decrypt_stream_bad_magic r wb secret : 16 <= length (r_data r) -> firstn 8 (r_data r) <> header ->
  decrypt_stream E md5 B r (new_writer wb) secret = Ok (E_HDR, new_writer wb).
Proof.
  intros H Hm. unfold decrypt_stream. rewrite BS_eq.
  destruct (read_full_spec (r_fuel r) r 16 [] ltac:(unfold r_fuel, measure; lia)) as [I1 _].
  destruct (I1 H) as (r' & Er & _). rewrite Er. cbn [app].
  assert (L16 : length (firstn 16 (r_data r)) = 16) by (rewrite firstn_length; lia).
  rewrite (slice_ok _ 0 8) by lia. cbn [of_opt bind]. rewrite skipn_O. change (8 - 0) with 8.
  rewrite firstn_firstn. change (Nat.min 8 16) with 8.
  destruct (beq (firstn 8 (r_data r)) header) eqn:Bq; [apply beq_true in Bq; contradiction|]. reflexivity.
Qed.

Theorem decrypt_stream_any_chunking r wb secret : r_term r <> 2%Z -> (Z.of_nat (length (r_data r)) <= wb)%Z ->
  16 <= length (r_data r) -> firstn 8 (r_data r) = header ->
  let data := r_data r in
  let c := evp secret (firstn 8 (skipn 8 data)) in
  exists w', decrypt_stream E md5 B r (new_writer wb) secret = Ok (0%Z, w') /\
             w_out w' = xor (skipn 16 data) (keystream (firstn 32 c) (skipn 32 c) (nblocks_for r)).
Proof.
  intros Ht Hb H Hm. cbv zeta. unfold decrypt_stream. rewrite BS_eq.
  destruct (read_full_spec (r_fuel r) r 16 [] ltac:(unfold r_fuel, measure; lia)) as [I1 _].
  destruct (I1 H) as (r' & Er & Edat & Etm & Hms). rewrite Er. cbn [app].
  assert (L16 : length (firstn 16 (r_data r)) = 16) by (rewrite firstn_length; lia).
  rewrite (slice_ok _ 0 8) by lia. cbn [of_opt bind]. rewrite skipn_O. change (8 - 0) with 8.
  rewrite firstn_firstn. change (Nat.min 8 16) with 8. rewrite Hm, beq_refl. cbn [negb].
  rewrite (slice_ok _ 8 _) by lia. cbn [of_opt bind]. rewrite L16. change (16 - 8) with 8.
  assert (Hsalt : firstn 8 (skipn 8 (firstn 16 (r_data r))) = firstn 8 (skipn 8 (r_data r))).
  { rewrite skipn_firstn_comm. change (16 - 8) with 8. rewrite firstn_firstn. reflexivity. }
  rewrite Hsalt. set (salt := firstn 8 (skipn 8 (r_data r))).
  rewrite (fill_cred_ok md5 md5_len). cbn [bind].
  destruct (key_iv_evp md5 md5_len secret salt) as (Ek & Lk & Li). rewrite Ek. cbn [bind].
  rewrite (good_key_32 _ Lk), Li. cbn [negb Nat.eqb].
  set (key := firstn 32 (evp secret salt)) in *. set (iv := skipn 32 (evp secret salt)) in *.
  assert (Lr' : length (r_data r') = length (r_data r) - 16) by (rewrite Edat, skipn_length; reflexivity).
  destruct (copy_loop_spec (keystream key iv (nblocks_for r)) (r_fuel r) r' 0 (new_writer wb)) as (w' & Ew & Eo).
  - congruence.
  - unfold r_fuel. unfold measure in *. lia.
  - cbn [new_writer w_budget]. lia.
  - rewrite keystream_length by (apply good_key_32; exact Lk). pose proof (nblocks_cover r). lia.
  - exists w'. rewrite Ew. split; [reflexivity|]. rewrite Eo. cbn [new_writer w_out app]. unfold xor_at. rewrite skipn_O, Edat. reflexivity.
Qed.

(* ---- EncryptStreamTo *)
Theorem encrypt_stream_any_chunking salt r wb s : r_term r <> 2%Z -> length salt = 8 ->
  (Z.of_nat (length (r_data r)) + 2 <= wb)%Z ->
  let c := evp s salt in
  exists w', encrypt_stream E md5 B (Some salt) r (new_writer wb) s = Ok (0%Z, w') /\
             w_out w' = header ++ salt ++ xor (r_data r) (keystream (firstn 32 c) (skipn 32 c) (nblocks_for r)).
Proof.
  intros Ht Hs Hb. cbv zeta. unfold encrypt_stream. rewrite (fill_cred_ok md5 md5_len). cbn [bind].
  destruct (key_iv_evp md5 md5_len s salt) as (Ek & Lk & Li). rewrite Ek. cbn [bind].
  rewrite (good_key_32 _ Lk). cbn [negb].
  set (key := firstn 32 (evp s salt)) in *. set (iv := skipn 32 (evp s salt)) in *.
  destruct (write_spec (new_writer wb) header) as (w1 & Ew1 & Eo1 & Eb1); [cbn [new_writer w_budget]; lia|]. rewrite Ew1.
  destruct (write_spec w1 salt) as (w2 & Ew2 & Eo2 & Eb2); [cbn [new_writer w_budget] in *; lia|]. rewrite Ew2.
  rewrite BS_eq, Li. cbn [Nat.eqb negb].
  destruct (copy_loop_spec (keystream key iv (nblocks_for r)) (r_fuel r) r 0 w2) as (w' & Ew & Eo).
  - exact Ht.
  - unfold r_fuel, measure. lia.
  - cbn [new_writer w_budget] in *. lia.
  - rewrite keystream_length by (apply good_key_32; exact Lk). pose proof (nblocks_cover r). lia.
  - exists w'. rewrite Ew. split; [reflexivity|]. rewrite Eo, Eo2, Eo1. cbn [new_writer w_out app].
    unfold xor_at. rewrite skipn_O, <- app_assoc. reflexivity.
Qed.

(* ---- DecryptStreamTo (EncryptStreamTo p) = p for every reader chunking on both sides *)
Theorem stream_roundtrip_any_chunking salt r1 r2 wb1 wb2 s : length salt = 8 ->
  r_term r1 <> 2%Z -> r_term r2 <> 2%Z ->
  (Z.of_nat (length (r_data r1)) + 2 <= wb1)%Z -> (Z.of_nat (length (r_data r2)) <= wb2)%Z ->
  exists w1, encrypt_stream E md5 B (Some salt) r1 (new_writer wb1) s = Ok (0%Z, w1) /\
  (r_data r2 = w_out w1 ->
   exists w2, decrypt_stream E md5 B r2 (new_writer wb2) s = Ok (0%Z, w2) /\ w_out w2 = r_data r1).
Proof.
  intros Hs Ht1 Ht2 Hb1 Hb2.
  destruct (encrypt_stream_any_chunking salt r1 wb1 s Ht1 Hs Hb1) as (w1 & Ee & Eo1). cbv zeta in Eo1.
  exists w1. split; [exact Ee|]. intros Hd.
  destruct (key_iv_evp md5 md5_len s salt) as (_ & Lk & Li).
  set (key := firstn 32 (evp s salt)) in *. set (iv := skipn 32 (evp s salt)) in *.
  set (p := r_data r1) in *. set (X := xor p (keystream key iv (nblocks_for r1))) in *.
  assert (Lks1 : length p <= length (keystream key iv (nblocks_for r1))).
  { rewrite keystream_length by (apply good_key_32; exact Lk). pose proof (nblocks_cover r1). unfold p. lia. }
  assert (LX : length X = length p) by (unfold X; apply xor_length_le; exact Lks1).
  assert (L2 : length (r_data r2) = 16 + length p) by (rewrite Hd, Eo1, !app_length, header_length, Hs, LX; lia).
  assert (Hm : firstn 8 (r_data r2) = header) by (rewrite Hd, Eo1; apply firstn_len_app; reflexivity).
  assert (Hsalt : firstn 8 (skipn 8 (r_data r2)) = salt)
    by (rewrite Hd, Eo1; rewrite skipn_len_app by reflexivity; apply firstn_len_app; exact Hs).
  assert (Hbody : skipn 16 (r_data r2) = X)
    by (rewrite Hd, Eo1, app_assoc; apply skipn_len_app; rewrite app_length, header_length, Hs; reflexivity).
  destruct (decrypt_stream_any_chunking r2 wb2 s Ht2 Hb2 ltac:(lia) Hm) as (w2 & Ed & Eo2). cbv zeta in Eo2.
  exists w2. split; [exact Ed|]. rewrite Eo2, Hsalt, Hbody. fold key. fold iv.
  assert (Hn : nblocks_for r2 = nblocks_for r1 + 1).
  { unfold nblocks_for. rewrite L2. fold p. replace (16 + length p) with (length p + 1 * 16) by lia. rewrite Nat.div_add by lia. lia. }
  rewrite Hn. destruct (keystream_prefix key iv (nblocks_for r1) 1) as (R & ->).
  unfold X. apply xor_cancel_prefix. exact Lks1.
Qed.
End Stream.
