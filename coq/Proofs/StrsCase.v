(* C17: UcFirst/LcFirst, SnakeToCamelCase, CamelCaseToSnake: totality on every byte string, and the round trip
   CamelCaseToSnake(SnakeToCamelCase(x, firstUp)) = x on the identifier grammar word (_ word)*, word = [a-z][a-z0-9]*. *)
From Coq Require Import List ZArith Lia Bool Arith.
From V Require Import Lib.Utf8 Proofs.Utf8Facts Model.Strs Proofs.StrsBasic.
Import ListNotations.
Local Open Scope Z_scope.
Arguments Z.mul : simpl never.
Arguments Z.add : simpl never.
Arguments Z.sub : simpl never.
Arguments Z.of_nat : simpl never.
Arguments Z.to_nat : simpl never.

(* ---- totality: no slice out of range, fuel suffices, for every byte string ---- *)
Lemma wr_ok buf s a b : (a <= b <= length s)%nat -> exists buf', wr buf s a b = Ret buf'.
Proof. intros H. unfold wr. destruct (a <? b)%nat; [|eauto]. rewrite sl_ok by lia. cbn [bind]. eauto. Qed.

Lemma skipn_width_le s i : (i < length s)%nat -> (i + width (skipn i s) <= length s)%nat /\ (1 <= width (skipn i s))%nat.
Proof.
  intros H. assert (Hne : skipn i s <> []) by (intros E; apply (f_equal (@length Z)) in E; rewrite skipn_length in E; cbn [length] in E; lia).
  pose proof (width_pos _ Hne) as Hw. rewrite skipn_length in Hw. lia.
Qed.

Theorem snake_to_camel_no_panic s up : exists b, snake_to_camel s up = Ret b.
Proof.
  unfold snake_to_camel.
  assert (G : forall fuel i start up buf, (start <= i <= length s)%nat -> (length s - i < fuel)%nat -> exists b, s2c_go s fuel i start up buf = Ret b).
  { induction fuel as [|f IH]; intros i start u buf Hi Hf; [lia|]. cbn [s2c_go].
    destruct (Nat.ltb_spec i (length s)).
    - pose proof (skipn_width_le s i ltac:(lia)) as Hw.
      destruct (nth i s 0 <? 128).
      + destruct u.
        * destruct ((97 <=? nth i s 0) && (nth i s 0 <=? 122)); [|apply IH; lia].
          destruct (wr_ok buf s start i ltac:(lia)) as [b' ->]. cbn [bind]. apply IH; lia.
        * destruct ((0 <? i)%nat && (nth i s 0 =? 95)); [|apply IH; lia].
          destruct (wr_ok buf s start i ltac:(lia)) as [b' ->]. cbn [bind]. apply IH; lia.
      + apply IH; lia.
    - destruct buf; [eauto|]. apply wr_ok. lia. }
  apply G; lia.
Qed.
Theorem camel_to_snake_no_panic s : exists b, camel_to_snake s = Ret b.
Proof.
  unfold camel_to_snake.
  assert (G : forall fuel i start buf, (start <= i <= length s)%nat -> (length s - i < fuel)%nat -> exists b, c2s_go s fuel i start buf = Ret b).
  { induction fuel as [|f IH]; intros i start buf Hi Hf; [lia|]. cbn [c2s_go].
    destruct (Nat.ltb_spec i (length s)).
    - pose proof (skipn_width_le s i ltac:(lia)) as Hw.
      destruct (nth i s 0 <? 128); [|apply IH; lia].
      destruct ((65 <=? nth i s 0) && (nth i s 0 <=? 90)); [|apply IH; lia].
      destruct (wr_ok buf s start i ltac:(lia)) as [b' ->]. cbn [bind]. apply IH; lia.
    - destruct buf; [eauto|]. apply wr_ok. lia. }
  apply G; lia.
Qed.

(* ---- the loops on ASCII strings, as list recursions ---- *)
Definition upper (b : Z) : bool := (65 <=? b) && (b <=? 90).
(* SnakeToCamelCase: up = firstUp, pos = (i > 0) *)
Fixpoint P (up pos : bool) (rest : list Z) : list Z :=
  match rest with
  | [] => []
  | b :: t => if up then (if lower b then (b - 32) :: P false true t else b :: P false true t)
              else if pos && (b =? 95) then P true true t
              else b :: P false true t
  end.
Fixpoint Q (pos : bool) (rest : list Z) : list Z :=
  match rest with
  | [] => []
  | b :: t => if upper b then (if pos then [95] else []) ++ (b + 32) :: Q true t else b :: Q true t
  end.
Definition ascii (s : list Z) : Prop := Forall (fun b => b < 128) s.

Lemma wr_pre buf pre rest start : (start <= length pre)%nat ->
  wr buf (pre ++ rest) start (length pre) = Ret (buf ++ skipn start pre).
Proof.
  intros H. unfold wr. destruct (Nat.ltb_spec start (length pre)).
  - rewrite sl_ok by (rewrite app_length; lia). cbn [bind]. do 2 f_equal.
    rewrite skipn_app. replace (start - length pre)%nat with 0%nat by lia. cbn [skipn].
    rewrite firstn_app, skipn_length. replace (length pre - start - (length pre - start))%nat with 0%nat by lia.
    cbn [firstn]. rewrite app_nil_r. apply firstn_all2. rewrite skipn_length. lia.
  - rewrite skipn_all2 by lia. rewrite app_nil_r. reflexivity.
Qed.
Lemma skipn_snoc {A} start (pre : list A) b : (start <= length pre)%nat -> skipn start (pre ++ [b]) = skipn start pre ++ [b].
Proof. intros H. rewrite skipn_app. replace (start - length pre)%nat with 0%nat by lia. reflexivity. Qed.
Lemma nth_mid (pre : list Z) b t : nth (length pre) (pre ++ b :: t) 0 = b.
Proof. rewrite app_nth2 by lia. rewrite Nat.sub_diag. reflexivity. Qed.
Lemma snoc_len {A} (pre : list A) b : length (pre ++ [b]) = (length pre + 1)%nat.
Proof. rewrite app_length. reflexivity. Qed.
Lemma pos_snoc {A} (pre : list A) b : (0 <? length (pre ++ [b]))%nat = true.
Proof. apply Nat.ltb_lt. rewrite snoc_len. lia. Qed.

Lemma s2c_sim s : ascii s -> forall rest pre fuel start up buf,
  s = pre ++ rest -> (start <= length pre)%nat -> (buf = [] -> start = 0%nat) -> (length rest < fuel)%nat ->
  s2c_go s fuel (length pre) start up buf = Ret (buf ++ skipn start pre ++ P up (0 <? length pre)%nat rest).
Proof.
  intros Ha. induction rest as [|b t IH]; intros pre fuel start up buf Hs Hst Hinv Hf; (destruct fuel as [|f]; [lia|]); cbn [s2c_go P].
  - rewrite app_nil_r in Hs. subst pre. rewrite Nat.ltb_irrefl, app_nil_r. destruct buf as [|x buf'].
    + rewrite (Hinv eq_refl). reflexivity.
    + pose proof (wr_pre (x :: buf') s [] start Hst) as W. rewrite app_nil_r in W. rewrite W. reflexivity.
  - assert (Hlen : (length pre < length s)%nat) by (rewrite Hs, app_length; cbn [length]; lia).
    destruct (Nat.ltb_spec (length pre) (length s)); [|lia].
    assert (Hb : nth (length pre) s 0 = b) by (rewrite Hs; apply nth_mid). rewrite Hb.
    assert (Hb128 : b < 128).
    { unfold ascii in Ha. rewrite Forall_forall in Ha. apply Ha. rewrite Hs. apply in_or_app. right. left. reflexivity. }
    destruct (Z.ltb_spec b 128); [|lia].
    assert (Hs' : s = (pre ++ [b]) ++ t) by (rewrite <- app_assoc; exact Hs).
    assert (Hskip : s2c_go s f (length pre + 1) start false buf = Ret (buf ++ skipn start pre ++ b :: P false true t)).
    { rewrite <- snoc_len with (b := b). rewrite (IH (pre ++ [b]) f start false buf Hs'); [| rewrite snoc_len; lia | exact Hinv | cbn [length] in Hf; lia ].
      rewrite pos_snoc, skipn_snoc by exact Hst. rewrite <- app_assoc. reflexivity. }
    destruct up.
    + unfold lower. destruct ((97 <=? b) && (b <=? 122)); [|exact Hskip].
      rewrite Hs at 1. rewrite wr_pre by exact Hst. cbn [bind].
      rewrite <- snoc_len with (b := b).
      rewrite (IH (pre ++ [b]) f _ false _ Hs'); [| lia | intros E; destruct buf, (skipn start pre); discriminate E | cbn [length] in Hf; lia ].
      rewrite pos_snoc, skipn_all. cbn [app]. rewrite <- !app_assoc. reflexivity.
    + destruct (Nat.ltb_spec 0 (length pre)) as [Hpos|Hpos]; cbn [andb]; [|exact Hskip].
      destruct (b =? 95); [|exact Hskip].
      rewrite Hs at 1. rewrite wr_pre by exact Hst. cbn [bind].
      rewrite <- snoc_len with (b := b).
      rewrite (IH (pre ++ [b]) f _ true _ Hs'); [| lia | | cbn [length] in Hf; lia ].
      * rewrite pos_snoc, skipn_all. cbn [app]. rewrite <- !app_assoc. reflexivity.
      * intros E. exfalso. apply app_eq_nil in E. destruct E as [E1 E2]. specialize (Hinv E1).
        apply (f_equal (@length Z)) in E2. rewrite skipn_length in E2. cbn [length] in E2. lia.
Qed.

Lemma c2s_sim s : ascii s -> forall rest pre fuel start buf,
  s = pre ++ rest -> (start <= length pre)%nat -> (buf = [] -> start = 0%nat) -> (length rest < fuel)%nat ->
  c2s_go s fuel (length pre) start buf = Ret (buf ++ skipn start pre ++ Q (0 <? length pre)%nat rest).
Proof.
  intros Ha. induction rest as [|b t IH]; intros pre fuel start buf Hs Hst Hinv Hf; (destruct fuel as [|f]; [lia|]); cbn [c2s_go Q].
  - rewrite app_nil_r in Hs. subst pre. rewrite Nat.ltb_irrefl, app_nil_r. destruct buf as [|x buf'].
    + rewrite (Hinv eq_refl). reflexivity.
    + pose proof (wr_pre (x :: buf') s [] start Hst) as W. rewrite app_nil_r in W. rewrite W. reflexivity.
  - assert (Hlen : (length pre < length s)%nat) by (rewrite Hs, app_length; cbn [length]; lia).
    destruct (Nat.ltb_spec (length pre) (length s)); [|lia].
    assert (Hb : nth (length pre) s 0 = b) by (rewrite Hs; apply nth_mid). rewrite Hb.
    assert (Hb128 : b < 128).
    { unfold ascii in Ha. rewrite Forall_forall in Ha. apply Ha. rewrite Hs. apply in_or_app. right. left. reflexivity. }
    destruct (Z.ltb_spec b 128); [|lia].
    assert (Hs' : s = (pre ++ [b]) ++ t) by (rewrite <- app_assoc; exact Hs).
    unfold upper. destruct ((65 <=? b) && (b <=? 90)).
    + rewrite Hs at 1. rewrite wr_pre by exact Hst. cbn [bind].
      rewrite <- snoc_len with (b := b).
      rewrite (IH (pre ++ [b]) f _ _ Hs'); [| lia | | cbn [length] in Hf; lia ].
      * rewrite pos_snoc, skipn_all. cbn [app]. destruct (0 <? length pre)%nat; rewrite <- !app_assoc; reflexivity.
      * intros E. apply app_eq_nil in E. destruct E as [_ E]. discriminate E.
    + rewrite <- snoc_len with (b := b). rewrite (IH (pre ++ [b]) f start buf Hs'); [| rewrite snoc_len; lia | exact Hinv | cbn [length] in Hf; lia ].
      rewrite pos_snoc, skipn_snoc by exact Hst. rewrite <- app_assoc. reflexivity.
Qed.

Lemma snake_to_camel_ascii s up : ascii s -> snake_to_camel s up = Ret (P up false s).
Proof.
  intros Ha. unfold snake_to_camel. pose proof (s2c_sim s Ha s [] (S (length s)) 0%nat up []) as G.
  cbn [length app skipn] in G. apply G; auto; lia.
Qed.
Lemma camel_to_snake_ascii s : ascii s -> camel_to_snake s = Ret (Q false s).
Proof.
  intros Ha. unfold camel_to_snake. pose proof (c2s_sim s Ha s [] (S (length s)) 0%nat []) as G.
  cbn [length app skipn] in G. apply G; auto; lia.
Qed.

(* ---- the round trip on identifiers ---- *)
Lemma P_ascii : forall t up pos, ascii t -> ascii (P up pos t).
Proof.
  induction t as [|b t IH]; intros up pos Ha; cbn [P]; [constructor|]. inversion Ha as [|? ? Hb Ht]; subst. cbn beta in Hb.
  destruct up.
  - destruct (lower b); (constructor; [cbn beta; lia|apply IH; exact Ht]).
  - destruct (pos && (b =? 95)); [apply IH; exact Ht|]. constructor; [exact Hb|apply IH; exact Ht].
Qed.
Lemma ident_ascii : forall t w, ident_go t w = true -> ascii t.
Proof.
  induction t as [|b t IH]; intros w H; [constructor|]. cbn [ident_go] in H. unfold lower, digit in H.
  destruct w.
  - destruct ((97 <=? b) && (b <=? 122) || (48 <=? b) && (b <=? 57)) eqn:E.
    + constructor; [|eapply IH; eauto]. apply orb_true_iff in E. destruct E as [E|E]; apply andb_true_iff in E; destruct E as [_ E]; apply Z.leb_le in E; lia.
    + destruct (Z.eqb_spec b 95); [|discriminate H]. constructor; [lia|eapply IH; eauto].
  - destruct ((97 <=? b) && (b <=? 122)) eqn:E; [|discriminate H].
    constructor; [|eapply IH; eauto]. apply andb_true_iff in E. destruct E as [_ E]. apply Z.leb_le in E. lia.
Qed.

Lemma lower_facts b : lower b = true -> upper b = false /\ upper (b - 32) = true /\ b - 32 + 32 = b /\ (b =? 95) = false.
Proof.
  unfold lower, upper. intros H. apply andb_true_iff in H. destruct H as [H1 H2]. apply Z.leb_le in H1, H2.
  repeat split; lia.
Qed.
Lemma digit_facts b : digit b = true -> upper b = false /\ (b =? 95) = false.
Proof.
  unfold digit, upper. intros H. apply andb_true_iff in H. destruct H as [H1 H2]. apply Z.leb_le in H1, H2. split; lia.
Qed.

(* inside a word (something has been emitted already) *)
Lemma roundtrip_inword : forall n t, (length t <= n)%nat -> ident_go t true = true -> Q true (P false true t) = t.
Proof.
  induction n as [|n IH]; intros t Hn Hid.
  - destruct t; [reflexivity|cbn [length] in Hn; lia].
  - destruct t as [|b t]; [reflexivity|]. cbn [ident_go] in Hid. cbn [P andb].
    destruct (lower b || digit b) eqn:E.
    + assert (Hf : upper b = false /\ (b =? 95) = false).
      { apply orb_true_iff in E. destruct E as [E|E]; [destruct (lower_facts b E) as (H1 & _ & _ & H4); auto|apply digit_facts; auto]. }
      destruct Hf as [Hu H95]. rewrite H95. cbn [Q]. rewrite Hu. f_equal. apply IH; [cbn [length] in Hn; lia|exact Hid].
    + destruct (Z.eqb_spec b 95) as [->|]; [|discriminate Hid].
      destruct t as [|c t']; [discriminate Hid|]. cbn [ident_go] in Hid. destruct (lower c) eqn:Ec; [|discriminate Hid].
      cbn [P]. rewrite Ec. cbn [Q]. destruct (lower_facts c Ec) as (_ & Hu & Hr & _). rewrite Hu, Hr. cbn [app]. do 2 f_equal.
      apply IH; [cbn [length] in Hn; lia|exact Hid].
Qed.

Theorem snake_camel_roundtrip x up : ident x = true ->
  bind (snake_to_camel x up) camel_to_snake = Ret x.
Proof.
  intros Hid. pose proof (ident_ascii x false Hid) as Ha.
  rewrite snake_to_camel_ascii by exact Ha. cbn [bind]. rewrite camel_to_snake_ascii by (apply P_ascii; exact Ha).
  f_equal. unfold ident in Hid. destruct x as [|b t]; [discriminate Hid|]. cbn [ident_go] in Hid.
  destruct (lower b) eqn:Eb; [|discriminate Hid]. destruct (lower_facts b Eb) as (Hu1 & Hu2 & Hr & H95).
  cbn [P andb]. destruct up.
  - rewrite Eb. cbn [Q]. rewrite Hu2, Hr. cbn [app]. f_equal. apply (roundtrip_inword (length t)); auto.
  - cbn [Q]. rewrite Hu1. f_equal. apply (roundtrip_inword (length t)); auto.
Qed.

(* the grammar is inhabited, and the round trip really fails just outside it *)
Example ident_example : ident [102; 111; 111; 95; 98; 52; 114] = true.   (* foo_b4r *)
Proof. reflexivity. Qed.
Example roundtrip_outside : bind (snake_to_camel [97; 95; 49] false) camel_to_snake = Ret [97; 49].   (* a_1 -> a1 *)
Proof. reflexivity. Qed.

(* ---- UcFirst / LcFirst: only the first byte changes, and only an ASCII letter ---- *)
Lemma uc_first_spec s : uc_first s = match s with b :: t => (if lower b then b - 32 else b) :: t | [] => [] end.
Proof. destruct s as [|b t]; [reflexivity|]. unfold uc_first, lower. destruct ((97 <=? b) && (b <=? 122)); reflexivity. Qed.
Lemma lc_first_spec s : lc_first s = match s with b :: t => (if upper b then b + 32 else b) :: t | [] => [] end.
Proof. destruct s as [|b t]; [reflexivity|]. unfold lc_first, upper. destruct ((65 <=? b) && (b <=? 90)); reflexivity. Qed.
