(* C04 — Slice (slice.go) and the generic functions (std_heap.go) on a slice container:
   closed forms of every operation in terms of the pure loops (no panic, no fuel exhaustion inside the contract),
   and what each operation does to the heap order and to the multiset of values. *)
From Coq Require Import List Arith ZArith Lia Bool PeanoNat Permutation.
From V Require Import Model.Heap Proofs.HeapSift Proofs.HeapBuild Proofs.HeapBridge.
Import ListNotations.

Section Ops.
Variable A : Type.
Variable d : A.
Variable lt : A -> A -> bool.
Local Notation le := (Heap.le A lt).
Local Notation swap := (Heap.swap A d).
Local Notation down_go := (Heap.down_go A d lt).
Local Notation down := (Heap.down A d lt).
Local Notation up_go := (Heap.up_go A d lt).
Local Notation up := (Heap.up A d lt).
Local Notation fix_ := (Heap.fix_ A d lt).
Local Notation build := (Heap.build A d lt).
Local Notation ok := (Heap.ok A d lt).
Local Notation heap_ok := (Heap.heap_ok A d lt).
Local Notation downL := (Heap.downL A lt).
Local Notation upL := (Heap.upL A lt).
Local Notation fixL := (Heap.fixL A lt).
Local Notation buildL := (Heap.buildL A lt).
Local Notation swapL := (Heap.swapL A).

(* ------------------------------------------------------------------ the executable loops on a slice, in range *)
Lemma downL_ok (s : list A) i n : n <= length s ->
  downL s (Z.of_nat i) (Z.of_nat n) = Ok (down s i n).
Proof.
  intros Hn. unfold Heap.downL, Heap.gdown, Heap.fuelL.
  destruct (gdown_go_ok (list A) (Heap.lessL A lt) swapL A d lt (fun s => s) (fun _ => True)
              (lessL_ok A d lt) (swapL_ok A d) (length s) s i n I Hn ltac:(lia)) as (s' & E & A1 & _).
  rewrite E. cbn [bind fst snd]. unfold Heap.down.
  rewrite (down_go_fuel_ge A d lt n (length s) s i n) in A1 |- * by lia.
  destruct (down_go n s i n) as [s2 i2]. cbn [fst snd] in *. subst s'. f_equal. f_equal.
  destruct (Nat.ltb_spec i i2); destruct (Z.gtb_spec (Z.of_nat i2) (Z.of_nat i)); auto; lia.
Qed.

Lemma upL_ok (s : list A) j : j < length s -> upL s (Z.of_nat j) = Ok (up s j).
Proof.
  intros Hj. unfold Heap.upL, Heap.fuelL.
  destruct (gup_go_ok (list A) (Heap.lessL A lt) swapL A d lt (fun s => s) (fun _ => True)
              (lessL_ok A d lt) (swapL_ok A d) (length s) s j I Hj ltac:(lia)) as (s' & E & A1 & _).
  rewrite E. subst s'. unfold Heap.up. f_equal.
  rewrite (up_go_fuel_ge A d lt j (length s)) by lia. rewrite (up_go_fuel_ge A d lt j (S j)) by lia. reflexivity.
Qed.

Lemma fixL_ok (s : list A) i n : n <= length s -> i < n -> fixL s (Z.of_nat i) (Z.of_nat n) = Ok (fix_ s i n).
Proof.
  intros Hn Hi. unfold Heap.fixL, Heap.fuelL.
  destruct (gfix_ok (list A) (Heap.lessL A lt) swapL A d lt (fun s => s) (fun _ => True)
              (lessL_ok A d lt) (swapL_ok A d) (length s) s i n I Hn Hi ltac:(lia) ltac:(lia)) as (s' & E & A1 & _).
  rewrite E. subst s'. f_equal. cbv zeta. unfold Heap.fix_, Heap.down, Heap.up.
  rewrite (down_go_fuel_ge A d lt n (length s) s i n) by lia.
  destruct (down_go n s i n) as [s2 i2]. cbn [fst snd].
  destruct (i <? i2); [reflexivity|].
  rewrite (up_go_fuel_ge A d lt i (length s)) by lia. rewrite (up_go_fuel_ge A d lt i (S i)) by lia. reflexivity.
Qed.

Lemma build_from_length : forall k (s : list A), k <= length s -> length (Heap.build_from A d lt k s) = length s.
Proof.
  induction k as [|k IH]; intros s Hk; cbn [Heap.build_from]; [reflexivity|].
  assert (L : length (fst (down_go (length s) s k (length s))) = length s) by (apply HeapBuild.down_go_length; lia).
  rewrite IH by lia. exact L.
Qed.

Lemma buildL_ok (s : list A) : buildL s = Ok (build s).
Proof.
  unfold Heap.buildL, Heap.gbuild, Heap.fuelL, Heap.build, Zlen.
  assert (E2 : Z.to_nat (Z.of_nat (length s) / 2) = length s / 2).
  { change 2%Z with (Z.of_nat 2). rewrite <- Nat2Z.inj_div. apply Nat2Z.id. }
  rewrite E2.
  destruct (gbuild_from_ok (list A) (Heap.lessL A lt) swapL A d lt (fun s => s) (fun _ => True)
              (lessL_ok A d lt) (swapL_ok A d) (length s / 2) s I) as (s' & E & A1 & _).
  { apply Nat.div_le_upper_bound; lia. }
  rewrite E. subst s'. reflexivity.
Qed.

Lemma swapL_eval (s : list A) a b : a < length s -> b < length s -> swapL s (Z.of_nat a) (Z.of_nat b) = Ok (swap s a b).
Proof. intros Ha Hb. destruct (swapL_ok A d s a b I Ha Hb) as (s' & E & -> & _). exact E. Qed.

(* ------------------------------------------------------------------ pure facts: lengths, permutations, frames *)
Lemma down_length s i n : n <= length s -> length (fst (down s i n)) = length s.
Proof.
  intros Hn. unfold Heap.down. destruct (down_go n s i n) as [s2 i2] eqn:E. cbn [fst].
  change s2 with (fst (s2, i2)). rewrite <- E. clear E.
  destruct (Nat.lt_ge_cases i n) as [Hi|Hi]; [apply (HeapBridge.down_go_length A d lt); auto|].
  destruct n as [|n']; [reflexivity|]. cbn [Heap.down_go]. destruct (Nat.leb_spec (S n') (2 * i + 1)); [reflexivity|lia].
Qed.
Lemma down_go_perm' : forall f (s : list A) i n, i < n -> n <= length s -> Permutation (fst (down_go f s i n)) s.
Proof. intros. apply down_go_perm; lia. Qed.
Lemma down_perm s i n : n <= length s -> Permutation (fst (down s i n)) s.
Proof.
  intros Hn. unfold Heap.down. destruct (down_go n s i n) as [s2 i2] eqn:E. cbn [fst].
  change s2 with (fst (s2, i2)). rewrite <- E. clear E.
  destruct (Nat.lt_ge_cases i n) as [Hi|Hi]; [apply down_go_perm'; auto|].
  destruct n as [|n']; [reflexivity|]. cbn [Heap.down_go]. destruct (Nat.leb_spec (S n') (2 * i + 1)); [reflexivity|lia].
Qed.
(* a sift bounded by n never touches the positions from n on *)
Lemma down_go_frame : forall f (s : list A) i n k, n <= length s -> n <= k ->
  nth k (fst (down_go f s i n)) d = nth k s d.
Proof.
  induction f as [|f IH]; intros s i n k Hn Hk; cbn [Heap.down_go fst]; [reflexivity|].
  destruct (Nat.leb_spec n (2 * i + 1)); [reflexivity|].
  set (j := if (2 * i + 1 + 1 <? n) && lt (nth (2 * i + 1 + 1) s d) (nth (2 * i + 1) s d) then 2 * i + 1 + 1 else 2 * i + 1).
  assert (Hj : j < n) by (unfold j; destruct (Nat.ltb_spec (2 * i + 1 + 1) n); cbn [andb]; [destruct (lt _ _)|]; lia).
  destruct (lt (nth j s d) (nth i s d)); [|reflexivity].
  rewrite IH by (rewrite ?swap_length; lia). rewrite nth_swap by lia.
  destruct (Nat.eqb_spec k j); [lia|]. destruct (Nat.eqb_spec k i); [lia|]. reflexivity.
Qed.
Lemma down_frame s i n k : n <= length s -> n <= k -> nth k (fst (down s i n)) d = nth k s d.
Proof.
  intros Hn Hk. unfold Heap.down. destruct (down_go n s i n) as [s2 i2] eqn:E. cbn [fst].
  change s2 with (fst (s2, i2)). rewrite <- E. apply down_go_frame; auto.
Qed.
Lemma up_go_facts : forall f (s : list A) j, j < length s ->
  length (up_go f s j) = length s /\ Permutation (up_go f s j) s /\ forall k, j < k -> nth k (up_go f s j) d = nth k s d.
Proof.
  induction f as [|f IH]; intros s j Hj; cbn [Heap.up_go]; [auto|].
  match goal with |- context [if ?c then _ else _] => destruct c eqn:Ec end; [auto|].
  assert (Hp : (j - 1) / 2 <= j) by (apply Nat.div_le_upper_bound; lia).
  destruct (IH (swap s ((j - 1) / 2) j) ((j - 1) / 2)) as (L & P & F); [rewrite swap_length; lia|].
  split; [rewrite L; apply swap_length|]. split.
  - etransitivity; [exact P|]. apply upd_nth_perm_swap; lia.
  - intros k Hk. rewrite F by lia. rewrite nth_swap by lia.
    destruct (Nat.eqb_spec k j); [lia|]. destruct (Nat.eqb_spec k ((j - 1) / 2)); [lia|]. reflexivity.
Qed.
Lemma fix_facts s i n : n <= length s -> i < n ->
  length (fix_ s i n) = length s /\ Permutation (fix_ s i n) s /\ forall k, n <= k -> nth k (fix_ s i n) d = nth k s d.
Proof.
  intros Hn Hi. unfold Heap.fix_.
  pose proof (down_length s i n Hn) as L. pose proof (down_perm s i n Hn) as P.
  pose proof (fun k => down_frame s i n k Hn) as F.
  destruct (down s i n) as [s2 moved]. cbn [fst] in *. destruct moved; [auto|].
  unfold Heap.up. destruct (up_go_facts (S i) s2 i) as (L2 & P2 & F2); [lia|].
  split; [lia|]. split; [etransitivity; eauto|]. intros k Hk. rewrite F2 by lia. apply F. exact Hk.
Qed.

Lemma firstn_nth (l : list A) n k : k < n -> nth k (firstn n l) d = nth k l d.
Proof.
  revert l k; induction n as [|n IH]; intros l k Hk; [lia|].
  destruct l as [|a l]; [destruct k; reflexivity|]. destruct k as [|k]; [reflexivity|]. cbn [firstn nth]. apply IH. lia.
Qed.
Lemma split_last (l : list A) n : length l = S n -> l = firstn n l ++ [nth n l d].
Proof.
  intros L. rewrite <- (firstn_skipn n l) at 1. f_equal.
  assert (Ls : length (skipn n l) = 1) by (rewrite skipn_length; lia).
  destruct (skipn n l) as [|a [|b t]] eqn:E; cbn [length] in Ls; try lia.
  f_equal. rewrite <- (firstn_skipn n l) at 1. rewrite app_nth2; rewrite firstn_length; [|lia].
  replace (n - Nat.min n (length l)) with 0 by lia. rewrite E. reflexivity.
Qed.
Lemma heap_ok_firstn (l : list A) n : heap_ok l n -> heap_ok (firstn n l) n.
Proof.
  intros H p c Hc Hpc. unfold Heap.ok. assert (p < n) by (unfold is_child in Hpc; lia).
  rewrite !firstn_nth by lia. apply H; auto.
Qed.

(* ------------------------------------------------------------------ closed forms of the operations *)
Hypothesis le_trans : forall a b c, le a b -> le b c -> le a c.
Hypothesis lt_asym : forall a b, lt a b = true -> lt b a = false.

(* Pop, both flavours: swap root and last, sift the root down below the last slot, cut the last slot *)
Definition pop_arr (s : list A) : list A := fst (down (swap s 0 (length s - 1)) 0 (length s - 1)).
Lemma cut_last_ok (s : list A) n : n < length s -> Heap.cut_last A s (Z.of_nat n) = Ok (firstn n s, Some (nth n s d)).
Proof. intros H. unfold Heap.cut_last. rewrite (nthZ_ok d) by auto. cbn [bind]. rewrite Nat2Z.id. reflexivity. Qed.

Lemma std_pop_ok (s : list A) : 1 <= length s ->
  Heap.std_pop A lt s = Ok (firstn (length s - 1) (pop_arr s), Some (nth (length s - 1) (pop_arr s) d)).
Proof.
  intros H. unfold Heap.std_pop, Heap.c_pop, Zlen.
  replace (Z.of_nat (length s) - 1)%Z with (Z.of_nat (length s - 1)) by lia.
  change 0%Z with (Z.of_nat 0). rewrite swapL_eval by lia. cbn [bind].
  rewrite downL_ok by (rewrite swap_length; lia). cbn [bind fst].
  fold (pop_arr s). assert (L : length (pop_arr s) = length s).
  { unfold pop_arr. rewrite down_length; rewrite swap_length; lia. }
  rewrite L. replace (Z.of_nat (length s) - 1)%Z with (Z.of_nat (length s - 1)) by lia.
  apply cut_last_ok. lia.
Qed.
Lemma swap_same (s : list A) i : i < length s -> swap s i i = s.
Proof.
  unfold Heap.swap. revert i; induction s as [|h s IH]; intros [|i] H; cbn [length] in H; try lia; cbn [upd nth]; [reflexivity|].
  f_equal. apply IH. lia.
Qed.
Lemma sl_pop_ok (s : list A) : 1 <= length s ->
  Heap.sl_pop A lt s = Ok (firstn (length s - 1) (pop_arr s), Some (nth (length s - 1) (pop_arr s) d)).
Proof.
  intros H. unfold Heap.sl_pop, Zlen.
  destruct (Z.eqb_spec (Z.of_nat (length s)) 0); [lia|].
  destruct (Z.eqb_spec (Z.of_nat (length s)) 1) as [E1|E1].
  - assert (L : length s = 1) by lia. destruct s as [|a [|b t]]; cbn [length] in L; try lia.
    cbn. reflexivity.
  - replace (Z.of_nat (length s) - 1)%Z with (Z.of_nat (length s - 1)) by lia.
    change 0%Z with (Z.of_nat 0). rewrite swapL_eval by lia. cbn [bind].
    rewrite downL_ok by (rewrite swap_length; lia). cbn [bind fst].
    fold (pop_arr s). apply cut_last_ok. unfold pop_arr. rewrite down_length; rewrite swap_length; lia.
Qed.
Lemma sl_pop_empty : Heap.sl_pop A lt [] = Ok ([], None).
Proof. reflexivity. Qed.

(* heap order is about positions below the bound only *)
Lemma fix_pre (s s1 : list A) i n m : heap_ok s m -> n <= m -> i < n ->
  (forall k, k < n -> k <> i -> nth k s1 d = nth k s d) ->
  (forall p c, c < n -> is_child p c -> p <> i -> c <> i -> ok s1 p c) /\
  (forall g c, is_child g i -> c < n -> is_child i c -> ok s1 g c).
Proof.
  intros Hh Hnm Hi Hag. split.
  - intros p c Hc Hpc Hp Hci. unfold Heap.ok. assert (p < n) by (unfold is_child in Hpc; lia).
    rewrite !Hag by lia. apply Hh; auto; lia.
  - intros g c Hgi Hc Hic. unfold Heap.ok. assert (g < i /\ i < c) by (unfold is_child in *; lia).
    rewrite !Hag by lia. apply (le_trans _ (nth i s d)); [apply Hh; auto; lia|apply Hh; auto; lia].
Qed.

Lemma pop_arr_spec (s : list A) : 1 <= length s -> heap_ok s (length s) ->
  let n := length s - 1 in
  length (pop_arr s) = length s /\ nth n (pop_arr s) d = nth 0 s d /\
  heap_ok (firstn n (pop_arr s)) n /\ Permutation (nth 0 s d :: firstn n (pop_arr s)) s /\
  (forall j, j < length s -> le (nth 0 s d) (nth j s d)).
Proof.
  intros H Hh n. unfold pop_arr. fold n.
  assert (Ls : length (swap s 0 n) = length s) by apply swap_length.
  assert (L : length (fst (down (swap s 0 n) 0 n)) = length s) by (rewrite down_length; lia).
  assert (N : nth n (fst (down (swap s 0 n) 0 n)) d = nth 0 s d).
  { rewrite down_frame by lia. rewrite nth_swap by (unfold n; lia). rewrite Nat.eqb_refl. reflexivity. }
  split; [exact L|]. split; [exact N|]. split; [|split].
  - apply heap_ok_firstn. apply (down_from_root A d lt le_trans lt_asym); [lia|].
    intros p c Hc Hpc Hp. unfold Heap.ok. rewrite !nth_swap by (unfold n; lia).
    assert (p < c) by (unfold is_child in Hpc; lia).
    destruct (Nat.eqb_spec p n); [lia|]. destruct (Nat.eqb_spec p 0); [lia|].
    destruct (Nat.eqb_spec c n); [lia|]. destruct (Nat.eqb_spec c 0); [lia|]. apply Hh; auto. unfold n in *. lia.
  - rewrite <- N. eapply Permutation_trans; [apply Permutation_cons_append|].
    rewrite <- (split_last (fst (down (swap s 0 n) 0 n)) n) by (unfold n in *; lia).
    etransitivity; [apply down_perm; lia|]. apply upd_nth_perm_swap; unfold n; lia.
  - intros j Hj. apply (root_is_min A d lt le_trans lt_asym s (length s)); auto.
Qed.

(* Remove(i), both flavours *)
Definition rem_arr (s : list A) (i : nat) : list A :=
  let n := length s - 1 in if n =? i then s else fix_ (swap s i n) i n.
Lemma remove_eval (s : list A) (i : nat) : i < length s ->
  (if negb (Z.of_nat (length s) - 1 =? Z.of_nat i)%Z
   then bind (swapL s (Z.of_nat i) (Z.of_nat (length s) - 1)) (fun s1 => fixL s1 (Z.of_nat i) (Z.of_nat (length s) - 1))
   else Ok s) = Ok (rem_arr s i).
Proof.
  intros Hi. unfold rem_arr. replace (Z.of_nat (length s) - 1)%Z with (Z.of_nat (length s - 1)) by lia.
  destruct (Z.eqb_spec (Z.of_nat (length s - 1)) (Z.of_nat i)) as [E|E]; cbn [negb].
  - destruct (Nat.eqb_spec (length s - 1) i); [reflexivity|lia].
  - destruct (Nat.eqb_spec (length s - 1) i); [lia|].
    rewrite swapL_eval by lia. cbn [bind]. apply fixL_ok; [rewrite swap_length|]; lia.
Qed.
Lemma rem_arr_spec (s : list A) i : i < length s -> heap_ok s (length s) ->
  let n := length s - 1 in
  length (rem_arr s i) = length s /\ nth n (rem_arr s i) d = nth i s d /\
  heap_ok (firstn n (rem_arr s i)) n /\ Permutation (nth i s d :: firstn n (rem_arr s i)) s.
Proof.
  intros Hi Hh n. unfold rem_arr. fold n. destruct (Nat.eqb_spec n i) as [E|E].
  - split; [reflexivity|]. split; [rewrite E; reflexivity|]. split.
    + apply heap_ok_firstn. intros p c Hc Hpc. apply Hh; auto. lia.
    + rewrite <- E. eapply Permutation_trans; [apply Permutation_cons_append|].
      rewrite <- (split_last s n) by (unfold n in *; lia). reflexivity.
  - assert (Ls : length (swap s i n) = length s) by apply swap_length.
    destruct (fix_facts (swap s i n) i n) as (L & P & F); [lia|unfold n in *; lia|].
    assert (N : nth n (fix_ (swap s i n) i n) d = nth i s d).
    { rewrite F by lia. rewrite nth_swap by (unfold n; lia). rewrite Nat.eqb_refl. reflexivity. }
    split; [lia|]. split; [exact N|]. split.
    + apply heap_ok_firstn.
      destruct (fix_pre s (swap s i n) i n (length s) Hh ltac:(lia) ltac:(unfold n in *; lia)) as [P1 P2].
      { intros k Hk Hki. rewrite nth_swap by (unfold n; lia).
        destruct (Nat.eqb_spec k n); [lia|]. destruct (Nat.eqb_spec k i); [lia|]. reflexivity. }
      apply (fix_heap A d lt le_trans lt_asym); auto; unfold n in *; lia.
    + rewrite <- N. eapply Permutation_trans; [apply Permutation_cons_append|].
      rewrite <- (split_last (fix_ (swap s i n) i n) n) by (unfold n in *; lia).
      etransitivity; [exact P|]. apply upd_nth_perm_swap; unfold n; lia.
Qed.

Lemma rem_arr_length (s : list A) i : i < length s -> length (rem_arr s i) = length s.
Proof.
  intros Hi. unfold rem_arr. destruct (Nat.eqb_spec (length s - 1) i); [reflexivity|].
  destruct (fix_facts (swap s i (length s - 1)) i (length s - 1)) as (L & _); rewrite ?swap_length in *; lia.
Qed.
Lemma std_remove_ok (s : list A) i : i < length s ->
  Heap.std_remove A lt s (Z.of_nat i) = Ok (firstn (length s - 1) (rem_arr s i), Some (nth (length s - 1) (rem_arr s i) d)).
Proof.
  intros Hi. unfold Heap.std_remove, Heap.c_pop, Zlen. rewrite remove_eval by auto. cbn [bind].
  pose proof (rem_arr_length s i Hi) as L.
  rewrite L. replace (Z.of_nat (length s) - 1)%Z with (Z.of_nat (length s - 1)) by lia. apply cut_last_ok. lia.
Qed.
Lemma sl_remove_ok (s : list A) i : i < length s ->
  Heap.sl_remove A lt s (Z.of_nat i) = Ok (firstn (length s - 1) (rem_arr s i), Some (nth (length s - 1) (rem_arr s i) d)).
Proof.
  intros Hi. unfold Heap.sl_remove, Zlen.
  destruct (Z.ltb_spec (Z.of_nat i) 0); [lia|]. destruct (Z.geb_spec (Z.of_nat i) (Z.of_nat (length s))); [lia|]. cbn [orb].
  rewrite remove_eval by auto. cbn [bind].
  pose proof (rem_arr_length s i Hi) as L.
  replace (Z.of_nat (length s) - 1)%Z with (Z.of_nat (length s - 1)) by lia. apply cut_last_ok. lia.
Qed.
Lemma sl_remove_out (s : list A) (z : Z) : (z < 0 \/ Zlen s <= z)%Z -> Heap.sl_remove A lt s z = Ok (s, None).
Proof.
  intros H. unfold Heap.sl_remove. destruct (Z.ltb_spec z 0); [reflexivity|].
  destruct (Z.geb_spec z (Zlen s)); [reflexivity|lia].
Qed.

(* Fix(i) after the value at i was overwritten (or not): the order is restored, nothing lost *)
Lemma fix_spec (s s1 : list A) i : i < length s -> heap_ok s (length s) -> length s1 = length s ->
  (forall k, k < length s -> k <> i -> nth k s1 d = nth k s d) ->
  heap_ok (fix_ s1 i (length s1)) (length s1) /\ length (fix_ s1 i (length s1)) = length s1 /\
  Permutation (fix_ s1 i (length s1)) s1.
Proof.
  intros Hi Hh L Hag. rewrite L.
  destruct (fix_pre s s1 i (length s) (length s) Hh ltac:(lia) Hi Hag) as [P1 P2].
  destruct (fix_facts s1 i (length s)) as (L2 & P & _); [lia|lia|].
  split; [apply (fix_heap A d lt le_trans lt_asym); auto; lia|]. split; [lia|exact P].
Qed.
Lemma sl_fix_ok (s : list A) i : i < length s -> Heap.sl_fix A lt s (Z.of_nat i) = Ok (fix_ s i (length s)).
Proof.
  intros Hi. unfold Heap.sl_fix, Zlen.
  destruct (Z.ltb_spec (Z.of_nat i) 0); [lia|]. destruct (Z.geb_spec (Z.of_nat i) (Z.of_nat (length s))); [lia|]. cbn [orb].
  apply fixL_ok; lia.
Qed.
Lemma std_fix_ok (s : list A) i : i < length s -> Heap.std_fix A lt s (Z.of_nat i) = Ok (fix_ s i (length s)).
Proof. intros Hi. unfold Heap.std_fix, Zlen. apply fixL_ok; lia. Qed.
Lemma sl_fix_out (s : list A) (z : Z) : (z < 0 \/ Zlen s <= z)%Z -> Heap.sl_fix A lt s z = Ok s.
Proof.
  intros H. unfold Heap.sl_fix. destruct (Z.ltb_spec z 0); [reflexivity|].
  destruct (Z.geb_spec z (Zlen s)); [reflexivity|lia].
Qed.

(* Push *)
Lemma push_ok (s : list A) x : Heap.sl_push A lt s x = Ok (up (s ++ [x]) (length s)) /\
                               Heap.std_push A lt s x = Ok (up (s ++ [x]) (length s)).
Proof.
  unfold Heap.sl_push, Heap.std_push, Zlen. rewrite app_length. cbn [length].
  replace (Z.of_nat (length s + 1) - 1)%Z with (Z.of_nat (length s)) by lia.
  rewrite upL_ok by (rewrite app_length; cbn [length]; lia). auto.
Qed.
Lemma push_spec (s : list A) x : heap_ok s (length s) ->
  let s' := up (s ++ [x]) (length s) in
  heap_ok s' (length s') /\ length s' = S (length s) /\ Permutation s' (x :: s).
Proof.
  intros Hh s'. unfold s', Heap.up.
  destruct (up_go_facts (S (length s)) (s ++ [x]) (length s)) as (L & P & _); [rewrite app_length; cbn [length]; lia|].
  rewrite app_length in L. cbn [length] in L.
  split; [|split].
  - fold (up (s ++ [x]) (length s)). replace (length (up (s ++ [x]) (length s))) with (S (length s)) by (unfold Heap.up; lia).
    apply (push_heap A d lt le_trans lt_asym); auto.
  - lia.
  - etransitivity; [exact P|]. apply Permutation_sym, Permutation_cons_append.
Qed.
End Ops.
