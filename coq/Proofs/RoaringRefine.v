(* C03: operation-sequence refinement.  For every sequence of Add / Remove / Contains (values below 2^32) / Len / Iter /
   Range / All (with early stop) / Buckets from the zero value, the outputs of the model equal the outputs of the
   set-of-N specification; and the same for every case the correspondence run can decode (Run/C03.entry). *)
From Coq Require Import List ZArith NArith Lia Bool Arith ZifyN ZifyNat ZifyBool Sorted.
From V Require Import Lib.Enc Gen.Roaring Model.Bits Model.Roaring.
From V Require Import Proofs.BitsRefine Proofs.RoaringArr Proofs.RoaringCont Proofs.RoaringTop Proofs.RoaringIter.
From V Require Run.C03.
Import ListNotations.
Local Open Scope N_scope.

Definition op_ok (o : rop) : Prop :=
  match o with RAdd n | RRemove n | RContains n => n < 4294967296 | _ => True end.

Lemma r_step_refines r s o : Inv r s -> op_ok o ->
  Inv (fst (r_step r o)) (fst (sr_step s o)) /\ snd (r_step r o) = snd (sr_step s o).
Proof.
  intros HI Hok. destruct o as [n|n|n| | |k|k| ]; cbn [r_step sr_step op_ok] in *.
  - pose proof (r_add_spec r s n HI Hok) as H. destruct (r_add r n) as [r' ok]. destruct H as [H1 H2]. cbn [fst snd]. rewrite H2. auto.
  - pose proof (r_remove_spec r s n HI Hok) as H. destruct (r_remove r n) as [r' ok]. destruct H as [H1 H2]. cbn [fst snd]. rewrite H2. auto.
  - cbn [fst snd]. rewrite (r_contains_spec r s n HI Hok). auto.
  - cbn [fst snd]. rewrite (i_len _ _ HI). auto.
  - cbn [fst snd]. rewrite (r_iter_spec r s HI). auto.
  - cbn [fst snd]. rewrite (r_range_spec r s k HI). auto.
  - cbn [fst snd]. rewrite (r_range_spec r s k HI). auto.
  - cbn [fst snd]. rewrite (buckets_spec r s HI). auto.
Qed.

Lemma r_run_refines : forall ops r s, Inv r s -> Forall op_ok ops -> r_run r ops = sr_run s ops.
Proof.
  induction ops as [|o t IH]; intros r s HI Hok; cbn [r_run sr_run]; [reflexivity|].
  inversion Hok as [|? ? Ho Ht]; subst. destruct (r_step_refines r s o HI Ho) as [A B].
  destruct (r_step r o) as [r' out]. destruct (sr_step s o) as [s' out']. cbn [fst snd] in *. rewrite B. f_equal. apply IH; auto.
Qed.

(* C03: a zero-value RoaringBitmap is observationally a set of uint32, for every operation sequence *)
Theorem roaring_refines_set ops : Forall op_ok ops -> r_run r_empty ops = sr_run [] ops.
Proof. apply r_run_refines, Inv_empty. Qed.

(* the invariant itself, for every reachable state: keys ascending, every container well-formed and non-empty (no empty
   bucket stays), array containers hold at most arr_max values, bitmap caches are exact, len is the cardinality *)
Fixpoint r_exec (r : rb) (ops : list rop) : rb := match ops with [] => r | o :: t => r_exec (fst (r_step r o)) t end.
Fixpoint s_exec (s : list N) (ops : list rop) : list N := match ops with [] => s | o :: t => s_exec (fst (sr_step s o)) t end.
Theorem roaring_invariant ops : Forall op_ok ops -> Inv (r_exec r_empty ops) (s_exec [] ops).
Proof.
  generalize r_empty, (@nil N), Inv_empty. induction ops as [|o t IH]; intros r s HI Hok; cbn [r_exec s_exec]; [exact HI|].
  inversion Hok; subst. apply IH; auto. apply r_step_refines; auto.
Qed.

(* every case the run can decode consists of admissible operations, so model output = specification output on ALL cases *)
Lemma u32_bound z : C03.u32 z < 4294967296.
Proof. unfold C03.u32. pose proof (Z.mod_pos_bound z 4294967296 ltac:(lia)). lia. Qed.
Lemma run_vals_ok (f : N -> rop) : (forall n, n < 4294967296 -> op_ok (f n)) -> forall n h cur d m, Forall op_ok (map f (C03.run_vals n h cur d m)).
Proof. intros Hf. induction n as [|n IH]; intros h cur d m; cbn [C03.run_vals map]; constructor; auto. apply Hf, u32_bound. Qed.
Lemma dec_op_ok c a b n d e ops : C03.dec_op c a b n d e = Some ops -> Forall op_ok ops.
Proof.
  unfold C03.dec_op. intros H.
  repeat match type of H with
  | (if ?x then _ else _) = _ => destruct x
  end; inversion H; subst; clear H;
  try (repeat constructor; cbn [op_ok]; auto using u32_bound);
  apply run_vals_ok; intros; exact H.
Qed.
Lemma dec_ops_ok : forall fuel l ops, C03.dec_ops fuel l = Some ops -> Forall op_ok ops.
Proof.
  induction fuel as [|f IH]; intros l ops H.
  - destruct l; cbn [C03.dec_ops] in H; [inversion H; constructor|discriminate].
  - destruct l as [|c [|a [|b [|n [|d [|e r]]]]]]; cbn [C03.dec_ops] in H; try discriminate; [inversion H; constructor|].
    destruct (C03.dec_op c a b n d e) as [o|] eqn:Eo; [|discriminate].
    destruct (C03.dec_ops f r) as [os|] eqn:Eos; [|discriminate]. inversion H; subst.
    apply Forall_app. split; [eapply dec_op_ok; eauto|eapply IH; eauto].
Qed.
Theorem entry_model_eq_spec args : C03.entry 0 args = C03.entry 1 args.
Proof.
  unfold C03.entry. destruct (C03.dec_ops (length args) args) as [ops|] eqn:E; [|reflexivity].
  cbn. apply roaring_refines_set. eapply dec_ops_ok, E.
Qed.
Print Assumptions roaring_refines_set.
Print Assumptions entry_model_eq_spec.
