(* C06 — ReplaceWithMask end to end on the executable model: the merged scopes of find's output lie on rune boundaries, so
   the loop never slices out of range and the result is, rune for rune (runes as utf8.DecodeRuneInString / range see them),
   the mask where the rune lies inside an occurrence and the original rune elsewhere; the rune count is preserved. *)
From Coq Require Import List ZArith Lia Bool Arith.
From V Require Import Lib.Utf8 Proofs.Utf8Facts Model.Trie Proofs.TrieTable Proofs.TrieInsert Proofs.TrieRunes Proofs.TrieBuild Proofs.TrieFind
  Proofs.TrieOcc Proofs.TrieTop Proofs.TrieMerge Proofs.TrieReplace Proofs.TrieReplaceTop Proofs.TrieMask.
Import ListNotations.

Module M := V.Model.Trie.

(* ---- mergeScopes only produces end points that were end points of its input ---- *)
Lemma merge_go_ends (Pa Pb : Z -> Prop) : forall fuel done cur rest m,
  Forall (fun x => Pa (fst x) /\ Pb (snd x)) (cur :: done ++ rest) ->
  merge_go fuel done cur rest = Some m -> Forall (fun x => Pa (fst x) /\ Pb (snd x)) m.
Proof.
  induction fuel as [|f IH]; intros done cur rest m HF E; [discriminate|]. cbn [merge_go] in E.
  assert (Hc : Pa (fst cur) /\ Pb (snd cur)) by (inversion HF; auto).
  assert (Hd : Forall (fun x => Pa (fst x) /\ Pb (snd x)) done) by (inversion HF as [|? ? _ H2]; apply Forall_app in H2; tauto).
  assert (Hr : Forall (fun x => Pa (fst x) /\ Pb (snd x)) rest) by (inversion HF as [|? ? _ H2]; apply Forall_app in H2; tauto).
  destruct rest as [|n rest'].
  - inversion E; subst. apply Forall_app. split; [apply Forall_rev; exact Hd|constructor; auto].
  - inversion Hr as [|? ? Hn Hr']; subst.
    assert (Hm : Pa (fst (Z.min (fst cur) (fst n), Z.max (snd cur) (snd n))) /\ Pb (snd (Z.min (fst cur) (fst n), Z.max (snd cur) (snd n)))).
    { cbn [fst snd]. split.
      - destruct (Z.min_spec (fst cur) (fst n)) as [[_ ->]|[_ ->]]; tauto.
      - destruct (Z.max_spec (snd cur) (snd n)) as [[_ ->]|[_ ->]]; tauto. }
    destruct (snd cur >? fst n)%Z.
    + destruct done as [|d done'].
      * eapply IH; [|exact E]. constructor; [exact Hm|exact Hr'].
      * inversion Hd as [|? ? Hdd Hd']; subst. eapply IH; [|exact E].
        constructor; [exact Hdd|]. apply Forall_app. split; [exact Hd'|constructor; [exact Hm|exact Hr']].
    + eapply IH; [|exact E]. constructor; [exact Hn|]. cbn [app]. constructor; [exact Hc|].
      apply Forall_app. split; [exact Hd|exact Hr'].
Qed.
Lemma merge_scopes_ends (Pa Pb : Z -> Prop) sc m : Forall (fun x => Pa (fst x) /\ Pb (snd x)) sc ->
  merge_scopes sc = Some m -> Forall (fun x => Pa (fst x) /\ Pb (snd x)) m.
Proof.
  destruct sc as [|c r]; intros HF E; cbn [merge_scopes] in E; [inversion E; constructor|].
  eapply merge_go_ends; [|exact E]. cbn [app]. exact HF.
Qed.

(* ---- byte offsets of rune indices ---- *)
Section Off.
Variable cs : list (list Z).
Hypothesis Hne : Forall (fun c => c <> []) cs.

Lemma off_S j : j < length cs -> off cs (S j) = off cs j + length (nth j cs []) /\ 1 <= length (nth j cs []).
Proof.
  intros Hj. unfold off.
  assert (E : firstn (S j) cs = firstn j cs ++ [nth j cs []]).
  { clear Hne. revert j Hj. induction cs as [|c l IH]; intros j Hj; [cbn in Hj; lia|]. destruct j; [reflexivity|].
    cbn [firstn nth app]. f_equal. apply IH. cbn [length] in Hj. lia. }
  rewrite E, concat_app, app_length. cbn [concat]. rewrite app_nil_r. split; [reflexivity|].
  rewrite Forall_forall in Hne. assert (nth j cs [] <> []) by (apply Hne, nth_In; exact Hj). destruct (nth j cs []); [congruence|cbn; lia].
Qed.
Lemma off_mono a b : a <= b -> off cs a <= off cs b.
Proof.
  intros H. unfold off. replace b with (a + (b - a)) by lia. generalize (b - a). intros d.
  clear H Hne. revert a. induction cs as [|c l IH]; intros a; [rewrite !firstn_nil; lia|].
  destruct a; cbn [firstn concat Nat.add].
  - cbn [length]. lia.
  - rewrite !app_length. specialize (IH a). lia.
Qed.
Lemma off_strict a b : a < b -> b <= length cs -> off cs a < off cs b.
Proof.
  intros H Hb. pose proof (off_S a ltac:(lia)) as [E1 E2]. pose proof (off_mono (S a) b ltac:(lia)). lia.
Qed.
Lemma off_le a b : b <= length cs -> off cs a <= off cs b -> a <= b \/ length cs <= a.
Proof.
  intros Hb H. destruct (Nat.le_gt_cases a b); [left; assumption|]. destruct (Nat.le_gt_cases (length cs) a); [right; assumption|].
  pose proof (off_strict b a ltac:(lia) ltac:(lia)). lia.
Qed.
End Off.

(* rune boundaries (decodeRune) are the chunk offsets (DecodeRuneInString): the two decoders advance by the same widths *)
Lemma uchunks_cons s : s <> [] -> uchunks s = firstn (width s) s :: uchunks (skipn (width s) s).
Proof. intros H. unfold uchunks. apply (runes_cons width width_pos). exact H. Qed.

Lemma bounds_off : forall text k, In k (bounds text) -> exists j, j <= length (uchunks text) /\ k = off (uchunks text) j.
Proof.
  intros text. induction text as [|s Hs IH] using tokens_ind; intros k Hk.
  - destruct Hk as [<-|[]]. exists 0. split; [lia|reflexivity].
  - rewrite (bounds_cons s Hs) in Hk. rewrite (uchunks_cons s Hs).
    assert (Ew : snd (decode_rune s) = width s) by (rewrite decode_rune_snd; reflexivity). rewrite Ew in *.
    destruct Hk as [<-|Hk]; [exists 0; split; [lia|reflexivity]|].
    apply in_map_iff in Hk. destruct Hk as (k' & <- & Hk'). destruct (IH k' Hk') as (j & Hj & ->).
    exists (S j). cbn [length]. split; [lia|]. unfold off. cbn [firstn concat]. rewrite app_length, firstn_length.
    pose proof (width_pos s Hs). lia.
Qed.

(* ---- from byte scopes on rune boundaries to rune-index scopes ---- *)
Definition offs (cs : list (list Z)) (ab : nat * nat) : Z * Z := (Z.of_nat (off cs (fst ab)), Z.of_nat (off cs (snd ab))).
Definition Bd (cs : list (list Z)) (z : Z) : Prop := exists j, j <= length cs /\ z = Z.of_nat (off cs j).

Lemma align_scopes cs : Forall (fun c => c <> []) cs -> forall m fromj, fromj <= length cs ->
  goodz (Z.of_nat (off cs fromj)) (Z.of_nat (off cs (length cs))) m ->
  Forall (fun x => Bd cs (fst x) /\ Bd cs (snd x)) m ->
  exists m', m = map (offs cs) m' /\ ngood fromj (length cs) m'.
Proof.
  intros Hne. induction m as [|[a b] t IH]; intros fromj Hf Hg Ha.
  - exists []. split; [reflexivity|]. cbn [ngood]. exact Hf.
  - cbn [goodz] in Hg. destruct Hg as (H1 & H2 & H3). inversion Ha as [|? ? [(ja & Hja & Ea) (jb & Hjb & Eb)] Ha']; subst. cbn [fst snd] in *. subst a b.
    assert (Hfa : fromj <= ja).
    { destruct (off_le cs Hne fromj ja Hja ltac:(lia)) as [H|H]; [exact H|].
      (* fromj = length cs: then off ja >= off (length cs), so ja = length cs *)
      assert (fromj = length cs) by lia. subst fromj.
      pose proof (goodz_bound _ _ _ H3). destruct (Nat.eq_dec ja (length cs)); [lia|].
      pose proof (off_strict cs Hne ja (length cs) ltac:(lia) ltac:(lia)). lia. }
    assert (Hab : ja < jb).
    { destruct (Nat.lt_ge_cases ja jb); [assumption|]. pose proof (off_mono cs jb ja ltac:(lia)). lia. }
    destruct (IH jb Hjb H3 Ha') as (m' & -> & Hg').
    exists ((ja, jb) :: m'). split; [reflexivity|]. cbn [ngood]. auto.
Qed.

Lemma ngood_in : forall m' from n a b, ngood from n m' -> In (a, b) m' -> from <= a /\ a < b /\ b <= n.
Proof.
  induction m' as [|[x y] t IH]; intros from n a b Hg Hin; [destruct Hin|]. cbn [ngood] in Hg. destruct Hg as (H1 & H2 & H3).
  destruct Hin as [E|Hin].
  - inversion E; subst. pose proof (ngood_bound _ _ _ H3). lia.
  - destruct (IH y n a b H3 Hin). lia.
Qed.

Theorem mask_correct ps text mask T : Forall is_bytes ps -> is_bytes text -> built ps T ->
  let cs := uchunks text in
  exists m', M.replace_with_mask T text mask = Ok (concat (mask_spec (encode_rune mask) m' 0 cs)) /\
    length (mask_spec (encode_rune mask) m' 0 cs) = length cs /\
    (forall j, j < length cs ->
       (ncov m' j = true <-> exists s e, occurrence ps text s e /\ (s <= Z.of_nat (off cs j))%Z /\ (Z.of_nat (off cs (S j)) <= e)%Z)).
Proof.
  intros Hps Hb E cs.
  destruct (replace_correct ps text [] T Hps Hb E) as (sc & m & Ef & Hocc & Em & _ & Hg & Hcov & _ & _).
  pose proof (uchunks_nonempty text) as Hne. fold cs in Hne.
  assert (Hlen : length text = off cs (length cs)).
  { unfold off. rewrite firstn_all. unfold cs. rewrite uchunks_concat. reflexivity. }
  (* every scope of find ends on rune boundaries; so do the merged ones *)
  assert (Hbd : forall k, In k (bounds text) -> Bd cs (Z.of_nat k)).
  { intros k Hk. destruct (bounds_off text k Hk) as (j & Hj & ->). exists j. auto. }
  assert (Hsc : Forall (fun x => Bd cs (fst x) /\ Bd cs (snd x)) sc).
  { rewrite Forall_forall. intros [s e] Hin. apply Hocc in Hin. destruct Hin as (p & _ & _ & Hs & He & Ho). cbn [fst snd].
    unfold M.occ_at in Ho. apply andb_prop in Ho. destruct Ho as [_ Ho]. cbn [negb orb] in Ho. apply andb_prop in Ho. destruct Ho as [B1 B2].
    apply is_bound_iff in B1. apply is_bound_iff in B2. split.
    - replace s with (Z.of_nat (Z.to_nat s)) by lia. apply Hbd. exact B1.
    - replace e with (Z.of_nat (Z.to_nat s + length p)) by lia. apply Hbd. exact B2. }
  pose proof (merge_scopes_ends (Bd cs) (Bd cs) sc m Hsc Em) as Hm.
  rewrite Hlen in Hg.
  destruct (align_scopes cs Hne m 0 ltac:(lia) Hg Hm) as (m' & -> & Hg').
  destruct (mask_go_aligned text (encode_rune mask) m' Hg') as [Emask Hcount]. fold cs in Emask, Hcount.
  exists m'. split; [|split; [exact Hcount|]].
  - unfold M.replace_with_mask, with_merged. rewrite Ef, Em.
    change (map (offs cs) m') with (map (fun ab => (Z.of_nat (off cs (fst ab)), Z.of_nat (off cs (snd ab)))) m').
    rewrite Emask. reflexivity.
  - intros j Hj.
    assert (C1 : ncov m' j = true <-> covered (map (offs cs) m') (Z.of_nat (off cs j))).
    { unfold ncov, covered. rewrite existsb_exists. split.
      - intros ([a b] & Hin & Hc). apply andb_prop in Hc. destruct Hc as [H1 H2]. apply Nat.leb_le in H1. apply Nat.ltb_lt in H2.
        destruct (ngood_in _ _ _ _ _ Hg' Hin) as (_ & _ & Hbn).
        exists (offs cs (a, b)). split; [apply in_map; exact Hin|]. unfold offs. cbn [fst snd].
        pose proof (off_mono cs a j H1). pose proof (off_strict cs Hne j b H2 Hbn). lia.
      - intros (x & Hin & Hc). apply in_map_iff in Hin. destruct Hin as ([a b] & <- & Hin). unfold offs in Hc. cbn [fst snd] in Hc.
        destruct (ngood_in _ _ _ _ _ Hg' Hin) as (_ & Hab & Hbn).
        exists (a, b). split; [exact Hin|]. apply andb_true_intro. split; [apply Nat.leb_le|apply Nat.ltb_lt].
        + destruct (Nat.le_gt_cases a j); [assumption|]. pose proof (off_strict cs Hne j a ltac:(lia) ltac:(lia)). lia.
        + destruct (Nat.lt_ge_cases j b); [assumption|]. pose proof (off_mono cs b j ltac:(lia)). lia. }
    rewrite C1, Hcov. unfold covered. split.
    + intros ([s e] & Hin & Hc). cbn [fst snd] in Hc. exists s, e. split; [apply Hocc; exact Hin|]. split; [lia|].
      rewrite Forall_forall in Hsc. destruct (Hsc _ Hin) as [_ (k & Hk & Ek)]. cbn [snd] in Ek. subst e.
      assert (j < k). { destruct (Nat.lt_ge_cases j k); [assumption|]. pose proof (off_mono cs k j ltac:(lia)). lia. }
      pose proof (off_mono cs (S j) k ltac:(lia)). lia.
    + intros (s & e & Ho & H1 & H2). exists (s, e). split; [apply Hocc; exact Ho|]. cbn [fst snd].
      pose proof (off_S cs Hne j Hj) as [E1 E2]. lia.
Qed.

Lemma uchunks_facts s : concat (uchunks s) = s /\ Forall (fun c => c <> []) (uchunks s) /\
  (s <> [] -> uchunks s = firstn (width s) s :: uchunks (skipn (width s) s)).
Proof. split; [apply uchunks_concat|split; [apply uchunks_nonempty|apply uchunks_cons]]. Qed.
