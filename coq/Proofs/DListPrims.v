(* C13 — the splice primitives of listz.DList on the model heap: insert / remove / move of Model/DList.v perform
   exactly the pointer writes ins_* / rem_* / mov_* (the re-read fields have the expected values inside a ring), and
   on a ring  L -> A ++ B -> L  they insert at a position, delete at a position, and move between positions. *)
From Coq Require Import List ZArith Arith Lia Bool Permutation.
From V Require Import Model.DList Proofs.DListChains.
Import ListNotations.

Definition mov_nx (nx : nat -> option nat) (e p n at_ nx1 : nat) := fupd (fupd (fupd nx p (Some n)) e (Some nx1)) at_ (Some e).
Definition mov_pv (pv : nat -> option nat) (e p n at_ nx1 : nat) := fupd (fupd (fupd pv n (Some p)) e (Some at_)) nx1 (Some e).

Lemma insert_eq h L e at_ nx0 : e <> at_ -> nxt h at_ = Some nx0 ->
  insert h L e at_ = Some {| nxt := ins_nx (nxt h) e at_ nx0; prv := ins_pv (prv h) e at_ nx0;
                             own := fupd (own h) e (Some L); val := val h;
                             llen := fupd (llen h) L (llen h L + 1)%Z; fresh := fresh h |}.
Proof.
  intros Hne Hn. unfold insert, set_prv, set_nxt, set_own, set_len. cbn [nxt prv own val llen fresh].
  rewrite Hn, fupd_eq. rewrite (fupd_ne _ at_ e) by auto. rewrite fupd_eq. reflexivity.
Qed.

Lemma remove_eq h L e p n : p <> e -> prv h e = Some p -> nxt h e = Some n ->
  remove h L e = Some {| nxt := rem_nx (nxt h) e p n; prv := rem_pv (prv h) e p n;
                         own := fupd (own h) e None; val := val h;
                         llen := fupd (llen h) L (llen h L - 1)%Z; fresh := fresh h |}.
Proof.
  intros Hne Hp Hn. unfold remove, set_prv, set_nxt, set_own, set_len. cbn [nxt prv own val llen fresh].
  rewrite Hp. cbn [nxt prv own val llen fresh]. rewrite Hn. rewrite (fupd_ne _ p e) by auto. rewrite ?Hn, ?Hp. reflexivity.
Qed.

Lemma move_eq h e at_ p n nx1 : e <> at_ -> p <> e -> prv h e = Some p -> nxt h e = Some n ->
  fupd (nxt h) p (Some n) at_ = Some nx1 ->
  move h e at_ = Some {| nxt := mov_nx (nxt h) e p n at_ nx1; prv := mov_pv (prv h) e p n at_ nx1;
                         own := own h; val := val h; llen := llen h; fresh := fresh h |}.
Proof.
  intros Hne Hpe Hp Hn Hx. unfold move, set_prv, set_nxt. cbn [nxt prv own val llen fresh].
  destruct (Nat.eqb_spec e at_); [contradiction|]. rewrite Hp. cbn [nxt prv own val llen fresh]. rewrite Hn.
  rewrite (fupd_ne _ p e) by auto. rewrite ?Hn, ?Hp. cbn [nxt prv own val llen fresh]. rewrite Hx. rewrite fupd_eq.
  rewrite (fupd_ne _ at_ e) by auto. rewrite fupd_eq. reflexivity.
Qed.

Lemma NoDup_app_swap {A} (X Y : list A) : NoDup (X ++ Y) -> NoDup (Y ++ X).
Proof. apply Permutation_NoDup, Permutation_app_comm. Qed.

(* ---- rotations that end in the insertion point *)
Lemma split_last (L : nat) (A : list nat) : exists M, L :: A = M ++ [last A L].
Proof.
  destruct A as [|a A']; [exists []; reflexivity|].
  destruct (@exists_last _ (L :: a :: A') ltac:(discriminate)) as (M & z & E). exists M. rewrite E. f_equal. f_equal.
  change (last (a :: A') L) with (last (L :: a :: A') L). rewrite E. rewrite last_last. reflexivity.
Qed.

Lemma hd_rot (L : nat) (A B M : list nat) : L :: A = M ++ [last A L] -> hd (last A L) (B ++ M) = hd L B.
Proof.
  intros E. destruct B as [|b B']; [|reflexivity]. cbn [app hd]. destruct M as [|m M'].
  - cbn in E. inversion E. reflexivity.
  - cbn in E. inversion E. reflexivity.
Qed.

Lemma ring_insert nx pv L A B e :
  links nx pv L (A ++ B) L -> NoDup (L :: A ++ B) -> ~ In e (L :: A ++ B) ->
  nx (last A L) = Some (hd L B) /\
  links (ins_nx nx e (last A L) (hd L B)) (ins_pv pv e (last A L) (hd L B)) L (A ++ e :: B) L.
Proof.
  intros Hl Hnd He. destruct (split_last L A) as (M & EM). set (at_ := last A L) in *.
  assert (Hc : cyc nx pv ((B ++ M) ++ [at_])).
  { rewrite <- app_assoc, <- EM. apply cyc_swap. exact Hl. }
  assert (Hperm : forall x, In x ((B ++ M) ++ [at_]) <-> In x (L :: A ++ B)).
  { intros x. rewrite <- app_assoc, <- EM. rewrite in_app_iff. cbn [In]. rewrite in_app_iff. tauto. }
  assert (Hnd' : NoDup ((B ++ M) ++ [at_])).
  { rewrite <- app_assoc, <- EM. apply NoDup_app_swap. exact Hnd. }
  destruct (insert_end nx pv (B ++ M) at_ e Hc Hnd') as [Hx Hc'].
  { intros Hin. apply He, Hperm, Hin. }
  pose proof (hd_rot L A B M EM) as Hh. fold at_ in Hh. rewrite Hh in *. split; [exact Hx|].
  change (links (ins_nx nx e at_ (hd L B)) (ins_pv pv e at_ (hd L B)) L (A ++ e :: B) L)
    with (cyc (ins_nx nx e at_ (hd L B)) (ins_pv pv e at_ (hd L B)) ((L :: A) ++ e :: B)).
  assert (E1 : (L :: A) ++ e :: B = ((M ++ [at_]) ++ [e]) ++ B) by (rewrite EM, <- !app_assoc; reflexivity).
  assert (E2 : ((B ++ M) ++ [at_]) ++ [e] = B ++ ((M ++ [at_]) ++ [e])) by (rewrite <- !app_assoc; reflexivity).
  rewrite E1. apply cyc_swap. rewrite <- E2. exact Hc'.
Qed.

Lemma ring_remove nx pv L A B e :
  links nx pv L (A ++ e :: B) L -> NoDup (L :: A ++ e :: B) ->
  pv e = Some (last A L) /\ nx e = Some (hd L B) /\
  links (rem_nx nx e (last A L) (hd L B)) (rem_pv pv e (last A L) (hd L B)) L (A ++ B) L.
Proof.
  intros Hl Hnd. destruct (split_last L A) as (M & EM). set (p := last A L) in *.
  assert (E1 : (L :: A) ++ e :: B = ((M ++ [p]) ++ [e]) ++ B) by (rewrite EM, <- !app_assoc; reflexivity).
  assert (E2 : ((B ++ M) ++ [p]) ++ [e] = B ++ ((M ++ [p]) ++ [e])) by (rewrite <- !app_assoc; reflexivity).
  assert (Hc : cyc nx pv (((B ++ M) ++ [p]) ++ [e])).
  { rewrite E2. apply cyc_swap. rewrite <- E1. exact Hl. }
  assert (Hnd' : NoDup (((B ++ M) ++ [p]) ++ [e])).
  { rewrite E2. apply NoDup_app_swap. rewrite <- E1. exact Hnd. }
  destruct (remove_end nx pv (B ++ M) p e Hc Hnd') as (Hp & Hn & Hc').
  pose proof (hd_rot L A B M EM) as Hh. fold p in Hh. rewrite Hh in *. split; [exact Hp|]. split; [exact Hn|].
  change (cyc (rem_nx nx e p (hd L B)) (rem_pv pv e p (hd L B)) ((L :: A) ++ B)).
  apply cyc_swap. rewrite EM. rewrite app_assoc. exact Hc'.
Qed.

(* move = remove at one position, insert at another; the pointer writes of move give the same stores pointwise *)
Lemma ring_move nx pv L A B e A' B' :
  links nx pv L (A ++ e :: B) L -> NoDup (L :: A ++ e :: B) -> A ++ B = A' ++ B' ->
  let p := last A L in let n := hd L B in let at_ := last A' L in let nx1 := hd L B' in
  pv e = Some p /\ nx e = Some n /\ fupd nx p (Some n) at_ = Some nx1 /\ e <> at_ /\ p <> e /\
  links (mov_nx nx e p n at_ nx1) (mov_pv pv e p n at_ nx1) L (A' ++ e :: B') L.
Proof.
  intros Hl Hnd Eq p n at_ nx1.
  destruct (ring_remove nx pv L A B e Hl Hnd) as (Hp & Hn & Hl1). fold p n in Hp, Hn, Hl1.
  assert (Hnd1 : NoDup (L :: A ++ B)).
  { change (NoDup ((L :: A) ++ B)). change (NoDup ((L :: A) ++ e :: B)) in Hnd. eapply NoDup_remove_1; eauto. }
  assert (He1 : ~ In e (L :: A ++ B)).
  { change (~ In e ((L :: A) ++ B)). change (NoDup ((L :: A) ++ e :: B)) in Hnd. eapply NoDup_remove_2; eauto. }
  rewrite Eq in Hl1, Hnd1, He1.
  destruct (ring_insert _ _ L A' B' e Hl1 Hnd1 He1) as (Hx & Hl2). fold at_ nx1 in Hx, Hl2.
  assert (Hat : In at_ (L :: A' ++ B')).
  { unfold at_. destruct (split_last L A') as (M & EM). change (In (last A' L) ((L :: A') ++ B')). rewrite EM.
    apply in_app_iff. left. apply in_app_iff. right. left. reflexivity. }
  assert (Hea : e <> at_) by (intros E; apply He1; rewrite E; exact Hat).
  assert (Hpe : p <> e).
  { intros E. apply He1. rewrite <- E. rewrite <- Eq. unfold p. destruct (split_last L A) as (M & EM).
    change (In (last A L) ((L :: A) ++ B)). rewrite EM. apply in_app_iff. left. apply in_app_iff. right. left. reflexivity. }
  split; [exact Hp|]. split; [exact Hn|]. split.
  { unfold rem_nx in Hx. rewrite fupd_ne in Hx by auto. exact Hx. }
  split; [exact Hea|]. split; [exact Hpe|].
  eapply links_ext; [| |exact Hl2].
  - intros x. unfold mov_nx, ins_nx, rem_nx, fupd. destruct (Nat.eqb x at_); [reflexivity|]. destruct (Nat.eqb x e); reflexivity.
  - intros x. unfold mov_pv, ins_pv, rem_pv, fupd. destruct (Nat.eqb x nx1); [reflexivity|]. destruct (Nat.eqb x e); reflexivity.
Qed.
