(* C04 — the statements of Props/C04.v for the Slice / generic-function flavours, with the comparator
   hypothesis in its textbook form (strict weak order). *)
From Coq Require Import List Arith ZArith Lia Bool PeanoNat Permutation.
From V Require Import Model.Heap Proofs.HeapSift Proofs.HeapBuild Proofs.HeapBridge Proofs.HeapOps Proofs.HeapJudge.
Import ListNotations.

Section Top.
Variable A : Type.
Variable d : A.
Variable lt : A -> A -> bool.
Variable eqb : A -> A -> bool.
Hypothesis swo : strict_weak_order A lt.

Lemma swo_asym : forall a b, lt a b = true -> lt b a = false.
Proof.
  destruct swo as (Hirr & Htr & _). intros a b H. destruct (lt b a) eqn:E; [|reflexivity].
  pose proof (Htr a b a H E) as H2. rewrite Hirr in H2. discriminate.
Qed.
Lemma swo_le_trans : forall a b c, le A lt a b -> le A lt b c -> le A lt a c.
Proof.
  destruct swo as (Hirr & Htr & Hinc). unfold le. intros a b c Hba Hcb.
  destruct (lt c a) eqn:Hca; [|reflexivity]. exfalso.
  destruct (lt a b) eqn:Hab.
  - pose proof (Htr c a b Hca Hab). congruence.
  - destruct (lt b c) eqn:Hbc.
    + pose proof (Htr b c a Hbc Hca). congruence.
    + destruct (Hinc a b c (conj Hab Hba) (conj Hbc Hcb)) as [_ H]. congruence.
Qed.
(* conversely, the two facts the proofs use are all of it: they make lt a strict weak order *)
Lemma swo_of_total_preorder :
  (forall a b, lt a b = true -> lt b a = false) -> (forall a b c, le A lt a b -> le A lt b c -> le A lt a c) ->
  strict_weak_order A lt.
Proof.
  intros Has Htr. unfold le in Htr. split; [|split].
  - intros a. destruct (lt a a) eqn:E; [|reflexivity]. pose proof (Has a a E). congruence.
  - intros a b c Hab Hbc. destruct (lt a c) eqn:E; [reflexivity|]. exfalso.
    (* c <= a (E), b <= c? no: use a <= ... *)
    pose proof (Has a b Hab) as Hba. pose proof (Has b c Hbc) as Hcb.
    (* le c b and le a c... : le x y := lt y x = false.  E: le c a.  Hba : le a b.  so le c b: lt b c = false *)
    pose proof (Htr c a b E Hba). congruence.
  - intros a b c [Hab Hba] [Hbc Hcb]. split.
    + apply (Htr c b a); assumption.
    + apply (Htr a b c); assumption.
Qed.
End Top.

(* ---- restated with the strict-weak-order premise (what Props/C04.v quotes) ---- *)
Section Statements.
Variable A : Type.
Variable d : A.
Variable lt : A -> A -> bool.
Variable eqb : A -> A -> bool.
Hypothesis swo : strict_weak_order A lt.
Hypothesis eqb_spec : forall a b, eqb a b = true <-> a = b.
Let lt_asym := swo_asym A lt swo.
Let le_trans := swo_le_trans A lt swo.

Lemma t_down_restores : forall n fuel s i, n <= length s -> n <= i + fuel ->
  (forall p c, c < n -> is_child p c -> p <> i -> ok A d lt s p c) ->
  (forall g c, is_child g i -> c < n -> is_child i c -> ok A d lt s g c) ->
  heap_ok A d lt (fst (down_go A d lt fuel s i n)) n.
Proof. exact (down_heap A d lt le_trans lt_asym). Qed.
Lemma t_up_restores : forall n fuel s j, n <= length s -> j < n -> j < fuel ->
  (forall p c, c < n -> is_child p c -> c <> j -> ok A d lt s p c) ->
  (forall g c, is_child g j -> c < n -> is_child j c -> ok A d lt s g c) ->
  heap_ok A d lt (up_go A d lt fuel s j) n.
Proof. exact (up_heap A d lt le_trans lt_asym). Qed.
Lemma t_fix_restores : forall s i n, n <= length s -> i < n ->
  (forall p c, c < n -> is_child p c -> p <> i -> c <> i -> ok A d lt s p c) ->
  (forall g c, is_child g i -> c < n -> is_child i c -> ok A d lt s g c) ->
  heap_ok A d lt (fix_ A d lt s i n) n.
Proof. exact (fix_heap A d lt le_trans lt_asym). Qed.
Lemma t_build_heap : forall s,
  heap_ok A d lt (build A d lt s) (length s) /\ length (build A d lt s) = length s /\ Permutation (build A d lt s) s.
Proof. exact (build_heap A d lt le_trans lt_asym). Qed.
Lemma t_root_is_min : forall s n, heap_ok A d lt s n -> forall j, j < n -> lt (nth j s d) (nth 0 s d) = false.
Proof. exact (root_is_min A d lt le_trans lt_asym). Qed.

(* the executable loops (int indices, checked accesses, fuel) are the pure loops wherever the Go code calls them *)
Lemma t_loops_refine : forall (s : list A),
  (forall i n, n <= length s -> downL A lt s (Z.of_nat i) (Z.of_nat n) = Ok (down A d lt s i n)) /\
  (forall j, j < length s -> upL A lt s (Z.of_nat j) = Ok (up A d lt s j)) /\
  (forall i n, n <= length s -> i < n -> fixL A lt s (Z.of_nat i) (Z.of_nat n) = Ok (fix_ A d lt s i n)) /\
  buildL A lt s = Ok (build A d lt s).
Proof.
  intros s. split; [intros; apply downL_ok; auto|]. split; [intros; apply upL_ok; auto|].
  split; [intros; apply fixL_ok; auto|apply buildL_ok].
Qed.

(* the judge's boolean checks mean heap order / multiset equality / minimality *)
Lemma t_judge_meaning :
  (forall s, heap_okb A d lt s = true <-> heap_ok A d lt s (length s)) /\
  (forall a b, permb A eqb a b = true <-> Permutation a b) /\
  (forall x l, minimal A lt x l = true <-> forall y, In y l -> lt y x = false).
Proof.
  split; [exact (heap_okb_iff A d lt)|]. split; [exact (permb_iff A eqb eqb_spec)|exact (minimal_iff A lt)].
Qed.

Lemma t_pop_spec : forall s, 1 <= length s -> heap_ok A d lt s (length s) ->
  exists s' x, sl_pop A lt s = Ok (s', Some x) /\ std_pop A lt s = Ok (s', Some x) /\
    x = nth 0 s d /\ (forall y, In y s -> lt y x = false) /\ Permutation (x :: s') s /\
    length s' = length s - 1 /\ heap_ok A d lt s' (length s').
Proof.
  intros s H1 Hh. destruct (pop_arr_spec A d lt le_trans lt_asym s H1 Hh) as (L & N & Hh' & P & Hmin). cbv zeta in *.
  exists (firstn (length s - 1) (pop_arr A d lt s)), (nth (length s - 1) (pop_arr A d lt s) d).
  assert (Lr : length (firstn (length s - 1) (pop_arr A d lt s)) = length s - 1) by (rewrite firstn_length; lia).
  split; [apply sl_pop_ok; auto|]. split; [apply std_pop_ok; auto|]. split; [exact N|]. rewrite N.
  split; [intros y Hy; destruct (In_nth _ _ d Hy) as (j & Hj & <-); apply Hmin; exact Hj|].
  split; [exact P|]. split; [exact Lr|]. rewrite Lr. exact Hh'.
Qed.
Lemma t_remove_spec : forall s i, i < length s -> heap_ok A d lt s (length s) ->
  exists s', sl_remove A lt s (Z.of_nat i) = Ok (s', Some (nth i s d)) /\ std_remove A lt s (Z.of_nat i) = Ok (s', Some (nth i s d)) /\
    Permutation (nth i s d :: s') s /\ length s' = length s - 1 /\ heap_ok A d lt s' (length s').
Proof.
  intros s i Hi Hh. destruct (rem_arr_spec A d lt le_trans lt_asym s i Hi Hh) as (L & N & Hh' & P). cbv zeta in *.
  exists (firstn (length s - 1) (rem_arr A d lt s i)).
  assert (Lr : length (firstn (length s - 1) (rem_arr A d lt s i)) = length s - 1) by (rewrite firstn_length; lia).
  rewrite <- N. split; [apply sl_remove_ok; auto|]. split; [apply std_remove_ok; auto|]. rewrite N.
  split; [exact P|]. split; [exact Lr|]. rewrite Lr. exact Hh'.
Qed.
(* Fix(i) after Values[i] was overwritten by any x *)
Lemma t_fix_spec : forall s i x, i < length s -> heap_ok A d lt s (length s) ->
  exists s', sl_fix A lt (upd s i x) (Z.of_nat i) = Ok s' /\ std_fix A lt (upd s i x) (Z.of_nat i) = Ok s' /\
    Permutation s' (upd s i x) /\ heap_ok A d lt s' (length s').
Proof.
  intros s i x Hi Hh. assert (Lu : length (upd s i x) = length s) by apply upd_length.
  destruct (fix_spec A d lt le_trans lt_asym s (upd s i x) i Hi Hh Lu) as (H1 & H2 & H3).
  { intros j Hj Hji. apply nth_upd_ne. lia. }
  exists (fix_ A d lt (upd s i x) i (length (upd s i x))).
  split; [apply sl_fix_ok; lia|]. split; [apply std_fix_ok; lia|]. split; [exact H3|]. rewrite H2. exact H1.
Qed.
Lemma t_push_spec : forall s x, heap_ok A d lt s (length s) ->
  exists s', sl_push A lt s x = Ok s' /\ std_push A lt s x = Ok s' /\ Permutation s' (x :: s) /\ heap_ok A d lt s' (length s').
Proof.
  intros s x Hh. destruct (push_ok A d lt s x) as [E1 E2]. destruct (push_spec A d lt le_trans lt_asym s x Hh) as (H1 & H2 & H3).
  eexists. split; [exact E1|]. split; [exact E2|]. split; [exact H3|exact H1].
Qed.
Lemma t_popall_sorted : forall s k, heap_ok A d lt s (length s) ->
  exists l rest, popall A (S (length s)) (sl_pop A lt) s k [] = Ok (rest, l) /\
    heap_ok A d lt rest (length rest) /\ Permutation (l ++ rest) s /\ sortedb A lt l = true /\
    (forall x, In x l -> forall y, In y rest -> lt y x = false) /\
    length l = (if (k <=? 0)%Z then length s else Nat.min (Z.to_nat k) (length s)).
Proof.
  intros s k Hh. destruct (popall_spec A d lt le_trans lt_asym (S (length s)) s k [] ltac:(lia) Hh) as (l & rest & E & R).
  exists l, rest. split; [exact E|exact R].
Qed.
(* sortedb means: no later element precedes an earlier one *)
Lemma t_sorted_meaning : forall l, sortedb A lt l = true <->
  forall i j, i < j -> j < length l -> lt (nth j l d) (nth i l d) = false.
Proof.
  induction l as [|x t IH]; cbn [sortedb].
  - split; [intros _ i j _ Hj; cbn in Hj; lia|reflexivity].
  - rewrite andb_true_iff, IH, (minimal_iff A lt). split.
    + intros [Hm Hs] i j Hij Hj. destruct j as [|j]; [lia|]. cbn [length] in Hj. destruct i as [|i]; cbn [nth].
      * apply Hm. apply nth_In. lia.
      * apply Hs; lia.
    + intros H. split.
      * intros y Hy. destruct (In_nth _ _ d Hy) as (j & Hj & <-). apply (H 0 (S j)); cbn [length]; lia.
      * intros i j Hij Hj. apply (H (S i) (S j)); cbn [length]; lia.
Qed.

Lemma t_lcase_judged : forall std init ops, jl_case A d lt eqb std init ops (lcase A lt std init ops) = true.
Proof. exact (lcase_judged A d lt eqb eqb_spec le_trans lt_asym). Qed.
Lemma t_slice_total : forall init ops, exists tr, lcase A lt false init ops = Ok tr.
Proof. exact (slice_total A d lt). Qed.
End Statements.

(* the hypotheses are satisfiable: the comparator of the differential run (compare v*1000+id on v) *)
Definition keylt (a b : Z) : bool := (a / 1000 <? b / 1000)%Z.
Example keylt_swo : strict_weak_order Z keylt.
Proof.
  unfold keylt. split; [|split].
  - intros a. apply Z.ltb_irrefl.
  - intros a b c H1 H2. apply Z.ltb_lt in H1, H2. apply Z.ltb_lt. lia.
  - intros a b c [H1 H2] [H3 H4]. apply Z.ltb_ge in H1, H2, H3, H4. split; apply Z.ltb_ge; lia.
Qed.
Example zeqb_spec : forall a b : Z, Z.eqb a b = true <-> a = b.
Proof. exact Z.eqb_eq. Qed.
Lemma t_swo_iff : forall (A : Type) (lt : A -> A -> bool),
  strict_weak_order A lt <->
  (forall a b, lt a b = true -> lt b a = false) /\ (forall a b c, lt b a = false -> lt c b = false -> lt c a = false).
Proof.
  intros A lt. split.
  - intros H. split; [exact (swo_asym A lt H)|exact (swo_le_trans A lt H)].
  - intros [H1 H2]. apply swo_of_total_preorder; auto.
Qed.

(* ---- heapz.Heap (element handles) ---- *)
From V Require Import Proofs.HeapHandles Proofs.HeapHJudge.
Section HandleStatements.
Variable A : Type.
Variable d : A.
Variable lt : A -> A -> bool.
Variable eqb : A -> A -> bool.
Hypothesis swo : strict_weak_order A lt.
Hypothesis eqb_spec : forall a b, eqb a b = true <-> a = b.
Let lt_asym := swo_asym A lt swo.
Let le_trans := swo_le_trans A lt swo.

(* every operation sequence on two fresh heaps (handles of either heap, stale handles, unknown handles, re-pushed
   elements, Init on a used heap, PopAll cut short): no panic, no fuel exhaustion, accepted by the judge *)
Lemma t_hcase_judged : forall ops, forallb (hop_wf A) ops = true ->
  (exists tr, hcase A d lt ops = Ok tr) /\ jh_case A d lt eqb ops (hcase A d lt ops) = true.
Proof. exact (hcase_judged A d lt eqb eqb_spec le_trans lt_asym). Qed.

(* the invariant behind it, operation by operation: from any world in which every element of either heap caches
   its position and owner, every other element reports index -1 / owner nil, and both arrays are in heap order *)
Lemma t_hstep_invariant : forall w j o, WInv A d lt w -> J A w j -> hop_wf A o = true ->
  exists w' r j', hstep A d lt w o = Ok (w', r) /\ jh_step A d lt eqb j o r (map (eidx A) (wst A w')) = HGo A j' /\
                  WInv A d lt w' /\ J A w' j'.
Proof. exact (hstep_good A d lt eqb eqb_spec le_trans lt_asym). Qed.

(* Remove(e) on the heap that holds e: exactly e leaves, it then reports -1, everything else keeps its handle *)
Lemma t_remove_handle : forall h mine other st e,
  HS A d h mine other st -> Ord A d lt mine other st -> h = 0%Z \/ h = 1%Z -> In e mine ->
  exists mine' st', hp_remove A d lt h (mine, st) e = Ok (mine', st') /\
    HS A d h mine' other st' /\ Ord A d lt mine' other st' /\ Permutation (e :: mine') mine /\
    length st' = length st /\ (forall x, valof A d st' x = valof A d st x) /\ eidx A (getE A d st' e) = (-1)%Z.
Proof. exact (hp_remove_spec A d lt le_trans lt_asym). Qed.
(* stale handles, handles of the other heap, unknown handles: ignored *)
Lemma t_foreign_ignored : forall h mine other st e, HS A d h mine other st -> h = 0%Z \/ h = 1%Z -> ~ In e mine ->
  hp_remove A d lt h (mine, st) e = Ok (mine, st) /\ hp_fix A d lt h (mine, st) e = Ok (mine, st).
Proof. intros. split; [apply (hp_remove_ignored A d lt h mine other); auto|apply (hp_fix_ignored A d lt h mine other); auto]. Qed.
(* Fix(e) after e.Value changed *)
Lemma t_fix_handle : forall h mine other st e (val0 : nat -> A),
  HS A d h mine other st -> h = 0%Z \/ h = 1%Z -> In e mine ->
  (forall x, x <> e -> valof A d st x = val0 x) -> heap_ok nat 0 (ltE A lt val0) mine (length mine) ->
  heap_ok nat 0 (ltE A lt (valof A d st)) other (length other) ->
  exists mine' st', hp_fix A d lt h (mine, st) e = Ok (mine', st') /\
    HS A d h mine' other st' /\ Ord A d lt mine' other st' /\ Permutation mine' mine /\
    length st' = length st /\ (forall x, valof A d st' x = valof A d st x).
Proof. exact (hp_fix_spec A d lt le_trans lt_asym). Qed.
Lemma t_pop_handle : forall h mine other st, HS A d h mine other st -> Ord A d lt mine other st -> 1 <= length mine ->
  exists mine' st', hp_pop A d lt (mine, st) = Ok ((mine', st'), Z.of_nat (nth 0 mine 0)) /\
    HS A d h mine' other st' /\ Ord A d lt mine' other st' /\ Permutation (nth 0 mine 0 :: mine') mine /\
    (forall y, In y mine -> lt (valof A d st y) (valof A d st (nth 0 mine 0)) = false) /\
    length st' = length st /\ (forall x, valof A d st' x = valof A d st x) /\ eidx A (getE A d st' (nth 0 mine 0)) = (-1)%Z.
Proof. exact (hp_pop_spec A d lt le_trans lt_asym). Qed.
(* the reported indices of a world that satisfies the invariant pass the judge's view check *)
Lemma t_view_ok : forall w j, WInv A d lt w -> J A w j -> view_ok A d lt j (map (eidx A) (wst A w)) = true.
Proof. exact (view_ok_of A d lt). Qed.
End HandleStatements.
