(* C14: Chunk / ChunkProcess.  The loop of len/chunkSize full pieces plus the rest produces exactly [spec_chunks]
   (windows on the argument, no copy); ChunkProcess hands the same pieces to the callback, in order, up to and
   including the first one it rejects.  [chunk_laws] says what [spec_chunks] is: concatenation = input, no empty
   piece, every piece but the last of the requested size, the last one not longer.
   (from design-notes/proto/ChunkIPv4_proto.v, chunk part) *)
From Coq Require Import List ZArith Bool Arith Lia.
From V Require Import Model.Slices Proofs.SlicesBase Proofs.SlicesClamp.
Import ListNotations.

Fixpoint pieces (n sz : nat) (r : list Z) : list (list Z) :=
  match n with O => [] | S k => firstn sz r :: pieces k sz (skipn sz r) end.
(* the slices of the loop: n windows of sz elements from start on *)
Fixpoint ps (s : slice) (sz n start : nat) : list slice :=
  match n with O => [] | S k => mkS (arr s) (off s + start) sz (cap s - start) :: ps s sz k (start + sz) end.

Lemma chunks_fuel_nil fuel sz : chunks_fuel fuel sz [] = [].
Proof. destruct fuel; reflexivity. Qed.
Lemma pieces_length n sz r : length (pieces n sz r) = n.
Proof. revert r; induction n as [|n IH]; intros r; cbn [pieces length]; auto. Qed.
Lemma ps_length s sz n start : length (ps s sz n start) = n.
Proof. revert start; induction n as [|n IH]; intros start; cbn [ps length]; auto. Qed.

Lemma chunks_fuel_pieces sz : 0 < sz -> forall q r fuel rem,
  length r = q * sz + rem -> rem < sz -> length r <= fuel ->
  chunks_fuel fuel sz r = pieces q sz r ++ (if rem =? 0 then [] else [skipn (q * sz) r]).
Proof.
  intros Hs. induction q as [|q IH]; intros r fuel rem Hl Hr Hf.
  - cbn [pieces Nat.mul Nat.add app skipn] in *. destruct (Nat.eqb_spec rem 0) as [E|E].
    + destruct r; [apply chunks_fuel_nil|cbn [length] in Hl; lia].
    + destruct fuel; [lia|]. destruct r as [|x r]; [cbn [length] in Hl; lia|]. cbn [chunks_fuel].
      rewrite firstn_all2 by lia. rewrite skipn_all2 by lia. rewrite chunks_fuel_nil. reflexivity.
  - destruct fuel; [nia|]. destruct r as [|x r]; [cbn [length] in Hl; nia|]. cbn [chunks_fuel pieces].
    set (r0 := x :: r) in *. cbn [app]. f_equal.
    rewrite (IH (skipn sz r0) fuel rem); try (rewrite skipn_length; nia); try exact Hr.
    f_equal. destruct (rem =? 0); [reflexivity|]. f_equal. rewrite skipn_skipn. f_equal; lia.
Qed.
Lemma firstn_plus {A} (l : list A) n k : firstn (n + k) l = firstn n l ++ firstn k (skipn n l).
Proof.
  revert l; induction n as [|n IH]; intros l; [reflexivity|].
  destruct l; [cbn [Nat.add firstn skipn app]; rewrite firstn_nil; reflexivity|].
  cbn [Nat.add firstn skipn app]. f_equal. apply IH.
Qed.
Lemma concat_pieces q sz r : concat (pieces q sz r) = firstn (q * sz) r.
Proof.
  revert r; induction q as [|q IH]; intros r; cbn [pieces concat Nat.mul]; [reflexivity|].
  rewrite IH. symmetry. apply firstn_plus.
Qed.
Lemma pieces_sizes q sz r : q * sz <= length r -> Forall (fun c => length c = sz) (pieces q sz r).
Proof.
  revert r; induction q as [|q IH]; intros r H; cbn [pieces]; constructor.
  - rewrite firstn_length. nia.
  - apply IH. rewrite skipn_length. nia.
Qed.

(* ---- what spec_chunks is *)
Theorem chunk_laws (l : list Z) (size : Z) :
  let cs := spec_chunks size l in
  concat cs = l /\ Forall (fun c => c <> []) cs /\
  ((1 <= size)%Z ->
     (forall i, i + 1 < length cs -> Z.of_nat (length (nth i cs [])) = size) /\
     (forall c, In c cs -> (Z.of_nat (length c) <= size)%Z)).
Proof.
  cbv zeta. unfold spec_chunks. destruct l as [|x l0]; [repeat split; auto; try constructor; intros; cbn in *; try lia; tauto|].
  set (l := x :: l0). assert (Hne : l <> []) by discriminate. assert (Hlen : 0 < length l) by (cbn; lia).
  destruct (Z.ltb_spec size 1) as [H1|H1].
  - cbn [concat]. rewrite app_nil_r. repeat split; auto; lia.
  - set (sz := Z.to_nat (Z.min size (Z.of_nat (length l)))). assert (Hsz : 0 < sz <= length l) by (unfold sz; lia).
    set (q := length l / sz). set (rem := length l mod sz).
    pose proof (Nat.div_mod (length l) sz ltac:(lia)) as Dm. pose proof (Nat.mod_upper_bound (length l) sz ltac:(lia)) as Mb.
    fold q rem in Dm, Mb.
    rewrite (chunks_fuel_pieces sz ltac:(lia) q l (length l) rem) by lia.
    assert (Hq : 1 <= q) by (unfold q; apply Nat.div_le_lower_bound; lia).
    assert (Fs := pieces_sizes q sz l ltac:(nia)).
    split; [|split; [|intros _; split]].
    + rewrite concat_app, concat_pieces. destruct (Nat.eqb_spec rem 0) as [E|E]; cbn [concat]; rewrite ?app_nil_r.
      * apply firstn_all2. nia.
      * apply firstn_skipn.
    + apply Forall_app. split.
      * eapply Forall_impl; [|exact Fs]. cbv beta. intros c Hc ->. cbn in Hc. lia.
      * destruct (Nat.eqb_spec rem 0) as [E|E]; constructor; auto. intros E'.
        apply (f_equal (@length Z)) in E'. rewrite skipn_length in E'. change (length (@nil Z)) with 0 in E'. nia.
    + intros i Hi. rewrite app_length, pieces_length in Hi.
      assert (Hiq : i < q) by (destruct (rem =? 0); cbn [length] in Hi; lia).
      rewrite app_nth1 by (rewrite pieces_length; exact Hiq).
      rewrite Forall_forall in Fs. rewrite (Fs (nth i (pieces q sz l) [])) by (apply nth_In; rewrite pieces_length; exact Hiq).
      (* a piece in front of another one can only exist when size < len *)
      destruct (Z.leb_spec size (Z.of_nat (length l))) as [Hle|Hgt]; [unfold sz; lia|].
      exfalso. assert (sz = length l) by (unfold sz; lia). assert (q = 1) by (unfold q; subst sz; rewrite H; apply Nat.div_same; lia).
      assert (rem = 0) by nia. rewrite H2 in Hi. cbn [Nat.eqb length] in Hi. lia.
    + intros c Hc. apply in_app_or in Hc. destruct Hc as [Hc|Hc].
      * rewrite Forall_forall in Fs. rewrite (Fs c Hc). unfold sz. lia.
      * destruct (Nat.eqb_spec rem 0) as [E|E]; [destruct Hc|]. destruct Hc as [<-|[]].
        rewrite skipn_length. unfold sz in *. lia.
Qed.

(* ---- the Go loops *)
Section Loops.
Variable m : mem.
Variable s : slice.
Hypothesis W : wfs m s.
Variable sz : nat.
Hypothesis Hsz : 0 < sz.
Local Notation size := (Z.of_nat sz).

Lemma reslice_piece start : start + sz <= cap s ->
  reslice s (Z.of_nat start) (Z.of_nat start + size) = Some (mkS (arr s) (off s + start) sz (cap s - start)).
Proof.
  intros H. destruct (reslice_ok m s (Z.of_nat start) (Z.of_nat start + size) W) as (r & E & _ & R & _); try lia.
  rewrite E, R. f_equal. f_equal; lia.
Qed.

Lemma chunk_loop_ps : forall n start acc, start + n * sz <= cap s ->
  chunk_loop s size n (Z.of_nat start) acc = Some (acc ++ ps s sz n start, Z.of_nat (start + n * sz)).
Proof.
  induction n as [|n IH]; intros start acc H; cbn [chunk_loop ps].
  - rewrite app_nil_r. do 3 f_equal. lia.
  - rewrite reslice_piece by nia. replace (Z.of_nat start + size)%Z with (Z.of_nat (start + sz)) by lia.
    rewrite IH by nia. rewrite <- app_assoc. cbn [app]. do 3 f_equal. lia.
Qed.

Lemma cp_loop_ps fail_at : forall n start calls, start + n * sz <= cap s ->
  let k := (fail_at - Z.of_nat (length calls))%Z in
  if ((1 <=? k) && (k <=? Z.of_nat n))%Z
  then exists e, cp_loop fail_at s size n (Z.of_nat start) calls = Some (calls ++ firstn (Z.to_nat k) (ps s sz n start), e, true)
  else cp_loop fail_at s size n (Z.of_nat start) calls = Some (calls ++ ps s sz n start, Z.of_nat (start + n * sz), false).
Proof.
  induction n as [|n IH]; intros start calls H; cbv zeta; cbn [cp_loop ps].
  - destruct (Z.leb_spec 1 (fail_at - Z.of_nat (length calls))), (Z.leb_spec (fail_at - Z.of_nat (length calls)) (Z.of_nat 0)); cbn [andb]; try lia;
      rewrite app_nil_r; do 3 f_equal; lia.
  - rewrite reslice_piece by nia. unfold process.
    set (c := mkS (arr s) (off s + start) sz (cap s - start)).
    destruct (Z.eqb_spec (Z.of_nat (length calls) + 1) fail_at) as [Ef|Ef].
    + replace (fail_at - Z.of_nat (length calls))%Z with 1%Z by lia.
      destruct (Z.leb_spec 1 (Z.of_nat (S n))); [|lia]. cbn [Z.leb andb Z.to_nat Pos.to_nat Pos.iter_op Nat.add firstn].
      eexists. reflexivity.
    + specialize (IH (start + sz) (calls ++ [c]) ltac:(nia)). cbv zeta in IH.
      rewrite app_length in IH. cbn [length] in IH.
      replace (Z.of_nat start + size)%Z with (Z.of_nat (start + sz)) by lia.
      set (k := (fail_at - Z.of_nat (length calls))%Z) in *.
      replace (fail_at - Z.of_nat (length calls + 1))%Z with (k - 1)%Z in IH by lia.
      destruct (Z.leb_spec 1 (k - 1)), (Z.leb_spec (k - 1) (Z.of_nat n)); cbn [andb] in IH.
      * destruct (Z.leb_spec 1 k), (Z.leb_spec k (Z.of_nat (S n))); cbn [andb]; try lia.
        destruct IH as (e & IH). exists e. rewrite IH. rewrite <- app_assoc. cbn [app].
        replace (Z.to_nat k) with (S (Z.to_nat (k - 1))) by lia. reflexivity.
      * destruct (Z.leb_spec 1 k), (Z.leb_spec k (Z.of_nat (S n))); cbn [andb]; try lia.
        rewrite IH. rewrite <- app_assoc. cbn [app]. do 3 f_equal. lia.
      * destruct (Z.leb_spec 1 k), (Z.leb_spec k (Z.of_nat (S n))); cbn [andb]; try lia;
        rewrite IH; rewrite <- app_assoc; cbn [app]; do 3 f_equal; lia.
      * destruct (Z.leb_spec 1 k), (Z.leb_spec k (Z.of_nat (S n))); cbn [andb]; try lia;
        rewrite IH; rewrite <- app_assoc; cbn [app]; do 3 f_equal; lia.
Qed.

Lemma ps_vals : forall n start, start + n * sz <= len s ->
  map (slice_vals m) (ps s sz n start) = pieces n sz (skipn start (slice_vals m s)) /\
  Forall (wfs m) (ps s sz n start).
Proof.
  destruct W as (W1 & W2 & W3).
  induction n as [|n IH]; intros start H; cbn [ps pieces map]; [split; [reflexivity|constructor]|].
  destruct (IH (start + sz) ltac:(nia)) as (IH1 & IH2). split.
  - f_equal.
    + unfold slice_vals. cbn [arr off len]. rewrite skipn_window. rewrite window_firstn by nia. reflexivity.
    + rewrite IH1. rewrite skipn_skipn. reflexivity.
  - constructor; [|exact IH2]. unfold wfs. cbn [arr off len cap]. repeat split; nia.
Qed.
End Loops.

(* the single-piece results: the whole slice *)
Lemma spec_chunks_single (l : list Z) size : l <> [] -> (size < 1 \/ Z.of_nat (length l) <= size)%Z -> spec_chunks size l = [l].
Proof.
  intros Hne H. unfold spec_chunks. destruct l as [|x l0]; [congruence|]. set (l := x :: l0) in *.
  destruct (Z.ltb_spec size 1) as [H1|H1]; [reflexivity|]. destruct H as [H|H]; [lia|].
  replace (Z.to_nat (Z.min size (Z.of_nat (length l)))) with (length l) by lia.
  assert (Hl : 0 < length l) by (cbn; lia).
  rewrite (chunks_fuel_pieces (length l) Hl 1 l (length l) 0) by lia. cbn [pieces Nat.eqb app].
  rewrite firstn_all. reflexivity.
Qed.

Lemma div_nat (l size : Z) : (0 <= l)%Z -> (1 <= size)%Z ->
  let q := Z.to_nat (l / size) in let sz := Z.to_nat size in
  Z.to_nat l = q * sz + (Z.to_nat l - q * sz) /\ Z.to_nat l - q * sz < sz /\ (l / size = Z.of_nat q)%Z.
Proof.
  intros Hl Hs. cbv zeta. pose proof (Z.div_mod l size ltac:(lia)) as Dm. pose proof (Z.mod_pos_bound l size ltac:(lia)) as Mb.
  assert (0 <= l / size)%Z by (apply Z.div_pos; lia). nia.
Qed.

Theorem go_chunk_spec m s size : wfs m s ->
  exists ocap cs, go_chunk s size = Some ((len s =? 0)%nat, ocap, cs) /\
    map (slice_vals m) cs = spec_chunks size (slice_vals m s) /\ Forall (wfs m) cs.
Proof.
  intros W. pose proof W as (W1 & W2 & W3). pose proof (slice_vals_length m s W) as Hl.
  unfold go_chunk. destruct (Z.eqb_spec (Z.of_nat (len s)) 0) as [H0|H0].
  - destruct (Nat.eqb_spec (len s) 0); [|lia]. exists 0%Z, []. split; [reflexivity|]. split; [|constructor].
    destruct (slice_vals m s); [reflexivity|cbn [length] in Hl; lia].
  - destruct (Nat.eqb_spec (len s) 0); [lia|].
    assert (Hne : slice_vals m s <> []) by (intros E; rewrite E in Hl; cbn in Hl; lia).
    destruct (Z.ltb_spec size 1) as [H1|H1]; cbn [orb].
    { exists 1%Z, [s]. split; [reflexivity|]. split; [|constructor; auto]. cbn [map]. symmetry. apply spec_chunks_single; auto. }
    destruct (Z.leb_spec (Z.of_nat (len s)) size) as [H2|H2].
    { exists 1%Z, [s]. split; [reflexivity|]. split; [|constructor; auto]. cbn [map]. symmetry. apply spec_chunks_single; auto. lia. }
    set (sz := Z.to_nat size). assert (Hsz : 0 < sz) by (unfold sz; lia).
    destruct (div_nat (Z.of_nat (len s)) size ltac:(lia) H1) as (D1 & D2 & D3). fold sz in D1, D2.
    set (q := Z.to_nat (Z.of_nat (len s) / size)) in *. rewrite Nat2Z.id in D1, D2.
    pose proof (chunk_loop_ps m s W sz Hsz q 0 [] ltac:(lia)) as CL. cbn [app Nat.add] in CL.
    replace (Z.of_nat sz) with size in CL by (unfold sz; lia). change (Z.of_nat 0) with 0%Z in CL. rewrite CL.
    destruct (ps_vals m s W sz Hsz q 0 ltac:(lia)) as (V1 & V2). cbn [skipn] in V1.
    unfold spec_chunks. destruct (slice_vals m s) as [|x l0] eqn:El; [congruence|]. rewrite <- El in *.
    destruct (Z.ltb_spec size 1); [lia|].
    replace (Z.to_nat (Z.min size (Z.of_nat (length (slice_vals m s))))) with sz by (unfold sz; lia).
    rewrite (chunks_fuel_pieces sz Hsz q (slice_vals m s) _ (len s - q * sz)) by lia.
    destruct (Z.gtb_spec (Z.of_nat (len s)) (Z.of_nat (q * sz))) as [Hr|Hr].
    + destruct (reslice_ok m s (Z.of_nat (q * sz)) (Z.of_nat (len s)) W) as (c & Ec & Wc & _ & Vc); try lia.
      rewrite Ec. eexists _, _. split; [reflexivity|]. split.
      * rewrite map_app, V1. cbn [map]. destruct (Nat.eqb_spec (len s - q * sz) 0); [lia|]. do 2 f_equal.
        rewrite Vc. unfold slice_vals. rewrite skipn_window. f_equal; lia.
      * apply Forall_app. split; [exact V2|constructor; auto].
    + eexists _, _. split; [reflexivity|]. split; [|exact V2].
      rewrite V1. destruct (Nat.eqb_spec (len s - q * sz) 0); [|lia]. rewrite app_nil_r. reflexivity.
Qed.

Theorem go_chunk_process_spec fail_at m s size : wfs m s ->
  let cs := spec_chunks size (slice_vals m s) in
  let failed := ((1 <=? fail_at) && (fail_at <=? Z.of_nat (length cs)))%Z in
  exists calls, go_chunk_process fail_at s size = Some (calls, failed) /\
    map (slice_vals m) calls = (if failed then firstn (Z.to_nat fail_at) cs else cs).
Proof.
  intros W. pose proof W as (W1 & W2 & W3). pose proof (slice_vals_length m s W) as Hl. cbv zeta.
  unfold go_chunk_process. destruct (Z.eqb_spec (Z.of_nat (len s)) 0) as [H0|H0].
  - assert (E : slice_vals m s = []) by (destruct (slice_vals m s); [reflexivity|cbn [length] in Hl; lia]).
    rewrite E. cbn [spec_chunks length]. exists [].
    destruct (Z.leb_spec 1 fail_at), (Z.leb_spec fail_at (Z.of_nat 0)); cbn [andb]; try lia; split; reflexivity.
  - assert (Hne : slice_vals m s <> []) by (intros E; rewrite E in Hl; cbn in Hl; lia).
    assert (Single : (size < 1 \/ Z.of_nat (len s) <= size)%Z ->
      exists calls, Some (process fail_at [] s) =
         Some (calls, ((1 <=? fail_at) && (fail_at <=? Z.of_nat (length (spec_chunks size (slice_vals m s)))))%Z) /\
         map (slice_vals m) calls = (if ((1 <=? fail_at) && (fail_at <=? Z.of_nat (length (spec_chunks size (slice_vals m s)))))%Z
                                     then firstn (Z.to_nat fail_at) (spec_chunks size (slice_vals m s)) else spec_chunks size (slice_vals m s))).
    { intros H. rewrite spec_chunks_single by (auto; lia). unfold process.
      change (Z.of_nat (length [slice_vals m s])) with 1%Z. change (Z.of_nat (length (@nil slice)) + 1)%Z with 1%Z.
      cbn [app]. exists [s]. split.
      - do 2 f_equal. destruct (Z.eqb_spec 1 fail_at), (Z.leb_spec 1 fail_at), (Z.leb_spec fail_at 1); cbn [andb]; try lia; reflexivity.
      - cbn [map]. destruct (Z.leb_spec 1 fail_at), (Z.leb_spec fail_at 1); cbn [andb]; try reflexivity.
        replace (Z.to_nat fail_at) with 1 by lia. reflexivity. }
    destruct (Z.ltb_spec size 1) as [H1|H1]; cbn [orb]; [apply Single; lia|].
    destruct (Z.leb_spec (Z.of_nat (len s)) size) as [H2|H2]; [apply Single; lia|]. clear Single.
    set (sz := Z.to_nat size). assert (Hsz : 0 < sz) by (unfold sz; lia).
    destruct (div_nat (Z.of_nat (len s)) size ltac:(lia) H1) as (D1 & D2 & D3). fold sz in D1, D2.
    set (q := Z.to_nat (Z.of_nat (len s) / size)) in *. rewrite Nat2Z.id in D1, D2.
    (* the specification's chunks *)
    destruct (ps_vals m s W sz Hsz q 0 ltac:(lia)) as (V1 & V2). cbn [skipn] in V1.
    assert (Ecs : spec_chunks size (slice_vals m s) =
                  pieces q sz (slice_vals m s) ++ (if (len s - q * sz =? 0)%nat then [] else [skipn (q * sz) (slice_vals m s)])).
    { unfold spec_chunks. destruct (slice_vals m s) as [|x l0] eqn:El; [congruence|]. rewrite <- El in *.
      destruct (Z.ltb_spec size 1); [lia|].
      replace (Z.to_nat (Z.min size (Z.of_nat (length (slice_vals m s))))) with sz by (unfold sz; lia).
      apply (chunks_fuel_pieces sz Hsz q (slice_vals m s) _ (len s - q * sz)); lia. }
    rewrite Ecs. rewrite app_length, pieces_length.
    pose proof (cp_loop_ps m s W sz Hsz fail_at q 0 [] ltac:(lia)) as CP. cbv zeta in CP. cbn [length app Nat.add] in CP.
    rewrite Z.sub_0_r in CP. replace (Z.of_nat sz) with size in CP by (unfold sz; lia). change (Z.of_nat 0) with 0%Z in CP.
    destruct (Z.leb_spec 1 fail_at) as [F1|F1]; cbn [andb] in *.
    2:{ rewrite CP. destruct (Z.gtb_spec (Z.of_nat (len s)) (Z.of_nat (q * sz))) as [Hr|Hr].
        - destruct (reslice_ok m s (Z.of_nat (q * sz)) (Z.of_nat (len s)) W) as (c & Ec & Wc & _ & Vc); try lia.
          rewrite Ec. unfold process. rewrite ps_length. destruct (Z.eqb_spec (Z.of_nat q + 1) fail_at); [lia|].
          eexists. split; [reflexivity|]. rewrite map_app, V1. cbn [map]. destruct (Nat.eqb_spec (len s - q * sz) 0); [lia|]. do 2 f_equal.
          rewrite Vc. unfold slice_vals. rewrite skipn_window. f_equal; lia.
        - eexists. split; [reflexivity|]. rewrite V1. destruct (Nat.eqb_spec (len s - q * sz) 0); [|lia]. rewrite app_nil_r. reflexivity. }
    destruct (Z.leb_spec fail_at (Z.of_nat q)) as [F2|F2]; cbn [andb] in CP.
    + destruct CP as (e & CP). rewrite CP.
      destruct (Z.leb_spec fail_at (Z.of_nat (q + length (if (len s - q * sz =? 0)%nat then [] else [skipn (q * sz) (slice_vals m s)])))); [|lia].
      eexists. split; [reflexivity|]. rewrite <- firstn_map, V1. rewrite firstn_app, pieces_length.
      replace (Z.to_nat fail_at - q) with 0 by lia. cbn [firstn]. rewrite app_nil_r. reflexivity.
    + rewrite CP. destruct (Z.gtb_spec (Z.of_nat (len s)) (Z.of_nat (q * sz))) as [Hr|Hr].
      * destruct (reslice_ok m s (Z.of_nat (q * sz)) (Z.of_nat (len s)) W) as (c & Ec & Wc & _ & Vc); try lia.
        rewrite Ec. unfold process. rewrite ps_length.
        destruct (Nat.eqb_spec (len s - q * sz) 0); [lia|]. cbn [length].
        assert (Vall : map (slice_vals m) (ps s sz q 0 ++ [c]) = pieces q sz (slice_vals m s) ++ [skipn (q * sz) (slice_vals m s)]).
        { rewrite map_app, V1. cbn [map]. do 2 f_equal. rewrite Vc. unfold slice_vals. rewrite skipn_window. f_equal; lia. }
        destruct (Z.eqb_spec (Z.of_nat q + 1) fail_at) as [Ef|Ef].
        -- destruct (Z.leb_spec fail_at (Z.of_nat (q + 1))); [|lia]. eexists. split; [reflexivity|]. rewrite Vall.
           rewrite firstn_all2; [reflexivity|]. rewrite app_length, pieces_length. cbn [length]. lia.
        -- destruct (Z.leb_spec fail_at (Z.of_nat (q + 1))); [lia|]. eexists. split; [reflexivity|]. exact Vall.
      * destruct (Nat.eqb_spec (len s - q * sz) 0); [|lia]. cbn [length]. rewrite Nat.add_0_r.
        destruct (Z.leb_spec fail_at (Z.of_nat q)); [lia|]. eexists. split; [reflexivity|]. rewrite V1, app_nil_r. reflexivity.
Qed.
