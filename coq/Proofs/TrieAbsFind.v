From Coq Require Import List ZArith Lia Bool Arith.
Import ListNotations.
From V Require Import Model.Trie Proofs.TrieAbs.

(* algz.Trie.find / FindAll (trie.go:96-118, 330-358) at the rune level: one scope per (pattern, position)
   occurrence, composed from walk_states and outputs_complete. *)
Section FindAll.
Variable inT : word -> bool.
Variable kids : word -> list Z.
Hypothesis inT_nil : inT [] = true.
Hypothesis inT_prefix : forall w c, inT (w ++ [c]) = true -> inT w = true.
Hypothesis kids_spec : forall w c, In c (kids w) <-> inT (w ++ [c]) = true.
Variable isEnd : word -> bool.                     (* node.isEnd: the word was inserted as a pattern *)
Hypothesis isEnd_inT : forall w, isEnd w = true -> inT w = true /\ w <> [].
Notation walk := (walk inT).
Notation chain := (chain inT).
Notation lsuf := (lsuf inT).

(* for every consumed rune: node = goto(node, r); then the fail chain from node reports its end-of-pattern nodes
   as scope {i - size, i} *)
Definition emit (k : nat) (u : word) : list (nat * nat) :=
  map (fun w => (k - length w, k)) (filter isEnd (chain (S k) u)).
Definition find (text : word) : list (nat * nat) :=
  concat (map (fun '(k, u) => emit k u) (combine (seq 1 (length text)) (walk [] text))).

Definition occ_at (text : word) (k : nat) : list (nat * nat) :=
  map (fun w => (k - length w, k)) (filter isEnd (suffixes (firstn k text))).

Lemma lsuf_nil : lsuf [] = [].
Proof. unfold TrieAbs.lsuf. cbn. rewrite inT_nil. reflexivity. Qed.

Lemma filter_isEnd l : filter isEnd (filter nonempty (filter inT l)) = filter isEnd l.
Proof.
  induction l as [|w l IH]; cbn [filter]; [reflexivity|]. destruct (isEnd w) eqn:E.
  - destruct (isEnd_inT w E) as [H1 H2]. rewrite H1. cbn [filter]. destruct w; [congruence|]. cbn [nonempty filter]. rewrite E. f_equal. exact IH.
  - destruct (inT w); cbn [filter]; [destruct (nonempty w); cbn [filter]; rewrite ?E|]; exact IH.
Qed.

Theorem find_spec text : find text = concat (map (occ_at text) (seq 1 (length text))).
Proof.
  unfold find. rewrite <- lsuf_nil at 1. rewrite (walk_states inT inT_nil inT_prefix). cbn [app].
  f_equal. generalize (seq 1 (length text)) as ks. induction ks as [|k ks IH]; cbn [map combine]; [reflexivity|]. f_equal; [|exact IH].
  unfold emit, occ_at. f_equal.
  assert (Hlen : length (firstn k text) <= k) by (rewrite firstn_length; lia).
  pose proof (outputs_complete inT inT_nil (firstn k text)) as O.
  (* the code's chain has fuel S k >= S (length prefix): more fuel changes nothing once the root is reached *)
  assert (Hfuel : forall f1 f2 u, length u < f1 -> length u < f2 -> inT u = true -> chain f1 u = chain f2 u)
    by (intros f1 f2 u H1 H2 Hu; rewrite !(chain_spec inT inT_nil) by auto; reflexivity).
  assert (Hin : inT (lsuf (firstn k text)) = true /\ length (lsuf (firstn k text)) <= length (firstn k text)).
  { unfold TrieAbs.lsuf. destruct (best_inT_some inT inT_nil (firstn k text)) as [v0 Hv0]. rewrite Hv0. split.
    - clear -Hv0 inT_nil. revert v0 Hv0. induction (firstn k text) as [|b t IHt]; cbn [best]; intros v0 H.
      + rewrite inT_nil in H. inversion H; subst. exact inT_nil.
      + destruct (inT (b :: t)) eqn:E; [inversion H; subst; exact E|apply IHt, H].
    - apply (best_length inT) in Hv0. exact Hv0. }
  rewrite (Hfuel (S k) (S (length (firstn k text)))) by (try tauto; lia). rewrite O. apply filter_isEnd.
Qed.

(* every (pattern, position) occurrence, and nothing else *)
Corollary find_complete_sound text s e :
  In (s, e) (find text) <-> 1 <= e <= length text /\ s < e /\ isEnd (firstn (e - s) (skipn s text)) = true.
Proof.
  rewrite find_spec, in_concat. split.
  - intros (l & Hl & Hin). apply in_map_iff in Hl. destruct Hl as (k & <- & Hk). apply in_seq in Hk.
    unfold occ_at in Hin. apply in_map_iff in Hin. destruct Hin as (w & E & Hw). injection E as Es Ee. subst k.
    apply filter_In in Hw. destruct Hw as [Hs He]. apply suffixes_spec in Hs. destruct Hs as (p & Hp).
    destruct (isEnd_inT w He) as [_ Hne].
    assert (Hl : length (firstn e text) = e) by (rewrite firstn_length; lia).
    assert (Hlw : length p + length w = e) by (rewrite <- Hl, Hp, app_length; reflexivity).
    assert (0 < length w) by (destruct w; [congruence|cbn; lia]).
    split; [lia|]. split; [lia|]. subst s.
    replace (e - (e - length w)) with (length w) by lia. replace (e - length w) with (length p) by lia.
    assert (Et : text = p ++ w ++ skipn e text) by (rewrite <- (firstn_skipn e text) at 1; rewrite Hp, <- app_assoc; reflexivity).
    rewrite Et at 1. rewrite skipn_app, skipn_all, Nat.sub_diag. cbn [skipn app].
    rewrite firstn_app, Nat.sub_diag, firstn_all. cbn [firstn]. rewrite app_nil_r. exact He.
  - intros (He & Hs & Hend). exists (occ_at text e). split; [apply in_map, in_seq; lia|].
    unfold occ_at. apply in_map_iff. exists (firstn (e - s) (skipn s text)).
    assert (Hlen : length (firstn (e - s) (skipn s text)) = e - s) by (rewrite firstn_length, skipn_length; lia).
    split; [rewrite Hlen; f_equal; lia|]. apply filter_In. split; auto. apply suffixes_spec. exists (firstn s text).
    rewrite <- (firstn_skipn s (firstn e text)) at 1. rewrite firstn_firstn, Nat.min_l by lia. f_equal.
    rewrite skipn_firstn_comm. reflexivity.
Qed.

(* ... each exactly once *)
Lemma suffixes_lengths_nodup (w : word) : NoDup (map (@length Z) (suffixes w)).
Proof.
  induction w as [|a w IH]; cbn [suffixes map]; [constructor; [intros []|constructor]|].
  constructor; auto. intros Hin. apply in_map_iff in Hin. destruct Hin as (u & Hl & Hu).
  apply suffixes_length_sorted in Hu. cbn [length] in Hl. lia.
Qed.
Lemma nodup_map_filter {A B} (f : A -> B) (P : A -> bool) l : NoDup (map f l) -> NoDup (map f (filter P l)).
Proof.
  induction l as [|a l IH]; cbn [map filter]; intros H; [constructor|]. inversion H as [|? ? Hn Hd]; subst.
  destruct (P a); auto. cbn [map]. constructor; auto. intros Hin. apply Hn. apply in_map_iff in Hin. destruct Hin as (x & E & Hx).
  apply in_map_iff. exists x. split; auto. apply filter_In in Hx. tauto.
Qed.
Lemma nodup_app {A} (a b : list A) : NoDup a -> NoDup b -> (forall x, In x a -> In x b -> False) -> NoDup (a ++ b).
Proof.
  induction a as [|x a IH]; intros Ha Hb Hd; cbn [app]; auto. inversion Ha; subst. constructor.
  - intros Hin. apply in_app_or in Hin. destruct Hin as [Hin|Hin]; [contradiction|]. apply (Hd x); auto. left; auto.
  - apply IH; auto. intros y Hy1 Hy2. apply (Hd y); auto. right; auto.
Qed.
Theorem find_once text : NoDup (find text).
Proof.
  rewrite find_spec.
  assert (G : forall ks, NoDup ks -> NoDup (concat (map (occ_at text) ks))).
  { induction ks as [|k ks IH]; intros Hnd; cbn [map concat]; [constructor|]. inversion Hnd as [|? ? Hnk Hnd']; subst.
    apply nodup_app.
    - unfold occ_at. set (l := filter isEnd (suffixes (firstn k text))).
      assert (Hl : NoDup (map (@length Z) l)) by (apply nodup_map_filter, suffixes_lengths_nodup).
      assert (Hb : forall w, In w l -> length w <= k).
      { intros w Hw. apply filter_In in Hw. destruct Hw as [Hw _]. apply suffixes_length_sorted in Hw. rewrite firstn_length in Hw. lia. }
      clear -Hl Hb. induction l as [|w l IHl]; cbn [map]; [constructor|]. inversion Hl as [|? ? Hn Hd]; subst. constructor.
      + intros Hin. apply in_map_iff in Hin. destruct Hin as (u & E & Hu). injection E as E. apply Hn. apply in_map_iff. exists u. split; auto.
        pose proof (Hb u (or_intror Hu)). pose proof (Hb w (or_introl eq_refl)). lia.
      + apply IHl; auto. intros u Hu. apply Hb. right; auto.
    - apply IH; auto.
    - intros [s e] H1 H2. apply in_concat in H2. destruct H2 as (l & Hl & Hin). apply in_map_iff in Hl. destruct Hl as (k' & <- & Hk').
      unfold occ_at in H1, Hin. apply in_map_iff in H1. apply in_map_iff in Hin. destruct H1 as (w1 & E1 & _). destruct Hin as (w2 & E2 & _).
      inversion E1; inversion E2; subst. contradiction. }
  apply G, seq_NoDup.
Qed.
End FindAll.
