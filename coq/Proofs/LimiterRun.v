(* C19: the run-level functions of Run/C19.v. *)
From Coq Require Import List ZArith Bool Arith Lia.
From V Require Import Lib.Enc Gen.ConstsGoz Model.Limiter Run.C19.
Import ListNotations.
Local Open Scope Z_scope.

(* family 2: the model of Recover (run_cleanups stops at the first panicking cleanup) produces exactly what the
   independent statement describes, for every handler setting, fn outcome and cleanup list *)
Lemma run_cleanups_spec hnil : forall cs i,
  flat_map enc_rev (filter (fun e => negb (hnil && is_handler e)) (run_cleanups i (map outcome cs))) =
  flat_map (fun j => [3; Z.of_nat j; 0]) (seq i (match first_panic i cs with Some (j, _) => S j - i | None => length cs end)%nat) ++
  match first_panic i cs with Some (j, w) => if hnil then [] else [4; Z.of_nat j; w] | None => [] end.
Proof.
  induction cs as [|c t IH]; intros i; cbn [map run_cleanups first_panic length]; [reflexivity|].
  unfold outcome at 1. destruct (Z.leb_spec c 0).
  - cbn [filter is_handler andb negb]. rewrite Bool.andb_false_r. cbn [negb flat_map enc_rev]. rewrite IH.
    destruct (first_panic (S i) t) as [[j w]|] eqn:E.
    + assert (S i <= j)%nat.
      { clear -E. revert i E. induction t as [|c' t' IHt]; intros i E; cbn [first_panic] in E; [discriminate|].
        destruct (c' <=? 0); [apply IHt in E; lia|inversion E; lia]. }
      replace (S j - i)%nat with (S (S j - S i)) by lia. cbn [seq flat_map]. rewrite <- app_assoc. reflexivity.
    + cbn [seq flat_map]. rewrite <- app_assoc. reflexivity.
  - cbn [filter is_handler andb negb]. rewrite Bool.andb_false_r, Bool.andb_true_r. cbn [negb].
    replace (S i - i)%nat with 1%nat by lia. cbn [seq flat_map app].
    destruct hnil; cbn [negb flat_map enc_rev app]; rewrite ?Z2Nat.id by lia; reflexivity.
Qed.

Theorem recover_model_is_spec hnil fn cs : recover_out hnil fn cs = recover_spec_out hnil fn cs.
Proof.
  unfold recover_out, recover_spec_out, recover_. cbn [filter is_handler andb negb]. rewrite Bool.andb_false_r. cbn [negb flat_map enc_rev].
  rewrite filter_app, flat_map_app. rewrite (run_cleanups_spec hnil cs 0%nat).
  unfold outcome at 1. destruct (Z.leb_spec fn 0) as [Hle|Hlt].
  - destruct (Z.ltb_spec 0 fn); [lia|]. cbn [filter flat_map andb app].
    destruct (first_panic 0 cs) as [[j w]|]; rewrite ?Nat.sub_0_r; reflexivity.
  - destruct (Z.ltb_spec 0 fn); [|lia]. cbn [filter is_handler andb]. rewrite Bool.andb_true_r.
    destruct hnil; cbn [negb andb flat_map enc_rev app]; rewrite ?Z2Nat.id by lia;
      destruct (first_panic 0 cs) as [[j w]|]; rewrite ?Nat.sub_0_r; reflexivity.
Qed.
