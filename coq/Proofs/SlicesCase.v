(* C14: the case-level theorem.  For every well-formed case of the correspondence run (any arrays, any windows on them,
   any integer arguments), the judge [Slices.judge] -- the specification the failing-input search applies to the
   implementation's output -- accepts the model's own output.  This ties the per-function theorems to exactly what
   Run/C14.v executes as sub 0 (run_case) and sub 2 (judge). *)
From Coq Require Import List ZArith Bool Arith Lia Permutation.
From V Require Import Model.Slices Proofs.SlicesBase Proofs.SlicesSel Proofs.SlicesInPlace Proofs.SlicesClamp
  Proofs.SlicesChunk Proofs.SlicesFuncs.
Import ListNotations.
Local Open Scope Z_scope.

Section Case.
Variable c : case.
Hypothesis WF : wf_case c = true.
Local Notation m := (c_mem c).
Local Notation k := (Nat.pred (length (c_mem c))).

Lemma mem_shape : exists rest, m = [] :: rest.
Proof. unfold wf_case in WF. destruct m as [|[|x a] rest]; try discriminate. eexists. reflexivity. Qed.
Lemma mem_len : (1 <= length m)%nat.
Proof. destruct mem_shape as (rest & E). rewrite E. cbn [length]. lia. Qed.
Lemma sl_wfs i : wfs m (sl c i).
Proof.
  destruct mem_shape as (rest & E). unfold wf_case in WF. rewrite E in WF. rewrite <- E in WF.
  apply andb_true_iff in WF. destruct WF as [W1 _]. apply andb_true_iff in W1. destruct W1 as [W1 _].
  rewrite forallb_forall in W1. unfold sl. destruct (Nat.lt_ge_cases i (length (c_sl c))) as [H|H].
  - apply wf_slice_iff. apply W1. apply nth_In. exact H.
  - rewrite nth_overflow by exact H. unfold wfs, nil_slice. cbn [arr off len cap]. rewrite E. cbn [length arr_of nth]. repeat split; lia.
Qed.
Lemma all_wfs : Forall (wfs m) (c_sl c).
Proof.
  destruct mem_shape as (rest & E). unfold wf_case in WF. rewrite E in WF. rewrite <- E in WF.
  apply andb_true_iff in WF. destruct WF as [W1 _]. apply andb_true_iff in W1. destruct W1 as [W1 _].
  rewrite forallb_forall in W1. apply Forall_forall. intros s Hs. apply wf_slice_iff. apply W1. exact Hs.
Qed.

(* the arrays as the harness dumps them *)
Lemma arrays_of_self : arrays_of k m = skipn 1 m.
Proof. unfold arrays_of. apply firstn_all2. rewrite skipn_length. lia. Qed.
Lemma arrays_of_ext x : arrays_of k (m ++ [x]) = skipn 1 m.
Proof.
  unfold arrays_of. destruct mem_shape as (rest & E). rewrite E. cbn [app skipn length Nat.pred].
  rewrite firstn_app, Nat.sub_diag, firstn_all. cbn [firstn]. apply app_nil_r.
Qed.
Lemma arrays_same_self sc rs : arrays_same c (mkOut false rs sc (arrays_of k m)) = true.
Proof. unfold arrays_same. cbn [o_arrs]. rewrite arrays_of_self. apply eqb_lists_refl. Qed.
Lemma nth_arrays_of m' a : length m' = length m -> (1 <= a)%nat -> (a < length m)%nat ->
  nth (Nat.pred a) (arrays_of k m') [] = arr_of m' a.
Proof.
  intros L H1 H2. unfold arrays_of, arr_of.
  destruct m' as [|y m1]; [cbn [length] in L; lia|]. cbn [skipn]. destruct a; [lia|]. cbn [Nat.pred nth].
  rewrite firstn_all2 by (cbn [length] in L; lia). reflexivity.
Qed.

(* ---- the three shapes of outcome *)
Lemma judge_sel res expect : sel_post m expect res ->
  o_panic (out_sel k res) = false /\ res_is (out_sel k res) expect = true.
Proof.
  intros (m' & r & -> & V & _). cbn [out_sel o_panic]. split; [reflexivity|].
  unfold res_is. cbn [o_res observe r_vals]. rewrite V. apply eqb_list_refl.
Qed.

Lemma judge_ip res expect : ip_post m (sl c 0) expect res ->
  o_panic (out_sel k res) = false /\ inplace_ok c (out_sel k res) expect = true.
Proof.
  intros (m' & r & -> & A & O & Ln & V & P & L). cbn [out_sel o_panic]. split; [reflexivity|].
  unfold inplace_ok. cbn [o_res observe r_vals].
  pose proof (sl_wfs 0) as W. pose proof W as (W1 & W2 & W3).
  (* the argument's window after the call, as dumped *)
  assert (Ew : win_after c (mkOut false [observe k m' r] [] (arrays_of k m')) 0 = slice_vals m' (sl c 0)).
  { unfold win_after. cbn [o_arrs]. unfold slice_vals. destruct (Nat.eq_dec (arr (sl c 0)) 0) as [E0|E0].
    - assert (len (sl c 0) = 0)%nat as ->.
      { destruct mem_shape as (rest & E). rewrite E0 in W3. rewrite E in W3. cbn [arr_of nth length] in W3. lia. }
      rewrite !window_0. reflexivity.
    - rewrite nth_arrays_of by (auto; lia). reflexivity. }
  rewrite Ew.
  assert (Lw : length (slice_vals m' (sl c 0)) = len (sl c 0)).
  { rewrite (Permutation_length P). apply slice_vals_length. exact W. }
  assert (Er : slice_vals m' r = firstn (len r) (slice_vals m' (sl c 0))).
  { unfold slice_vals. rewrite A, O. symmetry. apply window_firstn. exact Ln. }
  assert (Le : length expect = len r) by (rewrite <- V, Er, firstn_length; lia).
  assert (Ee : expect = firstn (len r) (slice_vals m' (sl c 0))) by (rewrite <- V; exact Er).
  unfold vals0. rewrite V. rewrite (perm_b_of_perm expect expect (Permutation_refl _)). cbn [andb].
  rewrite (perm_b_of_perm _ _ P). rewrite andb_true_r.
  apply eqb_list_eq. rewrite Le. exact Ee.
Qed.

Lemma is_sel_false f : is_sel f = false ->
  (f =? F_DIFF) = false /\ (f =? F_INTER) = false /\ (f =? F_UNIQUE) = false /\ (f =? F_UNIQKEY) = false /\ (f =? F_FILTER) = false.
Proof. unfold is_sel. rewrite !orb_false_iff. tauto. Qed.

Theorem judge_model : judge c (run_case c) = true.
Proof.
  unfold judge. destruct (unclaimed_sel c) eqn:U; [reflexivity|].
  assert (Cl : is_sel (c_f c) = true -> claimed (sl c 0) (sl c 1)).
  { intros Hs. unfold unclaimed_sel in U. rewrite Hs in U. cbn [andb] in U. apply negb_false_iff in U. apply layout_claimed_iff. exact U. }
  unfold run_case.
  destruct (c_f c =? F_DIFF) eqn:E1.
  { assert (Hs : is_sel (c_f c) = true) by (unfold is_sel; rewrite E1; reflexivity).
    destruct (judge_sel _ _ (go_diff_spec m (sl c 0) (sl c 1) (sl c 2) (sl_wfs 1) (sl_wfs 2) (sl_wfs 0) (Cl Hs))) as (P & R). rewrite P. exact R. }
  destruct (c_f c =? F_DIFF_IP) eqn:E2.
  { destruct (judge_ip _ _ (go_diff_in_place_spec m (sl c 0) (sl c 1) (sl_wfs 0) (sl_wfs 1))) as (P & R). rewrite P. exact R. }
  destruct (c_f c =? F_INTER) eqn:E3.
  { assert (Hs : is_sel (c_f c) = true) by (unfold is_sel; rewrite E3; rewrite !orb_true_r; reflexivity).
    destruct (judge_sel _ _ (go_intersect_spec m (sl c 0) (sl c 1) (sl c 2) (sl_wfs 1) (sl_wfs 2) (sl_wfs 0) (Cl Hs))) as (P & R). rewrite P. exact R. }
  destruct (c_f c =? F_INTER_IP) eqn:E4.
  { destruct (judge_ip _ _ (go_intersect_in_place_spec m (sl c 0) (sl c 1) (sl_wfs 0) (sl_wfs 1))) as (P & R). rewrite P. exact R. }
  destruct (c_f c =? F_UNIQUE) eqn:E5.
  { assert (Hs : is_sel (c_f c) = true) by (unfold is_sel; rewrite E5; rewrite !orb_true_r; reflexivity).
    destruct (judge_sel _ _ (go_unique_by_key_spec (fun v => v) m (sl c 0) (sl c 1) (sl_wfs 1) (sl_wfs 0) (Cl Hs))) as (P & R). rewrite P. exact R. }
  destruct (c_f c =? F_UNIQUE_IP) eqn:E6.
  { destruct (judge_ip _ _ (go_unique_by_key_in_place_spec (fun v => v) m (sl c 0) (sl_wfs 0))) as (P & R). rewrite P. exact R. }
  destruct (c_f c =? F_UNIQKEY) eqn:E7.
  { assert (Hs : is_sel (c_f c) = true) by (unfold is_sel; rewrite E7; rewrite !orb_true_r; reflexivity).
    destruct (judge_sel _ _ (go_unique_by_key_spec (key_of (arg c 0)) m (sl c 0) (sl c 1) (sl_wfs 1) (sl_wfs 0) (Cl Hs))) as (P & R). rewrite P. exact R. }
  destruct (c_f c =? F_UNIQKEY_IP) eqn:E8.
  { destruct (judge_ip _ _ (go_unique_by_key_in_place_spec (key_of (arg c 0)) m (sl c 0) (sl_wfs 0))) as (P & R). rewrite P. exact R. }
  destruct (c_f c =? F_FILTER) eqn:E9.
  { assert (Hs : is_sel (c_f c) = true) by (unfold is_sel; rewrite E9; rewrite !orb_true_r; reflexivity).
    destruct (judge_sel _ _ (go_filter_spec (pred_of (arg c 0)) m (sl c 0) (sl c 1) (sl_wfs 1) (sl_wfs 0) (Cl Hs))) as (P & R). rewrite P. exact R. }
  destruct (c_f c =? F_FILTER_IP) eqn:E10.
  { destruct (judge_ip _ _ (go_filter_in_place_spec (pred_of (arg c 0)) m (sl c 0) (sl_wfs 0))) as (P & R). rewrite P. exact R. }
  destruct (c_f c =? F_EQUAL) eqn:E11.
  { rewrite (go_equal_spec m (sl c 0) (sl c 1) (sl_wfs 0) (sl_wfs 1)). cbn [o_panic]. unfold scal. cbn [o_scal nth]. apply Z.eqb_refl. }
  destruct (c_f c =? F_INDEX) eqn:E12.
  { rewrite (go_index_spec m (sl c 0) (arg c 0) (sl_wfs 0)). cbn [o_panic]. unfold scal. cbn [o_scal nth]. apply Z.eqb_refl. }
  destruct (c_f c =? F_INDEXFN) eqn:E13.
  { rewrite (go_index_func_spec (pred_of (arg c 0)) m (sl c 0) (sl_wfs 0)). cbn [o_panic]. unfold scal. cbn [o_scal nth]. apply Z.eqb_refl. }
  destruct (c_f c =? F_SUBSLICE) eqn:E14.
  { destruct (go_subslice_spec m (sl c 0) (arg c 0) (arg c 1) (sl_wfs 0)) as (r & E & _ & V). rewrite E. cbn [o_panic].
    rewrite arrays_same_self, andb_true_r. unfold res_is. cbn [o_res observe r_vals]. rewrite V. apply eqb_list_refl. }
  destruct (c_f c =? F_CONTAINS) eqn:E15.
  { rewrite (go_contains_spec m (sl c 0) (arg c 0) (sl_wfs 0)). cbn [o_panic]. unfold scal. cbn [o_scal nth]. apply Z.eqb_refl. }
  destruct (c_f c =? F_CONTAINSFN) eqn:E16.
  { rewrite (go_contains_func_spec (pred_of (arg c 0)) m (sl c 0) (sl_wfs 0)). cbn [o_panic]. unfold scal. cbn [o_scal nth]. apply Z.eqb_refl. }
  destruct (c_f c =? F_CHUNK) eqn:E17.
  { destruct (go_chunk_spec m (sl c 0) (arg c 0) (sl_wfs 0)) as (ocap & cs & E & V & _). rewrite E. cbn [o_panic].
    rewrite arrays_same_self, andb_true_r. cbn [o_res]. rewrite map_map. cbn [observe r_vals].
    unfold vals0. rewrite <- V. apply eqb_lists_refl. }
  destruct (c_f c =? F_CHUNKP) eqn:E18.
  { pose proof (go_chunk_process_spec (arg c 1) m (sl c 0) (arg c 0) (sl_wfs 0)) as G. cbv zeta in G. destruct G as (calls & E & V).
    rewrite E. cbn [o_panic]. rewrite arrays_same_self, andb_true_r. cbn [o_res]. rewrite map_map. cbn [observe r_vals].
    unfold vals0. change (map (fun x : slice => slice_vals m x) calls) with (map (slice_vals m) calls).
    rewrite V. rewrite eqb_lists_refl. cbn [andb]. unfold scal. cbn [o_scal nth]. apply Z.eqb_refl. }
  destruct (c_f c =? F_COPY) eqn:E19.
  { destruct (go_copy_spec m (sl c 0) (arg c 0) (arg c 1) (sl_wfs 0)) as (m' & r & E & V & Fr & Mm). rewrite E. cbn [out_sel o_panic].
    assert (Ea : arrays_of k m' = skipn 1 m) by (destruct Mm as [->|(x & ->)]; [apply arrays_of_self|apply arrays_of_ext]).
    unfold arrays_same. cbn [o_arrs]. rewrite Ea, eqb_lists_refl, andb_true_r.
    unfold res_is, res_fresh. cbn [o_res observe r_vals r_where]. rewrite V. unfold vals0. rewrite eqb_list_refl. cbn [andb].
    unfold where_of. destruct Fr as [->|Fr].
    - reflexivity.
    - rewrite Fr. pose proof mem_len as ML. destruct (Nat.leb_spec (length m) k) as [Hk|Hk]; [exfalso; clear - ML Hk; lia|]. rewrite andb_false_r. reflexivity. }
  destruct (c_f c =? F_VALUES) eqn:E20.
  { pose proof (go_values_spec (fn_of (arg c 0) (arg c 1)) m (c_sl c)) as G. destruct (go_values _ m (c_sl c)) as [m' r].
    destruct G as (V & Fr & (x & Mm)). cbn [out_sel o_panic]. subst m'.
    unfold arrays_same. cbn [o_arrs]. rewrite arrays_of_ext, eqb_lists_refl, andb_true_r.
    unfold res_is, res_fresh. cbn [o_res observe r_vals r_where]. rewrite V. rewrite eqb_list_refl. cbn [andb].
    unfold where_of. rewrite Fr. pose proof mem_len as ML. destruct (Nat.leb_spec (length m) k) as [Hk|Hk]; [exfalso; clear - ML Hk; lia|]. rewrite andb_false_r. reflexivity. }
  destruct (c_f c =? F_REMOVE) eqn:E21.
  { destruct (go_remove_spec m (sl c 0) (arg c 0) (sl_wfs 0)) as (m' & r & v & ok & E & S & _). rewrite E. cbn [o_panic].
    unfold vals0. rewrite <- S. unfold res_is, scal. cbn [o_res o_scal observe r_vals nth].
    rewrite eqb_list_refl, !Z.eqb_refl. reflexivity. }
  (* no such function: the run reports a panic; such a case is not well-formed for the harness, but the statement
     is about wf_case only, so it has to be excluded here *)
  exfalso. clear - WF E1 E2 E3 E4 E5 E6 E7 E8 E9 E10 E11 E12 E13 E14 E15 E16 E17 E18 E19 E20 E21. revert WF.
  unfold wf_case. destruct m as [|[|? ?] ?]; try discriminate. intros H. apply andb_true_iff in H. destruct H as [_ H].
  unfold args_ok in H. rewrite E7, E8, E9, E10, E13, E16, E20 in H. cbn [orb] in H.
  apply andb_true_iff in H. destruct H as [H1 H2]. apply Z.leb_le in H1, H2.
  apply Z.eqb_neq in E1, E2, E3, E4, E5, E6, E7, E8, E9, E10, E11, E12, E13, E14, E15, E16, E17, E18, E19, E20, E21.
  unfold F_DIFF, F_DIFF_IP, F_INTER, F_INTER_IP, F_UNIQUE, F_UNIQUE_IP, F_UNIQKEY, F_UNIQKEY_IP, F_FILTER, F_FILTER_IP, F_EQUAL,
    F_INDEX, F_INDEXFN, F_SUBSLICE, F_CONTAINS, F_CONTAINSFN, F_CHUNK, F_CHUNKP, F_COPY, F_VALUES, F_REMOVE in *. lia.
Qed.

(* the shape of the model's outcome (needed for the token-level round trip): no panic, all k arrays dumped *)
Lemma arrays_len m' : (length m <= length m')%nat -> length (arrays_of k m') = k.
Proof. intros L. pose proof mem_len. unfold arrays_of. rewrite firstn_length, skipn_length. lia. Qed.

Theorem run_case_shape : unclaimed_sel c = false ->
  o_panic (run_case c) = false /\ length (o_arrs (run_case c)) = k.
Proof.
  intros U.
  assert (Cl : is_sel (c_f c) = true -> claimed (sl c 0) (sl c 1)).
  { intros Hs. unfold unclaimed_sel in U. rewrite Hs in U. cbn [andb] in U. apply negb_false_iff in U. apply layout_claimed_iff. exact U. }
  assert (Sel : forall expect res, sel_post m expect res -> o_panic (out_sel k res) = false /\ length (o_arrs (out_sel k res)) = k).
  { intros expect res (m' & r & -> & _ & L). cbn [out_sel o_panic o_arrs]. split; [reflexivity|apply arrays_len; exact L]. }
  assert (Ip : forall s expect res, ip_post m s expect res -> o_panic (out_sel k res) = false /\ length (o_arrs (out_sel k res)) = k).
  { intros s expect res (m' & r & -> & _ & _ & _ & _ & _ & L). cbn [out_sel o_panic o_arrs]. split; [reflexivity|apply arrays_len; lia]. }
  assert (Same : forall rs sc, o_panic (mkOut false rs sc (arrays_of k m)) = false /\ length (o_arrs (mkOut false rs sc (arrays_of k m))) = k).
  { intros. cbn [o_panic o_arrs]. split; [reflexivity|apply arrays_len; lia]. }
  unfold run_case.
  destruct (c_f c =? F_DIFF) eqn:E1.
  { assert (Hs : is_sel (c_f c) = true) by (unfold is_sel; rewrite E1; reflexivity).
    exact (Sel _ _ (go_diff_spec m (sl c 0) (sl c 1) (sl c 2) (sl_wfs 1) (sl_wfs 2) (sl_wfs 0) (Cl Hs))). }
  destruct (c_f c =? F_DIFF_IP) eqn:E2.
  { exact (Ip _ _ _ (go_diff_in_place_spec m (sl c 0) (sl c 1) (sl_wfs 0) (sl_wfs 1))). }
  destruct (c_f c =? F_INTER) eqn:E3.
  { assert (Hs : is_sel (c_f c) = true) by (unfold is_sel; rewrite E3; rewrite !orb_true_r; reflexivity).
    exact (Sel _ _ (go_intersect_spec m (sl c 0) (sl c 1) (sl c 2) (sl_wfs 1) (sl_wfs 2) (sl_wfs 0) (Cl Hs))). }
  destruct (c_f c =? F_INTER_IP) eqn:E4.
  { exact (Ip _ _ _ (go_intersect_in_place_spec m (sl c 0) (sl c 1) (sl_wfs 0) (sl_wfs 1))). }
  destruct (c_f c =? F_UNIQUE) eqn:E5.
  { assert (Hs : is_sel (c_f c) = true) by (unfold is_sel; rewrite E5; rewrite !orb_true_r; reflexivity).
    exact (Sel _ _ (go_unique_by_key_spec (fun v => v) m (sl c 0) (sl c 1) (sl_wfs 1) (sl_wfs 0) (Cl Hs))). }
  destruct (c_f c =? F_UNIQUE_IP) eqn:E6.
  { exact (Ip _ _ _ (go_unique_by_key_in_place_spec (fun v => v) m (sl c 0) (sl_wfs 0))). }
  destruct (c_f c =? F_UNIQKEY) eqn:E7.
  { assert (Hs : is_sel (c_f c) = true) by (unfold is_sel; rewrite E7; rewrite !orb_true_r; reflexivity).
    exact (Sel _ _ (go_unique_by_key_spec (key_of (arg c 0)) m (sl c 0) (sl c 1) (sl_wfs 1) (sl_wfs 0) (Cl Hs))). }
  destruct (c_f c =? F_UNIQKEY_IP) eqn:E8.
  { exact (Ip _ _ _ (go_unique_by_key_in_place_spec (key_of (arg c 0)) m (sl c 0) (sl_wfs 0))). }
  destruct (c_f c =? F_FILTER) eqn:E9.
  { assert (Hs : is_sel (c_f c) = true) by (unfold is_sel; rewrite E9; rewrite !orb_true_r; reflexivity).
    exact (Sel _ _ (go_filter_spec (pred_of (arg c 0)) m (sl c 0) (sl c 1) (sl_wfs 1) (sl_wfs 0) (Cl Hs))). }
  destruct (c_f c =? F_FILTER_IP) eqn:E10.
  { exact (Ip _ _ _ (go_filter_in_place_spec (pred_of (arg c 0)) m (sl c 0) (sl_wfs 0))). }
  destruct (c_f c =? F_EQUAL) eqn:E11.
  { rewrite (go_equal_spec m (sl c 0) (sl c 1) (sl_wfs 0) (sl_wfs 1)). apply Same. }
  destruct (c_f c =? F_INDEX) eqn:E12.
  { rewrite (go_index_spec m (sl c 0) (arg c 0) (sl_wfs 0)). apply Same. }
  destruct (c_f c =? F_INDEXFN) eqn:E13.
  { rewrite (go_index_func_spec (pred_of (arg c 0)) m (sl c 0) (sl_wfs 0)). apply Same. }
  destruct (c_f c =? F_SUBSLICE) eqn:E14.
  { destruct (go_subslice_spec m (sl c 0) (arg c 0) (arg c 1) (sl_wfs 0)) as (r & E & _). rewrite E. apply Same. }
  destruct (c_f c =? F_CONTAINS) eqn:E15.
  { rewrite (go_contains_spec m (sl c 0) (arg c 0) (sl_wfs 0)). apply Same. }
  destruct (c_f c =? F_CONTAINSFN) eqn:E16.
  { rewrite (go_contains_func_spec (pred_of (arg c 0)) m (sl c 0) (sl_wfs 0)). apply Same. }
  destruct (c_f c =? F_CHUNK) eqn:E17.
  { destruct (go_chunk_spec m (sl c 0) (arg c 0) (sl_wfs 0)) as (ocap & cs & E & _). rewrite E. apply Same. }
  destruct (c_f c =? F_CHUNKP) eqn:E18.
  { pose proof (go_chunk_process_spec (arg c 1) m (sl c 0) (arg c 0) (sl_wfs 0)) as G. cbv zeta in G. destruct G as (calls & E & _).
    rewrite E. apply Same. }
  destruct (c_f c =? F_COPY) eqn:E19.
  { destruct (go_copy_spec m (sl c 0) (arg c 0) (arg c 1) (sl_wfs 0)) as (m' & r & E & _ & _ & Mm). rewrite E. cbn [out_sel o_panic o_arrs].
    split; [reflexivity|]. apply arrays_len. destruct Mm as [->|(x & ->)]; [apply le_n|rewrite app_length; apply Nat.le_add_r]. }
  destruct (c_f c =? F_VALUES) eqn:E20.
  { pose proof (go_values_spec (fn_of (arg c 0) (arg c 1)) m (c_sl c)) as G. destruct (go_values _ m (c_sl c)) as [m' r].
    destruct G as (_ & _ & (x & ->)). cbn [out_sel o_panic o_arrs]. split; [reflexivity|]. apply arrays_len. rewrite app_length. apply Nat.le_add_r. }
  destruct (c_f c =? F_REMOVE) eqn:E21.
  { destruct (go_remove_spec m (sl c 0) (arg c 0) (sl_wfs 0)) as (m' & r & v & ok & E & _ & _ & L & _). rewrite E. cbn [o_panic o_arrs].
    split; [reflexivity|]. apply arrays_len. rewrite L. apply le_n. }
  exfalso. clear - WF E1 E2 E3 E4 E5 E6 E7 E8 E9 E10 E11 E12 E13 E14 E15 E16 E17 E18 E19 E20 E21. revert WF.
  unfold wf_case. destruct m as [|[|? ?] ?]; try discriminate. intros H. apply andb_true_iff in H. destruct H as [_ H].
  unfold args_ok in H. rewrite E7, E8, E9, E10, E13, E16, E20 in H. cbn [orb] in H.
  apply andb_true_iff in H. destruct H as [H1 H2]. apply Z.leb_le in H1, H2.
  apply Z.eqb_neq in E1, E2, E3, E4, E5, E6, E7, E8, E9, E10, E11, E12, E13, E14, E15, E16, E17, E18, E19, E20, E21.
  unfold F_DIFF, F_DIFF_IP, F_INTER, F_INTER_IP, F_UNIQUE, F_UNIQUE_IP, F_UNIQKEY, F_UNIQKEY_IP, F_FILTER, F_FILTER_IP, F_EQUAL,
    F_INDEX, F_INDEXFN, F_SUBSLICE, F_CONTAINS, F_CONTAINSFN, F_CHUNK, F_CHUNKP, F_COPY, F_VALUES, F_REMOVE in *. lia.
Qed.
End Case.
