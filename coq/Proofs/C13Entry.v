(* C13 — the tie between the theorems and what the check executes: for every integer case, either the specification
   declares it outside its domain (entry 1 = [BADCASE]: unknown handle, Init of a non-empty list, node insertion of
   a node that is still in a list, undecodable tokens) or the model's output equals the specification's output. *)
From Coq Require Import List ZArith Lia Bool.
From V Require Import Lib.Enc Model.DList Model.SList Run.C13 Proofs.DListRun Proofs.SListRun.
Import ListNotations.
Local Open Scope Z_scope.

Theorem entry_dlist_model_eq_spec : forall z0 z1 toks,
  entry 1 (0 :: z0 :: z1 :: toks) = [BADCASE] \/ entry 0 (0 :: z0 :: z1 :: toks) = entry 1 (0 :: z0 :: z1 :: toks).
Proof.
  intros z0 z1 toks. unfold entry. cbn [Z.eqb]. destruct (dec_ops dec_dop toks []) as [ops|]; [|left; reflexivity].
  cbn [Z.eqb Pos.eqb]. destruct (dspec_case ops) as [outs|] eqn:Es; [|left; reflexivity].
  right. rewrite (dlist_refines_seq (bz z0) (bz z1) ops outs Es). reflexivity.
Qed.

Theorem entry_slist_model_eq_spec : forall z0 z1 toks,
  entry 1 (1 :: z0 :: z1 :: toks) = [BADCASE] \/ entry 0 (1 :: z0 :: z1 :: toks) = entry 1 (1 :: z0 :: z1 :: toks).
Proof.
  intros z0 z1 toks. unfold entry. cbn [Z.eqb Pos.eqb]. destruct (dec_ops dec_sop toks []) as [ops|]; [|left; reflexivity].
  cbn [Z.eqb Pos.eqb]. destruct (sspec_case ops) as [outs|] eqn:Es; [|left; reflexivity].
  right. rewrite (slist_refines_seq ops outs Es). reflexivity.
Qed.
