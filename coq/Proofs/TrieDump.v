(* C05 — what the Dump observation of the MODEL shows (Model/TrieDump.v: dump = the node table in pre-order).
   For the trie of every pattern set: every table node is dumped exactly once, and every dumped node carries the fail link
   "longest proper suffix that is a trie word", isEnd = "an inserted pattern ends here", size = byte length of the word,
   children strictly ascending and exactly the one-rune extensions that are trie words. *)
From Coq Require Import List ZArith Lia Bool Arith Sorted Permutation.
From V Require Import Lib.Utf8 Model.Trie Model.TrieCase Model.TrieDump Proofs.TrieTable Proofs.TrieInsert Proofs.TrieRunes Proofs.TrieAbs
  Proofs.TrieBuild Proofs.TrieTop Proofs.TrieOrderSorted Proofs.TrieOrderPrefix Proofs.TrieOrderRebuild.
Import ListNotations.

(* ---- the traversal lists table entries only *)
Lemma dump_nodes_get : forall fuel T p w n, In (w, n) (dump_nodes fuel T p) -> get T w = Some n.
Proof.
  induction fuel as [|f IH]; intros T p w n H; cbn [dump_nodes] in H; [destruct H|].
  destruct (get T p) as [m|] eqn:E; [|destruct H]. destruct H as [H|H].
  - inversion H; subst. exact E.
  - apply in_flat_map in H. destruct H as (c & _ & H). exact (IH _ _ _ _ H).
Qed.

(* every dumped word extends the word the traversal started from *)
Lemma dump_nodes_prefix : forall fuel T p w n, In (w, n) (dump_nodes fuel T p) -> exists e, w = p ++ e.
Proof.
  induction fuel as [|f IH]; intros T p w n H; cbn [dump_nodes] in H; [destruct H|].
  destruct (get T p) as [m|]; [|destruct H]. destruct H as [H|H].
  - inversion H; subst. exists []. rewrite app_nil_r. reflexivity.
  - apply in_flat_map in H. destruct H as (c & _ & H). destruct (IH _ _ _ _ H) as (e & ->).
    exists (c :: e). rewrite <- app_assoc. reflexivity.
Qed.

Section OneTable.
Variable T : trie.
Hypothesis HW : WF T.

Lemma inT_get w : inT T w = true <-> exists n, get T w = Some n.
Proof. unfold inT. destruct (get T w) as [n|]; split; try (intros; discriminate); eauto. intros (n & E). discriminate E. Qed.

Lemma inT_pre a : forall b, inT T (a ++ b) = true -> inT T a = true.
Proof.
  intros b. induction b as [|x b IH] using rev_ind; [rewrite app_nil_r; auto|].
  rewrite app_assoc. intros H. apply IH. exact (wf_prefix T HW _ _ H).
Qed.

Lemma kids_get w n : get T w = Some n -> kids n = kids_of T w.
Proof. intros E. unfold kids_of. rewrite E. reflexivity. Qed.

(* completeness: with enough fuel for the remaining depth every table word below p is listed *)
Lemma dump_nodes_complete : forall s fuel p, (length s < fuel)%nat -> inT T (p ++ s) = true ->
  exists n, In (p ++ s, n) (dump_nodes fuel T p).
Proof.
  induction s as [|c s IH]; intros fuel p Hf Hin; (destruct fuel as [|f]; [lia|]); cbn [dump_nodes].
  - rewrite app_nil_r in *. apply inT_get in Hin. destruct Hin as (n & E). rewrite E. exists n. left. reflexivity.
  - pose proof (inT_pre p _ Hin) as Hp. apply inT_get in Hp. destruct Hp as (m & E). rewrite E.
    assert (Hc : In c (kids m)).
    { rewrite (kids_get p m E). apply (wf_kids T HW). apply (inT_pre (p ++ [c]) s). rewrite <- app_assoc. exact Hin. }
    destruct (IH f (p ++ [c])) as (n & Hn); [cbn [length] in Hf; lia|rewrite <- app_assoc; exact Hin|].
    exists n. right. apply in_flat_map. exists c. split; [exact Hc|]. rewrite <- app_assoc in Hn. exact Hn.
Qed.

(* a table word is shorter than the table is long: its prefixes are distinct keys *)
Lemma firstn_keys w : inT T w = true -> forall k, In (firstn k w) (map fst T).
Proof. intros H k. apply inT_keys. apply (inT_pre (firstn k w) (skipn k w)). rewrite firstn_skipn. exact H. Qed.
Lemma nodup_firstn (w : word) : forall m, (m <= S (length w))%nat -> NoDup (map (fun k => firstn k w) (seq 0 m)).
Proof.
  induction m as [|m IH]; intros Hm; [constructor|].
  rewrite seq_S, map_app. cbn [map plus]. apply nodup_app_words.
  - apply IH. lia.
  - constructor; [intros []|constructor].
  - intros x Hx [<-|[]]. apply in_map_iff in Hx. destruct Hx as (k & Ek & Hk). apply in_seq in Hk.
    apply (f_equal (@length Z)) in Ek. rewrite !firstn_length in Ek. lia.
Qed.
Lemma depth_lt w : inT T w = true -> (length w < length T)%nat.
Proof.
  intros H. pose proof (nodup_firstn w (S (length w)) (le_n _)) as Hn.
  assert (Hi : incl (map (fun k => firstn k w) (seq 0 (S (length w)))) (map fst T)).
  { intros x Hx. apply in_map_iff in Hx. destruct Hx as (k & <- & _). apply firstn_keys. exact H. }
  pose proof (NoDup_incl_length Hn Hi) as Hl. rewrite !map_length, seq_length in Hl. lia.
Qed.

Lemma dump_complete w n : get T w = Some n -> In (w, n) (dump T).
Proof.
  intros E. assert (Hin : inT T w = true) by (apply inT_get; eauto).
  destruct (dump_nodes_complete w (S (length T)) []) as (n' & Hn'); [pose proof (depth_lt w Hin); lia|exact Hin|].
  cbn [app] in Hn'. pose proof (dump_nodes_get _ _ _ _ _ Hn') as E'. rewrite E in E'. inversion E'; subst. exact Hn'.
Qed.

(* no word twice: subtrees of different children are disjoint, and a node is not below itself *)
Lemma dump_nodes_nodup : forall fuel p, NoDup (map fst (dump_nodes fuel T p)).
Proof.
  induction fuel as [|f IH]; intros p; cbn [dump_nodes]; [constructor|].
  destruct (get T p) as [m|] eqn:E; [|constructor]. cbn [map fst]. constructor.
  - intros H. apply in_map_iff in H. destruct H as ((w & n) & Ew & H). cbn [fst] in Ew. subst w.
    apply in_flat_map in H. destruct H as (c & _ & H). apply dump_nodes_prefix in H. destruct H as (e & He).
    apply (f_equal (@length Z)) in He. rewrite !app_length in He. cbn [length] in He. lia.
  - assert (Hs : StronglySorted Z.lt (kids m)) by (rewrite (kids_get p m E); apply sorted_ss, (wf_sorted T HW)).
    clear E. induction (kids m) as [|c cs IHc]; cbn [flat_map map]; [constructor|].
    rewrite map_app. apply nodup_app_words.
    + apply IH.
    + apply IHc. inversion Hs; assumption.
    + intros w H1 H2. apply in_map_iff in H1. destruct H1 as ((w1 & n1) & E1 & H1). cbn [fst] in E1. subst w1.
      apply in_map_iff in H2. destruct H2 as ((w2 & n2) & E2 & H2). cbn [fst] in E2. subst w2.
      apply dump_nodes_prefix in H1. destruct H1 as (e1 & E1).
      apply in_flat_map in H2. destruct H2 as (d & Hd & H2). apply dump_nodes_prefix in H2. destruct H2 as (e2 & E2).
      rewrite E1 in E2. rewrite <- !app_assoc in E2. apply app_inv_head in E2. inversion E2; subst.
      pose proof (ss_in _ _ _ Hs d Hd). lia.
Qed.

Lemma get_In w n : get T w = Some n <-> In (w, n) T.
Proof.
  pose proof (wf_nodup T HW) as Hn. clear HW. induction T as [|[k m] t IH]; cbn [get In]; [split; [discriminate|tauto]|].
  cbn [map fst] in Hn. inversion Hn as [|? ? Hk Hn']; subst. destruct (weqb k w) eqn:E.
  - apply weqb_eq in E. subst k. split.
    + intros H. inversion H; subst. left. reflexivity.
    + intros [H|H]; [inversion H; reflexivity|]. exfalso. apply Hk. apply in_map_iff. exists (w, n). auto.
  - split.
    + intros H. right. apply IH; assumption.
    + intros [H|H]; [inversion H; subst|apply IH; assumption].
      assert (weqb w w = true) by (apply weqb_eq; reflexivity). congruence.
Qed.

(* the dump lists the table: every node exactly once *)
Theorem dump_perm : Permutation (dump T) T.
Proof.
  assert (nodup_pairs : forall l : list (word * node), NoDup (map fst l) -> NoDup l).
  { induction l as [|x l IH]; intros H; [constructor|]. cbn [map] in H. inversion H; subst. constructor; auto.
    intros Hx. apply H2. apply in_map. exact Hx. }
  apply NoDup_Permutation.
  - apply nodup_pairs. apply dump_nodes_nodup.
  - apply nodup_pairs. apply (wf_nodup T HW).
  - intros (w & n). split.
    + intros H. apply get_In. exact (dump_nodes_get _ _ _ _ _ H).
    + intros H. apply dump_complete. apply get_In. exact H.
Qed.
End OneTable.

(* ---- the trie of a pattern set *)
Notation is_suffix := TrieAbs.is_suffix.

Lemma built_WF ps T : built ps T -> WF T.
Proof.
  intros E. destruct (built_facts ps T E) as [HS _].
  apply (WF_Q T (inserts ps)); [|exact (ins_wf _ _ (INS_inserts ps))].
  split; [exact (build_keys _ _ E)|exact HS].
Qed.

Theorem dump_built ps T : Forall is_bytes ps -> built ps T ->
  Permutation (dump T) T /\
  forall w n, In (w, n) (dump T) ->
    get T w = Some n /\
    (w = [] -> fail n = None) /\
    (w <> [] -> exists u, fail n = Some u /\ inT T u = true /\ is_suffix u w /\ (length u < length w)%nat /\
                (forall u', is_suffix u' w -> (length u' < length w)%nat -> inT T u' = true -> (length u' <= length u)%nat)) /\
    (isEnd n = true <-> exists p, In p ps /\ p <> [] /\ runes_of p = w) /\
    nsize n = Z.of_nat (length (wbytes w)) /\
    StronglySorted Z.lt (kids n) /\
    (forall c, In c (kids n) <-> inT T (w ++ [c]) = true).
Proof.
  intros Hb E. pose proof (built_WF ps T E) as HW. split; [exact (dump_perm T HW)|].
  intros w n Hin. pose proof (dump_nodes_get _ _ _ _ _ Hin) as Eg. split; [exact Eg|].
  pose proof (INS_inserts ps) as HI. set (T0 := inserts ps) in *.
  destruct (build_correct_gen T0 (ins_wf _ _ HI) (ins_fail _ _ HI [])) as (T' & E' & HS & HF & _ & Hroot).
  unfold built in E. fold T0 in E. rewrite E in E'. inversion E'; subst T'. clear E'.
  assert (HinT : forall x, inT T x = inT T0 x) by (intros x; apply (SE_inT T0 T x HS)).
  assert (Hw : inT T0 w = true) by (rewrite <- HinT; apply (inT_get T); eauto).
  split; [|split; [|split; [|split; [|split]]]].
  - intros ->. unfold fail_of in Hroot. rewrite Eg in Hroot. exact Hroot.
  - intros Hne. pose proof (HF w Hw Hne) as Hf. unfold fail_of in Hf. rewrite Eg in Hf.
    destruct (TrieAbs.lps_spec (inT T0) (wf_root T0 (ins_wf _ _ HI)) w Hne) as (L1 & L2 & L3 & L4).
    exists (TrieAbs.lps (inT T0) w). split; [exact Hf|]. split; [rewrite HinT; exact L1|]. split; [exact L2|]. split; [exact L3|].
    intros u' H1 H2 H3. apply L4; auto. rewrite <- HinT. exact H3.
  - pose proof (SE_end T0 T w HS) as He. unfold is_end in He at 1. rewrite Eg in He. rewrite He. apply (ins_end _ _ HI).
  - pose proof (SE_size T0 T w HS) as Hs. unfold size_of in Hs at 1. rewrite Eg in Hs. rewrite Hs.
    apply (ins_size _ _ HI); [|exact Hw]. eapply Forall_impl; [|exact Hb]. intros p. apply tok_ok_bytes.
  - rewrite (kids_get T w n Eg). apply sorted_ss, (wf_sorted T HW).
  - intros c. rewrite (kids_get T w n Eg). apply (wf_kids T HW).
Qed.

(* the same for the trie of EVERY operation sequence that ends with a build (rebuilds included) *)
Theorem dump_after_ops ops T : Forall is_bytes (inserted ops) -> canonical ops = true -> run_ops empty_trie ops = Some T ->
  let ps := inserted ops in
  Permutation (dump T) T /\
  forall w n, In (w, n) (dump T) ->
    get T w = Some n /\
    (w = [] -> fail n = None) /\
    (w <> [] -> exists u, fail n = Some u /\ inT T u = true /\ is_suffix u w /\ (length u < length w)%nat /\
                (forall u', is_suffix u' w -> (length u' < length w)%nat -> inT T u' = true -> (length u' <= length u)%nat)) /\
    (isEnd n = true <-> exists p, In p ps /\ p <> [] /\ runes_of p = w) /\
    nsize n = Z.of_nat (length (wbytes w)) /\
    StronglySorted Z.lt (kids n) /\
    (forall c, In c (kids n) <-> inT T (w ++ [c]) = true).
Proof. intros Hb Hc E. cbv zeta. apply dump_built; [exact Hb|apply run_ops_built; assumption]. Qed.

(* premises are satisfiable and the statement is not vacuous: a concrete dump *)
Example dump_example :
  exists T, built [[97]; [97;98]; [98;99]]%Z T /\
    map (fun wn => (fst wn, fail (snd wn), isEnd (snd wn), nsize (snd wn))) (dump T)
    = [([], None, false, 0); ([97], Some [], true, 1); ([97;98], Some [98], true, 2);
       ([98], Some [], false, 1); ([98;99], Some [], true, 2)]%Z.
Proof. eexists. split; [unfold built; vm_compute; reflexivity|vm_compute; reflexivity]. Qed.
