(* C08, refinement: for EVERY case the model's output is accepted by the judge spec_ok that Run/C08 `sub 2` executes,
   when the library's whole-message CBC is the NIST chain over the block function and the block function / AEAD satisfy
   the usual facts.  So model = implementation (checked by the run) implies the implementation meets the specification. *)
From Coq Require Import List ZArith Lia Bool Arith.
From V Require Import Lib.Enc Gen.Cryptz Model.Aes Proofs.AesPkcs7 Proofs.AesCbc Proofs.AesMem.
Import ListNotations.

Lemma skipn_skipn2 {A} (a b : nat) (l : list A) : skipn a (skipn b l) = skipn (b + a) l.
Proof.
  revert l. induction b as [|b IH]; intros l; [reflexivity|]. destruct l; cbn [skipn Nat.add]; [destruct a; reflexivity|apply IH].
Qed.
Lemma m_split (m : bytes) off len : off + len <= length m ->
  m = firstn off m ++ mread m off len ++ skipn (off + len) m.
Proof.
  intros H. unfold mread. rewrite <- (skipn_skipn2 len off m). rewrite firstn_skipn. rewrite firstn_skipn. reflexivity.
Qed.
Lemma beq_sym a : forall b, beq a b = beq b a.
Proof. induction a as [|x a IH]; intros [|y b]; cbn [beq]; try reflexivity. rewrite Z.eqb_sym, IH. reflexivity. Qed.
Lemma firstn_app_l (a b : bytes) n : n <= length a -> firstn n (a ++ b) = firstn n a.
Proof. intros H. rewrite firstn_app. replace (n - length a) with 0 by lia. cbn [firstn]. apply app_nil_r. Qed.

(* ---- un-padding: model and PKCS#7 definition agree *)
Lemma unpad_tbl_vs_spec x : 16 <= length x ->
  match spec_unpad x 16 with
  | Some p => unpad_tbl x = Ok (length p) /\ p = firstn (length p) x /\ length p <= length x
  | None => exists e, unpad_tbl x = Err e
  end.
Proof.
  intros Hl. rewrite unpad_tbl_char by exact Hl. cbv zeta. unfold spec_unpad.
  rewrite last_opt_some by (destruct x; cbn in *; [lia|congruence]). set (k := last x 0%Z).
  destruct (Z.ltb_spec 16 k) as [H1|H1]; cbn [orb].
  { destruct (Nat.leb_spec (Z.to_nat k) 16); [lia|]. rewrite andb_false_r. cbn [andb]. eauto. }
  destruct (Z.leb_spec k 0) as [H2|H2].
  { destruct (Nat.leb_spec 1 (Z.to_nat k)); [lia|]. cbn [andb]. eauto. }
  destruct (Nat.leb_spec 1 (Z.to_nat k)); [|lia]. destruct (Nat.leb_spec (Z.to_nat k) 16); [|lia].
  destruct (Nat.leb_spec (Z.to_nat k) (length x)); [|lia]. cbn [andb].
  rewrite (beq_sym (repeat k (Z.to_nat k))). destruct (beq _ _); [|eauto].
  rewrite firstn_length. rewrite Nat.min_l by lia. split; [reflexivity|]. split; [reflexivity|lia].
Qed.

Lemma unpad_model_vs_spec d bs : (1 <= bs)%Z -> d <> [] -> length d mod Z.to_nat bs = 0 -> Forall is_byte d ->
  match spec_unpad d (Z.to_nat bs) with
  | Some r => pkcs7_unpad d bs = Ok r
  | None => exists e, pkcs7_unpad d bs = Err e
  end.
Proof.
  intros Hbs Hne Hm Hby. unfold pkcs7_unpad, spec_unpad. rewrite last_opt_some by exact Hne.
  assert (Hl0 : length d <> 0) by (destruct d; [congruence|cbn; lia]).
  destruct (Nat.eqb_spec (length d) 0); [lia|]. destruct (Z.leb_spec bs 0); [lia|]. rewrite Hm. cbn [Nat.eqb negb].
  set (p := last d 0%Z).
  assert (Hp : is_byte p) by (unfold p; rewrite Forall_forall in Hby; apply Hby; apply last_In; exact Hne).
  unfold is_byte in Hp.
  assert (Hge : Z.to_nat bs <= length d).
  { apply Nat.mod_divides in Hm; [|lia]. destruct Hm as [c Hc]. destruct c; [lia|]. rewrite Hc. nia. }
  destruct (Z.leb_spec p 0) as [H1|H1]; cbn [orb].
  { destruct (Nat.leb_spec 1 (Z.to_nat p)); [lia|]. cbn [andb]. eauto. }
  destruct (Z.ltb_spec bs p) as [H2|H2].
  { destruct (Nat.leb_spec (Z.to_nat p) (Z.to_nat bs)); [lia|]. rewrite andb_false_r. cbn [andb]. eauto. }
  destruct (Nat.leb_spec 1 (Z.to_nat p)); [|lia]. destruct (Nat.leb_spec (Z.to_nat p) (Z.to_nat bs)); [|lia].
  destruct (Nat.leb_spec (Z.to_nat p) (length d)); [|lia]. cbn [andb].
  destruct (Nat.ltb_spec (length d) (Z.to_nat p)); [lia|]. rewrite Z.mod_small by lia.
  destruct (beq _ _); eauto.
Qed.

(* ---- layouts *)
Lemma layout_sub_no_inexact o1 l1 o2 l2 l : layout_ok o1 l1 o2 l2 = true -> l <= l1 -> l <= l2 ->
  inexact_overlap o1 l o2 l = false.
Proof.
  intros H H1 H2. unfold layout_ok in H. unfold inexact_overlap.
  destruct (Nat.eqb_spec o1 o2); [rewrite !orb_true_r; reflexivity|]. rewrite orb_false_r in H.
  destruct ((l =? 0) || (l =? 0) || false); [reflexivity|].
  apply negb_true_iff in H. unfold any_overlap in *.
  destruct (Nat.ltb_spec 0 l1), (Nat.ltb_spec 0 l2), (Nat.ltb_spec o1 (o2 + l2)), (Nat.ltb_spec o2 (o1 + l1)); cbn [andb] in H; try discriminate;
  destruct (Nat.ltb_spec 0 l), (Nat.ltb_spec o1 (o2 + l)), (Nat.ltb_spec o2 (o1 + l)); cbn [andb]; try reflexivity; lia.
Qed.

Definition op_wf (open : bytes -> bytes -> bytes -> bytes -> option bytes) (o : op) : Prop :=
  match o with
  | OUnpad d _ | OUnpad5 d => Forall is_byte d
  | OGcmDec true m _ _ soff slen key nonce ad => open key nonce (mread m soff slen) ad = None
  | _ => True
  end.

Section Refine.
Variable E D : bytes -> bytes -> bytes.
Variable seal : bytes -> bytes -> bytes -> bytes -> bytes.
Variable open : bytes -> bytes -> bytes -> bytes -> option bytes.
Variable std_enc std_dec : bytes -> bytes -> bytes -> bytes.
Hypothesis D_E : forall k b, good_key k = true -> length b = 16 -> D k (E k b) = b.
Hypothesis E_len : forall k b, good_key k = true -> length b = 16 -> length (E k b) = 16.
Hypothesis D_len : forall k b, good_key k = true -> length b = 16 -> length (D k b) = 16.
Hypothesis seal_len : forall k n p a, length (seal k n p a) = length p + 16.
Hypothesis open_len : forall k n c a p, open k n c a = Some p -> length c = length p + 16.
(* the library's whole-message CBC is the chain of SP 800-38A over the block function *)
Hypothesis std_enc_chain : forall k iv d, good_key k = true -> length iv = 16 -> length d mod 16 = 0 ->
  std_enc k iv d = cbc_enc_bytes E k iv d.
Hypothesis std_dec_chain : forall k iv d, good_key k = true -> length iv = 16 -> length d mod 16 = 0 ->
  std_dec k iv d = cbc_dec_bytes D k iv d.

Local Notation run := (run_op E D seal open).
Local Notation judge := (spec_ok std_enc std_dec seal open).

Lemma refine_len w n : judge (OLen w n) (run (OLen w n)) = true.
Proof.
  cbn [spec_ok run_op]. destruct (w =? 0)%Z.
  - unfold cbc_encrypt_len. rewrite masked_mod. change aes_block_size with 16%Z.
    change 16%Z with (Z.of_nat 16) at 2 3. rewrite <- Nat2Z.inj_mod. apply list_eqb_refl.
  - destruct (w =? 1)%Z; [apply list_eqb_refl|]. destruct (w =? 2)%Z; apply list_eqb_refl.
Qed.

Lemma refine_pad d bs : judge (OPad d bs) (run (OPad d bs)) = true.
Proof.
  cbn [spec_ok run_op]. unfold pkcs7_pad.
  destruct (Nat.eqb_spec (length d) 0); cbn [orb enc_res]; [reflexivity|].
  destruct (Z.leb_spec bs 0); cbn [enc_res]; [reflexivity|].
  destruct (Z.leb_spec bs 255); [|reflexivity].
  unfold pkcs7_padded, spec_pad_len. pose proof (Nat.mod_upper_bound (length d) (Z.to_nat bs) ltac:(lia)).
  rewrite Z.mod_small by lia. apply list_eqb_refl.
Qed.
Lemma refine_pad5 d : judge (OPad5 d) (run (OPad5 d)) = true.
Proof.
  cbn [spec_ok run_op]. unfold pkcs5_pad, pkcs7_pad.
  destruct (Nat.eqb_spec (length d) 0); cbn [enc_res]; [reflexivity|]. cbn [Z.leb Z.compare enc_res].
  unfold pkcs7_padded, spec_pad_len. change (Z.to_nat 8) with 8. pose proof (Nat.mod_upper_bound (length d) 8 ltac:(lia)).
  rewrite Z.mod_small by lia. apply list_eqb_refl.
Qed.

Lemma refine_unpad d bs : Forall is_byte d -> judge (OUnpad d bs) (run (OUnpad d bs)) = true.
Proof.
  intros Hby. cbn [spec_ok run_op].
  destruct (Nat.eqb_spec (length d) 0) as [E0|E0]; cbn [orb].
  { unfold pkcs7_unpad. rewrite E0. reflexivity. }
  destruct (Z.leb_spec bs 0) as [Hb|Hb].
  { unfold pkcs7_unpad. destruct (Nat.eqb_spec (length d) 0); [lia|]. destruct (Z.leb_spec bs 0); [reflexivity|lia]. }
  destruct (Nat.eqb_spec (length d mod Z.to_nat bs) 0) as [Hm|Hm]; cbn [negb].
  - assert (Hne : d <> []) by (intros ->; cbn in E0; lia).
    pose proof (unpad_model_vs_spec d bs ltac:(lia) Hne Hm Hby) as U.
    destruct (spec_unpad d (Z.to_nat bs)) as [r|].
    + rewrite U. cbn [enc_res]. apply list_eqb_refl.
    + destruct U as [e ->]. reflexivity.
  - unfold pkcs7_unpad. destruct (Nat.eqb_spec (length d) 0); [lia|]. destruct (Z.leb_spec bs 0); [lia|].
    destruct (Nat.eqb_spec (length d mod Z.to_nat bs) 0); [lia|]. reflexivity.
Qed.
Lemma refine_unpad5 d : Forall is_byte d -> judge (OUnpad5 d) (run (OUnpad5 d)) = true.
Proof.
  intros Hby. pose proof (refine_unpad d 8 Hby) as R. cbn [spec_ok run_op] in *. unfold pkcs5_unpad.
  change (8 <=? 0)%Z with false in R. rewrite orb_false_r in R. change (Z.to_nat 8) with 8 in R.
  destruct (length d =? 0); cbn [orb] in *; [exact R|]. exact R.
Qed.

(* ---- AES-CBC *)
Lemma refine_cbc_enc m doff dlen soff slen key iv :
  judge (OCbcEnc m doff dlen soff slen key iv) (run (OCbcEnc m doff dlen soff slen key iv)) = true.
Proof.
  cbn [spec_ok run_op]. destruct (good_key key) eqn:Hk; cbn [negb].
  { destruct (_ && _) eqn:C; [|reflexivity].
    apply andb_true_iff in C. destruct C as [C Hdl]. apply andb_true_iff in C. destruct C as [C Hlay].
    apply andb_true_iff in C. destruct C as [Hiv Hv]. unfold views_ok in Hv. apply andb_true_iff in Hv. destruct Hv as [Hv1 Hv2].
    apply Nat.eqb_eq in Hiv. apply Nat.eqb_eq in Hdl. apply Nat.leb_le in Hv1. apply Nat.leb_le in Hv2.
    pose proof (m_split m doff dlen Hv1) as Hm.
    remember (firstn doff m) as A eqn:EA. remember (mread m doff dlen) as dst eqn:Ed. remember (skipn (doff + dlen) m) as Bt eqn:EB.
    assert (LA : length A = doff) by (subst A; apply firstn_length_le; lia).
    assert (Ld : length dst = dlen) by (subst dst; apply mread_length; lia).
    set (plain := mread m soff slen). assert (Lp : length plain = slen) by (apply mread_length; exact Hv2).
    pose proof (cbc_encrypt_mem_frame E E_len A dst Bt soff slen key iv) as F. cbv zeta in F.
    rewrite <- Hm, LA, Ld in F. rewrite (F Hv2). fold plain.
    destruct (pad_len_facts slen) as (K1 & K2 & K3). unfold spec_pad_len in *.
    destruct (cbc_encrypt_spec E D D_E E_len dst plain key iv Hk Hiv) as [Eenc Lc].
    { destruct (cbc_encrypt_len_exact (length plain)) as [_ ->]. rewrite Ld, Lp, Hdl. reflexivity. }
    cbv zeta in Eenc, Lc. rewrite Lp in Eenc, Lc. rewrite Eenc. cbn [lift enc_res].
    rewrite std_enc_chain by (auto; unfold pkcs7_padded; rewrite app_length, repeat_length, Lp; exact K2).
    assert (W : mwrite m doff (cbc_enc_bytes E key iv (pkcs7_padded plain (16 - slen mod 16))) =
                A ++ cbc_enc_bytes E key iv (pkcs7_padded plain (16 - slen mod 16)) ++ Bt).
    { rewrite Hm at 1. rewrite <- LA. apply mwrite_frame. rewrite Lc. reflexivity. }
    rewrite W. apply list_eqb_refl. }
  unfold cbc_encrypt_mem, cbc_encrypt_prep_mem. rewrite Hk. reflexivity.
Qed.

Lemma refine_cbc_dec m doff dlen soff slen key iv :
  judge (OCbcDec m doff dlen soff slen key iv) (run (OCbcDec m doff dlen soff slen key iv)) = true.
Proof.
  cbn [spec_ok run_op].
  destruct ((slen <? 16) || negb (slen mod 16 =? 0)) eqn:G.
  { unfold cbc_decrypt_mem. rewrite masked_mod, BS_eq, G. reflexivity. }
  destruct (good_key key) eqn:Hk; cbn [negb].
  2:{ unfold cbc_decrypt_mem. rewrite masked_mod, BS_eq, G, Hk. reflexivity. }
  apply orb_false_iff in G. destruct G as [G1 G2]. apply Nat.ltb_ge in G1. apply negb_false_iff in G2. apply Nat.eqb_eq in G2.
  destruct (_ && _) eqn:C; [|reflexivity].
  apply andb_true_iff in C. destruct C as [C Hdl]. apply andb_true_iff in C. destruct C as [C Hlay].
  apply andb_true_iff in C. destruct C as [Hiv Hv]. unfold views_ok in Hv. apply andb_true_iff in Hv. destruct Hv as [Hv1 Hv2].
  apply Nat.eqb_eq in Hiv. apply Nat.eqb_eq in Hdl. apply Nat.leb_le in Hv1. apply Nat.leb_le in Hv2. subst dlen.
  assert (Hov : inexact_overlap doff slen soff slen = false) by (apply (layout_sub_no_inexact doff slen soff slen); auto).
  (* fold the definition back and use the frame theorem *)
  pose proof (m_split m doff slen Hv1) as Hm.
  remember (firstn doff m) as A eqn:EA. remember (mread m doff slen) as dst eqn:Ed. remember (skipn (doff + slen) m) as Bt eqn:EB.
  assert (LA : length A = doff) by (subst A; apply firstn_length_le; lia).
  assert (Ld : length dst = slen) by (subst dst; apply mread_length; lia).
  set (ct := mread m soff slen). assert (Lc : length ct = slen) by (apply mread_length; exact Hv2).
  pose proof (cbc_decrypt_mem_frame D D_len A dst Bt soff slen key iv) as F. cbv zeta in F.
  rewrite <- Hm, LA, Ld in F. specialize (F Hv2 Hov). rewrite F. fold ct.
  (* the functional decrypt *)
  unfold cbc_decrypt. rewrite masked_mod, BS_eq, Lc, Hk, Hiv, Ld, G2.
  destruct (Nat.ltb_spec slen 16) as [|_]; [lia|]. cbn [Nat.eqb negb orb]. rewrite Nat.ltb_irrefl.
  assert (Ldec : length (cbc_dec_bytes D key iv ct) = slen) by (rewrite cbc_dec_bytes_length; auto; rewrite Lc; exact G2).
  rewrite copy_into_same by lia.
  rewrite std_dec_chain by (auto; rewrite Lc; exact G2). set (dec := cbc_dec_bytes D key iv ct) in *.
  pose proof (unpad_tbl_vs_spec dec ltac:(lia)) as U.
  destruct (spec_unpad dec 16) as [p|].
  - destruct U as (-> & Hp & Hpl). cbn [lift enc_res enc_nb fst snd].
    rewrite Z.eqb_refl. cbn [andb].
    assert (Lm : length m = doff + slen + length Bt) by (rewrite Hm at 1; rewrite !app_length; lia).
    rewrite !app_length, Ldec, LA. rewrite Lm. replace (doff + (slen + length Bt)) with (doff + slen + length Bt) by lia.
    rewrite Nat.eqb_refl. cbn [andb].
    rewrite <- LA at 1. rewrite firstn_app, Nat.sub_diag, firstn_all. cbn [firstn]. rewrite app_nil_r.
    rewrite list_eqb_refl. cbn [andb].
    assert (S1 : skipn (doff + slen) (A ++ dec ++ Bt) = Bt).
    { rewrite app_assoc. rewrite skipn_app. rewrite skipn_all2 by (rewrite app_length; lia). cbn [app].
      rewrite app_length, LA, Ldec, Nat.sub_diag. reflexivity. }
    rewrite S1, list_eqb_refl. cbn [andb].
    unfold mread. rewrite <- LA at 1. rewrite skipn_app, skipn_all, Nat.sub_diag. cbn [skipn app].
    rewrite firstn_app_l by lia. rewrite <- Hp. apply list_eqb_refl.
  - destruct U as [e ->]. reflexivity.
Qed.

(* ---- AES-GCM *)
Lemma refine_gcm_enc m doff dlen soff slen key nonce ad :
  judge (OGcmEnc m doff dlen soff slen key nonce ad) (run (OGcmEnc m doff dlen soff slen key nonce ad)) = true.
Proof.
  cbn [spec_ok run_op]. unfold gcm_encrypt_mem.
  destruct (good_key key) eqn:Hk; cbn [negb orb]; [|reflexivity].
  destruct (length nonce =? 0) eqn:Hn; [reflexivity|].
  destruct (_ && _) eqn:C; [|reflexivity].
  apply andb_true_iff in C. destruct C as [C Hdl]. apply andb_true_iff in C. destruct C as [Hv Hlay].
  unfold views_ok in Hv. apply andb_true_iff in Hv. destruct Hv as [Hv1 Hv2].
  apply Nat.eqb_eq in Hdl. apply Nat.leb_le in Hv1. apply Nat.leb_le in Hv2. subst dlen.
  rewrite TAG_eq. destruct (Nat.leb_spec (slen + 16) (slen + 16)); [|lia].
  rewrite (layout_sub_no_inexact doff (slen + 16) soff slen slen Hlay) by lia. cbn [enc_res].
  apply list_eqb_refl.
Qed.

Lemma mwrite_nil (m : bytes) off : off <= length m -> mwrite m off [] = m.
Proof. intros H. unfold mwrite. cbn [app length]. rewrite Nat.add_0_r. apply firstn_skipn. Qed.

Lemma refine_gcm_dec mf m doff dlen soff slen key nonce ad :
  (mf = true -> open key nonce (mread m soff slen) ad = None) ->
  judge (OGcmDec mf m doff dlen soff slen key nonce ad) (run (OGcmDec mf m doff dlen soff slen key nonce ad)) = true.
Proof.
  intros Hmf. cbn [spec_ok run_op]. unfold gcm_decrypt_mem.
  destruct (good_key key) eqn:Hk; cbn [negb orb]; [|reflexivity].
  destruct (length nonce =? 0) eqn:Hn; [reflexivity|].
  destruct (views_ok m doff dlen soff slen && layout_ok doff dlen soff slen) eqn:C; cbn [negb]; [|reflexivity].
  apply andb_true_iff in C. destruct C as [Hv Hlay].
  unfold views_ok in Hv. apply andb_true_iff in Hv. destruct Hv as [Hv1 Hv2]. apply Nat.leb_le in Hv1. apply Nat.leb_le in Hv2.
  rewrite TAG_eq. set (ct := mread m soff slen) in *.
  assert (Lc : length ct = slen) by (apply mread_length; exact Hv2).
  (* the model never panics under a documented layout, and fails where open fails *)
  assert (Hnone : open key nonce ct ad = None ->
            is_err (enc_res (fun x => x)
              (if slen <? 16 then Err E_OPEN else
               if (slen - 16 <=? dlen) && inexact_overlap doff (slen - 16) soff (slen - 16) then Panic else
               match open key nonce ct ad with
               | None => Err E_OPEN
               | Some p => if slen - 16 <=? dlen
                           then let m' := mwrite m doff p in
                                if beq (mread m' (soff + (slen - 16)) 16) (mread m (soff + (slen - 16)) 16) then Ok m' else Err E_OPEN
                           else Ok m
               end)) = true).
  { intros Ho. destruct (slen <? 16); [reflexivity|].
    destruct (Nat.leb_spec (slen - 16) dlen); cbn [andb].
    - rewrite (layout_sub_no_inexact doff dlen soff slen (slen - 16) Hlay) by lia. rewrite Ho. reflexivity.
    - rewrite Ho. reflexivity. }
  destruct mf.
  { apply Hnone. apply Hmf. reflexivity. }
  destruct (open key nonce ct ad) as [p|] eqn:Eo; [|apply Hnone; reflexivity].
  destruct (Nat.eqb_spec (dlen + 16) slen) as [Hdl|]; [|reflexivity].
  pose proof (open_len _ _ _ _ _ Eo) as Lp. rewrite Lc in Lp.
  destruct (Nat.ltb_spec slen 16); [lia|]. replace (slen - 16) with dlen by lia.
  rewrite Nat.leb_refl. cbn [andb]. rewrite (layout_sub_no_inexact doff dlen soff slen dlen Hlay) by lia.
  (* the tag of the source survives the write *)
  assert (Htag : mread (mwrite m doff p) (soff + dlen) 16 = mread m (soff + dlen) 16).
  { destruct (Nat.eq_dec dlen 0) as [Z0|NZ].
    - destruct p; [|cbn in Lp; lia]. rewrite mwrite_nil by lia. reflexivity.
    - pose proof (m_split m doff dlen Hv1) as Hm.
      remember (firstn doff m) as A eqn:EA. remember (mread m doff dlen) as dst eqn:Ed. remember (skipn (doff + dlen) m) as Bt eqn:EB.
      assert (LA : length A = doff) by (subst A; apply firstn_length_le; lia).
      assert (Ld : length dst = dlen) by (subst dst; apply mread_length; lia).
      assert (W : mwrite m doff p = A ++ p ++ Bt) by (rewrite Hm at 1; rewrite <- LA; apply mwrite_frame; lia).
      rewrite W. rewrite Hm. apply mread_outside; [lia|].
      unfold layout_ok in Hlay. destruct (Nat.eqb_spec doff soff) as [Eq|Ne].
      + right. lia.
      + rewrite orb_false_r in Hlay. apply negb_true_iff in Hlay. unfold any_overlap in Hlay.
        destruct (Nat.ltb_spec 0 dlen), (Nat.ltb_spec 0 slen), (Nat.ltb_spec doff (soff + slen)), (Nat.ltb_spec soff (doff + dlen));
          cbn [andb] in Hlay; try discriminate; lia. }
  rewrite Htag, beq_refl. cbn [enc_res]. apply list_eqb_refl.
Qed.

(* ---- every case *)
Theorem model_meets_spec o : op_wf open o -> judge o (run o) = true.
Proof.
  destruct o as [w n|m doff dlen soff slen key iv|m doff dlen soff slen key iv|m doff dlen soff slen key nonce ad|
                 mf m doff dlen soff slen key nonce ad|d bs|d bs|d|d]; intros Hwf.
  - apply refine_len.
  - apply refine_cbc_enc.
  - apply refine_cbc_dec.
  - apply refine_gcm_enc.
  - apply refine_gcm_dec. intros ->. exact Hwf.
  - apply refine_pad.
  - apply refine_unpad. exact Hwf.
  - apply refine_pad5.
  - apply refine_unpad5. exact Hwf.
Qed.
End Refine.

(* the premises of [model_meets_spec] are jointly satisfiable: a self-inverse toy block function, the chains over it
   as "library CBC", a toy AEAD *)
Definition toy_open16 (k n c a : bytes) : option bytes := if length c <? 16 then None else Some (firstn (length c - 16) c).
Example refine_premises_satisfiable :
  (forall k b, good_key k = true -> length b = 16 -> toyE k (toyE k b) = b) /\
  (forall k b, good_key k = true -> length b = 16 -> length (toyE k b) = 16) /\
  (forall k n c a p, toy_open16 k n c a = Some p -> length c = length p + 16) /\
  (forall k iv d, good_key k = true -> length iv = 16 -> length d mod 16 = 0 -> cbc_enc_bytes toyE k iv d = cbc_enc_bytes toyE k iv d).
Proof.
  repeat split; try (intros; apply toy_cipher_ok; assumption).
  intros k n c a p. unfold toy_open16. destruct (Nat.ltb_spec (length c) 16) as [Hlt|Hge]; [discriminate|].
  intros Hs. inversion Hs. rewrite firstn_length. lia.
Qed.
