(* C05 — operation sequences with REBUILDS: Insert*; Build; Insert*; Build; ...  After every BuildFailureLinks the table is
   THE SAME TABLE as the one obtained by inserting all patterns so far into the empty trie and building once.  Hence every
   theorem with the premise [built ps T] holds for the trie of every operation sequence that ends with a build.

   Why: Insert never looks at fail links and appends new nodes at the end of the table; BuildFailureLinks rewrites the fail
   link of every non-root node and reads only links it has already rewritten (Proofs/TrieBuild.v: build_correct_gen needs
   only a nil root link), so stale links left by an earlier build do not matter. *)
From Coq Require Import List ZArith Lia Bool Arith.
From V Require Import Lib.Utf8 Lib.Enc Model.Trie Model.TrieCase Proofs.TrieTable Proofs.TrieInsert Proofs.TrieRunes Proofs.TrieAbs
  Proofs.TrieBuild Proofs.TrieTop Proofs.TrieJudge.
Import ListNotations.

Module M := V.Model.Trie.
Module A := V.Proofs.TrieAbs.

(* ------------------------------------------------------------------ tables that differ only in fail links *)
(* same key list; per key the same children, size, end flag *)
Definition Q (X Y : trie) : Prop := map fst X = map fst Y /\ SE Y X.

Lemma SE_sym X Y : SE X Y -> SE Y X.
Proof. intros H w. symmetry. apply H. Qed.
Lemma SE_trans X Y Z : SE X Y -> SE Y Z -> SE X Z.
Proof. intros H1 H2 w. rewrite (H2 w). apply H1. Qed.
Lemma Q_refl X : Q X X.
Proof. split; [reflexivity|intros w; reflexivity]. Qed.
Lemma Q_trans X Y Z : Q X Y -> Q Y Z -> Q X Z.
Proof. intros [K1 S1] [K2 S2]. split; [congruence|]. apply (SE_trans Z Y X); assumption. Qed.

Lemma Q_kids X Y w : Q X Y -> kids_of X w = kids_of Y w.
Proof. intros [_ H]. apply (SE_kids Y X w H). Qed.
Lemma Q_inT X Y w : Q X Y -> inT X w = inT Y w.
Proof. intros [_ H]. apply (SE_inT Y X w H). Qed.

Lemma Q_upd X Y w f : (forall n m, (kids n, nsize n, isEnd n) = (kids m, nsize m, isEnd m) ->
                                   (kids (f n), nsize (f n), isEnd (f n)) = (kids (f m), nsize (f m), isEnd (f m))) ->
  Q X Y -> Q (upd X w f) (upd Y w f).
Proof.
  intros Hf [K S]. split; [rewrite !upd_keys; exact K|]. intros v. rewrite !get_upd. destruct (weqb w v); [|apply S].
  specialize (S v). destruct (get X v), (get Y v); cbn [option_map] in *; try discriminate; [|reflexivity].
  f_equal. apply Hf. congruence.
Qed.
Lemma Q_app X Y k n : Q X Y -> Q (X ++ [(k, n)]) (Y ++ [(k, n)]).
Proof.
  intros [K S]. split; [rewrite !map_app, K; reflexivity|]. intros v. rewrite !get_app. specialize (S v).
  destruct (get X v), (get Y v); cbn [option_map] in *; try discriminate; [exact S|reflexivity].
Qed.

Lemma Q_insert_go : forall toks X Y cur i, Q X Y -> Q (insert_go X cur i toks) (insert_go Y cur i toks).
Proof.
  induction toks as [|[r wd] rest IH]; intros X Y cur i H; cbn [insert_go].
  - apply Q_upd; [|exact H]. intros n m E. cbn [set_end kids nsize isEnd]. congruence.
  - cbv zeta. rewrite (Q_kids X Y cur H). destruct (_ || _).
    + apply IH. apply Q_app. apply Q_upd; [|exact H]. intros n m E. cbn [set_kids kids nsize isEnd]. congruence.
    + apply IH. exact H.
Qed.
Lemma Q_insert X Y p : Q X Y -> Q (insert X p) (insert Y p).
Proof. intros H. destruct p; [exact H|]. apply Q_insert_go. exact H. Qed.

(* Insert leaves every fail link alone *)
Lemma fail_insert_go : forall toks X cur i w, fail_of (insert_go X cur i toks) w = fail_of X w.
Proof.
  induction toks as [|[r wd] rest IH]; intros X cur i w; cbn [insert_go].
  - apply fail_upd_keep. reflexivity.
  - cbv zeta. destruct (_ || _); [|apply IH]. fold (add_child X cur r (i + Z.of_nat wd)). rewrite IH. apply fail_add_child.
Qed.
Lemma fail_insert X p w : fail_of (insert X p) w = fail_of X w.
Proof. destruct p; [reflexivity|]. apply fail_insert_go. Qed.

Lemma WF_Q X Y : Q X Y -> WF Y -> WF X.
Proof.
  intros H [W1 W2 W3 W4 W5]. constructor.
  - rewrite (Q_inT X Y _ H). exact W1.
  - intros w c. rewrite !(Q_inT X Y _ H). apply W2.
  - intros w c. rewrite (Q_kids X Y _ H), (Q_inT X Y _ H). apply W3.
  - intros w. rewrite (Q_kids X Y _ H). apply W4.
  - rewrite (proj1 H). exact W5.
Qed.

(* ------------------------------------------------------------------ BuildFailureLinks keeps the key list *)
Lemma process_keys fuel curr : forall cs X q X' q', M.process fuel X q curr cs = Some (X', q') -> map fst X' = map fst X.
Proof.
  induction cs as [|c cs IH]; intros X q X' q' E; cbn [M.process] in E; [inversion E; reflexivity|].
  destruct (M.chain_find fuel X (fail_of X curr) c); [|discriminate]. apply IH in E. rewrite E. apply upd_keys.
Qed.
Lemma bfs_keys : forall fuel X q X', M.bfs fuel X q = Some X' -> map fst X' = map fst X.
Proof.
  induction fuel as [|k IH]; intros X q X' E; [discriminate|]. cbn [M.bfs] in E. destruct (q_pop q) as [q1 [curr|]]; [|inversion E; reflexivity].
  destruct (M.process _ X q1 curr _) as [[X1 q2]|] eqn:Ep; [|discriminate]. apply IH in E. apply process_keys in Ep. congruence.
Qed.
Lemma init_keys : forall cs X q,
  map fst (fst (fold_left (fun (st : trie * queue) c => (set_fail (fst st) [c] [], q_push (snd st) [c])) cs (X, q))) = map fst X.
Proof.
  induction cs as [|c cs IH]; intros X q; cbn [fold_left fst snd]; [reflexivity|]. rewrite IH. apply upd_keys.
Qed.
Lemma build_keys X X' : M.build X = Some X' -> map fst X' = map fst X.
Proof.
  unfold M.build, M.init_links. intros E. pose proof (init_keys (kids_of X []) X q_init) as K.
  destruct (fold_left _ (kids_of X []) (X, q_init)) as [X1 q1]. cbn [fst] in K. apply bfs_keys in E. congruence.
Qed.

(* ------------------------------------------------------------------ extensionality of tables *)
Lemma table_ext : forall X Y : trie, map fst X = map fst Y -> NoDup (map fst X) -> (forall w, get X w = get Y w) -> X = Y.
Proof.
  induction X as [|[k n] X IH]; intros [|[k' n'] Y] K Hn Hg; try discriminate; [reflexivity|].
  cbn [map fst] in K, Hn. injection K as -> K. inversion Hn as [|? ? Hk Hn']; subst.
  pose proof (Hg k') as Hk'. cbn [get] in Hk'. rewrite weqb_refl in Hk'. injection Hk' as ->. f_equal. apply IH; auto.
  intros w. specialize (Hg w). cbn [get] in Hg. destruct (weqb k' w) eqn:E; [|exact Hg].
  apply weqb_eq in E. subst w. rewrite (proj2 (get_none_keys X k') Hk). symmetry. apply get_none_keys. rewrite <- K. exact Hk.
Qed.

Lemma lps_ext (f g : list Z -> bool) w : (forall v, f v = g v) -> A.lps f w = A.lps g w.
Proof. intros H. unfold A.lps. f_equal. apply filter_ext. exact H. Qed.

(* ------------------------------------------------------------------ one build, from a table with stale links *)
Theorem rebuild_canon X Y Y' : Q X Y -> WF Y -> fail_of X [] = None -> fail_of Y [] = None ->
  M.build Y = Some Y' -> M.build X = Some Y' /\ Q Y' Y /\ fail_of Y' [] = None.
Proof.
  intros HQ HWY HX0 HY0 EY. pose proof (WF_Q X Y HQ HWY) as HWX.
  destruct (build_correct_gen X HWX HX0) as (X' & EX & SX & FX & _ & ZX).
  destruct (build_correct_gen Y HWY HY0) as (Y2 & EY2 & SY & FY & _ & ZY). rewrite EY in EY2. injection EY2 as <-.
  assert (KX : map fst X' = map fst Y') by (rewrite (build_keys X X' EX), (build_keys Y Y' EY); exact (proj1 HQ)).
  assert (E : X' = Y').
  { apply table_ext; [exact KX| |].
    - rewrite KX, (build_keys Y Y' EY). apply (wf_nodup Y HWY).
    - intros w.
      assert (Hs : option_map (fun n => (kids n, nsize n, isEnd n)) (get X' w) = option_map (fun n => (kids n, nsize n, isEnd n)) (get Y' w)).
      { rewrite (SX w), (SY w). apply (proj2 HQ w). }
      assert (Hf : fail_of X' w = fail_of Y' w).
      { destruct w as [|a t]; [congruence|]. destruct (inT Y (a :: t)) eqn:Hin.
        - rewrite (FX (a :: t)) by (try (unfold inT0; rewrite (Q_inT X Y _ HQ)); auto; discriminate).
          rewrite (FY (a :: t)) by (auto; discriminate). f_equal. apply lps_ext. intros v. apply (Q_inT X Y v HQ).
        - assert (H1 : inT X' (a :: t) = false) by (rewrite (SE_inT X X' _ SX); unfold inT0; rewrite (Q_inT X Y _ HQ); exact Hin).
          assert (H2 : inT Y' (a :: t) = false) by (rewrite (SE_inT Y Y' _ SY); exact Hin).
          unfold inT in H1, H2. unfold fail_of. destruct (get X' (a :: t)); [discriminate|]. destruct (get Y' (a :: t)); [discriminate|reflexivity]. }
      unfold fail_of in Hf. destruct (get X' w) as [[k1 f1 s1 e1]|], (get Y' w) as [[k2 f2 s2 e2]|]; cbn [option_map kids nsize isEnd fail] in *;
        try discriminate; [|reflexivity]. congruence. }
  subst X'. split; [exact EX|]. split; [|exact ZY]. split; [apply (build_keys Y Y' EY)|exact SY].
Qed.

(* ------------------------------------------------------------------ every operation sequence *)
Lemma canonical_cons o r : r <> [] -> canonical (o :: r) = canonical r.
Proof.
  intros H. unfold canonical. cbn [rev]. destruct (rev r) as [|x l] eqn:E; [|reflexivity].
  exfalso. apply H. rewrite <- (rev_involutive r), E. reflexivity.
Qed.
Lemma inserts_snoc ps p : inserts (ps ++ [p]) = insert (inserts ps) p.
Proof. unfold inserts. rewrite fold_left_app. reflexivity. Qed.
Lemma inserts_nofail ps w : fail_of (inserts ps) w = None.
Proof. apply (ins_fail _ _ (INS_inserts ps)). Qed.

Lemma run_ops_inv : forall ops X ps, Q X (inserts ps) -> fail_of X [] = None ->
  exists X', run_ops X ops = Some X' /\ Q X' (inserts (ps ++ inserted ops)) /\ fail_of X' [] = None /\
             (canonical ops = true -> built (ps ++ inserted ops) X').
Proof.
  induction ops as [|[p|] r IH]; intros X ps HQ H0; cbn [run_ops inserted].
  - exists X. rewrite app_nil_r. split; [reflexivity|]. split; [exact HQ|]. split; [exact H0|discriminate].
  - destruct (IH (insert X p) (ps ++ [p])) as (X' & E & Q' & Z' & B').
    + rewrite inserts_snoc. apply Q_insert. exact HQ.
    + rewrite fail_insert. exact H0.
    + rewrite <- app_assoc in Q', B'. cbn [app] in Q', B'. exists X'. split; [exact E|]. split; [exact Q'|]. split; [exact Z'|].
      intros Hc. apply B'. destruct r as [|o r']; [discriminate Hc|]. rewrite canonical_cons in Hc by discriminate. exact Hc.
  - destruct (built_exists ps) as (Y' & EY). pose proof (INS_inserts ps) as HI.
    destruct (rebuild_canon X (inserts ps) Y' HQ (ins_wf _ _ HI) H0 (inserts_nofail ps []) EY) as (EX & QY & ZY).
    rewrite EX. destruct (IH Y' ps QY ZY) as (X' & E & Q' & Z' & B'). exists X'. split; [exact E|]. split; [exact Q'|]. split; [exact Z'|].
    intros Hc. destruct r as [|o r'].
    + cbn [run_ops] in E. injection E as <-. cbn [inserted]. rewrite app_nil_r. exact EY.
    + apply B'. rewrite canonical_cons in Hc by discriminate. exact Hc.
Qed.

(* BuildFailureLinks never runs out of fuel, whatever the sequence; when the sequence ends with a build the table is the
   one-shot table of the inserted patterns *)
Theorem run_ops_canonical ops : exists T, run_ops empty_trie ops = Some T /\ (canonical ops = true -> built (inserted ops) T).
Proof.
  destruct (run_ops_inv ops empty_trie [] (Q_refl _) eq_refl) as (T & E & _ & _ & B). exists T. split; [exact E|exact B].
Qed.
Corollary run_ops_built ops T : canonical ops = true -> run_ops empty_trie ops = Some T -> built (inserted ops) T.
Proof. intros Hc E. destruct (run_ops_canonical ops) as (T' & E' & B). rewrite E in E'. injection E' as <-. apply B. exact Hc. Qed.

(* the run's judge accepts the model's own output on EVERY case (rebuilds included; a case whose last operation is not a
   build is not judged: c05_ok answers true by definition) *)
Theorem judge_accepts_model_ops ops text : Forall is_bytes (inserted ops) -> is_bytes text ->
  c05_ok ops text (c05_model ops text) = true.
Proof.
  intros Hps Hb. unfold c05_ok. destruct (canonical ops) eqn:Ec; [|reflexivity]. cbn [negb].
  destruct (run_ops_canonical ops) as (T & ER & HB). specialize (HB Ec). unfold c05_model. rewrite ER.
  destruct (model_accepted (inserted ops) text T Hps Hb HB) as (Hm & (l1 & E1 & P1) & (l2 & E2 & P2) & (l3 & E3 & P3)).
  rewrite Hm, E1, E2, E3. cbn [enc_bool_res enc_list_res cat_opts out_of app].
  rewrite !get_strings_enc. rewrite Z.eqb_refl, P1, P2, P3. reflexivity.
Qed.

(* a rebuild case: Insert "ab"; Build; Insert "b"; Build — canonical, so the premise of run_ops_built is satisfiable *)
Example rebuild_example : canonical [OInsert [97;98]; OBuild; OInsert [98]; OBuild]%Z = true /\
  inserted [OInsert [97;98]; OBuild; OInsert [98]; OBuild]%Z = [[97;98]; [98]]%Z.
Proof. split; reflexivity. Qed.

(* ------------------------------------------------------------------ all five queries after any sequence ending with a build *)
From V Require Import Model.TrieOrder Proofs.TrieFuzzy Proofs.TrieOrderFind Proofs.TrieOrderTop.

Theorem queries_after_rebuilds ops text T : Forall is_bytes (inserted ops) -> is_bytes text ->
  canonical ops = true -> run_ops empty_trie ops = Some T ->
  let ps := inserted ops in
  M.match_ T text = Ok (spec_match (mode_of ps) ps text) /\
  M.find T text = Ok (map scope_of (occs true ps text)) /\
  M.find_all T text = Ok (spec_find_all (mode_of ps) ps text) /\
  M.prefix_search T text = Ok (spec_prefix_ordered (negb (valid_utf8 text)) ps text) /\
  (exists l, M.fuzzy_search T text = Ok l /\ forall y, In y l -> In y ps /\ y <> []).
Proof.
  intros Hps Hb Hc E ps. pose proof (run_ops_built ops T Hc E) as HB. fold ps in HB, Hps.
  destruct (model_equals_ordered_spec ps text T Hps Hb HB) as (H1 & H2 & H3).
  split; [exact H1|]. split; [apply (find_order ps text T Hps Hb HB)|]. split; [exact H2|]. split; [exact H3|].
  apply (fuzzy_search_sound ps text T Hps Hb HB).
Qed.
