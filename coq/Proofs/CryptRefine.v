(* C09, refinement: for EVERY case the model's output is accepted by the judge spec_ok that Run/C09 `sub 2` executes,
   when the library's whole-message CBC / CTR are the SP 800-38A chains over the block function. *)
From Coq Require Import List ZArith Lia Bool Arith.
From V Require Import Lib.Enc Gen.Cryptz Model.Aes Model.Crypt Proofs.AesPkcs7 Proofs.AesCbc Proofs.AesMem Proofs.AesRefine
  Proofs.CryptKdf Proofs.CryptEnv Proofs.CryptStream.
Import ListNotations.

Lemma beq_list_eqb a : forall b, beq a b = list_eqb a b.
Proof. induction a as [|x a IH]; intros [|y b]; cbn [beq list_eqb]; try reflexivity. Qed.
Lemma get_list_put_app (a b : list Z) : fst (get_list (put_list a ++ b)) = a /\ hd0 (put_list a ++ b) = Z.of_nat (length a).
Proof.
  unfold put_list, get_list. cbn [app hd0]. rewrite Nat2Z.id. cbn [fst]. split; [|reflexivity].
  rewrite firstn_app, Nat.sub_diag, firstn_all. cbn [firstn]. apply app_nil_r.
Qed.

Lemma read_eof_term r n c r' : read r n = (c, REof, r') -> r_term r <> 2%Z.
Proof.
  unfold read. destruct (r_chunks r) as [|ch t].
  - destruct (Z.eqb_spec (r_term r) 2); [discriminate|auto].
  - destruct (length ch =? 0); [discriminate|]. destruct (length ch <=? n); [|discriminate].
    destruct t; cbn [andb]; [|discriminate]. destruct (Z.eqb_spec (r_term r) 1); [lia|discriminate].
Qed.

Definition op_wf9 (open : bytes -> bytes -> bytes -> bytes -> option bytes) (md5 : bytes -> bytes) (o : op) : Prop :=
  match o with
  | OEnc (Some salt) _ _ | OSCEnc (Some salt) _ _ | OGEnc (Some salt) _ _ _ | OSGEnc (Some salt) _ _ _ => length salt = 8
  | OGDec true i s a => match hex_decode i with Some raw => spec_gcm_open open md5 raw s a = None | None => True end
  | OSGDec true _ c s a => spec_gcm_open open md5 c s a = None
  | OEncStream B (Some salt) _ _ _ => 0 < B /\ length salt = 8
  | OEncStream B None _ _ _ => 0 < B
  | ODecStream B _ _ _ => 0 < B
  | _ => True
  end.

Section Refine.
Variable E D : bytes -> bytes -> bytes.
Variable seal : bytes -> bytes -> bytes -> bytes -> bytes.
Variable open : bytes -> bytes -> bytes -> bytes -> option bytes.
Variable md5 : bytes -> bytes.
Variable b64enc : bytes -> bytes.
Variable b64dec : bytes -> option bytes.
Variable std_enc std_dec std_ctr : bytes -> bytes -> bytes -> bytes.
Hypothesis md5_len : forall m, length (md5 m) = 16.
Hypothesis D_E : forall k b, good_key k = true -> length b = 16 -> D k (E k b) = b.
Hypothesis E_len : forall k b, good_key k = true -> length b = 16 -> length (E k b) = 16.
Hypothesis D_len : forall k b, good_key k = true -> length b = 16 -> length (D k b) = 16.
Hypothesis open_seal : forall k n p a, good_key k = true -> n <> [] -> open k n (seal k n p a) a = Some p.
Hypothesis seal_len : forall k n p a, length (seal k n p a) = length p + 16.
Hypothesis open_len : forall k n c a p, open k n c a = Some p -> length c = length p + 16.
Hypothesis std_enc_chain : forall k iv d, good_key k = true -> length iv = 16 -> length d mod 16 = 0 ->
  std_enc k iv d = cbc_enc_bytes E k iv d.
Hypothesis std_dec_chain : forall k iv d, good_key k = true -> length iv = 16 -> length d mod 16 = 0 ->
  std_dec k iv d = cbc_dec_bytes D k iv d.
Hypothesis std_ctr_chain : forall k iv d n, good_key k = true -> length iv = 16 -> length d <= 16 * n ->
  std_ctr k iv d = xor d (keystream E k iv n).

Local Notation run := (run_op E D seal open md5 b64enc b64dec).
Local Notation judge := (spec_ok std_enc std_dec std_ctr seal open md5 b64enc b64dec).
Local Notation evp := (evp md5).

Lemma evp_iv_eq s salt : evp_iv md5 s salt = skipn 32 (evp s salt).
Proof. unfold evp_iv. apply firstn_all2. destruct (key_iv_evp md5 md5_len s salt) as (_ & _ & L). lia. Qed.

(* ---- CBC envelope *)
Lemma spec_cbc_message_eq (salt p s : bytes) : length salt = 8 ->
  salt_cbc_encrypt E md5 (Some salt) p s = Ok (spec_cbc_message std_enc md5 salt p s).
Proof.
  intros Hs. destruct (salt_cbc_encrypt_format E D md5 md5_len D_E E_len salt p s Hs) as [Ef _].
  etransitivity; [exact Ef|]. f_equal.
  unfold spec_cbc_message, evp_key, spec_pad_len. rewrite evp_iv_eq.
  destruct (key_iv_evp md5 md5_len s salt) as (_ & Lk & Li). destruct (pad_len_facts (length p)) as (_ & K2 & _).
  rewrite std_enc_chain; [reflexivity|apply good_key_32; exact Lk|exact Li|].
  unfold pkcs7_padded. rewrite app_length, repeat_length. exact K2.
Qed.

Lemma scdec_vs_spec raw s reuse :
  match spec_cbc_open std_dec md5 raw s with
  | Some p => exists buf, salt_cbc_decrypt D md5 raw s reuse = Ok (p, buf)
  | None => exists e, salt_cbc_decrypt D md5 raw s reuse = Err e
  end.
Proof.
  unfold spec_cbc_open, salt_cbc_decrypt. rewrite masked_mod, BS_eq. change (2 * 16) with 32.
  destruct (Nat.ltb_spec (length raw) 32) as [|Hlen]; cbn [orb]; [eauto|].
  destruct (Nat.eqb_spec (length raw mod 16) 0) as [Hm|]; cbn [negb orb]; [|eauto].
  rewrite (slice_ok raw 0 8) by lia. cbn [of_opt bind]. rewrite skipn_O. change (8 - 0) with 8.
  change (beq (firstn 8 raw) header) with (list_eqb (firstn 8 raw) header). destruct (list_eqb (firstn 8 raw) header); cbn [negb orb]; [|eauto].
  rewrite (slice_ok raw 8 16) by lia. cbn [of_opt bind]. change (16 - 8) with 8. set (salt := firstn 8 (skipn 8 raw)).
  rewrite (fill_cred_ok md5 md5_len). cbn [bind].
  destruct (key_iv_evp md5 md5_len s salt) as (Ek & Lk & Li). rewrite Ek. cbn [bind].
  rewrite (slice_ok raw 16 (length raw)) by lia. cbn [of_opt bind].
  rewrite (firstn_all2 (n := length raw - 16)) by (rewrite skipn_length; lia).
  unfold evp_key. rewrite evp_iv_eq. set (key := firstn 32 (evp s salt)) in *. set (iv := skipn 32 (evp s salt)) in *.
  set (body := skipn 16 raw). assert (Lb : length body = length raw - 16) by (unfold body; apply skipn_length).
  assert (Hbm : length body mod 16 = 0).
  { rewrite Lb. apply Nat.mod_divides in Hm; [|lia]. destruct Hm as [q Hq]. rewrite Hq. destruct q; [lia|].
    replace (16 * S q - 16) with (q * 16) by lia. apply Nat.mod_mul. lia. }
  rewrite std_dec_chain by (auto using good_key_32).
  assert (Ldec : length (cbc_dec_bytes D key iv body) = length body)
    by (apply (cbc_dec_bytes_length D D_len); auto using good_key_32).
  set (dec := cbc_dec_bytes D key iv body) in *.
  match goal with |- context [cbc_decrypt D ?d0 body key iv] => set (dst := d0) end.
  assert (Ld : length dst = length body) by (unfold dst; destruct reuse; rewrite ?zeros_length; reflexivity).
  unfold cbc_decrypt. rewrite masked_mod, BS_eq, Hbm, (good_key_32 key Lk), Li, Ld.
  destruct (Nat.ltb_spec (length body) 16); [lia|]. cbn [Nat.eqb negb orb]. rewrite Nat.ltb_irrefl.
  fold dec. rewrite copy_into_same by lia.
  pose proof (unpad_tbl_vs_spec dec ltac:(lia)) as U.
  destruct (spec_unpad dec 16) as [p|].
  - destruct U as (-> & Hp & Hpl). cbn [bind]. rewrite (slice_ok dec 0 (length p)) by lia. cbn [of_opt bind].
    rewrite skipn_O, Nat.sub_0_r, <- Hp. eauto.
  - destruct U as [e ->]. cbn [bind]. eauto.
Qed.

(* ---- GCM envelope *)
Lemma spec_gcm_message_eq (salt p s ad : bytes) : length salt = 8 ->
  salt_gcm_encrypt seal md5 (Some salt) p s ad = Ok (spec_gcm_message seal md5 salt p s ad).
Proof. intros Hs. etransitivity; [exact (salt_gcm_encrypt_format md5 md5_len seal open open_seal seal_len salt p s ad Hs)|reflexivity]. Qed.

Lemma sgdec_vs_spec raw s ad reuse :
  match spec_gcm_open open md5 raw s ad with
  | Some p => exists buf, salt_gcm_decrypt open md5 raw s ad reuse = Ok (p, buf)
  | None => exists e, salt_gcm_decrypt open md5 raw s ad reuse = Err e
  end.
Proof.
  unfold spec_gcm_open, salt_gcm_decrypt. rewrite BS_eq, TAG_eq.
  destruct (Nat.ltb_spec (length raw) 16) as [|Hlen]; cbn [orb]; [eauto|].
  rewrite (slice_ok raw 0 8) by lia. cbn [of_opt bind]. rewrite skipn_O. change (8 - 0) with 8.
  change (beq (firstn 8 raw) header) with (list_eqb (firstn 8 raw) header). destruct (list_eqb (firstn 8 raw) header); cbn [negb orb]; [|eauto].
  rewrite (slice_ok raw 8 16) by lia. cbn [of_opt bind]. change (16 - 8) with 8. set (salt := firstn 8 (skipn 8 raw)).
  rewrite (fill_cred_ok md5 md5_len). cbn [bind].
  destruct (key_nonce_evp md5 md5_len s salt) as (Ek & Lk & Ln). rewrite Ek. cbn [bind].
  rewrite (slice_ok raw 16 (length raw)) by lia. cbn [of_opt bind].
  rewrite (firstn_all2 (n := length raw - 16)) by (rewrite skipn_length; lia).
  unfold evp_key, evp_nonce. set (key := firstn 32 (evp s salt)) in *. set (nonce := firstn 12 (skipn 32 (evp s salt))) in *.
  set (body := skipn 16 raw).
  match goal with |- context [gcm_decrypt open ?d0 body key nonce ad] => set (dst := d0) end.
  assert (Ld : length dst = length body) by (unfold dst; destruct reuse; rewrite ?zeros_length; reflexivity).
  unfold gcm_decrypt. rewrite (good_key_32 key Lk). cbn [negb].
  assert (Hn0 : (length nonce =? 0) = false) by (rewrite Ln; reflexivity). rewrite Hn0.
  destruct (open key nonce body ad) as [p|] eqn:Eo; cbn [bind]; [|eauto].
  apply open_len in Eo. rewrite TAG_eq. destruct (Nat.leb_spec (length body - 16) (length dst)); [|lia]. cbn [bind].
  rewrite copy_into_length. destruct (Nat.ltb_spec (length dst) 16); [lia|].
  rewrite slice_ok by (rewrite ?copy_into_length; lia). cbn [of_opt bind]. rewrite skipn_O, Nat.sub_0_r.
  rewrite copy_into_prefix by lia. replace (length dst - 16) with (length p) by lia.
  rewrite firstn_len_app by reflexivity. eauto.
Qed.

Lemma out_is_ok p : out_is (0%Z :: p) (Some p) = true. Proof. apply list_eqb_refl. Qed.
Lemma out_fst_ok p buf : out_fst_is (enc_res enc_pair (Ok (p, buf))) (Some p) = true.
Proof.
  cbn [enc_res out_fst_is]. unfold enc_pair. cbn [fst snd]. destruct (get_list_put_app p (put_list buf)) as [G1 G2].
  rewrite G1, G2, list_eqb_refl, Z.eqb_refl. reflexivity.
Qed.

(* ---- streams *)
Section Streams.
Variable B : nat.
Hypothesis B_pos : 0 < B.

Lemma copy_loop_term2 ks : forall fuel r pos w, r_term r = 2%Z -> fst (copy_loop fuel B ks r pos w) <> 0%Z.
Proof.
  induction fuel as [|f IH]; intros r pos w Ht; [cbn; discriminate|].
  cbn [copy_loop]. pose proof (read_spec r B B_pos) as R. destruct (read r B) as [[c st] r'] eqn:Er.
  destruct R as (_ & Etm & _).
  destruct (if length c =? 0 then Some w else write w (xor_at ks pos c)) as [w'|]; [|cbn; discriminate].
  destruct st.
  - apply IH. congruence.
  - exfalso. apply (read_eof_term r B c r' Er). exact Ht.
  - cbn. discriminate.
Qed.

Lemma read_full_len : forall fuel r need acc h r', read_full fuel r need acc = HOk h r' ->
  length h = length acc + need /\ r_term r' = r_term r.
Proof.
  induction fuel as [|f IH]; intros r need acc h r' Hrf; destruct need as [|nd]; cbn [read_full] in Hrf; try discriminate.
  - inversion Hrf; subst. split; [lia|reflexivity].
  - inversion Hrf; subst. split; [lia|reflexivity].
  - pose proof (read_spec r (S nd) ltac:(lia)) as R. destruct (read r (S nd)) as [[c st] r1].
    destruct R as (_ & Etm & Hc & _).
    destruct st.
    + apply IH in Hrf. destruct Hrf as [L T]. rewrite app_length in L. split; [lia|congruence].
    + destruct (Nat.eqb_spec (S nd - length c) 0); [|discriminate]. inversion Hrf; subst. rewrite app_length. split; [lia|exact Etm].
    + destruct (Nat.eqb_spec (S nd - length c) 0); [|discriminate]. inversion Hrf; subst. rewrite app_length. split; [lia|exact Etm].
Qed.

Lemma stream_out_parse code (w : writer) :
  enc_res enc_stream (Ok (code, w)) = 0%Z :: code :: put_list (w_out w) ++ put_list (map Z.of_nat (w_sizes w)).
Proof. reflexivity. Qed.

(* EncryptStreamTo always returns (never panics); its result code in the error situations *)
Lemma enc_stream_shape salt r wb s :
  exists code w', encrypt_stream E md5 B (Some salt) r (new_writer wb) s = Ok (code, w') /\
    (r_term r = 2%Z -> code <> 0%Z) /\ ((wb < 2)%Z -> code <> 0%Z).
Proof.
  destruct (key_iv_evp md5 md5_len s salt) as (Ek & Lk & Li).
  unfold encrypt_stream. rewrite (fill_cred_ok md5 md5_len). cbn [bind]. rewrite Ek. cbn [bind].
  rewrite (good_key_32 _ Lk). cbn [negb]. unfold write at 1. cbn [new_writer w_budget w_out w_sizes].
  destruct (Z.leb_spec wb 0) as [H0|H0].
  { do 2 eexists. split; [reflexivity|]. split; intros _; discriminate. }
  unfold write at 1. cbn [w_budget w_out w_sizes].
  destruct (Z.leb_spec (wb - 1) 0) as [H1|H1].
  { do 2 eexists. split; [reflexivity|]. split; intros _; discriminate. }
  rewrite BS_eq, Li. cbn [Nat.eqb negb].
  match goal with |- context [copy_loop ?f B ?ks r 0 ?w2] => pose proof (copy_loop_term2 ks f r 0 w2) as Hc;
    destruct (copy_loop f B ks r 0 w2) as [code w'] end.
  cbn [fst] in Hc. exists code, w'. split; [reflexivity|]. split; [exact Hc|lia].
Qed.

Lemma refine_enc_stream osalt r wb s :
  match osalt with Some salt => length salt = 8 | None => True end ->
  judge (OEncStream B osalt r wb s) (run (OEncStream B osalt r wb s)) = true.
Proof.
  intros Hs. cbn [spec_ok run_op]. destruct osalt as [salt|].
  2:{ cbn [encrypt_stream enc_res enc_stream fst]. reflexivity. }
  destruct (key_iv_evp md5 md5_len s salt) as (Ek & Lk & Li).
  destruct (enc_stream_shape salt r wb s) as (code & w' & Eok & Ht2 & Hw2).
  match goal with |- context [enc_res enc_stream ?t] => change t with (encrypt_stream E md5 B (@Some bytes salt) r (new_writer wb) s) end.
  rewrite Eok, stream_out_parse.
  destruct (get_list_put_app (w_out w') (put_list (map Z.of_nat (w_sizes w')))) as [G _]. rewrite G.
  unfold data_before_error. destruct (Z.eqb_spec (r_term r) 2) as [T2|T2]; cbn [negb].
  - destruct (Z.eqb_spec code 0); [exfalso; apply (Ht2 T2); assumption|reflexivity].
  - destruct (Z.leb_spec (Z.of_nat (length (r_data r)) + 2) wb) as [Hb|Hb].
    + destruct (encrypt_stream_any_chunking E md5 md5_len E_len B B_pos salt r wb s T2 Hs Hb) as (w2 & E2 & Eo). cbv zeta in Eo.
      assert (EE : Ok (code, w') = Ok (0%Z, w2))
        by (transitivity (encrypt_stream E md5 B (@Some bytes salt) r (new_writer wb) s); [symmetry; exact Eok|exact E2]).
      inversion EE; subst code w2. rewrite Eo. cbn [Z.eqb andb]. unfold evp_key. rewrite evp_iv_eq.
      rewrite (std_ctr_chain _ _ _ (nblocks_for r)); [apply list_eqb_refl|apply good_key_32; exact Lk|exact Li|].
      pose proof (nblocks_cover B B_pos r). lia.
    + destruct (Z.ltb_spec wb 2) as [H2|H2]; [|reflexivity].
      destruct (Z.eqb_spec code 0); [exfalso; apply (Hw2 H2); assumption|reflexivity].
Qed.

(* DecryptStreamTo always returns; with a failing reader the result is an error *)
Lemma dec_stream_shape r wb s :
  exists code w', decrypt_stream E md5 B r (new_writer wb) s = Ok (code, w') /\ (r_term r = 2%Z -> code <> 0%Z).
Proof.
  unfold decrypt_stream. rewrite BS_eq.
  destruct (read_full (r_fuel r) r 16 []) as [h r'| |] eqn:Erf.
  - apply read_full_len in Erf. destruct Erf as [Lh Tr]. cbn [length Nat.add] in Lh.
    rewrite (slice_ok h 0 8) by lia. cbn [of_opt bind].
    destruct (negb (beq _ header)); [do 2 eexists; split; [reflexivity|intros _; discriminate]|].
    rewrite (slice_ok h 8 (length h)) by lia. cbn [of_opt bind].
    rewrite (fill_cred_ok md5 md5_len). cbn [bind].
    match goal with |- context [key_iv (evp s ?sl)] => destruct (key_iv_evp md5 md5_len s sl) as (Ek & Lk & Li); rewrite Ek end.
    cbn [bind]. rewrite (good_key_32 _ Lk), Li. cbn [negb Nat.eqb].
    match goal with |- context [copy_loop ?f B ?ks r' 0 ?w2] => pose proof (copy_loop_term2 ks f r' 0 w2) as Hc;
      destruct (copy_loop f B ks r' 0 w2) as [code w'] end.
    cbn [fst] in Hc. exists code, w'. split; [reflexivity|]. intros T2. apply Hc. congruence.
  - do 2 eexists. split; [reflexivity|intros _; discriminate].
  - do 2 eexists. split; [reflexivity|intros _; discriminate].
Qed.

Lemma refine_dec_stream r wb s : judge (ODecStream B r wb s) (run (ODecStream B r wb s)) = true.
Proof.
  cbn [spec_ok run_op].
  destruct (dec_stream_shape r wb s) as (code & w' & Eok & Ht2). rewrite Eok, stream_out_parse.
  destruct (get_list_put_app (w_out w') (put_list (map Z.of_nat (w_sizes w')))) as [G _]. rewrite G.
  unfold data_before_error. destruct (Z.eqb_spec (r_term r) 2) as [T2|T2]; cbn [negb andb].
  - destruct (Z.eqb_spec code 0); [exfalso; apply (Ht2 T2); assumption|reflexivity].
  - destruct (Z.leb_spec (Z.of_nat (length (r_data r))) wb) as [Hb|Hb]; [|reflexivity].
    destruct (Nat.leb_spec 16 (length (r_data r))) as [H16|H16]; cbn [andb].
    + destruct (list_eqb (firstn 8 (r_data r)) header) eqn:Hh.
      * apply list_eqb_true in Hh.
        destruct (decrypt_stream_any_chunking E md5 md5_len E_len B B_pos r wb s T2 Hb H16 Hh) as (w2 & E2 & Eo). cbv zeta in Eo.
        rewrite Eok in E2. inversion E2; subst code w2. rewrite Eo. cbn [Z.eqb andb]. unfold evp_key. rewrite evp_iv_eq.
        set (salt := firstn 8 (skipn 8 (r_data r))). destruct (key_iv_evp md5 md5_len s salt) as (_ & Lk & Li).
        rewrite (std_ctr_chain _ _ _ (nblocks_for r)); [apply list_eqb_refl|apply good_key_32; exact Lk|exact Li|].
        rewrite skipn_length. pose proof (nblocks_cover B B_pos r). lia.
      * assert (Hne : firstn 8 (r_data r) <> header) by (intros Heq; rewrite Heq, list_eqb_refl in Hh; discriminate).
        rewrite (decrypt_stream_bad_magic E md5 B B_pos r wb s H16 Hne) in Eok. inversion Eok; subst. reflexivity.
    + rewrite (decrypt_stream_short E md5 B B_pos r wb s H16) in Eok. inversion Eok; subst. reflexivity.
Qed.
End Streams.

(* ---- every case *)
Theorem model_meets_spec9 o : op_wf9 open md5 o -> judge o (run o) = true.
Proof.
  destruct o as [osalt p s|i s|osalt p s a|mf i s a|osalt p s|reuse c s|osalt p s a|mf reuse c s a|B osalt r wb s|B r wb s];
    intros Hwf; cbn [op_wf9] in Hwf.
  - (* Encrypt *) cbn [spec_ok run_op]. destruct osalt as [salt|]; [|reflexivity].
    unfold encrypt. rewrite (spec_cbc_message_eq salt p s Hwf). cbn [bind enc_res]. apply list_eqb_refl.
  - (* Decrypt *) cbn [spec_ok run_op]. unfold decrypt. destruct (b64dec i) as [raw|]; [|reflexivity].
    pose proof (scdec_vs_spec raw s true) as V. destruct (spec_cbc_open std_dec md5 raw s) as [p|].
    + destruct V as [buf ->]. cbn [bind enc_res]. apply out_is_ok.
    + destruct V as [e ->]. reflexivity.
  - (* GCMEncrypt *) cbn [spec_ok run_op]. destruct osalt as [salt|]; [|reflexivity].
    unfold gcm_encrypt_s. rewrite (spec_gcm_message_eq salt p s a Hwf). cbn [bind enc_res]. apply list_eqb_refl.
  - (* GCMDecrypt *) cbn [spec_ok run_op]. unfold gcm_decrypt_s.
    destruct (hex_decode i) as [raw|].
    + pose proof (sgdec_vs_spec raw s a true) as V.
      destruct mf.
      * rewrite Hwf in V. destruct V as [e ->]. reflexivity.
      * destruct (spec_gcm_open open md5 raw s a) as [p|].
        -- destruct V as [buf ->]. cbn [bind enc_res]. apply out_is_ok.
        -- destruct V as [e ->]. reflexivity.
    + destruct mf; reflexivity.
  - (* SaltBySecretCBCEncrypt *) cbn [spec_ok run_op]. destruct osalt as [salt|]; [|reflexivity].
    rewrite (spec_cbc_message_eq salt p s Hwf). cbn [enc_res]. apply list_eqb_refl.
  - (* SaltBySecretCBCDecrypt *) cbn [spec_ok run_op].
    pose proof (scdec_vs_spec c s reuse) as V. destruct (spec_cbc_open std_dec md5 c s) as [p|].
    + destruct V as [buf ->]. apply out_fst_ok.
    + destruct V as [e ->]. reflexivity.
  - (* SaltBySecretGCMEncrypt *) cbn [spec_ok run_op]. destruct osalt as [salt|]; [|reflexivity].
    rewrite (spec_gcm_message_eq salt p s a Hwf). cbn [enc_res]. apply list_eqb_refl.
  - (* SaltBySecretGCMDecrypt *) cbn [spec_ok run_op].
    pose proof (sgdec_vs_spec c s a reuse) as V.
    destruct mf.
    + rewrite Hwf in V. destruct V as [e ->]. reflexivity.
    + destruct (spec_gcm_open open md5 c s a) as [p|].
      * destruct V as [buf ->]. apply out_fst_ok.
      * destruct V as [e ->]. reflexivity.
  - (* EncryptStreamTo *) destruct osalt as [salt|].
    + destruct Hwf as [HB Hs]. apply (refine_enc_stream B HB (Some salt) r wb s Hs).
    + apply (refine_enc_stream B Hwf None r wb s I).
  - (* DecryptStreamTo *) apply (refine_dec_stream B Hwf).
Qed.
End Refine.

(* the CTR premise of [model_meets_spec9] is satisfiable (the keystream is prefix-consistent): with any block function of
   16-byte outputs, "XOR with as many keystream blocks as there are bytes" satisfies it *)
Lemma xor_prefix d : forall K R, length d <= length K -> xor d (K ++ R) = xor d K.
Proof.
  induction d as [|x d IH]; intros K R H; [reflexivity|]. destruct K as [|y K]; [cbn in H; lia|].
  unfold xor in *. cbn [app combine map]. f_equal. apply IH. cbn in H. lia.
Qed.
Example ctr_premise_satisfiable (E : bytes -> bytes -> bytes) :
  (forall k b, good_key k = true -> length b = 16 -> length (E k b) = 16) ->
  forall k iv d n, good_key k = true -> length iv = 16 -> length d <= 16 * n ->
  xor d (keystream E k iv (length d)) = xor d (keystream E k iv n).
Proof.
  intros E_len k iv d n Hk Hiv Hn.
  assert (L : forall m, length (keystream E k iv m) = 16 * m) by (intros m; apply (keystream_length E E_len 1 ltac:(lia)); exact Hk).
  destruct (Nat.le_ge_cases n (length d)) as [H|H].
  - replace (length d) with (n + (length d - n)) by lia.
    destruct (keystream_prefix E k iv n (length d - n)) as (R & ->). apply xor_prefix. rewrite L. exact Hn.
  - replace n with (length d + (n - length d)) by lia.
    destruct (keystream_prefix E k iv (length d) (n - length d)) as (R & ->). symmetry. apply xor_prefix. rewrite L. lia.
Qed.
