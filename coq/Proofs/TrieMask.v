(* C06 — ReplaceWithMask over rune-aligned merged scopes: never slices out of range; rune for rune the mask where a scope
   covers the rune and the original rune elsewhere; the rune count is preserved.
   Part 1 (Section Mask): from design-notes/proto/SubRunes_proto.v (chunks/runes) and MaskRunes_proto.v, over any width
   function sz with 1 <= sz r <= |r| that only looks at the bytes of the rune it reports; rune-index scopes, nat offsets.
   Part 2: the instance sz = width of utf8.DecodeRuneInString and the bridge to Model.Trie.mask_go (Z offsets, rune_count). *)
From Coq Require Import List Arith Lia Bool ZArith.
From V Require Import Lib.Utf8 Proofs.Utf8Facts Model.Trie.
Import ListNotations.

Section Mask.
Variable sz : list Z -> nat.
Hypothesis sz_pos : forall r, r <> [] -> 1 <= sz r <= length r.
(* the decoder looks only at the bytes of the rune it reports: cutting the text after that rune changes nothing *)
Hypothesis sz_local : forall r x, r <> [] -> sz (r ++ x) <= length r -> sz r = sz (r ++ x).

(* the runes of a byte string, as the loop sees them *)
Fixpoint chunks (fuel : nat) (r : list Z) : list (list Z) :=
  match fuel with
  | O => []
  | S f => match r with [] => [] | _ => firstn (sz r) r :: chunks f (skipn (sz r) r) end
  end.
Definition runes (r : list Z) := chunks (length r) r.

Lemma chunks_concat : forall fuel r, length r <= fuel -> concat (chunks fuel r) = r.
Proof.
  induction fuel as [|f IH]; intros r Hr; [destruct r; cbn in *; [reflexivity|lia]|].
  cbn [chunks]. destruct r as [|a r']; [reflexivity|]. cbn [concat].
  pose proof (sz_pos (a :: r') ltac:(discriminate)) as Hs. rewrite IH by (rewrite skipn_length; cbn [length] in *; lia). apply firstn_skipn.
Qed.
Lemma chunks_fuel2 : forall f1 f2 r, length r <= f1 -> length r <= f2 -> chunks f1 r = chunks f2 r.
Proof.
  induction f1 as [|f1 IH]; intros f2 r H1 H2.
  - destruct r; [destruct f2; reflexivity|cbn in H1; lia].
  - destruct r as [|a r']; [destruct f2; reflexivity|]. destruct f2 as [|f2]; [cbn in H2; lia|].
    pose proof (sz_pos (a :: r') ltac:(discriminate)) as Hs. cbn [chunks]. f_equal.
    apply IH; rewrite skipn_length; cbn [length] in *; lia.
Qed.
Lemma chunks_fuel fuel r : length r <= fuel -> chunks fuel r = chunks (length r) r.
Proof. intros H. apply chunks_fuel2; lia. Qed.
Lemma runes_cons r : r <> [] -> runes r = firstn (sz r) r :: runes (skipn (sz r) r).
Proof.
  intros Hr. unfold runes. destruct r as [|a r']; [congruence|].
  pose proof (sz_pos (a :: r') ltac:(discriminate)) as Hs. change (length (a :: r')) with (S (length r')) at 1. cbn [chunks]. f_equal.
  apply chunks_fuel. rewrite skipn_length. cbn [length] in *. lia.
Qed.

Lemma skipn_len_app {A} (a b : list A) : skipn (length a) (a ++ b) = b.
Proof. rewrite skipn_app, Nat.sub_diag, skipn_all. reflexivity. Qed.
Lemma firstn_len_app {A} (a b : list A) : firstn (length a) (a ++ b) = a.
Proof. rewrite firstn_app, Nat.sub_diag, firstn_all. cbn [firstn]. apply app_nil_r. Qed.

Definition nslice (l : list Z) (a b : nat) : option (list Z) :=
  if (a <=? b) && (b <=? length l) then Some (firstn (b - a) (skipn a l)) else None.

(* for _, v := range scopes { write text[begin:v.start]; num := RuneCount(text[v.start:v.stop]); num times mask; begin = v.stop };
   write text[begin:] *)
Fixpoint nmask_go (text mask : list Z) (begin : nat) (m : list (nat * nat)) (out : list Z) : option (list Z) :=
  match m with
  | [] => match nslice text begin (length text) with Some s => Some (out ++ s) | None => None end
  | (a, b) :: t =>
      match nslice text begin a, nslice text a b with
      | Some s, Some cov => nmask_go text mask b t (out ++ s ++ concat (repeat mask (length (runes cov))))
      | _, _ => None
      end
  end.

(* byte offset of rune index k *)
Definition off (cs : list (list Z)) (k : nat) : nat := length (concat (firstn k cs)).

(* rune-index scopes: increasing, disjoint, non-empty, inside the text *)
Fixpoint ngood (from n : nat) (m : list (nat * nat)) : Prop :=
  match m with [] => from <= n | (a, b) :: t => from <= a /\ a < b /\ ngood b n t end.
Definition ncov (m : list (nat * nat)) (i : nat) : bool := existsb (fun '(a, b) => (a <=? i) && (i <? b)) m.
(* the specification: rune i becomes the mask if some scope covers it, and stays as it is otherwise *)
Fixpoint mask_spec (mask : list Z) (m : list (nat * nat)) (i : nat) (cs : list (list Z)) : list (list Z) :=
  match cs with [] => [] | c :: t => (if ncov m i then mask else c) :: mask_spec mask m (S i) t end.

(* ---- runes of an aligned piece of the text are the corresponding runes of the text ---- *)
Lemma runes_prefix : forall mid rest, runes (concat mid ++ rest) = mid ++ runes rest -> Forall (fun c => c <> []) mid -> runes (concat mid) = mid.
Proof.
  induction mid as [|c mid IH]; intros rest H Hne; [reflexivity|]. inversion Hne as [|? ? Hc Hne']; subst.
  cbn [concat] in *. rewrite <- app_assoc in H.
  assert (Hn1 : c ++ concat mid ++ rest <> []) by (destruct c; [congruence|discriminate]).
  assert (Hn2 : c ++ concat mid <> []) by (destruct c; [congruence|discriminate]).
  rewrite (runes_cons _ Hn1) in H. cbn [app] in H. injection H as H1 H2.
  assert (Hsz : sz (c ++ concat mid ++ rest) = length c).
  { apply (f_equal (@length Z)) in H1. rewrite firstn_length in H1. pose proof (sz_pos _ Hn1). lia. }
  assert (Hsz' : sz (c ++ concat mid) = length c).
  { rewrite <- Hsz. rewrite (app_assoc c (concat mid) rest). apply sz_local; auto. rewrite <- app_assoc, Hsz, app_length. lia. }
  rewrite (runes_cons _ Hn2), Hsz', firstn_len_app, skipn_len_app. f_equal.
  apply (IH rest); auto. rewrite Hsz, skipn_len_app in H2. exact H2.
Qed.

Lemma runes_split cs k : runes (concat cs) = cs -> Forall (fun c => c <> []) cs ->
  runes (concat (skipn k cs)) = skipn k cs.
Proof.
  revert cs. induction k as [|k IH]; intros cs H Hne; [exact H|]. destruct cs as [|c cs]; [reflexivity|]. cbn [skipn].
  inversion Hne as [|? ? Hc Hne']; subst. apply IH; auto. cbn [concat] in H.
  assert (Hn1 : c ++ concat cs <> []) by (destruct c; [congruence|discriminate]).
  rewrite (runes_cons _ Hn1) in H. injection H as H1 H2.
  assert (Hsz : sz (c ++ concat cs) = length c).
  { apply (f_equal (@length Z)) in H1. rewrite firstn_length in H1. pose proof (sz_pos _ Hn1). lia. }
  rewrite Hsz, skipn_len_app in H2. exact H2.
Qed.

Lemma runes_mid cs a b : runes (concat cs) = cs -> Forall (fun c => c <> []) cs -> a <= b <= length cs ->
  runes (concat (firstn (b - a) (skipn a cs))) = firstn (b - a) (skipn a cs).
Proof.
  intros H Hne Hab. pose proof (runes_split cs a H Hne) as Hs.
  assert (Hne' : Forall (fun c => c <> []) (skipn a cs)).
  { rewrite Forall_forall in *. intros c Hc. apply Hne. rewrite <- (firstn_skipn a cs). apply in_or_app. right; auto. }
  set (R := skipn a cs) in *. rewrite <- (firstn_skipn (b - a) R) in Hs. rewrite concat_app in Hs.
  apply (runes_prefix _ (concat (skipn (b - a) R))).
  - rewrite Hs at 1. f_equal. symmetry.
    assert (Hs2 : runes (concat R) = R) by (rewrite <- (firstn_skipn (b - a) R), concat_app; exact Hs).
    apply (runes_split R (b - a) Hs2 Hne').
  - rewrite Forall_forall in *. intros c Hc. apply Hne'. rewrite <- (firstn_skipn (b - a) R). apply in_or_app. left; auto.
Qed.

Lemma slice_off cs a b : a <= b <= length cs ->
  nslice (concat cs) (off cs a) (off cs b) = Some (concat (firstn (b - a) (skipn a cs))).
Proof.
  intros Hab. unfold nslice, off.
  assert (E : firstn b cs = firstn a cs ++ firstn (b - a) (skipn a cs)).
  { rewrite <- (firstn_skipn a cs) at 1. rewrite firstn_app, firstn_length, Nat.min_l by lia.
    rewrite firstn_firstn, Nat.min_r by lia. reflexivity. }
  assert (E2 : concat cs = concat (firstn a cs) ++ concat (firstn (b - a) (skipn a cs)) ++ concat (skipn b cs)).
  { rewrite <- (firstn_skipn b cs) at 1. rewrite concat_app, E, concat_app, <- app_assoc. reflexivity. }
  rewrite E, concat_app, app_length. rewrite E2.
  generalize (concat (firstn a cs)) as A. generalize (concat (firstn (b - a) (skipn a cs))) as B. generalize (concat (skipn b cs)) as C.
  intros C B A. rewrite !app_length.
  destruct (Nat.leb_spec (length A) (length A + length B)); [|lia].
  destruct (Nat.leb_spec (length A + length B) (length A + (length B + length C))); [|lia].
  cbn [andb]. rewrite skipn_len_app. replace (length A + length B - length A) with (length B) by lia.
  rewrite firstn_len_app. reflexivity.
Qed.

Lemma mask_spec_uncovered mask m : forall cs i, (forall j, i <= j < i + length cs -> ncov m j = false) -> mask_spec mask m i cs = cs.
Proof.
  induction cs as [|c cs IH]; intros i H; cbn [mask_spec]; [reflexivity|]. rewrite H by (cbn [length]; lia). f_equal.
  apply IH. intros j Hj. apply H. cbn [length]. lia.
Qed.
Lemma mask_spec_covered mask m : forall cs i, (forall j, i <= j < i + length cs -> ncov m j = true) ->
  mask_spec mask m i cs = repeat mask (length cs).
Proof.
  induction cs as [|c cs IH]; intros i H; cbn [mask_spec length repeat]; [reflexivity|]. rewrite H by (cbn [length]; lia). f_equal.
  apply IH. intros j Hj. apply H. cbn [length]. lia.
Qed.
Lemma mask_spec_app mask m a b i : mask_spec mask m i (a ++ b) = mask_spec mask m i a ++ mask_spec mask m (i + length a) b.
Proof.
  revert i; induction a as [|c a IH]; intros i; cbn [app mask_spec length]; [rewrite Nat.add_0_r; reflexivity|].
  rewrite IH. replace (i + S (length a)) with (S i + length a) by lia. reflexivity.
Qed.

Lemma skipn_skipn {A} x y (l : list A) : skipn x (skipn y l) = skipn (x + y) l.
Proof.
  revert l; induction y as [|y IH]; intros l; [rewrite Nat.add_0_r; reflexivity|].
  destruct l as [|a l]; [rewrite !skipn_nil; reflexivity|]. cbn [skipn]. rewrite IH. replace (x + S y) with (S (x + y)) by lia. reflexivity.
Qed.

Lemma ngood_bound from n m : ngood from n m -> from <= n.
Proof. revert from; induction m as [|[a b] t IH]; cbn [ngood]; intros from H; [exact H|]. destruct H as (H1 & H2 & H3). apply IH in H3. lia. Qed.
Lemma ngood_not_before from n m : ngood from n m -> forall j, j < from -> ncov m j = false.
Proof.
  revert from; induction m as [|[a b] t IH]; intros from H j Hj; [reflexivity|]. cbn [ngood] in H. destruct H as (H1 & H2 & H3).
  cbn [ncov existsb]. destruct (Nat.leb_spec a j); [lia|]. cbn [andb orb]. apply (IH b); auto. lia.
Qed.

(* the whole loop: never out of range, and rune for rune the specification; in particular the rune count is kept *)
Theorem nmask_go_spec cs mask : runes (concat cs) = cs -> Forall (fun c => c <> []) cs ->
  forall m from out, ngood from (length cs) m ->
  nmask_go (concat cs) mask (off cs from) (map (fun '(a, b) => (off cs a, off cs b)) m) out
  = Some (out ++ concat (mask_spec mask m from (skipn from cs))).
Proof.
  intros Hr Hne. induction m as [|[a b] t IH]; intros from out Hg; cbn [map nmask_go ngood] in *.
  - assert (Hlen : length (concat cs) = off cs (length cs)) by (unfold off; rewrite firstn_all; reflexivity).
    rewrite Hlen, slice_off by lia. rewrite mask_spec_uncovered by reflexivity.
    rewrite firstn_all2 by (rewrite skipn_length; lia). reflexivity.
  - destruct Hg as (H1 & H2 & H3). pose proof (ngood_bound _ _ _ H3) as Hb.
    rewrite slice_off by lia. rewrite slice_off by lia. rewrite runes_mid by (auto; lia).
    rewrite IH by auto. f_equal. rewrite <- !app_assoc. f_equal.
    (* split the remaining runes into: before the scope, inside it, after it *)
    assert (Es : skipn from cs = firstn (a - from) (skipn from cs) ++ firstn (b - a) (skipn a cs) ++ skipn b cs).
    { rewrite <- (firstn_skipn (a - from) (skipn from cs)) at 1. f_equal. rewrite skipn_skipn. replace (a - from + from) with a by lia.
      rewrite <- (firstn_skipn (b - a) (skipn a cs)) at 1. f_equal. rewrite skipn_skipn. f_equal. lia. }
    replace (mask_spec mask ((a, b) :: t) from (skipn from cs))
      with (mask_spec mask ((a, b) :: t) from (firstn (a - from) (skipn from cs) ++ firstn (b - a) (skipn a cs) ++ skipn b cs))
      by (rewrite <- Es; reflexivity).
    rewrite !mask_spec_app, !concat_app.
    assert (L1 : length (firstn (a - from) (skipn from cs)) = a - from) by (rewrite firstn_length, skipn_length; lia).
    assert (L2 : length (firstn (b - a) (skipn a cs)) = b - a) by (rewrite firstn_length, skipn_length; lia).
    rewrite L1, L2. replace (from + (a - from)) with a by lia. replace (a + (b - a)) with b by lia.
    f_equal; [|f_equal].
    + f_equal. symmetry. apply mask_spec_uncovered. rewrite L1. intros j Hj. cbn [ncov existsb].
      destruct (Nat.leb_spec a j); [lia|]. cbn [andb orb]. apply (ngood_not_before b _ t H3). lia.
    + f_equal. symmetry. rewrite <- L2 at 2. apply mask_spec_covered. rewrite L2. intros j Hj. cbn [ncov existsb].
      destruct (Nat.leb_spec a j); [|lia]. destruct (Nat.ltb_spec j b); [|lia]. reflexivity.
    + (* beyond b only the later scopes matter *)
      f_equal. clear -H2 H3. generalize (skipn b cs) as rest. intros rest.
      assert (G : forall rest i, b <= i -> mask_spec mask ((a, b) :: t) i rest = mask_spec mask t i rest).
      { induction rest0 as [|c r IHr]; intros i Hi; cbn [mask_spec]; [reflexivity|]. rewrite IHr by lia. f_equal.
        cbn [ncov existsb]. destruct (Nat.ltb_spec i b); [lia|]. rewrite andb_false_r. reflexivity. }
      symmetry. apply G. lia.
Qed.

Corollary mask_rune_count cs mask m : runes (concat cs) = cs -> Forall (fun c => c <> []) cs -> ngood 0 (length cs) m ->
  exists out, nmask_go (concat cs) mask 0 (map (fun '(a, b) => (off cs a, off cs b)) m) [] = Some (concat out) /\
              length out = length cs /\ out = mask_spec mask m 0 cs.
Proof.
  intros Hr Hne Hg. exists (mask_spec mask m 0 cs). split; [|split; [|reflexivity]].
  - pose proof (nmask_go_spec cs mask Hr Hne m 0 [] Hg) as H. unfold off in H at 1. cbn [firstn concat length skipn app] in H. exact H.
  - clear. generalize 0. induction cs as [|c cs IH]; intros i; cbn [mask_spec length]; auto.
Qed.
End Mask.

(* ------------------------------------------------------------------ the instance: utf8.DecodeRuneInString widths *)
Module M := V.Model.Trie.

Definition uchunks (s : list Z) : list (list Z) := runes width s.

Lemma decode_all_chunks : forall fuel s, length s <= fuel -> length (decode_all_fuel fuel s) = length (chunks width fuel s).
Proof.
  induction fuel as [|f IH]; intros s Hs; [reflexivity|]. cbn [decode_all_fuel chunks].
  destruct s as [|b t]; [reflexivity|].
  pose proof (width_pos (b :: t) ltac:(discriminate)) as Hw. unfold width in *.
  destruct (decode (b :: t)) as [r w] eqn:E. cbn [snd] in *. cbn [length]. f_equal.
  replace (Nat.max w 1) with w by lia. apply IH. rewrite skipn_length. cbn [length] in *. lia.
Qed.
Lemma rune_count_chunks s : rune_count s = length (uchunks s).
Proof. unfold rune_count, decode_all, uchunks, runes. apply decode_all_chunks. lia. Qed.

Lemma slice_nat s a b : M.slice s (Z.of_nat a) (Z.of_nat b) = nslice s a b.
Proof.
  unfold M.slice, nslice. destruct (Z.leb_spec 0 (Z.of_nat a)); [|lia]. cbn [andb].
  destruct (Nat.leb_spec a b); destruct (Z.leb_spec (Z.of_nat a) (Z.of_nat b)); try lia; cbn [andb]; [|reflexivity].
  destruct (Nat.leb_spec b (length s)); destruct (Z.leb_spec (Z.of_nat b) (Z.of_nat (length s))); try lia; [|reflexivity].
  f_equal. rewrite Nat2Z.id. replace (Z.to_nat (Z.of_nat b - Z.of_nat a)) with (b - a) by lia. reflexivity.
Qed.

Definition zz (ab : nat * nat) : Z * Z := (Z.of_nat (fst ab), Z.of_nat (snd ab)).

Lemma mask_go_nat text mask : forall m begin out,
  M.mask_go text mask (Z.of_nat begin) (map zz m) out = nmask_go width text mask begin m out.
Proof.
  induction m as [|[a b] t IH]; intros begin out; cbn [map M.mask_go nmask_go zz fst snd].
  - rewrite slice_nat. reflexivity.
  - rewrite !slice_nat. destruct (nslice text begin a); [|reflexivity]. destruct (nslice text a b); [|reflexivity].
    rewrite rune_count_chunks. apply IH.
Qed.

(* chunks of the text: its runes as `range` / RuneCountInString see them *)
Lemma uchunks_concat s : concat (uchunks s) = s.
Proof. apply (chunks_concat width width_pos). lia. Qed.
Lemma uchunks_nonempty s : Forall (fun c => c <> []) (uchunks s).
Proof.
  unfold uchunks, runes. generalize (length s) at 1. intros fuel. revert s. induction fuel as [|f IH]; intros s; cbn [chunks]; [constructor|].
  destruct s as [|b t]; [constructor|]. constructor; [|apply IH].
  pose proof (width_pos (b :: t) ltac:(discriminate)). destruct (width (b :: t)); [lia|]. discriminate.
Qed.
Lemma uchunks_fix s : runes width (concat (uchunks s)) = uchunks s.
Proof. rewrite uchunks_concat. reflexivity. Qed.

(* ReplaceWithMask's loop over rune-aligned scopes, in the model's own terms *)
Theorem mask_go_aligned text mask m' : ngood 0 (length (uchunks text)) m' ->
  M.mask_go text mask 0 (map (fun ab => (Z.of_nat (off (uchunks text) (fst ab)), Z.of_nat (off (uchunks text) (snd ab)))) m') []
  = Some (concat (mask_spec mask m' 0 (uchunks text))) /\
  length (mask_spec mask m' 0 (uchunks text)) = length (uchunks text).
Proof.
  intros Hg. set (cs := uchunks text).
  pose proof (nmask_go_spec width width_pos width_local cs mask (uchunks_fix text) (uchunks_nonempty text) m' 0 [] Hg) as H.
  cbn [app skipn] in H. unfold off at 1 in H. cbn [firstn concat length] in H.
  assert (Hc : concat cs = text) by apply uchunks_concat. rewrite Hc in H. split.
  - rewrite <- H.
    replace (map (fun ab => (Z.of_nat (off cs (fst ab)), Z.of_nat (off cs (snd ab)))) m')
      with (map zz (map (fun '(a, b) => (off cs a, off cs b)) m')).
    + apply (mask_go_nat text mask _ 0 []).
    + rewrite map_map. apply map_ext. intros [a b]. reflexivity.
  - clear. generalize 0. induction cs as [|c cs IH]; intros i; cbn [mask_spec length]; auto.
Qed.
