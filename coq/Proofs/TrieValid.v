(* C05 — for patterns that are valid UTF-8 the rune-aligned reading is the plain one: every byte-for-byte occurrence of a
   well-formed, non-empty pattern in an ARBITRARY byte string starts and ends on rune boundaries of that string
   (UTF-8 is self-synchronising: the first byte of a well-formed sequence is never a continuation byte, and a decoder
   that is not at a boundary is looking at a continuation byte). *)
From Coq Require Import List ZArith Lia Bool Arith.
From V Require Import Lib.Utf8 Proofs.Utf8Facts Gen.Trie Model.Trie Proofs.TrieInsert Proofs.TrieRunes Proofs.TrieOcc Proofs.TrieTop.
Import ListNotations.
Local Open Scope Z_scope.
Arguments Z.mul : simpl never.
Arguments Z.add : simpl never.
Arguments Z.sub : simpl never.
Arguments Z.div : simpl never.
Arguments Z.modulo : simpl never.

Module M := V.Model.Trie.

Definition is_cont (b : Z) : Prop := 128 <= b <= 191.

(* a successful decode does not depend on what follows *)
Lemma decode_ext r x : decode r <> (RuneError, 1%nat) -> r <> [] -> decode (r ++ x) = decode r.
Proof.
  intros Hv Hr.
  destruct r as [|b0 [|b1 [|b2 [|b3 r']]]]; [congruence| | | |].
  - cbn [app] in *. destruct x as [|x0 [|x1 [|x2 x']]]; cbn [decode] in *; brk; try reflexivity; try congruence.
  - cbn [app] in *. destruct x as [|x0 [|x1 x']]; cbn [decode] in *; brk; try reflexivity; try congruence.
  - cbn [app] in *. destruct x as [|x0 x']; cbn [decode] in *; brk; try reflexivity; try congruence.
  - cbn [app decode]. reflexivity.
Qed.

(* the non-first bytes of a decoded multi-byte rune are continuation bytes *)
Lemma decode_cont s : forall i, (1 <= i < snd (decode s))%nat -> is_cont (nth i s 0).
Proof.
  intros i Hi. unfold is_cont.
  destruct s as [|b0 [|b1 [|b2 [|b3 r']]]]; cbn [decode] in Hi; unfold inr, cont in Hi; brk; cbn [snd] in Hi; try lia;
    (destruct i as [|[|[|[|i]]]]; try lia; cbn [nth]);
    repeat match goal with H : (_ && _) = true |- _ => apply andb_prop in H; destruct H end;
    repeat match goal with H : (_ <=? _) = true |- _ => apply Z.leb_le in H end;
    repeat match goal with H : (_ =? _) = true |- _ => apply Z.eqb_eq in H end; lia.
Qed.

(* a continuation byte starts nothing *)
Lemma decode_cont_first b t : is_cont b -> decode (b :: t) = (RuneError, 1%nat).
Proof.
  unfold is_cont. intros H. cbn [decode]. unfold inr.
  destruct (Z.ltb_spec b 128); [lia|].
  destruct (Z.leb_spec 194 b); [lia|]. cbn [andb].
  destruct (Z.leb_spec 224 b); [lia|]. cbn [andb].
  destruct (Z.leb_spec 240 b); [lia|]. cbn [andb]. reflexivity.
Qed.

(* ---- well-formed byte strings in terms of the trie's tokens ---- *)
Definition valid_tok (rw : Z * nat) : Prop := fst rw < invalid_byte_base.
Definition valid_toks (p : list Z) : Prop := Forall valid_tok (tokens p).

Lemma decode_rune_valid s : is_bytes s -> s <> [] -> valid_tok (decode_rune s) -> decode s <> (RuneError, 1%nat) /\ decode_rune s = decode s.
Proof.
  intros Hb Hs Hv. destruct s as [|b t]; [congruence|]. inversion Hb as [|? ? B0 _]; subst.
  unfold decode_rune, valid_tok in *. change rune_self with 128 in *.
  destruct (Z.ltb_spec b 128) as [H0|H0].
  - assert (E : decode (b :: t) = (b, 1%nat)) by (cbn [decode]; destruct (Z.ltb_spec b 128); [reflexivity|lia]).
    rewrite E. split; [|reflexivity]. intros E2. inversion E2. unfold RuneError in *. lia.
  - destruct (decode (b :: t)) as [r w] eqn:Ed. destruct ((r =? RuneError) && Nat.eqb w 1) eqn:E.
    + cbn [fst] in Hv. unfold invalid_byte_base in Hv. lia.
    + split; [|reflexivity]. intros E2. inversion E2; subst. cbn in E. discriminate.
Qed.

Lemma valid_first_not_cont p : is_bytes p -> p <> [] -> valid_toks p -> ~ is_cont (hd 0 p).
Proof.
  intros Hb Hp Hv Hc. unfold valid_toks in Hv. rewrite (tokens_cons p Hp) in Hv. inversion Hv as [|? ? H1 _]; subst.
  destruct (decode_rune_valid p Hb Hp H1) as [Hd _]. destruct p as [|b t]; [congruence|]. cbn [hd] in Hc.
  apply Hd. apply decode_cont_first. exact Hc.
Qed.

(* the end of a well-formed prefix is a rune boundary *)
Lemma valid_bound_app : forall p C, is_bytes p -> valid_toks p -> In (length p) (bounds (p ++ C)).
Proof.
  intros p. induction p as [|p Hp IH] using tokens_ind; intros C Hb Hv; [apply bounds_zero|].
  unfold valid_toks in Hv. rewrite (tokens_cons p Hp) in Hv. inversion Hv as [|? ? H1 H2]; subst.
  destruct (decode_rune_valid p Hb Hp H1) as [Hd Er].
  assert (HpC : p ++ C <> []) by (destruct p; [congruence|discriminate]).
  assert (Ex : decode_rune (p ++ C) = decode_rune p).
  { pose proof (decode_ext p C Hd Hp) as Ee. destruct p as [|b t]; [congruence|]. cbn [app] in *. unfold decode_rune. rewrite Ee. reflexivity. }
  rewrite (bounds_cons _ HpC), Ex. right. apply in_map_iff.
  pose proof (decode_rune_width p Hp) as Hw. set (w := snd (decode_rune p)) in *.
  exists (length (skipn w p)). split; [rewrite skipn_length; lia|].
  replace (skipn w (p ++ C)) with (skipn w p ++ C) by (rewrite skipn_app; replace (w - length p)%nat with 0%nat by lia; reflexivity).
  apply IH; [apply is_bytes_skipn; exact Hb|exact H2].
Qed.

(* an offset that is not a rune boundary holds a continuation byte *)
Lemma nth_skipn_Z (l : list Z) n j : nth j (skipn n l) 0 = nth (n + j) l 0.
Proof. revert l; induction n as [|n IH]; intros [|a l]; cbn [skipn nth Nat.add]; auto. destruct j; reflexivity. Qed.

Lemma not_bound_cont : forall text k, (k < length text)%nat -> ~ In k (bounds text) -> is_cont (nth k text 0).
Proof.
  intros text. induction text as [|s Hs IH] using tokens_ind; intros k Hk Hn; [cbn in Hk; lia|].
  rewrite (bounds_cons s Hs) in Hn. pose proof (decode_rune_width s Hs) as Hw. set (w := snd (decode_rune s)) in *.
  destruct (Nat.lt_ge_cases k w) as [Hlt|Hge].
  - assert (k <> 0%nat) by (intros ->; apply Hn; left; reflexivity).
    apply decode_cont. unfold w in Hlt. rewrite decode_rune_snd in Hlt. lia.
  - replace k with (w + (k - w))%nat by lia. rewrite <- nth_skipn_Z. apply IH.
    + rewrite skipn_length. lia.
    + intros Hin. apply Hn. right. apply in_map_iff. exists (k - w)%nat. split; [lia|exact Hin].
Qed.

Theorem valid_occ_aligned p text s : is_bytes p -> valid_toks p -> p <> [] ->
  M.occ_at false p text s = true -> M.occ_at true p text s = true.
Proof.
  intros Hb Hv Hne H. unfold M.occ_at in *. cbn [negb orb] in *. rewrite andb_true_r in H. rewrite H. cbn [andb].
  apply is_prefix_app in H. destruct H as (C & EC).
  assert (Hsl : (s < length text)%nat).
  { destruct (Nat.lt_ge_cases s (length text)); [assumption|]. rewrite skipn_all2 in EC by lia. destruct p; [congruence|discriminate]. }
  assert (Hs : In s (bounds text)).
  { destruct (in_dec Nat.eq_dec s (bounds text)) as [Hin|Hnin]; [exact Hin|]. exfalso.
    apply (valid_first_not_cont p Hb Hne Hv). pose proof (not_bound_cont text s Hsl Hnin) as Hc.
    replace (nth s text 0) with (nth 0 (skipn s text) 0) in Hc by (rewrite nth_skipn_Z; f_equal; lia).
    rewrite EC in Hc. destruct p; [congruence|exact Hc]. }
  apply andb_true_intro. split; apply is_bound_iff; [exact Hs|].
  set (A := firstn s text). assert (LA : length A = s) by (unfold A; rewrite firstn_length; lia).
  assert (Et : text = A ++ p ++ C) by (rewrite <- (firstn_skipn s text) at 1; fold A; rewrite EC; reflexivity).
  rewrite Et in Hs |- *. rewrite <- LA in Hs |- *. apply (bounds_app A (p ++ C) Hs). right.
  exists (length p). split; [apply valid_bound_app; assumption|reflexivity].
Qed.

(* ---- Lib.Utf8.valid_utf8 (what utf8.ValidString computes) implies valid_toks ---- *)
Lemma valid_utf8_toks : forall p, is_bytes p -> valid_utf8 p = true -> valid_toks p.
Proof.
  intros p. unfold valid_utf8, decode_all. generalize (Nat.le_refl (length p)). generalize (length p) at 2 3. intros fuel. revert p.
  induction fuel as [|f IH]; intros p Hl Hb Hv.
  - destruct p; [constructor|cbn in Hl; lia].
  - destruct p as [|b t]; [constructor|]. cbn [decode_all_fuel] in Hv.
    pose proof (decode_width (b :: t) ltac:(discriminate)) as [W1 W2].
    destruct (decode (b :: t)) as [r w] eqn:Ed. cbn [snd] in *. cbn [forallb fst snd] in Hv. apply andb_prop in Hv. destruct Hv as [Hv1 Hv2].
    unfold valid_toks. rewrite (tokens_cons (b :: t) ltac:(discriminate)).
    assert (Er : decode_rune (b :: t) = (r, w) /\ r < invalid_byte_base).
    { pose proof (encode_decode (b :: t) Hb ltac:(discriminate)) as He. rewrite Ed in He.
      inversion Hb as [|? ? B0 _]; subst. unfold decode_rune. change rune_self with 128.
      destruct (Z.ltb_spec b 128) as [H0|H0].
      - cbn [decode] in Ed. destruct (Z.ltb_spec b 128); [|lia]. inversion Ed; subst. split; [reflexivity|unfold invalid_byte_base; lia].
      - rewrite Ed. destruct ((r =? RuneError) && Nat.eqb w 1) eqn:E; [first [rewrite E in Hv1; discriminate|discriminate]|].
        split; [reflexivity|]. destruct He as [[-> ->]|[_ Hr]]; [rewrite Z.eqb_refl in E; discriminate|lia]. }
    destruct Er as [Er Hr]. rewrite Er. cbn [snd]. constructor; [exact Hr|].
    replace (Nat.max w 1) with w in Hv2 by lia.
    apply IH; [rewrite skipn_length; cbn [length] in *; lia|apply is_bytes_skipn; exact Hb|exact Hv2].
Qed.

(* ---- the two readings of the specification coincide on well-formed pattern sets ---- *)
Lemma occ_at_valid_eq p text s : is_bytes p -> valid_utf8 p = true -> p <> [] -> M.occ_at false p text s = M.occ_at true p text s.
Proof.
  intros Hb Hv Hne. destruct (M.occ_at false p text s) eqn:E.
  - symmetry. apply valid_occ_aligned; auto. apply valid_utf8_toks; auto.
  - unfold M.occ_at in *. cbn [negb orb] in E. rewrite andb_true_r in E. rewrite E. reflexivity.
Qed.

Theorem occs_valid_eq ps text : Forall is_bytes ps -> forallb valid_utf8 ps = true -> occs false ps text = occs true ps text.
Proof.
  intros Hb Hv. unfold occs. apply flat_map_ext. intros e. unfold occs_ending. apply flat_map_ext. intros s.
  replace (existsb (fun p => Nat.eqb (s + length p) e && M.occ_at false p text s) (patterns ps))
     with (existsb (fun p => Nat.eqb (s + length p) e && M.occ_at true p text s) (patterns ps)); [reflexivity|].
  assert (G : forall l, (forall p, In p l -> In p ps /\ p <> []) ->
              existsb (fun p => Nat.eqb (s + length p) e && M.occ_at true p text s) l = existsb (fun p => Nat.eqb (s + length p) e && M.occ_at false p text s) l).
  { induction l as [|p l IH]; intros Hl; [reflexivity|]. cbn [existsb]. rewrite IH by (intros q Hq; apply Hl; right; exact Hq).
    destruct (Hl p (or_introl eq_refl)) as [Hp Hne]. rewrite Forall_forall in Hb. rewrite forallb_forall in Hv.
    rewrite (occ_at_valid_eq p text s (Hb p Hp) (Hv p Hp) Hne). reflexivity. }
  apply G. intros p Hp. apply patterns_in. exact Hp.
Qed.

Theorem spec_prefix_valid_eq ps key : is_bytes key -> valid_utf8 key = true -> spec_prefix false ps key = spec_prefix true ps key.
Proof.
  intros Hb Hv. unfold spec_prefix. apply filter_ext. intros p. cbn [negb orb]. rewrite andb_true_r.
  destruct (is_prefix key p) eqn:E; [|reflexivity]. cbn [andb]. symmetry. apply is_bound_iff.
  apply is_prefix_app in E. destruct E as (c & ->). apply valid_bound_app; [exact Hb|apply valid_utf8_toks; assumption].
Qed.

(* what the run's judge evaluates for Match / FindAll when every pattern is valid UTF-8, and for PrefixSearch when the key is *)
Theorem judge_plain_is_aligned ps text : Forall is_bytes ps -> is_bytes text ->
  (mode_of ps = false -> occs (mode_of ps) ps text = occs true ps text) /\
  (valid_utf8 text = true -> spec_prefix (negb (valid_utf8 text)) ps text = spec_prefix true ps text).
Proof.
  intros Hps Hb. split.
  - intros Hm. rewrite Hm. apply occs_valid_eq; [exact Hps|]. unfold mode_of in Hm. destruct (forallb valid_utf8 ps); [reflexivity|discriminate].
  - intros Hv. rewrite Hv. cbn [negb]. apply spec_prefix_valid_eq; assumption.
Qed.
