(* C03 — facts that the equality proofs between the code GENERATED from setz/roaring_bitmap.go + setz/bits.go
   (coq/Gen/RoaringCode.v) and the hand-written model (Model/Roaring.v, Model/Bits.v) need.  Nothing here mentions a generated
   definition: this file cannot be broken by a change of the Go source.
   The generated code computes on Z (lists of Z, checked primitives of Lib/GoSem.v), the model on N (lists of N, total
   functions): [zl] = map Z.of_N is the conversion, and the lemmas say what each GoSem primitive does on a converted list. *)
From Coq Require Import List ZArith NArith Lia Bool Arith ZifyN ZifyNat ZifyBool.
From V Require Import Model.Bits Model.Roaring Proofs.BitsBasic Proofs.RoaringArr.
From V Require Import Lib.GoSem Proofs.GoSemFacts.   (* last: m_get / m_set / upd are GoSem's; the model's are qualified *)
Import ListNotations.
Local Open Scope Z_scope.
Arguments Z.add : simpl never.
Arguments Z.sub : simpl never.
Arguments Z.mul : simpl never.
Arguments Z.pow : simpl never.
Arguments Z.modulo : simpl never.
Arguments Z.shiftl : simpl never.
Arguments Z.shiftr : simpl never.
Arguments Z.land : simpl never.
Arguments Z.lor : simpl never.
Arguments N.shiftl : simpl never.
Arguments N.shiftr : simpl never.
Arguments N.land : simpl never.
Arguments N.lor : simpl never.

(* ------------------------------------------------------------------ the loop combinator *)
Lemma while_more {S R} (c : S -> M bool) (b : S -> M (ctl S R)) (p : S -> M S) : forall k f s r,
  while f c b p s = Ret r -> while (f + k) c b p s = Ret r.
Proof.
  induction f as [|f IH]; intros s r; [discriminate|].
  cbn [Nat.add]. rewrite !while_step. destruct (c s) as [x| |]; cbn [bind]; try discriminate.
  destruct x; [|trivial]. destruct (b s) as [y| |]; cbn [bind]; try discriminate.
  destruct y as [s1|s1|r1]; [|trivial|trivial]. destruct (p s1) as [s2| |]; cbn [bind]; try discriminate. apply IH.
Qed.
Lemma while_ge {S R} (c : S -> M bool) (b : S -> M (ctl S R)) (p : S -> M S) f f' s r :
  (f <= f')%nat -> while f c b p s = Ret r -> while f' c b p s = Ret r.
Proof. intros Hle H. replace f' with (f + (f' - f))%nat by lia. apply while_more, H. Qed.

(* one iteration of a loop: inl s' = go on in state s'; inr (inl s) = the loop ended in s; inr (inr r) = `return r` *)
Definition iter1 {S R} (c : S -> M bool) (b : S -> M (ctl S R)) (p : S -> M S) (s : S) : M (S + (S + R)) :=
  bind (c s) (fun x =>
    if x then bind (b s) (fun y => match y with
      | Next s1 => bind (p s1) (fun s2 => Ret (inl s2)) | Break s1 => Ret (inr (inl s1)) | Return r => Ret (inr (inr r)) end)
    else Ret (inr (inl s))).
Lemma while_iter {S R} f (c : S -> M bool) (b : S -> M (ctl S R)) (p : S -> M S) s :
  while (Datatypes.S f) c b p s = bind (iter1 c b p s) (fun x => match x with inl s' => while f c b p s' | inr r => Ret r end).
Proof.
  rewrite while_step. unfold iter1. destruct (c s) as [x| |]; cbn [bind]; try reflexivity.
  destruct x; [|reflexivity]. destruct (b s) as [y| |]; cbn [bind]; try reflexivity.
  destruct y as [s1|s1|r1]; try reflexivity. destruct (p s1); reflexivity.
Qed.

(* ------------------------------------------------------------------ lists of N seen as lists of Z *)
Definition zl (v : list N) : list Z := map Z.of_N v.

Lemma zl_length v : length (zl v) = length v.
Proof. apply map_length. Qed.
Lemma zlen_zl v : zlen (zl v) = Z.of_nat (length v).
Proof. unfold zlen. rewrite zl_length. reflexivity. Qed.
Lemma zl_app a b : zl (a ++ b) = zl a ++ zl b.
Proof. apply map_app. Qed.
Lemma zl_firstn n v : zl (firstn n v) = firstn n (zl v).
Proof. symmetry. apply firstn_map. Qed.
Lemma zl_skipn n v : zl (skipn n v) = skipn n (zl v).
Proof. symmetry. apply skipn_map. Qed.
Lemma zl_repeat0 n : zl (repeat 0%N n) = repeat 0 n.
Proof. induction n; cbn [repeat zl map]; [reflexivity|]. f_equal. exact IHn. Qed.
Lemma zl_inj a b : zl a = zl b -> a = b.
Proof.
  revert b. induction a as [|x a IH]; intros [|y b] H; cbn in H; try discriminate; [reflexivity|].
  injection H as H1 H2. f_equal; [lia|auto].
Qed.

(* l[i] *)
Lemma m_get_zl v z : m_get (zl v) z =
  if (0 <=? z) && (z <? Z.of_nat (length v)) then Ret (Z.of_N (nth (Z.to_nat z) v 0%N)) else Panic.
Proof.
  unfold m_get, get_at, lift. destruct (Z.leb_spec 0 z) as [H0|H0]; cbn [andb]; [|reflexivity].
  destruct (Z.ltb_spec z (Z.of_nat (length v))) as [H1|H1].
  - unfold zl. rewrite (nth_error_nth' _ 0) by (rewrite map_length; lia).
    change 0 with (Z.of_N 0). rewrite map_nth. reflexivity.
  - destruct (nth_error (zl v) (Z.to_nat z)) eqn:E; [|reflexivity].
    assert (Z.to_nat z < length (zl v))%nat by (apply nth_error_Some; congruence). rewrite zl_length in *. lia.
Qed.
Lemma m_get_zl_nat v i : m_get (zl v) (Z.of_nat i) = if (i <? length v)%nat then Ret (Z.of_N (nth i v 0%N)) else Panic.
Proof.
  rewrite m_get_zl, Nat2Z.id. destruct (Z.leb_spec 0 (Z.of_nat i)); [|lia]. cbn [andb].
  destruct (Z.ltb_spec (Z.of_nat i) (Z.of_nat (length v))), (Nat.ltb_spec i (length v)); try lia; reflexivity.
Qed.
Lemma m_get_zl_N v i : m_get (zl v) (Z.of_N i) = if (i <? lenN v)%N then Ret (Z.of_N (nthN v i)) else Panic.
Proof.
  rewrite m_get_zl, lenN_length, nthN_nth. destruct (Z.leb_spec 0 (Z.of_N i)); [|lia]. cbn [andb].
  destruct (Z.ltb_spec (Z.of_N i) (Z.of_nat (length v))), (N.ltb_spec i (N.of_nat (length v))); try lia.
  - replace (Z.to_nat (Z.of_N i)) with (N.to_nat i) by lia. reflexivity.
  - reflexivity.
Qed.

(* the update functions of GoSem (on Z) and of Model/Bits (on N) *)
Lemma zl_upd : forall v i y, zl (Bits.upd v i y) = GoSem.upd (zl v) i (Z.of_N y).
Proof. induction v as [|a v IH]; intros [|i] y; cbn [Bits.upd GoSem.upd zl map]; try reflexivity. f_equal. apply IH. Qed.

(* l[i] = y *)
Lemma m_set_zl v z y : m_set (zl v) z (Z.of_N y) =
  if (0 <=? z) && (z <? Z.of_nat (length v)) then Ret (zl (Bits.upd v (Z.to_nat z) y)) else Panic.
Proof. unfold m_set, set_at, lift. rewrite zl_length, zl_upd. destruct ((0 <=? z) && (z <? Z.of_nat (length v))); reflexivity. Qed.
Lemma m_set_zl_nat v i y : m_set (zl v) (Z.of_nat i) (Z.of_N y) =
  if (i <? length v)%nat then Ret (zl (Bits.upd v i y)) else Panic.
Proof.
  rewrite m_set_zl, Nat2Z.id. destruct (Z.leb_spec 0 (Z.of_nat i)); [|lia]. cbn [andb].
  destruct (Z.ltb_spec (Z.of_nat i) (Z.of_nat (length v))), (Nat.ltb_spec i (length v)); try lia; reflexivity.
Qed.

(* l[a:b] *)
Lemma m_slice_zl v a b : m_slice (zl v) a b =
  if (0 <=? a) && (a <=? b) && (b <=? Z.of_nat (length v))
  then Ret (zl (firstn (Z.to_nat b - Z.to_nat a) (skipn (Z.to_nat a) v))) else Panic.
Proof.
  unfold m_slice, slice, lift. rewrite zl_length, zl_firstn, zl_skipn.
  destruct ((0 <=? a) && (a <=? b) && (b <=? Z.of_nat (length v))); reflexivity.
Qed.

Lemma gocopy_zl d s : gocopy (zl d) (zl s) = zl (firstn (length d) s ++ skipn (length s) d).
Proof. unfold gocopy. rewrite !zl_length, zl_app, zl_firstn, zl_skipn. reflexivity. Qed.
Lemma copy_all_zl d s :
  copy_all (zl d) (zl s) = (zl (firstn (length d) s ++ skipn (length s) d), Z.of_nat (Nat.min (length d) (length s))).
Proof. unfold copy_all. rewrite gocopy_zl, !zl_length. reflexivity. Qed.

(* ------------------------------------------------------------------ slices of Z (GoSem level) *)
Lemma upd_mid (p r : list Z) a v : upd (p ++ a :: r) (length p) v = p ++ v :: r.
Proof. induction p as [|x p IH]; cbn [app length upd]; [reflexivity|]. rewrite IH. reflexivity. Qed.
Lemma m_slice_from (l : list Z) (a : nat) : (a <= length l)%nat -> m_slice l (Z.of_nat a) (zlen l) = Ret (skipn a l).
Proof.
  intros H. unfold m_slice, slice, lift, zlen.
  destruct (Z.leb_spec 0 (Z.of_nat a)); [|lia]. destruct (Z.leb_spec (Z.of_nat a) (Z.of_nat (length l))); [|lia].
  rewrite Z.leb_refl. cbn [andb]. rewrite !Nat2Z.id. rewrite firstn_all2 by (rewrite skipn_length; lia). reflexivity.
Qed.
Lemma m_slice_to (l : list Z) (b : nat) : (b <= length l)%nat -> m_slice l 0 (Z.of_nat b) = Ret (firstn b l).
Proof.
  intros H. unfold m_slice, slice, lift. change (0 <=? 0) with true.
  destruct (Z.leb_spec 0 (Z.of_nat b)); [|lia]. destruct (Z.leb_spec (Z.of_nat b) (Z.of_nat (length l))); [|lia].
  cbn [andb]. rewrite Nat2Z.id. change (Z.to_nat 0) with 0%nat. rewrite Nat.sub_0_r. reflexivity.
Qed.
Lemma m_set_nat (l : list Z) i x : (i < length l)%nat -> m_set l (Z.of_nat i) x = Ret (upd l i x).
Proof.
  intros H. unfold m_set, set_at, lift. destruct (Z.leb_spec 0 (Z.of_nat i)); [|lia].
  destruct (Z.ltb_spec (Z.of_nat i) (Z.of_nat (length l))); [|lia]. cbn [andb]. rewrite Nat2Z.id. reflexivity.
Qed.

(* append(v, 0); copy(v[p+1:], v[p:]); v[p] = x   is the insertion at p  (copy is a memmove: the source is the OLD v[p:]) *)
Lemma insert_by_copy (v : list Z) (p : nat) (x : Z) : (p <= length v)%nat ->
  let w := v ++ [0] in
  upd (firstn (S p) w ++ gocopy (skipn (S p) w) (skipn p w)) p x = firstn p v ++ x :: skipn p v.
Proof.
  intros Hp w. set (a := firstn p v). set (b := skipn p v).
  assert (La : length a = p) by (unfold a; rewrite firstn_length; lia).
  assert (Ew : w = a ++ (b ++ [0])) by (unfold w, a, b; rewrite app_assoc, firstn_skipn; reflexivity).
  clearbody a b w. subst w p. unfold gocopy.
  replace (S (length a)) with (length a + 1)%nat by lia.
  assert (S0 : forall r : list Z, skipn (length a) (a ++ r) = r).
  { intros r. rewrite skipn_app, skipn_all, Nat.sub_diag. reflexivity. }
  assert (S1 : forall r : list Z, skipn (length a + 1) (a ++ r) = skipn 1 r).
  { intros r. rewrite skipn_app, skipn_all2 by lia. replace (length a + 1 - length a)%nat with 1%nat by lia. reflexivity. }
  rewrite firstn_app_2, S0, S1.
  rewrite (skipn_all2 (n := length (b ++ [0]))) by (rewrite skipn_length; lia). rewrite app_nil_r.
  rewrite skipn_length, app_length. cbn [length]. replace (length b + 1 - 1)%nat with (length b) by lia.
  replace (firstn (length b) (b ++ [0])) with b
    by (rewrite firstn_app, firstn_all, Nat.sub_diag; cbn [firstn]; rewrite app_nil_r; reflexivity).
  assert (E : exists h, firstn 1 (b ++ [0]) = [h]) by (destruct b; cbn; eauto). destruct E as [h ->].
  rewrite <- app_assoc. cbn [app]. apply upd_mid.
Qed.

(* ------------------------------------------------------------------ integers: N operations seen through Z.of_N *)
Lemma eqb_of_N a b : (Z.of_N a =? Z.of_N b) = (a =? b)%N.
Proof. destruct (Z.eqb_spec (Z.of_N a) (Z.of_N b)), (N.eqb_spec a b); try lia; reflexivity. Qed.
Lemma eqb0_of_N a : (Z.of_N a =? 0) = (a =? 0)%N.
Proof. apply (eqb_of_N a 0). Qed.
Lemma ltb_of_N a b : (Z.of_N a <? Z.of_N b) = (a <? b)%N.
Proof. destruct (Z.ltb_spec (Z.of_N a) (Z.of_N b)), (N.ltb_spec a b); try lia; reflexivity. Qed.
Lemma leb_of_N a b : (Z.of_N a <=? Z.of_N b) = (a <=? b)%N.
Proof. destruct (Z.leb_spec (Z.of_N a) (Z.of_N b)), (N.leb_spec a b); try lia; reflexivity. Qed.
Lemma ltb_of_nat a b : (Z.of_nat a <? Z.of_nat b) = (a <? b)%nat.
Proof. destruct (Z.ltb_spec (Z.of_nat a) (Z.of_nat b)), (Nat.ltb_spec a b); try lia; reflexivity. Qed.
Lemma leb_of_nat a b : (Z.of_nat a <=? Z.of_nat b) = (a <=? b)%nat.
Proof. destruct (Z.leb_spec (Z.of_nat a) (Z.of_nat b)), (Nat.leb_spec a b); try lia; reflexivity. Qed.

(* the bit operations (this standard library has only the testbit form) *)
Lemma of_N_shiftr a n : Z.of_N (N.shiftr a n) = Z.shiftr (Z.of_N a) (Z.of_N n).
Proof. rewrite N.shiftr_div_pow2, Z.shiftr_div_pow2, N2Z.inj_div, N2Z.inj_pow by lia. reflexivity. Qed.
Lemma of_N_shiftl a n : Z.of_N (N.shiftl a n) = Z.shiftl (Z.of_N a) (Z.of_N n).
Proof. rewrite N.shiftl_mul_pow2, Z.shiftl_mul_pow2, N2Z.inj_mul, N2Z.inj_pow by lia. reflexivity. Qed.
Lemma of_N_land a b : Z.of_N (N.land a b) = Z.land (Z.of_N a) (Z.of_N b).
Proof. apply Z.bits_inj'. intros k Hk. rewrite Z.land_spec, !Z.testbit_of_N', N.land_spec by lia. reflexivity. Qed.
Lemma of_N_lor a b : Z.of_N (N.lor a b) = Z.lor (Z.of_N a) (Z.of_N b).
Proof. apply Z.bits_inj'. intros k Hk. rewrite Z.lor_spec, !Z.testbit_of_N', N.lor_spec by lia. reflexivity. Qed.
Lemma of_N_ldiff a b : Z.of_N (N.ldiff a b) = Z.ldiff (Z.of_N a) (Z.of_N b).
Proof. apply Z.bits_inj'. intros k Hk. rewrite Z.ldiff_spec, !Z.testbit_of_N', N.ldiff_spec by lia. reflexivity. Qed.

(* int(num >> 6), num & 63, 1 << bit on a uint64 *)
Lemma shr6_Z n : Z.shiftr (Z.of_N n) 6 = Z.of_nat (widx n).
Proof. unfold widx. change 6 with (Z.of_N 6). rewrite <- of_N_shiftr. lia. Qed.
Lemma land63_Z n : Z.land (Z.of_N n) 63 = Z.of_N (bidx n).
Proof. unfold bidx. change 63 with (Z.of_N 63). rewrite <- of_N_land. reflexivity. Qed.
(* the same written with / and % *)
Lemma quot64_Z n : Z.quot (Z.of_N n) 64 = Z.of_nat (widx n).
Proof. rewrite widx_div. change 64 with (Z.of_N 64). rewrite <- N2Z.inj_quot. lia. Qed.
Lemma rem64_Z n : Z.rem (Z.of_N n) 64 = Z.of_N (bidx n).
Proof. rewrite bidx_mod. change 64 with (Z.of_N 64). rewrite <- N2Z.inj_rem. reflexivity. Qed.
Lemma bidx_lt n : (bidx n < 64)%N.
Proof. rewrite bidx_mod. apply N.mod_lt. discriminate. Qed.
Lemma wrap_small k x : 0 <= x < 2 ^ k -> wrap k x = x.
Proof. intros H. unfold wrap. apply Z.mod_small. exact H. Qed.
Lemma mask_Z b : (b < 64)%N -> wrap 64 (Z.shiftl 1 (Z.of_N b)) = Z.of_N (mask b).
Proof.
  intros Hb. unfold mask. rewrite of_N_shiftl. change (Z.of_N 1) with 1.
  apply wrap_small. rewrite Z.shiftl_1_l. split; [apply Z.pow_nonneg; lia|]. apply Z.pow_lt_mono_r; lia.
Qed.
Lemma mask_bidx_Z n : wrap 64 (Z.shiftl 1 (Z.land (Z.of_N n) 63)) = Z.of_N (mask (bidx n)).
Proof. rewrite land63_Z. apply mask_Z, bidx_lt. Qed.
Lemma mask_bidx_Z' n : wrap 64 (Z.shiftl 1 (Z.of_N (bidx n))) = Z.of_N (mask (bidx n)).
Proof. apply mask_Z, bidx_lt. Qed.

(* w & ^(1 << bit) on a uint64 word *)
Lemma ldiff_Z w b : (w < 2 ^ 64)%N -> (b < 64)%N ->
  Z.land (Z.of_N w) (wrap 64 (Z.lnot (Z.of_N (mask b)))) = Z.of_N (N.ldiff w (mask b)).
Proof.
  intros Hw Hb. rewrite of_N_ldiff. apply Z.bits_inj'. intros k Hk.
  rewrite Z.land_spec, Z.ldiff_spec. unfold wrap.
  destruct (Z.ltb_spec k 64) as [Hlt|Hge].
  - rewrite Z.mod_pow2_bits_low by lia. rewrite Z.lnot_spec by lia. reflexivity.
  - rewrite Z.mod_pow2_bits_high by lia. rewrite andb_false_r.
    replace (Z.testbit (Z.of_N w) k) with false; [reflexivity|].
    symmetry. destruct (N.eq_dec w 0) as [->|Hne]; [apply Z.bits_0|].
    apply Z.bits_above_log2; [lia|]. apply Z.lt_le_trans with 64; [|lia].
    apply Z.log2_lt_pow2; [lia|]. change (2 ^ 64) with (Z.of_N (2 ^ 64)). lia.
Qed.

(* make([]uint64, k) *)
Lemma m_make_nat k : m_make (Z.of_nat k) = Ret (zl (repeat 0%N k)).
Proof. unfold m_make. destruct (Z.ltb_spec (Z.of_nat k) 0); [lia|]. rewrite Nat2Z.id, zl_repeat0. reflexivity. Qed.
Lemma m_make_Z z : 0 <= z -> m_make z = Ret (zl (repeat 0%N (Z.to_nat z))).
Proof. intros H. rewrite <- (Z2Nat.id z) at 1 by lia. apply m_make_nat. Qed.

(* a narrowing conversion after a wider one *)
Lemma wrap_wrap k1 k2 x : 0 <= k1 <= k2 -> wrap k1 (wrap k2 x) = wrap k1 x.
Proof.
  intros H. unfold wrap. symmetry. apply Znumtheory.Zmod_div_mod; try (apply Z.pow_pos_nonneg; lia).
  exists (2 ^ (k2 - k1)). rewrite <- Z.pow_add_r by lia. f_equal. lia.
Qed.
Lemma land_ones16_Z n : Z.of_N (N.land n 65535) = wrap 16 (Z.of_N n).
Proof. change 65535%N with (N.ones 16). rewrite N.land_ones, N2Z.inj_mod. reflexivity. Qed.

(* ------------------------------------------------------------------ the model's binary search, one round at a time *)
Ltac Zify.zify_post_hook ::= Z.div_mod_to_equations.

Lemma skipN_0 (v : list N) : skipN v 0 = v.
Proof. destruct v; reflexivity. Qed.

(* the cursor form of the model (w = v[low:]) read through v itself *)
Lemma search_loop_step v x f low high : (low <= high)%N -> (high <= lenN v)%N ->
  search_loop (S f) (skipN v low) x low high =
  if (low <? high)%N then
    let mid := N.shiftr (low + high) 1 in
    if (nthN v mid <? x)%N then search_loop f (skipN v (mid + 1)) x (mid + 1) high else search_loop f (skipN v low) x low mid
  else low.
Proof.
  intros H1 H2. cbn [search_loop]. destruct (N.ltb_spec low high) as [Hlt|Hge]; [|reflexivity]. cbv zeta.
  assert (Hm : (low <= N.shiftr (low + high) 1 < high)%N).
  { rewrite N.shiftr_div_pow2. change (2 ^ 1)%N with 2%N. lia. }
  set (mid := N.shiftr (low + high) 1) in *.
  assert (E : skipN (skipN v low) (mid - low) = skipn (N.to_nat mid) v).
  { rewrite !skipN_skipn, skipn_skipn. f_equal. lia. }
  rewrite E, hd_skipn, tl_skipn, nthN_nth, !skipN_skipn. replace (N.to_nat (mid + 1)) with (S (N.to_nat mid)) by lia. reflexivity.
Qed.

(* enough fuel: the result does not depend on it *)
Lemma search_loop_fuel x : forall f1 f2 w low high, (N.to_nat (high - low) < f1)%nat -> (N.to_nat (high - low) < f2)%nat ->
  search_loop f1 w x low high = search_loop f2 w x low high.
Proof.
  induction f1 as [|f1 IH]; intros f2 w low high H1 H2; [lia|]. destruct f2 as [|f2]; [lia|]. cbn [search_loop].
  destruct (N.ltb_spec low high) as [Hlt|Hge]; [|reflexivity]. cbv zeta.
  assert (Hm : (low <= N.shiftr (low + high) 1 < high)%N).
  { rewrite N.shiftr_div_pow2. change (2 ^ 1)%N with 2%N. lia. }
  destruct (hd 0%N (skipN w (N.shiftr (low + high) 1 - low)) <? x)%N; apply IH; lia.
Qed.

(* the search result is a position *)
Lemma search_loop_le x : forall f w low high, (low <= high)%N -> (low <= search_loop f w x low high <= high)%N.
Proof.
  induction f as [|f IH]; intros w low high H; cbn [search_loop]; [lia|].
  destruct (N.ltb_spec low high) as [Hlt|Hge]; [|lia]. cbv zeta.
  assert (Hm : (low <= N.shiftr (low + high) 1 < high)%N).
  { rewrite N.shiftr_div_pow2. change (2 ^ 1)%N with 2%N. lia. }
  destruct (hd 0%N (skipN w (N.shiftr (low + high) 1 - low)) <? x)%N.
  - specialize (IH (tl (skipN w (N.shiftr (low + high) 1 - low))) (N.shiftr (low + high) 1 + 1)%N high ltac:(lia)). lia.
  - specialize (IH w low (N.shiftr (low + high) 1) ltac:(lia)). lia.
Qed.
Lemma search_le v x : (search v (lenN v) x <= lenN v)%N.
Proof. unfold search. pose proof (search_loop_le x (S (length v)) v 0%N (lenN v) ltac:(lia)). lia. Qed.

(* int(uint(low+high) >> 1) on the N side *)
Lemma mid_Z low high : (low + high < 2 ^ 64)%N ->
  Z.shiftr (wrap 64 (Z.of_N low + Z.of_N high)) 1 = Z.of_N (N.shiftr (low + high) 1).
Proof.
  intros H. rewrite <- N2Z.inj_add, wrap_small by (change (2 ^ 64) with (Z.of_N (2 ^ 64)); lia).
  change 1 with (Z.of_N 1). rewrite <- of_N_shiftr. reflexivity.
Qed.

(* the loop of search, for any packing pk of its two state variables, given what one iteration does *)
Lemma search_while {St R} (pk : N -> N -> St) (c : St -> M bool) (b : St -> M (ctl St R)) (p : St -> M St) (v : list N) (x : N) :
  (forall low high, (low <= high)%N -> (high <= lenN v)%N ->
     iter1 c b p (pk low high) =
     Ret (if (low <? high)%N then
            let mid := N.shiftr (low + high) 1 in if (nthN v mid <? x)%N then inl (pk (mid + 1)%N high) else inl (pk low mid)
          else inr (inl (pk low high)))) ->
  forall f low high, (low <= high)%N -> (high <= lenN v)%N -> (N.to_nat (high - low) < f)%nat ->
  while f c b p (pk low high) =
  Ret (inl (pk (search_loop f (skipN v low) x low high) (search_loop f (skipN v low) x low high))).
Proof.
  intros H1. induction f as [|f IH]; intros low high Hl Hh Hf; [lia|].
  rewrite while_iter, H1, search_loop_step by assumption.
  destruct (N.ltb_spec low high) as [Hlt|Hge]; cbv zeta.
  - assert (Hm : (low <= N.shiftr (low + high) 1 < high)%N).
    { rewrite N.shiftr_div_pow2. change (2 ^ 1)%N with 2%N. lia. }
    destruct (nthN v (N.shiftr (low + high) 1) <? x)%N; cbn [bind]; apply IH; lia.
  - cbn [bind]. assert (low = high) by lia. subst. reflexivity.
Qed.

(* ------------------------------------------------------------------ more slices of converted lists *)
Lemma zlen_zl_N v : zlen (zl v) = Z.of_N (lenN v).
Proof. rewrite zlen_zl, lenN_length. lia. Qed.
(* s[:b] *)
Lemma m_slice_zl_to v b : m_slice (zl v) 0 b =
  if (0 <=? b) && (b <=? Z.of_N (lenN v)) then Ret (zl (firstn (Z.to_nat b) v)) else Panic.
Proof.
  rewrite m_slice_zl, lenN_length. change (0 <=? 0) with true. cbn [andb]. change (Z.to_nat 0) with 0%nat. cbn [skipn].
  rewrite Nat.sub_0_r. replace (Z.of_N (N.of_nat (length v))) with (Z.of_nat (length v)) by lia. reflexivity.
Qed.
(* s[a:] *)
Lemma m_slice_zl_from v a : m_slice (zl v) a (Z.of_N (lenN v)) =
  if (0 <=? a) && (a <=? Z.of_N (lenN v)) then Ret (zl (skipn (Z.to_nat a) v)) else Panic.
Proof.
  rewrite m_slice_zl, lenN_length. replace (Z.of_N (N.of_nat (length v))) with (Z.of_nat (length v)) by lia.
  rewrite Z.leb_refl, andb_true_r. destruct ((0 <=? a) && (a <=? Z.of_nat (length v))) eqn:E; [|reflexivity].
  rewrite firstn_all2; [reflexivity|]. rewrite skipn_length. lia.
Qed.

(* ------------------------------------------------------------------ a loop that clears words [step] at a time *)
Lemma m_set_zl0 v z : m_set (zl v) z 0 =
  if (0 <=? z) && (z <? Z.of_nat (length v)) then Ret (zl (Bits.upd v (Z.to_nat z) 0%N)) else Panic.
Proof. exact (m_set_zl v z 0%N). Qed.

(* words [a, b) cleared, the others kept *)
Definition cleared (a b : nat) (ws ws' : list N) : Prop :=
  length ws' = length ws /\ forall j, nth j ws' 0%N = if (a <=? j)%nat && (j <? b)%nat then 0%N else nth j ws 0%N.

Lemma cleared_all ws ws' : cleared 0 (length ws) ws ws' -> ws' = repeat 0%N (length ws).
Proof.
  intros [L H]. apply (nth_ext _ _ 0%N 0%N); [rewrite repeat_length; exact L|].
  intros j Hj. rewrite H. rewrite L in Hj. cbn [Nat.leb andb].
  destruct (Nat.ltb_spec j (length ws)); [|lia]. symmetry. apply nth_repeat.
Qed.

Lemma zero_while {St R} (pk : list N -> nat -> St) (c : St -> M bool) (b : St -> M (ctl St R)) (p : St -> M St) (rounds step : nat) : (0 < step)%nat ->
  (forall ws i, (i < rounds * step)%nat -> (i + step <= length ws)%nat ->
     exists ws', iter1 c b p (pk ws i) = Ret (inl (pk ws' (i + step)%nat)) /\ cleared i (i + step) ws ws') ->
  (forall ws i, (rounds * step <= i)%nat -> iter1 c b p (pk ws i) = Ret (inr (inl (pk ws i)))) ->
  forall n k f ws, (k + n = rounds)%nat -> (rounds * step <= length ws)%nat -> (n < f)%nat ->
  exists ws', while f c b p (pk ws (k * step)%nat) = Ret (inl (pk ws' (rounds * step)%nat)) /\ cleared (k * step) (rounds * step) ws ws'.
Proof.
  intros Hstep Hgo Hend. induction n as [|n IH]; intros k f ws Hk Hlen Hf; (destruct f as [|f]; [lia|]); rewrite while_iter.
  - replace k with rounds by lia. rewrite Hend by lia. cbn [bind]. exists ws. split; [reflexivity|]. split; [reflexivity|].
    intros j. destruct (Nat.leb_spec (rounds * step) j), (Nat.ltb_spec j (rounds * step)); cbn [andb]; try lia; reflexivity.
  - assert (S k * step <= rounds * step)%nat by (apply Nat.mul_le_mono_r; lia).
    destruct (Hgo ws (k * step)%nat) as (ws1 & E1 & L1 & C1); [lia|lia|].
    rewrite E1. cbn [bind]. replace (k * step + step)%nat with (S k * step)%nat in * by lia.
    destruct (IH (S k) f ws1 ltac:(lia) ltac:(lia) ltac:(lia)) as (ws2 & E2 & L2 & C2).
    exists ws2. split; [exact E2|]. split; [lia|]. intros j. rewrite C2, C1.
    destruct (Nat.leb_spec (S k * step) j), (Nat.ltb_spec j (rounds * step)), (Nat.leb_spec (k * step) j), (Nat.ltb_spec j (S k * step));
      cbn [andb]; try lia; reflexivity.
Qed.

Lemma cleared_refl a ws : cleared a a ws ws.
Proof. split; [reflexivity|]. intros j. destruct (Nat.leb_spec a j), (Nat.ltb_spec j a); cbn [andb]; try lia; reflexivity. Qed.
(* one more word cleared by  set[z] = 0 *)
Lemma clear_one ws a k cur z : cleared a k ws cur -> z = Z.of_nat k -> (a <= k < length ws)%nat ->
  exists cur', m_set (zl cur) z 0 = Ret (zl cur') /\ cleared a (S k) ws cur'.
Proof.
  intros [L C] -> Hk. exists (Bits.upd cur k 0%N). rewrite m_set_zl0, Nat2Z.id.
  destruct (Z.leb_spec 0 (Z.of_nat k)); [|lia]. destruct (Z.ltb_spec (Z.of_nat k) (Z.of_nat (length cur))); [|lia].
  cbn [andb]. split; [reflexivity|]. split; [rewrite upd_length; exact L|].
  intros j. rewrite nth_upd by lia. rewrite C.
  destruct (Nat.eqb_spec j k), (Nat.leb_spec a j), (Nat.ltb_spec j k), (Nat.ltb_spec j (S k)); cbn [andb]; try lia; reflexivity.
Qed.

(* ------------------------------------------------------------------ the loop  for _, v := range l { bitmap.add(v) } *)
Lemma set_bit_len set n : length (set_bit set n) = length set.
Proof. unfold set_bit. apply upd_length. Qed.
Lemma skipn_nth_cons (l : list N) : forall i, (i < length l)%nat -> skipn i l = nth i l 0%N :: skipn (S i) l.
Proof.
  induction l as [|a l IH]; intros [|i] H; cbn [length] in H; try lia; [reflexivity|].
  cbn [skipn nth]. apply IH. lia.
Qed.
Lemma addall_while {St R} (pk : nat -> list N -> St) (c : St -> M bool) (b : St -> M (ctl St R)) (p : St -> M St) (l : list N) :
  (forall i ws, (i <= length l)%nat ->
     iter1 c b p (pk i ws) =
     if (i <? length l)%nat
     then (if (widx (nth i l 0%N) <? length ws)%nat then Ret (inl (pk (S i) (set_bit ws (nth i l 0%N)))) else Panic)
     else Ret (inr (inl (pk i ws)))) ->
  forall n i f ws, (i + n = length l)%nat -> (n < f)%nat -> Forall (fun y => (widx y < length ws)%nat) l ->
  while f c b p (pk i ws) = Ret (inl (pk (length l) (fold_left set_bit (skipn i l) ws))).
Proof.
  intros H1. induction n as [|n IH]; intros i f ws Hi Hf Hall; (destruct f as [|f]; [lia|]); rewrite while_iter, H1 by lia.
  - destruct (Nat.ltb_spec i (length l)); [lia|]. cbn [bind]. replace i with (length l) by lia. rewrite skipn_all. reflexivity.
  - destruct (Nat.ltb_spec i (length l)); [|lia].
    assert (Hw : (widx (nth i l 0%N) < length ws)%nat) by (rewrite Forall_forall in Hall; apply Hall, nth_In; lia).
    destruct (Nat.ltb_spec (widx (nth i l 0%N)) (length ws)); [|lia]. cbn [bind].
    rewrite IH; [|lia|lia|rewrite set_bit_len; exact Hall].
    rewrite (skipn_nth_cons l i) by lia. reflexivity.
Qed.

Lemma Forall_firstn_N (P : N -> Prop) : forall n (l : list N), Forall P l -> Forall P (firstn n l).
Proof. induction n as [|n IH]; intros [|a l] H; cbn [firstn]; auto. inversion H; subst. constructor; auto. Qed.
Lemma Forall_skipn_N (P : N -> Prop) : forall n (l : list N), Forall P l -> Forall P (skipn n l).
Proof. induction n as [|n IH]; intros [|a l] H; cbn [skipn]; auto. inversion H; subst. auto. Qed.
Lemma fold_set_bit_len : forall l set, length (fold_left set_bit l set) = length set.
Proof. induction l as [|a l IH]; intros set; cbn [fold_left]; [reflexivity|]. rewrite IH. apply set_bit_len. Qed.
Lemma zl_cons x l : zl (x :: l) = Z.of_N x :: zl l.
Proof. reflexivity. Qed.

(* ------------------------------------------------------------------ BitmapIter.Next: the two nested loops *)
(* enough fuel: scan_bits does not depend on it *)
Lemma scan_bits_fuel w : forall f1 f2 j, (N.to_nat (64 - j) < f1)%nat -> (N.to_nat (64 - j) < f2)%nat ->
  scan_bits f1 w j = scan_bits f2 w j.
Proof.
  induction f1 as [|f1 IH]; intros f2 j H1 H2; [lia|]. destruct f2 as [|f2]; [lia|]. cbn [scan_bits].
  destruct (N.ltb_spec j 64); [|reflexivity]. destruct (negb (N.land w (N.shiftl 1 j) =? 0)%N); [reflexivity|]. apply IH; lia.
Qed.

Lemma scan_bits_S f w j : scan_bits (S f) w j =
  if (j <? 64)%N then (if negb (N.land w (N.shiftl 1 j) =? 0)%N then Some j else scan_bits f w (j + 1)) else None.
Proof. reflexivity. Qed.

(* the inner loop  for bi.j < 64 { if set[i]&(1<<j) != 0 { read = true; return true }; j++ }  on the word w;
   mk j = the iterator state with that j, hit j = what the loop returns when it finds bit j *)
Lemma inner_while {St R} (mk : N -> St) (hit : N -> R) (c : St -> M bool) (b : St -> M (ctl St R)) (p : St -> M St) (w : N) :
  (forall j, iter1 c b p (mk j) =
     if (j <? 64)%N then (if negb (N.land w (N.shiftl 1 j) =? 0)%N then Ret (inr (inr (hit j))) else Ret (inl (mk (j + 1)%N)))
     else Ret (inr (inl (mk j)))) ->
  forall n j f, (N.to_nat (64 - j) <= n)%nat -> (n < f)%nat ->
  while f c b p (mk j) = match scan_bits (S n) w j with Some j' => Ret (inr (hit j')) | None => Ret (inl (mk (N.max j 64))) end.
Proof.
  intros H1. induction n as [|n IH]; intros j f Hn Hf; (destruct f as [|f]; [lia|]); rewrite while_iter, H1, scan_bits_S.
  - destruct (N.ltb_spec j 64); [lia|]. cbn [bind]. replace (N.max j 64) with j by lia. reflexivity.
  - destruct (N.ltb_spec j 64) as [Hj|Hj].
    + destruct (negb (N.land w (N.shiftl 1 j) =? 0)%N); cbn [bind]; [reflexivity|].
      rewrite IH by lia. destruct (scan_bits (S n) w (j + 1)); [reflexivity|]. replace (N.max (j + 1) 64) with (N.max j 64) by lia. reflexivity.
    + cbn [bind]. replace (N.max j 64) with j by lia. reflexivity.
Qed.

(* the outer loop  for bi.i < len(set) { inner loop; i++; j = 0 }:  mk i j = the iterator state, hit i j = the result on a find *)
Lemma outer_while {St R} (mk : nat -> N -> St) (hit : nat -> N -> R) (c : St -> M bool) (b : St -> M (ctl St R)) (p : St -> M St)
  (set : list N) :
  (forall i j, iter1 c b p (mk i j) =
     if (i <? length set)%nat
     then match scan_bits 65 (nth i set 0%N) j with Some j' => Ret (inr (inr (hit i j'))) | None => Ret (inl (mk (S i) 0%N)) end
     else Ret (inr (inl (mk i j)))) ->
  forall n i j f, (length set - i <= n)%nat -> (n < f)%nat ->
  while f c b p (mk i j) =
  match scan_w (skipn i set) i j with
  | Some (i', j') => Ret (inr (hit i' j'))
  | None => Ret (inl (mk (Nat.max i (length set)) (if (i <? length set)%nat then 0%N else j)))
  end.
Proof.
  intros H1. induction n as [|n IH]; intros i j f Hn Hf; (destruct f as [|f]; [lia|]); rewrite while_iter, H1.
  - destruct (Nat.ltb_spec i (length set)); [lia|]. cbn [bind]. rewrite skipn_all2 by lia. cbn [scan_w].
    replace (Nat.max i (length set)) with i by lia. reflexivity.
  - destruct (Nat.ltb_spec i (length set)) as [Hi|Hi].
    + rewrite (skipn_nth_cons set i Hi). cbn [scan_w].
      destruct (scan_bits 65 (nth i set 0%N) j) as [j'|]; cbn [bind]; [reflexivity|].
      rewrite IH by lia. destruct (scan_w (skipn (S i) set) (S i) 0) as [[i' j']|]; [reflexivity|].
      replace (Nat.max (S i) (length set)) with (Nat.max i (length set)) by lia.
      destruct (Nat.ltb_spec (S i) (length set)); reflexivity.
    + cbn [bind]. rewrite skipn_all2 by lia. cbn [scan_w]. replace (Nat.max i (length set)) with i by lia. reflexivity.
Qed.
