(* C05 — emission ORDER of find / FindAll: the scope list the executable model returns IS the specification's occurrence
   list (Model.Trie.occs, rune-aligned reading) — by end position ascending, at the same end the longer pattern first —
   as a list, not only as a set.  Argument: both lists are strictly sorted by [scope_before] and have the same elements. *)
From Coq Require Import List ZArith Lia Bool Arith Sorted.
From V Require Import Lib.Utf8 Model.Trie Model.TrieOrder Proofs.TrieTable Proofs.TrieInsert Proofs.TrieRunes Proofs.TrieAbs
  Proofs.TrieAbsFind Proofs.TrieBuild Proofs.TrieFind Proofs.TrieOcc Proofs.TrieTop Proofs.TrieOrderSorted.
Import ListNotations.

Module M := V.Model.Trie.
Module A := V.Proofs.TrieAbs.

(* ---- the orders ---- *)
Lemma occ_before_asym a b : occ_before a b -> occ_before b a -> False.
Proof. unfold occ_before. lia. Qed.
Lemma scope_before_asym a b : scope_before a b -> scope_before b a -> False.
Proof. unfold scope_before. lia. Qed.

(* ---- the specification list is sorted ---- *)
Theorem occs_sorted al ps t : StronglySorted occ_before (occs al ps t).
Proof.
  unfold occs. apply (ss_flat_map lt occ_before); [apply ss_seq| |].
  - intros e _. unfold occs_ending. apply (ss_flat_map lt occ_before); [apply ss_seq| |].
    + intros s _. destruct (existsb _ _); [constructor; [constructor|constructor]|constructor].
    + intros s s' b b' _ _ Hlt Hb Hb'.
      destruct (existsb _ _); [|destruct Hb]. destruct Hb as [<-|[]].
      destruct (existsb _ _); [|destruct Hb']. destruct Hb' as [<-|[]].
      right. cbn [fst snd]. split; [reflexivity|exact Hlt].
  - intros e e' b b' _ _ Hlt Hb Hb'. unfold occs_ending in Hb, Hb'. apply in_flat_map in Hb. apply in_flat_map in Hb'.
    destruct Hb as (s & _ & Hb). destruct Hb' as (s' & _ & Hb').
    destruct (existsb _ _); [|destruct Hb]. destruct Hb as [<-|[]].
    destruct (existsb _ _); [|destruct Hb']. destruct Hb' as [<-|[]].
    left. cbn [snd]. exact Hlt.
Qed.

(* a list with the same elements that is sorted the same way is that list *)
Theorem occs_order_unique al ps t l :
  StronglySorted occ_before l -> (forall se, In se l <-> In se (occs al ps t)) -> l = occs al ps t.
Proof. intros H Hi. apply (ss_unique occ_before occ_before_asym); [exact H|apply occs_sorted|exact Hi]. Qed.

Theorem occs_emission_order al ps t :
  StronglySorted occ_before (occs al ps t) /\
  (forall l, StronglySorted occ_before l -> (forall se, In se l <-> In se (occs al ps t)) -> l = occs al ps t).
Proof. split; [apply occs_sorted|apply occs_order_unique]. Qed.

Lemma scope_of_sorted l : StronglySorted occ_before l -> StronglySorted scope_before (map scope_of l).
Proof.
  intros H. apply (ss_map occ_before scope_before scope_of l H). intros [s e] [s' e'] _ _.
  unfold occ_before, scope_before, scope_of. cbn [fst snd]. lia.
Qed.

(* ---- the emitted list is sorted ---- *)
Definition psuf (u u' : list Z) : Prop := exists z, z <> [] /\ u = z ++ u'.

Lemma suffixes_sorted x : StronglySorted psuf (A.suffixes x).
Proof.
  induction x as [|a x IH]; cbn [A.suffixes]; [constructor; [constructor|constructor]|].
  apply ss_cons; [exact IH|]. intros y Hy. apply A.suffixes_spec in Hy. destruct Hy as (p & ->).
  exists (a :: p). split; [discriminate|reflexivity].
Qed.

Section Order.
Variable ps : list (list Z).
Hypothesis Hps : Forall is_bytes ps.
Notation T0 := (inserts ps).

Lemma ends_scopes_sorted y i : StronglySorted scope_before (map (fun u => ((i - size_of T0 u)%Z, i)) (ends T0 y)).
Proof.
  apply (ss_map psuf scope_before).
  - unfold ends. apply ss_filter. apply suffixes_sorted.
  - intros a b Ha Hb (z & Hz & ->). apply in_ends in Ha. apply in_ends in Hb.
    rewrite (end_size ps Hps _ (proj1 Ha)), (end_size ps Hps _ (proj1 Hb)). rewrite SZ_app.
    pose proof (SZ_pos z Hz). right. cbn [fst snd]. split; [reflexivity|lia].
Qed.

Theorem afind_sorted : forall toks x i, Forall (fun rw => (1 <= snd rw)%nat) toks ->
  StronglySorted scope_before (afind T0 x i toks).
Proof.
  induction toks as [|[v w] rest IH]; intros x i Hp; cbn [afind]; [constructor|]. inversion Hp as [|? ? H1 H2]; subst. cbv zeta.
  apply ss_app; [apply ends_scopes_sorted|apply IH; exact H2|].
  intros a [s e] Ha Hb. apply in_map_iff in Ha. destruct Ha as (u & <- & _).
  apply (afind_stop_gt ps) in Hb; [|exact H2]. left. cbn [snd]. exact Hb.
Qed.

(* ---- find, as a list ---- *)
Theorem afind_is_occs text : is_bytes text -> afind T0 [] 0 (tokens text) = map scope_of (occs true ps text).
Proof.
  intros Hb. apply (ss_unique scope_before scope_before_asym).
  - apply afind_sorted. apply tokens_width_pos.
  - apply scope_of_sorted. apply occs_sorted.
  - intros [s e]. rewrite (afind_bytes ps Hps text Hb). change (OccB ps text s e) with (occurrence ps text s e).
    rewrite occurrence_occs, in_map_iff. split.
    + intros (Hs & He & Hin). exists (Z.to_nat s, Z.to_nat e). split; [unfold scope_of; cbn [fst snd]; f_equal; lia|exact Hin].
    + intros ([a b] & Ez & Hin). unfold scope_of in Ez. cbn [fst snd] in Ez. inversion Ez; subst. rewrite !Nat2Z.id.
      split; [lia|]. split; [lia|exact Hin].
Qed.
End Order.

(* FindAll's strings, in order *)
Lemma slices_scopes text : forall l, (forall s e, In (s, e) l -> s <= e <= length text) ->
  slices text (map scope_of l) = Ok (map (sub text) l).
Proof.
  induction l as [|[s e] l IH]; intros H; [reflexivity|]. cbn [map slices scope_of fst snd].
  rewrite IH by (intros s' e' H'; apply H; right; exact H').
  specialize (H s e (or_introl eq_refl)). unfold slice.
  destruct (Z.leb_spec 0 (Z.of_nat s)); [|lia]. destruct (Z.leb_spec (Z.of_nat s) (Z.of_nat e)); [|lia].
  destruct (Z.leb_spec (Z.of_nat e) (Z.of_nat (length text))); [|lia]. cbn [andb]. unfold sub. cbn [fst snd].
  rewrite Nat2Z.id. replace (Z.to_nat (Z.of_nat e - Z.of_nat s)) with (e - s) by lia. reflexivity.
Qed.

Theorem find_order ps text T : Forall is_bytes ps -> is_bytes text -> built ps T ->
  M.find T text = Ok (map scope_of (occs true ps text)) /\
  M.find_all T text = Ok (spec_find_all true ps text).
Proof.
  intros Hps Hb E. destruct (built_facts ps T E) as [HS HF]. pose proof (INS_inserts ps) as HI.
  assert (Ef : M.find T text = Ok (map scope_of (occs true ps text))).
  { rewrite <- (afind_is_occs ps Hps text Hb).
    apply (find_sim (inserts ps) T (ins_wf _ _ HI) HS HF (INS_end_nonroot ps _ HI)). }
  split; [exact Ef|]. unfold M.find_all. rewrite Ef. unfold spec_find_all. apply slices_scopes.
  intros s e Hin. apply occs_spec in Hin. lia.
Qed.

(* in the reading the run's judge selects (plain byte occurrences when every pattern is valid UTF-8) *)
From V Require Import Proofs.TrieValid Proofs.TrieJudge.
Theorem find_all_order_judge ps text T : Forall is_bytes ps -> is_bytes text -> built ps T ->
  M.find_all T text = Ok (spec_find_all (mode_of ps) ps text).
Proof.
  intros Hps Hb E. destruct (find_order ps text T Hps Hb E) as [_ H]. rewrite H. f_equal. unfold spec_find_all. f_equal.
  destruct (mode_of ps) eqn:Em; [reflexivity|]. pose proof (proj1 (judge_plain_is_aligned ps text Hps Hb) Em) as H1. rewrite Em in H1. symmetry. exact H1.
Qed.
