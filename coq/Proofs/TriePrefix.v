(* C05 — PrefixSearch of the executable model: the exact-children walk, then the explicit-stack DFS with the shared byte
   buffer truncated to each frame's byte offset.  Set-level: the result lists, each once, the byte strings of the
   end-marked nodes below the node the key leads to.  Fuel: the number of keys below a node bounds the DFS. *)
From Coq Require Import List ZArith Lia Bool Arith.
From V Require Import Lib.Utf8 Model.Trie Proofs.TrieTable Proofs.TrieInsert Proofs.TrieRunes Proofs.TrieBuild Proofs.TrieOcc.
Import ListNotations.

Module M := V.Model.Trie.

Definition wprefix (w x : list Z) : Prop := exists ext, x = w ++ ext.

Lemma app_eq_cases {X} (a b q r : list X) : a ++ b = q ++ r -> (exists z, q = a ++ z) \/ (exists z, a = q ++ z).
Proof.
  revert q. induction a as [|x a IH]; intros q E.
  - left. exists q. reflexivity.
  - destruct q as [|y q].
    + right. exists (x :: a). reflexivity.
    + cbn [app] in E. injection E as -> E. destruct (IH q E) as [(z & ->)|(z & ->)]; [left|right]; exists z; reflexivity.
Qed.

(* trie words are canonical: a prefix of the rune word of a byte string is the rune word of its own bytes *)
Lemma runes_prefix_canon s q r : is_bytes s -> runes_of s = q ++ r -> runes_of (wbytes q) = q /\ is_bytes (wbytes q).
Proof.
  intros Hb E. pose proof (wbytes_runes_of s Hb) as Hw. rewrite E, wbytes_app in Hw.
  assert (Hbq : is_bytes (wbytes q) /\ is_bytes (wbytes r)) by (apply is_bytes_app; rewrite Hw; exact Hb).
  split; [|apply Hbq].
  pose proof (bounds_prefix_runes q s r Hb E) as Hbd. rewrite <- Hw in Hbd.
  pose proof (tokens_app _ _ Hbd) as Ht.
  assert (Er : runes_of (wbytes q) ++ runes_of (wbytes r) = q ++ r).
  { rewrite <- E. unfold runes_of. rewrite <- map_app, <- Ht, Hw. reflexivity. }
  pose proof (wbytes_runes_of _ (proj1 Hbq)) as Hwq.
  destruct (app_eq_cases _ _ _ _ Er) as [(z & Ez)|(z & Ez)].
  - rewrite Ez in Hwq at 2. rewrite wbytes_app in Hwq.
    assert (wbytes z = []) by (apply (app_inv_head (wbytes (runes_of (wbytes q)))); rewrite app_nil_r; symmetry; exact Hwq).
    destruct z as [|c z]; [rewrite app_nil_r in Ez; symmetry; exact Ez|].
    exfalso. pose proof (SZ_pos (c :: z) ltac:(discriminate)) as Hp. unfold SZ in Hp. rewrite H in Hp. cbn in Hp. lia.
  - rewrite Ez in Hwq. rewrite wbytes_app in Hwq.
    assert (wbytes z = []) by (apply (app_inv_head (wbytes q)); rewrite app_nil_r; exact Hwq).
    destruct z as [|c z]; [rewrite app_nil_r in Ez; exact Ez|].
    exfalso. pose proof (SZ_pos (c :: z) ltac:(discriminate)) as Hp. unfold SZ in Hp. rewrite H in Hp. cbn in Hp. lia.
Qed.

(* ------------------------------------------------------------------ counting the keys below a node *)
Definition wpre (w k : list Z) : bool := weqb (firstn (length w) k) w.
Lemma wpre_iff w k : wpre w k = true <-> wprefix w k.
Proof.
  unfold wpre, wprefix. rewrite weqb_eq. split.
  - intros H. exists (skipn (length w) k). rewrite <- H at 1. symmetry. apply firstn_skipn.
  - intros (e & ->). rewrite firstn_app, Nat.sub_diag, firstn_all. cbn [firstn]. apply app_nil_r.
Qed.
Definition b2n (b : bool) : nat := if b then 1 else 0.
Definition cnt (K : list (list Z)) (w : list Z) : nat := length (filter (wpre w) K).

Lemma ls_nil : list_sum [] = 0.
Proof. reflexivity. Qed.
Lemma ls_cons a l : list_sum (a :: l) = a + list_sum l.
Proof. reflexivity. Qed.

Lemma filter_length_cons {X} (f : X -> bool) k K : length (filter f (k :: K)) = b2n (f k) + length (filter f K).
Proof. cbn [filter]. destruct (f k); reflexivity. Qed.

Lemma one_child w k : forall cs, NoDup cs -> list_sum (map (fun c => b2n (wpre (w ++ [c]) k)) cs) <= 1.
Proof.
  induction cs as [|c cs IH]; intros Hn; cbn [map]; rewrite ?ls_cons, ?ls_nil; [lia|]. inversion Hn as [|? ? Hc Hn']; subst.
  destruct (wpre (w ++ [c]) k) eqn:E; cbn [b2n]; [|apply IH; exact Hn'].
  assert (Z0 : list_sum (map (fun c0 => b2n (wpre (w ++ [c0]) k)) cs) = 0).
  { clear IH Hn Hn'. induction cs as [|d cs IHc]; [reflexivity|]. cbn [map]; rewrite ?ls_cons, ?ls_nil.
    destruct (wpre (w ++ [d]) k) eqn:Ed.
    - exfalso. apply wpre_iff in E. apply wpre_iff in Ed. destruct E as (e1 & E1). destruct Ed as (e2 & E2).
      rewrite E1 in E2. rewrite <- !app_assoc in E2. apply app_inv_head in E2. cbn [app] in E2. injection E2 as E2 _.
      apply Hc. left. symmetry. exact E2.
    - cbn [b2n]. apply IHc. intros H. apply Hc. right. exact H. }
  lia.
Qed.

Lemma list_sum_add {X} (f g : X -> nat) l : list_sum (map (fun x => f x + g x) l) = list_sum (map f l) + list_sum (map g l).
Proof. induction l as [|a l IH]; cbn [map]; rewrite ?ls_cons, ?ls_nil; [reflexivity|]. rewrite IH. lia. Qed.

Lemma cnt_step w cs : NoDup cs -> forall K,
  length (filter (weqb w) K) + list_sum (map (fun c => cnt K (w ++ [c])) cs) <= cnt K w.
Proof.
  intros Hn. induction K as [|k K IH]; unfold cnt in *.
  - cbn [filter length]. clear. induction cs; cbn [map]; rewrite ?ls_cons, ?ls_nil; lia.
  - rewrite !filter_length_cons.
    assert (E : map (fun c => length (filter (wpre (w ++ [c])) (k :: K))) cs
              = map (fun c => b2n (wpre (w ++ [c]) k) + length (filter (wpre (w ++ [c])) K)) cs)
      by (apply map_ext; intros c; apply filter_length_cons).
    rewrite E, list_sum_add.
    assert (P : b2n (weqb w k) + list_sum (map (fun c => b2n (wpre (w ++ [c]) k)) cs) <= b2n (wpre w k)).
    { pose proof (one_child w k cs Hn) as H1. destruct (wpre w k) eqn:Ew; cbn [b2n].
      - destruct (weqb w k) eqn:Ek; cbn [b2n]; [|lia]. apply weqb_eq in Ek. subst k.
        assert (Z0 : list_sum (map (fun c => b2n (wpre (w ++ [c]) w)) cs) = 0).
        { clear. induction cs as [|c cs IHc]; [reflexivity|]. cbn [map]; rewrite ?ls_cons, ?ls_nil. rewrite IHc.
          destruct (wpre (w ++ [c]) w) eqn:E; [|reflexivity]. apply wpre_iff in E. destruct E as (e & E).
          apply (f_equal (@length Z)) in E. rewrite !app_length in E. cbn in E. lia. }
        lia.
      - assert (Ek : weqb w k = false).
        { destruct (weqb w k) eqn:Ek; [|reflexivity]. apply weqb_eq in Ek. subst k.
          assert (wpre w w = true) by (apply wpre_iff; exists []; rewrite app_nil_r; reflexivity). congruence. }
        rewrite Ek. cbn [b2n].
        assert (Z0 : list_sum (map (fun c => b2n (wpre (w ++ [c]) k)) cs) = 0).
        { clear -Ew. induction cs as [|c cs IHc]; [reflexivity|]. cbn [map]; rewrite ?ls_cons, ?ls_nil. rewrite IHc.
          destruct (wpre (w ++ [c]) k) eqn:E; [|reflexivity]. apply wpre_iff in E. destruct E as (e & E).
          assert (wpre w k = true) by (apply wpre_iff; exists ([c] ++ e); rewrite E, <- app_assoc; reflexivity). congruence. }
        lia. }
    lia.
Qed.

Lemma list_sum_app_map {X} (f : X -> nat) a b : list_sum (map f (a ++ b)) = list_sum (map f a) + list_sum (map f b).
Proof. rewrite map_app, list_sum_app. reflexivity. Qed.
Lemma list_sum_rev_map {X} (f : X -> nat) l : list_sum (map f (rev l)) = list_sum (map f l).
Proof. induction l as [|a l IH]; [reflexivity|]. cbn [rev]. rewrite list_sum_app_map, IH. cbn [map]; rewrite ?ls_cons, ?ls_nil. lia. Qed.

Lemma filter_len_le {X} (f : X -> bool) l : length (filter f l) <= length l.
Proof. induction l as [|a l IH]; cbn [filter length]; [lia|]. destruct (f a); cbn [length]; lia. Qed.

Section Prefix.
Variable T0 T : trie.
Hypothesis HW : WF T0.
Hypothesis HS : SE T0 T.
Hypothesis HL : length T = length T0.
Notation inT0 := (inT0 T0).
Notation kids0 := (kids0 T0).
Let inT_prefix := inT_prefix T0 HW.
Let kids_spec := kids_spec T0 HW.

Lemma inT_prefix_app a : forall b, inT0 (a ++ b) = true -> inT0 a = true.
Proof.
  intros b. induction b as [|c b IH] using rev_ind; intros H; [rewrite app_nil_r in H; exact H|].
  apply IH. apply (inT_prefix (a ++ b) c). rewrite <- app_assoc. exact H.
Qed.

(* the nodes below w: w itself, or below one of its children *)
Lemma sub_step w x : inT0 w = true ->
  (wprefix w x /\ inT0 x = true) <-> (x = w \/ exists c, In c (kids0 w) /\ wprefix (w ++ [c]) x /\ inT0 x = true).
Proof.
  intros Hw. split.
  - intros [(e & ->) Hx]. destruct e as [|c e]; [left; apply app_nil_r|]. right. exists c.
    replace (w ++ c :: e) with ((w ++ [c]) ++ e) in * by (rewrite <- app_assoc; reflexivity).
    split; [apply kids_spec; eapply inT_prefix_app; exact Hx|]. split; [exists e; reflexivity|exact Hx].
  - intros [->|(c & Hc & (e & ->) & Hx)].
    + split; [exists []; rewrite app_nil_r; reflexivity|exact Hw].
    + split; [exists ([c] ++ e); rewrite <- app_assoc; reflexivity|exact Hx].
Qed.

Definition K0 := map fst T0.
Definition phi (stack : list frame) : nat := list_sum (map (fun f => cnt K0 (fnode f)) stack).

Lemma cnt_kids w : inT0 w = true -> 1 + list_sum (map (fun c => cnt K0 (w ++ [c])) (kids0 w)) <= cnt K0 w.
Proof.
  intros Hw. pose proof (cnt_step w (kids0 w) (kids0_nodup T0 HW w) K0) as H.
  assert (1 <= length (filter (weqb w) K0)); [|lia].
  apply inT_keys in Hw. fold K0 in Hw. clear H. induction K0 as [|k K IH]; [destruct Hw|].
  cbn [filter]. destruct Hw as [->|Hw]; [rewrite weqb_refl; cbn; lia|]. specialize (IH Hw). destruct (weqb w k); cbn [length]; lia.
Qed.

Lemma phi_push w d rest : phi (push_kids T w d rest) = list_sum (map (fun c => cnt K0 (w ++ [c])) (kids0 w)) + phi rest.
Proof.
  unfold phi, push_kids. rewrite (SE_kids T0 T w HS). rewrite list_sum_app_map. f_equal.
  rewrite list_sum_rev_map, map_map. reflexivity.
Qed.

(* ---- buffer discipline ---- *)
Definition Fr (f : frame) (buf : list Z) : Prop :=
  exists p, fnode f = p ++ [fr f] /\ fdepth f = Z.of_nat (length (wbytes p)) /\
            firstn (length (wbytes p)) buf = wbytes p /\ length (wbytes p) <= length buf.
Fixpoint StackOK (stack : list frame) (buf : list Z) : Prop :=
  match stack with
  | [] => True
  | f :: r => Fr f buf /\ (forall g, In g r -> (fdepth g <= fdepth f)%Z) /\ StackOK r buf
  end.

Lemma StackOK_buf stack : forall buf buf' d, StackOK stack buf -> (forall g, In g stack -> (fdepth g <= Z.of_nat d)%Z) ->
  firstn d buf' = firstn d buf -> d <= length buf' -> StackOK stack buf'.
Proof.
  induction stack as [|f r IH]; intros buf buf' d H Hd Hb Hl; [exact I|]. cbn [StackOK] in *. destruct H as ((p & E1 & E2 & E3 & E4) & H2 & H3).
  assert (Hfd : (fdepth f <= Z.of_nat d)%Z) by (apply Hd; left; reflexivity).
  split; [|split; [exact H2|]].
  - exists p. split; [exact E1|]. split; [exact E2|]. split; [|lia].
    assert (G : forall x : list Z, firstn (length (wbytes p)) x = firstn (length (wbytes p)) (firstn d x)) by (intros x; rewrite firstn_firstn; f_equal; lia).
    rewrite (G buf'), Hb, <- (G buf). exact E3.
  - apply (IH buf buf' d); auto. intros g Hg. apply Hd. right. exact Hg.
Qed.

Definition Pend (stack : list frame) (x : list Z) : Prop := exists f, In f stack /\ wprefix (fnode f) x /\ inT0 x = true.

Lemma pend_push w d rest x : inT0 w = true ->
  (Pend ({| fr := 0; fdepth := 0; fnode := w |} :: rest) x <-> x = w \/ Pend (push_kids T w d rest) x).
Proof.
  intros Hw. unfold Pend, push_kids. rewrite (SE_kids T0 T w HS). split.
  - intros (f & [<-|Hf] & Hp & Hx).
    + cbn [fnode] in Hp. destruct (proj1 (sub_step w x Hw) (conj Hp Hx)) as [->|(c & Hc & Hp' & _)]; [left; reflexivity|].
      right. exists (mkF c d (w ++ [c])). split; [|split; [exact Hp'|exact Hx]].
      apply in_or_app. left. apply in_rev. rewrite rev_involutive. apply in_map_iff. exists c. auto.
    + right. exists f. split; [apply in_or_app; right; exact Hf|auto].
  - intros [->|(f & Hf & Hp & Hx)].
    + eexists. split; [left; reflexivity|]. cbn [fnode]. split; [exists []; rewrite app_nil_r; reflexivity|exact Hw].
    + apply in_app_or in Hf. destruct Hf as [Hf|Hf].
      * apply in_rev in Hf. apply in_map_iff in Hf. destruct Hf as (c & <- & Hc). cbn [fnode] in Hp.
        eexists. split; [left; reflexivity|]. cbn [fnode].
        apply (sub_step w x Hw). right. exists c. auto.
      * exists f. split; [right; exact Hf|auto].
Qed.

(* incomparable nodes: disjoint subtrees *)
Definition inc (a b : list Z) : Prop := ~ wprefix a b /\ ~ wprefix b a.
Fixpoint Incomp (stack : list frame) : Prop :=
  match stack with [] => True | f :: r => (forall g, In g r -> inc (fnode f) (fnode g)) /\ Incomp r end.

Lemma Incomp_app a b : Incomp a -> Incomp b -> (forall f g, In f a -> In g b -> inc (fnode f) (fnode g)) -> Incomp (a ++ b).
Proof.
  induction a as [|x a IH]; intros Ha Hb H; cbn [app Incomp] in *; [exact Hb|]. destruct Ha as [Ha1 Ha2]. split.
  - intros g Hg. apply in_app_or in Hg. destruct Hg; [apply Ha1; auto|apply H; [left; reflexivity|auto]].
  - apply IH; auto. intros f g Hf Hg. apply H; [right; exact Hf|exact Hg].
Qed.
Lemma inc_sym a b : inc a b -> inc b a.
Proof. unfold inc. tauto. Qed.
Lemma inc_child w c g : inc w g -> inc (w ++ [c]) g.
Proof.
  intros [H1 H2]. split.
  - intros (e & ->). apply H1. exists ([c] ++ e). rewrite <- app_assoc. reflexivity.
  - intros (e & E). destruct e as [|y e] using rev_ind.
    + rewrite app_nil_r in E. subst g. apply H1. exists [c]. reflexivity.
    + rewrite app_assoc in E. apply app_inj_tail in E. destruct E as [E _]. apply H2. exists e. exact E.
Qed.
Lemma inc_siblings w c d : c <> d -> inc (w ++ [c]) (w ++ [d]).
Proof.
  intros Hne. split; intros (e & E).
  - destruct e as [|y e]; [rewrite app_nil_r in E; apply app_inj_tail in E; destruct E; congruence|].
    apply (f_equal (@length Z)) in E. rewrite !app_length in E. cbn in E. lia.
  - destruct e as [|y e]; [rewrite app_nil_r in E; apply app_inj_tail in E; destruct E; congruence|].
    apply (f_equal (@length Z)) in E. rewrite !app_length in E. cbn in E. lia.
Qed.
Lemma Incomp_kids w d : forall cs, NoDup cs -> Incomp (rev (map (fun c => mkF c d (w ++ [c])) cs)).
Proof.
  induction cs as [|c cs IH]; intros Hn; [exact I|]. inversion Hn as [|? ? Hc Hn']; subst. cbn [map rev].
  apply Incomp_app; [apply IH; exact Hn'|cbn [Incomp]; split; [intros g []|exact I]|].
  intros f g Hf [<-|[]]. apply in_rev in Hf. apply in_map_iff in Hf. destruct Hf as (c' & <- & Hc'). cbn [fnode].
  apply inc_siblings. intros ->. contradiction.
Qed.

(* ---- the DFS loop ---- *)
Hypothesis Hcanon : forall x, inT0 x = true -> runes_of (wbytes x) = x.

Lemma wbytes_inj x y : inT0 x = true -> inT0 y = true -> wbytes x = wbytes y -> x = y.
Proof. intros Hx Hy E. rewrite <- (Hcanon x Hx), <- (Hcanon y Hy), E. reflexivity. Qed.

Lemma dfs_spec : forall fuel stack buf ret,
  StackOK stack buf -> (forall f, In f stack -> inT0 (fnode f) = true) -> phi stack < fuel ->
  Incomp stack -> NoDup ret -> (forall x, Pend stack x -> is_end T0 x = true -> ~ In (wbytes x) ret) ->
  exists buf' ret', M.dfs fuel T stack buf ret = Ok (buf', ret') /\ NoDup ret' /\
    (forall y, In y ret' <-> In y ret \/ exists x, Pend stack x /\ is_end T0 x = true /\ y = wbytes x).
Proof.
  induction fuel as [|k IH]; intros stack buf ret HB HT Hfu HI Hnd Hdis; [lia|].
  cbn [M.dfs]. destruct stack as [|cur rest].
  - exists buf, ret. split; [reflexivity|]. split; [exact Hnd|]. intros y. split; [auto|]. intros [H|(x & (f & [] & _) & _)]. exact H.
  - cbn [StackOK] in HB. destruct HB as ((p & E1 & E2 & E3 & E4) & HB2 & HB3).
    destruct cur as [r d w]. cbn [fr fdepth fnode] in *. subst w. subst d.
    assert (Hw : inT0 (p ++ [r]) = true) by (apply (HT (mkF r (Z.of_nat (length (wbytes p))) (p ++ [r]))); left; reflexivity).
    destruct (Z.leb_spec 0 (Z.of_nat (length (wbytes p)))); [|lia]. destruct (Z.leb_spec (Z.of_nat (length (wbytes p))) (Z.of_nat (length buf))); [|lia]. cbn [andb].
    rewrite Nat2Z.id, E3. rewrite <- wbytes_snoc. set (w := p ++ [r]) in *. set (buf' := wbytes w).
    rewrite (SE_end T0 T w HS).
    set (ret1 := if is_end T0 w then buf' :: ret else ret).
    assert (Hpend : forall x, Pend (mkF r (Z.of_nat (length (wbytes p))) w :: rest) x <-> x = w \/ Pend (push_kids T w (Z.of_nat (length buf')) rest) x).
    { intros x. rewrite <- (pend_push w (Z.of_nat (length buf')) rest x Hw). unfold Pend. split; intros (f & [<-|Hf] & H2).
      - eexists. split; [left; reflexivity|exact H2].
      - exists f. split; [right; exact Hf|exact H2].
      - eexists. split; [left; reflexivity|exact H2].
      - exists f. split; [right; exact Hf|exact H2]. }
    assert (Hlen : length (wbytes p) <= length buf') by (unfold buf', w; rewrite wbytes_snoc, app_length; lia).
    cbn [Incomp] in HI. destruct HI as [HI1 HI2].
    destruct (IH (push_kids T w (Z.of_nat (length buf')) rest) buf' ret1) as (b2 & r2 & E & N2 & M2).
    + (* StackOK *)
      unfold push_kids. rewrite (SE_kids T0 T w HS).
      assert (Hrest : StackOK rest buf').
      { apply (StackOK_buf rest buf buf' (length (wbytes p))); [exact HB3|exact HB2| |exact Hlen].
        unfold buf', w. rewrite wbytes_snoc, firstn_app, Nat.sub_diag, firstn_all. cbn [firstn]. rewrite app_nil_r. symmetry. exact E3. }
      assert (G : forall l, StackOK (rev (map (fun c => mkF c (Z.of_nat (length buf')) (w ++ [c])) l) ++ rest) buf').
      { induction l as [|c l IHl] using rev_ind; [exact Hrest|]. rewrite map_app, rev_app_distr. cbn [map rev app StackOK].
        split; [|split; [|exact IHl]].
        - exists w. cbn [fnode fr fdepth]. split; [reflexivity|]. split; [reflexivity|]. split; [apply firstn_all|unfold buf'; lia].
        - intros g Hg. cbn [fdepth]. apply in_app_or in Hg. destruct Hg as [Hg|Hg].
          + apply in_rev in Hg. apply in_map_iff in Hg. destruct Hg as (c' & <- & _). cbn [fdepth]. lia.
          + specialize (HB2 g Hg). lia. }
      apply G.
    + intros f Hf'. unfold push_kids in Hf'. rewrite (SE_kids T0 T w HS) in Hf'. apply in_app_or in Hf'. destruct Hf' as [Hf'|Hf'].
      * apply in_rev in Hf'. apply in_map_iff in Hf'. destruct Hf' as (c & <- & Hc). cbn [fnode]. apply kids_spec. exact Hc.
      * apply HT. right. exact Hf'.
    + rewrite phi_push. unfold phi in Hfu. cbn [map fnode] in Hfu. rewrite ?ls_cons, ?ls_nil in Hfu. fold (phi rest) in Hfu. pose proof (cnt_kids w Hw). lia.
    + unfold push_kids. rewrite (SE_kids T0 T w HS). apply Incomp_app; [apply Incomp_kids; apply (kids0_nodup T0 HW)|exact HI2|].
      intros f g Hf' Hg. apply in_rev in Hf'. apply in_map_iff in Hf'. destruct Hf' as (c & <- & _). cbn [fnode].
      apply inc_child. apply (HI1 g Hg).
    + unfold ret1. destruct (is_end T0 w) eqn:Ee; [|exact Hnd]. constructor; [|exact Hnd].
      apply (Hdis w); [apply Hpend; left; reflexivity|exact Ee].
    + intros x Hx Hex Hin. unfold ret1 in Hin.
      assert (Hxp : Pend (mkF r (Z.of_nat (length (wbytes p))) w :: rest) x) by (apply Hpend; right; exact Hx).
      destruct (is_end T0 w) eqn:Ee; [destruct Hin as [Hin|Hin]|]; try (apply (Hdis x Hxp Hex Hin)).
      (* wbytes x = wbytes w with x strictly below w or in another subtree *)
      assert (Hxt : inT0 x = true) by (destruct Hx as (f0 & _ & _ & Hq); exact Hq).
      assert (x = w) by (apply wbytes_inj; auto). subst x.
      destruct Hx as (f & Hf' & Hp & _). unfold push_kids in Hf'. rewrite (SE_kids T0 T w HS) in Hf'. apply in_app_or in Hf'. destruct Hf' as [Hf'|Hf'].
      * apply in_rev in Hf'. apply in_map_iff in Hf'. destruct Hf' as (c & <- & _). cbn [fnode] in Hp. destruct Hp as (e & E').
        apply (f_equal (@length Z)) in E'. rewrite !app_length in E'. cbn in E'. lia.
      * destruct (HI1 f Hf') as [_ H2]. apply H2. exact Hp.
    + exists b2, r2. split; [exact E|]. split; [exact N2|]. intros y. rewrite M2. unfold ret1. split.
      * intros [Hy|(x & Hx & He & ->)].
        -- destruct (is_end T0 w) eqn:Ee; [destruct Hy as [<-|Hy]|]; auto.
           right. exists w. split; [apply Hpend; left; reflexivity|auto].
        -- right. exists x. split; [apply Hpend; right; exact Hx|auto].
      * intros [Hy|(x & Hx & He & ->)].
        -- left. destruct (is_end T0 w); [right|]; exact Hy.
        -- apply Hpend in Hx. destruct Hx as [->|Hx].
           ++ left. rewrite He. left. reflexivity.
           ++ right. exists x. auto.
Qed.

(* ---- the walk ---- *)
Lemma descend_spec : forall toks nd, inT0 nd = true ->
  M.descend T nd toks = if inT0 (nd ++ map fst toks) then Some (nd ++ map fst toks) else None.
Proof.
  induction toks as [|[v w] rest IH]; intros nd Hn; cbn [M.descend map fst].
  - rewrite app_nil_r, Hn. reflexivity.
  - rewrite (SE_kids T0 T nd HS).
    replace (nd ++ v :: map fst rest) with ((nd ++ [v]) ++ map fst rest) by (rewrite <- app_assoc; reflexivity).
    destruct (0 <=? index (kids0 nd) v)%Z eqn:E.
    + apply (index_iff _ _ (wf_sorted T0 HW nd)) in E as Hk.
      assert (Ez : (0 <= index (kids0 nd) v)%Z) by (apply Z.leb_le; exact E).
      destruct (index_found _ _ (wf_sorted T0 HW nd) Ez) as [_ En].
      unfold child_at. rewrite (SE_kids T0 T nd HS). unfold TrieBuild.kids0 in *. rewrite En.
      apply IH. apply kids_spec. exact Hk.
    + destruct (inT0 ((nd ++ [v]) ++ map fst rest)) eqn:E2; [|reflexivity]. exfalso.
      apply inT_prefix_app in E2. apply kids_spec in E2. apply (index_iff _ _ (wf_sorted T0 HW nd)) in E2.
      unfold TrieBuild.kids0 in E. congruence.
Qed.

(* PrefixSearch from the node the key leads to *)
Theorem prefix_search_nodes key : wbytes (runes_of key) = key ->
  exists l, M.prefix_search T key = Ok l /\ NoDup l /\
    (forall y, In y l <-> exists x, wprefix (runes_of key) x /\ inT0 x = true /\ is_end T0 x = true /\ y = wbytes x).
Proof.
  intros Hk. unfold M.prefix_search. rewrite (descend_spec (tokens key) [] (wf_root T0 HW)). cbn [app]. fold (runes_of key).
  set (nd := runes_of key) in *.
  destruct (inT0 nd) eqn:Hn.
  2:{ exists []. split; [reflexivity|]. split; [constructor|]. intros y. split; [intros []|].
      intros (x & (e & ->) & Hx & _). apply inT_prefix_app in Hx. congruence. }
  rewrite (SE_kids T0 T nd HS), (SE_end T0 T nd HS).
  destruct (kids0 nd) as [|c0 cs0] eqn:Ek.
  - (* a leaf *)
    assert (Hsub : forall x, wprefix nd x -> inT0 x = true -> x = nd).
    { intros x Hp Hx. destruct (proj1 (sub_step nd x Hn) (conj Hp Hx)) as [->|(c & Hc & _)]; [reflexivity|]. rewrite Ek in Hc. destruct Hc. }
    destruct (is_end T0 nd) eqn:Ee.
    + exists [key]. split; [reflexivity|]. split; [constructor; [intros []|constructor]|]. intros y. split.
      * intros [<-|[]]. exists nd. split; [exists []; rewrite app_nil_r; reflexivity|]. auto.
      * intros (x & Hp & Hx & _ & ->). rewrite (Hsub x Hp Hx), Hk. left. reflexivity.
    + exists []. split; [reflexivity|]. split; [constructor|]. intros y. split; [intros []|].
      intros (x & Hp & Hx & He & _). rewrite (Hsub x Hp Hx) in He. congruence.
  - set (ret0 := if is_end T0 nd then [key] else []).
    assert (Hpend : forall x, (wprefix nd x /\ inT0 x = true) <-> x = nd \/ Pend (push_kids T nd (Z.of_nat (length key)) []) x).
    { intros x. rewrite <- (pend_push nd (Z.of_nat (length key)) [] x Hn). unfold Pend. split.
      - intros [H1 H2]. eexists. split; [left; reflexivity|]. cbn [fnode]. auto.
      - intros (f & [<-|[]] & H1 & H2). cbn [fnode] in H1. auto. }
    destruct (dfs_spec (S (length T)) (push_kids T nd (Z.of_nat (length key)) []) key ret0) as (b2 & r2 & E & N2 & M2).
    + unfold push_kids. rewrite (SE_kids T0 T nd HS).
      assert (G : forall l, StackOK (rev (map (fun c => mkF c (Z.of_nat (length key)) (nd ++ [c])) l) ++ []) key).
      { induction l as [|c l IHl] using rev_ind; [exact I|]. rewrite map_app, rev_app_distr. cbn [map rev app StackOK].
        split; [|split; [|exact IHl]].
        - exists nd. cbn [fnode fr fdepth]. rewrite Hk. split; [reflexivity|]. split; [reflexivity|]. split; [apply firstn_all|lia].
        - intros g Hg. rewrite app_nil_r in Hg. apply in_rev in Hg. apply in_map_iff in Hg. destruct Hg as (c' & <- & _). cbn [fdepth]. lia. }
      apply G.
    + intros f Hf'. unfold push_kids in Hf'. rewrite (SE_kids T0 T nd HS), app_nil_r in Hf'.
      apply in_rev in Hf'. apply in_map_iff in Hf'. destruct Hf' as (c & <- & Hc). cbn [fnode]. apply kids_spec. exact Hc.
    + rewrite phi_push. change (phi []) with 0. pose proof (cnt_kids nd Hn) as H1.
      assert (cnt K0 nd <= length T0) by (unfold cnt, K0; rewrite <- (map_length fst T0); apply filter_len_le).
      lia.
    + unfold push_kids. rewrite (SE_kids T0 T nd HS), app_nil_r. apply Incomp_kids. apply (kids0_nodup T0 HW).
    + unfold ret0. destruct (is_end T0 nd); constructor; [intros []|constructor].
    + intros x Hx He Hin. unfold ret0 in Hin. destruct (is_end T0 nd) eqn:Ee; [|destruct Hin]. destruct Hin as [Hin|[]].
      assert (Hxt : inT0 x = true) by (destruct Hx as (f0 & _ & _ & Hq); exact Hq).
      assert (x = nd) by (apply wbytes_inj; auto; rewrite Hk; auto). subst x.
      destruct Hx as (f & Hf' & Hp & _). unfold push_kids in Hf'. rewrite (SE_kids T0 T nd HS), app_nil_r in Hf'.
      apply in_rev in Hf'. apply in_map_iff in Hf'. destruct Hf' as (c & <- & _). cbn [fnode] in Hp. destruct Hp as (e & E').
      apply (f_equal (@length Z)) in E'. rewrite !app_length in E'. cbn in E'. lia.
    + rewrite E. exists (rev r2). split; [reflexivity|]. split; [apply NoDup_rev; exact N2|].
      intros y. rewrite <- in_rev, M2. unfold ret0. split.
      * intros [Hy|(x & Hx & He & ->)].
        -- destruct (is_end T0 nd) eqn:Ee; [|destruct Hy]. destruct Hy as [<-|[]].
           exists nd. split; [exists []; rewrite app_nil_r; reflexivity|]. auto.
        -- assert (H2 : wprefix nd x /\ inT0 x = true) by (apply Hpend; right; exact Hx). exists x. tauto.
      * intros (x & Hp & Hx & He & ->). destruct (proj1 (Hpend x) (conj Hp Hx)) as [->|H2].
        -- left. rewrite He, Hk. left. reflexivity.
        -- right. exists x. auto.
Qed.
End Prefix.
