(* C19: an invariant of the script simulation (Model/Limiter.v: op_go / op_rel / op_wait / drain) that is strong enough to show
   (1) the fuel of [drain] suffices and the final Wait returns, for every script;
   (2) the predicted trace satisfies every clause of the judge [trace_spec]. *)
From Coq Require Import List Arith ZArith Lia Bool Permutation.
From V Require Import Lib.Enc Gen.ConstsGoz Model.Limiter Proofs.Limiter Proofs.LimiterSim Proofs.LimiterJudgeTrace.
Import ListNotations.

Arguments panic_value : simpl never.

(* ---------------------------------------------------------------- trace side: what is known of the trace built so far
   (o is the reversed trace, newest event first; cur = bodies inside; phf j = automaton state of task j) *)
Record TraceOK (lim : nat) (o : list oev) (cur : nat) (phf : nat -> nat) : Prop := {
  t_hang : no_hang (rev o) = true;
  t_gok : gauge_ok lim 0 (rev o) = true;
  t_gend : gauge_end 0 (rev o) = cur;
  t_phase : forall j, phase (zi j) 0 (rev o) = Some (phf j);
  t_ids : Forall (fun e : oev => exists j, snd (fst e) = zi j) o;
  t_rm : raise_matches (rev o) = true;
  t_g2 : G2rev o
}.

Lemma zi_inj a b : zi a = zi b -> a = b.
Proof. unfold zi. apply Nat2Z.inj. Qed.

Lemma emit lim o cur phf c i v cur' phf' :
  TraceOK lim o cur phf ->
  (c =? E_HANG)%Z = false ->
  cur' = (if (c =? E_START)%Z then S cur else if (c =? E_RETURN)%Z || (c =? E_RAISE)%Z then pred cur else cur) ->
  cur' <= lim ->
  trans (phf i) c = Some (phf' i) -> (forall j, j <> i -> phf' j = phf j) ->
  rm_in (rev o ++ [(c, zi i, v)]) [(c, zi i, v)] = true ->
  (c = E_WAITRET -> wait_pre (rev o)) ->
  TraceOK lim ((c, zi i, v) :: o) cur' phf'.
Proof.
  intros [Hh Hg He Hp Hi Hr H2] Hc Ecur Hle Htr Hoth Hrm Hw. constructor; cbn [rev].
  - rewrite no_hang_app, Hh. unfold no_hang. cbn [forallb fst]. rewrite Hc. reflexivity.
  - rewrite gauge_ok_app, Hg, He. cbn [gauge_ok andb]. rewrite <- Ecur, andb_true_r. apply Nat.leb_le. exact Hle.
  - rewrite gauge_end_app, He. cbn [gauge_end]. symmetry. exact Ecur.
  - intros j. rewrite phase_app, Hp. cbn [phase]. destruct (Z.eqb_spec (zi i) (zi j)) as [E|E].
    + apply zi_inj in E. subst j. rewrite Htr. reflexivity.
    + rewrite Hoth; [reflexivity|]. intros ->. apply E. reflexivity.
  - constructor; auto. exists i. reflexivity.
  - apply raise_matches_snoc; auto.
  - cbn [G2rev fst]. split; auto.
Qed.

Lemma TraceOK_ext lim o cur phf phf' : (forall j, phf' j = phf j) -> TraceOK lim o cur phf -> TraceOK lim o cur phf'.
Proof. intros E [Hh Hg He Hp Hi Hr H2]. constructor; auto. intros j. rewrite E. apply Hp. Qed.

Lemma existsb_rev {A} (f : A -> bool) : forall l, existsb f (rev l) = existsb f l.
Proof.
  induction l as [|e l IH]; [reflexivity|]. cbn [rev existsb]. rewrite existsb_app, IH. cbn [existsb].
  rewrite orb_false_r. apply orb_comm.
Qed.
Lemma has_call_rev o : has_call (rev o) = has_call o.
Proof. apply existsb_rev. Qed.

(* ---------------------------------------------------------------- state side *)
Definition ph (t : tstate) : nat := match t with Pending => 0 | Spawned => 1 | Running => 2 | Ended => 3 | Finished => 5 end.

Definition l_in (l : st) (i : nat) : st :=
  {| limit := limit l; tokens := S (tokens l); wg := S (wg l); tasks := set (set (tasks l) i Spawned) i Running; handled := handled l |}.
Definition l_ret (l : st) (j : nat) : st :=
  {| limit := limit l; tokens := pred (tokens l); wg := pred (wg l); tasks := set (set (tasks l) j Ended) j Finished; handled := handled l |}.
Definition l_pan (l : st) (j v : nat) : st :=
  {| limit := limit l; tokens := pred (tokens l); wg := pred (wg l); tasks := set (set (tasks l) j Ended) j Finished;
     handled := handled l ++ [(j, v)] |}.

Lemma accepts_in l i : tasks l i = Pending -> tokens l < limit l -> accepts l [Submit i; Start i] = Some (l_in l i).
Proof.
  intros Hp Hlt. cbn [accepts step]. rewrite Hp. destruct (Nat.ltb_spec (tokens l) (limit l)); [|lia].
  cbn [tasks]. unfold set at 1. rewrite Nat.eqb_refl. reflexivity.
Qed.
Lemma accepts_in_none l i : tasks l i = Pending -> ~ tokens l < limit l -> accepts l [Submit i; Start i] = None.
Proof. intros Hp Hlt. cbn [accepts step]. rewrite Hp. destruct (Nat.ltb_spec (tokens l) (limit l)); [lia|reflexivity]. Qed.
Lemma accepts_ret l j : tasks l j = Running -> accepts l [Return j; Cleanup j] = Some (l_ret l j).
Proof. intros Hr. cbn [accepts step]. rewrite Hr. cbn [tasks]. unfold set at 1. rewrite Nat.eqb_refl. reflexivity. Qed.
Lemma accepts_pan l j v : tasks l j = Running -> accepts l [Panic j v; Cleanup j] = Some (l_pan l j v).
Proof. intros Hr. cbn [accepts step]. rewrite Hr. cbn [tasks]. unfold set at 1. rewrite Nat.eqb_refl. reflexivity. Qed.
Lemma tasks_in l i j : tasks (l_in l i) j = if Nat.eqb j i then Running else tasks l j.
Proof. cbn [l_in tasks]. unfold set. destruct (Nat.eqb j i); reflexivity. Qed.
Lemma tasks_ret l i j : tasks (l_ret l i) j = if Nat.eqb j i then Finished else tasks l j.
Proof. cbn [l_ret tasks]. unfold set. destruct (Nat.eqb j i); reflexivity. Qed.
Lemma tasks_pan l i v j : tasks (l_pan l i v) j = if Nat.eqb j i then Finished else tasks l j.
Proof. cbn [l_pan tasks]. unfold set. destruct (Nat.eqb j i); reflexivity. Qed.

Lemma remove_id_in j act x : In x (remove_id j act) <-> In x act /\ x <> j.
Proof.
  unfold remove_id. rewrite filter_In. destruct (Nat.eqb_spec x j); cbn [negb]; split; intros [A B]; split; auto; try discriminate; congruence.
Qed.
Lemma remove_id_notin j act : ~ In j act -> remove_id j act = act.
Proof.
  induction act as [|a t IH]; intros H; [reflexivity|]. cbn [remove_id filter]. destruct (Nat.eqb_spec a j) as [->|].
  - exfalso. apply H. left; reflexivity.
  - cbn [negb]. f_equal. apply IH. intros X. apply H. right; exact X.
Qed.
Lemma remove_id_length j : forall act, NoDup act -> In j act -> S (length (remove_id j act)) = length act.
Proof.
  induction act as [|a t IH]; intros Hnd Hin; [contradiction|]. inversion Hnd as [|? ? Hn Hnd']; subst.
  cbn [remove_id filter]. destruct (Nat.eqb_spec a j) as [->|Hne]; cbn [negb length].
  - fold (remove_id j t). rewrite remove_id_notin by exact Hn. reflexivity.
  - fold (remove_id j t). destruct Hin as [->|Hin]; [congruence|]. rewrite IH by auto. reflexivity.
Qed.
Lemma remove_id_nodup j act : NoDup act -> NoDup (remove_id j act).
Proof. apply NoDup_filter. Qed.
Lemma nodup_snoc (l : list nat) i : NoDup l -> ~ In i l -> NoDup (l ++ [i]).
Proof. intros Hnd Hn. apply (Permutation_NoDup (l := i :: l)); [apply Permutation_cons_append|constructor; auto]. Qed.

Record Core (n : Z) (l : st) (act : list nat) (o : list oev) : Prop := {
  c_J : Jp n l o;
  c_lim : limit l = eff_limit n;
  c_tok : tokens l = length act;
  c_wg : wg l = length act;
  c_le : length act <= limit l;
  c_nd : NoDup act;
  c_run : forall j, In j act <-> tasks l j = Running;
  c_prf : forall j, tasks l j = Pending \/ tasks l j = Running \/ tasks l j = Finished;
  c_tr : TraceOK (limit l) o (length act) (fun j => ph (tasks l j))
}.

Lemma rm_other all c i v : (c =? E_PANIC)%Z = false -> rm_in all [(c, i, v)] = true.
Proof. intros H. unfold rm_in. cbn [forallb]. rewrite H. reflexivity. Qed.

Lemma Core_letin n l act o i : Core n l act o -> tasks l i = Pending -> length act < limit l ->
  Core n (l_in l i) (act ++ [i]) ((E_START, zi i, 0%Z) :: (E_SUBMIT, zi i, 0%Z) :: o).
Proof.
  intros [HJ Hlim Htok Hwg Hle Hnd Hrun Hprf Htr] Hp Hlt.
  assert (Hni : ~ In i act) by (intros X; apply Hrun in X; congruence).
  constructor.
  - pose proof (accepts_in l i Hp ltac:(lia)) as Ha. cbn [accepts] in Ha.
    destruct (step l (Submit i)) as [s1|] eqn:E1; [|discriminate].
    eapply Jp_emit; [eapply Jp_emit; [exact HJ|apply obs_submit|cbn [accepts]; rewrite E1; reflexivity]|apply obs_start|exact Ha].
  - exact Hlim.
  - cbn [l_in tokens]. rewrite app_length. cbn [length]. lia.
  - cbn [l_in wg]. rewrite app_length. cbn [length]. lia.
  - cbn [l_in limit]. rewrite app_length. cbn [length]. lia.
  - apply nodup_snoc; auto.
  - intros j. rewrite tasks_in, in_app_iff. cbn [In]. destruct (Nat.eqb_spec j i) as [->|Hne].
    + split; auto.
    + rewrite Hrun. split; [intros [A|[A|[]]]; [exact A|congruence]|auto].
  - intros j. rewrite tasks_in. destruct (Nat.eqb j i); auto.
  - cbn [l_in limit].
    eapply (emit _ _ (length act) (fun j => if Nat.eqb j i then 1 else ph (tasks l j))).
    + eapply (emit _ _ (length act) (fun j => ph (tasks l j))); [exact Htr|reflexivity|reflexivity|lia| | |apply rm_other; reflexivity|discriminate].
      * rewrite Hp, Nat.eqb_refl. reflexivity.
      * intros j Hj. destruct (Nat.eqb_spec j i); [congruence|reflexivity].
    + reflexivity.
    + cbn. rewrite app_length. cbn [length]. lia.
    + rewrite app_length. cbn [length]. lia.
    + cbn beta. rewrite tasks_in, Nat.eqb_refl. reflexivity.
    + intros j Hj. cbn beta. rewrite tasks_in. destruct (Nat.eqb_spec j i); [congruence|reflexivity].
    + apply rm_other; reflexivity.
    + discriminate.
Qed.

Lemma Core_ret n l act o j : Core n l act o -> In j act ->
  Core n (l_ret l j) (remove_id j act) ((E_RETURN, zi j, 0%Z) :: o).
Proof.
  intros [HJ Hlim Htok Hwg Hle Hnd Hrun Hprf Htr] Hin.
  assert (Hr : tasks l j = Running) by (apply Hrun; exact Hin).
  pose proof (remove_id_length j act Hnd Hin) as Hlen.
  constructor.
  - eapply Jp_emit; [exact HJ|apply obs_return|apply accepts_ret; exact Hr].
  - exact Hlim.
  - cbn [l_ret tokens]. lia.
  - cbn [l_ret wg]. lia.
  - cbn [l_ret limit]. lia.
  - apply remove_id_nodup; auto.
  - intros x. rewrite tasks_ret, remove_id_in. destruct (Nat.eqb_spec x j) as [->|Hne].
    + split; [intros [_ A]; congruence|discriminate].
    + rewrite Hrun. tauto.
  - intros x. rewrite tasks_ret. destruct (Nat.eqb x j); auto.
  - cbn [l_ret limit].
    eapply (emit _ _ (length act) (fun x => ph (tasks l x))); [exact Htr|reflexivity|cbn; lia|lia| | |apply rm_other; reflexivity|discriminate].
    + cbn beta. rewrite tasks_ret, Nat.eqb_refl, Hr. reflexivity.
    + intros x Hx. cbn beta. rewrite tasks_ret. destruct (Nat.eqb_spec x j); [congruence|reflexivity].
Qed.

Lemma Core_pan n l act o j v : Core n l act o -> In j act ->
  Core n (l_pan l j v) (remove_id j act) ((E_PANIC, zi j, zi v) :: (E_RAISE, zi j, zi v) :: o).
Proof.
  intros [HJ Hlim Htok Hwg Hle Hnd Hrun Hprf Htr] Hin.
  assert (Hr : tasks l j = Running) by (apply Hrun; exact Hin).
  pose proof (remove_id_length j act Hnd Hin) as Hlen.
  constructor.
  - eapply Jp_emit; [eapply Jp_emit; [exact HJ|apply obs_raise|reflexivity]|apply obs_panic|apply accepts_pan; exact Hr].
  - exact Hlim.
  - cbn [l_pan tokens]. lia.
  - cbn [l_pan wg]. lia.
  - cbn [l_pan limit]. lia.
  - apply remove_id_nodup; auto.
  - intros x. rewrite tasks_pan, remove_id_in. destruct (Nat.eqb_spec x j) as [->|Hne].
    + split; [intros [_ A]; congruence|discriminate].
    + rewrite Hrun. tauto.
  - intros x. rewrite tasks_pan. destruct (Nat.eqb x j); auto.
  - cbn [l_pan limit].
    eapply (emit _ _ (length (remove_id j act)) (fun x => if Nat.eqb x j then 3 else ph (tasks l x))).
    + eapply (emit _ _ (length act) (fun x => ph (tasks l x))); [exact Htr|reflexivity|cbn; lia|lia| | |apply rm_other; reflexivity|discriminate].
      * rewrite Hr, Nat.eqb_refl. reflexivity.
      * intros x Hx. destruct (Nat.eqb_spec x j); [congruence|reflexivity].
    + reflexivity.
    + reflexivity.
    + lia.
    + cbn beta. rewrite tasks_pan, Nat.eqb_refl. reflexivity.
    + intros x Hx. cbn beta. rewrite tasks_pan. destruct (Nat.eqb_spec x j); [congruence|reflexivity].
    + unfold rm_in. cbn [forallb rev]. rewrite Z.eqb_refl, !existsb_app. cbn [existsb]. rewrite !Z.eqb_refl.
      cbn [andb orb]. rewrite !orb_true_r. reflexivity.
    + discriminate.
Qed.

Lemma Core_call n l act o : Core n l act o -> Core n l act ((E_WAITCALL, 0%Z, 0%Z) :: o).
Proof.
  intros [HJ Hlim Htok Hwg Hle Hnd Hrun Hprf Htr]. constructor; auto.
  - eapply Jp_emit; [exact HJ|apply obs_waitcall|reflexivity].
  - change 0%Z with (zi 0) at 1.
    eapply (emit _ _ (length act) (fun x => ph (tasks l x))); [exact Htr|reflexivity|reflexivity|lia| | |apply rm_other; reflexivity|discriminate].
    + apply trans_nontask. reflexivity.
    + reflexivity.
Qed.

Lemma Core_wret n l act o : Core n l act o -> act = [] -> has_call o = true -> Core n l act ((E_WAITRET, 0%Z, 0%Z) :: o).
Proof.
  intros [HJ Hlim Htok Hwg Hle Hnd Hrun Hprf Htr] Hact Hc. constructor; auto.
  - eapply Jp_emit; [exact HJ|apply obs_waitret|]. cbn [accepts step]. rewrite Hwg, Hact. reflexivity.
  - change 0%Z with (zi 0) at 1.
    eapply (emit _ _ (length act) (fun x => ph (tasks l x))); [exact Htr|reflexivity|reflexivity|lia| | |apply rm_other; reflexivity|].
    + apply trans_nontask. reflexivity.
    + reflexivity.
    + intros _. split; [rewrite has_call_rev; exact Hc|]. intros j. rewrite (t_phase _ _ _ _ Htr).
      destruct (Hprf j) as [E|[E|E]]; rewrite E; cbn [ph]; auto.
      apply Hrun in E. rewrite Hact in E. contradiction.
Qed.

(* ---------------------------------------------------------------- the simulation: its records, named *)
Definition upd (m : sim) (l : st) (q : list nat) (w : bool) (o : list oev) : sim :=
  {| s_lim := l; s_next := s_next m; s_queue := q; s_act := s_act m; s_kind := s_kind m; s_waiter := w; s_out := o;
     s_maxin := s_maxin m; s_npanic := s_npanic m; s_bad := s_bad m |}.
Definition bump (m : sim) (k : nat) : sim :=
  {| s_lim := s_lim m; s_next := S (s_next m); s_queue := s_queue m; s_act := s_act m; s_kind := set (s_kind m) (s_next m) k;
     s_waiter := s_waiter m; s_out := s_out m; s_maxin := s_maxin m; s_npanic := s_npanic m; s_bad := s_bad m |}.
Definition after_in (m : sim) (i : nat) : sim :=
  {| s_lim := l_in (s_lim m) i; s_next := s_next m; s_queue := s_queue m; s_act := s_act m ++ [i]; s_kind := s_kind m;
     s_waiter := s_waiter m; s_out := (E_START, zi i, 0%Z) :: (E_SUBMIT, zi i, 0%Z) :: s_out m;
     s_maxin := s_maxin m; s_npanic := s_npanic m; s_bad := s_bad m |}.
Definition inmax (m : sim) : sim := with_maxin m (length (s_act m)).
Definition ended (m : sim) (l : st) (j : nat) (o : list oev) (np : nat) : sim :=
  {| s_lim := l; s_next := s_next m; s_queue := s_queue m; s_act := remove_id j (s_act m); s_kind := s_kind m;
     s_waiter := s_waiter m; s_out := o; s_maxin := s_maxin m; s_npanic := np; s_bad := s_bad m |}.

Ltac simp_sim := cbn [inmax with_maxin after_in bump upd ended s_lim s_next s_queue s_act s_out s_waiter s_bad s_maxin s_npanic s_kind].

Lemma let_in_spec m i : tasks (s_lim m) i = Pending ->
  let_in m i = if tokens (s_lim m) <? limit (s_lim m) then Some (after_in m i) else None.
Proof.
  intros Hp. unfold let_in. destruct (Nat.ltb_spec (tokens (s_lim m)) (limit (s_lim m))).
  - rewrite accepts_in by auto. reflexivity.
  - rewrite accepts_in_none by (auto; lia). reflexivity.
Qed.

Lemma op_go_eq m k : op_go m k =
  if s_waiter m || (MAXTASKS <=? s_next m) then m else
  match s_queue m with
  | [] => match let_in (bump m k) (s_next m) with
          | Some m2 => inmax m2
          | None => upd (bump m k) (s_lim m) [s_next m] (s_waiter m) (s_out m)
          end
  | q => upd (bump m k) (s_lim m) (q ++ [s_next m]) (s_waiter m) (s_out m)
  end.
Proof. reflexivity. Qed.
Lemma rel_spawn_eq m kind : rel_spawn m kind =
  if kind_spawns kind && (match s_queue m with [] => true | _ => false end) && (s_next m <? MAXTASKS) then
    match let_in (bump m 0) (s_next m) with Some m' => inmax m' | None => m end
  else m.
Proof. reflexivity. Qed.
Lemma rel_end_eq m j kind : rel_end m j kind =
  if kind_panics kind then
    match accepts (s_lim m) [Panic j (panic_value j); Cleanup j] with
    | None => None
    | Some l2 => Some (ended m l2 j ((E_PANIC, zi j, zi (panic_value j)) :: (E_RAISE, zi j, zi (panic_value j)) :: s_out m) (S (s_npanic m)))
    end
  else
    match accepts (s_lim m) [Return j; Cleanup j] with
    | None => None
    | Some l2 => Some (ended m l2 j ((E_RETURN, zi j, 0%Z) :: s_out m) (s_npanic m))
    end.
Proof. unfold rel_end. destruct (kind_panics kind); reflexivity. Qed.
Lemma rel_after_eq m2 : rel_after m2 =
  match s_queue m2 with
  | h :: q => match let_in (upd m2 (s_lim m2) q (s_waiter m2) (s_out m2)) h with Some m4 => inmax m4 | None => mark_bad m2 end
  | [] => if s_waiter m2
          then (if wg (s_lim m2) =? 0 then upd m2 (s_lim m2) [] false ((E_WAITRET, 0%Z, 0%Z) :: s_out m2) else m2)
          else m2
  end.
Proof.
  unfold rel_after. destruct (s_queue m2); [|reflexivity]. destruct (s_waiter m2); [|reflexivity].
  cbn [step]. destruct (wg (s_lim m2) =? 0); reflexivity.
Qed.
Lemma op_wait_eq m : op_wait m =
  if s_waiter m then m else
  match s_queue m with
  | _ :: _ => m
  | [] => if wg (s_lim m) =? 0
          then upd m (s_lim m) [] false ((E_WAITRET, 0%Z, 0%Z) :: (E_WAITCALL, 0%Z, 0%Z) :: s_out m)
          else upd m (s_lim m) [] true ((E_WAITCALL, 0%Z, 0%Z) :: s_out m)
  end.
Proof.
  unfold op_wait. destruct (s_waiter m); [reflexivity|]. destruct (s_queue m); [|reflexivity].
  cbn [step]. destruct (wg (s_lim m) =? 0); reflexivity.
Qed.

(* ---------------------------------------------------------------- the invariant of the simulation *)
Definition mu (m : sim) : nat := (MAXTASKS - s_next m) + length (s_queue m) + length (s_act m).

Record SB (n : Z) (m : sim) : Prop := {
  b_core : Core n (s_lim m) (s_act m) (s_out m);
  b_qnd : NoDup (s_queue m);
  b_q : forall j, In j (s_queue m) -> j < s_next m /\ tasks (s_lim m) j = Pending;
  b_hi : forall j, s_next m <= j -> tasks (s_lim m) j = Pending;
  b_lo : forall j, j < s_next m -> tasks (s_lim m) j = Pending -> In j (s_queue m);
  b_next : s_next m <= MAXTASKS;
  b_bad : s_bad m = false;
  b_max : s_maxin m <= limit (s_lim m);
  b_np : s_npanic m = n_panics (rev (s_out m));
  b_cnt : length (s_queue m) + length (s_act m) <= s_next m
}.
Definition Full (d : nat) (m : sim) : Prop := s_queue m <> [] -> length (s_act m) + d = limit (s_lim m).
Definition Wt (m : sim) : Prop := s_waiter m = true -> s_queue m = [] /\ has_call (s_out m) = true.
Definition Wa (m : sim) : Prop := s_waiter m = true -> s_act m <> [].
Definition SI (n : Z) (m : sim) : Prop := SB n m /\ Full 0 m /\ Wt m /\ Wa m.

Lemma n_panics_rev_cons e o : n_panics (rev (e :: o)) = n_panics (rev o) + (if (fst (fst e) =? E_PANIC)%Z then 1 else 0).
Proof. cbn [rev]. rewrite n_panics_app. f_equal. unfold n_panics. cbn [filter]. destruct (fst (fst e) =? E_PANIC)%Z; reflexivity. Qed.

(* a fresh task (id = s_next) is let in at once *)
Lemma SB_bump_in n m k : SB n m -> s_queue m = [] -> s_next m < MAXTASKS -> tokens (s_lim m) < limit (s_lim m) ->
  SB n (inmax (after_in (bump m k) (s_next m))).
Proof.
  intros [Hc Hqnd Hq Hhi Hlo Hnx Hbad Hmax Hnp Hcnt] Eq Hlt Htok.
  pose proof (c_tok _ _ _ _ Hc) as Et. pose proof (Hhi _ (le_n _)) as Hp.
  constructor; simp_sim.
  - apply Core_letin; auto. lia.
  - exact Hqnd.
  - rewrite Eq. intros j [].
  - intros j Hj. rewrite tasks_in. destruct (Nat.eqb_spec j (s_next m)); [lia|]. apply Hhi. lia.
  - intros j Hj. rewrite tasks_in. destruct (Nat.eqb_spec j (s_next m)); [discriminate|]. intros Hpj. apply Hlo; auto. lia.
  - lia.
  - exact Hbad.
  - cbn [l_in limit]. rewrite app_length. cbn [length]. apply Nat.max_lub; lia.
  - rewrite !n_panics_rev_cons. cbn [fst]. rewrite Hnp. cbn. lia.
  - rewrite app_length. cbn [length]. lia.
Qed.

(* a fresh task is queued *)
Lemma SB_bump_enq n m k q' : SB n m -> s_next m < MAXTASKS -> q' = s_queue m ++ [s_next m] ->
  SB n (upd (bump m k) (s_lim m) q' (s_waiter m) (s_out m)).
Proof.
  intros [Hc Hqnd Hq Hhi Hlo Hnx Hbad Hmax Hnp Hcnt] Hlt ->. pose proof (Hhi _ (le_n _)) as Hp.
  constructor; simp_sim; auto.
  - apply nodup_snoc; auto. intros X. apply Hq in X. lia.
  - intros j Hj. apply in_app_iff in Hj as [Hj|[<-|[]]]; [apply Hq in Hj as [A B]; split; auto|split; auto].
  - intros j Hj. apply Hhi. lia.
  - intros j Hj Hpj. apply in_app_iff. destruct (Nat.eq_dec j (s_next m)) as [->|]; [right; left; reflexivity|left; apply Hlo; auto; lia].
  - rewrite app_length. cbn [length]. lia.
Qed.

(* the body of j ends *)
Lemma SB_ended_ret n m j : SB n m -> In j (s_act m) ->
  SB n (ended m (l_ret (s_lim m) j) j ((E_RETURN, zi j, 0%Z) :: s_out m) (s_npanic m)).
Proof.
  intros [Hc Hqnd Hq Hhi Hlo Hnx Hbad Hmax Hnp Hcnt] Hin.
  assert (Hr : tasks (s_lim m) j = Running) by (apply (c_run _ _ _ _ Hc); exact Hin).
  pose proof (remove_id_length j _ (c_nd _ _ _ _ Hc) Hin) as Hlen.
  constructor; simp_sim; auto.
  - apply Core_ret; auto.
  - intros x Hx. rewrite tasks_ret. destruct (Hq x Hx) as [A B]. destruct (Nat.eqb_spec x j); [congruence|auto].
  - intros x Hx. rewrite tasks_ret. specialize (Hhi x Hx). destruct (Nat.eqb_spec x j); [congruence|auto].
  - intros x Hx. rewrite tasks_ret. destruct (Nat.eqb_spec x j); [discriminate|auto].
  - rewrite n_panics_rev_cons. cbn [fst]. rewrite Hnp. cbn. lia.
  - lia.
Qed.
Lemma SB_ended_pan n m j v : SB n m -> In j (s_act m) ->
  SB n (ended m (l_pan (s_lim m) j v) j ((E_PANIC, zi j, zi v) :: (E_RAISE, zi j, zi v) :: s_out m) (S (s_npanic m))).
Proof.
  intros [Hc Hqnd Hq Hhi Hlo Hnx Hbad Hmax Hnp Hcnt] Hin.
  assert (Hr : tasks (s_lim m) j = Running) by (apply (c_run _ _ _ _ Hc); exact Hin).
  pose proof (remove_id_length j _ (c_nd _ _ _ _ Hc) Hin) as Hlen.
  constructor; simp_sim; auto.
  - apply Core_pan; auto.
  - intros x Hx. rewrite tasks_pan. destruct (Hq x Hx) as [A B]. destruct (Nat.eqb_spec x j); [congruence|auto].
  - intros x Hx. rewrite tasks_pan. specialize (Hhi x Hx). destruct (Nat.eqb_spec x j); [congruence|auto].
  - intros x Hx. rewrite tasks_pan. destruct (Nat.eqb_spec x j); [discriminate|auto].
  - rewrite !n_panics_rev_cons. cbn [fst]. rewrite Hnp. cbn. lia.
  - lia.
Qed.

(* the head of the queue is let in *)
Lemma SB_queue_in n m h q : SB n m -> s_queue m = h :: q -> tokens (s_lim m) < limit (s_lim m) ->
  SB n (inmax (after_in (upd m (s_lim m) q (s_waiter m) (s_out m)) h)).
Proof.
  intros [Hc Hqnd Hq Hhi Hlo Hnx Hbad Hmax Hnp Hcnt] Eq Htok.
  pose proof (c_tok _ _ _ _ Hc) as Et. rewrite Eq in *. inversion Hqnd as [|? ? Hnh Hndq]; subst.
  destruct (Hq h (or_introl eq_refl)) as [Hh Hp].
  constructor; simp_sim; auto.
  - apply Core_letin; auto. lia.
  - intros j Hj. rewrite tasks_in. destruct (Nat.eqb_spec j h); [subst; contradiction|]. apply Hq. right; exact Hj.
  - intros j Hj. rewrite tasks_in. specialize (Hhi j Hj). destruct (Nat.eqb_spec j h); [lia|auto].
  - intros j Hj. rewrite tasks_in. destruct (Nat.eqb_spec j h); [discriminate|]. intros Hpj.
    destruct (Hlo j Hj Hpj) as [X|X]; [congruence|exact X].
  - cbn [l_in limit]. rewrite app_length. cbn [length]. apply Nat.max_lub; lia.
  - rewrite !n_panics_rev_cons. cbn [fst]. rewrite Hnp. cbn. lia.
  - rewrite app_length. cbn [length] in *. lia.
Qed.

Lemma SB_call n m w : SB n m -> s_queue m = [] -> SB n (upd m (s_lim m) [] w ((E_WAITCALL, 0%Z, 0%Z) :: s_out m)).
Proof.
  intros [Hc Hqnd Hq Hhi Hlo Hnx Hbad Hmax Hnp Hcnt] Eq. rewrite Eq in *.
  constructor; simp_sim; auto.
  - apply Core_call; auto.
  - rewrite n_panics_rev_cons. cbn [fst]. rewrite Hnp. cbn. lia.
Qed.
Lemma SB_wret n m : SB n m -> s_queue m = [] -> s_act m = [] -> has_call (s_out m) = true ->
  SB n (upd m (s_lim m) [] false ((E_WAITRET, 0%Z, 0%Z) :: s_out m)).
Proof.
  intros [Hc Hqnd Hq Hhi Hlo Hnx Hbad Hmax Hnp Hcnt] Eq Ea Hcall. rewrite Eq in *.
  constructor; simp_sim; auto.
  - apply Core_wret; auto.
  - rewrite n_panics_rev_cons. cbn [fst]. rewrite Hnp. cbn. lia.
Qed.

(* ---------------------------------------------------------------- every operation of a script keeps the invariant *)
Lemma has_call_cons e o : has_call o = true -> has_call (e :: o) = true.
Proof. intros H. unfold has_call in *. cbn [existsb]. rewrite H. apply orb_true_r. Qed.

Lemma SI_op_go n m k : SI n m -> SI n (op_go m k).
Proof.
  intros HSI. pose proof HSI as (HB & HF & HWt & HWa). rewrite op_go_eq.
  destruct (s_waiter m || (MAXTASKS <=? s_next m)) eqn:Eg; [exact HSI|].
  apply orb_false_elim in Eg as [Ew Elt]. apply Nat.leb_gt in Elt.
  pose proof (b_hi _ _ HB _ (le_n _)) as Hp. pose proof (b_core _ _ HB) as Hc.
  destruct (s_queue m) as [|q0 q] eqn:Eq.
  - rewrite let_in_spec by exact Hp. change (s_lim (bump m k)) with (s_lim m).
    destruct (Nat.ltb_spec (tokens (s_lim m)) (limit (s_lim m))) as [Hlt|Hge].
    + split; [apply SB_bump_in; auto|]. unfold Full, Wt, Wa. simp_sim. rewrite Eq, Ew. repeat split; congruence.
    + split; [apply SB_bump_enq; auto; rewrite Eq; reflexivity|].
      unfold Full, Wt, Wa. simp_sim. rewrite Ew. repeat split; try congruence.
      intros _. pose proof (c_tok _ _ _ _ Hc). pose proof (c_le _ _ _ _ Hc). lia.
  - split; [apply SB_bump_enq; auto; rewrite Eq; reflexivity|].
    unfold Full, Wt, Wa. simp_sim. rewrite Ew. repeat split; try congruence.
    intros _. apply HF. rewrite Eq. discriminate.
Qed.

Lemma SI_rel_spawn n m kind : SI n m ->
  SI n (rel_spawn m kind) /\ mu (rel_spawn m kind) = mu m /\ (forall j, In j (s_act m) -> In j (s_act (rel_spawn m kind))).
Proof.
  intros HSI. pose proof HSI as (HB & HF & HWt & HWa). rewrite rel_spawn_eq.
  destruct (kind_spawns kind && match s_queue m with [] => true | _ :: _ => false end && (s_next m <? MAXTASKS)) eqn:Ec; [|auto].
  apply andb_true_iff in Ec as [Ec Elt]. apply andb_true_iff in Ec as [_ Eq]. apply Nat.ltb_lt in Elt.
  assert (Hq : s_queue m = []) by (destruct (s_queue m); [reflexivity|discriminate]).
  pose proof (b_hi _ _ HB _ (le_n _)) as Hp.
  rewrite let_in_spec by exact Hp. change (s_lim (bump m 0)) with (s_lim m).
  destruct (Nat.ltb_spec (tokens (s_lim m)) (limit (s_lim m))) as [Hlt|Hge]; [|auto].
  split; [|split].
  - split; [apply SB_bump_in; auto|]. unfold Full, Wt, Wa in *. simp_sim. rewrite Hq. repeat split; try congruence.
    + apply has_call_cons, has_call_cons. apply HWt; auto.
    + destruct (s_act m); discriminate.
  - unfold mu. simp_sim. rewrite app_length. cbn [length]. lia.
  - intros j Hj. simp_sim. apply in_or_app. left; exact Hj.
Qed.

Lemma SI_rel_end n m j kind : SI n m -> In j (s_act m) ->
  exists m2, rel_end m j kind = Some m2 /\ SB n m2 /\ Full 1 m2 /\ Wt m2 /\ mu m2 + 1 = mu m.
Proof.
  intros (HB & HF & HWt & HWa) Hin. pose proof (b_core _ _ HB) as Hc.
  assert (Hr : tasks (s_lim m) j = Running) by (apply (c_run _ _ _ _ Hc); exact Hin).
  pose proof (remove_id_length j _ (c_nd _ _ _ _ Hc) Hin) as Hlen.
  rewrite rel_end_eq. destruct (kind_panics kind).
  - rewrite accepts_pan by exact Hr. eexists. split; [reflexivity|]. split; [apply SB_ended_pan; auto|].
    unfold Full, Wt, mu in *. simp_sim. cbn [l_pan limit]. repeat split.
    + intros X. specialize (HF X). lia.
    + apply HWt; auto.
    + apply has_call_cons, has_call_cons. apply HWt; auto.
    + lia.
  - rewrite accepts_ret by exact Hr. eexists. split; [reflexivity|]. split; [apply SB_ended_ret; auto|].
    unfold Full, Wt, mu in *. simp_sim. cbn [l_ret limit]. repeat split.
    + intros X. specialize (HF X). lia.
    + apply HWt; auto.
    + apply has_call_cons. apply HWt; auto.
    + lia.
Qed.

Lemma SI_rel_after n m2 : SB n m2 -> Full 1 m2 -> Wt m2 -> SI n (rel_after m2) /\ mu (rel_after m2) = mu m2.
Proof.
  intros HB HF HWt. pose proof (b_core _ _ HB) as Hc. rewrite rel_after_eq. destruct (s_queue m2) as [|h q] eqn:Eq.
  - destruct (s_waiter m2) eqn:Ew.
    + destruct (Nat.eqb_spec (wg (s_lim m2)) 0) as [Hz|Hnz].
      * assert (Ha : s_act m2 = []) by (rewrite (c_wg _ _ _ _ Hc) in Hz; destruct (s_act m2); [reflexivity|discriminate]).
        destruct (HWt Ew) as [_ Hcall]. split.
        -- split; [apply SB_wret; auto|]. unfold Full, Wt, Wa. simp_sim. repeat split; congruence.
        -- unfold mu. simp_sim. rewrite Eq. reflexivity.
      * split; [|reflexivity]. split; [exact HB|]. unfold Full, Wt, Wa in *. rewrite Eq in *. repeat split; try congruence.
        -- apply HWt; auto.
        -- intros _ Ha. rewrite (c_wg _ _ _ _ Hc), Ha in Hnz. apply Hnz. reflexivity.
    + split; [|reflexivity]. split; [exact HB|]. unfold Full, Wt, Wa in *. rewrite Eq, Ew in *. repeat split; congruence.
  - assert (Hp : tasks (s_lim m2) h = Pending) by (apply (b_q _ _ HB); rewrite Eq; left; reflexivity).
    assert (Hlt : tokens (s_lim m2) < limit (s_lim m2)).
    { rewrite (c_tok _ _ _ _ Hc). unfold Full in HF. rewrite Eq in HF. specialize (HF ltac:(discriminate)). lia. }
    rewrite let_in_spec by exact Hp. change (s_lim (upd m2 (s_lim m2) q (s_waiter m2) (s_out m2))) with (s_lim m2).
    destruct (Nat.ltb_spec (tokens (s_lim m2)) (limit (s_lim m2))); [|lia]. split.
    + split; [apply SB_queue_in; auto|]. unfold Full, Wt, Wa in *. rewrite Eq in *. simp_sim. cbn [l_in limit]. split; [|split].
      * intros _. rewrite app_length. cbn [length]. specialize (HF ltac:(discriminate)). lia.
      * intros X. destruct (HWt X) as [Y _]. discriminate.
      * intros X. destruct (HWt X) as [Y _]. discriminate.
    + unfold mu. simp_sim. rewrite Eq, app_length. cbn [length]. lia.
Qed.

Lemma SI_op_rel n m k : SI n m -> SI n (op_rel m k) /\ (s_act m <> [] -> mu (op_rel m k) < mu m).
Proof.
  intros HSI. unfold op_rel. destruct (s_act m) as [|a0 act'] eqn:Ea; [split; [exact HSI|congruence]|]. cbv zeta.
  match goal with |- context [rel_end (rel_spawn m ?kind) ?j ?kind] =>
    assert (Hj : In j (s_act m)) by (rewrite Ea; apply nth_In; apply Nat.mod_upper_bound; discriminate);
    destruct (SI_rel_spawn n m kind HSI) as (HS1 & Hmu1 & Hin1);
    destruct (SI_rel_end n (rel_spawn m kind) j kind HS1 (Hin1 _ Hj)) as (m2 & E2 & HB2 & HF2 & HWt2 & Hmu2);
    rewrite E2
  end.
  destruct (SI_rel_after n m2 HB2 HF2 HWt2) as [HS3 Hmu3]. split; auto. intros _. lia.
Qed.

Lemma SI_op_wait n m : SI n m -> SI n (op_wait m).
Proof.
  intros HSI. pose proof HSI as (HB & HF & HWt & HWa). pose proof (b_core _ _ HB) as Hc. rewrite op_wait_eq.
  destruct (s_waiter m) eqn:Ew; [exact HSI|]. destruct (s_queue m) as [|h q] eqn:Eq; [|exact HSI].
  destruct (Nat.eqb_spec (wg (s_lim m)) 0) as [Hz|Hnz].
  - assert (Ha : s_act m = []) by (rewrite (c_wg _ _ _ _ Hc) in Hz; destruct (s_act m); [reflexivity|discriminate]).
    split.
    + apply (SB_wret n (upd m (s_lim m) [] false ((E_WAITCALL, 0%Z, 0%Z) :: s_out m))); auto. apply SB_call; auto.
    + unfold Full, Wt, Wa. simp_sim. repeat split; congruence.
  - split; [apply SB_call; auto|]. unfold Full, Wt, Wa. simp_sim. repeat split; try congruence.
    intros _ Ha. rewrite (c_wg _ _ _ _ Hc), Ha in Hnz. apply Hnz. reflexivity.
Qed.

Lemma SI_run_script n : forall ops m, SI n m -> SI n (run_script m ops).
Proof.
  fix IH 1. intros [|c [|a r]] m H; cbn [run_script]; auto. apply IH.
  destruct (c =? 1)%Z; [apply SI_op_go; auto|]. destruct (c =? 2)%Z; [apply SI_op_rel; auto|]. destruct (c =? 3)%Z; [apply SI_op_wait; auto|auto].
Qed.

Lemma SI_sim0 n : SI n (sim0 n).
Proof.
  split; [|unfold Full, Wt, Wa; cbn [sim0 s_queue s_waiter]; repeat split; congruence].
  constructor; cbn [sim0 s_lim s_act s_out s_queue s_next s_bad s_maxin s_npanic length]; auto; try lia; try (intros j []).
  - constructor; cbn [new_limiter limit tokens wg tasks length]; auto; try lia.
    + reflexivity.
    + constructor.
    + intros j. split; [intros []|discriminate].
    + constructor; cbn [rev]; auto. constructor.
  - constructor.
Qed.

(* ---------------------------------------------------------------- the fuel of drain suffices *)
Lemma SI_drain n : forall f m, SI n m -> mu m <= f -> SI n (drain f m) /\ s_act (drain f m) = [].
Proof.
  induction f as [|f IH]; intros m H Hmu; cbn [drain].
  - split; auto. unfold mu in Hmu. destruct (s_act m); [reflexivity|cbn [length] in Hmu; lia].
  - destruct (s_act m) as [|a0 t] eqn:Ea; [auto|]. destruct (SI_op_rel n m 0 H) as [H1 H2]. apply IH; auto.
    specialize (H2 ltac:(rewrite Ea; discriminate)). lia.
Qed.
Lemma mu_bound n m : SI n m -> mu m <= MAXTASKS.
Proof. intros (HB & _). unfold mu. pose proof (b_next _ _ HB). pose proof (b_cnt _ _ HB). lia. Qed.

(* the state from which [simulate] prints its answer *)
Definition final_sim (n : Z) (ops : list Z) : sim := op_wait (drain (3 * MAXTASKS) (run_script (sim0 n) ops)).

Lemma final_sim_ok n ops :
  let m := final_sim n ops in
  SI n m /\ s_bad m = false /\ s_waiter m = false /\ s_queue m = [] /\ s_act m = [] /\
  exists o, s_out m = (E_WAITRET, 0%Z, 0%Z) :: o.
Proof.
  unfold final_sim. pose proof (SI_run_script n ops _ (SI_sim0 n)) as H0.
  destruct (SI_drain n (3 * MAXTASKS) _ H0) as [H1 Ha]; [pose proof (mu_bound _ _ H0); lia|].
  set (m0 := drain (3 * MAXTASKS) (run_script (sim0 n) ops)) in *.
  pose proof H1 as (HB & HF & HWt & HWa). pose proof (b_core _ _ HB) as Hc.
  assert (Hq : s_queue m0 = []).
  { destruct (s_queue m0) eqn:Eq; [reflexivity|]. unfold Full in HF. rewrite Eq, Ha in HF. specialize (HF ltac:(discriminate)).
    pose proof (eff_limit_pos n). rewrite (c_lim _ _ _ _ Hc) in HF. cbn [length] in HF. lia. }
  assert (Hw : s_waiter m0 = false) by (destruct (s_waiter m0) eqn:Ew; [exfalso; apply (HWa Ew Ha)|reflexivity]).
  pose proof (SI_op_wait n m0 H1) as H2. cbv zeta. split; [exact H2|].
  rewrite op_wait_eq in *. rewrite Hw, Hq in *.
  assert (Hz : wg (s_lim m0) =? 0 = true) by (rewrite (c_wg _ _ _ _ Hc), Ha; reflexivity). rewrite Hz in *.
  simp_sim. repeat split; auto. { apply (b_bad _ _ HB). } eauto.
Qed.
