(* C19: an invariant of the script simulation (Model/Limiter.v: op_go / op_rel / op_wait / drain) that is strong enough to show
   (1) the fuel of [drain] suffices and the final Wait returns, for every script;
   (2) the predicted trace satisfies every clause of the judge [trace_spec]. *)
From Coq Require Import List Arith ZArith Lia Bool Permutation.
From V Require Import Lib.Enc Gen.ConstsGoz Model.Limiter Proofs.Limiter Proofs.LimiterSim Proofs.LimiterJudgeTrace.
Import ListNotations.

Arguments panic_value : simpl never.

(* ---------------------------------------------------------------- trace side: what is known of the trace built so far
   (o is the reversed trace, newest event first; cur = bodies inside; phf j = automaton state of task j) *)
Record TraceOK (lim : nat) (o : list oev) (cur : nat) (phf : nat -> nat) : Prop := {
  t_hang : no_hang (rev o) = true;
  t_gok : gauge_ok lim 0 (rev o) = true;
  t_gend : gauge_end 0 (rev o) = cur;
  t_phase : forall j, phase (zi j) 0 (rev o) = Some (phf j);
  t_ids : Forall (fun e : oev => exists j, snd (fst e) = zi j) o;
  t_rm : raise_matches (rev o) = true;
  t_g2 : G2rev o
}.

Lemma zi_inj a b : zi a = zi b -> a = b.
Proof. unfold zi. apply Nat2Z.inj. Qed.

Lemma emit lim o cur phf c i v cur' phf' :
  TraceOK lim o cur phf ->
  (c =? E_HANG)%Z = false ->
  cur' = (if (c =? E_START)%Z then S cur else if (c =? E_RETURN)%Z || (c =? E_RAISE)%Z then pred cur else cur) ->
  cur' <= lim ->
  trans (phf i) c = Some (phf' i) -> (forall j, j <> i -> phf' j = phf j) ->
  rm_in (rev o ++ [(c, zi i, v)]) [(c, zi i, v)] = true ->
  (c = E_WAITRET -> wait_pre (rev o)) ->
  TraceOK lim ((c, zi i, v) :: o) cur' phf'.
Proof.
  intros [Hh Hg He Hp Hi Hr H2] Hc Ecur Hle Htr Hoth Hrm Hw. constructor; cbn [rev].
  - rewrite no_hang_app, Hh. unfold no_hang. cbn [forallb fst]. rewrite Hc. reflexivity.
  - rewrite gauge_ok_app, Hg, He. cbn [gauge_ok andb]. rewrite <- Ecur, andb_true_r. apply Nat.leb_le. exact Hle.
  - rewrite gauge_end_app, He. cbn [gauge_end]. symmetry. exact Ecur.
  - intros j. rewrite phase_app, Hp. cbn [phase]. destruct (Z.eqb_spec (zi i) (zi j)) as [E|E].
    + apply zi_inj in E. subst j. rewrite Htr. reflexivity.
    + rewrite Hoth; [reflexivity|]. intros ->. apply E. reflexivity.
  - constructor; auto. exists i. reflexivity.
  - apply raise_matches_snoc; auto.
  - cbn [G2rev fst]. split; auto.
Qed.

Lemma TraceOK_ext lim o cur phf phf' : (forall j, phf' j = phf j) -> TraceOK lim o cur phf -> TraceOK lim o cur phf'.
Proof. intros E [Hh Hg He Hp Hi Hr H2]. constructor; auto. intros j. rewrite E. apply Hp. Qed.

Lemma existsb_rev {A} (f : A -> bool) : forall l, existsb f (rev l) = existsb f l.
Proof.
  induction l as [|e l IH]; [reflexivity|]. cbn [rev existsb]. rewrite existsb_app, IH. cbn [existsb].
  rewrite orb_false_r. apply orb_comm.
Qed.
Lemma has_call_rev o : has_call (rev o) = has_call o.
Proof. apply existsb_rev. Qed.

(* ---------------------------------------------------------------- state side *)
Definition ph (t : tstate) : nat := match t with Pending => 0 | Spawned => 1 | Running => 2 | Ended => 3 | Finished => 5 end.

Definition l_in (l : st) (i : nat) : st :=
  {| limit := limit l; tokens := S (tokens l); wg := S (wg l); tasks := set (set (tasks l) i Spawned) i Running; handled := handled l |}.
Definition l_ret (l : st) (j : nat) : st :=
  {| limit := limit l; tokens := pred (tokens l); wg := pred (wg l); tasks := set (set (tasks l) j Ended) j Finished; handled := handled l |}.
Definition l_pan (l : st) (j v : nat) : st :=
  {| limit := limit l; tokens := pred (tokens l); wg := pred (wg l); tasks := set (set (tasks l) j Ended) j Finished;
     handled := handled l ++ [(j, v)] |}.

Lemma accepts_in l i : tasks l i = Pending -> tokens l < limit l -> accepts l [Submit i; Start i] = Some (l_in l i).
Proof.
  intros Hp Hlt. cbn [accepts step]. rewrite Hp. destruct (Nat.ltb_spec (tokens l) (limit l)); [|lia].
  cbn [tasks]. unfold set at 1. rewrite Nat.eqb_refl. reflexivity.
Qed.
Lemma accepts_in_none l i : tasks l i = Pending -> ~ tokens l < limit l -> accepts l [Submit i; Start i] = None.
Proof. intros Hp Hlt. cbn [accepts step]. rewrite Hp. destruct (Nat.ltb_spec (tokens l) (limit l)); [lia|reflexivity]. Qed.
Lemma accepts_ret l j : tasks l j = Running -> accepts l [Return j; Cleanup j] = Some (l_ret l j).
Proof. intros Hr. cbn [accepts step]. rewrite Hr. cbn [tasks]. unfold set at 1. rewrite Nat.eqb_refl. reflexivity. Qed.
Lemma accepts_pan l j v : tasks l j = Running -> accepts l [Panic j v; Cleanup j] = Some (l_pan l j v).
Proof. intros Hr. cbn [accepts step]. rewrite Hr. cbn [tasks]. unfold set at 1. rewrite Nat.eqb_refl. reflexivity. Qed.
Lemma tasks_in l i j : tasks (l_in l i) j = if Nat.eqb j i then Running else tasks l j.
Proof. cbn [l_in tasks]. unfold set. destruct (Nat.eqb j i); reflexivity. Qed.
Lemma tasks_ret l i j : tasks (l_ret l i) j = if Nat.eqb j i then Finished else tasks l j.
Proof. cbn [l_ret tasks]. unfold set. destruct (Nat.eqb j i); reflexivity. Qed.
Lemma tasks_pan l i v j : tasks (l_pan l i v) j = if Nat.eqb j i then Finished else tasks l j.
Proof. cbn [l_pan tasks]. unfold set. destruct (Nat.eqb j i); reflexivity. Qed.

Lemma remove_id_in j act x : In x (remove_id j act) <-> In x act /\ x <> j.
Proof.
  unfold remove_id. rewrite filter_In. destruct (Nat.eqb_spec x j); cbn [negb]; split; intros [A B]; split; auto; try discriminate; congruence.
Qed.
Lemma remove_id_notin j act : ~ In j act -> remove_id j act = act.
Proof.
  induction act as [|a t IH]; intros H; [reflexivity|]. cbn [remove_id filter]. destruct (Nat.eqb_spec a j) as [->|].
  - exfalso. apply H. left; reflexivity.
  - cbn [negb]. f_equal. apply IH. intros X. apply H. right; exact X.
Qed.
Lemma remove_id_length j : forall act, NoDup act -> In j act -> S (length (remove_id j act)) = length act.
Proof.
  induction act as [|a t IH]; intros Hnd Hin; [contradiction|]. inversion Hnd as [|? ? Hn Hnd']; subst.
  cbn [remove_id filter]. destruct (Nat.eqb_spec a j) as [->|Hne]; cbn [negb length].
  - fold (remove_id j t). rewrite remove_id_notin by exact Hn. reflexivity.
  - fold (remove_id j t). destruct Hin as [->|Hin]; [congruence|]. rewrite IH by auto. reflexivity.
Qed.
Lemma remove_id_nodup j act : NoDup act -> NoDup (remove_id j act).
Proof. apply NoDup_filter. Qed.
Lemma nodup_snoc (l : list nat) i : NoDup l -> ~ In i l -> NoDup (l ++ [i]).
Proof. intros Hnd Hn. apply (Permutation_NoDup (l := i :: l)); [apply Permutation_cons_append|constructor; auto]. Qed.

Record Core (n : Z) (l : st) (act : list nat) (o : list oev) : Prop := {
  c_J : Jp n l o;
  c_lim : limit l = eff_limit n;
  c_tok : tokens l = length act;
  c_wg : wg l = length act;
  c_le : length act <= limit l;
  c_nd : NoDup act;
  c_run : forall j, In j act <-> tasks l j = Running;
  c_prf : forall j, tasks l j = Pending \/ tasks l j = Running \/ tasks l j = Finished;
  c_tr : TraceOK (limit l) o (length act) (fun j => ph (tasks l j))
}.

Lemma rm_other all c i v : (c =? E_PANIC)%Z = false -> rm_in all [(c, i, v)] = true.
Proof. intros H. unfold rm_in. cbn [forallb]. rewrite H. reflexivity. Qed.

Lemma Core_letin n l act o i : Core n l act o -> tasks l i = Pending -> length act < limit l ->
  Core n (l_in l i) (act ++ [i]) ((E_START, zi i, 0%Z) :: (E_SUBMIT, zi i, 0%Z) :: o).
Proof.
  intros [HJ Hlim Htok Hwg Hle Hnd Hrun Hprf Htr] Hp Hlt.
  assert (Hni : ~ In i act) by (intros X; apply Hrun in X; congruence).
  constructor.
  - pose proof (accepts_in l i Hp ltac:(lia)) as Ha. cbn [accepts] in Ha.
    destruct (step l (Submit i)) as [s1|] eqn:E1; [|discriminate].
    eapply Jp_emit; [eapply Jp_emit; [exact HJ|apply obs_submit|cbn [accepts]; rewrite E1; reflexivity]|apply obs_start|exact Ha].
  - exact Hlim.
  - cbn [l_in tokens]. rewrite app_length. cbn [length]. lia.
  - cbn [l_in wg]. rewrite app_length. cbn [length]. lia.
  - cbn [l_in limit]. rewrite app_length. cbn [length]. lia.
  - apply nodup_snoc; auto.
  - intros j. rewrite tasks_in, in_app_iff. cbn [In]. destruct (Nat.eqb_spec j i) as [->|Hne].
    + split; auto.
    + rewrite Hrun. split; [intros [A|[A|[]]]; [exact A|congruence]|auto].
  - intros j. rewrite tasks_in. destruct (Nat.eqb j i); auto.
  - cbn [l_in limit].
    eapply (emit _ _ (length act) (fun j => if Nat.eqb j i then 1 else ph (tasks l j))).
    + eapply (emit _ _ (length act) (fun j => ph (tasks l j))); [exact Htr|reflexivity|reflexivity|lia| | |apply rm_other; reflexivity|discriminate].
      * rewrite Hp, Nat.eqb_refl. reflexivity.
      * intros j Hj. destruct (Nat.eqb_spec j i); [congruence|reflexivity].
    + reflexivity.
    + cbn. rewrite app_length. cbn [length]. lia.
    + rewrite app_length. cbn [length]. lia.
    + cbn beta. rewrite tasks_in, Nat.eqb_refl. reflexivity.
    + intros j Hj. cbn beta. rewrite tasks_in. destruct (Nat.eqb_spec j i); [congruence|reflexivity].
    + apply rm_other; reflexivity.
    + discriminate.
Qed.

Lemma Core_ret n l act o j : Core n l act o -> In j act ->
  Core n (l_ret l j) (remove_id j act) ((E_RETURN, zi j, 0%Z) :: o).
Proof.
  intros [HJ Hlim Htok Hwg Hle Hnd Hrun Hprf Htr] Hin.
  assert (Hr : tasks l j = Running) by (apply Hrun; exact Hin).
  pose proof (remove_id_length j act Hnd Hin) as Hlen.
  constructor.
  - eapply Jp_emit; [exact HJ|apply obs_return|apply accepts_ret; exact Hr].
  - exact Hlim.
  - cbn [l_ret tokens]. lia.
  - cbn [l_ret wg]. lia.
  - cbn [l_ret limit]. lia.
  - apply remove_id_nodup; auto.
  - intros x. rewrite tasks_ret, remove_id_in. destruct (Nat.eqb_spec x j) as [->|Hne].
    + split; [intros [_ A]; congruence|discriminate].
    + rewrite Hrun. tauto.
  - intros x. rewrite tasks_ret. destruct (Nat.eqb x j); auto.
  - cbn [l_ret limit].
    eapply (emit _ _ (length act) (fun x => ph (tasks l x))); [exact Htr|reflexivity|cbn; lia|lia| | |apply rm_other; reflexivity|discriminate].
    + cbn beta. rewrite tasks_ret, Nat.eqb_refl, Hr. reflexivity.
    + intros x Hx. cbn beta. rewrite tasks_ret. destruct (Nat.eqb_spec x j); [congruence|reflexivity].
Qed.

Lemma Core_pan n l act o j v : Core n l act o -> In j act ->
  Core n (l_pan l j v) (remove_id j act) ((E_PANIC, zi j, zi v) :: (E_RAISE, zi j, zi v) :: o).
Proof.
  intros [HJ Hlim Htok Hwg Hle Hnd Hrun Hprf Htr] Hin.
  assert (Hr : tasks l j = Running) by (apply Hrun; exact Hin).
  pose proof (remove_id_length j act Hnd Hin) as Hlen.
  constructor.
  - eapply Jp_emit; [eapply Jp_emit; [exact HJ|apply obs_raise|reflexivity]|apply obs_panic|apply accepts_pan; exact Hr].
  - exact Hlim.
  - cbn [l_pan tokens]. lia.
  - cbn [l_pan wg]. lia.
  - cbn [l_pan limit]. lia.
  - apply remove_id_nodup; auto.
  - intros x. rewrite tasks_pan, remove_id_in. destruct (Nat.eqb_spec x j) as [->|Hne].
    + split; [intros [_ A]; congruence|discriminate].
    + rewrite Hrun. tauto.
  - intros x. rewrite tasks_pan. destruct (Nat.eqb x j); auto.
  - cbn [l_pan limit].
    eapply (emit _ _ (length (remove_id j act)) (fun x => if Nat.eqb x j then 3 else ph (tasks l x))).
    + eapply (emit _ _ (length act) (fun x => ph (tasks l x))); [exact Htr|reflexivity|cbn; lia|lia| | |apply rm_other; reflexivity|discriminate].
      * rewrite Hr, Nat.eqb_refl. reflexivity.
      * intros x Hx. destruct (Nat.eqb_spec x j); [congruence|reflexivity].
    + reflexivity.
    + reflexivity.
    + lia.
    + cbn beta. rewrite tasks_pan, Nat.eqb_refl. reflexivity.
    + intros x Hx. cbn beta. rewrite tasks_pan. destruct (Nat.eqb_spec x j); [congruence|reflexivity].
    + unfold rm_in. cbn [forallb rev]. rewrite Z.eqb_refl, !existsb_app. cbn [existsb]. rewrite !Z.eqb_refl.
      cbn [andb orb]. rewrite !orb_true_r. reflexivity.
    + discriminate.
Qed.

Lemma Core_call n l act o : Core n l act o -> Core n l act ((E_WAITCALL, 0%Z, 0%Z) :: o).
Proof.
  intros [HJ Hlim Htok Hwg Hle Hnd Hrun Hprf Htr]. constructor; auto.
  - eapply Jp_emit; [exact HJ|apply obs_waitcall|reflexivity].
  - change 0%Z with (zi 0) at 1.
    eapply (emit _ _ (length act) (fun x => ph (tasks l x))); [exact Htr|reflexivity|reflexivity|lia| | |apply rm_other; reflexivity|discriminate].
    + apply trans_nontask. reflexivity.
    + reflexivity.
Qed.

Lemma Core_wret n l act o : Core n l act o -> act = [] -> has_call o = true -> Core n l act ((E_WAITRET, 0%Z, 0%Z) :: o).
Proof.
  intros [HJ Hlim Htok Hwg Hle Hnd Hrun Hprf Htr] Hact Hc. constructor; auto.
  - eapply Jp_emit; [exact HJ|apply obs_waitret|]. cbn [accepts step]. rewrite Hwg, Hact. reflexivity.
  - change 0%Z with (zi 0) at 1.
    eapply (emit _ _ (length act) (fun x => ph (tasks l x))); [exact Htr|reflexivity|reflexivity|lia| | |apply rm_other; reflexivity|].
    + apply trans_nontask. reflexivity.
    + reflexivity.
    + intros _. split; [rewrite has_call_rev; exact Hc|]. intros j. rewrite (t_phase _ _ _ _ Htr).
      destruct (Hprf j) as [E|[E|E]]; rewrite E; cbn [ph]; auto.
      apply Hrun in E. rewrite Hact in E. contradiction.
Qed.
