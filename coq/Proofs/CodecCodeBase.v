(* C07 — the code GENERATED from strz/enc.go and strz/std_strconv.go (coq/Gen/CodecCode.v, written by gen/trans.go +
   gen/trans_ext07.go on every run: lower, upper, parseUint, appendUint, toUpper, OctalFormat, OctalParse, HexFormat,
   HexParse) is equal to the hand-written model of Model/Codec.v, function by function.

   Conventions of the generated code (gen/TRANSLATOR.md, [ext:T07]): a []byte parameter that the Go function writes in
   place comes back as the first component of the result (XParse(dst, src) : M (new dst * n)); string / []byte / a
   bytestring type parameter are byte lists; strconv.AppendUint is the model std_strconv_AppendUint of Lib/GoSemStd.v.
   The hand model's parsers return the written prefix dst[:n] only; [fill out dst] is the explicit total conversion
   (the written prefix followed by what was in dst behind it).  dst and src do not overlap: that is what the hand model
   assumes (it never reads dst) and what the translator assumes for distinct slice arguments.

   Proof style: the loops are taken out of the generated definitions (never restated); every loop lemma is stated for a
   packing function pk of the loop's state variables and for loop components c b p constrained only by what ONE
   iteration does (iter1), so that the order of the variables in the generated state tuple (index loop / range loop,
   declaration order) does not matter; the one-iteration obligations are discharged by unfolding, rewriting the checked
   buffer operations into their values (side conditions by lia) and case analysis on every comparison. *)
From Coq Require Import List ZArith Lia Bool Arith.
From V Require Import Lib.Enc Lib.GoSem Lib.GoSemStd Proofs.GoSemFacts Gen.Codec Gen.CodecCode Model.Codec Proofs.CodecBase Proofs.CodecFormat.
Import ListNotations.
Local Open Scope Z_scope.
Arguments Z.mul : simpl never.
Arguments Z.add : simpl never.
Arguments Z.sub : simpl never.
Arguments Z.div : simpl never.
Arguments Z.modulo : simpl never.
Arguments Z.pow : simpl never.
Arguments Z.quot : simpl never.
Arguments Z.rem : simpl never.
Arguments Z.of_nat : simpl never.
Arguments Z.to_nat : simpl never.
(* lia sees mod / div as opaque here (Proofs/CodecFormat.v switches the expansion on); lia_dm where it is wanted *)
Ltac Zify.zify_post_hook ::= idtac.
Ltac lia_dm := Z.div_mod_to_equations; lia.
(* x mod 256 where x is visibly a byte *)
Ltac small_mods := repeat match goal with |- context [?x mod 256] => rewrite (Z.mod_small x 256) by lia end.

(* ================================================================== generic helpers *)
Ltac zb :=
  repeat match goal with
  | H : (_ =? _) = true |- _ => apply Z.eqb_eq in H
  | H : (_ =? _) = false |- _ => apply Z.eqb_neq in H
  | H : (_ <=? _) = true |- _ => apply Z.leb_le in H
  | H : (_ <=? _) = false |- _ => apply Z.leb_gt in H
  | H : (_ <? _) = true |- _ => apply Z.ltb_lt in H
  | H : (_ <? _) = false |- _ => apply Z.ltb_ge in H
  | H : (_ <=? _)%nat = true |- _ => apply Nat.leb_le in H
  | H : (_ <=? _)%nat = false |- _ => apply Nat.leb_gt in H
  | H : (_ <? _)%nat = true |- _ => apply Nat.ltb_lt in H
  | H : (_ <? _)%nat = false |- _ => apply Nat.ltb_ge in H
  | H : negb _ = true |- _ => apply negb_true_iff in H
  | H : negb _ = false |- _ => apply negb_false_iff in H
  | H : orb _ _ = true |- _ => apply orb_true_iff in H
  | H : orb _ _ = false |- _ => apply orb_false_iff in H; destruct H
  | H : andb _ _ = true |- _ => apply andb_true_iff in H; destruct H
  | H : andb _ _ = false |- _ => apply andb_false_iff in H
  end.
(* unfold the generated helper functions (a helper extracted in the source later is in the hint database) and the monad *)
Ltac open_code := repeat autounfold with go2v; cbv beta iota zeta delta [bind].
Ltac step_code := cbv beta iota zeta delta [bind].
(* case analysis on the atomic comparisons first (so that a condition and its negation are decided together) *)
Ltac break_if :=
  match goal with
  | |- context [?a =? ?b] => destruct (a =? b) eqn:?
  | |- context [?a <? ?b] => destruct (a <? b) eqn:?
  | |- context [?a <=? ?b] => destruct (a <=? b) eqn:?
  | |- context [(?a <=? ?b)%nat] => destruct (a <=? b)%nat eqn:?
  | |- context [(?a <? ?b)%nat] => destruct (a <? b)%nat eqn:?
  | |- context [if ?c then _ else _] => destruct c eqn:?
  end; cbn [negb andb orb].

(* more fuel never changes a result *)
Lemma while_more {S R} (c : S -> M bool) (b : S -> M (ctl S R)) (p : S -> M S) : forall k f s r,
  while f c b p s = Ret r -> while (f + k) c b p s = Ret r.
Proof.
  induction f as [|f IH]; intros s r; [discriminate|].
  cbn [Nat.add]. rewrite !while_step. destruct (c s) as [x| |]; cbn [bind]; try discriminate.
  destruct x; [|trivial]. destruct (b s) as [y| |]; cbn [bind]; try discriminate.
  destruct y as [s1|s1|r1]; [|trivial|trivial]. destruct (p s1) as [s2| |]; cbn [bind]; try discriminate. apply IH.
Qed.

(* one iteration of a loop: inl s' = go on in state s'; inr (inl s) = the loop ends in state s; inr (inr r) = return r *)
Definition iter1 {S R} (c : S -> M bool) (b : S -> M (ctl S R)) (p : S -> M S) (s : S) : M (S + (S + R)) :=
  bind (c s) (fun x =>
    if x then bind (b s) (fun y => match y with
      | Next s1 => bind (p s1) (fun s2 => Ret (inl s2)) | Break s1 => Ret (inr (inl s1)) | Return r => Ret (inr (inr r)) end)
    else Ret (inr (inl s))).
Lemma while_iter {S R} f (c : S -> M bool) (b : S -> M (ctl S R)) (p : S -> M S) s :
  while (Datatypes.S f) c b p s = bind (iter1 c b p s) (fun x => match x with inl s' => while f c b p s' | inr r => Ret r end).
Proof.
  rewrite while_step. unfold iter1. destruct (c s) as [x| |]; cbn [bind]; try reflexivity.
  destruct x; [|reflexivity]. destruct (b s) as [y| |]; cbn [bind]; try reflexivity.
  destruct y as [s1|s1|r1]; try reflexivity. destruct (p s1); reflexivity.
Qed.
Ltac iter_open := cbv beta iota zeta delta [iter1 bind].

(* ---- N-bit values *)
Lemma wrap8_mod x : wrap 8 x = x mod 256. Proof. reflexivity. Qed.
Lemma wrap64_mod x : wrap 64 x = x mod two64. Proof. reflexivity. Qed.
Lemma wrap_small bits x : 0 <= bits -> 0 <= x < 2 ^ bits -> wrap bits x = x.
Proof. intros Hb H. unfold wrap. apply Z.mod_small. exact H. Qed.

(* ---- checked reads *)
Lemma get_at_nth (l : list Z) (k : nat) : (k < length l)%nat -> get_at l (Z.of_nat k) = Some (nth k l 0).
Proof.
  intros H. unfold get_at. destruct (Z.leb_spec 0 (Z.of_nat k)); [|lia]. rewrite Nat2Z.id. apply nth_error_nth'. exact H.
Qed.
Lemma m_get_in (l : list Z) (i : Z) : 0 <= i < zlen l -> m_get l i = Ret (nth (Z.to_nat i) l 0).
Proof. unfold zlen. intros H. unfold m_get. rewrite <- (Z2Nat.id i) at 1 by lia. rewrite get_at_nth by lia. reflexivity. Qed.
Lemma m_get_out (l : list Z) (i : Z) : ~ (0 <= i < zlen l) -> m_get l i = Panic.
Proof.
  unfold zlen, m_get, get_at. intros H. destruct (Z.leb_spec 0 i); [|reflexivity].
  destruct (nth_error l (Z.to_nat i)) eqn:E; [|reflexivity].
  assert (Z.to_nat i < length l)%nat by (apply nth_error_Some; congruence). lia.
Qed.
Lemma m_slice_in (l : list Z) (a b : Z) : 0 <= a <= b -> b <= zlen l ->
  m_slice l a b = Ret (firstn (Z.to_nat b - Z.to_nat a) (skipn (Z.to_nat a) l)).
Proof.
  unfold zlen, m_slice, GoSem.slice. intros H1 H2.
  destruct (Z.leb_spec 0 a); [|lia]. destruct (Z.leb_spec a b); [|lia]. destruct (Z.leb_spec b (Z.of_nat (length l))); [|lia]. reflexivity.
Qed.
Lemma m_slice_out (l : list Z) (a b : Z) : ~ (0 <= a <= b /\ b <= zlen l) -> m_slice l a b = Panic.
Proof.
  unfold zlen, m_slice, GoSem.slice. intros H.
  destruct (Z.leb_spec 0 a); [|reflexivity]. destruct (Z.leb_spec a b); [|reflexivity].
  destruct (Z.leb_spec b (Z.of_nat (length l))); [lia|reflexivity].
Qed.
Lemma skipn_cons_nth (l : list Z) : forall k, (k < length l)%nat -> skipn k l = nth k l 0 :: skipn (S k) l.
Proof.
  induction l as [|x t IH]; intros k Hk; [cbn in Hk; lia|]. destruct k as [|k]; [reflexivity|].
  cbn [length] in Hk. cbn [skipn nth]. apply IH. lia.
Qed.

(* the 256 byte values *)
Definition all_bytes256 : list Z := map Z.of_nat (seq 0 256).
Lemma in_bytes256 c : 0 <= c < 256 -> In c all_bytes256.
Proof. intros H. unfold all_bytes256. rewrite <- (Z2Nat.id c) by lia. apply in_map, in_seq. lia. Qed.

(* ================================================================== lower, upper (std_strconv.go) *)
Theorem code_lower : forall c, g_lower c = Ret (lower c).
Proof. intros c. open_code. reflexivity. Qed.

(* c is a byte in the code: on other integers the 8-bit shift of the translation and the model's unbounded one differ.
   Checked value by value, so that any rewriting of the expression that is equal on bytes passes. *)
Theorem code_upper : forall c, 0 <= c < 256 -> g_upper c = Ret (upper c).
Proof.
  intros c Hc.
  assert (F : forallb (fun x => match g_upper x with Ret v => v =? upper x | _ => false end) all_bytes256 = true) by (vm_compute; reflexivity).
  rewrite forallb_forall in F. specialize (F c (in_bytes256 c Hc)).
  destruct (g_upper c) as [v| |]; try discriminate. apply Z.eqb_eq in F. congruence.
Qed.

(* ================================================================== parseUint (std_strconv.go) *)
(* result conversion: the index is an int in the code, a nat in the model *)
Definition pu_res (r : Z * nat * bool) : Z * Z * bool := let '(n, j, ok) := r in (n, Z.of_nat j, ok).

(* one digit of the model's parser: inl n1 = go on with the value n1; inr v = stop with (v, index, false) *)
Definition pu_step (base maxv n c : Z) : Z + Z :=
  match digit c with
  | None => inr 0
  | Some dg =>
      if base <=? dg then inr 0
      else if cutoff base <=? n then inr maxv
      else let nb := (n * base) mod two64 in
           let n1 := (nb + dg) mod two64 in
           if (n1 <? nb) || (maxv <? n1) then inr maxv else inl n1
  end.
Lemma pu_cons base maxv n j c t :
  pu base maxv n j (c :: t) = match pu_step base maxv n c with inl n1 => pu base maxv n1 (S j) t | inr v => (v, j, false) end.
Proof.
  cbn [pu]. unfold pu_step. destruct (digit c) as [dg|]; [|reflexivity].
  destruct (base <=? dg); [reflexivity|]. destruct (cutoff base <=? n); [reflexivity|]. cbv zeta.
  destruct (((n * base) mod two64 + dg) mod two64 <? (n * base) mod two64); cbn [orb]; [reflexivity|].
  destruct (maxv <? ((n * base) mod two64 + dg) mod two64); reflexivity.
Qed.
Lemma pu_ok_index base maxv : forall ds n j v j', pu base maxv n j ds = (v, j', true) -> j' = (j + length ds)%nat.
Proof.
  induction ds as [|c t IH]; intros n j v j' H.
  - cbn [pu] in H. injection H as _ <-. cbn [length]. lia.
  - rewrite pu_cons in H. destruct (pu_step base maxv n c); [|discriminate]. apply IH in H. cbn [length]. lia.
Qed.

(* the loop, for any order pk of (n, i), given what one iteration does *)
Lemma pu_while {St} (pk : Z -> Z -> St) (c : St -> M bool) (b : St -> M (ctl St (Z * Z * bool))) (p : St -> M St)
    (s : list Z) (base maxv : Z) :
  (forall k n, (k < length s)%nat ->
     iter1 c b p (pk n (Z.of_nat k)) =
     Ret (match pu_step base maxv n (nth k s 0) with
          | inl n1 => inl (pk n1 (Z.of_nat k + 1)) | inr v => inr (inr (v, Z.of_nat k, false)) end)) ->
  (forall n, iter1 c b p (pk n (zlen s)) = Ret (inr (inl (pk n (zlen s))))) ->
  forall f k n, (k <= length s)%nat -> (length s - k < f)%nat ->
    while f c b p (pk n (Z.of_nat k)) =
    Ret (match pu base maxv n k (skipn k s) with
         | (v, j, true) => inl (pk v (zlen s)) | (v, j, false) => inr (v, Z.of_nat j, false) end).
Proof.
  intros Hin Hend. induction f as [|f IH]; intros k n Hk Hf; [lia|]. rewrite while_iter.
  destruct (Nat.eq_dec k (length s)) as [->|Hne].
  - fold (zlen s). rewrite Hend, skipn_all. reflexivity.
  - assert (Hlt : (k < length s)%nat) by lia. rewrite (Hin k n Hlt), (skipn_cons_nth s k Hlt), pu_cons.
    destruct (pu_step base maxv n (nth k s 0)) as [n1|v]; cbn [bind]; [|reflexivity].
    replace (Z.of_nat k + 1) with (Z.of_nat (S k)) by lia. apply IH; lia.
Qed.

Lemma m_quot_nz a c : c <> 0 -> m_quot a c = Ret (Z.quot a c).
Proof. intros H. unfold m_quot, goquot. destruct (Z.eqb_spec c 0); [contradiction|reflexivity]. Qed.
Lemma cutoff_code base : 2 <= base < 256 -> wrap 64 (Z.quot 18446744073709551615 base + 1) = cutoff base.
Proof.
  intros H. unfold cutoff. change (two64 - 1) with 18446744073709551615. rewrite Z.quot_div_nonneg by lia.
  apply wrap_small; [lia|]. change (2 ^ 64) with 18446744073709551616.
  assert (0 <= 18446744073709551615 / base) by (apply Z.div_pos; lia).
  assert (18446744073709551615 / base < 18446744073709551615) by (apply Z.div_lt; lia). lia.
Qed.
Lemma maxval_code bits : 0 <= bits <= 64 -> wrap 64 (wrap 64 (Z.shiftl 1 (wrap 64 bits)) - 1) = maxval bits.
Proof.
  intros H. rewrite (wrap_small 64 bits) by (change (2 ^ 64) with 18446744073709551616; lia).
  rewrite Z.shiftl_1_l. unfold maxval.
  destruct (Z.eq_dec bits 64) as [->|Hne]; [reflexivity|].
  assert (Hp : 0 < 2 ^ bits) by (apply Z.pow_pos_nonneg; lia).
  assert (Hq : 2 ^ bits <= 2 ^ 63) by (apply Z.pow_le_mono_r; lia).
  change (2 ^ 63) with 9223372036854775808 in Hq.
  rewrite (wrap_small 64 (2 ^ bits)) by (change (2 ^ 64) with 18446744073709551616; lia).
  apply wrap_small; [lia|]. change (2 ^ 64) with 18446744073709551616. lia.
Qed.

Ltac pu_shape pk c b p fuel :=
  lazymatch goal with Hbase : 2 <= ?base < 256, Hfuel : (length ?s < fuel)%nat |- _ = Ret (pu_res (parse_uint ?s ?base ?bits)) =>
    let H1 := fresh "H1" in let H2 := fresh "H2" in
    assert (H1 : forall k n, (k < length s)%nat ->
              iter1 c b p (pk n (Z.of_nat k)) =
              Ret (match pu_step base (maxval bits) n (nth k s 0) with
                   | inl n1 => inl (pk n1 (Z.of_nat k + 1)) | inr v => inr (inr (v, Z.of_nat k, false)) end));
    [ let k := fresh "k" in let n := fresh "n" in let Hk := fresh "Hk" in
      intros k n Hk; iter_open;
      assert (Hl : (Z.of_nat k <? zlen s) = true) by (apply Z.ltb_lt; unfold zlen; lia);
      rewrite ?Hl; rewrite ?m_get_in by (unfold zlen; lia); rewrite ?Nat2Z.id; step_code;
      generalize (nth k s 0); intros ch;
      unfold pu_step, digit, lower; rewrite ?wrap8_mod, ?wrap64_mod; cbv zeta;
      (* the four comparisons that classify the digit first: the 8-bit digit arithmetic of the code is then exact *)
      destruct (Z.leb_spec 48 ch), (Z.leb_spec ch 57), (Z.leb_spec 97 (Z.lor ch 32)), (Z.leb_spec (Z.lor ch 32) 122);
      cbn [andb orb negb]; step_code; small_mods; repeat first [ progress step_code | progress cbn [andb orb negb] | rewrite wrap8_mod | rewrite wrap64_mod | progress small_mods | break_if ];
      try reflexivity; zb; try lia; try (exfalso; lia)
    | assert (H2 : forall n, iter1 c b p (pk n (zlen s)) = Ret (inr (inl (pk n (zlen s)))));
      [ let n := fresh "n" in intros n; iter_open; rewrite ?Z.ltb_irrefl; reflexivity
      | let E := fresh "E" in
        pose proof (pu_while pk c b p s base (maxval bits) H1 H2 fuel 0%nat 0 ltac:(lia) ltac:(lia)) as E;
        cbv beta in E; change (Z.of_nat 0) with 0 in E; rewrite E; clear E H1 H2;
        cbn [skipn]; unfold parse_uint;
        let v := fresh "v" in let j := fresh "j" in let ok := fresh "ok" in let Ep := fresh "Ep" in
        destruct (pu base (maxval bits) 0 0 s) as [[v j] ok] eqn:Ep; destruct ok; cbn [pu_res];
        [ apply pu_ok_index in Ep; cbn [Nat.add] in Ep; subst j; reflexivity | reflexivity ] ] ]
  end.

(* for every fuel above the length of the digit string, every base a byte can hold and every bit size up to 64 (the
   model's cutoff and maxval are the mathematical ones: base < 2 makes the code's uint64 cutoff wrap, a bit size above
   64 makes its shift wrap) *)
Theorem code_parseUint : forall fuel s base bits, 2 <= base < 256 -> 0 <= bits <= 64 -> (length s < fuel)%nat ->
  g_parseUint fuel s base bits = Ret (pu_res (parse_uint s base bits)).
Proof.
  intros fuel s base bits Hbase Hbits Hfuel. open_code.
  rewrite ?(wrap_small 64 base) by (change (2 ^ 64) with 18446744073709551616; lia).
  rewrite ?(wrap_small 8 base) by (change (2 ^ 8) with 256; lia).
  rewrite ?m_quot_nz by lia. step_code.
  rewrite ?(cutoff_code base Hbase), ?(maxval_code bits Hbits).
  match goal with |- match while _ ?c ?b ?p ?s with _ => _ end = _ =>
    first [ solve [pu_shape (fun n i : Z => (n, i)) c b p fuel] | solve [pu_shape (fun n i : Z => (i, n)) c b p fuel] ]
  end.
Qed.

(* ================================================================== appendUint (enc.go) *)
Lemma m_copy_in dst a b src : 0 <= a <= b -> b <= zlen dst ->
  m_copy dst a b src =
  Ret (firstn (Z.to_nat a) dst ++ gocopy (firstn (Z.to_nat b - Z.to_nat a) (skipn (Z.to_nat a) dst)) src ++ skipn (Z.to_nat b) dst,
       Z.of_nat (Nat.min (length (firstn (Z.to_nat b - Z.to_nat a) (skipn (Z.to_nat a) dst))) (length src))).
Proof.
  unfold zlen, m_copy, GoSem.slice. intros H1 H2.
  destruct (Z.leb_spec 0 a); [|lia]. destruct (Z.leb_spec a b); [|lia]. destruct (Z.leb_spec b (Z.of_nat (length dst))); [|lia]. reflexivity.
Qed.
Lemma m_copy_out dst a b src : ~ (0 <= a <= b /\ b <= zlen dst) -> m_copy dst a b src = Panic.
Proof.
  unfold zlen, m_copy, GoSem.slice. intros H.
  destruct (Z.leb_spec 0 a); [|reflexivity]. destruct (Z.leb_spec a b); [|reflexivity].
  destruct (Z.leb_spec b (Z.of_nat (length dst))); [lia|reflexivity].
Qed.
Lemma gocopy_same d s : length d = length s -> gocopy d s = s.
Proof. intros H. unfold gocopy. rewrite H, firstn_all, skipn_all2 by lia. apply app_nil_r. Qed.
Lemma firstn_zero_padding n : (n <= 8)%nat -> firstn n v_zeroPadding = repeat 48 n.
Proof. intros H. do 9 (destruct n as [|n]; [reflexivity|]). lia. Qed.
Lemma append_in_place_length l b x : 0 <= b -> length (append_in_place l b x) = length l.
Proof.
  intros Hb. unfold append_in_place, zlen. destruct (Z.leb_spec (b + Z.of_nat (length x)) (Z.of_nat (length l))); [|reflexivity].
  rewrite !app_length, firstn_length, skipn_length. lia.
Qed.
Lemma fmt_digits_std base : forall fuel v acc, std_fmt_digits fuel base v acc = fmt_digits fuel base v acc.
Proof.
  induction fuel as [|fu IH]; intros v acc; [reflexivity|]. cbn [std_fmt_digits fmt_digits].
  change (std_digit_char (v mod base)) with (digit_char (v mod base)). cbv zeta.
  destruct (v / base =? 0); [reflexivity|apply IH].
Qed.
Lemma m_slice_00 (l : list Z) : m_slice l 0 0 = Ret [].
Proof. rewrite m_slice_in by (unfold zlen; lia). reflexivity. Qed.
Lemma format_bits_std v base : std_fmt_digits 64 base v [] = format_bits v base.
Proof. apply fmt_digits_std. Qed.

(* dst at most as long as zeroPadding (the hand model says so: "w <= len(zeroPadding) at every call site"; a longer dst
   keeps its bytes in front of the eight zeros) and a base strconv accepts (the model has no such check: the Go call
   panics outside 2..36) *)
Theorem code_appendUint : forall dst v base, (length dst <= 8)%nat -> 2 <= base <= 36 ->
  g_appendUint dst v base = lift (append_uint (length dst) v base).
Proof.
  intros dst v base Hw Hbase. open_code.
  rewrite m_slice_00. step_code. cbn [app].
  unfold std_strconv_AppendUint. destruct (Z.ltb_spec base 2); [lia|]. destruct (Z.ltb_spec 36 base); [lia|]. cbn [orb]. step_code.
  rewrite format_bits_std. unfold append_uint. set (D := format_bits v base).
  assert (HL : forall l, zlen (append_in_place l 0 D) = zlen l) by (intros l; unfold zlen; rewrite append_in_place_length by lia; reflexivity).
  rewrite !HL.
  destruct (Nat.leb_spec (length D) (length dst)) as [Hfit|Hbig].
  2:{ rewrite m_copy_out by (unfold zlen; lia). reflexivity. }
  unfold append_in_place. destruct (Z.leb_spec (0 + zlen D) (zlen dst)) as [_|Hc]; [|unfold zlen in Hc; lia].
  change (Z.to_nat 0) with 0%nat. cbn [firstn app].
  set (T := skipn (Z.to_nat (0 + zlen D)) dst).
  assert (HT : length T = (length dst - length D)%nat) by (unfold T, zlen; rewrite skipn_length; lia).
  set (x := (length dst - length D)%nat) in *.
  rewrite (m_copy_in (D ++ T)) by (unfold zlen; rewrite ?app_length; lia). step_code.
  replace (Z.to_nat (zlen dst - zlen D)) with x by (unfold zlen, x; lia).
  replace (Z.to_nat (zlen dst)) with (length (D ++ T)) by (unfold zlen; rewrite ?app_length; lia).
  rewrite (skipn_all (D ++ T)), app_nil_r.
  rewrite (firstn_all2 (n := (length (D ++ T) - x)%nat)) by (rewrite skipn_length; lia).
  rewrite gocopy_same by (rewrite skipn_length, app_length; lia).
  set (P := firstn x (D ++ T)).
  assert (HP : length P = x) by (unfold P; rewrite firstn_length, app_length; lia).
  rewrite (m_copy_in (P ++ D)) by (unfold zlen; rewrite ?app_length; lia). step_code.
  replace (Z.to_nat (zlen dst - zlen D)) with x by (unfold zlen, x; lia).
  change (Z.to_nat 0) with 0%nat. cbn [firstn skipn app]. rewrite Nat.sub_0_r.
  rewrite <- HP at 1 2. rewrite firstn_app, firstn_all, Nat.sub_diag, skipn_app, skipn_all, Nat.sub_diag. cbn [firstn skipn app].
  rewrite app_nil_r. unfold gocopy. rewrite firstn_zero_padding by lia.
  rewrite skipn_all2 by (unfold v_zeroPadding; cbn [length]; lia). rewrite app_nil_r, HP. reflexivity.
Qed.

(* ================================================================== toUpper (enc.go) *)
Lemma nth_byte (l : list Z) k : bytes l -> (k < length l)%nat -> 0 <= nth k l 0 < 256.
Proof. intros Hb Hk. unfold bytes in Hb. rewrite Forall_forall in Hb. apply (Hb (nth k l 0)), nth_In, Hk. Qed.
Lemma m_get_pre (pre l : list Z) k : length pre = k -> (k < length l)%nat -> m_get (pre ++ skipn k l) (Z.of_nat k) = Ret (nth k l 0).
Proof.
  intros Hp Hk. rewrite (skipn_cons_nth l k Hk). subst k. unfold m_get, get_at.
  destruct (Z.leb_spec 0 (Z.of_nat (length pre))); [|lia]. rewrite Nat2Z.id, nth_error_app2, Nat.sub_diag by lia. reflexivity.
Qed.
Lemma upd_mid (p r : list Z) a v : upd (p ++ a :: r) (length p) v = p ++ v :: r.
Proof. induction p as [|x p IH]; cbn [app length upd]; [reflexivity|]. rewrite IH. reflexivity. Qed.
Lemma m_set_pre (pre l : list Z) k v : length pre = k -> (k < length l)%nat ->
  m_set (pre ++ skipn k l) (Z.of_nat k) v = Ret ((pre ++ [v]) ++ skipn (S k) l).
Proof.
  intros Hp Hk. rewrite (skipn_cons_nth l k Hk). subst k. unfold m_set, set_at. rewrite app_length. cbn [length].
  destruct (Z.leb_spec 0 (Z.of_nat (length pre))); [|lia].
  destruct (Z.ltb_spec (Z.of_nat (length pre)) (Z.of_nat (length pre + S (length (skipn (S (length pre)) l))))); [|lia].
  cbn [andb lift]. rewrite Nat2Z.id, upd_mid, <- app_assoc. reflexivity.
Qed.
Lemma zlen_pre (pre l : list Z) k : length pre = k -> (k <= length l)%nat -> zlen (pre ++ skipn k l) = zlen l.
Proof. intros Hp Hk. unfold zlen. rewrite app_length, skipn_length. lia. Qed.

(* the loop, for any order pk of (index, dst), given what one iteration does *)
Lemma upper_while {St R} (pk : Z -> list Z -> St) (c : St -> M bool) (b : St -> M (ctl St R)) (p : St -> M St) (d0 : list Z) :
  (forall k pre, (k < length d0)%nat -> length pre = k ->
     iter1 c b p (pk (Z.of_nat k) (pre ++ skipn k d0)) = Ret (inl (pk (Z.of_nat k + 1) ((pre ++ [upper (nth k d0 0)]) ++ skipn (S k) d0)))) ->
  (forall D, length D = length d0 -> iter1 c b p (pk (zlen d0) D) = Ret (inr (inl (pk (zlen d0) D)))) ->
  forall f k pre, length pre = k -> (k <= length d0)%nat -> (length d0 - k < f)%nat ->
    while f c b p (pk (Z.of_nat k) (pre ++ skipn k d0)) = Ret (inl (pk (zlen d0) (pre ++ map upper (skipn k d0)))).
Proof.
  intros Hin Hend. induction f as [|f IH]; intros k pre Hp Hk Hf; [lia|]. rewrite while_iter.
  destruct (Nat.eq_dec k (length d0)) as [->|Hne].
  - fold (zlen d0). rewrite Hend by (rewrite app_length, skipn_all; cbn [length]; lia). rewrite skipn_all. reflexivity.
  - assert (Hlt : (k < length d0)%nat) by lia. rewrite (Hin k pre Hlt Hp). cbn [bind].
    replace (Z.of_nat k + 1) with (Z.of_nat (S k)) by lia.
    rewrite IH by (rewrite ?app_length; cbn [length]; lia).
    rewrite (skipn_cons_nth d0 k Hlt). cbn [map]. rewrite <- app_assoc. reflexivity.
Qed.

Ltac upper_shape pk c b p fuel :=
  lazymatch goal with Hb : bytes ?d0 |- _ = Ret (to_upper ?d0) =>
    let H1 := fresh "H1" in let H2 := fresh "H2" in
    assert (H1 : forall k pre, (k < length d0)%nat -> length pre = k ->
       iter1 c b p (pk (Z.of_nat k) (pre ++ skipn k d0)) = Ret (inl (pk (Z.of_nat k + 1) ((pre ++ [upper (nth k d0 0)]) ++ skipn (S k) d0))));
    [ let k := fresh "k" in let pre := fresh "pre" in let Hk := fresh "Hk" in let Hp := fresh "Hp" in
      intros k pre Hk Hp; iter_open;
      rewrite ?(zlen_pre pre d0 k Hp) by lia;
      assert (Hl : (Z.of_nat k <? zlen d0) = true) by (apply Z.ltb_lt; unfold zlen; lia);
      repeat first [ rewrite Hl | rewrite (m_get_pre pre d0 k Hp Hk) | rewrite (code_upper _ (nth_byte d0 k Hb Hk))
                   | rewrite (m_set_pre pre d0 k _ Hp Hk) | progress step_code ];
      reflexivity
    | assert (H2 : forall D, length D = length d0 -> iter1 c b p (pk (zlen d0) D) = Ret (inr (inl (pk (zlen d0) D))));
      [ let D := fresh "D" in let HD := fresh "HD" in intros D HD; iter_open;
        replace (zlen D) with (zlen d0) by (unfold zlen; lia); rewrite ?Z.ltb_irrefl; reflexivity
      | let E := fresh "E" in
        pose proof (upper_while pk c b p d0 H1 H2 fuel 0%nat [] eq_refl ltac:(lia) ltac:(lia)) as E;
        cbv beta in E; cbn [skipn app] in E; change (Z.of_nat 0) with 0 in E; rewrite E; clear E H1 H2; reflexivity ] ]
  end.

(* dst holds bytes (upper is exact on bytes only); for every fuel above its length *)
Theorem code_toUpper : forall fuel dst, bytes dst -> (length dst < fuel)%nat -> g_toUpper fuel dst = Ret (to_upper dst).
Proof.
  intros fuel dst Hb Hf. unfold g_toUpper. repeat autounfold with go2v_aux. step_code.
  match goal with |- match while _ ?c ?b ?p ?s0 with _ => _ end = _ =>
    first [ solve [upper_shape (fun (i : Z) (d : list Z) => (i, d)) c b p fuel]
          | solve [upper_shape (fun (i : Z) (d : list Z) => (d, i)) c b p fuel] ]
  end.
Qed.

Lemma skipn_skipn {A} (l : list A) : forall a b, skipn a (skipn b l) = skipn (b + a) l.
Proof. induction l as [|x l IH]; intros a [|b]; cbn [skipn Nat.add]; try reflexivity; [destruct a; reflexivity|apply IH]. Qed.
Lemma m_slice_nat (l : list Z) a b na nb : a = Z.of_nat na -> b = Z.of_nat nb -> (na <= nb <= length l)%nat ->
  m_slice l a b = Ret (firstn (nb - na) (skipn na l)).
Proof. intros -> -> H. rewrite m_slice_in by (unfold zlen; lia). rewrite !Nat2Z.id. reflexivity. Qed.
Lemma m_get_nat (l : list Z) i k : i = Z.of_nat k -> (k < length l)%nat -> m_get l i = Ret (nth k l 0).
Proof. intros -> H. unfold m_get. rewrite get_at_nth by exact H. reflexivity. Qed.

