(* C14: FlexSlice (buffer-level model, Model/Flex.v) refines the plain sequence specification for every operation
   sequence and every capacity that Go's append may report; len <= cap is an invariant; no operation panics.
   The proofs do not look at the values of the constants of Gen/Slicez.v: they hold for the constants the source has today. *)
From Coq Require Import List ZArith Bool Arith Lia.
From V Require Import Gen.Slicez Model.Slices Model.Flex Proofs.SlicesBase Proofs.SlicesClamp.
Import ListNotations.
Local Open Scope Z_scope.

Definition fwf (f : flex) : Prop := (fl f <= length (fb f))%nat.

Lemma fvals_length f : fwf f -> length (fvals f) = fl f.
Proof. intros H. unfold fvals. apply firstn_length_le. exact H. Qed.
Lemma firstn_app_exact {A} (a b : list A) n : n = length a -> firstn n (a ++ b) = a.
Proof. intros ->. rewrite firstn_app, Nat.sub_diag, firstn_all. cbn [firstn]. apply app_nil_r. Qed.
Lemma zeros_length n : length (zeros n) = Z.to_nat n.
Proof. apply repeat_length. Qed.

Lemma mk_ok (vals rest : list Z) n : n = length vals -> fwf (mkF (vals ++ rest) n) /\ fvals (mkF (vals ++ rest) n) = vals.
Proof.
  intros ->. split.
  - unfold fwf. cbn [fb fl]. rewrite app_length. lia.
  - unfold fvals. cbn [fb fl]. apply firstn_app_exact. reflexivity.
Qed.

Lemma shrink_ok f : fwf f -> fwf (shrink f) /\ fvals (shrink f) = fvals f.
Proof.
  intros W. unfold shrink. destruct (fcap f <=? flex_min_cap); [auto|].
  destruct (Z.of_nat (fl f) <=? fcap f / flex_shrink_div); [|auto].
  apply mk_ok. symmetry. apply fvals_length. exact W.
Qed.

Lemma f_append_ok f vs oc : fwf f -> fwf (f_append f vs oc) /\ fvals (f_append f vs oc) = fvals f ++ vs.
Proof.
  intros W. unfold f_append. destruct vs as [|v vs0]; [rewrite app_nil_r; auto|]. set (vs := v :: vs0).
  destruct (Z.leb_spec (Z.of_nat (fl f) + zlen vs) (fcap f)) as [H|H].
  - unfold splice. pose proof (mk_ok (firstn (fl f) (fb f) ++ vs) (skipn (fl f + length vs) (fb f)) (fl f + length vs)) as M.
    rewrite <- app_assoc in M. apply M. rewrite app_length, firstn_length_le by exact W. reflexivity.
  - pose proof (mk_ok (fvals f ++ vs) (zeros (Z.max oc (Z.of_nat (fl f) + zlen vs) - (Z.of_nat (fl f) + zlen vs))) (fl f + length vs)) as M.
    rewrite <- app_assoc in M. apply M. rewrite app_length, fvals_length by exact W. reflexivity.
Qed.

Lemma f_prepend_ok f vs : fwf f -> exists f', f_prepend f vs = Some f' /\ fwf f' /\ fvals f' = vs ++ fvals f.
Proof.
  intros W. unfold f_prepend. unfold zlen, fcap. set (n1 := length vs). set (n2 := fl f).
  destruct (Z.geb_spec (Z.of_nat (length (fb f))) (Z.of_nat n1 + Z.of_nat n2)) as [H|H].
  - destruct (Z.leb_spec (Z.of_nat n1 + Z.of_nat n2) (Z.of_nat (length (fb f)))); [|lia].
    destruct (Z.leb_spec (Z.of_nat n1) (Z.of_nat n1 + Z.of_nat n2)); [|lia].
    destruct (Z.leb_spec (Z.of_nat n2) (Z.of_nat n1 + Z.of_nat n2)); [|lia]. cbn [andb].
    eexists. split; [reflexivity|].
    replace (Nat.min (Z.to_nat (Z.of_nat n1 + Z.of_nat n2 - Z.of_nat n1)) n2) with n2 by lia.
    rewrite (firstn_all2 vs) by (fold n1; lia).
    (* what is behind the first n1 slots after the shift *)
    assert (Sk : skipn n1 (splice (fb f) n1 (firstn n2 (fb f))) = firstn n2 (fb f) ++ skipn (n1 + n2) (fb f)).
    { unfold splice. rewrite firstn_length_le by (unfold fwf in W; fold n2 in W; lia).
      rewrite skipn_app. rewrite firstn_length_le by lia. rewrite Nat.sub_diag. cbn [skipn].
      rewrite skipn_all2 by (rewrite firstn_length; lia). reflexivity. }
    assert (Eb : splice (splice (fb f) n1 (firstn n2 (fb f))) 0 vs = vs ++ firstn n2 (fb f) ++ skipn (n1 + n2) (fb f)).
    { unfold splice at 1. cbn [firstn Nat.add app]. fold n1. rewrite Sk. reflexivity. }
    rewrite Eb. replace (Z.to_nat (Z.of_nat n1 + Z.of_nat n2)) with (n1 + n2)%nat by lia.
    pose proof (mk_ok (vs ++ firstn n2 (fb f)) (skipn (n1 + n2) (fb f)) (n1 + n2)%nat) as M. rewrite <- app_assoc in M.
    unfold fvals at 2. fold n2. apply M.
    rewrite app_length, firstn_length_le by (unfold fwf in W; fold n2 in W; lia). reflexivity.
  - eexists. split; [reflexivity|].
    replace (Z.to_nat (Z.of_nat n1 + Z.of_nat n2)) with (n1 + n2)%nat by lia.
    match goal with |- context [zeros ?k] => generalize (zeros k) end. intros z.
    pose proof (mk_ok (vs ++ fvals f) z (n1 + n2)%nat) as M. rewrite <- app_assoc in M. apply M.
    rewrite app_length, fvals_length by exact W. reflexivity.
Qed.

Lemma f_get_ok f i : fwf f ->
  exists v ok, f_get f i = Some (v, ok) /\
    [v; zb ok] = (if (0 <=? i) && (i <? zlen (fvals f)) then [nth (Z.to_nat i) (fvals f) 0; 1] else [0; 0]).
Proof.
  intros W. unfold f_get, zlen. rewrite (fvals_length f W).
  destruct (Z.geb_spec i 0), (Z.leb_spec 0 i); try lia; cbn [andb].
  - destruct (Z.ltb_spec i (Z.of_nat (fl f))).
    + rewrite (nth_error_some_nth (fvals f) (Z.to_nat i) 0) by (rewrite fvals_length by exact W; lia).
      eexists _, _. split; reflexivity.
    + eexists _, _. split; reflexivity.
  - eexists _, _. split; reflexivity.
Qed.

Lemma f_remove_ok f i : fwf f ->
  exists f' v ok, f_remove f i = Some (f', v, ok) /\ fwf f' /\ (fvals f', v, ok) = spec_remove (fvals f) i.
Proof.
  intros W. pose proof (fvals_length f W) as Hl. unfold f_remove, spec_remove. rewrite Hl.
  destruct (Z.ltb_spec i 0) as [H0|H0]; cbn [orb].
  { destruct (Z.leb_spec 0 i); [lia|]. cbn [andb]. exists f, 0, false. auto. }
  destruct (Z.geb_spec i (Z.of_nat (fl f))) as [H1|H1].
  { destruct (Z.ltb_spec i (Z.of_nat (fl f))); [lia|]. rewrite andb_false_r. exists f, 0, false. auto. }
  destruct (Z.leb_spec 0 i); [|lia]. destruct (Z.ltb_spec i (Z.of_nat (fl f))); [|lia]. cbn [andb].
  set (k := Z.to_nat i). assert (Hk : (k < fl f)%nat) by (unfold k; lia).
  rewrite (nth_error_some_nth (fvals f) k 0) by (rewrite Hl; exact Hk).
  set (last := Nat.pred (fl f)).
  set (b1 := if i <? Z.of_nat (fl f) - 1 then splice (fb f) k (window (fb f) (S k) (fl f - S k)) else fb f).
  assert (L1 : length b1 = length (fb f)).
  { unfold b1. destruct (i <? Z.of_nat (fl f) - 1); [|reflexivity]. apply splice_length.
    rewrite window_length by (unfold fwf in W; lia). unfold fwf in W. lia. }
  destruct (Nat.ltb_spec last (length b1)) as [_|Hx]; [|unfold last, fwf in *; lia].
  destruct (shrink_ok (mkF (upd b1 last 0) last)) as (S1 & S2).
  { unfold fwf. cbn [fb fl]. rewrite upd_length. unfold last, fwf in *. lia. }
  eexists _, _, _. split; [reflexivity|]. split; [exact S1|]. f_equal. f_equal. rewrite S2.
  unfold fvals. cbn [fb fl]. change (firstn last (upd b1 last 0)) with (window (upd b1 last 0) 0 last).
  rewrite window_upd_after by lia.
  change (firstn (fl f) (fb f)) with (window (fb f) 0 (fl f)). rewrite window_firstn by lia. rewrite skipn_window.
  replace last with (k + (last - k))%nat at 1 by (unfold last; lia). rewrite window_app2. unfold b1. cbn [Nat.add].
  destruct (Z.ltb_spec i (Z.of_nat (fl f) - 1)) as [Hlt|Hlt].
  - f_equal.
    + apply splice_window_before; unfold fwf in W; lia.
    + replace (last - k)%nat with (length (window (fb f) (S k) (fl f - S k)))
        by (rewrite window_length by (unfold fwf in W; lia); unfold last; lia).
      apply splice_window. unfold fwf in W. lia.
  - replace (last - k)%nat with 0%nat by (unfold last, k in *; lia).
    replace (fl f - S k)%nat with 0%nat by (unfold last, k in *; lia). rewrite !window_0. reflexivity.
Qed.

Lemma f_subslice_ok f a b : fwf f -> exists f', f_subslice f a b = Some f' /\ fwf f' /\ fvals f' = spec_sub (fvals f) a b.
Proof.
  intros W. pose proof (fvals_length f W) as Hl. unfold f_subslice, sub_bounds, spec_sub. rewrite Hl.
  set (l := Z.of_nat (fl f)).
  assert (Nil : forall x, x = @nil Z -> exists f', Some (shrink (mkF [] 0)) = Some f' /\ fwf f' /\ fvals f' = x).
  { intros x ->. destruct (shrink_ok (mkF [] 0)) as (S1 & S2); [unfold fwf; cbn; lia|]. eexists. split; [reflexivity|]. split; [exact S1|]. rewrite S2. reflexivity. }
  destruct (Z.gtb_spec a l) as [H1|H1].
  - apply Nil. apply window_beyond. rewrite Hl. unfold l in *. lia.
  - set (a' := if a <? 0 then 0 else a).
    assert (Ea : Z.min (Z.max a 0) l = a') by (unfold a'; destruct (Z.ltb_spec a 0); lia).
    rewrite Ea. set (b' := if (b <? 0) || (b >? l) then l else b).
    assert (Hb : 0 <= b' <= l) by (unfold b'; destruct (Z.ltb_spec b 0), (Z.gtb_spec b l); cbn [orb]; unfold l; lia).
    assert (Ha : 0 <= a' <= l) by (unfold a'; destruct (Z.ltb_spec a 0); unfold l; lia).
    destruct (Z.geb_spec a' b') as [H2|H2].
    + apply Nil. replace (Z.to_nat (b' - a')) with 0%nat by lia. reflexivity.
    + unfold fcap. destruct (Z.leb_spec 0 a'); [|lia]. destruct (Z.leb_spec a' b'); [|lia].
      destruct (Z.leb_spec b' (Z.of_nat (length (fb f)))); [|unfold fwf, l in *; lia]. cbn [andb].
      destruct (shrink_ok (mkF (skipn (Z.to_nat a') (fb f)) (Z.to_nat (b' - a')))) as (S1 & S2).
      { unfold fwf. cbn [fb fl]. rewrite skipn_length. unfold fwf, l in *. lia. }
      eexists. split; [reflexivity|]. split; [exact S1|]. rewrite S2. unfold fvals. cbn [fb fl].
      change (firstn (Z.to_nat (b' - a')) (skipn (Z.to_nat a') (fb f))) with (window (fb f) (Z.to_nat a') (Z.to_nat (b' - a'))).
      change (firstn (fl f) (fb f)) with (window (fb f) 0 (fl f)). symmetry.
      rewrite window_window by (unfold l in *; lia). reflexivity.
Qed.

(* one operation: no panic, invariant kept, results and contents as the sequence specification says *)
Theorem f_step_refines f o : fwf f ->
  exists f' res, f_step f o = Some (f', res) /\ fwf f' /\ (fvals f', res) = s_step (fvals f) o.
Proof.
  intros W. destruct o as [vs oc|vs|i|i|a b| | |]; cbn [f_step s_step].
  - destruct (f_append_ok f vs oc W) as (A & B). eexists _, _. split; [reflexivity|]. split; [exact A|]. rewrite B. reflexivity.
  - destruct (f_prepend_ok f vs W) as (f' & E & A & B). rewrite E. eexists _, _. split; [reflexivity|]. split; [exact A|]. rewrite B. reflexivity.
  - destruct (f_get_ok f i W) as (v & ok & E & R). rewrite E. eexists _, _. split; [reflexivity|]. split; [exact W|]. rewrite R. reflexivity.
  - destruct (f_remove_ok f i W) as (f' & v & ok & E & A & B). rewrite E. rewrite <- B. eexists _, _. split; [reflexivity|]. split; [exact A|reflexivity].
  - destruct (f_subslice_ok f a b W) as (f' & E & A & B). rewrite E. eexists _, _. split; [reflexivity|]. split; [exact A|]. rewrite B. reflexivity.
  - destruct (f_remove_ok f (Z.of_nat (fl f) - 1) W) as (f' & v & ok & E & A & B). rewrite E.
    unfold zlen. rewrite (fvals_length f W). rewrite <- B. eexists _, _. split; [reflexivity|]. split; [exact A|reflexivity].
  - destruct (f_remove_ok f 0 W) as (f' & v & ok & E & A & B). rewrite E. rewrite <- B. eexists _, _. split; [reflexivity|]. split; [exact A|reflexivity].
  - eexists _, _. split; [reflexivity|]. split; [exact W|]. unfold zlen. rewrite (fvals_length f W). reflexivity.
Qed.

(* every operation sequence, every capacity oracle *)
Theorem flex_refines_seq : forall ops f, fwf f ->
  exists g, f_run f ops = Some g /\
    map (fun o => (ob_res o, ob_vals o)) g = s_run (fvals f) ops /\
    Forall (fun o => zlen (ob_vals o) <= ob_cap o) g.
Proof.
  induction ops as [|o ops IH]; intros f W; cbn [f_run s_run].
  - exists []. repeat split; constructor.
  - destruct (f_step_refines f o W) as (f' & res & E & W' & R). rewrite E. rewrite <- R.
    destruct (IH f' W') as (g & Eg & Mg & Cg). rewrite Eg. eexists. split; [reflexivity|]. split.
    + cbn [map obs_of ob_res ob_vals]. rewrite Mg. reflexivity.
    + constructor; [|exact Cg]. cbn [obs_of ob_vals ob_cap]. unfold zlen, fcap. rewrite (fvals_length f' W'). unfold fwf in W'. lia.
Qed.

Theorem flex_judge_model ops f : fwf f -> flex_judge f ops (f_run f ops) = true.
Proof.
  intros W. destruct (flex_refines_seq ops f W) as (g & E & M & C). rewrite E. unfold flex_judge.
  revert M C. generalize (s_run (fvals f) ops). clear E. induction g as [|o g IH]; intros e M C.
  - destruct e; [reflexivity|discriminate].
  - destruct e as [|[res l] e]; [discriminate|]. cbn [map] in M. injection M as M1 M2 M3. inversion C as [|? ? C1 C2]; subst.
    cbn [obs_ok]. rewrite !eqb_list_refl. cbn [andb]. destruct (Z.leb_spec (zlen (ob_vals o)) (ob_cap o)); [|lia]. cbn [andb].
    apply IH; auto.
Qed.

(* the hypotheses are satisfiable: the zero value and any slice with len <= cap *)
Example fwf_zero : fwf (mkF [] 0).
Proof. unfold fwf. cbn. lia. Qed.
