(* C04 — build (adjustment.go:13-18 / std Init) establishes the heap order and permutes its input
   (from design-notes/proto/HeapBuild_proto.v). *)
From Coq Require Import List Arith Lia Bool Permutation.
From V Require Import Model.Heap Proofs.HeapSift.
Import ListNotations.

Section Build.
Variable A : Type.
Variable d : A.
Variable lt : A -> A -> bool.
Local Notation le := (Heap.le A lt).
Local Notation swap := (Heap.swap A d).
Local Notation down_go := (Heap.down_go A d lt).
Local Notation ok := (Heap.ok A d lt).
Local Notation heap_ok := (Heap.heap_ok A d lt).
Local Notation heap_from := (Heap.heap_from A d lt).
Local Notation build_from := (Heap.build_from A d lt).
Local Notation build := (Heap.build A d lt).
Hypothesis le_trans : forall a b c, le a b -> le b c -> le a c.
Hypothesis lt_asym : forall a b, lt a b = true -> lt b a = false.

(* down_heap of HeapSift_proto, restricted to parents >= lo: a sift starting at i >= lo never looks above lo *)
Lemma down_heap_from n lo : forall fuel s i, n <= length s -> n <= i + fuel -> lo <= i ->
  (forall p c, lo <= p -> c < n -> is_child p c -> p <> i -> ok s p c) ->
  (forall g c, lo <= g -> is_child g i -> c < n -> is_child i c -> ok s g c) ->
  heap_from (fst (down_go fuel s i n)) lo n.
Proof.
  induction fuel as [|f IH]; intros s i Hlen Hf Hlo Hpre Hbr.
  - cbn [Heap.down_go fst]. intros p c Hp Hc Hpc. apply Hpre; auto. unfold is_child in Hpc. lia.
  - cbn [Heap.down_go]. destruct (Nat.leb_spec n (2 * i + 1)) as [Hn|Hn].
    + cbn [fst]. intros p c Hp Hc Hpc. apply Hpre; auto. unfold is_child in Hpc. lia.
    + destruct (choice_ok A d lt lt_asym s i n Hn) as (Hij & Hjn & Hjk). cbv zeta in Hij, Hjn, Hjk.
      set (j := if (2 * i + 1 + 1 <? n) && lt (nth (2 * i + 1 + 1) s d) (nth (2 * i + 1) s d) then 2 * i + 1 + 1 else 2 * i + 1) in *.
      assert (Hi_lt : i < length s) by (unfold is_child in Hij; lia).
      assert (Hj_lt : j < length s) by lia.
      destruct (lt (nth j s d) (nth i s d)) eqn:E.
      * apply IH; auto.
        -- rewrite swap_length; auto.
        -- unfold is_child in Hij. lia.
        -- unfold is_child in Hij. lia.
        -- intros p c Hp Hc Hpc Hpj. unfold Heap.ok. rewrite !nth_swap by auto.
           destruct (Nat.eqb_spec p j) as [-> | _]; [congruence|].
           destruct (Nat.eqb_spec p i) as [-> | Hpi].
           ++ destruct (Nat.eqb_spec c j) as [-> | Hcj].
              ** apply le_of_lt; auto.
              ** destruct (Nat.eqb_spec c i) as [-> | _]; [unfold is_child in Hpc; lia|]. apply Hjk; auto.
           ++ destruct (Nat.eqb_spec c j) as [-> | Hcj].
              ** exfalso. unfold is_child in *. lia.
              ** destruct (Nat.eqb_spec c i) as [-> | _].
                 --- apply (Hbr p j); auto.
                 --- apply Hpre; auto.
        -- intros g c Hg Hgj Hc Hjc. assert (g = i) by (unfold is_child in *; lia). subst g.
           unfold Heap.ok. rewrite !nth_swap by auto. rewrite Nat.eqb_refl.
           destruct (Nat.eqb_spec i j) as [Eij|_]; [unfold is_child in Hij; lia|].
           destruct (Nat.eqb_spec c j) as [-> | _]; [unfold is_child in Hjc; lia|].
           destruct (Nat.eqb_spec c i) as [-> | _]; [unfold is_child in *; lia|].
           apply Hpre; auto; unfold is_child in Hij; lia.
      * cbn [fst]. intros p c Hp Hc Hpc. destruct (Nat.eq_dec p i) as [-> | Hpi]; [|apply Hpre; auto].
        apply (le_trans _ (nth j s d)); [exact E|apply Hjk; auto].
Qed.

Lemma down_go_length : forall fuel s i n, i < length s -> n <= length s -> length (fst (down_go fuel s i n)) = length s.
Proof.
  induction fuel as [|f IH]; intros s i n Hi Hn; cbn [Heap.down_go]; [reflexivity|].
  destruct (Nat.leb_spec n (2 * i + 1)); [reflexivity|].
  set (j := if (2 * i + 1 + 1 <? n) && lt (nth (2 * i + 1 + 1) s d) (nth (2 * i + 1) s d) then 2 * i + 1 + 1 else 2 * i + 1).
  assert (Hj : j < n) by (unfold j; destruct (Nat.ltb_spec (2 * i + 1 + 1) n); cbn [andb]; [destruct (lt _ _)|]; lia).
  destruct (lt (nth j s d) (nth i s d)); [|reflexivity]. rewrite IH; rewrite ?swap_length; auto; lia.
Qed.
Lemma down_go_perm : forall fuel s i n, i < length s -> n <= length s -> Permutation (fst (down_go fuel s i n)) s.
Proof.
  induction fuel as [|f IH]; intros s i n Hi Hn; cbn [Heap.down_go]; [reflexivity|].
  destruct (Nat.leb_spec n (2 * i + 1)); [reflexivity|].
  set (j := if (2 * i + 1 + 1 <? n) && lt (nth (2 * i + 1 + 1) s d) (nth (2 * i + 1) s d) then 2 * i + 1 + 1 else 2 * i + 1).
  assert (Hj : j < n) by (unfold j; destruct (Nat.ltb_spec (2 * i + 1 + 1) n); cbn [andb]; [destruct (lt _ _)|]; lia).
  destruct (lt (nth j s d) (nth i s d)); [|reflexivity].
  etransitivity; [apply IH; rewrite ?swap_length; lia|]. apply upd_nth_perm_swap; lia.
Qed.

Lemma build_from_spec : forall k s, k <= length s -> heap_from s k (length s) ->
  heap_from (build_from k s) 0 (length s) /\ length (build_from k s) = length s /\ Permutation (build_from k s) s.
Proof.
  induction k as [|i IH]; intros s Hk Hh; cbn [Heap.build_from]; [auto|].
  set (s' := fst (down_go (length s) s i (length s))).
  assert (Hl : length s' = length s) by (apply down_go_length; lia).
  assert (Hp : Permutation s' s) by (apply down_go_perm; lia).
  assert (Hh' : heap_from s' i (length s)).
  { apply down_heap_from; try lia.
    - intros p c Hp0 Hc Hpc Hne. apply Hh; auto; lia.
    - intros g c Hg Hgi. unfold is_child in Hgi. lia. }
  destruct (IH s' ltac:(lia) ltac:(rewrite Hl; exact Hh')) as (I1 & I2 & I3).
  rewrite Hl in I1. split; [exact I1|]. split; [lia|]. etransitivity; eauto.
Qed.

Theorem build_heap s : heap_ok (build s) (length s) /\ length (build s) = length s /\ Permutation (build s) s.
Proof.
  destruct (build_from_spec (length s / 2) s) as (H1 & H2 & H3).
  - apply Nat.div_le_upper_bound; lia.
  - intros p c Hp Hc Hpc. exfalso.
    assert (length s < 2 * (length s / 2) + 2).
    { pose proof (Nat.div_mod (length s) 2 ltac:(lia)). pose proof (Nat.mod_upper_bound (length s) 2 ltac:(lia)). lia. }
    unfold is_child in Hpc. lia.
  - split; auto. intros p c Hc Hpc. apply H1; auto. lia.
Qed.

End Build.
