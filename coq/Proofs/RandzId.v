(* C20, part 2: IdGenerator — bit layout of an id, monotonicity, and the judge used by the check. *)
From Coq Require Import List ZArith Lia Bool.
From V Require Import Lib.Enc Gen.Randz Model.Randz.
Import ListNotations.
Local Open Scope Z_scope.
Arguments Z.mul : simpl never.
Arguments Z.add : simpl never.
Arguments Z.sub : simpl never.
Arguments Z.div : simpl never.
Arguments Z.modulo : simpl never.
Arguments Z.pow : simpl never.

Definition M41 : Z := 2 ^ 41.

(* the constants found in NewIdGenerator *)
Lemma clamp_range rb : 2 <= clamp_bits rb <= 22.
Proof.
  unfold clamp_bits, g_rb_lo, g_rb_default, g_rb_hi, g_rb_hiset.
  destruct (Z.leb_spec rb 1); [lia|]. destruct (Z.ltb_spec 22 rb); lia.
Qed.
Lemma clamp_id rb : 2 <= rb <= 22 -> clamp_bits rb = rb.
Proof.
  unfold clamp_bits, g_rb_lo, g_rb_default, g_rb_hi, g_rb_hiset. intros H.
  destruct (Z.leb_spec rb 1); [lia|]. destruct (Z.ltb_spec 22 rb); lia.
Qed.
Lemma time_mask_ones : g_time_mask = Z.ones 41.
Proof. reflexivity. Qed.

Lemma land_shift_small a b r : 0 <= b -> 0 <= r < 2 ^ b -> Z.land (a * 2 ^ b) r = 0.
Proof.
  intros Hb Hr. rewrite <- Z.shiftl_mul_pow2 by lia. apply Z.bits_inj'. intros n Hn.
  rewrite Z.land_spec, Z.bits_0. destruct (Z.lt_ge_cases n b).
  - rewrite Z.shiftl_spec_low by lia. reflexivity.
  - rewrite <- (Z.mod_small r (2 ^ b)) by lia. rewrite Z.mod_pow2_bits_high by lia. apply andb_false_r.
Qed.
Lemma lor_is_add a b r : 0 <= b -> 0 <= r < 2 ^ b -> Z.lor (a * 2 ^ b) r = a * 2 ^ b + r.
Proof.
  intros Hb Hr. pose proof (land_shift_small a b r Hb Hr) as L.
  rewrite (Z.add_nocarry_lxor _ _ L). symmetry. apply Z.lxor_lor. exact L.
Qed.

(* (ms & mask) << bits | rnd, read arithmetically *)
Lemma id_of_arith ms rnd rb : 0 <= rnd < 2 ^ clamp_bits rb ->
  id_of ms rnd rb = (ms mod M41) * 2 ^ clamp_bits rb + rnd.
Proof.
  intros Hr. pose proof (clamp_range rb). unfold id_of. rewrite time_mask_ones, Z.land_ones by lia.
  rewrite Z.shiftl_mul_pow2 by lia. apply lor_is_add; lia.
Qed.

Theorem id_layout ms rnd rb : 0 <= rnd < 2 ^ clamp_bits rb ->
  0 <= id_of ms rnd rb < 2 ^ 63 /\
  id_of ms rnd rb / 2 ^ clamp_bits rb = ms mod 2 ^ 41 /\
  id_of ms rnd rb mod 2 ^ clamp_bits rb = rnd.
Proof.
  intros Hr. rewrite id_of_arith by exact Hr. pose proof (clamp_range rb) as Hc. unfold M41.
  set (b := clamp_bits rb) in *. set (t := ms mod 2 ^ 41).
  assert (Ht : 0 <= t < 2 ^ 41) by (apply Z.mod_pos_bound; apply Z.pow_pos_nonneg; lia).
  assert (Hb : 0 < 2 ^ b) by (apply Z.pow_pos_nonneg; lia).
  assert (Hb22 : 2 ^ b <= 2 ^ 22) by (apply Z.pow_le_mono_r; lia).
  assert (H63 : 2 ^ 41 * 2 ^ 22 = 2 ^ 63) by reflexivity.
  split; [|split].
  - split; [nia|]. assert (t * 2 ^ b + rnd < (t + 1) * 2 ^ b) by nia. assert ((t + 1) * 2 ^ b <= 2 ^ 41 * 2 ^ 22) by nia. lia.
  - rewrite Z.div_add_l by lia. rewrite Z.div_small by lia. lia.
  - rewrite Z.add_comm, Z.mod_add by lia. apply Z.mod_small. lia.
Qed.

(* ids taken at least a millisecond apart inside one 2^41-ms epoch are increasing, whatever the random parts *)
Theorem id_monotone ms1 ms2 r1 r2 rb : ms1 < ms2 -> ms1 / 2 ^ 41 = ms2 / 2 ^ 41 ->
  0 <= r1 < 2 ^ clamp_bits rb -> 0 <= r2 < 2 ^ clamp_bits rb -> id_of ms1 r1 rb < id_of ms2 r2 rb.
Proof.
  intros H1 H2 Hr1 Hr2. rewrite !id_of_arith by assumption. unfold M41.
  pose proof (clamp_range rb). assert (0 < 2 ^ clamp_bits rb) by (apply Z.pow_pos_nonneg; lia).
  assert (ms1 mod 2 ^ 41 < ms2 mod 2 ^ 41).
  { rewrite !Z.mod_eq by (vm_compute; discriminate). rewrite H2. lia. }
  nia.
Qed.
Corollary id_monotone_epoch0 ms1 ms2 r1 r2 rb : 0 <= ms1 < ms2 -> ms2 < 2 ^ 41 ->
  0 <= r1 < 2 ^ clamp_bits rb -> 0 <= r2 < 2 ^ clamp_bits rb -> id_of ms1 r1 rb < id_of ms2 r2 rb.
Proof. intros H1 H2. apply id_monotone; [lia|]. rewrite !Z.div_small by lia. reflexivity. Qed.

(* the judge accepts exactly the ids the model can produce for an elapsed time inside the window *)
Theorem id_ok_iff rb id e0 e1 :
  id_ok rb id e0 e1 = true <->
  exists ms rnd, e0 <= ms <= e1 /\ 0 <= rnd < 2 ^ clamp_bits rb /\ id = id_of ms rnd rb.
Proof.
  pose proof (clamp_range rb) as Hc. unfold id_ok. set (b := clamp_bits rb) in *.
  assert (Hb : 0 < 2 ^ b) by (apply Z.pow_pos_nonneg; lia).
  assert (HM : 0 < 2 ^ 41) by (vm_compute; reflexivity).
  split.
  - intros H. apply andb_prop in H. destruct H as [H H4]. apply andb_prop in H. destruct H as [H H3].
    apply andb_prop in H. destruct H as [H1 H2].
    apply Z.leb_le in H1, H4. apply Z.ltb_lt in H2, H3.
    set (t := id / 2 ^ b) in *. assert (Ht : 0 <= t) by (apply Z.div_pos; lia).
    exists (e0 + (t - e0) mod 2 ^ 41), (id mod 2 ^ b).
    pose proof (Z.mod_pos_bound (t - e0) (2 ^ 41) HM). pose proof (Z.mod_pos_bound id (2 ^ b) Hb).
    split; [lia|]. split; [lia|]. fold b. rewrite id_of_arith by (fold b; lia). fold b. unfold M41.
    rewrite Z.add_mod_idemp_r by lia. replace (e0 + (t - e0)) with t by lia. rewrite Z.mod_small by lia.
    unfold t. rewrite (Z.div_mod id (2 ^ b)) at 1 by lia. lia.
  - intros (ms & rnd & Hms & Hr & ->). destruct (id_layout ms rnd rb Hr) as (L1 & L2 & L3). fold b in L2, L3.
    rewrite L2. pose proof (Z.mod_pos_bound ms (2 ^ 41) HM).
    apply andb_true_intro. split; [apply andb_true_intro; split; [apply andb_true_intro; split|]|].
    + apply Z.leb_le. lia.
    + apply Z.ltb_lt. lia.
    + apply Z.ltb_lt. lia.
    + apply Z.leb_le. rewrite Zminus_mod_idemp_l.
      assert ((ms - e0) mod 2 ^ 41 <= ms - e0) by (apply Z.mod_le; lia). lia.
Qed.

(* a whole observed run produced by the model passes the judge (per-id layout + increase across disjoint windows) *)
Definition produced (rb : Z) (o : Z * Z * Z) : Prop :=
  let '(id, e0, e1) := o in exists ms rnd, e0 <= ms <= e1 /\ 0 <= rnd < 2 ^ clamp_bits rb /\ id = id_of ms rnd rb.
Lemma ids_increasing_cons id1 e0a e1a id2 e0b e1b t :
  ids_increasing ((id1, e0a, e1a) :: (id2, e0b, e1b) :: t) =
  (if (e1a <? e0b) && (e0a / 2 ^ 41 =? e1b / 2 ^ 41) then id1 <? id2 else true) && ids_increasing ((id2, e0b, e1b) :: t).
Proof. reflexivity. Qed.
Theorem ids_judge_complete rb obs : Forall (produced rb) obs -> ids_ok rb obs = true.
Proof.
  intros H. unfold ids_ok. apply andb_true_intro. split.
  - apply forallb_forall. intros [[id e0] e1] Hin. rewrite Forall_forall in H. specialize (H _ Hin). apply id_ok_iff. exact H.
  - induction obs as [|[[id1 e0a] e1a] t IH]; [reflexivity|].
    inversion H as [|? ? Ha Ht]; subst. destruct t as [|[[id2 e0b] e1b] t']; [reflexivity|].
    rewrite ids_increasing_cons. rewrite (IH Ht), andb_true_r.
    destruct (Z.ltb_spec e1a e0b) as [Hlt|]; [|reflexivity]. cbn [andb].
    destruct (Z.eqb_spec (e0a / 2 ^ 41) (e1b / 2 ^ 41)) as [He|]; [|reflexivity].
    inversion Ht as [|? ? Hb' _]; subst.
    destruct Ha as (ms1 & r1 & Hm1 & Hr1 & ->). destruct Hb' as (ms2 & r2 & Hm2 & Hr2 & ->).
    apply Z.ltb_lt. apply id_monotone; try assumption; [lia|].
    assert (HM : 0 < 2 ^ 41) by (vm_compute; reflexivity).
    pose proof (Z.div_le_mono e0a ms1 (2 ^ 41) HM ltac:(lia)). pose proof (Z.div_le_mono ms1 ms2 (2 ^ 41) HM ltac:(lia)).
    pose proof (Z.div_le_mono ms2 e1b (2 ^ 41) HM ltac:(lia)). lia.
Qed.
