(* Facts about the struct-element slice primitives of Lib/GoSemRec.v that equality proofs between generated code and
   hand models need (the list-of-Z counterparts are in Proofs/GoSemFacts.v). *)
From Coq Require Import List ZArith Lia Bool Arith.
From V Require Import Lib.GoSem Lib.GoSemRec.
Import ListNotations.
Local Open Scope Z_scope.

Lemma updA_length {A} (l : list A) i x : length (updA l i x) = length l.
Proof. revert i; induction l as [|h t IH]; intros [|i]; cbn [updA length]; try reflexivity. now rewrite IH. Qed.

Lemma nth_error_updA_eq {A} (l : list A) i x : (i < length l)%nat -> nth_error (updA l i x) i = Some x.
Proof. revert i; induction l as [|h t IH]; intros [|i] H; cbn [length] in H; cbn [updA nth_error]; try lia; try reflexivity. apply IH; lia. Qed.

Lemma nth_error_updA_ne {A} (l : list A) i j x : i <> j -> nth_error (updA l i x) j = nth_error l j.
Proof. revert i j; induction l as [|h t IH]; intros [|i] [|j] H; cbn [updA nth_error]; try reflexivity; try congruence. apply IH; congruence. Qed.

Lemma updA_updA {A} (l : list A) i x y : updA (updA l i x) i y = updA l i y.
Proof. revert i; induction l as [|h t IH]; intros [|i]; cbn [updA]; try reflexivity. now rewrite IH. Qed.

Lemma map_updA {A B} (f : A -> B) (l : list A) i x : map f (updA l i x) = updA (map f l) i (f x).
Proof. revert i; induction l as [|h t IH]; intros [|i]; cbn [updA map]; try reflexivity. now rewrite IH. Qed.

Lemma nth_error_lt {A} (l : list A) i e : nth_error l i = Some e -> (i < length l)%nat.
Proof. intros H. apply nth_error_Some. congruence. Qed.

Lemma nth_error_ge {A} (l : list A) i : nth_error l i = None -> (length l <= i)%nat.
Proof. apply nth_error_None. Qed.

(* updating the i-th element of  pre ++ e :: suf  when |pre| = i *)
Lemma updA_app {A} (pre suf : list A) e x : updA (pre ++ e :: suf) (length pre) x = pre ++ x :: suf.
Proof. induction pre as [|h t IH]; cbn [app length updA]; [reflexivity|]. now rewrite IH. Qed.

Lemma nth_error_app_mid {A} (pre suf : list A) e : nth_error (pre ++ e :: suf) (length pre) = Some e.
Proof. induction pre as [|h t IH]; cbn [app length nth_error]; [reflexivity|exact IH]. Qed.

(* reading / writing the element behind a prefix of known length *)
Lemma m_getA_mid {A} (pre suf : list A) e i : i = Z.of_nat (length pre) -> m_getA (pre ++ e :: suf) i = Ret e.
Proof.
  intros ->. unfold m_getA, get_atA. destruct (Z.leb_spec 0 (Z.of_nat (length pre))); [|lia].
  rewrite Nat2Z.id, nth_error_app_mid. reflexivity.
Qed.
Lemma m_setA_mid {A} (pre suf : list A) e x i : i = Z.of_nat (length pre) -> m_setA (pre ++ e :: suf) i x = Ret (pre ++ x :: suf).
Proof.
  intros ->. unfold m_setA, set_atA. destruct (Z.leb_spec 0 (Z.of_nat (length pre))); [|lia].
  destruct (Z.ltb_spec (Z.of_nat (length pre)) (Z.of_nat (length (pre ++ e :: suf)))) as [_|Hlen];
    [|rewrite app_length in Hlen; cbn [length] in Hlen; lia].
  cbn [andb lift]. rewrite Nat2Z.id, updA_app. reflexivity.
Qed.

(* a counting loop described by its trajectory st 0, st 1, ..., st n: with enough fuel it ends in st n, otherwise it
   runs out of fuel; the hypotheses are about the loop's condition / body / post statement as functions, whatever their
   syntactic form *)
Lemma while_count {S R} (c : S -> M bool) (b : S -> M (ctl S R)) (p : S -> M S) (st : nat -> S) (n : nat) (s0 : S) :
  st 0%nat = s0 ->
  (forall k, (k < n)%nat -> c (st k) = Ret true /\ exists s1, b (st k) = Ret (Next s1) /\ p s1 = Ret (st (Datatypes.S k))) ->
  c (st n) = Ret false ->
  forall fuel, while fuel c b p s0 = if (n <? fuel)%nat then Ret (inl (st n)) else NoFuel.
Proof.
  intros <- Hstep Hend.
  assert (G : forall fuel k, (k <= n)%nat -> while fuel c b p (st k) = if (n - k <? fuel)%nat then Ret (inl (st n)) else NoFuel).
  { induction fuel as [|f IH]; intros k Hk.
    - destruct (Nat.ltb_spec (n - k) 0); [lia|reflexivity].
    - cbn [while]. destruct (Nat.eq_dec k n) as [->|Hne].
      + rewrite Hend. cbn [bind]. rewrite Nat.sub_diag. reflexivity.
      + destruct (Hstep k ltac:(lia)) as (Hc & s1 & Hb & Hp). rewrite Hc. cbn [bind]. rewrite Hb. cbn [bind]. rewrite Hp. cbn [bind].
        rewrite IH by lia.
        destruct (Nat.ltb_spec (n - Datatypes.S k) f), (Nat.ltb_spec (n - k) (Datatypes.S f)); try reflexivity; lia. }
  intros fuel. rewrite (G fuel 0%nat) by lia. rewrite Nat.sub_0_r. reflexivity.
Qed.
