(* C07, generated code = hand model: Utf16Parse. *)
From Coq Require Import List ZArith Lia Bool Arith.
From V Require Import Lib.Enc Lib.GoSem Lib.GoSemStd Proofs.GoSemFacts Gen.Codec Gen.CodecCode Model.Codec Proofs.CodecBase Proofs.CodecFormat Proofs.CodecCodeBase Proofs.CodecCodeParseBase.
Import ListNotations.
Local Open Scope Z_scope.
Arguments Z.mul : simpl never.
Arguments Z.add : simpl never.
Arguments Z.sub : simpl never.
Arguments Z.div : simpl never.
Arguments Z.modulo : simpl never.
Arguments Z.pow : simpl never.
Arguments Z.quot : simpl never.
Arguments Z.rem : simpl never.
Arguments Z.of_nat : simpl never.
Arguments Z.to_nat : simpl never.
Ltac Zify.zify_post_hook ::= idtac.
(* ================================================================== Utf16Parse (enc.go) *)
(* one iteration of the model's loop: it moves on, or leaves the loop (the `break` behind a high surrogate at the end) *)
Inductive ures : Type := UNext (i f : nat) (out : list Z) | UBreak (i f : nat) (out : list Z).
Definition ustep (dl : nat) (src : list Z) (i f : nat) (out : list Z) : option ures :=
  let n := length src in
  match is_u src i with
  | None => None
  | Some false => Some (UNext (S i) f out)
  | Some true =>
      match Codec.slice src (i + 2) (i + 6) with
      | None => None
      | Some ds =>
          let '(n1, j, ok) := pu 16 (maxval 16) 0 0%nat ds in
          if negb ok then Some (UNext (i + 2 + j) f out)
          else match flush dl src f i out with
               | None => None
               | Some out1 =>
                   let f1 := if (f <? i)%nat then i else f in
                   if (n1 <? u16_surr1) || (u16_surr3 <=? n1) then
                     match write dl out1 (Utf8.encode_rune n1) with
                     | None => None
                     | Some out2 => Some (UNext (i + 6) (i + 6) out2)
                     end
                   else if (u16_surr1 <=? n1) && (n1 <? u16_surr2) then
                     let i2 := (i + 6)%nat in
                     if (n - i2 <? 6)%nat then Some (UBreak i2 f1 out1)
                     else match is_u src i2 with
                          | None => None
                          | Some false => Some (UNext (S i2) f1 out1)
                          | Some true =>
                              match Codec.slice src (i2 + 2) (i2 + 6) with
                              | None => None
                              | Some ds2 =>
                                  let '(n2, j2, ok2) := pu 16 (maxval 16) 0 0%nat ds2 in
                                  if negb ok2 then Some (UNext (i2 + 2 + j2) f1 out1)
                                  else if (u16_surr2 <=? n2) && (n2 <? u16_surr3) then
                                         match write dl out1 (Utf8.encode_rune (utf16_decode n1 n2)) with
                                         | None => None
                                         | Some out2 => Some (UNext (i2 + 6) (i2 + 6) out2)
                                         end
                                       else Some (UNext (i2 + 6) f1 out1)
                              end
                          end
                   else Some (UNext (i + 6) f1 out1)
               end
      end
  end.
Lemma uparse_S dl fu src i f out :
  uparse dl (S fu) src i f out =
  if (length src <=? i)%nat || (length src - i <? 6)%nat then finish dl src f out
  else match ustep dl src i f out with
       | None => None
       | Some (UNext i' f' out') => uparse dl fu src i' f' out'
       | Some (UBreak i' f' out') => finish dl src f' out'
       end.
Proof.
  cbn [uparse]. cbv zeta. destruct (length src <=? i)%nat; cbn [orb]; [reflexivity|]. destruct (length src - i <? 6)%nat; [reflexivity|].
  unfold ustep. destruct (is_u src i) as [[|]|]; try reflexivity.
  destruct (Codec.slice src (i + 2) (i + 6)) as [ds|]; [|reflexivity].
  destruct (pu 16 (maxval 16) 0 0%nat ds) as [[n1 j] ok]. destruct ok; cbn [negb]; [|reflexivity].
  destruct (flush dl src f i out) as [out1|]; [|reflexivity]. cbv zeta.
  destruct ((n1 <? u16_surr1) || (u16_surr3 <=? n1)).
  { destruct (write dl out1 (Utf8.encode_rune n1)); reflexivity. }
  destruct ((u16_surr1 <=? n1) && (n1 <? u16_surr2)); [|reflexivity].
  destruct (length src - (i + 6) <? 6)%nat; [reflexivity|].
  destruct (is_u src (i + 6)) as [[|]|]; try reflexivity.
  destruct (Codec.slice src (i + 6 + 2) (i + 6 + 6)) as [ds2|]; [|reflexivity].
  destruct (pu 16 (maxval 16) 0 0%nat ds2) as [[n2 j2] ok2]. destruct ok2; cbn [negb]; [|reflexivity].
  destruct ((u16_surr2 <=? n2) && (n2 <? u16_surr3)); [|reflexivity].
  destruct (write dl out1 (Utf8.encode_rune (utf16_decode n1 n2))); reflexivity.
Qed.
Lemma flush_len dl src f i out out1 : (length out <= dl)%nat -> flush dl src f i out = Some out1 -> (length out1 <= dl)%nat.
Proof.
  intros Ho H. unfold flush in H. destruct (f <? i)%nat; [|injection H as <-; exact Ho].
  destruct (Codec.slice src f i) as [lit|]; [|discriminate]. unfold copy_into in H.
  destruct (length out <=? dl)%nat; [|discriminate]. injection H as <-. rewrite app_length, firstn_length. lia.
Qed.
Lemma write_len dl out bs out2 : write dl out bs = Some out2 -> (length out2 <= dl)%nat.
Proof.
  intros H. unfold write in H. destruct (Nat.leb_spec (length out + length bs) dl); [|discriminate]. injection H as <-. rewrite app_length. lia.
Qed.
Lemma ustep_inv dl src i f out r : (length out <= dl)%nat -> ustep dl src i f out = Some r ->
  match r with UNext i' _ out' => (i < i')%nat /\ (length out' <= dl)%nat | UBreak _ _ out' => (length out' <= dl)%nat end.
Proof.
  intros Ho H. unfold ustep in H. cbv zeta in H. destruct (is_u src i) as [[|]|]; try discriminate.
  2:{ injection H as <-. split; [lia|exact Ho]. }
  destruct (Codec.slice src (i + 2) (i + 6)) as [ds|]; [|discriminate].
  destruct (pu 16 (maxval 16) 0 0%nat ds) as [[n1 j] ok]. destruct ok; cbn [negb] in H.
  2:{ injection H as <-. split; [lia|exact Ho]. }
  destruct (flush dl src f i out) as [out1|] eqn:Ef; [|discriminate]. pose proof (flush_len _ _ _ _ _ _ Ho Ef) as Ho1.
  destruct ((n1 <? u16_surr1) || (u16_surr3 <=? n1)).
  { destruct (write dl out1 (Utf8.encode_rune n1)) as [out2|] eqn:Ew; [|discriminate]. injection H as <-. split; [lia|eapply write_len, Ew]. }
  destruct ((u16_surr1 <=? n1) && (n1 <? u16_surr2)).
  2:{ injection H as <-. split; [lia|exact Ho1]. }
  destruct (length src - (i + 6) <? 6)%nat; [injection H as <-; exact Ho1|].
  destruct (is_u src (i + 6)) as [[|]|]; try discriminate.
  2:{ injection H as <-. split; [lia|exact Ho1]. }
  destruct (Codec.slice src (i + 6 + 2) (i + 6 + 6)) as [ds2|]; [|discriminate].
  destruct (pu 16 (maxval 16) 0 0%nat ds2) as [[n2 j2] ok2]. destruct ok2; cbn [negb] in H.
  2:{ injection H as <-. split; [lia|exact Ho1]. }
  destruct ((u16_surr2 <=? n2) && (n2 <? u16_surr3)).
  2:{ injection H as <-. split; [lia|exact Ho1]. }
  destruct (write dl out1 (Utf8.encode_rune (utf16_decode n1 n2))) as [out2|] eqn:Ew; [|discriminate]. injection H as <-. split; [lia|eapply write_len, Ew].
Qed.
Lemma ustep_adv dl src i f out i' f' out' : ustep dl src i f out = Some (UNext i' f' out') -> (i < i')%nat.
Proof.
  intros H. unfold ustep in H. cbv zeta in H. destruct (is_u src i) as [[|]|]; try discriminate.
  2:{ injection H as <- _ _. lia. }
  destruct (Codec.slice src (i + 2) (i + 6)) as [ds|]; [|discriminate].
  destruct (pu 16 (maxval 16) 0 0%nat ds) as [[n1 j] ok]. destruct ok; cbn [negb] in H.
  2:{ injection H as <- _ _. lia. }
  destruct (flush dl src f i out) as [out1|]; [|discriminate].
  destruct ((n1 <? u16_surr1) || (u16_surr3 <=? n1)).
  { destruct (write dl out1 (Utf8.encode_rune n1)) as [out2|]; [|discriminate]. injection H as <- _ _. lia. }
  destruct ((u16_surr1 <=? n1) && (n1 <? u16_surr2)).
  2:{ injection H as <- _ _. lia. }
  destruct (length src - (i + 6) <? 6)%nat; [discriminate|].
  destruct (is_u src (i + 6)) as [[|]|]; try discriminate.
  2:{ injection H as <- _ _. lia. }
  destruct (Codec.slice src (i + 6 + 2) (i + 6 + 6)) as [ds2|]; [|discriminate].
  destruct (pu 16 (maxval 16) 0 0%nat ds2) as [[n2 j2] ok2]. destruct ok2; cbn [negb] in H.
  2:{ injection H as <- _ _. lia. }
  destruct ((u16_surr2 <=? n2) && (n2 <? u16_surr3)).
  2:{ injection H as <- _ _. lia. }
  destruct (write dl out1 (Utf8.encode_rune (utf16_decode n1 n2))) as [out2|]; [|discriminate]. injection H as <- _ _. lia.
Qed.
Lemma uparse_fuel dl src : forall f1 f2 i f out, (length src - i < f1)%nat -> (length src - i < f2)%nat ->
  uparse dl f1 src i f out = uparse dl f2 src i f out.
Proof.
  induction f1 as [|f1 IH]; intros f2 i f out H1 H2; [lia|]. destruct f2 as [|f2]; [lia|].
  rewrite !uparse_S. destruct ((length src <=? i)%nat || (length src - i <? 6)%nat) eqn:E; [reflexivity|].
  destruct (ustep dl src i f out) as [[i' f' out'|i' f' out']|] eqn:Eg; try reflexivity.
  pose proof (ustep_adv dl src i f out i' f' out' Eg). apply orb_false_iff in E. destruct E as [E1 E2].
  apply Nat.leb_gt in E1. apply IH; lia.
Qed.

Lemma uparse_while {St} (pk : list Z -> Z -> Z -> Z -> St) (c : St -> M bool) (b : St -> M (ctl St (list Z * Z))) (p : St -> M St)
    (K : St + (list Z * Z) -> M (list Z * Z)) (src d0 : list Z) :
  let ST := fun (out : list Z) (f i : nat) => pk (fill out d0) (Z.of_nat (length out)) (Z.of_nat f) (Z.of_nat i) in
  (forall out f i, (length out <= length d0)%nat -> (length src <= i \/ length src - i < 6)%nat ->
     iter1 c b p (ST out f i) = Ret (inr (inl (ST out f i)))) ->
  (forall out f i, (length out <= length d0)%nat -> (i < length src)%nat -> (6 <= length src - i)%nat ->
     iter1 c b p (ST out f i) =
     match ustep (length d0) src i f out with
     | None => Panic
     | Some (UNext i' f' out') => Ret (inl (ST out' f' i'))
     | Some (UBreak i' f' out') => Ret (inr (inl (ST out' f' i')))
     end) ->
  (forall out f i, (length out <= length d0)%nat ->
     K (inl (ST out f i)) = mmap (parse_res d0) (lift (finish (length d0) src f out))) ->
  forall fuel i f out, (length out <= length d0)%nat -> (length src - i < fuel)%nat ->
    bind (while fuel c b p (ST out f i)) K = mmap (parse_res d0) (lift (uparse (length d0) fuel src i f out)).
Proof.
  intros ST Hexit Hstep Hafter. induction fuel as [|fuel IH]; intros i f out Ho Hf; [lia|].
  rewrite while_iter, uparse_S.
  destruct (Nat.leb_spec (length src) i) as [Hge|Hlt]; cbn [orb].
  { rewrite Hexit by (auto; lia). cbn [bind]. apply Hafter, Ho. }
  destruct (Nat.ltb_spec (length src - i) 6) as [Hshort|Hroom].
  { rewrite Hexit by (auto; lia). cbn [bind]. apply Hafter, Ho. }
  rewrite Hstep by lia.
  destruct (ustep (length d0) src i f out) as [[i' f' out'|i' f' out']|] eqn:Eg; [| |reflexivity];
    pose proof (ustep_inv _ _ _ _ _ _ Ho Eg) as Hinv; cbn [bind].
  - destruct Hinv as [Hi Ho']. apply IH; [exact Ho'|lia].
  - apply Hafter, Hinv.
Qed.

Lemma is_u_nth src i : (i + 1 < length src)%nat -> is_u src i = Some ((nth i src 0 =? 92) && (nth (i + 1) src 0 =? 117)).
Proof.
  intros H. unfold is_u. rewrite (nth_error_nth' src 0) by lia. rewrite (nth_error_nth' src 0) by lia. reflexivity.
Qed.

Ltac u16_second src i :=
  rewrite (is_u_nth src (i + 6)) by lia;
  rewrite ?(m_get_nat src _ (i + 6)%nat) by lia; rewrite ?(m_get_nat src _ (i + 6 + 1)%nat) by lia;
  rewrite (slice_some src (i + 6 + 2) (i + 6 + 6)) by lia;
  match goal with |- context [m_slice src ?a ?b] => rewrite (m_slice_nat src a b (i + 6 + 2)%nat (i + 6 + 6)%nat) by lia end;
  rewrite code_parseUint by (rewrite ?firstn_length; lia);
  unfold parse_uint; change (maxval 16) with 65535;
  let n2 := fresh "n2" in let j2 := fresh "j2" in let ok2 := fresh "ok2" in let Epu2 := fresh "Epu2" in
  destruct (pu 16 65535 0 0%nat (firstn (i + 6 + 6 - (i + 6 + 2)) (skipn (i + 6 + 2) src))) as [[n2 j2] ok2] eqn:Epu2;
  pose proof (pu_nonneg 16 65535 ltac:(lia) _ 0 0%nat _ _ _ ltac:(lia) Epu2) as Hvnn2;
  pose proof (pu_le 16 65535 ltac:(lia) _ 0 0%nat _ _ _ ltac:(lia) Epu2) as Hvle2; clear Epu2;
  rewrite ?(swrap32_rune n2) by lia.

Ltac u16_shape pk c b p K fuel :=
  lazymatch goal with Hfuel : (length ?src < fuel)%nat |- _ = mmap (parse_res ?d0) _ =>
    let Hexit := fresh "Hexit" in let Hstep := fresh "Hstep" in let Hafter := fresh "Hafter" in
    assert (Hexit : forall out f i, (length out <= length d0)%nat -> (length src <= i \/ length src - i < 6)%nat ->
       iter1 c b p (pk (fill out d0) (Z.of_nat (length out)) (Z.of_nat f) (Z.of_nat i)) =
       Ret (inr (inl (pk (fill out d0) (Z.of_nat (length out)) (Z.of_nat f) (Z.of_nat i)))));
    [ intros; iter_open; unfold zlen; repeat break_if; zb; try reflexivity; exfalso; lia | ];
    assert (Hstep : forall out f i, (length out <= length d0)%nat -> (i < length src)%nat -> (6 <= length src - i)%nat ->
       iter1 c b p (pk (fill out d0) (Z.of_nat (length out)) (Z.of_nat f) (Z.of_nat i)) =
       match ustep (length d0) src i f out with
       | None => Panic
       | Some (UNext i' f' out') => Ret (inl (pk (fill out' d0) (Z.of_nat (length out')) (Z.of_nat f') (Z.of_nat i')))
       | Some (UBreak i' f' out') => Ret (inr (inl (pk (fill out' d0) (Z.of_nat (length out')) (Z.of_nat f') (Z.of_nat i'))))
       end);
    [ let out := fresh "out" in let f := fresh "f" in let i := fresh "i" in
      let Ho := fresh "Ho" in let Hi := fresh "Hi" in let Hroom := fresh "Hroom" in
      intros out f i Ho Hi Hroom; iter_open;
      assert (Hc1 : (Z.of_nat i <? zlen src) = true) by (apply Z.ltb_lt; unfold zlen; lia);
      assert (Hc2 : (zlen src - Z.of_nat i <? 6) = false) by (apply Z.ltb_ge; unfold zlen; lia);
      rewrite ?Hc1, ?Hc2;
      unfold ustep; cbv zeta; rewrite is_u_nth by lia; change (maxval 16) with 65535;
      rewrite ?(m_get_nat src _ i) by lia; rewrite ?(m_get_nat src _ (i + 1)%nat) by lia;
      rewrite (slice_some src (i + 2) (i + 6)) by lia;
      match goal with |- context [m_slice src ?a ?b] => rewrite (m_slice_nat src a b (i + 2)%nat (i + 6)%nat) by lia end;
      rewrite code_parseUint by (rewrite ?firstn_length; lia);
      unfold parse_uint; change (maxval 16) with 65535;
      let n1 := fresh "n1" in let j := fresh "j" in let ok := fresh "ok" in let Epu := fresh "Epu" in
      destruct (pu 16 65535 0 0%nat (firstn (i + 6 - (i + 2)) (skipn (i + 2) src))) as [[n1 j] ok] eqn:Epu;
      pose proof (pu_nonneg 16 65535 ltac:(lia) _ 0 0%nat _ _ _ ltac:(lia) Epu) as Hvnn;
      pose proof (pu_le 16 65535 ltac:(lia) _ 0 0%nat _ _ _ ltac:(lia) Epu) as Hvle; clear Epu;
      rewrite ?(swrap32_rune n1) by lia;
      (* the escape behind a high surrogate is read only when six more bytes are there *)
      destruct (Nat.ltb_spec (length src - (i + 6)) 6); [ | u16_second src i ];
      cbn [pu_res]; unfold flush, write, copy_into, u16_surr1, u16_surr2, u16_surr3, std_utf16_DecodeRune, utf16_decode;
      destruct ok; parse_eval src; parse_leaf
    | ];
    assert (Hafter : forall out f i, (length out <= length d0)%nat ->
       K (inl (pk (fill out d0) (Z.of_nat (length out)) (Z.of_nat f) (Z.of_nat i))) = mmap (parse_res d0) (lift (finish (length d0) src f out)));
    [ let out := fresh "out" in let f := fresh "f" in let i := fresh "i" in let Ho := fresh "Ho" in
      intros out f i Ho; cbv beta iota zeta delta [bind]; unfold finish, copy_into; parse_eval src;
      cbn [mmap lift]; unfold parse_res; parse_leaf
    | ];
    exact (uparse_while pk c b p K src d0 Hexit Hstep Hafter fuel 0%nat 0%nat [] ltac:(cbn [length]; lia) ltac:(lia))
  end.

(* Utf16Parse, branch for branch (the second escape behind a high surrogate, the break at the end of the input, the lone
   surrogates): for every destination, every source and every fuel above the length of the source *)
Theorem code_Utf16Parse : forall fuel dst src, (length src < fuel)%nat ->
  g_Utf16Parse fuel dst src = mmap (parse_res dst) (lift (utf16_parse (length dst) src)).
Proof.
  intros fuel dst src Hf. unfold g_Utf16Parse. repeat autounfold with go2v_aux. step_code.
  unfold utf16_parse.
  rewrite <- (uparse_fuel (length dst) src fuel (S (length src)) 0 0 [] ltac:(lia) ltac:(lia)).
  match goal with |- match while _ ?c ?b ?p ?s0 with Ret a => @?K a | Panic => Panic | NoFuel => NoFuel end = _ =>
    change (bind (while fuel c b p s0) K = mmap (parse_res dst) (lift (uparse (length dst) fuel src 0 0 [])));
    first [ solve [u16_shape (fun (D : list Z) (e f i : Z) => (D, e, f, i)) c b p K fuel]
          | solve [u16_shape (fun (D : list Z) (e f i : Z) => (D, f, e, i)) c b p K fuel] ]
  end.
Qed.

