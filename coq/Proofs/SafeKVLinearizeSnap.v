(* C12, linearizability of the call-driven machine, part 5: one snapshot, as an instant of the run.
   Every completed call returned exactly what the specification returns on the SHARED map as it was at one step strictly
   between the call's invocation and its response (the step on which it took the lock).  So Keys / Values / Range / All /
   GetWithMap / Map / Len report one consistent state of the map that really existed while the call was running. *)
From Coq Require Import List Arith Lia Bool ZArith Permutation.
From V Require Import Lib.Enc Gen.SafeKVSkel Model.SafeKV Model.SafeKVCalls Model.SafeKVHist
  Proofs.SafeKVInv Proofs.SafeKVConc Proofs.SafeKVSkelOk Proofs.SafeKVExec Proofs.SafeKVCalls
  Proofs.SafeKVLinearizeStep Proofs.SafeKVLinearize.
Import ListNotations.

Lemma map_at_prefix n m0 p q j : j <= length p -> map_at n m0 (p ++ q) j = map_at n m0 p j.
Proof.
  intros H. unfold map_at. rewrite firstn_app. replace (j - length p) with 0 by lia. cbn [firstn]. rewrite app_nil_r. reflexivity.
Qed.
Lemma map_at_end n m0 p q : map_at n m0 (p ++ q) (length p) = cmp (hc (hrun n m0 p)).
Proof.
  unfold map_at. rewrite firstn_app, firstn_all, Nat.sub_diag. cbn [firstn]. rewrite app_nil_r, hrun_crun. reflexivity.
Qed.

(* the result computed on return is the specification's on the snapshot *)
Lemma return_result c i nc t cl l' m' t' : CInv c -> nth_error (cths c) i = Some t ->
  cstep c (i, nc) = {| clk := l'; cmp := m'; cths := upd (cths c) i t' |} ->
  clog t' = clog t ++ [(cl, snap (base t), cfin t, result cl (cobs t) (cits t))] ->
  result cl (cobs t) (cits t) = snd (sem cl (snap (base t))).
Proof.
  intros HC Hi Hstep Elog. pose proof (cstep_cinv c (i, nc) HC) as HC'. rewrite Hstep in HC'.
  assert (Hok' : cok m' t').
  { pose proof (thread_cok _ i t' HC') as H0. cbn [cths cmp] in H0. apply H0. rewrite (nth_error_upd _ i t t' i Hi), Nat.eqb_refl. reflexivity. }
  destruct Hok' as [Hlog _]. rewrite Elog in Hlog. apply Forall_app in Hlog as [_ Hlog]. inversion Hlog as [|en tl Hen _]; subst.
  unfold log_ok in Hen. apply Hen.
Qed.

Definition snap_ok (n : nat) (m0 : map_) (p : list (nat * call)) (h : hconfig) : Prop :=
  (forall i t, nth_error (cths (hc h)) i = Some t -> ccall t <> None -> 1 <= cph t ->
     exists j, nth i (hinv h) 0 < j /\ j < hk h /\ snap (base t) = map_at n m0 p j) /\
  (forall hp, In hp (hhist h) ->
     exists j, (h_inv hp < Z.of_nat j < h_resp hp)%Z /\ j < hk h /\ h_res hp = snd (sem (h_call hp) (map_at n m0 p j))).

Theorem hrun_snap n m0 sched : snap_ok n m0 sched (hrun n m0 sched).
Proof.
  induction sched as [|sc p IH] using rev_ind.
  - split.
    + cbn [hrun fold_left hinit hc cinit cths]. intros i t Hi Hc. apply nth_error_In, repeat_spec in Hi. subst. cbn in Hc. congruence.
    + intros hp [].
  - unfold hrun. rewrite fold_left_app. cbn [fold_left]. fold (hrun n m0 p). set (h := hrun n m0 p) in *.
    destruct (hrun_linv n m0 p) as (L & HC & HT & _). fold h in HC, HT. destruct HT as [Hlen Hinvk _ _ _ _ _ _].
    assert (EK : hk h = length p) by apply hrun_hk.
    destruct IH as [Hth Hh].
    (* facts about earlier instants survive the extension of the schedule *)
    assert (Tr : forall a s, (exists j, a < j /\ j < hk h /\ s = map_at n m0 p j) ->
                             exists j, a < j /\ j < S (hk h) /\ s = map_at n m0 (p ++ [sc]) j).
    { intros a s (j & J1 & J2 & J3). exists j. repeat split; auto. rewrite map_at_prefix by lia. exact J3. }
    assert (Trh : forall hp, In hp (hhist h) ->
              exists j, (h_inv hp < Z.of_nat j < h_resp hp)%Z /\ j < S (hk h) /\ h_res hp = snd (sem (h_call hp) (map_at n m0 (p ++ [sc]) j))).
    { intros hp Hin. destruct (Hh hp Hin) as (j & J1 & J2 & J3). exists j. repeat split; try lia. rewrite map_at_prefix by lia. exact J3. }
    destruct sc as [i nc]. unfold snap_ok. rewrite hstep_hk, hstep_hc. unfold hstep. cbn [fst].
    destruct (nth_error (cths (hc h)) i) as [t|] eqn:Hi.
    2: { assert (E0 : cstep (hc h) (i, nc) = hc h) by (unfold cstep; rewrite Hi; reflexivity). rewrite E0. cbn [hinv hhist]. split; auto. }
    destruct (cstep_kind (hc h) i nc t HC Hi) as (l' & m' & t' & Hstep & Hk). rewrite Hstep. cbn [cths].
    assert (Hil : i < length (hinv h)) by (rewrite Hlen; apply nth_error_Some; congruence).
    destruct Hk as [Ec El Em Ec' Ep' Eh' Es' Elg | cl Ec Hret El Em Ec' Eb' Elog | cl Ec Hret El Ec' Ep' Eh' Es' Em Elg
                   | cl md Ec Hret Hn El Em Ec' Ep' Eh' Es' Hw Elg | cl md Ec Hret Hn El Em Ec' Ep' Ef' Eh' Es' Elg].
    + (* invocation *)
      rewrite Ec. cbn [hinv hhist]. split; auto.
      intros j y Hj Hc Hph. rewrite (nth_error_upd _ i t t' j Hi) in Hj. destruct (Nat.eqb_spec j i) as [->|Hne].
      * inversion Hj; subst y. lia.
      * rewrite nth_upd_other by auto. apply Tr. eauto.
    + (* response: the new entry of the history *)
      rewrite Ec, Hret. cbn [hinv hhist]. split.
      * intros j y Hj Hc Hph. rewrite (nth_error_upd _ i t t' j Hi) in Hj. destruct (Nat.eqb_spec j i) as [->|Hne].
        -- inversion Hj; subst y. congruence.
        -- apply Tr. eauto.
      * intros hp Hin. apply in_app_or in Hin as [Hin|[<-|[]]]; [auto|]. cbn [h_inv h_resp h_call h_res].
        assert (Hp2 : 2 <= cph t) by (apply (return_phase2 (hc h) i t cl); auto).
        destruct (Hth i t Hi) as (j & J1 & J2 & J3); [congruence|lia|].
        exists j. repeat split; try lia. rewrite map_at_prefix by lia. rewrite <- J3.
        apply (return_result (hc h) i nc t cl l' m' t'); auto.
    + (* inside the call, no lock operation *)
      rewrite Ec, Hret. cbn [hinv hhist]. split; auto.
      intros j y Hj Hc Hph. rewrite (nth_error_upd _ i t t' j Hi) in Hj. destruct (Nat.eqb_spec j i) as [->|Hne]; [|apply Tr; eauto].
      inversion Hj; subst y. rewrite Es'. apply Tr. apply Hth; auto; congruence.
    + (* the lock is taken: this is the instant *)
      rewrite Ec, Hret. cbn [hinv hhist]. split; auto.
      intros j y Hj Hc Hph. rewrite (nth_error_upd _ i t t' j Hi) in Hj. destruct (Nat.eqb_spec j i) as [->|Hne]; [|apply Tr; eauto].
      inversion Hj; subst y. exists (hk h). split; [apply (Hinvk i t); auto; congruence|]. split; [lia|].
      rewrite Es', EK, map_at_end. reflexivity.
    + (* the lock is released *)
      rewrite Ec, Hret. cbn [hinv hhist]. split; auto.
      intros j y Hj Hc Hph. rewrite (nth_error_upd _ i t t' j Hi) in Hj. destruct (Nat.eqb_spec j i) as [->|Hne]; [|apply Tr; eauto].
      inversion Hj; subst y. rewrite Es'. apply Tr. destruct (rel_holds _ i t cl md HC Hi Ec Hn) as [_ Hp1]. apply Hth; auto; [congruence|lia].
Qed.

(* C12, one snapshot: every completed call of every run returned what the specification returns on the shared map as it was
   after j steps, for one j strictly between the call's invocation step and its response step *)
Theorem calls_observe_one_instant n m0 sched : forall h, In h (chistory n m0 sched) ->
  exists j, (h_inv h < Z.of_nat j < h_resp h)%Z /\ j < length sched /\ h_res h = snd (sem (h_call h) (map_at n m0 sched j)).
Proof.
  intros h Hin. destruct (hrun_snap n m0 sched) as [_ Hh]. destruct (Hh h Hin) as (j & J1 & J2 & J3).
  exists j. rewrite hrun_hk in J2. auto.
Qed.
