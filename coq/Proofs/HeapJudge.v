(* C04 — the judge of Model/Heap.v means what it says (reflection lemmas), and every operation sequence of the
   Slice / generic-function model is accepted by it: the model refines the multiset priority queue. *)
From Coq Require Import List Arith ZArith Lia Bool PeanoNat Permutation.
From V Require Import Model.Heap Proofs.HeapSift Proofs.HeapBuild Proofs.HeapBridge Proofs.HeapOps.
Import ListNotations.

Section Judge.
Variable A : Type.
Variable d : A.
Variable lt : A -> A -> bool.
Variable eqb : A -> A -> bool.
Local Notation le := (Heap.le A lt).
Local Notation swap := (Heap.swap A d).
Local Notation down := (Heap.down A d lt).
Local Notation up := (Heap.up A d lt).
Local Notation fix_ := (Heap.fix_ A d lt).
Local Notation build := (Heap.build A d lt).
Local Notation ok := (Heap.ok A d lt).
Local Notation heap_ok := (Heap.heap_ok A d lt).
Local Notation heap_okb := (Heap.heap_okb A d lt).
Local Notation permb := (Heap.permb A eqb).
Local Notation remove1 := (Heap.remove1 A eqb).
Local Notation minimal := (Heap.minimal A lt).
Local Notation sortedb := (Heap.sortedb A lt).
Local Notation list_eqb := (Heap.list_eqb A eqb).
Local Notation lstep := (Heap.lstep A lt).
Local Notation lrun := (Heap.lrun A lt).
Local Notation lcase := (Heap.lcase A lt).
Local Notation jl_step := (Heap.jl_step A d lt eqb).
Local Notation jl_run := (Heap.jl_run A d lt eqb).
Local Notation jl_case := (Heap.jl_case A d lt eqb).
Local Notation l_may_panic := (Heap.l_may_panic A).
Local Notation set_at := (Heap.set_at A).
Local Notation pop_arr := (HeapOps.pop_arr A d lt).
Local Notation rem_arr := (HeapOps.rem_arr A d lt).
Hypothesis eqb_spec : forall a b, eqb a b = true <-> a = b.

(* ------------------------------------------------------------------ reflection *)
Lemma heap_okb_iff (s : list A) : heap_okb s = true <-> heap_ok s (length s).
Proof.
  unfold Heap.heap_okb. rewrite forallb_forall. split.
  - intros H p c Hc Hpc. unfold Heap.ok, Heap.le.
    assert (Hc1 : 1 <= c) by (unfold is_child in Hpc; lia).
    assert (Ep : (c - 1) / 2 = p).
    { destruct (parent_child c ltac:(lia)) as [Hx _]. unfold is_child in *. lia. }
    specialize (H c). rewrite in_seq in H. specialize (H ltac:(lia)). rewrite Ep in H.
    destruct (lt (nth c s d) (nth p s d)); [discriminate|reflexivity].
  - intros H c Hc. rewrite in_seq in Hc. destruct (parent_child c ltac:(lia)) as [Hx _].
    specialize (H ((c - 1) / 2) c ltac:(lia) Hx). unfold Heap.ok, Heap.le in H. rewrite H. reflexivity.
Qed.

Lemma remove1_perm x : forall l l', remove1 x l = Some l' -> Permutation l (x :: l').
Proof.
  induction l as [|y t IH]; intros l' H; cbn [Heap.remove1] in H; [discriminate|].
  destruct (eqb x y) eqn:E.
  - apply eqb_spec in E. inversion H. subst. reflexivity.
  - destruct (remove1 x t) as [t'|] eqn:E2; [|discriminate]. inversion H. subst.
    etransitivity; [apply perm_skip; apply IH; reflexivity|]. apply perm_swap.
Qed.
Lemma remove1_in x : forall l, In x l -> exists l', remove1 x l = Some l'.
Proof.
  induction l as [|y t IH]; intros H; [destruct H|]. cbn [Heap.remove1].
  destruct (eqb x y) eqn:E; [eauto|].
  destruct H as [H|H]; [subst; assert (eqb x x = true) by (apply eqb_spec; reflexivity); congruence|].
  destruct (IH H) as (t' & ->). eauto.
Qed.
Lemma permb_iff : forall a b, permb a b = true <-> Permutation a b.
Proof.
  induction a as [|x t IH]; intros b; cbn [Heap.permb].
  - destruct b; split; intros H; auto; [discriminate|]. apply Permutation_nil in H. discriminate.
  - split.
    + destruct (remove1 x b) as [b'|] eqn:E; [|discriminate]. intros H. apply IH in H.
      apply remove1_perm in E. etransitivity; [apply perm_skip; exact H|]. symmetry. exact E.
    + intros H. assert (Hin : In x b) by (eapply Permutation_in; [exact H|left; reflexivity]).
      destruct (remove1_in x b Hin) as (b' & E). rewrite E. apply IH.
      apply remove1_perm in E. apply Permutation_cons_inv with (a := x). etransitivity; eauto.
Qed.
Lemma minimal_iff x l : minimal x l = true <-> forall y, In y l -> le x y.
Proof.
  unfold Heap.minimal, Heap.le. rewrite forallb_forall. split; intros H y Hy; specialize (H y Hy).
  - destruct (lt y x); [discriminate|reflexivity].
  - rewrite H. reflexivity.
Qed.
Lemma list_eqb_refl : forall l, list_eqb l l = true.
Proof.
  induction l as [|x t IH]; cbn [Heap.list_eqb]; [reflexivity|]. rewrite IH.
  assert (eqb x x = true) by (apply eqb_spec; reflexivity). rewrite H. reflexivity.
Qed.
Lemma list_eqb_eq : forall a b, list_eqb a b = true -> a = b.
Proof.
  induction a as [|x t IH]; intros [|y u] H; cbn [Heap.list_eqb] in H; try discriminate; [reflexivity|].
  apply andb_true_iff in H. destruct H as [H1 H2]. apply eqb_spec in H1. apply IH in H2. congruence.
Qed.
Lemma eqb_refl x : eqb x x = true.
Proof. apply eqb_spec. reflexivity. Qed.

Hypothesis le_trans : forall a b c, le a b -> le b c -> le a c.
Hypothesis lt_asym : forall a b, lt a b = true -> lt b a = false.

Lemma Zlen_nat {X : Type} (l : list X) : Zlen l = Z.of_nat (length l).
Proof. reflexivity. Qed.
Lemma in_range_nat (i : Z) (s : list A) : Heap.in_range A i s = true -> exists k, i = Z.of_nat k /\ k < length s.
Proof.
  unfold Heap.in_range, Zlen. intros H. apply andb_true_iff in H. destruct H as [H1 H2].
  apply Z.leb_le in H1. apply Z.ltb_lt in H2. exists (Z.to_nat i). lia.
Qed.
Lemma in_range_false (i : Z) (s : list A) : Heap.in_range A i s = false -> (i < 0 \/ Zlen s <= i)%Z.
Proof.
  unfold Heap.in_range. intros H. apply andb_false_iff in H. destruct H as [H|H]; [apply Z.leb_gt in H|apply Z.ltb_ge in H]; lia.
Qed.
Lemma set_at_in (s : list A) k x : k < length s -> set_at s (Z.of_nat k) x = upd s k x.
Proof.
  intros H. unfold Heap.set_at, Zlen. destruct (Z.ltb_spec (Z.of_nat k) 0); [lia|].
  destruct (Z.geb_spec (Z.of_nat k) (Z.of_nat (length s))); [lia|]. cbn [orb]. rewrite Nat2Z.id. reflexivity.
Qed.
Lemma set_at_out (s : list A) z x : (z < 0 \/ Zlen s <= z)%Z -> set_at s z x = s.
Proof.
  intros H. unfold Heap.set_at. destruct (Z.ltb_spec z 0); [reflexivity|]. destruct (Z.geb_spec z (Zlen s)); [reflexivity|lia].
Qed.
Lemma set_at_length (s : list A) z x : length (set_at s z x) = length s.
Proof. unfold Heap.set_at. destruct ((z <? 0)%Z || (z >=? Zlen s)%Z); [reflexivity|apply upd_length]. Qed.

(* ------------------------------------------------------------------ PopAll on a Slice *)
Local Notation popall := (Heap.popall A).
Local Notation sl_pop := (Heap.sl_pop A lt).

(* what PopAll returns and leaves, as a relation *)
Lemma popall_spec : forall fuel (s : list A) k acc, length s < fuel -> heap_ok s (length s) ->
  exists l rest, popall fuel sl_pop s k acc = Ok (rest, rev acc ++ l) /\
    heap_ok rest (length rest) /\ Permutation (l ++ rest) s /\ sortedb l = true /\
    (forall x, In x l -> forall y, In y rest -> le x y) /\
    length l = (if (k <=? 0)%Z then length s else Nat.min (Z.to_nat k) (length s)).
Proof.
  induction fuel as [|f IH]; intros s k acc Hf Hh; [lia|]. cbn [Heap.popall].
  destruct s as [|a s0] eqn:Es.
  - rewrite (sl_pop_empty A lt). cbn [bind fst snd]. exists [], []. rewrite app_nil_r.
    split; [reflexivity|]. split; [intros p c Hc; cbn [length] in Hc; lia|]. split; [reflexivity|].
    split; [reflexivity|]. split; [intros x []|].
    cbn [length]. destruct (k <=? 0)%Z; [reflexivity|]. rewrite Nat.min_0_r. reflexivity.
  - rewrite <- Es in *. assert (H1 : 1 <= length s) by (rewrite Es; cbn [length]; lia).
    rewrite (sl_pop_ok A d lt s H1). cbn [bind fst snd].
    destruct (pop_arr_spec A d lt le_trans lt_asym s H1 Hh) as (L & N & Hh' & P & Hmin). cbv zeta in *.
    set (n := length s - 1) in *. set (rest0 := firstn n (pop_arr s)) in *.
    assert (Lr : length rest0 = n) by (unfold rest0; rewrite firstn_length; lia).
    rewrite N in *. set (x := nth 0 s d) in *.
    assert (Hx : forall y, In y rest0 -> le x y).
    { intros y Hy. assert (Hy' : In y s) by (eapply Permutation_in; [exact P|right; exact Hy]).
      destruct (In_nth _ _ d Hy') as (j & Hj & <-). apply Hmin. exact Hj. }
    destruct (Z.eqb_spec k 1) as [->|Hk1].
    + exists [x], rest0. cbn [rev]. split; [reflexivity|]. rewrite Lr. split; [exact Hh'|]. split; [exact P|].
      split; [reflexivity|]. split.
      * intros x' [<-|[]]. exact Hx.
      * cbn [length]. change (1 <=? 0)%Z with false. cbn iota. change (Z.to_nat 1) with 1. lia.
    + destruct (IH rest0 (k - 1)%Z (x :: acc)) as (l & rest & E & Hh2 & P2 & S2 & M2 & Ln); [lia|rewrite Lr; exact Hh'|].
      exists (x :: l), rest. split; [rewrite E; cbn [rev]; rewrite <- app_assoc; reflexivity|].
      split; [exact Hh2|]. split.
      * cbn [app]. etransitivity; [apply perm_skip; exact P2|exact P].
      * split.
        -- cbn [Heap.sortedb]. rewrite S2, andb_true_r. apply minimal_iff. intros y Hy. apply Hx.
           eapply Permutation_in; [exact P2|]. apply in_or_app. left. exact Hy.
        -- split.
           ++ intros x' [<-|Hx'] y Hy; [|apply M2; auto]. apply Hx. eapply Permutation_in; [exact P2|]. apply in_or_app. right. exact Hy.
           ++ cbn [length]. rewrite Ln, Lr. unfold n.
              destruct (Z.leb_spec k 0); destruct (Z.leb_spec (k - 1) 0); try lia.
Qed.

(* ------------------------------------------------------------------ one operation *)
Definition in_contract (n : Z) (o : lop A) : bool :=
  match o with
  | LPop _ => (0 <? n)%Z
  | LRemove _ i | LFix _ i | LSetFix _ i _ => (0 <=? i)%Z && (i <? n)%Z
  | _ => true
  end.

Lemma vb_go b : b = true -> Heap.vb b = VGo.
Proof. intros ->. reflexivity. Qed.

Lemma jl_pop_nonempty std (s : list A) r next : 1 <= length s ->
  jl_step std s (LPop A) r next =
  Heap.vb (match r with OOpt _ (Some x) => minimal x s && permb (x :: next) s && heap_okb next | _ => false end).
Proof. intros H. destruct s; [cbn [length] in H; lia|reflexivity]. Qed.
Lemma jl_peek_nonempty (s : list A) r next : 1 <= length s ->
  jl_step false s (LPeek A) r next =
  Heap.vb (match r with OOpt _ (Some x) => minimal x s && existsb (eqb x) s && list_eqb next s | _ => false end).
Proof. intros H. destruct s; [cbn [length] in H; lia|reflexivity]. Qed.

Lemma lstep_good std (s : list A) (o : lop A) : heap_ok s (length s) -> std = false \/ in_contract (Zlen s) o = true ->
  exists s' r, lstep std s o = Ok (s', r) /\ jl_step std s o r s' = VGo /\ heap_ok s' (length s') /\
    (std = true -> forall t, l_may_panic (Zlen s) (o :: t) = l_may_panic (Zlen s') t).
Proof.
  intros Hh Hc. destruct o as [x| | | |i|i|i x|i x|k]; cbn [Heap.lstep].
  - (* Push *)
    cbn [Heap.jl_step].
    destruct (push_ok A d lt s x) as [E1 E2]. destruct (push_spec A d lt le_trans lt_asym s x Hh) as (H1 & H2 & H3). cbv zeta in *.
    exists (up (s ++ [x]) (length s)), (ONone A). split; [destruct std; [rewrite E2|rewrite E1]; reflexivity|].
    split; [apply vb_go; apply andb_true_iff; split; [apply permb_iff; exact H3|apply heap_okb_iff; exact H1]|].
    split; [exact H1|]. intros _ t. cbn [Heap.l_may_panic]. f_equal. unfold Zlen. lia.
  - (* Pop *)
    destruct s as [|a s0] eqn:Es.
    + destruct Hc as [->|Hc]; [|cbn in Hc; discriminate].
      exists [], (OOpt A None). split; [reflexivity|]. split; [reflexivity|]. split; [exact Hh|discriminate].
    + rewrite <- Es in *. assert (H1 : 1 <= length s) by (rewrite Es; cbn [length]; lia).
      destruct (pop_arr_spec A d lt le_trans lt_asym s H1 Hh) as (L & N & Hh' & P & Hmin). cbv zeta in *.
      exists (firstn (length s - 1) (pop_arr s)), (OOpt A (Some (nth (length s - 1) (pop_arr s) d))).
      split; [destruct std; [rewrite (std_pop_ok A d lt s H1)|rewrite (sl_pop_ok A d lt s H1)]; reflexivity|].
      assert (Lr : length (firstn (length s - 1) (pop_arr s)) = length s - 1) by (rewrite firstn_length; lia).
      split.
      * rewrite jl_pop_nonempty by lia. rewrite N. apply vb_go. rewrite !andb_true_iff. split; [split|].
        -- apply minimal_iff. intros y Hy. destruct (In_nth _ _ d Hy) as (j & Hj & <-). apply Hmin. exact Hj.
        -- apply permb_iff. exact P.
        -- apply heap_okb_iff. rewrite Lr. exact Hh'.
      * split; [rewrite Lr; exact Hh'|]. intros _ t. cbn [Heap.l_may_panic]. unfold Zlen. rewrite Lr.
        destruct (Z.leb_spec (Z.of_nat (length s)) 0); [lia|]. f_equal. lia.
  - (* Peek *)
    destruct std.
    + exists s, (ONone A). split; [reflexivity|]. split; [apply vb_go; apply list_eqb_refl|]. split; [exact Hh|]. intros _ t. reflexivity.
    + destruct s as [|a s0] eqn:Es.
      * exists [], (OOpt A None). split; [reflexivity|]. split; [reflexivity|]. split; [exact Hh|discriminate].
      * rewrite <- Es in *. exists s, (OOpt A (Some (nth 0 s d))). split.
        { unfold Heap.sl_peek, Zlen. rewrite Es. cbn. reflexivity. }
        split; [|split; [exact Hh|discriminate]].
        rewrite jl_peek_nonempty by (rewrite Es; cbn [length]; lia). apply vb_go. rewrite !andb_true_iff. split; [split|].
        -- apply minimal_iff. intros y Hy. destruct (In_nth _ _ d Hy) as (j & Hj & <-).
           apply (root_is_min A d lt le_trans lt_asym s (length s)); auto.
        -- apply existsb_exists. exists (nth 0 s d). split; [apply nth_In; rewrite Es; cbn [length]; lia|apply eqb_refl].
        -- apply list_eqb_refl.
  - (* Len *)
    cbn [Heap.jl_step].
    exists s, (OInt A (Zlen s)). split; [reflexivity|]. split; [apply vb_go; rewrite Z.eqb_refl, list_eqb_refl; reflexivity|].
    split; [exact Hh|]. intros _ t. reflexivity.
  - (* Remove *)
    cbn [Heap.jl_step].
    destruct (Heap.in_range A i s) eqn:Er.
    + destruct (in_range_nat i s Er) as (k & -> & Hk).
      destruct (rem_arr_spec A d lt le_trans lt_asym s k Hk Hh) as (L & N & Hh' & P). cbv zeta in *.
      exists (firstn (length s - 1) (rem_arr s k)), (OOpt A (Some (nth (length s - 1) (rem_arr s k) d))).
      split; [destruct std; [rewrite (std_remove_ok A d lt s k Hk)|rewrite (sl_remove_ok A d lt s k Hk)]; reflexivity|].
      assert (Lr : length (firstn (length s - 1) (rem_arr s k)) = length s - 1) by (rewrite firstn_length; lia).
      split.
      * rewrite N, Nat2Z.id. apply vb_go. rewrite !andb_true_iff. split; [split|].
        -- apply eqb_refl.
        -- apply permb_iff. exact P.
        -- apply heap_okb_iff. rewrite Lr. exact Hh'.
      * split; [rewrite Lr; exact Hh'|]. intros _ t. cbn [Heap.l_may_panic]. unfold Zlen. rewrite Lr.
        destruct (Z.leb_spec 0 (Z.of_nat k)); [|lia]. destruct (Z.ltb_spec (Z.of_nat k) (Z.of_nat (length s))); [|lia].
        cbn [andb]. f_equal. lia.
    + destruct Hc as [->|Hc]; [|cbn [in_contract] in Hc; unfold Heap.in_range in Er; congruence].
      exists s, (OOpt A None). split; [rewrite (sl_remove_out A lt s i (in_range_false i s Er)); reflexivity|].
      split; [apply vb_go; apply list_eqb_refl|]. split; [exact Hh|discriminate].
  - (* Fix *)
    cbn [Heap.jl_step].
    destruct (Heap.in_range A i s) eqn:Er.
    + destruct (in_range_nat i s Er) as (k & -> & Hk).
      destruct (fix_spec A d lt le_trans lt_asym s s k Hk Hh eq_refl ltac:(auto)) as (H1 & H2 & H3).
      exists (fix_ s k (length s)), (ONone A).
      split; [destruct std; [rewrite (std_fix_ok A d lt s k Hk)|rewrite (sl_fix_ok A d lt s k Hk)]; reflexivity|].
      split; [apply vb_go; apply andb_true_iff; split; [apply permb_iff; exact H3|apply heap_okb_iff; rewrite H2; exact H1]|].
      split; [rewrite H2; exact H1|]. intros _ t. cbn [Heap.l_may_panic]. unfold Zlen. rewrite H2.
      destruct (Z.leb_spec 0 (Z.of_nat k)); [|lia]. destruct (Z.ltb_spec (Z.of_nat k) (Z.of_nat (length s))); [|lia]. reflexivity.
    + destruct Hc as [->|Hc]; [|cbn [in_contract] in Hc; unfold Heap.in_range in Er; congruence].
      exists s, (ONone A). split; [rewrite (sl_fix_out A lt s i (in_range_false i s Er)); reflexivity|].
      split; [apply vb_go; apply list_eqb_refl|]. split; [exact Hh|discriminate].
  - (* SetFix *)
    cbn [Heap.jl_step].
    destruct (Heap.in_range A i s) eqn:Er.
    + destruct (in_range_nat i s Er) as (k & -> & Hk). rewrite (set_at_in s k x Hk), Nat2Z.id.
      assert (Lu : length (upd s k x) = length s) by apply upd_length.
      destruct (fix_spec A d lt le_trans lt_asym s (upd s k x) k Hk Hh Lu) as (H1 & H2 & H3).
      { intros j Hj Hjk. apply nth_upd_ne. lia. }
      exists (fix_ (upd s k x) k (length (upd s k x))), (ONone A).
      split; [destruct std; [rewrite (std_fix_ok A d lt (upd s k x) k)|rewrite (sl_fix_ok A d lt (upd s k x) k)]; try reflexivity; lia|].
      split; [apply vb_go; apply andb_true_iff; split; [apply permb_iff; exact H3|apply heap_okb_iff; rewrite H2; exact H1]|].
      split; [rewrite H2; exact H1|]. intros _ t. cbn [Heap.l_may_panic]. unfold Zlen. rewrite H2, Lu.
      destruct (Z.leb_spec 0 (Z.of_nat k)); [|lia]. destruct (Z.ltb_spec (Z.of_nat k) (Z.of_nat (length s))); [|lia]. reflexivity.
    + destruct Hc as [->|Hc]; [|cbn [in_contract] in Hc; unfold Heap.in_range in Er; congruence].
      rewrite (set_at_out s i x (in_range_false i s Er)).
      exists s, (ONone A). split; [rewrite (sl_fix_out A lt s i (in_range_false i s Er)); reflexivity|].
      split; [apply vb_go; apply list_eqb_refl|]. split; [exact Hh|discriminate].
  - (* ReInit *)
    cbn [Heap.jl_step].
    rewrite (buildL_ok A d lt). cbn [bind fst snd].
    destruct (build_heap A d lt le_trans lt_asym (set_at s i x)) as (H1 & H2 & H3).
    exists (build (set_at s i x)), (ONone A). split; [reflexivity|].
    split; [apply vb_go; apply andb_true_iff; split; [apply permb_iff; exact H3|apply heap_okb_iff; rewrite H2; exact H1]|].
    split; [rewrite H2; exact H1|]. intros _ t. cbn [Heap.l_may_panic]. unfold Zlen. rewrite H2, set_at_length. reflexivity.
  - (* PopAll *)
    cbn [Heap.jl_step].
    destruct std.
    + exists s, (ONone A). split; [reflexivity|]. split; [apply vb_go; apply list_eqb_refl|]. split; [exact Hh|]. intros _ t. reflexivity.
    + destruct (popall_spec (S (length s)) s k [] ltac:(lia) Hh) as (l & rest & E & Hh2 & P2 & S2 & M2 & Ln).
      cbn [rev app] in E. rewrite E. cbn [bind fst snd]. exists rest, (OList A l). split; [reflexivity|].
      split; [|split; [exact Hh2|discriminate]].
      apply vb_go. rewrite !andb_true_iff. repeat split.
      * exact S2.
      * apply permb_iff. exact P2.
      * apply forallb_forall. intros x0 Hx0. apply minimal_iff. intros y Hy. apply M2; auto.
      * apply heap_okb_iff. exact Hh2.
      * apply Nat.eqb_eq. exact Ln.
Qed.

(* ---- outside the contract the generic functions panic in the container or do nothing; never out of fuel ---- *)
Lemma std_remove_out (s : list A) z : (z < 0 \/ Zlen s <= z)%Z -> Heap.std_remove A lt s z = Panic.
Proof.
  intros H. unfold Heap.std_remove. destruct (Z.eqb_spec (Zlen s - 1) z) as [E|E]; cbn [negb bind].
  - unfold Heap.c_pop, Heap.cut_last. rewrite nthZ_bad; [reflexivity|]. unfold Zlen in *. lia.
  - unfold Heap.swapL. rewrite (nthZ_bad s z H). reflexivity.
Qed.
Lemma std_pop_empty : Heap.std_pop A lt [] = Panic.
Proof. reflexivity. Qed.
Lemma std_fix_out (s : list A) z : (z < 0 \/ Zlen s <= z)%Z ->
  Heap.std_fix A lt s z = Panic \/ Heap.std_fix A lt s z = Ok s.
Proof.
  intros H. unfold Heap.std_fix, Heap.fixL, Heap.gfix, Heap.gdown, Heap.fuelL. cbn [Heap.gdown_go].
  assert (E : ((2 * z + 1 >=? Zlen s) || (2 * z + 1 <? 0))%Z = true).
  { apply orb_true_iff. unfold Zlen in *. destruct H; [right; apply Z.ltb_lt; lia|left; apply Z.geb_le; lia]. }
  rewrite E. cbn [bind fst snd]. rewrite Z.gtb_ltb, Z.ltb_irrefl. cbn [Heap.gup_go].
  destruct (Z.quot (z - 1) 2 =? z)%Z; [right; reflexivity|]. left.
  unfold Heap.lessL. rewrite (nthZ_bad s z H). reflexivity.
Qed.

Lemma popall_total : forall fuel (s : list A) k acc, length s < fuel -> exists r, popall fuel sl_pop s k acc = Ok r.
Proof.
  induction fuel as [|f IH]; intros s k acc Hf; [lia|]. cbn [Heap.popall].
  destruct s as [|a s0] eqn:Es.
  - rewrite (sl_pop_empty A lt). cbn [bind snd]. eauto.
  - rewrite <- Es in *. assert (H1 : 1 <= length s) by (rewrite Es; cbn [length]; lia).
    rewrite (sl_pop_ok A d lt s H1). cbn [bind fst snd].
    destruct (k =? 1)%Z; [eauto|]. apply IH. rewrite firstn_length. lia.
Qed.

Lemma lstep_total std (s : list A) (o : lop A) :
  (exists r, lstep std s o = Ok r) \/ (lstep std s o = Panic /\ std = true /\ in_contract (Zlen s) o = false).
Proof.
  destruct o as [x| | | |i|i|i x|i x|k]; cbn [Heap.lstep in_contract].
  - destruct (push_ok A d lt s x) as [E1 E2]. left. destruct std; [rewrite E2|rewrite E1]; cbn [bind]; eauto.
  - destruct s as [|a s0] eqn:Es.
    + destruct std; [right; auto|left; cbn; eauto].
    + rewrite <- Es. assert (H1 : 1 <= length s) by (rewrite Es; cbn [length]; lia). left.
      destruct std; [rewrite (std_pop_ok A d lt s H1)|rewrite (sl_pop_ok A d lt s H1)]; cbn [bind]; eauto.
  - left. destruct std; [eauto|]. unfold Heap.sl_peek. destruct (Zlen s =? 0)%Z eqn:E; [cbn [bind]; eauto|].
    destruct s as [|a s0]; [discriminate|]. cbn. eauto.
  - left. eauto.
  - destruct (Heap.in_range A i s) eqn:Er.
    + destruct (in_range_nat i s Er) as (k & -> & Hk). left.
      destruct std; [rewrite (std_remove_ok A d lt s k Hk)|rewrite (sl_remove_ok A d lt s k Hk)]; cbn [bind]; eauto.
    + destruct std.
      * right. rewrite (std_remove_out s i (in_range_false i s Er)). auto.
      * left. rewrite (sl_remove_out A lt s i (in_range_false i s Er)). cbn [bind]. eauto.
  - destruct (Heap.in_range A i s) eqn:Er.
    + destruct (in_range_nat i s Er) as (k & -> & Hk). left.
      destruct std; [rewrite (std_fix_ok A d lt s k Hk)|rewrite (sl_fix_ok A d lt s k Hk)]; cbn [bind]; eauto.
    + destruct std.
      * destruct (std_fix_out s i (in_range_false i s Er)) as [E|E]; rewrite E; [right; auto|left; cbn [bind]; eauto].
      * left. rewrite (sl_fix_out A lt s i (in_range_false i s Er)). cbn [bind]. eauto.
  - destruct (Heap.in_range A i s) eqn:Er.
    + destruct (in_range_nat i s Er) as (k & -> & Hk). left. rewrite (set_at_in s k x Hk).
      assert (Hk' : k < length (upd s k x)) by (rewrite upd_length; exact Hk).
      destruct std; [rewrite (std_fix_ok A d lt _ k Hk')|rewrite (sl_fix_ok A d lt _ k Hk')]; cbn [bind]; eauto.
    + rewrite (set_at_out s i x (in_range_false i s Er)). destruct std.
      * destruct (std_fix_out s i (in_range_false i s Er)) as [E|E]; rewrite E; [right; auto|left; cbn [bind]; eauto].
      * left. rewrite (sl_fix_out A lt s i (in_range_false i s Er)). cbn [bind]. eauto.
  - left. rewrite (buildL_ok A d lt). cbn [bind]. eauto.
  - left. destruct std; [eauto|]. destruct (popall_total (S (length s)) s k [] ltac:(lia)) as (r & ->). cbn [bind]. eauto.
Qed.

Lemma lrun_total : forall ops std (s : list A), (exists tr, lrun std s ops = Ok tr) \/ (lrun std s ops = Panic /\ std = true).
Proof.
  induction ops as [|o t IH]; intros std s; cbn [Heap.lrun]; [left; eauto|].
  destruct (lstep_total std s o) as [(r & E)|(E & Hs & _)]; rewrite E; cbn [bind]; [|right; auto].
  destruct (IH std (fst r)) as [(tr & E2)|(E2 & Hs)]; rewrite E2; cbn [bind]; [left; eauto|right; auto].
Qed.

Lemma jl_step_stop (s : list A) o r next : in_contract (Zlen s) o = false -> jl_step true s o r next = VStop.
Proof.
  destruct o as [x| | | |i|i|i x|i x|k]; cbn [in_contract Heap.jl_step]; try discriminate.
  - intros H. destruct s; [reflexivity|]. unfold Zlen in H. cbn [length] in H. apply Z.ltb_ge in H. lia.
  - intros H. unfold Heap.in_range. rewrite H. reflexivity.
  - intros H. unfold Heap.in_range. rewrite H. reflexivity.
  - intros H. unfold Heap.in_range. rewrite H. reflexivity.
Qed.
Lemma may_panic_here n o t : in_contract n o = false -> l_may_panic n (o :: t) = true.
Proof.
  destruct o as [x| | | |i|i|i x|i x|k]; cbn [in_contract Heap.l_may_panic]; try discriminate; intros H.
  - apply Z.ltb_ge in H. destruct (Z.leb_spec n 0); [reflexivity|lia].
  - rewrite H. reflexivity.
  - rewrite H. reflexivity.
  - rewrite H. reflexivity.
Qed.

(* ------------------------------------------------------------------ every operation sequence *)
Theorem lrun_judged : forall ops std (s : list A), heap_ok s (length s) ->
  match lrun std s ops with
  | Ok tr => jl_run std s ops tr = true
  | Panic => std = true /\ l_may_panic (Zlen s) ops = true
  | NoFuel => False
  end.
Proof.
  induction ops as [|o t IH]; intros std s Hh; cbn [Heap.lrun]; [reflexivity|].
  destruct (in_contract (Zlen s) o) eqn:Ec; [|destruct std].
  - destruct (lstep_good std s o Hh (or_intror Ec)) as (s' & r & E & J & Hh' & Hm). rewrite E. cbn [bind fst snd].
    specialize (IH std s' Hh'). destruct (lrun std s' t) as [tr| |]; cbn [bind]; [|destruct IH as [-> IH]; split; [reflexivity|rewrite Hm by reflexivity; exact IH]|exact IH].
    cbn [Heap.jl_run]. rewrite J. exact IH.
  - (* a generic function outside its contract *)
    destruct (lstep_total true s o) as [(r & E)|(E & _ & _)]; rewrite E; cbn [bind].
    + destruct (lrun_total t true (fst r)) as [(tr & E2)|(E2 & _)]; rewrite E2; cbn [bind].
      * cbn [Heap.jl_run]. rewrite (jl_step_stop s o (snd r) (fst r) Ec). reflexivity.
      * split; [reflexivity|apply may_panic_here; exact Ec].
    + split; [reflexivity|apply may_panic_here; exact Ec].
  - destruct (lstep_good false s o Hh (or_introl eq_refl)) as (s' & r & E & J & Hh' & Hm). rewrite E. cbn [bind fst snd].
    specialize (IH false s' Hh'). destruct (lrun false s' t) as [tr| |]; cbn [bind]; [|destruct IH; discriminate|exact IH].
    cbn [Heap.jl_run]. rewrite J. exact IH.
Qed.

(* a whole case: FromSlice / Init, then the operations; the judge accepts whatever the model produces *)
Theorem lcase_judged std (init : list A) (ops : list (lop A)) : jl_case std init ops (lcase std init ops) = true.
Proof.
  unfold Heap.lcase. rewrite (buildL_ok A d lt). cbn [bind].
  destruct (build_heap A d lt le_trans lt_asym init) as (H1 & H2 & H3). rewrite <- H2 in H1.
  pose proof (lrun_judged ops std (build init) H1) as R.
  destruct (lrun std (build init) ops) as [tr| |]; cbn [bind Heap.jl_case].
  - rewrite R, andb_true_r. apply andb_true_iff. split; [apply permb_iff; exact H3|apply heap_okb_iff; exact H1].
  - destruct R as [-> R]. cbn [andb]. unfold Zlen in *. rewrite <- H2. exact R.
  - destruct R.
Qed.
(* the Slice flavour never panics and never runs out of fuel *)
Theorem slice_total (init : list A) (ops : list (lop A)) : exists tr, lcase false init ops = Ok tr.
Proof.
  unfold Heap.lcase. rewrite (buildL_ok A d lt). cbn [bind].
  destruct (lrun_total ops false (build init)) as [(tr & E)|(_ & E)]; [|discriminate]. rewrite E. cbn [bind]. eauto.
Qed.
End Judge.
