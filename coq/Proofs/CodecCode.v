(* C07 — the code GENERATED from strz/enc.go and strz/std_strconv.go (coq/Gen/CodecCode.v, written by gen/trans.go +
   gen/trans_ext07.go on every run: lower, upper, parseUint, appendUint, toUpper, OctalFormat, OctalParse, HexFormat,
   HexParse) is equal to the hand-written model of Model/Codec.v, function by function.

   Conventions of the generated code (gen/TRANSLATOR.md, [ext:T07]): a []byte parameter that the Go function writes in
   place comes back as the first component of the result (XParse(dst, src) : M (new dst * n)); string / []byte / a
   bytestring type parameter are byte lists; strconv.AppendUint is the model std_strconv_AppendUint of Lib/GoSemStd.v.
   The hand model's parsers return the written prefix dst[:n] only; [fill out dst] is the explicit total conversion
   (the written prefix followed by what was in dst behind it).  dst and src do not overlap: that is what the hand model
   assumes (it never reads dst) and what the translator assumes for distinct slice arguments.

   Proof style: the loops are taken out of the generated definitions (never restated); every loop lemma is stated for a
   packing function pk of the loop's state variables and for loop components c b p constrained only by what ONE
   iteration does (iter1), so that the order of the variables in the generated state tuple (index loop / range loop,
   declaration order) does not matter; the one-iteration obligations are discharged by unfolding, rewriting the checked
   buffer operations into their values (side conditions by lia) and case analysis on every comparison. *)
From Coq Require Import List ZArith Lia Bool Arith.
From V Require Import Lib.Enc Lib.GoSem Lib.GoSemStd Proofs.GoSemFacts Gen.Codec Gen.CodecCode Model.Codec Proofs.CodecBase Proofs.CodecFormat
  Run.C07 Run.C07Code.
Import ListNotations.
Local Open Scope Z_scope.
Arguments Z.mul : simpl never.
Arguments Z.add : simpl never.
Arguments Z.sub : simpl never.
Arguments Z.div : simpl never.
Arguments Z.modulo : simpl never.
Arguments Z.pow : simpl never.
Arguments Z.quot : simpl never.
Arguments Z.rem : simpl never.
Arguments Z.of_nat : simpl never.
Arguments Z.to_nat : simpl never.
(* lia sees mod / div as opaque here (Proofs/CodecFormat.v switches the expansion on); lia_dm where it is wanted *)
Ltac Zify.zify_post_hook ::= idtac.
Ltac lia_dm := Z.div_mod_to_equations; lia.
(* x mod 256 where x is visibly a byte *)
Ltac small_mods := repeat match goal with |- context [?x mod 256] => rewrite (Z.mod_small x 256) by lia end.

(* ================================================================== generic helpers *)
Ltac zb :=
  repeat match goal with
  | H : (_ =? _) = true |- _ => apply Z.eqb_eq in H
  | H : (_ =? _) = false |- _ => apply Z.eqb_neq in H
  | H : (_ <=? _) = true |- _ => apply Z.leb_le in H
  | H : (_ <=? _) = false |- _ => apply Z.leb_gt in H
  | H : (_ <? _) = true |- _ => apply Z.ltb_lt in H
  | H : (_ <? _) = false |- _ => apply Z.ltb_ge in H
  | H : (_ <=? _)%nat = true |- _ => apply Nat.leb_le in H
  | H : (_ <=? _)%nat = false |- _ => apply Nat.leb_gt in H
  | H : (_ <? _)%nat = true |- _ => apply Nat.ltb_lt in H
  | H : (_ <? _)%nat = false |- _ => apply Nat.ltb_ge in H
  | H : negb _ = true |- _ => apply negb_true_iff in H
  | H : negb _ = false |- _ => apply negb_false_iff in H
  | H : orb _ _ = true |- _ => apply orb_true_iff in H
  | H : orb _ _ = false |- _ => apply orb_false_iff in H; destruct H
  | H : andb _ _ = true |- _ => apply andb_true_iff in H; destruct H
  | H : andb _ _ = false |- _ => apply andb_false_iff in H
  end.
(* unfold the generated helper functions (a helper extracted in the source later is in the hint database) and the monad *)
Ltac open_code := repeat autounfold with go2v; cbv beta iota zeta delta [bind].
Ltac step_code := cbv beta iota zeta delta [bind].
(* case analysis on the atomic comparisons first (so that a condition and its negation are decided together) *)
Ltac break_if :=
  match goal with
  | |- context [?a =? ?b] => destruct (a =? b) eqn:?
  | |- context [?a <? ?b] => destruct (a <? b) eqn:?
  | |- context [?a <=? ?b] => destruct (a <=? b) eqn:?
  | |- context [(?a <=? ?b)%nat] => destruct (a <=? b)%nat eqn:?
  | |- context [(?a <? ?b)%nat] => destruct (a <? b)%nat eqn:?
  | |- context [if ?c then _ else _] => destruct c eqn:?
  end; cbn [negb andb orb].

(* more fuel never changes a result *)
Lemma while_more {S R} (c : S -> M bool) (b : S -> M (ctl S R)) (p : S -> M S) : forall k f s r,
  while f c b p s = Ret r -> while (f + k) c b p s = Ret r.
Proof.
  induction f as [|f IH]; intros s r; [discriminate|].
  cbn [Nat.add]. rewrite !while_step. destruct (c s) as [x| |]; cbn [bind]; try discriminate.
  destruct x; [|trivial]. destruct (b s) as [y| |]; cbn [bind]; try discriminate.
  destruct y as [s1|s1|r1]; [|trivial|trivial]. destruct (p s1) as [s2| |]; cbn [bind]; try discriminate. apply IH.
Qed.

(* one iteration of a loop: inl s' = go on in state s'; inr (inl s) = the loop ends in state s; inr (inr r) = return r *)
Definition iter1 {S R} (c : S -> M bool) (b : S -> M (ctl S R)) (p : S -> M S) (s : S) : M (S + (S + R)) :=
  bind (c s) (fun x =>
    if x then bind (b s) (fun y => match y with
      | Next s1 => bind (p s1) (fun s2 => Ret (inl s2)) | Break s1 => Ret (inr (inl s1)) | Return r => Ret (inr (inr r)) end)
    else Ret (inr (inl s))).
Lemma while_iter {S R} f (c : S -> M bool) (b : S -> M (ctl S R)) (p : S -> M S) s :
  while (Datatypes.S f) c b p s = bind (iter1 c b p s) (fun x => match x with inl s' => while f c b p s' | inr r => Ret r end).
Proof.
  rewrite while_step. unfold iter1. destruct (c s) as [x| |]; cbn [bind]; try reflexivity.
  destruct x; [|reflexivity]. destruct (b s) as [y| |]; cbn [bind]; try reflexivity.
  destruct y as [s1|s1|r1]; try reflexivity. destruct (p s1); reflexivity.
Qed.
Ltac iter_open := cbv beta iota zeta delta [iter1 bind].

(* ---- N-bit values *)
Lemma wrap8_mod x : wrap 8 x = x mod 256. Proof. reflexivity. Qed.
Lemma wrap64_mod x : wrap 64 x = x mod two64. Proof. reflexivity. Qed.
Lemma wrap_small bits x : 0 <= bits -> 0 <= x < 2 ^ bits -> wrap bits x = x.
Proof. intros Hb H. unfold wrap. apply Z.mod_small. exact H. Qed.

(* ---- checked reads *)
Lemma get_at_nth (l : list Z) (k : nat) : (k < length l)%nat -> get_at l (Z.of_nat k) = Some (nth k l 0).
Proof.
  intros H. unfold get_at. destruct (Z.leb_spec 0 (Z.of_nat k)); [|lia]. rewrite Nat2Z.id. apply nth_error_nth'. exact H.
Qed.
Lemma m_get_in (l : list Z) (i : Z) : 0 <= i < zlen l -> m_get l i = Ret (nth (Z.to_nat i) l 0).
Proof. unfold zlen. intros H. unfold m_get. rewrite <- (Z2Nat.id i) at 1 by lia. rewrite get_at_nth by lia. reflexivity. Qed.
Lemma m_get_out (l : list Z) (i : Z) : ~ (0 <= i < zlen l) -> m_get l i = Panic.
Proof.
  unfold zlen, m_get, get_at. intros H. destruct (Z.leb_spec 0 i); [|reflexivity].
  destruct (nth_error l (Z.to_nat i)) eqn:E; [|reflexivity].
  assert (Z.to_nat i < length l)%nat by (apply nth_error_Some; congruence). lia.
Qed.
Lemma m_slice_in (l : list Z) (a b : Z) : 0 <= a <= b -> b <= zlen l ->
  m_slice l a b = Ret (firstn (Z.to_nat b - Z.to_nat a) (skipn (Z.to_nat a) l)).
Proof.
  unfold zlen, m_slice, GoSem.slice. intros H1 H2.
  destruct (Z.leb_spec 0 a); [|lia]. destruct (Z.leb_spec a b); [|lia]. destruct (Z.leb_spec b (Z.of_nat (length l))); [|lia]. reflexivity.
Qed.
Lemma m_slice_out (l : list Z) (a b : Z) : ~ (0 <= a <= b /\ b <= zlen l) -> m_slice l a b = Panic.
Proof.
  unfold zlen, m_slice, GoSem.slice. intros H.
  destruct (Z.leb_spec 0 a); [|reflexivity]. destruct (Z.leb_spec a b); [|reflexivity].
  destruct (Z.leb_spec b (Z.of_nat (length l))); [lia|reflexivity].
Qed.
Lemma skipn_cons_nth (l : list Z) : forall k, (k < length l)%nat -> skipn k l = nth k l 0 :: skipn (S k) l.
Proof.
  induction l as [|x t IH]; intros k Hk; [cbn in Hk; lia|]. destruct k as [|k]; [reflexivity|].
  cbn [length] in Hk. cbn [skipn nth]. apply IH. lia.
Qed.

(* the 256 byte values *)
Definition all_bytes256 : list Z := map Z.of_nat (seq 0 256).
Lemma in_bytes256 c : 0 <= c < 256 -> In c all_bytes256.
Proof. intros H. unfold all_bytes256. rewrite <- (Z2Nat.id c) by lia. apply in_map, in_seq. lia. Qed.

(* ================================================================== lower, upper (std_strconv.go) *)
Theorem code_lower : forall c, g_lower c = Ret (lower c).
Proof. intros c. open_code. reflexivity. Qed.

(* c is a byte in the code: on other integers the 8-bit shift of the translation and the model's unbounded one differ.
   Checked value by value, so that any rewriting of the expression that is equal on bytes passes. *)
Theorem code_upper : forall c, 0 <= c < 256 -> g_upper c = Ret (upper c).
Proof.
  intros c Hc.
  assert (F : forallb (fun x => match g_upper x with Ret v => v =? upper x | _ => false end) all_bytes256 = true) by (vm_compute; reflexivity).
  rewrite forallb_forall in F. specialize (F c (in_bytes256 c Hc)).
  destruct (g_upper c) as [v| |]; try discriminate. apply Z.eqb_eq in F. congruence.
Qed.

(* ================================================================== parseUint (std_strconv.go) *)
(* result conversion: the index is an int in the code, a nat in the model *)
Definition pu_res (r : Z * nat * bool) : Z * Z * bool := let '(n, j, ok) := r in (n, Z.of_nat j, ok).

(* one digit of the model's parser: inl n1 = go on with the value n1; inr v = stop with (v, index, false) *)
Definition pu_step (base maxv n c : Z) : Z + Z :=
  match digit c with
  | None => inr 0
  | Some dg =>
      if base <=? dg then inr 0
      else if cutoff base <=? n then inr maxv
      else let nb := (n * base) mod two64 in
           let n1 := (nb + dg) mod two64 in
           if (n1 <? nb) || (maxv <? n1) then inr maxv else inl n1
  end.
Lemma pu_cons base maxv n j c t :
  pu base maxv n j (c :: t) = match pu_step base maxv n c with inl n1 => pu base maxv n1 (S j) t | inr v => (v, j, false) end.
Proof.
  cbn [pu]. unfold pu_step. destruct (digit c) as [dg|]; [|reflexivity].
  destruct (base <=? dg); [reflexivity|]. destruct (cutoff base <=? n); [reflexivity|]. cbv zeta.
  destruct (((n * base) mod two64 + dg) mod two64 <? (n * base) mod two64); cbn [orb]; [reflexivity|].
  destruct (maxv <? ((n * base) mod two64 + dg) mod two64); reflexivity.
Qed.
Lemma pu_ok_index base maxv : forall ds n j v j', pu base maxv n j ds = (v, j', true) -> j' = (j + length ds)%nat.
Proof.
  induction ds as [|c t IH]; intros n j v j' H.
  - cbn [pu] in H. injection H as _ <-. cbn [length]. lia.
  - rewrite pu_cons in H. destruct (pu_step base maxv n c); [|discriminate]. apply IH in H. cbn [length]. lia.
Qed.

(* the loop, for any order pk of (n, i), given what one iteration does *)
Lemma pu_while {St} (pk : Z -> Z -> St) (c : St -> M bool) (b : St -> M (ctl St (Z * Z * bool))) (p : St -> M St)
    (s : list Z) (base maxv : Z) :
  (forall k n, (k < length s)%nat ->
     iter1 c b p (pk n (Z.of_nat k)) =
     Ret (match pu_step base maxv n (nth k s 0) with
          | inl n1 => inl (pk n1 (Z.of_nat k + 1)) | inr v => inr (inr (v, Z.of_nat k, false)) end)) ->
  (forall n, iter1 c b p (pk n (zlen s)) = Ret (inr (inl (pk n (zlen s))))) ->
  forall f k n, (k <= length s)%nat -> (length s - k < f)%nat ->
    while f c b p (pk n (Z.of_nat k)) =
    Ret (match pu base maxv n k (skipn k s) with
         | (v, j, true) => inl (pk v (zlen s)) | (v, j, false) => inr (v, Z.of_nat j, false) end).
Proof.
  intros Hin Hend. induction f as [|f IH]; intros k n Hk Hf; [lia|]. rewrite while_iter.
  destruct (Nat.eq_dec k (length s)) as [->|Hne].
  - fold (zlen s). rewrite Hend, skipn_all. reflexivity.
  - assert (Hlt : (k < length s)%nat) by lia. rewrite (Hin k n Hlt), (skipn_cons_nth s k Hlt), pu_cons.
    destruct (pu_step base maxv n (nth k s 0)) as [n1|v]; cbn [bind]; [|reflexivity].
    replace (Z.of_nat k + 1) with (Z.of_nat (S k)) by lia. apply IH; lia.
Qed.

Lemma m_quot_nz a c : c <> 0 -> m_quot a c = Ret (Z.quot a c).
Proof. intros H. unfold m_quot, goquot. destruct (Z.eqb_spec c 0); [contradiction|reflexivity]. Qed.
Lemma cutoff_code base : 2 <= base < 256 -> wrap 64 (Z.quot 18446744073709551615 base + 1) = cutoff base.
Proof.
  intros H. unfold cutoff. change (two64 - 1) with 18446744073709551615. rewrite Z.quot_div_nonneg by lia.
  apply wrap_small; [lia|]. change (2 ^ 64) with 18446744073709551616.
  assert (0 <= 18446744073709551615 / base) by (apply Z.div_pos; lia).
  assert (18446744073709551615 / base < 18446744073709551615) by (apply Z.div_lt; lia). lia.
Qed.
Lemma maxval_code bits : 0 <= bits <= 64 -> wrap 64 (wrap 64 (Z.shiftl 1 (wrap 64 bits)) - 1) = maxval bits.
Proof.
  intros H. rewrite (wrap_small 64 bits) by (change (2 ^ 64) with 18446744073709551616; lia).
  rewrite Z.shiftl_1_l. unfold maxval.
  destruct (Z.eq_dec bits 64) as [->|Hne]; [reflexivity|].
  assert (Hp : 0 < 2 ^ bits) by (apply Z.pow_pos_nonneg; lia).
  assert (Hq : 2 ^ bits <= 2 ^ 63) by (apply Z.pow_le_mono_r; lia).
  change (2 ^ 63) with 9223372036854775808 in Hq.
  rewrite (wrap_small 64 (2 ^ bits)) by (change (2 ^ 64) with 18446744073709551616; lia).
  apply wrap_small; [lia|]. change (2 ^ 64) with 18446744073709551616. lia.
Qed.

Ltac pu_shape pk c b p fuel :=
  lazymatch goal with Hbase : 2 <= ?base < 256, Hfuel : (length ?s < fuel)%nat |- _ = Ret (pu_res (parse_uint ?s ?base ?bits)) =>
    let H1 := fresh "H1" in let H2 := fresh "H2" in
    assert (H1 : forall k n, (k < length s)%nat ->
              iter1 c b p (pk n (Z.of_nat k)) =
              Ret (match pu_step base (maxval bits) n (nth k s 0) with
                   | inl n1 => inl (pk n1 (Z.of_nat k + 1)) | inr v => inr (inr (v, Z.of_nat k, false)) end));
    [ let k := fresh "k" in let n := fresh "n" in let Hk := fresh "Hk" in
      intros k n Hk; iter_open;
      assert (Hl : (Z.of_nat k <? zlen s) = true) by (apply Z.ltb_lt; unfold zlen; lia);
      rewrite ?Hl; rewrite ?m_get_in by (unfold zlen; lia); rewrite ?Nat2Z.id; step_code;
      generalize (nth k s 0); intros ch;
      unfold pu_step, digit, lower; rewrite ?wrap8_mod, ?wrap64_mod; cbv zeta;
      (* the four comparisons that classify the digit first: the 8-bit digit arithmetic of the code is then exact *)
      destruct (Z.leb_spec 48 ch), (Z.leb_spec ch 57), (Z.leb_spec 97 (Z.lor ch 32)), (Z.leb_spec (Z.lor ch 32) 122);
      cbn [andb orb negb]; small_mods; repeat break_if; try reflexivity; zb; try lia; try (exfalso; lia)
    | assert (H2 : forall n, iter1 c b p (pk n (zlen s)) = Ret (inr (inl (pk n (zlen s)))));
      [ let n := fresh "n" in intros n; iter_open; rewrite ?Z.ltb_irrefl; reflexivity
      | let E := fresh "E" in
        pose proof (pu_while pk c b p s base (maxval bits) H1 H2 fuel 0%nat 0 ltac:(lia) ltac:(lia)) as E;
        cbv beta in E; change (Z.of_nat 0) with 0 in E; rewrite E; clear E H1 H2;
        cbn [skipn]; unfold parse_uint;
        let v := fresh "v" in let j := fresh "j" in let ok := fresh "ok" in let Ep := fresh "Ep" in
        destruct (pu base (maxval bits) 0 0 s) as [[v j] ok] eqn:Ep; destruct ok; cbn [pu_res];
        [ apply pu_ok_index in Ep; cbn [Nat.add] in Ep; subst j; reflexivity | reflexivity ] ] ]
  end.

(* for every fuel above the length of the digit string, every base a byte can hold and every bit size up to 64 (the
   model's cutoff and maxval are the mathematical ones: base < 2 makes the code's uint64 cutoff wrap, a bit size above
   64 makes its shift wrap) *)
Theorem code_parseUint : forall fuel s base bits, 2 <= base < 256 -> 0 <= bits <= 64 -> (length s < fuel)%nat ->
  g_parseUint fuel s base bits = Ret (pu_res (parse_uint s base bits)).
Proof.
  intros fuel s base bits Hbase Hbits Hfuel. open_code.
  rewrite ?(wrap_small 64 base) by (change (2 ^ 64) with 18446744073709551616; lia).
  rewrite ?(wrap_small 8 base) by (change (2 ^ 8) with 256; lia).
  rewrite ?m_quot_nz by lia. step_code.
  rewrite ?(cutoff_code base Hbase), ?(maxval_code bits Hbits).
  match goal with |- match while _ ?c ?b ?p ?s with _ => _ end = _ =>
    first [ solve [pu_shape (fun n i : Z => (n, i)) c b p fuel] | solve [pu_shape (fun n i : Z => (i, n)) c b p fuel] ]
  end.
Qed.

(* ================================================================== appendUint (enc.go) *)
Lemma m_copy_in dst a b src : 0 <= a <= b -> b <= zlen dst ->
  m_copy dst a b src =
  Ret (firstn (Z.to_nat a) dst ++ gocopy (firstn (Z.to_nat b - Z.to_nat a) (skipn (Z.to_nat a) dst)) src ++ skipn (Z.to_nat b) dst,
       Z.of_nat (Nat.min (length (firstn (Z.to_nat b - Z.to_nat a) (skipn (Z.to_nat a) dst))) (length src))).
Proof.
  unfold zlen, m_copy, GoSem.slice. intros H1 H2.
  destruct (Z.leb_spec 0 a); [|lia]. destruct (Z.leb_spec a b); [|lia]. destruct (Z.leb_spec b (Z.of_nat (length dst))); [|lia]. reflexivity.
Qed.
Lemma m_copy_out dst a b src : ~ (0 <= a <= b /\ b <= zlen dst) -> m_copy dst a b src = Panic.
Proof.
  unfold zlen, m_copy, GoSem.slice. intros H.
  destruct (Z.leb_spec 0 a); [|reflexivity]. destruct (Z.leb_spec a b); [|reflexivity].
  destruct (Z.leb_spec b (Z.of_nat (length dst))); [lia|reflexivity].
Qed.
Lemma gocopy_same d s : length d = length s -> gocopy d s = s.
Proof. intros H. unfold gocopy. rewrite H, firstn_all, skipn_all2 by lia. apply app_nil_r. Qed.
Lemma firstn_zero_padding n : (n <= 8)%nat -> firstn n v_zeroPadding = repeat 48 n.
Proof. intros H. do 9 (destruct n as [|n]; [reflexivity|]). lia. Qed.
Lemma append_in_place_length l b x : 0 <= b -> length (append_in_place l b x) = length l.
Proof.
  intros Hb. unfold append_in_place, zlen. destruct (Z.leb_spec (b + Z.of_nat (length x)) (Z.of_nat (length l))); [|reflexivity].
  rewrite !app_length, firstn_length, skipn_length. lia.
Qed.
Lemma fmt_digits_std base : forall fuel v acc, std_fmt_digits fuel base v acc = fmt_digits fuel base v acc.
Proof.
  induction fuel as [|fu IH]; intros v acc; [reflexivity|]. cbn [std_fmt_digits fmt_digits].
  change (std_digit_char (v mod base)) with (digit_char (v mod base)). cbv zeta.
  destruct (v / base =? 0); [reflexivity|apply IH].
Qed.
Lemma m_slice_00 (l : list Z) : m_slice l 0 0 = Ret [].
Proof. rewrite m_slice_in by (unfold zlen; lia). reflexivity. Qed.
Lemma format_bits_std v base : std_fmt_digits 64 base v [] = format_bits v base.
Proof. apply fmt_digits_std. Qed.

(* dst at most as long as zeroPadding (the hand model says so: "w <= len(zeroPadding) at every call site"; a longer dst
   keeps its bytes in front of the eight zeros) and a base strconv accepts (the model has no such check: the Go call
   panics outside 2..36) *)
Theorem code_appendUint : forall dst v base, (length dst <= 8)%nat -> 2 <= base <= 36 ->
  g_appendUint dst v base = lift (append_uint (length dst) v base).
Proof.
  intros dst v base Hw Hbase. open_code.
  rewrite m_slice_00. step_code. cbn [app].
  unfold std_strconv_AppendUint. destruct (Z.ltb_spec base 2); [lia|]. destruct (Z.ltb_spec 36 base); [lia|]. cbn [orb]. step_code.
  rewrite format_bits_std. unfold append_uint. set (D := format_bits v base).
  assert (HL : forall l, zlen (append_in_place l 0 D) = zlen l) by (intros l; unfold zlen; rewrite append_in_place_length by lia; reflexivity).
  rewrite !HL.
  destruct (Nat.leb_spec (length D) (length dst)) as [Hfit|Hbig].
  2:{ rewrite m_copy_out by (unfold zlen; lia). reflexivity. }
  unfold append_in_place. destruct (Z.leb_spec (0 + zlen D) (zlen dst)) as [_|Hc]; [|unfold zlen in Hc; lia].
  change (Z.to_nat 0) with 0%nat. cbn [firstn app].
  set (T := skipn (Z.to_nat (0 + zlen D)) dst).
  assert (HT : length T = (length dst - length D)%nat) by (unfold T, zlen; rewrite skipn_length; lia).
  set (x := (length dst - length D)%nat) in *.
  rewrite (m_copy_in (D ++ T)) by (unfold zlen; rewrite ?app_length; lia). step_code.
  replace (Z.to_nat (zlen dst - zlen D)) with x by (unfold zlen, x; lia).
  replace (Z.to_nat (zlen dst)) with (length (D ++ T)) by (unfold zlen; rewrite ?app_length; lia).
  rewrite (skipn_all (D ++ T)), app_nil_r.
  rewrite (firstn_all2 (n := (length (D ++ T) - x)%nat)) by (rewrite skipn_length; lia).
  rewrite gocopy_same by (rewrite skipn_length, app_length; lia).
  set (P := firstn x (D ++ T)).
  assert (HP : length P = x) by (unfold P; rewrite firstn_length, app_length; lia).
  rewrite (m_copy_in (P ++ D)) by (unfold zlen; rewrite ?app_length; lia). step_code.
  replace (Z.to_nat (zlen dst - zlen D)) with x by (unfold zlen, x; lia).
  change (Z.to_nat 0) with 0%nat. cbn [firstn skipn app]. rewrite Nat.sub_0_r.
  rewrite <- HP at 1 2. rewrite firstn_app, firstn_all, Nat.sub_diag, skipn_app, skipn_all, Nat.sub_diag. cbn [firstn skipn app].
  rewrite app_nil_r. unfold gocopy. rewrite firstn_zero_padding by lia.
  rewrite skipn_all2 by (unfold v_zeroPadding; cbn [length]; lia). rewrite app_nil_r, HP. reflexivity.
Qed.

(* ================================================================== toUpper (enc.go) *)
Lemma nth_byte (l : list Z) k : bytes l -> (k < length l)%nat -> 0 <= nth k l 0 < 256.
Proof. intros Hb Hk. unfold bytes in Hb. rewrite Forall_forall in Hb. apply (Hb (nth k l 0)), nth_In, Hk. Qed.
Lemma m_get_pre (pre l : list Z) k : length pre = k -> (k < length l)%nat -> m_get (pre ++ skipn k l) (Z.of_nat k) = Ret (nth k l 0).
Proof.
  intros Hp Hk. rewrite (skipn_cons_nth l k Hk). subst k. unfold m_get, get_at.
  destruct (Z.leb_spec 0 (Z.of_nat (length pre))); [|lia]. rewrite Nat2Z.id, nth_error_app2, Nat.sub_diag by lia. reflexivity.
Qed.
Lemma upd_mid (p r : list Z) a v : upd (p ++ a :: r) (length p) v = p ++ v :: r.
Proof. induction p as [|x p IH]; cbn [app length upd]; [reflexivity|]. rewrite IH. reflexivity. Qed.
Lemma m_set_pre (pre l : list Z) k v : length pre = k -> (k < length l)%nat ->
  m_set (pre ++ skipn k l) (Z.of_nat k) v = Ret ((pre ++ [v]) ++ skipn (S k) l).
Proof.
  intros Hp Hk. rewrite (skipn_cons_nth l k Hk). subst k. unfold m_set, set_at. rewrite app_length. cbn [length].
  destruct (Z.leb_spec 0 (Z.of_nat (length pre))); [|lia].
  destruct (Z.ltb_spec (Z.of_nat (length pre)) (Z.of_nat (length pre + S (length (skipn (S (length pre)) l))))); [|lia].
  cbn [andb lift]. rewrite Nat2Z.id, upd_mid, <- app_assoc. reflexivity.
Qed.
Lemma zlen_pre (pre l : list Z) k : length pre = k -> (k <= length l)%nat -> zlen (pre ++ skipn k l) = zlen l.
Proof. intros Hp Hk. unfold zlen. rewrite app_length, skipn_length. lia. Qed.

(* the loop, for any order pk of (index, dst), given what one iteration does *)
Lemma upper_while {St R} (pk : Z -> list Z -> St) (c : St -> M bool) (b : St -> M (ctl St R)) (p : St -> M St) (d0 : list Z) :
  (forall k pre, (k < length d0)%nat -> length pre = k ->
     iter1 c b p (pk (Z.of_nat k) (pre ++ skipn k d0)) = Ret (inl (pk (Z.of_nat k + 1) ((pre ++ [upper (nth k d0 0)]) ++ skipn (S k) d0)))) ->
  (forall D, length D = length d0 -> iter1 c b p (pk (zlen d0) D) = Ret (inr (inl (pk (zlen d0) D)))) ->
  forall f k pre, length pre = k -> (k <= length d0)%nat -> (length d0 - k < f)%nat ->
    while f c b p (pk (Z.of_nat k) (pre ++ skipn k d0)) = Ret (inl (pk (zlen d0) (pre ++ map upper (skipn k d0)))).
Proof.
  intros Hin Hend. induction f as [|f IH]; intros k pre Hp Hk Hf; [lia|]. rewrite while_iter.
  destruct (Nat.eq_dec k (length d0)) as [->|Hne].
  - fold (zlen d0). rewrite Hend by (rewrite app_length, skipn_all; cbn [length]; lia). rewrite skipn_all. reflexivity.
  - assert (Hlt : (k < length d0)%nat) by lia. rewrite (Hin k pre Hlt Hp). cbn [bind].
    replace (Z.of_nat k + 1) with (Z.of_nat (S k)) by lia.
    rewrite IH by (rewrite ?app_length; cbn [length]; lia).
    rewrite (skipn_cons_nth d0 k Hlt). cbn [map]. rewrite <- app_assoc. reflexivity.
Qed.

Ltac upper_shape pk c b p fuel :=
  lazymatch goal with Hb : bytes ?d0 |- _ = Ret (to_upper ?d0) =>
    let H1 := fresh "H1" in let H2 := fresh "H2" in
    assert (H1 : forall k pre, (k < length d0)%nat -> length pre = k ->
       iter1 c b p (pk (Z.of_nat k) (pre ++ skipn k d0)) = Ret (inl (pk (Z.of_nat k + 1) ((pre ++ [upper (nth k d0 0)]) ++ skipn (S k) d0))));
    [ let k := fresh "k" in let pre := fresh "pre" in let Hk := fresh "Hk" in let Hp := fresh "Hp" in
      intros k pre Hk Hp; iter_open;
      rewrite ?(zlen_pre pre d0 k Hp) by lia;
      assert (Hl : (Z.of_nat k <? zlen d0) = true) by (apply Z.ltb_lt; unfold zlen; lia);
      repeat first [ rewrite Hl | rewrite (m_get_pre pre d0 k Hp Hk) | rewrite (code_upper _ (nth_byte d0 k Hb Hk))
                   | rewrite (m_set_pre pre d0 k _ Hp Hk) | progress step_code ];
      reflexivity
    | assert (H2 : forall D, length D = length d0 -> iter1 c b p (pk (zlen d0) D) = Ret (inr (inl (pk (zlen d0) D))));
      [ let D := fresh "D" in let HD := fresh "HD" in intros D HD; iter_open;
        replace (zlen D) with (zlen d0) by (unfold zlen; lia); rewrite ?Z.ltb_irrefl; reflexivity
      | let E := fresh "E" in
        pose proof (upper_while pk c b p d0 H1 H2 fuel 0%nat [] eq_refl ltac:(lia) ltac:(lia)) as E;
        cbv beta in E; cbn [skipn app] in E; change (Z.of_nat 0) with 0 in E; rewrite E; clear E H1 H2; reflexivity ] ]
  end.

(* dst holds bytes (upper is exact on bytes only); for every fuel above its length *)
Theorem code_toUpper : forall fuel dst, bytes dst -> (length dst < fuel)%nat -> g_toUpper fuel dst = Ret (to_upper dst).
Proof.
  intros fuel dst Hb Hf. unfold g_toUpper. set (K1 := g_upper). repeat autounfold with go2v. subst K1. step_code.
  match goal with |- match while _ ?c ?b ?p ?s0 with _ => _ end = _ =>
    first [ solve [upper_shape (fun (i : Z) (d : list Z) => (i, d)) c b p fuel]
          | solve [upper_shape (fun (i : Z) (d : list Z) => (d, i)) c b p fuel] ]
  end.
Qed.

(* ================================================================== OctalFormat, HexFormat (enc.go) *)
(* the loop shared by octal_format_go and hex_format_go: one four-byte escape per input byte *)
Fixpoint fmt_go (esc : Z -> option (list Z)) (cap : nat) (s out : list Z) : option (list Z) :=
  match s with
  | [] => Some (pad_to cap out)
  | c :: t => if (length out + 4 <=? cap)%nat then match esc c with None => None | Some e => fmt_go esc cap t (out ++ e) end else None
  end.
Definition esc_oct (c : Z) : option (list Z) := option_map (cons 92) (append_uint 3 c 8).
Definition esc_hex (c : Z) : option (list Z) := option_map (fun d => 92 :: 120 :: to_upper d) (append_uint 2 c 16).
Lemma octal_format_go_fmt : forall s cap out, octal_format_go cap s out = fmt_go esc_oct cap s out.
Proof.
  induction s as [|c t IH]; intros cap out; cbn [octal_format_go fmt_go]; [reflexivity|].
  destruct (length out + 4 <=? cap)%nat; [|reflexivity]. unfold esc_oct. destruct (append_uint 3 c 8); cbn [option_map]; [apply IH|reflexivity].
Qed.
Lemma hex_format_go_fmt : forall s cap out, hex_format_go cap s out = fmt_go esc_hex cap s out.
Proof.
  induction s as [|c t IH]; intros cap out; cbn [hex_format_go fmt_go]; [reflexivity|].
  destruct (length out + 4 <=? cap)%nat; [|reflexivity]. unfold esc_hex. destruct (append_uint 2 c 16); cbn [option_map]; [apply IH|reflexivity].
Qed.

(* digits are bytes *)
Lemma fmt_digits_bytes base : 2 <= base <= 36 -> forall fuel v acc, bytes acc -> bytes (fmt_digits fuel base v acc).
Proof.
  intros Hb. induction fuel as [|fu IH]; intros v acc Ha; cbn [fmt_digits]; [exact Ha|].
  assert (Hd : bytes (digit_char (v mod base) :: acc)).
  { constructor; [|exact Ha]. pose proof (Z.mod_pos_bound v base ltac:(lia)). unfold is_byte, digit_char. destruct (v mod base <? 10); lia. }
  cbv zeta. destruct (v / base =? 0); [exact Hd|apply IH, Hd].
Qed.
Lemma append_uint_bytes w v base d : 2 <= base <= 36 -> append_uint w v base = Some d -> bytes d.
Proof.
  intros Hb H. unfold append_uint in H. destruct (length (format_bits v base) <=? w)%nat; [|discriminate]. injection H as <-.
  apply Forall_app. split; [apply Forall_forall; intros x Hx; apply repeat_spec in Hx; subst x; unfold is_byte; lia|].
  apply fmt_digits_bytes; [exact Hb|constructor].
Qed.
Lemma append_uint_length w v base d : append_uint w v base = Some d -> length d = w.
Proof.
  intros H. unfold append_uint in H. destruct (Nat.leb_spec (length (format_bits v base)) w); [|discriminate]. injection H as <-.
  rewrite app_length, repeat_length. lia.
Qed.

(* the make()d buffer: what was written so far, zeros behind it *)
Lemma pad_length cap out : (length out <= cap)%nat -> length (pad_to cap out) = cap.
Proof. intros H. unfold pad_to. rewrite app_length, repeat_length. lia. Qed.
Lemma repeat_cons_app {A} (x : A) n : repeat x (S n) = repeat x n ++ [x].
Proof. induction n as [|n IH]; [reflexivity|]. cbn [repeat app] in *. rewrite <- IH. reflexivity. Qed.
Lemma m_set_pad cap out i v : i = Z.of_nat (length out) -> (length out < cap)%nat ->
  m_set (pad_to cap out) i v = Ret (pad_to cap (out ++ [v])).
Proof.
  intros -> H. unfold pad_to. replace (cap - length out)%nat with (S (cap - length (out ++ [v]))) by (rewrite app_length; cbn [length]; lia).
  cbn [repeat]. unfold m_set, set_at. rewrite app_length. cbn [length]. rewrite repeat_length.
  destruct (Z.leb_spec 0 (Z.of_nat (length out))); [|lia].
  destruct (Z.ltb_spec (Z.of_nat (length out)) (Z.of_nat (length out + S (cap - length (out ++ [v]))))); [|lia].
  cbn [andb lift]. rewrite Nat2Z.id, upd_mid, <- app_assoc. reflexivity.
Qed.
Lemma skipn_repeat {A} (x : A) n k : skipn k (repeat x n) = repeat x (n - k).
Proof. revert k. induction n as [|n IH]; intros [|k]; cbn [repeat skipn Nat.sub]; try reflexivity. apply IH. Qed.
Lemma firstn_repeat {A} (x : A) n k : (k <= n)%nat -> firstn k (repeat x n) = repeat x k.
Proof. revert k. induction n as [|n IH]; intros [|k] H; cbn [repeat firstn]; try reflexivity; [lia|]. rewrite IH by lia. reflexivity. Qed.
Lemma m_slice_pad cap out a b n : a = Z.of_nat (length out) -> b = a + Z.of_nat n -> (length out + n <= cap)%nat ->
  m_slice (pad_to cap out) a b = Ret (repeat 0 n).
Proof.
  intros -> -> H. rewrite m_slice_in by (unfold zlen; rewrite ?pad_length by lia; lia). f_equal.
  replace (Z.to_nat (Z.of_nat (length out) + Z.of_nat n) - Z.to_nat (Z.of_nat (length out)))%nat with n by lia.
  rewrite Nat2Z.id. unfold pad_to. rewrite skipn_app, skipn_all, Nat.sub_diag. cbn [skipn app]. apply firstn_repeat. lia.
Qed.
Lemma splice_pad cap out a b x : a = Z.of_nat (length out) -> b = a + Z.of_nat (length x) -> (length out + length x <= cap)%nat ->
  splice (pad_to cap out) a b x = pad_to cap (out ++ x).
Proof.
  intros -> -> H. unfold splice, pad_to. rewrite Nat2Z.id.
  replace (Z.to_nat (Z.of_nat (length out) + Z.of_nat (length x))) with (length out + length x)%nat by lia.
  rewrite firstn_app, firstn_all, Nat.sub_diag. cbn [firstn]. rewrite app_nil_r.
  rewrite skipn_app, skipn_all2 by lia. cbn [app]. rewrite skipn_repeat, <- app_assoc, app_length.
  do 3 f_equal. lia.
Qed.
(* the escape just written: the last bytes of the written part *)
Lemma m_slice_tail cap out d a b : a = Z.of_nat (length out) -> b = a + Z.of_nat (length d) -> (length out + length d <= cap)%nat ->
  m_slice (pad_to cap (out ++ d)) a b = Ret d.
Proof.
  intros -> -> H. rewrite m_slice_in by (unfold zlen; rewrite ?pad_length by (rewrite app_length; lia); lia). f_equal.
  replace (Z.to_nat (Z.of_nat (length out) + Z.of_nat (length d)) - Z.to_nat (Z.of_nat (length out)))%nat with (length d) by lia.
  rewrite Nat2Z.id. unfold pad_to. rewrite <- app_assoc, skipn_app, skipn_all, Nat.sub_diag. cbn [skipn app].
  rewrite firstn_app, firstn_all, Nat.sub_diag. cbn [firstn]. apply app_nil_r.
Qed.
Lemma splice_tail cap out d a b x : a = Z.of_nat (length out) -> b = a + Z.of_nat (length d) -> length x = length d ->
  (length out + length d <= cap)%nat -> splice (pad_to cap (out ++ d)) a b x = pad_to cap (out ++ x).
Proof.
  intros -> -> Hx H. unfold splice, pad_to. rewrite Nat2Z.id.
  replace (Z.to_nat (Z.of_nat (length out) + Z.of_nat (length d))) with (length (out ++ d)) by (rewrite app_length; lia).
  rewrite <- !app_assoc. rewrite firstn_app, firstn_all, Nat.sub_diag. cbn [firstn]. rewrite app_nil_r.
  rewrite (app_assoc out d), skipn_app, skipn_all, Nat.sub_diag. cbn [skipn app].
  rewrite !app_length, Hx. reflexivity.
Qed.
Lemma m_copy_pad cap out a b lit : a = Z.of_nat (length out) -> b = a + Z.of_nat (length lit) -> (length out + length lit <= cap)%nat ->
  m_copy (pad_to cap out) a b lit = Ret (pad_to cap (out ++ lit), Z.of_nat (length lit)).
Proof.
  intros -> -> H. rewrite m_copy_in by (unfold zlen; rewrite ?pad_length by lia; lia). rewrite Nat2Z.id.
  replace (Z.to_nat (Z.of_nat (length out) + Z.of_nat (length lit))) with (length out + length lit)%nat by lia.
  replace (length out + length lit - length out)%nat with (length lit) by lia.
  unfold pad_to at 1 2 3. rewrite firstn_app, firstn_all, Nat.sub_diag. cbn [firstn]. rewrite app_nil_r.
  rewrite skipn_app, skipn_all, Nat.sub_diag. cbn [skipn app]. rewrite firstn_repeat by lia.
  rewrite gocopy_same by (rewrite repeat_length; reflexivity).
  f_equal. f_equal.
  - unfold pad_to. rewrite <- app_assoc. f_equal. f_equal.
    rewrite skipn_app, skipn_all2 by lia. cbn [app]. rewrite skipn_repeat, app_length. f_equal. lia.
  - rewrite firstn_length, skipn_length, pad_length by lia. f_equal. lia.
Qed.
Lemma m_make_ok n : 0 <= n -> m_make n = Ret (repeat 0 (Z.to_nat n)).
Proof. intros H. unfold m_make. destruct (Z.ltb_spec n 0); [lia|reflexivity]. Qed.

(* the loop, for any packing pk of (buffer, j, f, i) — pk may ignore f, which is dead at the start of an iteration —
   given what one iteration does on a buffer with room for one more escape *)
Lemma fmt_while {St R} (pk : list Z -> Z -> Z -> Z -> St) (c : St -> M bool) (b : St -> M (ctl St R)) (p : St -> M St)
    (s : list Z) (cap : nat) (esc : Z -> option (list Z)) (fo : Z) :
  (forall k out f0 e, (k < length s)%nat -> esc (nth k s 0) = Some e -> length e = 4%nat -> (length out + 4 <= cap)%nat ->
     iter1 c b p (pk (pad_to cap out) (Z.of_nat (length out)) f0 (Z.of_nat k)) =
     Ret (inl (pk (pad_to cap (out ++ e)) (Z.of_nat (length out) + 4) (Z.of_nat (length out) + fo) (Z.of_nat k + 1)))) ->
  (forall B j f0, iter1 c b p (pk B j f0 (zlen s)) = Ret (inr (inl (pk B j f0 (zlen s))))) ->
  (forall k, (k < length s)%nat -> exists e, esc (nth k s 0) = Some e /\ length e = 4%nat) ->
  cap = (4 * length s)%nat ->
  forall fuel k out f0, length out = (4 * k)%nat -> (k <= length s)%nat -> (length s - k < fuel)%nat ->
    exists B j f1, while fuel c b p (pk (pad_to cap out) (Z.of_nat (length out)) f0 (Z.of_nat k)) = Ret (inl (pk B j f1 (zlen s)))
                   /\ fmt_go esc cap (skipn k s) out = Some B.
Proof.
  intros Hin Hend Hesc Hcap. induction fuel as [|fuel IH]; intros k out f0 Ho Hk Hf; [lia|]. rewrite while_iter.
  destruct (Nat.eq_dec k (length s)) as [->|Hne].
  - fold (zlen s). rewrite Hend, skipn_all. cbn [bind fmt_go]. eauto.
  - assert (Hlt : (k < length s)%nat) by lia. destruct (Hesc k Hlt) as (e & He & Hle).
    rewrite (Hin k out f0 e Hlt He Hle) by lia. cbn [bind].
    rewrite (skipn_cons_nth s k Hlt). cbn [fmt_go]. destruct (Nat.leb_spec (length out + 4) cap); [|lia]. rewrite He.
    replace (Z.of_nat (length out) + 4) with (Z.of_nat (length (out ++ e))) by (rewrite app_length; lia).
    replace (Z.of_nat k + 1) with (Z.of_nat (S k)) by lia.
    apply IH; rewrite ?app_length; lia.
Qed.

Ltac pad_side := unfold to_upper; repeat (rewrite ?app_length, ?repeat_length, ?map_length; cbn [length]); lia.
(* one iteration on concrete generated code: the checked buffer operations are rewritten into their values *)
Ltac fmt_iter s n Hfuel :=
  repeat first
    [ erewrite m_set_pad by pad_side
    | erewrite (m_slice_pad _ _ _ _ n) by pad_side
    | rewrite (m_get_in s) by (unfold zlen; lia)
    | rewrite Nat2Z.id
    | rewrite code_appendUint by (rewrite ?repeat_length; lia)
    | rewrite repeat_length
    | erewrite m_slice_tail by pad_side
    | rewrite code_toUpper by (first [ eassumption | pad_side ])
    | erewrite splice_tail by pad_side
    | erewrite splice_pad by pad_side
    | erewrite m_copy_pad by pad_side
    | progress step_code ].

Ltac fmt_shape pk c b p fuel esc fo n unfold_esc :=
  lazymatch goal with Hb : bytes ?s, Hcap : ?cap = (4 * length ?s)%nat, Hesc : forall k, (k < length ?s)%nat -> exists e, esc _ = Some e /\ _ |- _ =>
    let H1 := fresh "H1" in let H2 := fresh "H2" in
    assert (H1 : forall k out f0 e, (k < length s)%nat -> esc (nth k s 0) = Some e -> length e = 4%nat -> (length out + 4 <= cap)%nat ->
       iter1 c b p (pk (pad_to cap out) (Z.of_nat (length out)) f0 (Z.of_nat k)) =
       Ret (inl (pk (pad_to cap (out ++ e)) (Z.of_nat (length out) + 4) (Z.of_nat (length out) + fo) (Z.of_nat k + 1))));
    [ let k := fresh "k" in let out := fresh "out" in let f0 := fresh "f0" in let e := fresh "e" in
      let Hk := fresh "Hk" in let He := fresh "He" in let Hle := fresh "Hle" in let Hroom := fresh "Hroom" in
      intros k out f0 e Hk He Hle Hroom; iter_open;
      assert (Hl : (Z.of_nat k <? zlen s) = true) by (apply Z.ltb_lt; unfold zlen; lia); rewrite ?Hl;
      unfold_esc He;
      match type of He with option_map _ ?au = Some _ =>
        let d := fresh "d" in let Ed := fresh "Ed" in
        destruct au as [d|] eqn:Ed; [|discriminate He]; cbn [option_map] in He; injection He as He; subst e;
        pose proof (append_uint_length _ _ _ _ Ed) as Hdl; assert (Hdb : bytes d) by (eapply append_uint_bytes; [|exact Ed]; lia);
        fmt_iter s n fuel; rewrite ?Ed; cbn [lift]; fmt_iter s n fuel;
        rewrite <- ?app_assoc; cbn [app]; reflexivity
      end
    | assert (H2 : forall B j f0, iter1 c b p (pk B j f0 (zlen s)) = Ret (inr (inl (pk B j f0 (zlen s)))));
      [ intros; iter_open; rewrite ?Z.ltb_irrefl; reflexivity
      | let B := fresh "B" in let j := fresh "j" in let f1 := fresh "f1" in let E := fresh "E" in let F := fresh "F" in
        destruct (fmt_while pk c b p s cap esc fo H1 H2 Hesc Hcap fuel 0%nat [] 0 eq_refl ltac:(lia) ltac:(lia)) as (B & j & f1 & E & F);
        cbv beta in E; cbn [length] in E; change (Z.of_nat 0) with 0 in E; rewrite E; clear E H1 H2;
        cbn [skipn] in F; cbv beta iota; rewrite F; reflexivity ] ]
  end.

Lemma esc_oct_some (s : list Z) : bytes s -> forall k, (k < length s)%nat -> exists e, esc_oct (nth k s 0) = Some e /\ length e = 4%nat.
Proof.
  intros Hb k Hk. unfold esc_oct. rewrite octfmt3 by (apply nth_byte; assumption). cbn [option_map]. eexists. split; [reflexivity|reflexivity].
Qed.
Lemma esc_hex_some (s : list Z) : bytes s -> forall k, (k < length s)%nat -> exists e, esc_hex (nth k s 0) = Some e /\ length e = 4%nat.
Proof.
  intros Hb k Hk. unfold esc_hex. pose proof (hexfmt2 _ (nth_byte s k Hb Hk)) as H.
  destruct (append_uint 2 (nth k s 0) 16) as [d|] eqn:E; [|discriminate]. cbn [option_map]. eexists. split; [reflexivity|].
  cbn [length]. unfold to_upper. rewrite map_length, (append_uint_length _ _ _ _ E). reflexivity.
Qed.
Lemma make_pad n : repeat 0 n = pad_to n [].
Proof. unfold pad_to. cbn [app length]. rewrite Nat.sub_0_r. reflexivity. Qed.

(* for every byte string and every fuel above its length *)
Theorem code_OctalFormat : forall fuel s, bytes s -> (length s < fuel)%nat -> g_OctalFormat fuel s = lift (octal_format s).
Proof.
  intros fuel s Hb Hf. unfold g_OctalFormat. set (K1 := g_appendUint). repeat autounfold with go2v. subst K1. step_code.
  rewrite m_make_ok by (unfold zlen; lia). step_code.
  unfold octal_format. rewrite octal_format_go_fmt.
  replace (Z.to_nat (zlen s * 4)) with (4 * length s)%nat by (unfold zlen; lia). replace (length s * 4)%nat with (4 * length s)%nat by lia.
  rewrite make_pad. remember (4 * length s)%nat as cap eqn:Hcap. pose proof (esc_oct_some s Hb) as Hesc.
  match goal with |- match while _ ?c ?b ?p ?s0 with _ => _ end = _ =>
    first [ solve [fmt_shape (fun (B : list Z) (j f i : Z) => (B, j, f, i)) c b p fuel esc_oct 1 3%nat ltac:(fun H => unfold esc_oct in H)]
          | solve [fmt_shape (fun (B : list Z) (j f i : Z) => (i, B, j, f)) c b p fuel esc_oct 1 3%nat ltac:(fun H => unfold esc_oct in H)]
          | solve [fmt_shape (fun (B : list Z) (j f i : Z) => (B, j, i)) c b p fuel esc_oct 1 3%nat ltac:(fun H => unfold esc_oct in H)]
          | solve [fmt_shape (fun (B : list Z) (j f i : Z) => (i, B, j)) c b p fuel esc_oct 1 3%nat ltac:(fun H => unfold esc_oct in H)] ]
  end.
Qed.

(* ... and above 2: toUpper runs over the two digits with the caller's fuel *)
Theorem code_HexFormat : forall fuel s, bytes s -> (length s < fuel)%nat -> (2 < fuel)%nat -> g_HexFormat fuel s = lift (hex_format s).
Proof.
  intros fuel s Hb Hf Hf2. unfold g_HexFormat. set (K1 := g_appendUint). set (K2 := g_toUpper). repeat autounfold with go2v. subst K1 K2. step_code.
  rewrite m_make_ok by (unfold zlen; lia). step_code.
  unfold hex_format. rewrite hex_format_go_fmt.
  replace (Z.to_nat (zlen s * 4)) with (4 * length s)%nat by (unfold zlen; lia). replace (length s * 4)%nat with (4 * length s)%nat by lia.
  rewrite make_pad. remember (4 * length s)%nat as cap eqn:Hcap. pose proof (esc_hex_some s Hb) as Hesc.
  match goal with |- match while _ ?c ?b ?p ?s0 with _ => _ end = _ =>
    first [ solve [fmt_shape (fun (B : list Z) (j f i : Z) => (B, j, f, i)) c b p fuel esc_hex 2 2%nat ltac:(fun H => unfold esc_hex in H)]
          | solve [fmt_shape (fun (B : list Z) (j f i : Z) => (i, B, j, f)) c b p fuel esc_hex 2 2%nat ltac:(fun H => unfold esc_hex in H)]
          | solve [fmt_shape (fun (B : list Z) (j f i : Z) => (B, j, i)) c b p fuel esc_hex 2 2%nat ltac:(fun H => unfold esc_hex in H)]
          | solve [fmt_shape (fun (B : list Z) (j f i : Z) => (i, B, j)) c b p fuel esc_hex 2 2%nat ltac:(fun H => unfold esc_hex in H)] ]
  end.
Qed.

(* ================================================================== OctalParse, HexParse (enc.go) *)
(* the hand model returns dst[:n]; the generated function returns the whole dst and n *)
Definition fill (out d0 : list Z) : list Z := out ++ skipn (length out) d0.
Definition parse_res (d0 out : list Z) : list Z * Z := (fill out d0, zlen out).

Lemma fill_length out d0 : (length out <= length d0)%nat -> length (fill out d0) = length d0.
Proof. intros H. unfold fill. rewrite app_length, skipn_length. lia. Qed.
Lemma fill_nil d0 : fill [] d0 = d0.
Proof. reflexivity. Qed.
Lemma skipn_skipn {A} (l : list A) : forall a b, skipn a (skipn b l) = skipn (b + a) l.
Proof. induction l as [|x l IH]; intros a [|b]; cbn [skipn Nat.add]; try reflexivity; [destruct a; reflexivity|apply IH]. Qed.
(* n := copy(dst[e:], lit) *)
Lemma m_copy_fill out d0 e z lit : e = Z.of_nat (length out) -> z = Z.of_nat (length d0) -> (length out <= length d0)%nat ->
  m_copy (fill out d0) e z lit =
  Ret (fill (out ++ firstn (length d0 - length out) lit) d0, Z.of_nat (length (firstn (length d0 - length out) lit))).
Proof.
  intros -> -> H. rewrite m_copy_in by (unfold zlen; rewrite ?fill_length by lia; lia). rewrite !Nat2Z.id.
  unfold fill at 1 2 3. rewrite firstn_app, firstn_all, Nat.sub_diag. cbn [firstn]. rewrite app_nil_r.
  rewrite (skipn_all2 (n := length d0)) by (rewrite app_length, skipn_length; lia).
  rewrite skipn_app, skipn_all, Nat.sub_diag. cbn [skipn app]. rewrite app_nil_r.
  rewrite (firstn_all2 (n := (length d0 - length out)%nat)) by (rewrite skipn_length; lia).
  set (T := skipn (length out) d0). assert (HT : length T = (length d0 - length out)%nat) by (unfold T; rewrite skipn_length; lia).
  f_equal. f_equal.
  - unfold fill, gocopy. rewrite HT, <- app_assoc. f_equal. f_equal. unfold T. rewrite skipn_skipn, app_length, firstn_length.
    destruct (Nat.le_gt_cases (length lit) (length d0 - length out)); [f_equal; lia|].
    rewrite !skipn_all2 by lia. reflexivity.
  - rewrite !firstn_length, skipn_length, fill_length by lia. f_equal. lia.
Qed.
(* dst[e] = v *)
Lemma m_set_fill out d0 e v : e = Z.of_nat (length out) -> (length out < length d0)%nat -> m_set (fill out d0) e v = Ret (fill (out ++ [v]) d0).
Proof.
  intros -> H. unfold fill. rewrite (skipn_cons_nth d0 (length out) H). unfold m_set, set_at. rewrite app_length. cbn [length].
  destruct (Z.leb_spec 0 (Z.of_nat (length out))); [|lia].
  destruct (Z.ltb_spec (Z.of_nat (length out)) (Z.of_nat (length out + S (length (skipn (S (length out)) d0))))); [|lia].
  cbn [andb lift]. rewrite Nat2Z.id, upd_mid, <- app_assoc, app_length. cbn [length app]. rewrite Nat.add_1_r. reflexivity.
Qed.
Lemma m_set_fill_out out d0 e v : e = Z.of_nat (length out) -> (length d0 <= length out)%nat -> m_set (fill out d0) e v = Panic.
Proof.
  intros -> H. unfold fill. rewrite skipn_all2 by lia. rewrite app_nil_r. unfold m_set, set_at.
  destruct (Z.ltb_spec (Z.of_nat (length out)) (Z.of_nat (length out))); [lia|]. rewrite andb_false_r. reflexivity.
Qed.
(* utf8.EncodeRune(dst[e:], r): the slice behind the written part, the encoder, the write-back *)
Lemma m_slice_fill_tail (out d0 : list Z) e z : e = Z.of_nat (length out) -> z = Z.of_nat (length d0) -> (length out <= length d0)%nat ->
  m_slice (fill out d0) e z = Ret (skipn (length out) d0).
Proof.
  intros -> -> H. rewrite m_slice_in by (unfold zlen; rewrite ?fill_length by lia; lia). rewrite !Nat2Z.id. unfold fill.
  rewrite skipn_app, skipn_all, Nat.sub_diag. cbn [skipn app]. rewrite firstn_all2 by (rewrite skipn_length; lia). reflexivity.
Qed.
Lemma encode_fill_ok (out d0 : list Z) (r : Z) : (length out + length (Utf8.encode_rune r) <= length d0)%nat ->
  std_utf8_EncodeRune (skipn (length out) d0) r =
  Ret (Utf8.encode_rune r ++ skipn (length (Utf8.encode_rune r)) (skipn (length out) d0), zlen (Utf8.encode_rune r)).
Proof.
  intros H. unfold std_utf8_EncodeRune. cbv zeta. unfold zlen. rewrite skipn_length.
  destruct (Z.leb_spec (Z.of_nat (length (Utf8.encode_rune r))) (Z.of_nat (length d0 - length out))); [reflexivity|lia].
Qed.
Lemma encode_fill_panic (out d0 : list Z) (r : Z) : (length out <= length d0)%nat -> (length d0 < length out + length (Utf8.encode_rune r))%nat ->
  std_utf8_EncodeRune (skipn (length out) d0) r = Panic.
Proof.
  intros Ho H. unfold std_utf8_EncodeRune. cbv zeta. unfold zlen. rewrite skipn_length.
  destruct (Z.leb_spec (Z.of_nat (length (Utf8.encode_rune r))) (Z.of_nat (length d0 - length out))); [lia|reflexivity].
Qed.
Lemma splice_fill (out d0 : list Z) e z (bs : list Z) : e = Z.of_nat (length out) -> z = Z.of_nat (length d0) -> (length out + length bs <= length d0)%nat ->
  splice (fill out d0) e z (bs ++ skipn (length bs) (skipn (length out) d0)) = fill (out ++ bs) d0.
Proof.
  intros -> -> H. unfold splice, fill. rewrite !Nat2Z.id. rewrite firstn_app, firstn_all, Nat.sub_diag. cbn [firstn]. rewrite app_nil_r.
  rewrite (skipn_all2 (n := length d0)) by (rewrite app_length, skipn_length; lia). rewrite app_nil_r.
  rewrite skipn_skipn, app_length, <- !app_assoc. reflexivity.
Qed.
(* the same facts in exactly the shape the generated code and the model's own checks have (cheap side conditions) *)
Lemma zlen_fill (out d0 : list Z) : (length out <= length d0)%nat -> zlen (fill out d0) = Z.of_nat (length d0).
Proof. intros H. unfold zlen. rewrite fill_length by exact H. reflexivity. Qed.
Lemma m_copy_fill' (out d0 lit : list Z) : (length out <= length d0)%nat ->
  m_copy (fill out d0) (Z.of_nat (length out)) (zlen (fill out d0)) lit =
  Ret (fill (out ++ firstn (length d0 - length out) lit) d0, Z.of_nat (length (firstn (length d0 - length out) lit))).
Proof. intros H. apply m_copy_fill; [reflexivity|apply zlen_fill, H|exact H]. Qed.
Lemma m_set_fill' (out d0 : list Z) v : (length out + length [v] <= length d0)%nat ->
  m_set (fill out d0) (Z.of_nat (length out)) v = Ret (fill (out ++ [v]) d0).
Proof. intros H. cbn [length] in H. apply m_set_fill; [reflexivity|lia]. Qed.
Lemma m_set_fill_out' (out d0 : list Z) v : (length d0 < length out + length [v])%nat ->
  m_set (fill out d0) (Z.of_nat (length out)) v = Panic.
Proof. intros H. cbn [length] in H. apply m_set_fill_out; [reflexivity|lia]. Qed.
Lemma m_slice_fill_tail' (out d0 : list Z) : (length out <= length d0)%nat ->
  m_slice (fill out d0) (Z.of_nat (length out)) (zlen (fill out d0)) = Ret (skipn (length out) d0).
Proof. intros H. apply m_slice_fill_tail; [reflexivity|apply zlen_fill, H|exact H]. Qed.
Lemma splice_fill' (out d0 bs : list Z) : (length out + length bs <= length d0)%nat ->
  splice (fill out d0) (Z.of_nat (length out)) (zlen (fill out d0)) (bs ++ skipn (length bs) (skipn (length out) d0)) = fill (out ++ bs) d0.
Proof. intros H. apply splice_fill; [reflexivity|apply zlen_fill; lia|exact H]. Qed.
Lemma swrap32_rune v : 0 <= v <= 1114111 -> swrap 32 v = v.
Proof. intros H. unfold swrap. change (2 ^ (32 - 1)) with 2147483648. change (2 ^ 32) with 4294967296. rewrite Z.mod_small by lia. lia. Qed.
Lemma pu_step_nonneg base maxv n c n1 : pu_step base maxv n c = inl n1 -> 0 <= n1.
Proof.
  unfold pu_step. destruct (digit c); [|discriminate]. destruct (base <=? z); [discriminate|]. destruct (cutoff base <=? n); [discriminate|].
  cbv zeta. destruct (_ || _); [discriminate|]. intros H. injection H as <-. apply Z.mod_pos_bound. reflexivity.
Qed.
Lemma pu_nonneg base maxv : 0 <= maxv -> forall ds n j v j' ok, 0 <= n -> pu base maxv n j ds = (v, j', ok) -> 0 <= v.
Proof.
  intros Hm. induction ds as [|c t IH]; intros n j v j' ok Hn H.
  - cbn [pu] in H. injection H as <- _ _. exact Hn.
  - rewrite pu_cons in H. destruct (pu_step base maxv n c) as [n1|w] eqn:E.
    + apply (IH n1 (S j) v j' ok); [eapply pu_step_nonneg; exact E|exact H].
    + injection H as <- _ _. unfold pu_step in E. destruct (digit c); [|injection E as <-; lia].
      destruct (base <=? z); [injection E as <-; lia|]. destruct (cutoff base <=? n); [injection E as <-; exact Hm|].
      cbv zeta in E. destruct (_ || _); [injection E as <-; exact Hm|discriminate].
Qed.
Lemma pu_le base maxv : 0 <= maxv -> forall ds n j v j' ok, n <= maxv -> pu base maxv n j ds = (v, j', ok) -> v <= maxv.
Proof.
  intros Hm. induction ds as [|c t IH]; intros n j v j' ok Hn H.
  - cbn [pu] in H. injection H as <- _ _. exact Hn.
  - rewrite pu_cons in H. destruct (pu_step base maxv n c) as [n1|w] eqn:E.
    + apply (IH n1 (S j) v j' ok); [|exact H]. unfold pu_step in E. destruct (digit c); [|discriminate].
      destruct (base <=? z); [discriminate|]. destruct (cutoff base <=? n); [discriminate|]. cbv zeta in E.
      destruct (((n * base) mod two64 + z) mod two64 <? (n * base) mod two64); cbn [orb] in E; [discriminate|].
      destruct (Z.ltb_spec maxv (((n * base) mod two64 + z) mod two64)); [discriminate|]. injection E as <-. assumption.
    + injection H as <- _ _. unfold pu_step in E. destruct (digit c); [|injection E as <-; lia].
      destruct (base <=? z); [injection E as <-; lia|]. destruct (cutoff base <=? n); [injection E as <-; lia|].
      cbv zeta in E. destruct (_ || _); [injection E as <-; lia|discriminate].
Qed.
Lemma m_slice_nat (l : list Z) a b na nb : a = Z.of_nat na -> b = Z.of_nat nb -> (na <= nb <= length l)%nat ->
  m_slice l a b = Ret (firstn (nb - na) (skipn na l)).
Proof. intros -> -> H. rewrite m_slice_in by (unfold zlen; lia). rewrite !Nat2Z.id. reflexivity. Qed.
Lemma m_get_nat (l : list Z) i k : i = Z.of_nat k -> (k < length l)%nat -> m_get l i = Ret (nth k l 0).
Proof. intros -> H. unfold m_get. rewrite get_at_nth by exact H. reflexivity. Qed.

(* the model's loop, one iteration at a time: it ends ([finish]) when fewer than W bytes are left, otherwise it moves on *)
Section ParseStep.
Variables (W P : nat) (prefix : list Z) (base maxv : Z) (emit : Z -> option (list Z)) (dl : nat).
Definition gstep (src : list Z) (i f : nat) (out : list Z) : option (nat * nat * list Z) :=
  match pfx_ok P prefix src i with
  | None => None
  | Some false => Some (S i, f, out)
  | Some true =>
      match Codec.slice src (i + P) (i + W) with
      | None => None
      | Some ds =>
          let '(v, j, ok) := pu base maxv 0 0%nat ds in
          if negb ok then Some ((i + P + j)%nat, f, out)
          else match emit v with
               | None => Some ((i + W)%nat, f, out)
               | Some bs =>
                   match flush dl src f i out with
                   | None => None
                   | Some out1 => match write dl out1 bs with None => None | Some out2 => Some ((i + W)%nat, (i + W)%nat, out2) end
                   end
               end
      end
  end.
Lemma gparse_S fu src i f out :
  gparse W P prefix base maxv emit dl (S fu) src i f out =
  if (length src <=? i)%nat || (length src - i <? W)%nat then finish dl src f out
  else match gstep src i f out with None => None | Some (i', f', out') => gparse W P prefix base maxv emit dl fu src i' f' out' end.
Proof.
  cbn [gparse]. cbv zeta. destruct (length src <=? i)%nat; cbn [orb]; [reflexivity|]. destruct (length src - i <? W)%nat; [reflexivity|].
  unfold gstep. destruct (pfx_ok P prefix src i) as [[|]|]; try reflexivity.
  destruct (Codec.slice src (i + P) (i + W)) as [ds|]; [|reflexivity].
  destruct (pu base maxv 0 0%nat ds) as [[v j] ok]. destruct ok; cbn [negb]; [|reflexivity].
  destruct (emit v) as [bs|]; [|reflexivity]. destruct (flush dl src f i out) as [out1|]; [|reflexivity].
  destruct (write dl out1 bs); reflexivity.
Qed.
Lemma gstep_inv src i f out i' f' out' : (1 <= P)%nat -> (1 <= W)%nat -> (length out <= dl)%nat ->
  gstep src i f out = Some (i', f', out') -> (i < i')%nat /\ (length out' <= dl)%nat.
Proof.
  intros HP HW Ho H. unfold gstep in H. destruct (pfx_ok P prefix src i) as [[|]|]; try discriminate.
  2:{ injection H as <- <- <-. lia. }
  destruct (Codec.slice src (i + P) (i + W)) as [ds|]; [|discriminate].
  destruct (pu base maxv 0 0%nat ds) as [[v j] ok]. destruct ok; cbn [negb] in H.
  2:{ injection H as <- <- <-. lia. }
  destruct (emit v) as [bs|].
  2:{ injection H as <- <- <-. lia. }
  destruct (flush dl src f i out) as [out1|] eqn:Ef; [|discriminate].
  destruct (write dl out1 bs) as [out2|] eqn:Ew; [|discriminate]. injection H as <- <- <-. split; [lia|].
  unfold write in Ew. destruct (Nat.leb_spec (length out1 + length bs) dl); [|discriminate]. injection Ew as <-. rewrite app_length. lia.
Qed.
End ParseStep.

(* the loop and what follows it (K: the code behind the loop, a function of the loop's result), for any packing pk of
   (dst, e, f, i), given what one iteration does (ending / moving on) and what the code behind the loop does *)
Lemma parse_while {St} (pk : list Z -> Z -> Z -> Z -> St) (c : St -> M bool) (b : St -> M (ctl St (list Z * Z))) (p : St -> M St)
    (K : St + (list Z * Z) -> M (list Z * Z))
    (W P : nat) (prefix : list Z) (base maxv : Z) (emit : Z -> option (list Z)) (src d0 : list Z) :
  let ST := fun (out : list Z) (f i : nat) => pk (fill out d0) (Z.of_nat (length out)) (Z.of_nat f) (Z.of_nat i) in
  (1 <= P)%nat -> (1 <= W)%nat ->
  (forall out f i, (length out <= length d0)%nat -> (length src <= i \/ length src - i < W)%nat ->
     iter1 c b p (ST out f i) = Ret (inr (inl (ST out f i)))) ->
  (forall out f i, (length out <= length d0)%nat -> (i < length src)%nat -> (W <= length src - i)%nat ->
     iter1 c b p (ST out f i) =
     match gstep W P prefix base maxv emit (length d0) src i f out with None => Panic | Some (i', f', out') => Ret (inl (ST out' f' i')) end) ->
  (forall out f i, (length out <= length d0)%nat ->
     K (inl (ST out f i)) = mmap (parse_res d0) (lift (finish (length d0) src f out))) ->
  forall fuel i f out, (length out <= length d0)%nat -> (length src - i < fuel)%nat ->
    bind (while fuel c b p (ST out f i)) K = mmap (parse_res d0) (lift (gparse W P prefix base maxv emit (length d0) fuel src i f out)).
Proof.
  intros ST HP HW Hexit Hstep Hafter. induction fuel as [|fuel IH]; intros i f out Ho Hf; [lia|].
  rewrite while_iter, gparse_S.
  destruct (Nat.leb_spec (length src) i) as [Hge|Hlt]; cbn [orb].
  { rewrite Hexit by (auto; lia). cbn [bind]. apply Hafter, Ho. }
  destruct (Nat.ltb_spec (length src - i) W) as [Hshort|Hroom].
  { rewrite Hexit by (auto; lia). cbn [bind]. apply Hafter, Ho. }
  rewrite Hstep by lia.
  destruct (gstep W P prefix base maxv emit (length d0) src i f out) as [[[i' f'] out']|] eqn:Eg; [|reflexivity].
  destruct (gstep_inv W P prefix base maxv emit (length d0) src i f out i' f' out' HP HW Ho Eg) as [Hi Ho'].
  cbn [bind]. apply IH; [exact Ho'|lia].
Qed.

(* the prefix test of the model, for the two prefix lengths in use *)
Lemma firstn1_skipn (l : list Z) i : (i < length l)%nat -> firstn 1 (skipn i l) = [nth i l 0].
Proof. intros H. rewrite (skipn_cons_nth l i H). reflexivity. Qed.
Lemma firstn2_skipn (l : list Z) i : (i + 1 < length l)%nat -> firstn 2 (skipn i l) = [nth i l 0; nth (i + 1) l 0].
Proof. intros H. rewrite (skipn_cons_nth l i) by lia. rewrite (skipn_cons_nth l (S i)) by lia. rewrite Nat.add_1_r. reflexivity. Qed.
Lemma pfx_ok_1 c0 src i : (i < length src)%nat -> pfx_ok 1 [c0] src i = Some (nth i src 0 =? c0).
Proof.
  intros H. unfold pfx_ok. rewrite slice_some by lia. replace (i + 1 - i)%nat with 1%nat by lia. rewrite firstn1_skipn by exact H.
  destruct (list_eq_dec Z.eq_dec [nth i src 0] [c0]) as [E|E]; destruct (Z.eqb_spec (nth i src 0) c0); congruence.
Qed.
Lemma pfx_ok_2 c0 c1 src i : (i + 1 < length src)%nat -> pfx_ok 2 [c0; c1] src i = Some ((nth i src 0 =? c0) && (nth (i + 1) src 0 =? c1)).
Proof.
  intros H. unfold pfx_ok. rewrite slice_some by lia. replace (i + 2 - i)%nat with 2%nat by lia. rewrite firstn2_skipn by exact H.
  destruct (list_eq_dec Z.eq_dec [nth i src 0; nth (i + 1) src 0] [c0; c1]) as [E|E];
    destruct (Z.eqb_spec (nth i src 0) c0); destruct (Z.eqb_spec (nth (i + 1) src 0) c1); cbn [andb]; congruence.
Qed.

Section ParseFuel.
Variables (W P : nat) (prefix : list Z) (base maxv : Z) (emit : Z -> option (list Z)) (dl : nat).
Lemma gstep_adv src i f out i' f' out' : (1 <= P)%nat -> (1 <= W)%nat ->
  gstep W P prefix base maxv emit dl src i f out = Some (i', f', out') -> (i < i')%nat.
Proof.
  intros HP HW H. unfold gstep in H. destruct (pfx_ok P prefix src i) as [[|]|]; try discriminate.
  2:{ injection H as <- <- <-. lia. }
  destruct (Codec.slice src (i + P) (i + W)) as [ds|]; [|discriminate].
  destruct (pu base maxv 0 0%nat ds) as [[v j] ok]. destruct ok; cbn [negb] in H.
  2:{ injection H as <- <- <-. lia. }
  destruct (emit v) as [bs|].
  2:{ injection H as <- <- <-. lia. }
  destruct (flush dl src f i out) as [out1|]; [|discriminate].
  destruct (write dl out1 bs) as [out2|]; [|discriminate]. injection H as <- <- <-. lia.
Qed.
(* any two sufficient amounts of fuel give the same result *)
Lemma gparse_fuel src : (1 <= P)%nat -> (1 <= W)%nat -> forall f1 f2 i f out, (length src - i < f1)%nat -> (length src - i < f2)%nat ->
  gparse W P prefix base maxv emit dl f1 src i f out = gparse W P prefix base maxv emit dl f2 src i f out.
Proof.
  intros HP HW. induction f1 as [|f1 IH]; intros f2 i f out H1 H2; [lia|]. destruct f2 as [|f2]; [lia|].
  rewrite !gparse_S. destruct ((length src <=? i)%nat || (length src - i <? W)%nat) eqn:E; [reflexivity|].
  destruct (gstep W P prefix base maxv emit dl src i f out) as [[[i' f'] out']|] eqn:Eg; [|reflexivity].
  pose proof (gstep_adv src i f out i' f' out' HP HW Eg). apply orb_false_iff in E. destruct E as [E1 E2].
  apply Nat.leb_gt in E1. apply IH; lia.
Qed.
End ParseFuel.

#[local] Hint Rewrite app_length firstn_length skipn_length repeat_length map_length : lens.
Ltac fill_side :=
  first [ reflexivity | lia | (cbn [length] in *; lia)
        | (unfold zlen; rewrite ?fill_length by (autorewrite with lens; cbn [length]; lia); autorewrite with lens; cbn [length] in *; lia)
        | (unfold zlen in *; rewrite ?fill_length in * by (autorewrite with lens; cbn [length]; lia); autorewrite with lens in *; cbn [length] in *; lia) ].
(* after the literal run has been copied: what was written so far becomes a variable (only its length matters from here on) *)
Ltac abstract_out :=
  match goal with |- context [fill (?o ++ firstn ?n ?l) ?d] =>
    let o1 := fresh "out1" in let Ho1 := fresh "Ho1" in
    set (o1 := o ++ firstn n l) in *;
    assert (Ho1 : (length o1 <= length d)%nat) by (subst o1; autorewrite with lens; lia);
    replace (Z.of_nat (length o) + Z.of_nat (length (firstn n l))) with (Z.of_nat (length o1)) by (subst o1; autorewrite with lens; lia);
    clearbody o1
  end.
(* evaluation of straight-line generated code: the checked operations are rewritten into their values (or into Panic) as
   soon as the hypotheses decide them; otherwise the next comparison (of either side) is split *)
(* the conditions of the model side first: afterwards every operation of the code is decided by the hypotheses *)
Ltac break_rhs :=
  match goal with |- _ = ?rhs =>
    match rhs with
    | context [?a =? ?b] => destruct (a =? b) eqn:?
    | context [?a <? ?b] => destruct (a <? b) eqn:?
    | context [?a <=? ?b] => destruct (a <=? b) eqn:?
    | context [(?a <=? ?b)%nat] => destruct (a <=? b)%nat eqn:?
    | context [(?a <? ?b)%nat] => destruct (a <? b)%nat eqn:?
    | context [if ?c then _ else _] => destruct c eqn:?
    end
  end; cbn [negb andb orb].
(* a comparison of the code that the hypotheses decide *)
Ltac decide_cmp :=
  match goal with
  | |- context [?a <? ?b] => first [ rewrite (proj2 (Z.ltb_lt a b)) by lia | rewrite (proj2 (Z.ltb_ge a b)) by lia ]
  | |- context [?a <=? ?b] => first [ rewrite (proj2 (Z.leb_le a b)) by lia | rewrite (proj2 (Z.leb_gt a b)) by lia ]
  | |- context [?a =? ?b] => first [ rewrite (proj2 (Z.eqb_eq a b)) by lia | rewrite (proj2 (Z.eqb_neq a b)) by lia ]
  end; cbn [negb andb orb].
Ltac parse_eval src :=
  repeat first
    [ progress step_code
    | rewrite (slice_some src) by lia
    | (break_rhs; zb; try solve [exfalso; lia])
    | decide_cmp
    | rewrite wrap8_mod
    | rewrite swrap32_rune by lia
    | match goal with
      | |- context [m_slice src (Z.of_nat ?na) (Z.of_nat ?nb)] =>
          rewrite (m_slice_nat src (Z.of_nat na) (Z.of_nat nb) na nb eq_refl eq_refl) by lia
      | |- context [m_slice src (Z.of_nat ?na) (zlen src)] =>
          rewrite (m_slice_nat src (Z.of_nat na) (zlen src) na (length src) eq_refl eq_refl) by lia
      end
    | (rewrite m_copy_fill' by (first [assumption | lia]); try abstract_out)
    | rewrite m_set_fill' by (first [assumption | lia])
    | rewrite m_set_fill_out' by (first [assumption | lia])
    | rewrite m_slice_fill_tail' by (first [assumption | lia])
    | rewrite encode_fill_ok by (first [assumption | lia])
    | rewrite encode_fill_panic by (first [assumption | lia])
    | rewrite splice_fill' by (first [assumption | lia])
    | (erewrite m_copy_fill by fill_side; try abstract_out)
    | erewrite m_set_fill by fill_side
    | erewrite m_set_fill_out by fill_side
    | erewrite m_slice_fill_tail by fill_side
    | rewrite encode_fill_ok by fill_side
    | rewrite encode_fill_panic by fill_side
    | erewrite splice_fill by fill_side
    | (break_if; zb; try solve [exfalso; lia]) ].
Ltac parse_leaf := first [ reflexivity | (exfalso; fill_side) | (repeat f_equal; fill_side) ].

Ltac parse_shape pk c b p K fuel W P prefix base bits maxv emit pfx_tac :=
  lazymatch goal with Hfuel : (length ?src < fuel)%nat |- _ = mmap (parse_res ?d0) _ =>
    let Hexit := fresh "Hexit" in let Hstep := fresh "Hstep" in let Hafter := fresh "Hafter" in
    assert (Hexit : forall out f i, (length out <= length d0)%nat -> (length src <= i \/ length src - i < W)%nat ->
       iter1 c b p (pk (fill out d0) (Z.of_nat (length out)) (Z.of_nat f) (Z.of_nat i)) =
       Ret (inr (inl (pk (fill out d0) (Z.of_nat (length out)) (Z.of_nat f) (Z.of_nat i)))));
    [ intros; iter_open; unfold zlen; repeat break_if; zb; try reflexivity; exfalso; lia | ];
    assert (Hstep : forall out f i, (length out <= length d0)%nat -> (i < length src)%nat -> (W <= length src - i)%nat ->
       iter1 c b p (pk (fill out d0) (Z.of_nat (length out)) (Z.of_nat f) (Z.of_nat i)) =
       match gstep W P prefix base maxv emit (length d0) src i f out with
       | None => Panic
       | Some (i', f', out') => Ret (inl (pk (fill out' d0) (Z.of_nat (length out')) (Z.of_nat f') (Z.of_nat i')))
       end);
    [ let out := fresh "out" in let f := fresh "f" in let i := fresh "i" in
      let Ho := fresh "Ho" in let Hi := fresh "Hi" in let Hroom := fresh "Hroom" in
      intros out f i Ho Hi Hroom; iter_open;
      assert (Hc1 : (Z.of_nat i <? zlen src) = true) by (apply Z.ltb_lt; unfold zlen; lia);
      assert (Hc2 : (zlen src - Z.of_nat i <? Z.of_nat W) = false) by (apply Z.ltb_ge; unfold zlen; lia);
      cbn [Z.of_nat Pos.of_succ_nat Pos.succ] in Hc2; rewrite ?Hc1, ?Hc2;
      unfold gstep; pfx_tac;
      rewrite ?(m_get_nat src _ i) by lia; rewrite ?(m_get_nat src _ (i + 1)%nat) by lia;
      rewrite (slice_some src (i + P) (i + W)) by lia;
      erewrite (m_slice_nat src _ _ (i + P)%nat (i + W)%nat) by lia;
      rewrite code_parseUint by (rewrite ?firstn_length; lia);
      unfold parse_uint; change (maxval bits) with maxv;
      let v := fresh "v" in let j := fresh "j" in let ok := fresh "ok" in
      let Epu := fresh "Epu" in
      destruct (pu base maxv 0 0%nat (firstn (i + W - (i + P)) (skipn (i + P) src))) as [[v j] ok] eqn:Epu;
      pose proof (pu_nonneg base maxv ltac:(lia) _ 0 0%nat _ _ _ ltac:(lia) Epu) as Hvnn; clear Epu;
      cbn [pu_res]; unfold emit, flush, write, copy_into, MaxRune, RuneSelf; destruct ok; parse_eval src; parse_leaf
    | ];
    assert (Hafter : forall out f i, (length out <= length d0)%nat ->
       K (inl (pk (fill out d0) (Z.of_nat (length out)) (Z.of_nat f) (Z.of_nat i))) = mmap (parse_res d0) (lift (finish (length d0) src f out)));
    [ let out := fresh "out" in let f := fresh "f" in let i := fresh "i" in let Ho := fresh "Ho" in
      intros out f i Ho; cbv beta iota zeta delta [bind]; unfold finish, copy_into; parse_eval src;
      cbn [mmap lift]; unfold parse_res; parse_leaf
    | ];
    exact (parse_while pk c b p K W P prefix base maxv emit src d0 ltac:(lia) ltac:(lia) Hexit Hstep Hafter fuel 0%nat 0%nat []
             ltac:(cbn [length]; lia) ltac:(lia))
  end.

(* for every destination, every source and every fuel above the length of the source; dst and src do not overlap *)
Theorem code_OctalParse : forall fuel dst src, (length src < fuel)%nat ->
  g_OctalParse fuel dst src = mmap (parse_res dst) (lift (octal_parse (length dst) src)).
Proof.
  intros fuel dst src Hf. unfold g_OctalParse. set (K1 := g_parseUint). repeat autounfold with go2v. subst K1. step_code.
  rewrite octal_parse_eq. unfold esc_parse.
  rewrite <- (gparse_fuel 4 1 [92] 8 255 byte_emit (length dst) src ltac:(lia) ltac:(lia) fuel (S (length src)) 0 0 [] ltac:(lia) ltac:(lia)).
  match goal with |- match while _ ?c ?b ?p ?s0 with Ret a => @?K a | Panic => Panic | NoFuel => NoFuel end = _ =>
    change (bind (while fuel c b p s0) K = mmap (parse_res dst) (lift (gparse 4 1 [92] 8 255 byte_emit (length dst) fuel src 0 0 [])));
    first [ solve [parse_shape (fun (D : list Z) (e f i : Z) => (D, e, f, i)) c b p K fuel 4%nat 1%nat [92] 8 8 255 byte_emit ltac:(rewrite pfx_ok_1 by lia)]
          | solve [parse_shape (fun (D : list Z) (e f i : Z) => (D, f, e, i)) c b p K fuel 4%nat 1%nat [92] 8 8 255 byte_emit ltac:(rewrite pfx_ok_1 by lia)] ]
  end.
Qed.

Theorem code_HexParse : forall fuel dst src, (length src < fuel)%nat ->
  g_HexParse fuel dst src = mmap (parse_res dst) (lift (hex_parse (length dst) src)).
Proof.
  intros fuel dst src Hf. unfold g_HexParse. set (K1 := g_parseUint). repeat autounfold with go2v. subst K1. step_code.
  rewrite hex_parse_eq. unfold esc_parse.
  rewrite <- (gparse_fuel 4 2 [92; 120] 16 255 byte_emit (length dst) src ltac:(lia) ltac:(lia) fuel (S (length src)) 0 0 [] ltac:(lia) ltac:(lia)).
  match goal with |- match while _ ?c ?b ?p ?s0 with Ret a => @?K a | Panic => Panic | NoFuel => NoFuel end = _ =>
    change (bind (while fuel c b p s0) K = mmap (parse_res dst) (lift (gparse 4 2 [92; 120] 16 255 byte_emit (length dst) fuel src 0 0 [])));
    first [ solve [parse_shape (fun (D : list Z) (e f i : Z) => (D, e, f, i)) c b p K fuel 4%nat 2%nat [92; 120] 16 8 255 byte_emit ltac:(rewrite pfx_ok_2 by lia)]
          | solve [parse_shape (fun (D : list Z) (e f i : Z) => (D, f, e, i)) c b p K fuel 4%nat 2%nat [92; 120] 16 8 255 byte_emit ltac:(rewrite pfx_ok_2 by lia)] ]
  end.
Qed.

Theorem code_UnicodeParse : forall fuel dst src, (length src < fuel)%nat ->
  g_UnicodeParse fuel dst src = mmap (parse_res dst) (lift (unicode_parse (length dst) src)).
Proof.
  intros fuel dst src Hf. unfold g_UnicodeParse. set (K1 := g_parseUint). repeat autounfold with go2v. subst K1. step_code.
  rewrite unicode_parse_eq. unfold esc_parse.
  rewrite <- (gparse_fuel 10 2 [92; 85] 16 4294967295 unicode_emit (length dst) src ltac:(lia) ltac:(lia) fuel (S (length src)) 0 0 [] ltac:(lia) ltac:(lia)).
  match goal with |- match while _ ?c ?b ?p ?s0 with Ret a => @?K a | Panic => Panic | NoFuel => NoFuel end = _ =>
    change (bind (while fuel c b p s0) K = mmap (parse_res dst) (lift (gparse 10 2 [92; 85] 16 4294967295 unicode_emit (length dst) fuel src 0 0 [])));
    first [ solve [parse_shape (fun (D : list Z) (e f i : Z) => (D, e, f, i)) c b p K fuel 10%nat 2%nat [92; 85] 16 32 4294967295 unicode_emit ltac:(rewrite pfx_ok_2 by lia)]
          | solve [parse_shape (fun (D : list Z) (e f i : Z) => (D, f, e, i)) c b p K fuel 10%nat 2%nat [92; 85] 16 32 4294967295 unicode_emit ltac:(rewrite pfx_ok_2 by lia)] ]
  end.
Qed.

(* ================================================================== Utf16Parse (enc.go) *)
(* one iteration of the model's loop: it moves on, or leaves the loop (the `break` behind a high surrogate at the end) *)
Inductive ures : Type := UNext (i f : nat) (out : list Z) | UBreak (i f : nat) (out : list Z).
Definition ustep (dl : nat) (src : list Z) (i f : nat) (out : list Z) : option ures :=
  let n := length src in
  match is_u src i with
  | None => None
  | Some false => Some (UNext (S i) f out)
  | Some true =>
      match Codec.slice src (i + 2) (i + 6) with
      | None => None
      | Some ds =>
          let '(n1, j, ok) := pu 16 (maxval 16) 0 0%nat ds in
          if negb ok then Some (UNext (i + 2 + j) f out)
          else match flush dl src f i out with
               | None => None
               | Some out1 =>
                   let f1 := if (f <? i)%nat then i else f in
                   if (n1 <? u16_surr1) || (u16_surr3 <=? n1) then
                     match write dl out1 (Utf8.encode_rune n1) with
                     | None => None
                     | Some out2 => Some (UNext (i + 6) (i + 6) out2)
                     end
                   else if (u16_surr1 <=? n1) && (n1 <? u16_surr2) then
                     let i2 := (i + 6)%nat in
                     if (n - i2 <? 6)%nat then Some (UBreak i2 f1 out1)
                     else match is_u src i2 with
                          | None => None
                          | Some false => Some (UNext (S i2) f1 out1)
                          | Some true =>
                              match Codec.slice src (i2 + 2) (i2 + 6) with
                              | None => None
                              | Some ds2 =>
                                  let '(n2, j2, ok2) := pu 16 (maxval 16) 0 0%nat ds2 in
                                  if negb ok2 then Some (UNext (i2 + 2 + j2) f1 out1)
                                  else if (u16_surr2 <=? n2) && (n2 <? u16_surr3) then
                                         match write dl out1 (Utf8.encode_rune (utf16_decode n1 n2)) with
                                         | None => None
                                         | Some out2 => Some (UNext (i2 + 6) (i2 + 6) out2)
                                         end
                                       else Some (UNext (i2 + 6) f1 out1)
                              end
                          end
                   else Some (UNext (i + 6) f1 out1)
               end
      end
  end.
Lemma uparse_S dl fu src i f out :
  uparse dl (S fu) src i f out =
  if (length src <=? i)%nat || (length src - i <? 6)%nat then finish dl src f out
  else match ustep dl src i f out with
       | None => None
       | Some (UNext i' f' out') => uparse dl fu src i' f' out'
       | Some (UBreak i' f' out') => finish dl src f' out'
       end.
Proof.
  cbn [uparse]. cbv zeta. destruct (length src <=? i)%nat; cbn [orb]; [reflexivity|]. destruct (length src - i <? 6)%nat; [reflexivity|].
  unfold ustep. destruct (is_u src i) as [[|]|]; try reflexivity.
  destruct (Codec.slice src (i + 2) (i + 6)) as [ds|]; [|reflexivity].
  destruct (pu 16 (maxval 16) 0 0%nat ds) as [[n1 j] ok]. destruct ok; cbn [negb]; [|reflexivity].
  destruct (flush dl src f i out) as [out1|]; [|reflexivity]. cbv zeta.
  destruct ((n1 <? u16_surr1) || (u16_surr3 <=? n1)).
  { destruct (write dl out1 (Utf8.encode_rune n1)); reflexivity. }
  destruct ((u16_surr1 <=? n1) && (n1 <? u16_surr2)); [|reflexivity].
  destruct (length src - (i + 6) <? 6)%nat; [reflexivity|].
  destruct (is_u src (i + 6)) as [[|]|]; try reflexivity.
  destruct (Codec.slice src (i + 6 + 2) (i + 6 + 6)) as [ds2|]; [|reflexivity].
  destruct (pu 16 (maxval 16) 0 0%nat ds2) as [[n2 j2] ok2]. destruct ok2; cbn [negb]; [|reflexivity].
  destruct ((u16_surr2 <=? n2) && (n2 <? u16_surr3)); [|reflexivity].
  destruct (write dl out1 (Utf8.encode_rune (utf16_decode n1 n2))); reflexivity.
Qed.
Lemma flush_len dl src f i out out1 : (length out <= dl)%nat -> flush dl src f i out = Some out1 -> (length out1 <= dl)%nat.
Proof.
  intros Ho H. unfold flush in H. destruct (f <? i)%nat; [|injection H as <-; exact Ho].
  destruct (Codec.slice src f i) as [lit|]; [|discriminate]. unfold copy_into in H.
  destruct (length out <=? dl)%nat; [|discriminate]. injection H as <-. rewrite app_length, firstn_length. lia.
Qed.
Lemma write_len dl out bs out2 : write dl out bs = Some out2 -> (length out2 <= dl)%nat.
Proof.
  intros H. unfold write in H. destruct (Nat.leb_spec (length out + length bs) dl); [|discriminate]. injection H as <-. rewrite app_length. lia.
Qed.
Lemma ustep_inv dl src i f out r : (length out <= dl)%nat -> ustep dl src i f out = Some r ->
  match r with UNext i' _ out' => (i < i')%nat /\ (length out' <= dl)%nat | UBreak _ _ out' => (length out' <= dl)%nat end.
Proof.
  intros Ho H. unfold ustep in H. cbv zeta in H. destruct (is_u src i) as [[|]|]; try discriminate.
  2:{ injection H as <-. split; [lia|exact Ho]. }
  destruct (Codec.slice src (i + 2) (i + 6)) as [ds|]; [|discriminate].
  destruct (pu 16 (maxval 16) 0 0%nat ds) as [[n1 j] ok]. destruct ok; cbn [negb] in H.
  2:{ injection H as <-. split; [lia|exact Ho]. }
  destruct (flush dl src f i out) as [out1|] eqn:Ef; [|discriminate]. pose proof (flush_len _ _ _ _ _ _ Ho Ef) as Ho1.
  destruct ((n1 <? u16_surr1) || (u16_surr3 <=? n1)).
  { destruct (write dl out1 (Utf8.encode_rune n1)) as [out2|] eqn:Ew; [|discriminate]. injection H as <-. split; [lia|eapply write_len, Ew]. }
  destruct ((u16_surr1 <=? n1) && (n1 <? u16_surr2)).
  2:{ injection H as <-. split; [lia|exact Ho1]. }
  destruct (length src - (i + 6) <? 6)%nat; [injection H as <-; exact Ho1|].
  destruct (is_u src (i + 6)) as [[|]|]; try discriminate.
  2:{ injection H as <-. split; [lia|exact Ho1]. }
  destruct (Codec.slice src (i + 6 + 2) (i + 6 + 6)) as [ds2|]; [|discriminate].
  destruct (pu 16 (maxval 16) 0 0%nat ds2) as [[n2 j2] ok2]. destruct ok2; cbn [negb] in H.
  2:{ injection H as <-. split; [lia|exact Ho1]. }
  destruct ((u16_surr2 <=? n2) && (n2 <? u16_surr3)).
  2:{ injection H as <-. split; [lia|exact Ho1]. }
  destruct (write dl out1 (Utf8.encode_rune (utf16_decode n1 n2))) as [out2|] eqn:Ew; [|discriminate]. injection H as <-. split; [lia|eapply write_len, Ew].
Qed.
Lemma ustep_adv dl src i f out i' f' out' : ustep dl src i f out = Some (UNext i' f' out') -> (i < i')%nat.
Proof.
  intros H. unfold ustep in H. cbv zeta in H. destruct (is_u src i) as [[|]|]; try discriminate.
  2:{ injection H as <- _ _. lia. }
  destruct (Codec.slice src (i + 2) (i + 6)) as [ds|]; [|discriminate].
  destruct (pu 16 (maxval 16) 0 0%nat ds) as [[n1 j] ok]. destruct ok; cbn [negb] in H.
  2:{ injection H as <- _ _. lia. }
  destruct (flush dl src f i out) as [out1|]; [|discriminate].
  destruct ((n1 <? u16_surr1) || (u16_surr3 <=? n1)).
  { destruct (write dl out1 (Utf8.encode_rune n1)) as [out2|]; [|discriminate]. injection H as <- _ _. lia. }
  destruct ((u16_surr1 <=? n1) && (n1 <? u16_surr2)).
  2:{ injection H as <- _ _. lia. }
  destruct (length src - (i + 6) <? 6)%nat; [discriminate|].
  destruct (is_u src (i + 6)) as [[|]|]; try discriminate.
  2:{ injection H as <- _ _. lia. }
  destruct (Codec.slice src (i + 6 + 2) (i + 6 + 6)) as [ds2|]; [|discriminate].
  destruct (pu 16 (maxval 16) 0 0%nat ds2) as [[n2 j2] ok2]. destruct ok2; cbn [negb] in H.
  2:{ injection H as <- _ _. lia. }
  destruct ((u16_surr2 <=? n2) && (n2 <? u16_surr3)).
  2:{ injection H as <- _ _. lia. }
  destruct (write dl out1 (Utf8.encode_rune (utf16_decode n1 n2))) as [out2|]; [|discriminate]. injection H as <- _ _. lia.
Qed.
Lemma uparse_fuel dl src : forall f1 f2 i f out, (length src - i < f1)%nat -> (length src - i < f2)%nat ->
  uparse dl f1 src i f out = uparse dl f2 src i f out.
Proof.
  induction f1 as [|f1 IH]; intros f2 i f out H1 H2; [lia|]. destruct f2 as [|f2]; [lia|].
  rewrite !uparse_S. destruct ((length src <=? i)%nat || (length src - i <? 6)%nat) eqn:E; [reflexivity|].
  destruct (ustep dl src i f out) as [[i' f' out'|i' f' out']|] eqn:Eg; try reflexivity.
  pose proof (ustep_adv dl src i f out i' f' out' Eg). apply orb_false_iff in E. destruct E as [E1 E2].
  apply Nat.leb_gt in E1. apply IH; lia.
Qed.

Lemma uparse_while {St} (pk : list Z -> Z -> Z -> Z -> St) (c : St -> M bool) (b : St -> M (ctl St (list Z * Z))) (p : St -> M St)
    (K : St + (list Z * Z) -> M (list Z * Z)) (src d0 : list Z) :
  let ST := fun (out : list Z) (f i : nat) => pk (fill out d0) (Z.of_nat (length out)) (Z.of_nat f) (Z.of_nat i) in
  (forall out f i, (length out <= length d0)%nat -> (length src <= i \/ length src - i < 6)%nat ->
     iter1 c b p (ST out f i) = Ret (inr (inl (ST out f i)))) ->
  (forall out f i, (length out <= length d0)%nat -> (i < length src)%nat -> (6 <= length src - i)%nat ->
     iter1 c b p (ST out f i) =
     match ustep (length d0) src i f out with
     | None => Panic
     | Some (UNext i' f' out') => Ret (inl (ST out' f' i'))
     | Some (UBreak i' f' out') => Ret (inr (inl (ST out' f' i')))
     end) ->
  (forall out f i, (length out <= length d0)%nat ->
     K (inl (ST out f i)) = mmap (parse_res d0) (lift (finish (length d0) src f out))) ->
  forall fuel i f out, (length out <= length d0)%nat -> (length src - i < fuel)%nat ->
    bind (while fuel c b p (ST out f i)) K = mmap (parse_res d0) (lift (uparse (length d0) fuel src i f out)).
Proof.
  intros ST Hexit Hstep Hafter. induction fuel as [|fuel IH]; intros i f out Ho Hf; [lia|].
  rewrite while_iter, uparse_S.
  destruct (Nat.leb_spec (length src) i) as [Hge|Hlt]; cbn [orb].
  { rewrite Hexit by (auto; lia). cbn [bind]. apply Hafter, Ho. }
  destruct (Nat.ltb_spec (length src - i) 6) as [Hshort|Hroom].
  { rewrite Hexit by (auto; lia). cbn [bind]. apply Hafter, Ho. }
  rewrite Hstep by lia.
  destruct (ustep (length d0) src i f out) as [[i' f' out'|i' f' out']|] eqn:Eg; [| |reflexivity];
    pose proof (ustep_inv _ _ _ _ _ _ Ho Eg) as Hinv; cbn [bind].
  - destruct Hinv as [Hi Ho']. apply IH; [exact Ho'|lia].
  - apply Hafter, Hinv.
Qed.

Lemma is_u_nth src i : (i + 1 < length src)%nat -> is_u src i = Some ((nth i src 0 =? 92) && (nth (i + 1) src 0 =? 117)).
Proof.
  intros H. unfold is_u. rewrite (nth_error_nth' src 0) by lia. rewrite (nth_error_nth' src 0) by lia. reflexivity.
Qed.

Ltac u16_second src i :=
  rewrite (is_u_nth src (i + 6)) by lia;
  rewrite ?(m_get_nat src _ (i + 6)%nat) by lia; rewrite ?(m_get_nat src _ (i + 6 + 1)%nat) by lia;
  rewrite (slice_some src (i + 6 + 2) (i + 6 + 6)) by lia;
  match goal with |- context [m_slice src ?a ?b] => rewrite (m_slice_nat src a b (i + 6 + 2)%nat (i + 6 + 6)%nat) by lia end;
  rewrite code_parseUint by (rewrite ?firstn_length; lia);
  unfold parse_uint; change (maxval 16) with 65535;
  let n2 := fresh "n2" in let j2 := fresh "j2" in let ok2 := fresh "ok2" in let Epu2 := fresh "Epu2" in
  destruct (pu 16 65535 0 0%nat (firstn (i + 6 + 6 - (i + 6 + 2)) (skipn (i + 6 + 2) src))) as [[n2 j2] ok2] eqn:Epu2;
  pose proof (pu_nonneg 16 65535 ltac:(lia) _ 0 0%nat _ _ _ ltac:(lia) Epu2) as Hvnn2;
  pose proof (pu_le 16 65535 ltac:(lia) _ 0 0%nat _ _ _ ltac:(lia) Epu2) as Hvle2; clear Epu2;
  rewrite ?(swrap32_rune n2) by lia.

Ltac u16_shape pk c b p K fuel :=
  lazymatch goal with Hfuel : (length ?src < fuel)%nat |- _ = mmap (parse_res ?d0) _ =>
    let Hexit := fresh "Hexit" in let Hstep := fresh "Hstep" in let Hafter := fresh "Hafter" in
    assert (Hexit : forall out f i, (length out <= length d0)%nat -> (length src <= i \/ length src - i < 6)%nat ->
       iter1 c b p (pk (fill out d0) (Z.of_nat (length out)) (Z.of_nat f) (Z.of_nat i)) =
       Ret (inr (inl (pk (fill out d0) (Z.of_nat (length out)) (Z.of_nat f) (Z.of_nat i)))));
    [ intros; iter_open; unfold zlen; repeat break_if; zb; try reflexivity; exfalso; lia | ];
    assert (Hstep : forall out f i, (length out <= length d0)%nat -> (i < length src)%nat -> (6 <= length src - i)%nat ->
       iter1 c b p (pk (fill out d0) (Z.of_nat (length out)) (Z.of_nat f) (Z.of_nat i)) =
       match ustep (length d0) src i f out with
       | None => Panic
       | Some (UNext i' f' out') => Ret (inl (pk (fill out' d0) (Z.of_nat (length out')) (Z.of_nat f') (Z.of_nat i')))
       | Some (UBreak i' f' out') => Ret (inr (inl (pk (fill out' d0) (Z.of_nat (length out')) (Z.of_nat f') (Z.of_nat i'))))
       end);
    [ let out := fresh "out" in let f := fresh "f" in let i := fresh "i" in
      let Ho := fresh "Ho" in let Hi := fresh "Hi" in let Hroom := fresh "Hroom" in
      intros out f i Ho Hi Hroom; iter_open;
      assert (Hc1 : (Z.of_nat i <? zlen src) = true) by (apply Z.ltb_lt; unfold zlen; lia);
      assert (Hc2 : (zlen src - Z.of_nat i <? 6) = false) by (apply Z.ltb_ge; unfold zlen; lia);
      rewrite ?Hc1, ?Hc2;
      unfold ustep; cbv zeta; rewrite is_u_nth by lia; change (maxval 16) with 65535;
      rewrite ?(m_get_nat src _ i) by lia; rewrite ?(m_get_nat src _ (i + 1)%nat) by lia;
      rewrite (slice_some src (i + 2) (i + 6)) by lia;
      match goal with |- context [m_slice src ?a ?b] => rewrite (m_slice_nat src a b (i + 2)%nat (i + 6)%nat) by lia end;
      rewrite code_parseUint by (rewrite ?firstn_length; lia);
      unfold parse_uint; change (maxval 16) with 65535;
      let n1 := fresh "n1" in let j := fresh "j" in let ok := fresh "ok" in let Epu := fresh "Epu" in
      destruct (pu 16 65535 0 0%nat (firstn (i + 6 - (i + 2)) (skipn (i + 2) src))) as [[n1 j] ok] eqn:Epu;
      pose proof (pu_nonneg 16 65535 ltac:(lia) _ 0 0%nat _ _ _ ltac:(lia) Epu) as Hvnn;
      pose proof (pu_le 16 65535 ltac:(lia) _ 0 0%nat _ _ _ ltac:(lia) Epu) as Hvle; clear Epu;
      rewrite ?(swrap32_rune n1) by lia;
      (* the escape behind a high surrogate is read only when six more bytes are there *)
      destruct (Nat.ltb_spec (length src - (i + 6)) 6); [ | u16_second src i ];
      cbn [pu_res]; unfold flush, write, copy_into, u16_surr1, u16_surr2, u16_surr3, std_utf16_DecodeRune, utf16_decode;
      destruct ok; parse_eval src; parse_leaf
    | ];
    assert (Hafter : forall out f i, (length out <= length d0)%nat ->
       K (inl (pk (fill out d0) (Z.of_nat (length out)) (Z.of_nat f) (Z.of_nat i))) = mmap (parse_res d0) (lift (finish (length d0) src f out)));
    [ let out := fresh "out" in let f := fresh "f" in let i := fresh "i" in let Ho := fresh "Ho" in
      intros out f i Ho; cbv beta iota zeta delta [bind]; unfold finish, copy_into; parse_eval src;
      cbn [mmap lift]; unfold parse_res; parse_leaf
    | ];
    exact (uparse_while pk c b p K src d0 Hexit Hstep Hafter fuel 0%nat 0%nat [] ltac:(cbn [length]; lia) ltac:(lia))
  end.

(* Utf16Parse, branch for branch (the second escape behind a high surrogate, the break at the end of the input, the lone
   surrogates): for every destination, every source and every fuel above the length of the source *)
Theorem code_Utf16Parse : forall fuel dst src, (length src < fuel)%nat ->
  g_Utf16Parse fuel dst src = mmap (parse_res dst) (lift (utf16_parse (length dst) src)).
Proof.
  intros fuel dst src Hf. unfold g_Utf16Parse. set (K1 := g_parseUint). repeat autounfold with go2v. subst K1. step_code.
  unfold utf16_parse.
  rewrite <- (uparse_fuel (length dst) src fuel (S (length src)) 0 0 [] ltac:(lia) ltac:(lia)).
  match goal with |- match while _ ?c ?b ?p ?s0 with Ret a => @?K a | Panic => Panic | NoFuel => NoFuel end = _ =>
    change (bind (while fuel c b p s0) K = mmap (parse_res dst) (lift (uparse (length dst) fuel src 0 0 [])));
    first [ solve [u16_shape (fun (D : list Z) (e f i : Z) => (D, e, f, i)) c b p K fuel]
          | solve [u16_shape (fun (D : list Z) (e f i : Z) => (D, f, e, i)) c b p K fuel] ]
  end.
Qed.

(* ================================================================== UnicodeFormat, Utf16Format (enc.go) *)
(* a loop over the index i of src whose model is a fuelled recursion over the rest of the input: where the model yields a
   result, the generated loop (followed by K) yields the same.  ST packs (what was written, f — dead at the start of an
   iteration —, i); one iteration is given only where the model's step succeeds. *)
Lemma rune_while {St R} (ST : list Z -> Z -> nat -> St) (c : St -> M bool) (b : St -> M (ctl St R)) (p : St -> M St)
    (K : St + R -> M (list Z)) (src : list Z)
    (step : list Z -> list Z -> option (nat * list Z)) (go : nat -> list Z -> list Z -> option (list Z)) (fin : list Z -> list Z) :
  (forall s out, go 0%nat s out = None) ->
  (forall fu s out, go (S fu) s out =
     match s with [] => Some (fin out) | _ :: _ => match step s out with None => None | Some (size, out') => go fu (skipn size s) out' end end) ->
  (forall k out f0 size out', (k < length src)%nat -> step (skipn k src) out = Some (size, out') ->
     exists f1, iter1 c b p (ST out f0 k) = Ret (inl (ST out' f1 (k + size)%nat))) ->
  (forall k out f0, (length src <= k)%nat -> iter1 c b p (ST out f0 k) = Ret (inr (inl (ST out f0 k)))) ->
  (forall out f0 k, K (inl (ST out f0 k)) = Ret (fin out)) ->
  forall fuel k out f0 B, go fuel (skipn k src) out = Some B -> bind (while fuel c b p (ST out f0 k)) K = Ret B.
Proof.
  intros HO HS Hstep Hend HK. induction fuel as [|fuel IH]; intros k out f0 B Hgo; [rewrite HO in Hgo; discriminate|].
  rewrite while_iter. rewrite HS in Hgo.
  destruct (Nat.le_gt_cases (length src) k) as [Hge|Hlt].
  - rewrite skipn_all2 in Hgo by exact Hge. injection Hgo as <-. rewrite Hend by exact Hge. cbn [bind]. apply HK.
  - destruct (skipn k src) as [|x t] eqn:Es; [exfalso; apply (f_equal (@length Z)) in Es; rewrite skipn_length in Es; cbn [length] in Es; lia|].
    rewrite <- Es in Hgo. destruct (step (skipn k src) out) as [[size out']|] eqn:Est; [|discriminate].
    destruct (Hstep k out f0 size out' Hlt Est) as [f1 E]. rewrite E. cbn [bind].
    apply IH. rewrite <- skipn_skipn. exact Hgo.
Qed.

Lemma m_slice_suffix (l : list Z) a k : a = Z.of_nat k -> (k <= length l)%nat -> m_slice l a (zlen l) = Ret (skipn k l).
Proof.
  intros -> H. rewrite m_slice_in by (unfold zlen; lia). unfold zlen. rewrite !Nat2Z.id.
  rewrite firstn_all2 by (rewrite skipn_length; lia). reflexivity.
Qed.
Lemma decode_width_pos b t c w : Utf8.decode (b :: t) = (c, w) -> (1 <= w)%nat.
Proof.
  unfold Utf8.decode. intros H.
  repeat match type of H with
  | context [if ?x then _ else _] => destruct x
  | context [match ?l with [] => _ | _ :: _ => _ end] => destruct l
  end; injection H as _ <-; lia.
Qed.

(* one rune of UnicodeFormat's model *)
Definition uf_step (cap : nat) (s out : list Z) : option (nat * list Z) :=
  match s with
  | [] => None
  | bt :: t =>
      if (length out + 10 <=? cap)%nat then
        if bt <? RuneSelf then
          match append_uint 8 bt 16 with None => None | Some d => Some (1%nat, out ++ 92 :: 85 :: to_upper d) end
        else
          let (c, size) := Utf8.decode s in
          if c =? Utf8.RuneError then Some (size, out ++ 92 :: 85 :: FFFD8)
          else match append_uint 8 c 16 with None => None | Some d => Some (size, out ++ 92 :: 85 :: to_upper d) end
      else None
  end.
Lemma unicode_go_step fu cap s out :
  unicode_format_go (S fu) cap s out =
  match s with [] => Some (pad_to cap out) | _ :: _ => match uf_step cap s out with None => None | Some (size, out') => unicode_format_go fu cap (skipn size s) out' end end.
Proof.
  rewrite unicode_format_go_S. destruct s as [|bt t]; [reflexivity|]. unfold uf_step.
  destruct (length out + 10 <=? cap)%nat; [|reflexivity]. destruct (bt <? RuneSelf).
  - destruct (append_uint 8 bt 16); reflexivity.
  - destruct (Utf8.decode (bt :: t)) as [c size]. destruct (c =? Utf8.RuneError); [reflexivity|]. destruct (append_uint 8 c 16); reflexivity.
Qed.

Lemma bind_while_more {S R A} (c : S -> M bool) (b : S -> M (ctl S R)) (p : S -> M S) (K : S + R -> M A) f f' s B :
  bind (while f c b p s) K = Ret B -> (f <= f')%nat -> bind (while f' c b p s) K = Ret B.
Proof.
  intros H Hle. destruct (while f c b p s) as [lr| |] eqn:E; try discriminate.
  replace f' with (f + (f' - f))%nat by lia. rewrite (while_more c b p (f' - f) f s lr E). exact H.
Qed.
Lemma bytes_skipn (s : list Z) k : bytes s -> bytes (skipn k s).
Proof. intros Hb. unfold bytes in *. rewrite <- (firstn_skipn k s) in Hb. apply Forall_app in Hb. apply Hb. Qed.
Ltac fmt_done := rewrite <- ?app_assoc; cbn [app]; repeat f_equal; first [reflexivity | pad_side].

Ltac uf_shape pk c b p K fuel :=
  lazymatch goal with Hb : bytes ?s, Hm : unicode_format_go _ ?cap ?s [] = Some ?B |- _ = Ret ?B =>
    let ST := constr:(fun (out : list Z) (f0 : Z) (k : nat) => pk (pad_to cap out) (Z.of_nat (length out)) f0 (Z.of_nat k)) in
    let H1 := fresh "H1" in let H2 := fresh "H2" in
    assert (H1 : forall k out f0 size out', (k < length s)%nat -> uf_step cap (skipn k s) out = Some (size, out') ->
       exists f1, iter1 c b p (ST out f0 k) = Ret (inl (ST out' f1 (k + size)%nat)));
    [ let k := fresh "k" in let out := fresh "out" in let f0 := fresh "f0" in let size := fresh "size" in let out' := fresh "out'" in
      let Hk := fresh "Hk" in let Hstep := fresh "Hstep" in
      intros k out f0 size out' Hk Hstep; cbv beta; eexists; iter_open;
      assert (Hl : (Z.of_nat k <? zlen s) = true) by (apply Z.ltb_lt; unfold zlen; lia); rewrite Hl;
      pose proof (nth_byte s k Hb Hk) as Hbt; pose proof (bytes_skipn s k Hb) as Hsb;
      rewrite (m_get_nat s _ k) by lia; rewrite ?(m_slice_suffix s _ k) by lia;
      unfold uf_step in Hstep; rewrite (skipn_cons_nth s k Hk) in Hstep; rewrite <- (skipn_cons_nth s k Hk) in Hstep;
      destruct (Nat.leb_spec (length out + 10) cap) as [Hroom|]; [|discriminate Hstep];
      unfold RuneSelf in Hstep; unfold std_utf8_DecodeRune;
      destruct (nth k s 0 <? 128) eqn:Ea;
      [ destruct (append_uint 8 (nth k s 0) 16) as [d|] eqn:Ed; [|discriminate Hstep]; injection Hstep as <- <-;
        pose proof (append_uint_length _ _ _ _ Ed) as Hdl; assert (Hdb : bytes d) by (eapply append_uint_bytes; [|exact Ed]; lia);
        fmt_iter s 8%nat fuel; rewrite ?Ed; cbn [lift]; fmt_iter s 8%nat fuel; fmt_done
      | destruct (Utf8.decode (skipn k s)) as [cc w] eqn:Edec;
        assert (Hc : 0 <= cc < 4294967296) by
          (destruct (decode_range _ _ _ Edec) as [H|(b0 & t0 & E & Hneg)]; [exact H|exfalso; rewrite (skipn_cons_nth s k Hk) in E; injection E as E _; lia]);
        unfold Utf8.RuneError in Hstep;
        destruct (cc =? 65533) eqn:Ec;
        [ injection Hstep as <- <-; fmt_iter s 8%nat fuel; unfold FFFD8; fmt_done
        | destruct (append_uint 8 cc 16) as [d|] eqn:Ed; [|discriminate Hstep]; injection Hstep as <- <-;
          pose proof (append_uint_length _ _ _ _ Ed) as Hdl; assert (Hdb : bytes d) by (eapply append_uint_bytes; [|exact Ed]; lia);
          rewrite (wrap_small 64 cc) by (change (2 ^ 64) with 18446744073709551616; lia);
          fmt_iter s 8%nat fuel; rewrite ?Ed; cbn [lift]; fmt_iter s 8%nat fuel; fmt_done ] ]
    | ];
    assert (H2 : forall k out f0, (length s <= k)%nat -> iter1 c b p (ST out f0 k) = Ret (inr (inl (ST out f0 k))));
    [ intros; cbv beta; iter_open; unfold zlen; repeat break_if; zb; try reflexivity; exfalso; lia | ];
    apply (bind_while_more c b p K (S (length s)) fuel); [|lia];
    exact (rune_while ST c b p K s (uf_step cap) (fun fu s0 out => unicode_format_go fu cap s0 out) (pad_to cap)
             (fun _ _ => eq_refl) (fun fu s0 out => unicode_go_step fu cap s0 out) H1 H2 (fun _ _ _ => eq_refl)
             (S (length s)) 0%nat [] 0 B Hm)
  end.

(* UnicodeFormat: every byte string, every fuel above its length (and above 8: toUpper runs over the eight digits with the
   caller's fuel).  The model's answer on byte strings is total (Proofs/CodecFormat.v); the generated loop is shown to reach
   it, one rune per iteration. *)
Theorem code_UnicodeFormat : forall fuel s, bytes s -> (length s < fuel)%nat -> (8 < fuel)%nat -> g_UnicodeFormat fuel s = lift (unicode_format s).
Proof.
  intros fuel s Hb Hf Hf8. unfold g_UnicodeFormat. set (K1 := g_appendUint). set (K2 := g_toUpper). repeat autounfold with go2v. subst K1 K2. step_code.
  unfold std_utf8_RuneCount. rewrite m_make_ok by lia. step_code.
  pose proof (unicode_format_shape s Hb) as Hm. rewrite Hm. cbn [lift]. unfold unicode_format in Hm.
  replace (Z.to_nat (Z.of_nat (Utf8.rune_count s) * 10)) with (Utf8.rune_count s * 10)%nat by lia.
  rewrite make_pad. set (cap := (Utf8.rune_count s * 10)%nat) in *.
  match goal with |- match while _ ?c ?b ?p ?s0 with Ret a => @?K a | Panic => Panic | NoFuel => NoFuel end = _ =>
    change (bind (while fuel c b p s0) K = Ret (s_unicode_format s));
    first [ solve [uf_shape (fun (B : list Z) (j f i : Z) => (B, j, f, i)) c b p K fuel]
          | solve [uf_shape (fun (B : list Z) (j f i : Z) => (B, j, i)) c b p K fuel] ]
  end.
Qed.

(* ---- Utf16Format: the buffer grows by append; what was written is the whole buffer *)
Lemma app_esc_split (l : list Z) : l ++ [92; 117; 48; 48; 48; 48] = (l ++ [92; 117]) ++ [48; 48; 48; 48].
Proof. rewrite <- app_assoc. reflexivity. Qed.
Lemma m_slice_app_tail (pre d : list Z) a b : a = Z.of_nat (length pre) -> b = a + Z.of_nat (length d) -> m_slice (pre ++ d) a b = Ret d.
Proof.
  intros -> ->. rewrite m_slice_in by (unfold zlen; rewrite ?app_length; lia). f_equal.
  replace (Z.to_nat (Z.of_nat (length pre) + Z.of_nat (length d)) - Z.to_nat (Z.of_nat (length pre)))%nat with (length d) by lia.
  rewrite Nat2Z.id, skipn_app, skipn_all, Nat.sub_diag. cbn [skipn app]. apply firstn_all.
Qed.
Lemma splice_app_tail (pre d x : list Z) a b : a = Z.of_nat (length pre) -> b = a + Z.of_nat (length d) -> splice (pre ++ d) a b x = pre ++ x.
Proof.
  intros -> ->. unfold splice. rewrite Nat2Z.id.
  replace (Z.to_nat (Z.of_nat (length pre) + Z.of_nat (length d))) with (length (pre ++ d)) by (rewrite app_length; lia).
  rewrite firstn_app, firstn_all, Nat.sub_diag, skipn_all. cbn [firstn]. rewrite !app_nil_r. reflexivity.
Qed.
Lemma m_copy_app_tail (pre d lit : list Z) a b : a = Z.of_nat (length pre) -> b = a + Z.of_nat (length d) -> length lit = length d ->
  m_copy (pre ++ d) a b lit = Ret (pre ++ lit, Z.of_nat (length lit)).
Proof.
  intros -> -> Hl. rewrite m_copy_in by (unfold zlen; rewrite ?app_length; lia). rewrite Nat2Z.id.
  replace (Z.to_nat (Z.of_nat (length pre) + Z.of_nat (length d))) with (length (pre ++ d)) by (rewrite app_length; lia).
  rewrite firstn_app, firstn_all, Nat.sub_diag, skipn_all. cbn [firstn]. rewrite !app_nil_r.
  rewrite skipn_app, skipn_all, Nat.sub_diag. cbn [skipn app].
  rewrite firstn_all2 by (rewrite app_length; lia). rewrite gocopy_same by lia. rewrite Hl, Nat.min_id. reflexivity.
Qed.
Lemma m_make_cap_0 c : 0 <= c -> m_make_cap 0 c = Ret [].
Proof. intros H. unfold m_make_cap. destruct (Z.ltb_spec c 0); [lia|]. reflexivity. Qed.

Definition u16f_step (s out : list Z) : option (nat * list Z) :=
  match s with
  | [] => None
  | bt :: t =>
      if bt <? RuneSelf then
        match append_uint 4 bt 16 with None => None | Some d => Some (1%nat, out ++ u_esc (to_upper d)) end
      else
        let (c, size) := Utf8.decode s in
        if c =? Utf8.RuneError then Some (size, out ++ u_esc FFFD4)
        else if ((0 <=? c) && (c <? 55296)) || ((57344 <=? c) && (c <? 65536)) then
          match append_uint 4 c 16 with None => None | Some d => Some (size, out ++ u_esc (to_upper d)) end
        else if (65536 <=? c) && (c <=? MaxRune) then
          let (r1, r2) := utf16_encode c in
          match append_uint 4 r1 16, append_uint 4 r2 16 with
          | Some d1, Some d2 => Some (size, out ++ u_esc (to_upper d1) ++ u_esc (to_upper d2))
          | _, _ => None
          end
        else Some (size, out ++ u_esc FFFD4)
  end.
Lemma utf16_go_step fu s out :
  utf16_format_go (S fu) s out =
  match s with [] => Some out | _ :: _ => match u16f_step s out with None => None | Some (size, out') => utf16_format_go fu (skipn size s) out' end end.
Proof.
  rewrite utf16_format_go_S. destruct s as [|bt t]; [reflexivity|]. unfold u16f_step.
  destruct (bt <? RuneSelf).
  - destruct (append_uint 4 bt 16); reflexivity.
  - destruct (Utf8.decode (bt :: t)) as [c size]. cbv zeta. destruct (c =? Utf8.RuneError); [reflexivity|].
    destruct ((0 <=? c) && (c <? 55296) || (57344 <=? c) && (c <? 65536)); [destruct (append_uint 4 c 16); reflexivity|].
    destruct ((65536 <=? c) && (c <=? MaxRune)); [|reflexivity].
    destruct (utf16_encode c) as [r1 r2]. destruct (append_uint 4 r1 16); [|reflexivity]. destruct (append_uint 4 r2 16); reflexivity.
Qed.

Ltac u16f_iter :=
  repeat first
    [ erewrite m_slice_app_tail by pad_side
    | rewrite code_appendUint by (first [lia | (cbn [length]; lia)])
    | erewrite splice_app_tail by pad_side
    | rewrite code_toUpper by (first [eassumption | pad_side])
    | erewrite m_copy_app_tail by pad_side
    | rewrite app_esc_split
    | progress step_code ].
Ltac u16f_done := unfold u_esc, FFFD4; rewrite <- ?app_assoc; cbn [app]; repeat f_equal; first [reflexivity | pad_side].
(* the model side decides the branch; then the code is opened and evaluated along it *)
Ltac u16f_open s k Hl :=
  eexists; iter_open; rewrite Hl; rewrite (m_get_nat s _ k) by lia; rewrite ?(m_slice_suffix s _ k) by lia;
  unfold std_utf8_DecodeRune; rewrite ?app_esc_split.

Ltac u16f_shape pk c b p K fuel :=
  lazymatch goal with Hb : bytes ?s, Hm : utf16_format_go _ ?s [] = Some ?B |- _ = Ret ?B =>
    let ST := constr:(fun (out : list Z) (f0 : Z) (k : nat) => pk out (Z.of_nat (length out)) f0 (Z.of_nat k)) in
    let H1 := fresh "H1" in let H2 := fresh "H2" in
    assert (H1 : forall k out f0 size out', (k < length s)%nat -> u16f_step (skipn k s) out = Some (size, out') ->
       exists f1, iter1 c b p (ST out f0 k) = Ret (inl (ST out' f1 (k + size)%nat)));
    [ let k := fresh "k" in let out := fresh "out" in let f0 := fresh "f0" in let size := fresh "size" in let out' := fresh "out'" in
      let Hk := fresh "Hk" in let Hstep := fresh "Hstep" in
      intros k out f0 size out' Hk Hstep; cbv beta;
      assert (Hl : (Z.of_nat k <? zlen s) = true) by (apply Z.ltb_lt; unfold zlen; lia);
      pose proof (nth_byte s k Hb Hk) as Hbt; pose proof (bytes_skipn s k Hb) as Hsb;
      unfold u16f_step in Hstep; rewrite (skipn_cons_nth s k Hk) in Hstep; rewrite <- (skipn_cons_nth s k Hk) in Hstep;
      unfold RuneSelf, MaxRune, Utf8.RuneError in Hstep;
      destruct (nth k s 0 <? 128) eqn:Ea;
      [ destruct (append_uint 4 (nth k s 0) 16) as [d|] eqn:Ed; [|discriminate Hstep]; injection Hstep as <- <-;
        pose proof (append_uint_length _ _ _ _ Ed) as Hdl; assert (Hdb : bytes d) by (eapply append_uint_bytes; [|exact Ed]; lia);
        u16f_open s k Hl; rewrite ?Ea;
        u16f_iter; cbn [length]; rewrite ?Ed; cbn [lift]; u16f_iter; u16f_done
      | destruct (Utf8.decode (skipn k s)) as [cc w] eqn:Edec;
        assert (Hc : 0 <= cc < 4294967296) by
          (destruct (decode_range _ _ _ Edec) as [H|(b0 & t0 & E & Hneg)]; [exact H|exfalso; rewrite (skipn_cons_nth s k Hk) in E; injection E as E _; lia]);
        destruct (cc =? 65533) eqn:Ec;
        [ injection Hstep as <- <-; u16f_open s k Hl; rewrite ?Ea, ?Edec; step_code; rewrite ?Ec; u16f_iter; u16f_done
        | destruct ((0 <=? cc) && (cc <? 55296) || (57344 <=? cc) && (cc <? 65536)) eqn:Ebmp;
          [ destruct (append_uint 4 cc 16) as [d|] eqn:Ed; [|discriminate Hstep]; injection Hstep as <- <-;
            pose proof (append_uint_length _ _ _ _ Ed) as Hdl; assert (Hdb : bytes d) by (eapply append_uint_bytes; [|exact Ed]; lia);
            u16f_open s k Hl; rewrite ?Ea, ?Edec; step_code; rewrite ?Ec, ?Ebmp;
            rewrite (wrap_small 64 cc) by (change (2 ^ 64) with 18446744073709551616; lia);
            u16f_iter; cbn [length]; rewrite ?Ed; cbn [lift]; u16f_iter; u16f_done
          | destruct ((65536 <=? cc) && (cc <=? 1114111)) eqn:Esup;
            [ assert (Hcc : 65536 <= cc <= 1114111) by (apply andb_true_iff in Esup; destruct Esup; zb; lia);
              rewrite (utf16_encode_pair cc Hcc) in Hstep;
              assert (Hhi : 0 <= hi_s cc < 65536) by (unfold hi_s; lia_dm);
              assert (Hlo : 0 <= lo_s cc < 65536) by (unfold lo_s; lia_dm);
              destruct (append_uint 4 (hi_s cc) 16) as [d1|] eqn:Ed1; [|discriminate Hstep];
              destruct (append_uint 4 (lo_s cc) 16) as [d2|] eqn:Ed2; [|discriminate Hstep]; injection Hstep as <- <-;
              pose proof (append_uint_length _ _ _ _ Ed1) as Hdl1; assert (Hdb1 : bytes d1) by (eapply append_uint_bytes; [|exact Ed1]; lia);
              pose proof (append_uint_length _ _ _ _ Ed2) as Hdl2; assert (Hdb2 : bytes d2) by (eapply append_uint_bytes; [|exact Ed2]; lia);
              u16f_open s k Hl; rewrite ?Ea, ?Edec; step_code; rewrite ?Ec, ?Ebmp, ?Esup;
              change (std_utf16_EncodeRune cc) with (utf16_encode cc); rewrite (utf16_encode_pair cc Hcc); step_code;
              rewrite !(wrap_small 64) by (change (2 ^ 64) with 18446744073709551616; lia);
              u16f_iter; cbn [length]; rewrite ?Ed1; cbn [lift]; u16f_iter; cbn [length]; rewrite ?Ed2; cbn [lift]; u16f_iter;
              u16f_done
            | injection Hstep as <- <-; u16f_open s k Hl; rewrite ?Ea, ?Edec; step_code; rewrite ?Ec, ?Ebmp, ?Esup; u16f_iter; u16f_done ] ] ] ]
    | ];
    assert (H2 : forall k out f0, (length s <= k)%nat -> iter1 c b p (ST out f0 k) = Ret (inr (inl (ST out f0 k))));
    [ intros; cbv beta; iter_open; unfold zlen; repeat break_if; zb; try reflexivity; exfalso; lia | ];
    apply (bind_while_more c b p K (S (length s)) fuel); [|lia];
    exact (rune_while ST c b p K s u16f_step utf16_format_go (fun out => out)
             (fun _ _ => eq_refl) utf16_go_step H1 H2 (fun _ _ _ => eq_refl)
             (S (length s)) 0%nat [] 0 B Hm)
  end.

(* Utf16Format: every byte string, every fuel above its length (and above 4: toUpper over the four digits) *)
Theorem code_Utf16Format : forall fuel s, bytes s -> (length s < fuel)%nat -> (4 < fuel)%nat -> g_Utf16Format fuel s = lift (utf16_format s).
Proof.
  intros fuel s Hb Hf Hf4. unfold g_Utf16Format. set (K1 := g_appendUint). set (K2 := g_toUpper). repeat autounfold with go2v. subst K1 K2. step_code.
  unfold std_utf8_RuneCount. rewrite m_make_cap_0 by lia. step_code.
  pose proof (utf16_format_shape s Hb) as Hm. rewrite Hm. cbn [lift]. unfold utf16_format in Hm.
  match goal with |- match while _ ?c ?b ?p ?s0 with Ret a => @?K a | Panic => Panic | NoFuel => NoFuel end = _ =>
    change (bind (while fuel c b p s0) K = Ret (s_utf16_format s));
    first [ solve [u16f_shape (fun (B : list Z) (j f i : Z) => (B, j, f, i)) c b p K fuel]
          | solve [u16f_shape (fun (B : list Z) (j f i : Z) => (B, j, i)) c b p K fuel] ]
  end.
Qed.

(* ================================================================== the case interpreter through the generated code *)
Lemma all_bytes_bytes s : all_bytes s = true -> bytes s.
Proof.
  intros H. unfold all_bytes in H. rewrite forallb_forall in H. apply Forall_forall. intros c Hc. specialize (H c Hc).
  apply andb_true_iff in H. destruct H as [H1 H2]. zb. unfold is_byte. lia.
Qed.
Lemma g_format_model k s : bytes s -> 0 <= k < 2 -> g_format k s = lift (m_format k s).
Proof.
  intros Hb Hk. unfold g_format, m_format, fuel_for. destruct (Z.eqb_spec k 0) as [->|Hne].
  - apply code_OctalFormat; [exact Hb|lia].
  - destruct (Z.eqb_spec k 1); [|lia]. apply code_HexFormat; [exact Hb|lia|lia].
Qed.
Lemma slice_fill out d0 : m_slice (fill out d0) 0 (zlen out) = Ret out.
Proof.
  unfold fill. rewrite m_slice_in by (unfold zlen; rewrite ?app_length; lia). unfold zlen. rewrite Nat2Z.id.
  change (Z.to_nat 0) with 0%nat. cbn [skipn]. rewrite Nat.sub_0_r, firstn_app, firstn_all, Nat.sub_diag. cbn [firstn]. rewrite app_nil_r. reflexivity.
Qed.
Lemma g_parse_model k dl s : 0 <= k < 2 -> g_parse k dl s = lift (m_parse k dl s).
Proof.
  intros Hk. unfold g_parse, m_parse, fuel_for.
  assert (E : forall o : option (list Z),
            bind (mmap (parse_res (repeat 0 dl)) (lift o)) (fun x => let '(d, n) := x in m_slice d 0 n) = lift o).
  { intros [out|]; [|reflexivity]. cbn [lift mmap bind]. unfold parse_res. apply slice_fill. }
  destruct (Z.eqb_spec k 0) as [->|Hne].
  - rewrite code_OctalParse by lia. rewrite repeat_length. apply E.
  - destruct (Z.eqb_spec k 1); [|lia]. rewrite code_HexParse by lia. rewrite repeat_length. apply E.
Qed.

(* what the check executes as `entry 0` IS the generated code for the octal and hex operations *)
Theorem entry_code_is_entry : forall sub args, entry_code sub args = entry sub args.
Proof.
  intros sub args. unfold entry_code, entry. destruct args as [|op [|variant [|dl rest]]]; try reflexivity.
  cbv zeta. set (s := fst (get_list rest)).
  destruct (negb (all_bytes s) || (op <? 0) || (11 <? op) || (dl <? 0)) eqn:Ebad; [reflexivity|].
  destruct (Z.eqb_spec sub 0) as [->|Hsub]; cbn [negb]; [|reflexivity].
  change (0 =? 0) with true. cbv iota.
  assert (Hb : bytes s).
  { apply all_bytes_bytes. destruct (all_bytes s); [reflexivity|discriminate Ebad]. }
  destruct (Z.ltb_spec op 2); destruct (Z.ltb_spec op 4); try lia.
  { rewrite g_format_model by (auto; lia). destruct (m_format op s); reflexivity. }
  { destruct (Z.leb_spec 4 op); [lia|]. destruct (Z.leb_spec 8 op); [lia|]. reflexivity. }
  destruct (Z.leb_spec 4 op); [|lia]. destruct (Z.ltb_spec op 6); destruct (Z.ltb_spec op 8); try lia; cbn [andb].
  { rewrite g_parse_model by lia. destruct (m_parse (op - 4) _ s); reflexivity. }
  { destruct (Z.leb_spec 8 op); [lia|]. reflexivity. }
  destruct (Z.leb_spec 8 op); [|lia]. destruct (Z.ltb_spec op 10); cbn [andb]; [|reflexivity].
  unfold g_roundtrip, m_roundtrip. rewrite g_format_model by (auto; lia).
  destruct (m_format (op - 8) s) as [e|]; [|reflexivity]. cbn [lift bind]. rewrite g_parse_model by lia.
  destruct (m_parse (op - 8) (length e) e); reflexivity.
Qed.

(* in-kernel anchors: the generated code computes (same cases as the anchors of Run/C07.v) *)
Example anchor_octal_code : entry_code 0 [4; 1; 0; 9; 92;49;48;49;92;55;55;55;113] = [65;92;55;55;55;113].
Proof. vm_compute. reflexivity. Qed.
Example anchor_hex_short_code : entry_code 0 [5; 0; 2; 9; 92;120;52;49;92;120;52;90;113] = [65; 92].
Proof. vm_compute. reflexivity. Qed.
Example anchor_hex_panic_code : entry_code 0 [5; 0; 0; 4; 92;120;52;49] = [PANIC].
Proof. vm_compute. reflexivity. Qed.
Example anchor_hexfmt_code : entry_code 0 [1; 0; 0; 2; 65; 255] = [92;120;52;49; 92;120;70;70].
Proof. vm_compute. reflexivity. Qed.
Example anchor_rt_code : entry_code 0 [8; 0; 0; 3; 0; 92; 255] = [0; 92; 255].
Proof. vm_compute. reflexivity. Qed.
