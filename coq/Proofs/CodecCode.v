(* C07, generated code = hand model: the case interpreter of the correspondence run through the generated functions
   (the function-by-function theorems are in Proofs/CodecCodeBase.v, CodecCodeFormat.v, CodecCodeParse.v, CodecCodeU16.v). *)
From Coq Require Import List ZArith Lia Bool Arith.
From V Require Import Lib.Enc Lib.GoSem Lib.GoSemStd Proofs.GoSemFacts Gen.Codec Gen.CodecCode Model.Codec Proofs.CodecBase Proofs.CodecFormat Proofs.CodecCodeBase Proofs.CodecCodeFormat Proofs.CodecCodeParseBase Proofs.CodecCodeParse Proofs.CodecCodeU16 Run.C07 Run.C07Code.
Import ListNotations.
Local Open Scope Z_scope.
Arguments Z.mul : simpl never.
Arguments Z.add : simpl never.
Arguments Z.sub : simpl never.
Arguments Z.div : simpl never.
Arguments Z.modulo : simpl never.
Arguments Z.pow : simpl never.
Arguments Z.quot : simpl never.
Arguments Z.rem : simpl never.
Arguments Z.of_nat : simpl never.
Arguments Z.to_nat : simpl never.
Ltac Zify.zify_post_hook ::= idtac.
(* ================================================================== the case interpreter through the generated code *)
Lemma all_bytes_bytes s : all_bytes s = true -> bytes s.
Proof.
  intros H. unfold all_bytes in H. rewrite forallb_forall in H. apply Forall_forall. intros c Hc. specialize (H c Hc).
  apply andb_true_iff in H. destruct H as [H1 H2]. zb. unfold is_byte. lia.
Qed.
Lemma g_format_model k s : bytes s -> 0 <= k < 4 -> g_format k s = lift (m_format k s).
Proof.
  intros Hb Hk. unfold g_format, m_format, fuel_for. destruct (Z.eqb_spec k 0) as [->|H0].
  { apply code_OctalFormat; [exact Hb|lia]. }
  destruct (Z.eqb_spec k 1) as [->|H1]. { apply code_HexFormat; [exact Hb|lia|lia]. }
  destruct (Z.eqb_spec k 2) as [->|H2]. { apply code_UnicodeFormat; [exact Hb|lia|lia]. }
  apply code_Utf16Format; [exact Hb|lia|lia].
Qed.
Lemma slice_fill out d0 : m_slice (fill out d0) 0 (zlen out) = Ret out.
Proof.
  unfold fill. rewrite m_slice_in by (unfold zlen; rewrite ?app_length; lia). unfold zlen. rewrite Nat2Z.id.
  change (Z.to_nat 0) with 0%nat. cbn [skipn]. rewrite Nat.sub_0_r, firstn_app, firstn_all, Nat.sub_diag. cbn [firstn]. rewrite app_nil_r. reflexivity.
Qed.
Lemma g_parse_model k dl s : 0 <= k < 4 -> g_parse k dl s = lift (m_parse k dl s).
Proof.
  intros Hk. unfold g_parse, m_parse, fuel_for.
  assert (E : forall o : option (list Z),
            bind (mmap (parse_res (repeat 0 dl)) (lift o)) (fun x => let '(d, n) := x in m_slice d 0 n) = lift o).
  { intros [out|]; [|reflexivity]. cbn [lift mmap bind]. unfold parse_res. apply slice_fill. }
  destruct (Z.eqb_spec k 0) as [->|H0]. { rewrite code_OctalParse by lia. rewrite repeat_length. apply E. }
  destruct (Z.eqb_spec k 1) as [->|H1]. { rewrite code_HexParse by lia. rewrite repeat_length. apply E. }
  destruct (Z.eqb_spec k 2) as [->|H2]. { rewrite code_UnicodeParse by lia. rewrite repeat_length. apply E. }
  rewrite code_Utf16Parse by lia. rewrite repeat_length. apply E.
Qed.

(* what the check executes as `entry 0` IS the generated code, for all twelve operations *)
Theorem entry_code_is_entry : forall sub args, entry_code sub args = entry sub args.
Proof.
  intros sub args. unfold entry_code, entry. destruct args as [|op [|variant [|dl rest]]]; try reflexivity.
  cbv zeta. set (s := fst (get_list rest)).
  destruct (negb (all_bytes s) || (op <? 0) || (11 <? op) || (dl <? 0)) eqn:Ebad; [reflexivity|].
  destruct (Z.eqb_spec sub 0) as [->|Hsub]; cbn [negb]; [|reflexivity].
  change (0 =? 0) with true. cbv iota.
  assert (Hb : bytes s).
  { apply all_bytes_bytes. destruct (all_bytes s); [reflexivity|discriminate Ebad]. }
  apply orb_false_iff in Ebad. destruct Ebad as [Ebad Edl]. apply orb_false_iff in Ebad. destruct Ebad as [Ebad Ehi].
  apply orb_false_iff in Ebad. destruct Ebad as [_ Elo]. zb.
  destruct (Z.ltb_spec op 4).
  { rewrite g_format_model by (auto; lia). destruct (m_format op s); reflexivity. }
  destruct (Z.ltb_spec op 8).
  { rewrite g_parse_model by lia. destruct (m_parse (op - 4) _ s); reflexivity. }
  unfold g_roundtrip, m_roundtrip. rewrite g_format_model by (auto; lia).
  destruct (m_format (op - 8) s) as [e|]; [|reflexivity]. cbn [lift bind]. rewrite g_parse_model by lia.
  destruct (m_parse (op - 8) (length e) e); reflexivity.
Qed.

(* in-kernel anchors: the generated code computes (same cases as the anchors of Run/C07.v) *)
Example anchor_octal_code : entry_code 0 [4; 1; 0; 9; 92;49;48;49;92;55;55;55;113] = [65;92;55;55;55;113].
Proof. vm_compute. reflexivity. Qed.
Example anchor_hex_short_code : entry_code 0 [5; 0; 2; 9; 92;120;52;49;92;120;52;90;113] = [65; 92].
Proof. vm_compute. reflexivity. Qed.
Example anchor_hex_panic_code : entry_code 0 [5; 0; 0; 4; 92;120;52;49] = [PANIC].
Proof. vm_compute. reflexivity. Qed.
Example anchor_hexfmt_code : entry_code 0 [1; 0; 0; 2; 65; 255] = [92;120;52;49; 92;120;70;70].
Proof. vm_compute. reflexivity. Qed.
Example anchor_rt_code : entry_code 0 [8; 0; 0; 3; 0; 92; 255] = [0; 92; 255].
Proof. vm_compute. reflexivity. Qed.
Example anchor_u16fmt_code : entry_code 0 [3; 0; 0; 6; 65;240;159;152;128;255] =
  [92;117;48;48;52;49; 92;117;68;56;51;68; 92;117;68;69;48;48; 92;117;70;70;70;68].
Proof. vm_compute. reflexivity. Qed.
Example anchor_u16quirk_code : entry_code 0 [7; 1; 0; 12; 92;117;68;56;51;68;92;117;48;48;52;49] = [92;117;68;56;51;68;92;117;48;48;52;49].
Proof. vm_compute. reflexivity. Qed.
Example anchor_rt_unicode_code : entry_code 0 [10; 0; 0; 1; 255] = [239; 191; 189].
Proof. vm_compute. reflexivity. Qed.
